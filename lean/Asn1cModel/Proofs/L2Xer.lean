import Asn1cModel.L2.Xer
import Asn1cModel.Proofs.L2Der
/-
  Helper lemmas for Props/C01Xer.lean: the tokenizer (`nextTok`) on rendered tags / text, `checkTag` on
  rendered tags, `decGeneral` steps, primitive bodies, and the round trip of the constructed types.
-/
namespace Asn1c.Proofs.L2Xer
open Asn1c Asn1c.L2 Asn1c.L2.Xer

/-! ## characters and names -/

/-- characters that may appear inside a rendered tag name -/
def plainCh (c : Nat) : Bool :=
  c ≠ cLT && c ≠ cGT && c ≠ 0x3d && c ≠ cSL && !isWsX c && c ≠ 0 && c ≠ 11

/-- an XML tag name as the encoder writes it: starts with a letter, no markup characters / white space / NUL -/
def nameOk (n : Bytes) : Bool :=
  match n with
  | [] => false
  | c :: r => isAlphaX c && (c :: r).all plainCh

theorem nameOk_ne_nil {n : Bytes} (h : nameOk n = true) : n ≠ [] := by
  cases n <;> simp [nameOk] at h ⊢

theorem nameOk_cons {n : Bytes} (h : nameOk n = true) :
    ∃ c r, n = c :: r ∧ isAlphaX c = true ∧ plainCh c = true ∧ r.all plainCh = true := by
  cases n with
  | nil => simp [nameOk] at h
  | cons c r =>
    simp only [nameOk, List.all_cons, Bool.and_eq_true] at h
    exact ⟨c, r, rfl, h.1, h.2.1, h.2.2⟩

theorem nameOk_all {n : Bytes} (h : nameOk n = true) : n.all plainCh = true := by
  obtain ⟨c, r, rfl, _, h2, h3⟩ := nameOk_cons h
  simp [h2, h3]

theorem plainCh_ne {c : Nat} (h : plainCh c = true) :
    c ≠ cLT ∧ c ≠ cGT ∧ c ≠ 0x3d ∧ c ≠ cSL ∧ isWsX c = false ∧ c ≠ 0 := by
  simp only [plainCh, Bool.and_eq_true, decide_eq_true_eq, Bool.not_eq_true', ne_eq] at h
  obtain ⟨⟨⟨⟨⟨⟨a, b⟩, c1⟩, d⟩, e⟩, f⟩, _⟩ := h
  exact ⟨a, b, c1, d, e, f⟩

theorem plainCh_ne11 {c : Nat} (h : plainCh c = true) : c ≠ 11 := by
  simp only [plainCh, Bool.and_eq_true, decide_eq_true_eq, Bool.not_eq_true', ne_eq] at h
  exact h.2

/-! ## tokenizer -/

theorem scan_text (txt : Bytes) (htxt : ∀ c ∈ txt, c ≠ cLT) (r : Bytes) :
    ∀ n, 0 < n + txt.length → scan .text n (txt ++ cLT :: r) = some (.text, n + txt.length) := by
  induction txt with
  | nil =>
    intro n hn
    have : n ≠ 0 := by simp at hn; omega
    simp [scan, this]
  | cons c cs ih =>
    intro n _
    have hc : c ≠ cLT := htxt c (by simp)
    have := ih (fun x hx => htxt x (by simp [hx])) (n + 1) (by omega)
    simp only [List.cons_append, scan, hc, if_false, this, List.length_cons]
    congr 2; omega

theorem nextTok_text (txt : Bytes) (hne : txt ≠ []) (htxt : ∀ c ∈ txt, c ≠ cLT) (r : Bytes) :
    nextTok (txt ++ cLT :: r) = some (.text, txt, cLT :: r) := by
  have hl : 0 < txt.length := List.length_pos_iff.mpr hne
  simp only [nextTok, scan_text txt htxt r 0 (by omega), Nat.zero_add]
  simp

theorem scan_tagBody (body : Bytes) (hb : body.all plainCh = true) (r : Bytes) :
    ∀ n, scan .tagBody n (body ++ cGT :: r) = some (.tag, n + body.length + 1) := by
  induction body with
  | nil => intro n; simp [scan]
  | cons c cs ih =>
    intro n
    simp only [List.all_cons, Bool.and_eq_true] at hb
    obtain ⟨h1, h2, h3, -, -, -⟩ := plainCh_ne hb.1
    simp only [List.cons_append, scan, h2, h1, h3, if_false, ih hb.2, List.length_cons]
    congr 2; omega

theorem scan_tagBody_slash (body : Bytes) (hb : body.all plainCh = true) (r : Bytes) :
    ∀ n, scan .tagBody n (body ++ cSL :: cGT :: r) = some (.tag, n + body.length + 2) := by
  induction body with
  | nil => intro n; simp [scan, cSL, cGT, cLT]
  | cons c cs ih =>
    intro n
    simp only [List.all_cons, Bool.and_eq_true] at hb
    obtain ⟨h1, h2, h3, -, -, -⟩ := plainCh_ne hb.1
    simp only [List.cons_append, scan, h2, h1, h3, if_false, ih hb.2, List.length_cons]
    congr 2; omega

theorem nextTok_of_scan (chunk r : Bytes) (k : TK) (n : Nat) (hn : n = chunk.length)
    (h : scan .text 0 (chunk ++ r) = some (k, n)) : nextTok (chunk ++ r) = some (k, chunk, r) := by
  subst hn
  simp [nextTok, h]

theorem nextTok_openTag (n : Bytes) (hn : nameOk n = true) (r : Bytes) :
    nextTok (openTag n ++ r) = some (.tag, openTag n, r) := by
  obtain ⟨c, cs, rfl, ha, _, hcs⟩ := nameOk_cons hn
  have h := scan_tagBody cs hcs r (1 + 1)
  apply nextTok_of_scan _ _ _ (1 + 1 + cs.length + 1) (by simp [openTag]; omega)
  simp only [openTag, List.cons_append, List.append_assoc, List.singleton_append, List.nil_append, scan, if_true, ha,
    Bool.true_or]
  exact h

theorem nextTok_closeTag (n : Bytes) (hn : nameOk n = true) (r : Bytes) :
    nextTok (closeTag n ++ r) = some (.tag, closeTag n, r) := by
  have h := scan_tagBody n (nameOk_all hn) r (1 + 1)
  apply nextTok_of_scan _ _ _ (1 + 1 + n.length + 1) (by simp [closeTag]; omega)
  simp only [closeTag, List.cons_append, List.append_assoc, List.singleton_append, List.nil_append, scan, if_true,
    Bool.or_true, decide_true]
  exact h

theorem nextTok_emptyTag (n : Bytes) (hn : nameOk n = true) (r : Bytes) :
    nextTok (emptyTag n ++ r) = some (.tag, emptyTag n, r) := by
  obtain ⟨c, cs, rfl, ha, _, hcs⟩ := nameOk_cons hn
  have h := scan_tagBody_slash cs hcs r (1 + 1)
  apply nextTok_of_scan _ _ _ (1 + 1 + cs.length + 2) (by simp [emptyTag]; omega)
  simp only [emptyTag, List.cons_append, List.append_assoc, List.nil_append, scan, if_true, ha,
    Bool.true_or]
  exact h

/-! ## `checkTag` on rendered tags -/

theorem cmpName_self (ct : Tcv) (n : Bytes) (hn : n.all plainCh = true) : cmpName ct n n = ct := by
  induction n with
  | nil => simp [cmpName]
  | cons b bs ih =>
    simp only [List.all_cons, Bool.and_eq_true] at hn
    have h0 := (plainCh_ne hn.1).2.2.2.2.2
    simp [cmpName, h0, ih hn.2]

theorem cmpName_ne (ct : Tcv) : ∀ (a b : Bytes), a.all plainCh = true → b.all plainCh = true → a ≠ b →
    cmpName ct a b = ct.unk := by
  intro a
  induction a with
  | nil =>
    intro b _ _ hne
    cases b with
    | nil => exact absurd rfl hne
    | cons y ys => simp [cmpName]
  | cons x xs ih =>
    intro b ha hb hne
    simp only [List.all_cons, Bool.and_eq_true] at ha
    obtain ⟨-, -, -, -, hws, h0⟩ := plainCh_ne ha.1
    cases b with
    | nil => simp [cmpName, h0, hws]
    | cons y ys =>
      simp only [List.all_cons, Bool.and_eq_true] at hb
      by_cases hxy : x = y
      · subst hxy
        have : xs ≠ ys := fun h => hne (by rw [h])
        simp [cmpName, h0, ih ys ha.2 hb.2 this]
      · simp [cmpName, hxy]

theorem last_ne_slash {n : Bytes} (hn : n.all plainCh = true) : n.getLast? ≠ some cSL := by
  intro h
  have hm : cSL ∈ n := List.mem_of_getLast? h
  have := (plainCh_ne ((List.all_eq_true.mp hn) cSL hm)).2.2.2.1
  exact this rfl

theorem checkTag_open (n need : Bytes) (hn : nameOk n = true) :
    checkTag (openTag n) need = if need = [] then .unkOp else cmpName .opening n need := by
  obtain ⟨c, cs, rfl, _, hc, hcs⟩ := nameOk_cons hn
  have hall : (c :: cs).all plainCh = true := by simp [hc, hcs]
  have hsl : c ≠ cSL := (plainCh_ne hc).2.2.2.1
  have e1 : c :: (cs ++ [cGT]) = (c :: cs) ++ [cGT] := rfl
  have hl := last_ne_slash hall
  simp only [checkTag, openTag, List.cons_append]
  rw [e1]
  simp only [List.getLast?_concat, List.dropLast_concat, ne_eq, not_true_eq_false, or_self, if_false, hsl, hl, Tcv.unk]

theorem checkTag_close (n need : Bytes) (hn : nameOk n = true) :
    checkTag (closeTag n) need = if need = [] then .unkCl else cmpName .closing n need := by
  have hl := last_ne_slash (nameOk_all hn)
  simp only [checkTag, closeTag]
  have e1 : cSL :: (n ++ [cGT]) = (cSL :: n) ++ [cGT] := rfl
  rw [e1]
  simp only [List.getLast?_concat, List.dropLast_concat, ne_eq, not_true_eq_false, or_self, if_false, if_true, hl]

theorem checkTag_empty (n need : Bytes) (hn : nameOk n = true) :
    checkTag (emptyTag n) need = if need = [] then .unkBo else cmpName .both n need := by
  obtain ⟨c, cs, rfl, _, hc, hcs⟩ := nameOk_cons hn
  have hsl : c ≠ cSL := (plainCh_ne hc).2.2.2.1
  have e1 : c :: (cs ++ [cSL, cGT]) = (c :: cs ++ [cSL]) ++ [cGT] := by simp
  simp only [checkTag, emptyTag, List.cons_append]
  rw [e1]
  simp only [List.getLast?_concat, List.dropLast_concat, ne_eq, not_true_eq_false, or_self, if_false, if_true, hsl, Tcv.unk]

theorem checkTag_open_self (n : Bytes) (hn : nameOk n = true) : checkTag (openTag n) n = .opening := by
  rw [checkTag_open n n hn, if_neg (nameOk_ne_nil hn), cmpName_self _ _ (nameOk_all hn)]
theorem checkTag_close_self (n : Bytes) (hn : nameOk n = true) : checkTag (closeTag n) n = .closing := by
  rw [checkTag_close n n hn, if_neg (nameOk_ne_nil hn), cmpName_self _ _ (nameOk_all hn)]
theorem checkTag_empty_self (n : Bytes) (hn : nameOk n = true) : checkTag (emptyTag n) n = .both := by
  rw [checkTag_empty n n hn, if_neg (nameOk_ne_nil hn), cmpName_self _ _ (nameOk_all hn)]

theorem checkTag_open_ne (a b : Bytes) (ha : nameOk a = true) (hb : nameOk b = true) (hne : a ≠ b) :
    checkTag (openTag a) b = .unkOp := by
  rw [checkTag_open a b ha, if_neg (nameOk_ne_nil hb), cmpName_ne _ _ _ (nameOk_all ha) (nameOk_all hb) hne]; rfl
theorem checkTag_empty_ne (a b : Bytes) (ha : nameOk a = true) (hb : nameOk b = true) (hne : a ≠ b) :
    checkTag (emptyTag a) b = .unkBo := by
  rw [checkTag_empty a b ha, if_neg (nameOk_ne_nil hb), cmpName_ne _ _ _ (nameOk_all ha) (nameOk_all hb) hne]; rfl
theorem checkTag_close_ne (a b : Bytes) (ha : nameOk a = true) (hb : nameOk b = true) (hne : a ≠ b) :
    checkTag (closeTag a) b = .unkCl := by
  rw [checkTag_close a b ha, if_neg (nameOk_ne_nil hb), cmpName_ne _ _ _ (nameOk_all ha) (nameOk_all hb) hne]; rfl

/-! ## `decGeneral` steps -/

section general
variable {σ : Type} (cb : GenCb σ) (need : Bytes) (hneed : nameOk need = true)
include hneed

theorem dg_open (f : Nat) (s : σ) (r : Bytes) :
    decGeneral cb need (f + 1) false s (openTag need ++ r) = decGeneral cb need f true s r := by
  simp [decGeneral, nextTok_openTag need hneed, checkTag_open_self need hneed]

theorem dg_close (f : Nat) (s : σ) (r : Bytes) :
    decGeneral cb need (f + 1) true s (closeTag need ++ r) = some (s, r) := by
  simp [decGeneral, nextTok_closeTag need hneed, checkTag_close_self need hneed]

theorem dg_empty (f : Nat) (s : σ) (r : Bytes) :
    decGeneral cb need (f + 1) false s (emptyTag need ++ r) = (cb.body s []).map fun s' => (s', r) := by
  simp [decGeneral, nextTok_emptyTag need hneed, checkTag_empty_self need hneed]

omit hneed in
theorem dg_text (f : Nat) (s : σ) (txt r : Bytes) (hne : txt ≠ []) (htxt : ∀ c ∈ txt, c ≠ cLT) :
    decGeneral cb need (f + 1) true s (txt ++ cLT :: r) =
      (cb.body s txt).bind fun s' => decGeneral cb need f true s' (cLT :: r) := by
  simp only [decGeneral, nextTok_text txt hne htxt, if_true]
  cases cb.body s txt <;> rfl

/-- an empty-element tag in the body goes to the unexpected-tag decoder, also when it is called like the element
    itself (finding F153 repaired) -/
theorem dg_unexp (f : Nat) (s : σ) (x r : Bytes) (hx : nameOk x = true) :
    decGeneral cb need (f + 1) true s (emptyTag x ++ r) =
      (cb.unexp s (emptyTag x)).bind fun s' => decGeneral cb need f true s' r := by
  by_cases hne : x = need
  · subst hne
    simp only [decGeneral, nextTok_emptyTag x hx, checkTag_empty_self x hx, if_true]
    cases cb.unexp s (emptyTag x) <;> rfl
  · simp only [decGeneral, nextTok_emptyTag x hx, checkTag_empty_ne x need hx hneed hne, if_true]
    cases cb.unexp s (emptyTag x) <;> rfl

/-- phase 0, used for the elements of a value list (`<true/>` with the type's own tag expected) -/
theorem dg_unexp0 (f : Nat) (s : σ) (x r : Bytes) (hx : nameOk x = true) (hne : x ≠ need) :
    decGeneral cb need (f + 1) false s (emptyTag x ++ r) =
      (cb.unexp s (emptyTag x)).map fun s' => (s', r) := by
  simp only [decGeneral, nextTok_emptyTag x hx, checkTag_empty_ne x need hx hneed hne]
  cases cb.unexp s (emptyTag x) <;> rfl

end general

/-! ## primitive types -/

theorem closeTag_eq (n r : Bytes) : closeTag n ++ r = cLT :: (cSL :: (n ++ [cGT]) ++ r) := by
  simp [closeTag]

theorem openTag_length (n : Bytes) : (openTag n).length = n.length + 2 := by simp [openTag]
theorem closeTag_length (n : Bytes) : (closeTag n).length = n.length + 3 := by simp [closeTag]
theorem emptyTag_length (n : Bytes) : (emptyTag n).length = n.length + 3 := by simp [emptyTag]

/-- a value written as text -/
theorem decPrim_text (pbd : Bytes → Pbd) (need : Bytes) (hneed : nameOk need = true) (txt rest : Bytes) (v : Val)
    (hne : txt ≠ []) (htxt : ∀ c ∈ txt, c ≠ cLT) (hp : pbd (txt.dropWhile isWsP) = .consumed v) :
    decPrim pbd need (openTag need ++ txt ++ closeTag need ++ rest) = some (v, rest) := by
  unfold Xer.decPrim
  obtain ⟨f, hf⟩ : ∃ f, (openTag need ++ txt ++ closeTag need ++ rest).length + 1 = f + 3 :=
    ⟨(openTag need ++ txt ++ closeTag need ++ rest).length - 2, by
      simp only [List.length_append, openTag_length, closeTag_length]; omega⟩
  rw [hf, List.append_assoc, List.append_assoc, dg_open _ _ hneed, closeTag_eq, dg_text _ _ _ _ _ _ hne htxt]
  simp only [primCb, hp, Option.bind_some]
  rw [← closeTag_eq, dg_close _ _ hneed]

/-- a value written as an empty-element tag -/
theorem decPrim_tag (pbd : Bytes → Pbd) (need : Bytes) (hneed : nameOk need = true) (x rest : Bytes) (v : Val)
    (hx : nameOk x = true) (hp : pbd (emptyTag x) = .consumed v) :
    decPrim pbd need (openTag need ++ emptyTag x ++ closeTag need ++ rest) = some (v, rest) := by
  unfold Xer.decPrim
  obtain ⟨f, hf⟩ : ∃ f, (openTag need ++ emptyTag x ++ closeTag need ++ rest).length + 1 = f + 3 :=
    ⟨(openTag need ++ emptyTag x ++ closeTag need ++ rest).length - 2, by
      simp only [List.length_append, openTag_length, closeTag_length]; omega⟩
  rw [hf, List.append_assoc, List.append_assoc, dg_open _ _ hneed, dg_unexp _ _ hneed _ _ _ _ hx]
  simp only [primCb, hp, Option.bind_some]
  rw [dg_close _ _ hneed]

/-- a value with an empty body -/
theorem decPrim_empty (pbd : Bytes → Pbd) (need : Bytes) (hneed : nameOk need = true) (rest : Bytes) (v : Val)
    (hp : pbd [] = .consumed v) :
    decPrim pbd need (openTag need ++ closeTag need ++ rest) = some (v, rest) := by
  unfold Xer.decPrim
  obtain ⟨f, hf⟩ : ∃ f, (openTag need ++ closeTag need ++ rest).length + 1 = f + 2 :=
    ⟨(openTag need ++ closeTag need ++ rest).length - 1, by
      simp only [List.length_append, openTag_length, closeTag_length]; omega⟩
  rw [hf, List.append_assoc, dg_open _ _ hneed, dg_close _ _ hneed]
  simp only [hp]

/-- a value-list element written as an empty-element tag, decoded with the type's own tag expected -/
theorem decPrim_tag0 (pbd : Bytes → Pbd) (need : Bytes) (hneed : nameOk need = true) (x rest : Bytes) (v : Val)
    (hx : nameOk x = true) (hxn : x ≠ need) (hp : pbd (emptyTag x) = .consumed v) :
    decPrim pbd need (emptyTag x ++ rest) = some (v, rest) := by
  unfold Xer.decPrim
  rw [dg_unexp0 _ _ hneed _ _ _ _ hx hxn]
  simp only [primCb, hp, Option.map_some]

/-- `<NULL/>` in a value list -/
theorem decPrim_empty0 (pbd : Bytes → Pbd) (need : Bytes) (hneed : nameOk need = true) (rest : Bytes) (v : Val)
    (hp : pbd [] = .consumed v) :
    decPrim pbd need (emptyTag need ++ rest) = some (v, rest) := by
  unfold Xer.decPrim
  rw [dg_empty _ _ hneed]
  simp only [primCb, List.dropWhile_nil, hp, Option.map_some]

/-! ### decimal numerals -/

theorem natDecF_fuel : ∀ (n f g : Nat), n ≤ f → n ≤ g → natDecF f n = natDecF g n := by
  intro n
  induction n using Nat.strongRecOn with
  | _ n ih =>
    intro f g hf hg
    cases f with
    | zero =>
      have : n = 0 := by omega
      subst this
      cases g <;> simp [natDecF]
    | succ f =>
      cases g with
      | zero =>
        have : n = 0 := by omega
        subst this; simp [natDecF]
      | succ g =>
        simp only [natDecF]
        by_cases h : n < 10
        · rw [if_pos h, if_pos h]
        · rw [if_neg h, if_neg h, ih (n / 10) (by omega) f g (by omega) (by omega)]

theorem natDec_lt {n : Nat} (h : n < 10) : natDec n = [48 + n] := by
  unfold natDec
  cases n with
  | zero => simp [natDecF]
  | succ n => simp [natDecF, h]

theorem natDec_ge {n : Nat} (h : ¬ n < 10) : natDec n = natDec (n / 10) ++ [48 + n % 10] := by
  unfold natDec
  obtain ⟨m, rfl⟩ : ∃ m, n = m + 1 := ⟨n - 1, by omega⟩
  simp only [natDecF]
  rw [if_neg h, natDecF_fuel ((m + 1) / 10) m ((m + 1) / 10) (by omega) (Nat.le_refl _)]

theorem natDec_digits : ∀ (n : Nat), (∀ c ∈ natDec n, isDigitX c = true) ∧ natDec n ≠ [] := by
  intro n
  induction n using Nat.strongRecOn with
  | _ n ih =>
    by_cases h : n < 10
    · rw [natDec_lt h]
      refine ⟨fun c hc => ?_, by simp⟩
      simp only [List.mem_singleton] at hc
      subst hc; simp [isDigitX]; omega
    · rw [natDec_ge h]
      refine ⟨fun c hc => ?_, by simp⟩
      simp only [List.mem_append, List.mem_singleton] at hc
      rcases hc with hc | hc
      · exact (ih (n / 10) (by omega)).1 c hc
      · subst hc; simp [isDigitX]; omega

theorem digitsVal_append (acc : Nat) (xs : Bytes) (d : Nat) :
    digitsVal acc (xs ++ [d]) = digitsVal acc xs * 10 + (d - 0x30) := by
  induction xs generalizing acc with
  | nil => rfl
  | cons x xs ih => exact ih (acc * 10 + (x - 0x30))

theorem digitsVal_natDec : ∀ (n : Nat), digitsVal 0 (natDec n) = n := by
  intro n
  induction n using Nat.strongRecOn with
  | _ n ih =>
    by_cases h : n < 10
    · rw [natDec_lt h]
      show 0 * 10 + (48 + n - 0x30) = n
      omega
    · rw [natDec_ge h, digitsVal_append, ih (n / 10) (by omega)]; omega

theorem isDigitX_facts {c : Nat} (h : isDigitX c = true) :
    isWsP c = false ∧ c ≠ 0x2d ∧ c ≠ 0x2b ∧ c ≠ cLT := by
  simp only [isDigitX, Bool.and_eq_true, decide_eq_true_eq] at h
  refine ⟨?_, ?_, ?_, ?_⟩
  · simp [isWsP]; omega
  · omega
  · omega
  · simp [cLT]; omega

theorem intDecScan_digits (ds : Bytes) (hd : ∀ c ∈ ds, isDigitX c = true) :
    ∀ acc, intDecScan .digits acc ds = some (some (acc ++ ds)) := by
  induction ds with
  | nil => intro acc; simp [intDecScan]
  | cons d ds ih =>
    intro acc
    have hdd := hd d (by simp)
    obtain ⟨h1, h2, h3, -⟩ := isDigitX_facts hdd
    simp only [intDecScan, h1, h2, h3, hdd, if_true, or_self, if_false, Bool.false_eq_true]
    rw [ih (fun c hc => hd c (by simp [hc]))]; simp

theorem natDec_cons (n : Nat) : ∃ d ds, natDec n = d :: ds ∧ isDigitX d = true ∧ ∀ c ∈ ds, isDigitX c = true := by
  obtain ⟨h1, h2⟩ := natDec_digits n
  cases h : natDec n with
  | nil => exact absurd h h2
  | cons d ds =>
    rw [h] at h1
    exact ⟨d, ds, rfl, h1 d (by simp), fun c hc => h1 c (by simp [hc])⟩

theorem intDecScan_intDec (z : Int) : intDecScan .lead [] (intDec z) = some (some (intDec z)) := by
  unfold intDec
  split
  · obtain ⟨d, ds, he, hd, hds⟩ := natDec_cons z.natAbs
    obtain ⟨h1, h2, h3, -⟩ := isDigitX_facts hd
    rw [he]
    have hm : isWsP 45 = false := by decide
    simp only [intDecScan, hm, h1, h2, h3, hd, if_true, or_self, if_false, Bool.false_eq_true, true_or]
    rw [intDecScan_digits ds hds]; simp
  · obtain ⟨d, ds, he, hd, hds⟩ := natDec_cons z.toNat
    obtain ⟨h1, h2, h3, -⟩ := isDigitX_facts hd
    rw [he]
    simp only [intDecScan, h1, h2, h3, hd, if_true, or_self, if_false, Bool.false_eq_true]
    rw [intDecScan_digits ds hds]; simp

theorem numeralVal_intDec (z : Int) : numeralVal (intDec z) = z := by
  unfold intDec
  split
  · rename_i h
    simp only [numeralVal, digitsVal_natDec]; omega
  · rename_i h
    obtain ⟨d, ds, he, hd, _⟩ := natDec_cons z.toNat
    obtain ⟨-, h2, h3, -⟩ := isDigitX_facts hd
    have := digitsVal_natDec z.toNat
    rw [he] at this ⊢
    unfold numeralVal
    split
    · rename_i heq; cases heq; exact absurd rfl h2
    · rename_i heq; cases heq; exact absurd rfl h3
    · rw [this]; omega

theorem intDec_head (z : Int) : ∃ c r, intDec z = c :: r ∧ isWsP c = false ∧ c ≠ cLT := by
  unfold intDec
  split
  · exact ⟨45, _, rfl, by decide, by decide⟩
  · obtain ⟨d, ds, he, hd, _⟩ := natDec_cons z.toNat
    obtain ⟨h1, -, -, h4⟩ := isDigitX_facts hd
    exact ⟨d, ds, he, h1, h4⟩

theorem intDec_noLT (z : Int) : ∀ c ∈ intDec z, c ≠ cLT := by
  intro c hc
  unfold intDec at hc
  split at hc
  · simp only [List.mem_cons] at hc
    rcases hc with rfl | hc
    · decide
    · exact (isDigitX_facts ((natDec_digits _).1 c hc)).2.2.2
  · exact (isDigitX_facts ((natDec_digits _).1 c hc)).2.2.2

theorem dropWhile_head {p : Nat → Bool} {c : Nat} {r : Bytes} (h : p c = false) : (c :: r).dropWhile p = c :: r := by
  simp [List.dropWhile, h]

/-- the INTEGER values a representation holds and the XER decoder reads back: `long`; for `unsigned long` the
    whole range 0 .. 2^64-1 (finding F125 repaired: it ended at 2^63-1); for `INTEGER_t` the decimal form, which
    ends at `long` ("We model INTEGER on long for XER") -/
def intRange (r : IntRepr) (z : Int) : Prop :=
  (-(2 ^ 63) ≤ z ∧ z < 2 ^ 63 ∧ (r = .ulong → 0 ≤ z)) ∨ (r = .ulong ∧ 2 ^ 63 ≤ z ∧ z < 2 ^ 64)

instance (r : IntRepr) (z : Int) : Decidable (intRange r z) := by unfold intRange; infer_instance

theorem intOfOctets_intOctets (r : IntRepr) (z : Int) (hz : intRange r z) :
    intOfOctets r (intOctets z) = some z := by
  unfold intRange at hz
  cases r with
  | wide => simp [intOfOctets, Asn1c.Proofs.L2Der.twosVal_intOctets]
  | long =>
    simp only [intOfOctets, Asn1c.Proofs.L2Der.twosVal_intOctets]
    rcases hz with ⟨h1, h2, _⟩ | ⟨h, _⟩
    · rw [if_pos ⟨h1, h2⟩]
    · cases h
  | ulong =>
    have h0 : 0 ≤ z ∧ z < 2 ^ 64 := by
      rcases hz with ⟨_, h2, h3⟩ | ⟨_, h2, h3⟩
      · exact ⟨h3 rfl, by omega⟩
      · exact ⟨by omega, h3⟩
    obtain ⟨b, bs, he, hb, _, hv, _⟩ := Asn1c.Proofs.L2Der.natOctets_props z.toNat
    have : intOctets z = b :: bs := by unfold intOctets; rw [if_pos (by omega), he]
    simp only [intOfOctets, this, hv]
    rw [if_neg (by omega), if_pos (by omega)]
    congr 1; omega

theorem intBody_intDec (r : IntRepr) (names : List Bytes) (vals : List Int) (z : Int) (hz : intRange r z) :
    intBody r names vals (intDec z) = .consumed (.int z) := by
  obtain ⟨c, rest, he, hws, hlt⟩ := intDec_head z
  have h1 : (intDec z).dropWhile isWsP = c :: rest := by rw [he]; exact dropWhile_head hws
  have h2 := intDecScan_intDec z
  have h3 := numeralVal_intDec z
  have h4 : (-(2 ^ 63) ≤ z ∧ z < 2 ^ 63) ∨ (r = .ulong ∧ 2 ^ 63 ≤ z ∧ z < 2 ^ 64) := by
    unfold intRange at hz
    rcases hz with ⟨a, b, _⟩ | h
    · exact Or.inl ⟨a, b⟩
    · exact Or.inr h
  unfold intBody
  simp only [h1, hlt, if_false, h2, h3, h4, if_true, intOfOctets_intOctets r z hz]

/-! ### ENUMERATED -/

/-- the enumeration map is usable: as many identifiers as values, identifiers are tag names and pairwise
    distinct, the values fit `long` -/
def enumOk (ns : List Bytes) (vs : List Int) : Prop :=
  ns.length = vs.length ∧ ns.Nodup ∧ (∀ n ∈ ns, nameOk n = true) ∧ ∀ v ∈ vs, -(2 ^ 63) ≤ v ∧ v < 2 ^ 63

theorem lookupName_mem : ∀ (ns : List Bytes) (vs : List Int) (z : Int) (n : Bytes),
    lookupName ns vs z = some n → n ∈ ns ∧ z ∈ vs := by
  intro ns
  induction ns with
  | nil => intro vs z n h; simp [lookupName] at h
  | cons a as ih =>
    intro vs z n h
    cases vs with
    | nil => simp [lookupName] at h
    | cons v vs =>
      simp only [lookupName] at h
      split at h
      · rename_i hv; cases h; subst hv; simp
      · obtain ⟨h1, h2⟩ := ih vs z n h
        exact ⟨by simp [h1], by simp [h2]⟩

theorem find_lookupName : ∀ (ns : List Bytes) (vs : List Int) (z : Int) (n : Bytes),
    ns.Nodup → lookupName ns vs z = some n → enumLookup.find n ns vs = some z := by
  intro ns
  induction ns with
  | nil => intro vs z n _ h; simp [lookupName] at h
  | cons a as ih =>
    intro vs z n hnd h
    cases vs with
    | nil => simp [lookupName] at h
    | cons v vs =>
      simp only [lookupName] at h
      have hnd' := List.nodup_cons.mp hnd
      split at h
      · rename_i hv; cases h; simp [enumLookup.find, hv]
      · have hm := (lookupName_mem as vs z n h).1
        have hne : a ≠ n := fun e => hnd'.1 (e ▸ hm)
        simp only [enumLookup.find, hne, if_false]
        exact ih vs z n hnd'.2 h

theorem takeWhile_plain (n : Bytes) (hn : n.all plainCh = true) (p : Nat → Bool)
    (hp : ∀ c, plainCh c = true → p c = true) (x : Nat) (hx : p x = false) (r : Bytes) :
    (n ++ x :: r).takeWhile p = n := by
  induction n with
  | nil => simp [List.takeWhile, hx]
  | cons c cs ih =>
    simp only [List.all_cons, Bool.and_eq_true] at hn
    simp [List.takeWhile, hp c hn.1, ih hn.2]

theorem enumLookup_emptyTag (ns : List Bytes) (vs : List Int) (z : Int) (n : Bytes) (hn : nameOk n = true)
    (hnd : ns.Nodup) (h : lookupName ns vs z = some n) : enumLookup ns vs (emptyTag n) = some z := by
  unfold enumLookup
  have hb : (emptyTag n).drop 1 = n ++ cSL :: [cGT] := by simp [emptyTag]
  have htw : (n ++ cSL :: [cGT]).takeWhile
      (fun c => !(c = 9 || c = 10 || c = 11 || c = 12 || c = 13 || c = 32 || c = cSL || c = cGT)) = n := by
    apply takeWhile_plain n (nameOk_all hn)
    · intro c hc
      obtain ⟨_, h2, _, h4, h5, _⟩ := plainCh_ne hc
      have h11 := plainCh_ne11 hc
      simp only [isWsX, Bool.or_eq_false_iff, decide_eq_false_iff_not] at h5
      simp [h2, h4, h11, h5.1.1.1.1, h5.1.1.1.2, h5.1.1.2, h5.1.2, h5.2]
    · simp
  simp only [hb, htw]
  rw [if_neg (by simp)]
  exact find_lookupName ns vs z n hnd h

theorem intBody_enum (ns : List Bytes) (vs : List Int) (z : Int) (n : Bytes) (hok : enumOk ns vs)
    (h : lookupName ns vs z = some n) : intBody .long ns vs (emptyTag n) = .consumed (.int z) := by
  obtain ⟨_, hnd, hnames, hvals⟩ := hok
  obtain ⟨hm, hz⟩ := lookupName_mem ns vs z n h
  have hn := hnames n hm
  have h1 : (emptyTag n).dropWhile isWsP = cLT :: (n ++ [cSL, cGT]) := by
    simp only [emptyTag]; exact dropWhile_head (by decide)
  unfold intBody
  have hr : intRange .long z := Or.inl ⟨(hvals z hz).1, (hvals z hz).2, by intro h; cases h⟩
  have h4 : (-(2 ^ 63) ≤ z ∧ z < 2 ^ 63) ∨ (IntRepr.long = .ulong ∧ 2 ^ 63 ≤ z ∧ z < 2 ^ 64) := Or.inl (hvals z hz)
  simp only [h1, if_true, enumLookup_emptyTag ns vs z n hn hnd h, h4, intOfOctets_intOctets .long z hr]

/-! ### BOOLEAN, NULL -/

theorem boolBody_true : boolBody litTrueTag = .consumed (.bool true) := by rfl
theorem boolBody_false : boolBody litFalseTag = .consumed (.bool false) := by rfl
theorem nameOk_true : nameOk litTrue = true := by decide
theorem nameOk_false : nameOk litFalse = true := by decide

/-! ### white space between elements -/

/-- the optional line break + indentation of BASIC-XER -/
def ws (c : Bool) (level : Nat) : Bytes := if c then [] else indent level

theorem indent_noLT (l : Nat) : ∀ x ∈ indent l, x ≠ cLT := by
  intro x hx
  simp only [indent, List.mem_cons, List.mem_replicate] at hx
  rcases hx with rfl | ⟨_, rfl⟩ <;> decide

theorem ws_noLT (c : Bool) (l : Nat) : ∀ x ∈ ws c l, x ≠ cLT := by
  unfold ws; split
  · intro x hx; cases hx
  · exact indent_noLT l

theorem indent_length (l : Nat) : (indent l).length = 4 * l + 1 := by simp [indent]

theorem openTag_eq (n r : Bytes) : openTag n ++ r = cLT :: (n ++ [cGT] ++ r) := by simp [openTag]

/-! ### OCTET STRING (hexadecimal) -/

theorem hexUp_lt16 {n : Nat} (h : n < 16) :
    hexValX (hexUp n) = some n ∧ isWsX (hexUp n) = false ∧ hexUp n ≠ cLT := by
  have : n = 0 ∨ n = 1 ∨ n = 2 ∨ n = 3 ∨ n = 4 ∨ n = 5 ∨ n = 6 ∨ n = 7 ∨ n = 8 ∨ n = 9 ∨ n = 10 ∨ n = 11 ∨
      n = 12 ∨ n = 13 ∨ n = 14 ∨ n = 15 := by omega
  rcases this with h | h | h | h | h | h | h | h | h | h | h | h | h | h | h | h <;> subst h <;> decide

theorem convHex_ws (half : Option Nat) (w : Nat) (r : Bytes) (hw : isWsX w = true) :
    convHex half (w :: r) = convHex half r := by
  cases half <;> simp [convHex, hw]

theorem isWsX_10 : isWsX 10 = true := by decide
theorem isWsX_32 : isWsX 32 = true := by decide

theorem convHex_indent (half : Option Nat) (l : Nat) (r : Bytes) : convHex half (indent l ++ r) = convHex half r := by
  have : ∀ k, convHex half (List.replicate k 32 ++ r) = convHex half r := by
    intro k
    induction k with
    | zero => rfl
    | succ k ih => rw [List.replicate_succ, List.cons_append, convHex_ws half 32 _ isWsX_32, ih]
  rw [indent, List.cons_append, convHex_ws half 10 _ isWsX_10, this]

theorem convHex_hex2 (b : Nat) (hb : b < 256) (r : Bytes) :
    convHex none (hex2 b ++ r) = (convHex none r).map (b :: ·) := by
  obtain ⟨h1, h2, _⟩ := hexUp_lt16 (n := b / 16 % 16) (by omega)
  obtain ⟨h3, h4, _⟩ := hexUp_lt16 (n := b % 16) (by omega)
  have e : (b / 16 % 16 * 16 + b % 16) % 256 = b := by omega
  simp only [hex2, List.cons_append, List.nil_append, convHex, h1, h2, h3, h4, e, Bool.false_eq_true, if_false]

theorem hex2_noLT (b : Nat) : ∀ c ∈ hex2 b, c ≠ cLT := by
  intro c hc
  simp only [hex2, List.mem_cons, List.mem_nil_iff, or_false] at hc
  rcases hc with rfl | rfl
  · exact (hexUp_lt16 (n := b / 16 % 16) (by omega)).2.2
  · exact (hexUp_lt16 (n := b % 16) (by omega)).2.2

theorem convHex_flatMap (bs : Bytes) (hb : ∀ b ∈ bs, b < 256) (r : Bytes) :
    convHex none (bs.flatMap hex2 ++ r) = (convHex none r).map (bs ++ ·) := by
  induction bs with
  | nil => simp
  | cons b bs ih =>
    rw [List.flatMap_cons, List.append_assoc, convHex_hex2 b (hb b (by simp)), ih (fun x hx => hb x (by simp [hx]))]
    cases convHex none r <;> simp

theorem convHex_hexBasic (il sz : Nat) : ∀ (bs : Bytes) (i : Nat), (∀ b ∈ bs, b < 256) → ∀ r,
    convHex none (hexBasic il sz i bs ++ r) = (convHex none r).map (bs ++ ·) := by
  intro bs
  induction bs with
  | nil => intro i _ r; simp [hexBasic]
  | cons b bs ih =>
    intro i hb r
    have hb0 := hb b (by simp)
    cases bs with
    | nil =>
      simp only [hexBasic]
      split
      · rw [List.append_assoc, convHex_indent, convHex_hex2 b hb0]; cases convHex none r <;> simp
      · rw [List.nil_append, convHex_hex2 b hb0]; cases convHex none r <;> simp
    | cons b2 bs2 =>
      have := ih (i + 1) (fun x hx => hb x (by simp [hx])) r
      simp only [hexBasic] at this ⊢
      split
      · rw [List.append_assoc, List.append_assoc, convHex_indent, convHex_hex2 b hb0, List.cons_append,
          convHex_ws none 32 _ isWsX_32, this]
        cases convHex none r <;> simp
      · rw [List.nil_append, List.append_assoc, convHex_hex2 b hb0, List.cons_append,
          convHex_ws none 32 _ isWsX_32, this]
        cases convHex none r <;> simp

theorem hexBasic_noLT (il sz : Nat) : ∀ (bs : Bytes) (i : Nat), ∀ c ∈ hexBasic il sz i bs, c ≠ cLT := by
  intro bs
  induction bs with
  | nil => intro i c hc; simp [hexBasic] at hc
  | cons b bs ih =>
    intro i c hc
    cases bs with
    | nil =>
      simp only [hexBasic, List.mem_append] at hc
      rcases hc with hc | hc
      · split at hc
        · exact indent_noLT il c hc
        · cases hc
      · exact hex2_noLT b c hc
    | cons b2 bs2 =>
      simp only [hexBasic, List.mem_append, List.mem_cons] at hc
      rcases hc with (hc | hc) | hc | hc
      · split at hc
        · exact indent_noLT il c hc
        · cases hc
      · exact hex2_noLT b c hc
      · subst hc; decide
      · exact ih (i + 1) c (by simpa [hexBasic] using hc)

theorem encHex_spec (c : Bool) (il : Nat) (bs : Bytes) (hb : ∀ b ∈ bs, b < 256) :
    convHex none (encHex c il bs) = some bs ∧ (∀ x ∈ encHex c il bs, x ≠ cLT) ∧ (bs ≠ [] → encHex c il bs ≠ []) := by
  unfold encHex
  cases c with
  | true =>
    simp only [if_true]
    refine ⟨?_, ?_, ?_⟩
    · have := convHex_flatMap bs hb []
      simpa [convHex] using this
    · intro x hx
      obtain ⟨b, _, hxb⟩ := List.mem_flatMap.mp hx
      exact hex2_noLT b x hxb
    · intro hne
      cases bs with
      | nil => exact absurd rfl hne
      | cons b bs => simp [hex2]
  | false =>
    simp only [Bool.false_eq_true, if_false]
    refine ⟨?_, ?_, ?_⟩
    · rw [convHex_hexBasic il bs.length bs 0 hb]
      split
      · have := convHex_indent none (il - 1) []
        simp only [List.append_nil] at this
        rw [this]; simp [convHex]
      · simp [convHex]
    · intro x hx
      simp only [List.mem_append] at hx
      rcases hx with hx | hx
      · exact hexBasic_noLT il bs.length bs 0 x hx
      · split at hx
        · exact indent_noLT _ x hx
        · cases hx
    · intro hne
      cases bs with
      | nil => exact absurd rfl hne
      | cons b bs => cases bs <;> simp [hexBasic, hex2]

/-! ### OCTET STRING family: the generic driver -/

theorem decStr_text {σ : Type} (cb : GenCb σ) (init s' : σ) (need : Bytes) (hneed : nameOk need = true) (txt rest : Bytes)
    (hne : txt ≠ []) (htxt : ∀ c ∈ txt, c ≠ cLT) (hp : cb.body init txt = some s') :
    decStr cb init need (openTag need ++ txt ++ closeTag need ++ rest) = some (s', rest) := by
  unfold decStr
  obtain ⟨f, hf⟩ : ∃ f, (openTag need ++ txt ++ closeTag need ++ rest).length + 1 = f + 3 :=
    ⟨(openTag need ++ txt ++ closeTag need ++ rest).length - 2, by
      simp only [List.length_append, openTag_length, closeTag_length]; omega⟩
  rw [hf, List.append_assoc, List.append_assoc, dg_open _ _ hneed, closeTag_eq, dg_text _ _ _ _ _ _ hne htxt]
  simp only [hp, Option.bind_some]
  rw [← closeTag_eq, dg_close _ _ hneed]

theorem decStr_empty {σ : Type} (cb : GenCb σ) (init : σ) (need : Bytes) (hneed : nameOk need = true) (rest : Bytes) :
    decStr cb init need (openTag need ++ closeTag need ++ rest) = some (init, rest) := by
  unfold decStr
  obtain ⟨f, hf⟩ : ∃ f, (openTag need ++ closeTag need ++ rest).length + 1 = f + 2 :=
    ⟨(openTag need ++ closeTag need ++ rest).length - 1, by
      simp only [List.length_append, openTag_length, closeTag_length]; omega⟩
  rw [hf, List.append_assoc, dg_open _ _ hneed, dg_close _ _ hneed]

/-! ### character strings (UTF8String, IA5String, ...) -/

/-- the character is written as an empty-element tag (`<nul/>` ...) -/
def isCtl (b : Nat) : Bool :=
  b < 32 && (match ctlNames[b]? with | some (_ :: _) => true | _ => false)

def ctlName (b : Nat) : Bytes := (ctlNames[b]?).getD []

theorem ctl_table : ∀ b, b < 32 → isCtl b = true →
    (escapeByte b = emptyTag (ctlName b) ∧ nameOk (ctlName b) = true ∧ ctlOfTag (emptyTag (ctlName b)) = some b ∧
      ctlNames.contains (ctlName b) = true) := by
  decide

theorem isCtl_lt {b : Nat} (h : isCtl b = true) : b < 32 := by
  simp only [isCtl, Bool.and_eq_true, decide_eq_true_eq] at h; exact h.1

theorem escapeByte_plain {b : Nat} (h : isCtl b = false) (h1 : b ≠ 38) (h2 : b ≠ 60) (h3 : b ≠ 62) : escapeByte b = [b] := by
  unfold escapeByte
  rw [if_neg h1, if_neg h2, if_neg h3]
  split
  · rename_i hlt
    simp only [isCtl, hlt, decide_true, Bool.true_and] at h
    split
    · rename_i c cs heq; simp [heq] at h
    · rfl
  · rfl

theorem convEnt_escape (f : Nat) (b : Nat) (hb : isCtl b = false) (r : Bytes) :
    convEnt (f + 1) (escapeByte b ++ r) = (convEnt f r).map (b :: ·) := by
  have e4 : List.findIdx? (fun x => x == 59) (38 :: 97 :: 109 :: 112 :: 59 :: ([] : Bytes)) = some 4 := by decide
  have e3l : ∀ l : Bytes, List.findIdx? (fun x => x == 59) (38 :: 108 :: 116 :: 59 :: l) = some 3 := by
    intro l; simp [List.findIdx?_cons]
  have e3g : ∀ l : Bytes, List.findIdx? (fun x => x == 59) (38 :: 103 :: 116 :: 59 :: l) = some 3 := by
    intro l; simp [List.findIdx?_cons]
  by_cases h1 : b = 38
  · subst h1
    simp [escapeByte, convEnt, e4]
  · by_cases h2 : b = 60
    · subst h2
      simp [escapeByte, convEnt, e3l]
    · by_cases h3 : b = 62
      · subst h3
        simp [escapeByte, convEnt, e3g]
      · rw [escapeByte_plain hb h1 h2 h3]
        simp [convEnt, h1]

theorem escapeByte_noLT (b : Nat) (hb : isCtl b = false) : (∀ c ∈ escapeByte b, c ≠ cLT) ∧ escapeByte b ≠ [] := by
  by_cases h1 : b = 38
  · subst h1; decide
  · by_cases h2 : b = 60
    · subst h2; decide
    · by_cases h3 : b = 62
      · subst h3; decide
      · rw [escapeByte_plain hb h1 h2 h3]
        exact ⟨by intro c hc; simp at hc; subst hc; exact h2, by simp⟩

theorem convEnt_run : ∀ (run : Bytes), (∀ x ∈ run, isCtl x = false) → ∀ f, run.length ≤ f →
    convEnt f (encUtf8 run) = some run := by
  intro run
  induction run with
  | nil => intro _ f _; cases f <;> simp [encUtf8, convEnt]
  | cons b bs ih =>
    intro h f hf
    obtain ⟨f', rfl⟩ : ∃ f', f = f' + 1 := ⟨f - 1, by simp at hf; omega⟩
    have := convEnt_escape f' b (h b (by simp)) (encUtf8 bs)
    simp only [encUtf8, List.flatMap_cons] at this ⊢
    rw [this]
    have ih' := ih (fun x hx => h x (by simp [hx])) f' (by simp at hf; omega)
    simp only [encUtf8] at ih'
    rw [ih']; rfl

theorem encUtf8_run_noLT (run : Bytes) (h : ∀ x ∈ run, isCtl x = false) : ∀ c ∈ encUtf8 run, c ≠ cLT := by
  intro c hc
  obtain ⟨b, hb, hcb⟩ := List.mem_flatMap.mp hc
  exact (escapeByte_noLT b (h b hb)).1 c hcb

theorem encUtf8_run_len (run : Bytes) (h : ∀ x ∈ run, isCtl x = false) : run.length ≤ (encUtf8 run).length := by
  induction run with
  | nil => simp
  | cons b bs ih =>
    have h1 := (escapeByte_noLT b (h b (by simp))).2
    have h2 := ih (fun x hx => h x (by simp [hx]))
    have : 0 < (escapeByte b).length := List.length_pos_iff.mpr h1
    simp only [encUtf8, List.flatMap_cons, List.length_append, List.length_cons] at h2 ⊢
    omega

theorem span_ctl : ∀ (bs : Bytes), ∃ run tail, bs = run ++ tail ∧ (∀ x ∈ run, isCtl x = false) ∧
    (tail = [] ∨ ∃ t tl, tail = t :: tl ∧ isCtl t = true) := by
  intro bs
  induction bs with
  | nil => exact ⟨[], [], rfl, by simp, Or.inl rfl⟩
  | cons b bs ih =>
    by_cases hb : isCtl b = true
    · exact ⟨[], b :: bs, rfl, by simp, Or.inr ⟨b, bs, rfl, hb⟩⟩
    · obtain ⟨run, tail, rfl, h1, h2⟩ := ih
      refine ⟨b :: run, tail, rfl, ?_, h2⟩
      intro x hx
      simp only [List.mem_cons] at hx
      rcases hx with rfl | hx
      · simpa using hb
      · exact h1 x hx

theorem encUtf8_append (a b : Bytes) : encUtf8 (a ++ b) = encUtf8 a ++ encUtf8 b := by simp [encUtf8]

theorem emptyTag_eq (n r : Bytes) : emptyTag n ++ r = cLT :: (n ++ [cSL, cGT] ++ r) := by simp [emptyTag]

/-- the body of a character string: text runs and control-character tags, up to the closing tag -/
theorem utf8Loop (need : Bytes) (hneed : nameOk need = true) (rest : Bytes) :
    ∀ (n : Nat) (bs : Bytes), bs.length ≤ n → ∀ (s : Bytes) (fuel : Nat), (encUtf8 bs).length + 2 ≤ fuel →
      decGeneral utf8Cb need fuel true s (encUtf8 bs ++ closeTag need ++ rest) = some (s ++ bs, rest) := by
  intro n
  induction n with
  | zero =>
    intro bs hl s fuel hf
    have : bs = [] := List.length_eq_zero_iff.mp (by omega)
    subst this
    obtain ⟨f, rfl⟩ : ∃ f, fuel = f + 1 := ⟨fuel - 1, by omega⟩
    simp only [encUtf8, List.flatMap_nil, List.nil_append, List.append_nil]
    exact dg_close _ _ hneed f s rest
  | succ n ih =>
    intro bs hl s fuel hf
    obtain ⟨run, tail, rfl, hrun, htail⟩ := span_ctl bs
    have hrl := encUtf8_run_len run hrun
    rw [encUtf8_append] at hf ⊢
    simp only [List.length_append] at hf hl
    -- what follows the run starts with '<'
    have hstep : ∀ (s' : Bytes) (fuel' : Nat), (encUtf8 tail).length + 2 ≤ fuel' → (run = [] → fuel' = fuel ∧ s' = s) →
        (run ≠ [] → fuel' + 1 = fuel ∧ s' = s ++ run) →
        decGeneral utf8Cb need fuel' true s' (encUtf8 tail ++ closeTag need ++ rest) = some (s ++ run ++ tail, rest) := by
      intro s' fuel' hf' h0 h1
      have hs' : s' = s ++ run := by
        by_cases hr : run = []
        · rw [(h0 hr).2, hr]; simp
        · exact (h1 hr).2
      rcases htail with rfl | ⟨t, tl, rfl, ht⟩
      · obtain ⟨f, rfl⟩ : ∃ f, fuel' = f + 1 := ⟨fuel' - 1, by omega⟩
        simp only [encUtf8, List.flatMap_nil, List.nil_append, List.append_nil]
        rw [dg_close _ _ hneed, hs']
      · obtain ⟨he, hnok, hct, hmem⟩ := ctl_table t (isCtl_lt ht) ht
        have e1 : encUtf8 (t :: tl) = emptyTag (ctlName t) ++ encUtf8 tl := by
          simp [encUtf8, List.flatMap_cons, he]
        rw [e1] at hf' ⊢
        simp only [List.length_append, emptyTag_length] at hf'
        obtain ⟨f, rfl⟩ : ∃ f, fuel' = f + 1 := ⟨fuel' - 1, by omega⟩
        rw [List.append_assoc, List.append_assoc, dg_unexp _ _ hneed _ _ _ _ hnok]
        have hun : utf8Cb.unexp s' (emptyTag (ctlName t)) = some (s' ++ [t]) := by simp [utf8Cb, hct]
        rw [hun]
        simp only [Option.bind_some]
        have := ih tl (by simp at hl; omega) (s' ++ [t]) f (by omega)
        simp only [List.append_assoc] at this
        rw [this, hs']; simp
    by_cases hr : run = []
    · subst hr
      simp only [encUtf8, List.flatMap_nil, List.nil_append, List.length_nil, Nat.zero_add] at hf ⊢
      have := hstep s fuel (by simpa [encUtf8] using hf) (fun _ => ⟨rfl, rfl⟩) (fun h => absurd rfl h)
      simpa [encUtf8] using this
    · have hne : encUtf8 run ≠ [] := by
        intro e
        have : run.length = 0 := by rw [e] at hrl; simpa using hrl
        exact hr (List.length_eq_zero_iff.mp this)
      obtain ⟨f, rfl⟩ : ∃ f, fuel = f + 1 := ⟨fuel - 1, by omega⟩
      -- the next character is '<'
      have hlt : ∃ r', encUtf8 tail ++ closeTag need ++ rest = cLT :: r' := by
        rcases htail with rfl | ⟨t, tl, rfl, ht⟩
        · exact ⟨cSL :: (need ++ cGT :: rest), by simp [encUtf8, closeTag]⟩
        · obtain ⟨he, _, _, _⟩ := ctl_table t (isCtl_lt ht) ht
          exact ⟨ctlName t ++ cSL :: cGT :: (List.flatMap escapeByte tl ++ (closeTag need ++ rest)), by
            simp [encUtf8, List.flatMap_cons, he, emptyTag]⟩
      obtain ⟨r', hr'⟩ := hlt
      have hlen : 0 < (encUtf8 run).length := List.length_pos_iff.mpr hne
      rw [List.append_assoc, List.append_assoc]
      rw [show encUtf8 tail ++ (closeTag need ++ rest) = cLT :: r' by rw [← List.append_assoc]; exact hr']
      rw [dg_text _ _ _ _ _ _ hne (encUtf8_run_noLT run hrun)]
      have hbody : utf8Cb.body s (encUtf8 run) = some (s ++ run) := by
        simp only [utf8Cb]; rw [convEnt_run run hrun _ (by omega)]; rfl
      rw [hbody]
      simp only [Option.bind_some]
      rw [← hr']
      rw [← List.append_assoc]
      exact hstep (s ++ run) f (by omega) (fun h => absurd h hr) (fun _ => ⟨rfl, rfl⟩)

/-! ### BMPString / UniversalString: the UTF-8 text and its way back (`UTF8String_to_wcs`) -/

/-- one code point of up to 31 bits written by `utf8Enc` is read back by `UTF8String__process` -/
theorem utf8Points_utf8Enc (w : Nat) (hw : w < 2 ^ 31) (r : Bytes) (f : Nat) :
    utf8Points (f + 1) (utf8Enc w ++ r) = (utf8Points f r).map (w :: ·) := by
  unfold utf8Enc
  by_cases h1 : w < 0x80
  · rw [if_pos h1]
    have e : w % 128 = w := Nat.mod_eq_of_lt h1
    simp [utf8Points, h1, e]
  rw [if_neg h1]
  by_cases h2 : w < 0x800
  · rw [if_pos h2]
    have a1 : ¬ (0xc0 + w / 64 < 0x80) := by omega
    have a2 : ¬ (0xc0 + w / 64 < 0xc0) := by omega
    have a3 : 0xc0 + w / 64 < 0xe0 := by omega
    simp [utf8Points, a1, a2, a3]
    rw [if_neg (by omega), if_pos (by omega), if_neg (by omega)]
    congr 1; funext x; congr 1; omega
  rw [if_neg h2]
  by_cases h3 : w < 0x10000
  · rw [if_pos h3]
    have a1 : ¬ (0xe0 + w / 4096 < 0x80) := by omega
    have a2 : ¬ (0xe0 + w / 4096 < 0xc0) := by omega
    have a3 : ¬ (0xe0 + w / 4096 < 0xe0) := by omega
    have a4 : 0xe0 + w / 4096 < 0xf0 := by omega
    simp [utf8Points, a1, a2, a3, a4]
    rw [if_neg (by omega), if_pos (by omega), if_neg (by omega)]
    congr 1; funext x; congr 1; omega
  rw [if_neg h3]
  by_cases h4 : w < 0x200000
  · rw [if_pos h4]
    have a1 : ¬ (0xf0 + w / 262144 < 0x80) := by omega
    have a2 : ¬ (0xf0 + w / 262144 < 0xc0) := by omega
    have a3 : ¬ (0xf0 + w / 262144 < 0xe0) := by omega
    have a4 : ¬ (0xf0 + w / 262144 < 0xf0) := by omega
    have a5 : 0xf0 + w / 262144 < 0xf8 := by omega
    simp [utf8Points, a1, a2, a3, a4, a5]
    rw [if_neg (by omega), if_pos (by omega), if_neg (by omega)]
    congr 1; funext x; congr 1; omega
  rw [if_neg h4]
  by_cases h5 : w < 0x4000000
  · rw [if_pos h5]
    have a1 : ¬ (0xf8 + w / 16777216 < 0x80) := by omega
    have a2 : ¬ (0xf8 + w / 16777216 < 0xc0) := by omega
    have a3 : ¬ (0xf8 + w / 16777216 < 0xe0) := by omega
    have a4 : ¬ (0xf8 + w / 16777216 < 0xf0) := by omega
    have a5 : ¬ (0xf8 + w / 16777216 < 0xf8) := by omega
    have a6 : 0xf8 + w / 16777216 < 0xfc := by omega
    simp [utf8Points, a1, a2, a3, a4, a5, a6]
    rw [if_neg (by omega), if_pos (by omega), if_neg (by omega)]
    congr 1; funext x; congr 1; omega
  rw [if_neg h5]
  have hw' : w < 2147483648 := by simpa using hw
  have a1 : ¬ (0xfc + w / 1073741824 % 2 < 0x80) := by omega
  have a2 : ¬ (0xfc + w / 1073741824 % 2 < 0xc0) := by omega
  have a3 : ¬ (0xfc + w / 1073741824 % 2 < 0xe0) := by omega
  have a4 : ¬ (0xfc + w / 1073741824 % 2 < 0xf0) := by omega
  have a5 : ¬ (0xfc + w / 1073741824 % 2 < 0xf8) := by omega
  have a6 : ¬ (0xfc + w / 1073741824 % 2 < 0xfc) := by omega
  have a7 : 0xfc + w / 1073741824 % 2 < 0xfe := by omega
  simp [utf8Points, a1, a2, a3, a4, a5, a6, a7]
  rw [if_neg (by omega), if_pos (by omega), if_neg (by omega)]
  congr 1; funext x; congr 1; omega

theorem utf8Enc_ne_nil (w : Nat) : utf8Enc w ≠ [] := by
  unfold utf8Enc; split_ifs <;> simp

/-- a BMPString value: an even number of octets -/
def bmpOk : Bytes → Bool
  | a :: b :: r => decide (a < 256) && decide (b < 256) && bmpOk r
  | [] => true
  | _ => false

/-- a UniversalString value: a multiple of four octets, code points below 2^31 (the six-octet UTF-8 form of
    UniversalString__dump has 31 bits) -/
def uniOk : Bytes → Bool
  | a :: b :: c :: d :: r => decide (a < 128) && decide (b < 256) && decide (c < 256) && decide (d < 256) && uniOk r
  | [] => true
  | _ => false

theorem utf8Points_nil (f : Nat) : utf8Points (f + 1) [] = some [] := by simp [utf8Points]

theorem bmpOfUtf8_bmpUtf8 (bs : Bytes) (h : bmpOk bs = true) : bmpOfUtf8 (bmpUtf8 bs) = some bs := by
  have key : ∀ (n : Nat) (bs : Bytes), bs.length ≤ n → bmpOk bs = true → ∀ f, bs.length ≤ 2 * f + 1 →
      ∃ ps, utf8Points (f + 1) (bmpUtf8 bs) = some ps ∧ ps.all (· ≤ 0xffff) = true ∧
        (ps.flatMap fun p => [p / 256 % 256, p % 256]) = bs := by
    intro n
    induction n with
    | zero =>
      intro bs hl _ f _
      have : bs = [] := List.length_eq_zero_iff.mp (by omega)
      subst this
      exact ⟨[], by simp [bmpUtf8, utf8Points], rfl, rfl⟩
    | succ n ih =>
      intro bs hl hok f hf
      match bs, hok with
      | [], _ => exact ⟨[], by simp [bmpUtf8, utf8Points], rfl, rfl⟩
      | [_], hok => simp [bmpOk] at hok
      | a :: b :: r, hok =>
        simp only [bmpOk, Bool.and_eq_true, decide_eq_true_eq] at hok
        obtain ⟨⟨ha, hb⟩, hr⟩ := hok
        obtain ⟨f', rfl⟩ : ∃ f', f = f' + 1 := ⟨f - 1, by simp at hf; omega⟩
        obtain ⟨ps, h1, h2, h3⟩ := ih r (by simp at hl; omega) hr f' (by simp at hf; omega)
        refine ⟨(a * 256 + b) :: ps, ?_, ?_, ?_⟩
        · simp only [bmpUtf8]
          rw [utf8Points_utf8Enc _ (by omega), h1]; rfl
        · simp only [List.all_cons, h2, Bool.and_true, decide_eq_true_eq]; omega
        · simp only [List.flatMap_cons, h3, List.cons_append, List.nil_append]
          congr 1
          · omega
          · congr 1; omega
  have hlen : bs.length ≤ 2 * (bmpUtf8 bs).length + 1 := by
    have : ∀ (n : Nat) (bs : Bytes), bs.length ≤ n → bs.length ≤ 2 * (bmpUtf8 bs).length + 1 := by
      intro n
      induction n with
      | zero => intro bs hl; omega
      | succ n ih =>
        intro bs hl
        match bs with
        | [] => simp
        | [_] => simp
        | a :: b :: r =>
          have := ih r (by simp at hl; omega)
          have h0 : 0 < (utf8Enc (a * 256 + b)).length := List.length_pos_iff.mpr (utf8Enc_ne_nil _)
          simp only [bmpUtf8, List.length_cons, List.length_append]; omega
    exact this _ bs (Nat.le_refl _)
  obtain ⟨ps, h1, h2, h3⟩ := key _ bs (Nat.le_refl _) h _ hlen
  simp only [bmpOfUtf8, h1, h2, if_true, h3]

theorem uniOfUtf8_uniUtf8 (bs : Bytes) (h : uniOk bs = true) : uniOfUtf8 (uniUtf8 bs) = some bs := by
  have key : ∀ (n : Nat) (bs : Bytes), bs.length ≤ n → uniOk bs = true → ∀ f, bs.length ≤ 4 * f + 3 →
      ∃ ps, utf8Points (f + 1) (uniUtf8 bs) = some ps ∧
        (ps.flatMap fun p => [p / 16777216 % 256, p / 65536 % 256, p / 256 % 256, p % 256]) = bs := by
    intro n
    induction n with
    | zero =>
      intro bs hl _ f _
      have : bs = [] := List.length_eq_zero_iff.mp (by omega)
      subst this
      exact ⟨[], by simp [uniUtf8, utf8Points], rfl⟩
    | succ n ih =>
      intro bs hl hok f hf
      match bs, hok with
      | [], _ => exact ⟨[], by simp [uniUtf8, utf8Points], rfl⟩
      | [_], hok => simp [uniOk] at hok
      | [_, _], hok => simp [uniOk] at hok
      | [_, _, _], hok => simp [uniOk] at hok
      | a :: b :: c :: d :: r, hok =>
        simp only [uniOk, Bool.and_eq_true, decide_eq_true_eq] at hok
        obtain ⟨⟨⟨⟨ha, hb⟩, hc⟩, hd⟩, hr⟩ := hok
        obtain ⟨f', rfl⟩ : ∃ f', f = f' + 1 := ⟨f - 1, by simp at hf; omega⟩
        obtain ⟨ps, h1, h3⟩ := ih r (by simp at hl; omega) hr f' (by simp at hf; omega)
        refine ⟨(((a * 256 + b) * 256 + c) * 256 + d) :: ps, ?_, ?_⟩
        · simp only [uniUtf8]
          rw [utf8Points_utf8Enc _ (by omega), h1]; rfl
        · simp only [List.flatMap_cons, h3, List.cons_append, List.nil_append]
          congr 1
          · omega
          · congr 1
            · omega
            · congr 1
              · omega
              · congr 1; omega
  have hlen : bs.length ≤ 4 * (uniUtf8 bs).length + 3 := by
    have : ∀ (n : Nat) (bs : Bytes), bs.length ≤ n → bs.length ≤ 4 * (uniUtf8 bs).length + 3 := by
      intro n
      induction n with
      | zero => intro bs hl; omega
      | succ n ih =>
        intro bs hl
        match bs with
        | [] => simp
        | [_] => simp
        | [_, _] => simp
        | [_, _, _] => simp
        | a :: b :: c :: d :: r =>
          have := ih r (by simp at hl; omega)
          have h0 : 0 < (utf8Enc (((a * 256 + b) * 256 + c) * 256 + d)).length := List.length_pos_iff.mpr (utf8Enc_ne_nil _)
          simp only [uniUtf8, List.length_cons, List.length_append]; omega
    exact this _ bs (Nat.le_refl _)
  obtain ⟨ps, h1, h3⟩ := key _ bs (Nat.le_refl _) h _ hlen
  simp only [uniOfUtf8, h1, h3]

/-- the decoder of a UTF-8 written string on the escaped text: the octets come back -/
theorem decStr_utf8 (name : Bytes) (hname : nameOk name = true) (txt rest : Bytes) :
    decStr utf8Cb [] name (openTag name ++ encUtf8 txt ++ closeTag name ++ rest) = some (txt, rest) := by
  simp only [decStr]
  obtain ⟨g, hg⟩ : ∃ g, (openTag name ++ encUtf8 txt ++ closeTag name ++ rest).length + 1 = g + 1 := ⟨_, rfl⟩
  rw [hg, List.append_assoc, List.append_assoc, dg_open _ _ hname]
  have := utf8Loop name hname rest txt.length txt (Nat.le_refl _) [] g (by
    simp only [List.length_append, openTag_length, closeTag_length] at hg; omega)
  simp only [List.append_assoc, List.nil_append] at this
  rw [this]

/-! ### BIT STRING -/

/-- the eight bits of an octet, most significant first -/
def bitsOf (v : Nat) : List Bool :=
  [v / 128 % 2 == 1, v / 64 % 2 == 1, v / 32 % 2 == 1, v / 16 % 2 == 1, v / 8 % 2 == 1, v / 4 % 2 == 1, v / 2 % 2 == 1, v % 2 == 1]

theorem convBin_append (x r : Bytes) :
    convBin (x ++ r) = (convBin x).bind fun a => (convBin r).map fun b => a ++ b := by
  induction x with
  | nil => cases h : convBin r <;> simp [convBin, h]
  | cons c cs ih =>
    simp only [List.cons_append, convBin]
    split
    · exact ih
    · split
      · rw [ih]; cases convBin cs <;> cases convBin r <;> simp
      · split
        · rw [ih]; cases convBin cs <;> cases convBin r <;> simp
        · rfl

theorem convBin_noLT : ∀ (l : Bytes) (a : List Bool), convBin l = some a → ∀ x ∈ l, x ≠ cLT := by
  intro l
  induction l with
  | nil => intro a _ x hx; cases hx
  | cons c cs ih =>
    intro a h x hx
    simp only [convBin] at h
    simp only [List.mem_cons] at hx
    split at h
    · rename_i hws
      rcases hx with rfl | hx
      · intro e; rw [e] at hws; revert hws; decide
      · exact ih a h x hx
    · split at h
      · rename_i h0
        cases hc : convBin cs with
        | none => simp [hc] at h
        | some a' =>
          rcases hx with rfl | hx
          · rw [h0]; decide
          · exact ih a' hc x hx
      · split at h
        · rename_i h1
          cases hc : convBin cs with
          | none => simp [hc] at h
          | some a' =>
            rcases hx with rfl | hx
            · rw [h1]; decide
            · exact ih a' hc x hx
        · cases h

theorem convBin_indent (l : Nat) : convBin (indent l) = some [] := by
  have : ∀ k, convBin (List.replicate k 32) = some [] := by
    intro k
    induction k with
    | zero => rfl
    | succ k ih => rw [List.replicate_succ]; simp only [convBin, isWsX_32, if_true, ih]
  simp only [indent, convBin, isWsX_10, if_true, this]

theorem bits8_table : ∀ b, b < 256 → convBin (bits8 b) = some (bitsOf b) ∧ bitsVal 0 (bitsOf b) = b := by
  decide +kernel

theorem bits8_take_table : ∀ b, b < 256 → ∀ u, u < 8 → b % 2 ^ u = 0 →
    convBin ((bits8 b).take (8 - u)) = some ((bitsOf b).take (8 - u)) ∧
      bitsVal 0 ((bitsOf b).take (8 - u) ++ List.replicate u false) = b := by
  decide +kernel

theorem convBin_flatMap (full : Bytes) (hf : ∀ b ∈ full, b < 256) :
    convBin (full.flatMap bits8) = some (full.flatMap bitsOf) := by
  induction full with
  | nil => rfl
  | cons b bs ih =>
    rw [List.flatMap_cons, convBin_append, (bits8_table b (hf b (by simp))).1, ih (fun x hx => hf x (by simp [hx]))]
    simp

theorem convBin_bitsLoop (il : Nat) : ∀ (input : Bytes) (i : Nat) (pend : Bytes) (P : List Bool),
    (∀ b ∈ input, b < 256) → convBin pend = some P →
    ∃ A B, convBin (bitsLoop il i pend input).1 = some A ∧ convBin (bitsLoop il i pend input).2 = some B ∧
      A ++ B = P ++ input.flatMap bitsOf := by
  intro input
  induction input with
  | nil => intro i pend P _ hp; exact ⟨[], P, rfl, hp, by simp⟩
  | cons b bs ih =>
    intro i pend P hb hp
    have hb0 := (bits8_table b (hb b (by simp))).1
    simp only [bitsLoop]
    split
    · obtain ⟨A, B, hA, hB, hAB⟩ := ih (i + 1) (bits8 b) (bitsOf b) (fun x hx => hb x (by simp [hx])) hb0
      refine ⟨P ++ A, B, ?_, hB, ?_⟩
      · rw [convBin_append, convBin_append pend, hp, convBin_indent, hA]; simp
      · rw [List.append_assoc, hAB]; simp
    · obtain ⟨A, B, hA, hB, hAB⟩ := ih (i + 1) (pend ++ bits8 b) (P ++ bitsOf b) (fun x hx => hb x (by simp [hx]))
        (by rw [convBin_append, hp, hb0]; simp)
      exact ⟨A, B, hA, hB, by rw [hAB]; simp⟩

/-- the BIT STRING values that round-trip: octets, at most 7 unused bits in the last octet and those are zero
    (an empty string has none) -/
def bitsOk (bs : Bytes) (u : Nat) : Bool :=
  bs.all (· < 256) && decide (u < 8) &&
    (match bs.getLast? with
     | none => u == 0
     | some v => v % 2 ^ u == 0)

theorem bitsOf_length (v : Nat) : (bitsOf v).length = 8 := rfl

theorem flatMap_bitsOf_length (full : Bytes) : (full.flatMap bitsOf).length = 8 * full.length := by
  induction full with
  | nil => rfl
  | cons b bs ih => rw [List.flatMap_cons, List.length_append, ih, bitsOf_length, List.length_cons]; omega

theorem packBitsF_nil (f : Nat) : packBitsF f [] = [] := by cases f <;> simp [packBitsF]

theorem packBitsF_bytes : ∀ (full : Bytes), (∀ b ∈ full, b < 256) → ∀ (f : Nat) (tl : List Bool), full.length ≤ f →
    packBitsF f (full.flatMap bitsOf ++ tl) = full ++ packBitsF (f - full.length) tl := by
  intro full
  induction full with
  | nil => intro _ f tl _; simp
  | cons b bs ih =>
    intro hb f tl hf
    obtain ⟨f', rfl⟩ : ∃ f', f = f' + 1 := ⟨f - 1, by simp at hf; omega⟩
    have hv := (bits8_table b (hb b (by simp))).2
    have e : List.flatMap bitsOf (b :: bs) ++ tl = bitsOf b ++ (bs.flatMap bitsOf ++ tl) := by simp
    have ht : (bitsOf b ++ (bs.flatMap bitsOf ++ tl)).take 8 = bitsOf b := by
      rw [List.take_append_of_le_length (by simp [bitsOf_length])]; exact List.take_of_length_le (by simp [bitsOf_length])
    have hd : (bitsOf b ++ (bs.flatMap bitsOf ++ tl)).drop 8 = bs.flatMap bitsOf ++ tl := by
      rw [List.drop_append_of_le_length (by simp [bitsOf_length])]
      simp [List.drop_of_length_le, bitsOf_length]
    rw [e]
    simp only [packBitsF]
    rw [if_neg (by simp [bitsOf]), ht, hd, bitsOf_length]
    simp only [Nat.sub_self, List.replicate_zero, List.append_nil, hv]
    rw [ih (fun x hx => hb x (by simp [hx])) f' tl (by simp at hf; omega)]
    simp

theorem encBits_spec (c : Bool) (il : Nat) (bs : Bytes) (u : Nat) (hok : bitsOk bs u = true) :
    ∃ bits, convBin (encBits c il bs u) = some bits ∧ packBits bits = bs ∧ (8 - bits.length % 8) % 8 = u := by
  simp only [bitsOk, Bool.and_eq_true, List.all_eq_true, decide_eq_true_eq] at hok
  obtain ⟨⟨hb, hu⟩, hlast⟩ := hok
  cases hl : bs.getLast? with
  | none =>
    have hbs : bs = [] := List.getLast?_eq_none_iff.mp hl
    subst hbs
    simp only [List.getLast?_nil, beq_iff_eq] at hlast
    subst hlast
    refine ⟨[], ?_, rfl, rfl⟩
    cases c with
    | true => rfl
    | false =>
      simp only [encBits, List.length_nil, List.getLast?_nil, Bool.false_eq_true, if_false, List.take_nil, bitsLoop,
        List.nil_append, List.append_nil]
      rw [if_pos (by decide), convBin_append, convBin_indent, convBin_indent]; rfl
  | some v =>
    obtain ⟨full, rfl⟩ := List.getLast?_eq_some_iff.mp hl
    rw [hl] at hlast
    simp only [beq_iff_eq] at hlast
    have hv : v < 256 := hb v (by simp)
    have hfull : ∀ b ∈ full, b < 256 := fun b hbm => hb b (by simp [hbm])
    obtain ⟨ht1, ht2⟩ := bits8_take_table v hv u hu hlast
    have htake : (full ++ [v]).take ((full ++ [v]).length - 1) = full := by simp
    refine ⟨full.flatMap bitsOf ++ (bitsOf v).take (8 - u), ?_, ?_, ?_⟩
    · cases c with
      | true =>
        simp only [encBits, hl, if_true, htake]
        rw [convBin_append, convBin_flatMap full hfull, ht1]; simp
      | false =>
        simp only [encBits, hl, Bool.false_eq_true, if_false, htake]
        obtain ⟨A, B, hA, hB, hAB⟩ := convBin_bitsLoop il full 0 [] [] hfull rfl
        have hX : ∀ (k : Nat), convBin (if k % 8 = 0 then indent il else []) = some [] := by
          intro k; split
          · exact convBin_indent il
          · rfl
        rw [convBin_append, convBin_append, convBin_append, convBin_append, hA, hX, hB, ht1, convBin_indent]
        simp only [Option.bind_some, Option.map_some, List.append_nil, List.nil_append, Option.some.injEq]
        rw [hAB]; simp
    · unfold packBits
      have hlen : ((bitsOf v).take (8 - u)).length = 8 - u := by rw [List.length_take, bitsOf_length]; omega
      rw [packBitsF_bytes full hfull _ _ (by rw [List.length_append, flatMap_bitsOf_length]; omega)]
      obtain ⟨g, hg⟩ : ∃ g, (full.flatMap bitsOf ++ (bitsOf v).take (8 - u)).length - full.length = g + 1 :=
        ⟨(full.flatMap bitsOf ++ (bitsOf v).take (8 - u)).length - full.length - 1, by
          simp only [List.length_append, flatMap_bitsOf_length, hlen]; omega⟩
      rw [hg]
      simp only [packBitsF]
      rw [if_neg (by intro e; rw [e] at hlen; simp at hlen; omega)]
      rw [List.take_of_length_le (by omega), List.drop_of_length_le (by omega), packBitsF_nil, hlen]
      have : 8 - (8 - u) = u := by omega
      rw [this, ht2]
    · simp only [List.length_append, flatMap_bitsOf_length, List.length_take, bitsOf_length]; omega

/-! ## the round-trip statement -/

/-- element tags that cannot be used for an XMLValueList of this type: the elements of `SEQUENCE OF BOOLEAN` are
    written `<true/><false/>` and each is decoded with the tag `n` of the element type expected, so `<n/>` is the
    empty element itself there.  (No ASN.1 module gets here: `n` is `BOOLEAN` / `ENUMERATED` or a type reference
    name, which starts with a capital letter, the value tags start with a small one.)  Inside `<n>...</n>` a value
    tag may be called like the element since finding F153 is repaired. -/
def clash (t : XTy) (n : Bytes) : Bool :=
  match t with
  | .boolean => n == litTrue || n == litFalse
  | .enumerated ns _ => ns.contains n
  | _ => false

def enumOkB (ns : List Bytes) (vs : List Int) : Bool :=
  ns.length == vs.length && decide ns.Nodup && ns.all nameOk && vs.all fun v => decide (-(2 ^ 63) ≤ v ∧ v < 2 ^ 63)

theorem enumOk_of_B {ns : List Bytes} {vs : List Int} (h : enumOkB ns vs = true) : enumOk ns vs := by
  simp only [enumOkB, Bool.and_eq_true, beq_iff_eq, decide_eq_true_eq, List.all_eq_true] at h
  exact ⟨h.1.1.1, h.1.1.2, h.1.2, h.2⟩

/-- the element types of an XMLValueList (X.680 §25.5): BOOLEAN, ENUMERATED, NULL -/
def isVL : XTy → Bool
  | .boolean | .null | .enumerated _ _ => true
  | _ => false

def isChoice : XTy → Bool
  | .choice _ _ _ => true
  | _ => false

mutual
/-- the types covered by the round-trip theorem -/
def rtTy : XTy → Bool
  | .boolean => true
  | .null => true
  | .integer _ => true
  | .enumerated ns vs => enumOkB ns vs
  | .hexstr => true
  | .bitstr => true
  | .utf8str => true
  | .timestr _ => true
  | .bmpstr => true
  | .unistr => true
  | .seq names ms attrs _ =>
    names.length == ms.length && attrs.length == ms.length && names.all nameOk && decide names.Nodup && rtTys ms
  | .choice names alts _ =>
    names.length == alts.length && names.all nameOk && decide names.Nodup && rtTys alts
  | .seqOf mode en e =>
    (((mode == 0 || (mode == 1 && isVL e && !clash e en)) && nameOk en) || (mode == 2 && en == [] && isChoice e)) && rtTy e
  | _ => false
def rtTys : List XTy → Bool
  | [] => true
  | m :: ms => rtTy m && rtTys ms
end

mutual
/-- the values covered by the round trip in the variant `c` (CANONICAL-XER when `c`): of the right shape, INTEGER
    within `long` - `unsigned long` for the unsigned native representation (`intRange`) -, ENUMERATED one of the items; a component may be absent only when it is OPTIONAL / an extension
    addition / DEFAULT, and
    * BASIC-XER (the encoder substitutes the default value for an absent DEFAULT component): a DEFAULT component
      with a value the encoder substitutes is stored explicitly;
    * CANONICAL-XER (default values are not encoded): a DEFAULT component is absent or holds another value -/
def rtVal (c : Bool) : XTy → Val → Bool
  | .boolean, .bool _ => true
  | .null, .null => true
  | .integer r, .int z => decide (intRange r z)
  | .enumerated ns vs, .int z => (lookupName ns vs z).isSome
  | .hexstr, .octets bs => bs.all (· < 256)
  | .bitstr, .bits bs u => bitsOk bs u
  | .utf8str, .octets _ => true
  | .timestr _, .octets _ => true
  | .bmpstr, .octets bs => bmpOk bs
  | .unistr, .octets bs => uniOk bs
  | .seq _ ms attrs _, .seq vs => rtVals c ms attrs vs
  | .choice _ alts _, .choice i v => rtAlt c alts i v
  | .seqOf _ _ e, .list vs => vs.all (rtVal c e)
  | _, _ => false
def rtVals (c : Bool) : List XTy → List Attr → List Val → Bool
  | [], [], [] => true
  | m :: ms, a :: as, v :: vs =>
    (match v with
     | .absent => (c || (dfltVal a).isNone) && omitable a
     | v => rtVal c m v && !(c && isDefault a v)) && rtVals c ms as vs
  | _, _, _ => false
def rtAlt (c : Bool) : List XTy → Nat → Val → Bool
  | m :: _, 0, v => rtVal c m v
  | _ :: ms, i + 1, v => rtAlt c ms i v
  | [], _, _ => false
end

/-- the round-trip statement for the decoder of one type, as a member called `name` -/
def RT (t : XTy) : Prop :=
  ∀ (c : Bool) (name : Bytes) (il : Nat) (v : Val) (body rest : Bytes) (fuel : Nat),
    nameOk name = true → rtVal c t v = true → encTy c t il v = some body →
    body.length + 4 ≤ fuel →
    decTy fuel t name (openTag name ++ body ++ closeTag name ++ rest) = some (v, rest)

/-- the statement for a CHOICE decoded without a tag of its own (the element of a SEQUENCE OF CHOICE): its
    rendering is `[indent] <alt>..</alt> [indent]`; the decoder, started at `<alt>`, returns after `</alt>` -/
def RT0 (t : XTy) : Prop :=
  ∀ names alts ext, t = .choice names alts ext →
  ∀ (c : Bool) (il : Nat) (v : Val) (body rest : Bytes) (fuel : Nat),
    rtVal c t v = true → encTy c t il v = some body → body.length ≤ fuel →
    ∃ n r, nameOk n = true ∧ body = ws c il ++ (openTag n ++ r) ++ ws c (il - 1) ∧
      decTy fuel t [] (openTag n ++ r ++ (ws c (il - 1) ++ rest)) = some (v, ws c (il - 1) ++ rest)

theorem XTy.induct' (P : XTy → Prop)
    (boolean : P .boolean) (null : P .null) (integer : ∀ r, P (.integer r))
    (enumerated : ∀ ns vs, P (.enumerated ns vs)) (hexstr : P .hexstr) (bitstr : P .bitstr)
    (utf8str : P .utf8str) (timestr : ∀ u, P (.timestr u)) (bmpstr : P .bmpstr) (unistr : P .unistr)
    (oid : P .oid) (roid : P .roid)
    (seq : ∀ names ms attrs fe, (∀ m ∈ ms, P m) → P (.seq names ms attrs fe))
    (set : ∀ names ms attrs order ext, (∀ m ∈ ms, P m) → P (.set names ms attrs order ext))
    (choice : ∀ names alts ext, (∀ m ∈ alts, P m) → P (.choice names alts ext))
    (seqOf : ∀ mode en e, P e → P (.seqOf mode en e)) (setOf : ∀ mode en e, P e → P (.setOf mode en e)) :
    ∀ t, P t := by
  intro t
  refine XTy.rec (motive_1 := P) (motive_2 := fun ms => ∀ m ∈ ms, P m)
    boolean null integer enumerated hexstr bitstr utf8str timestr bmpstr unistr oid roid seq set choice seqOf setOf ?_ ?_ t
  · intro m hm; cases hm
  · intro h tl ih1 ih2 m hm
    rcases List.mem_cons.mp hm with rfl | hm
    · exact ih1
    · exact ih2 m hm

/-! ### primitive types -/

theorem rt_boolean : RT .boolean := by
  intro c name il v body rest fuel hname hv he hf
  obtain ⟨f, rfl⟩ : ∃ f, fuel = f + 1 := ⟨fuel - 1, by omega⟩
  cases v with
  | bool b =>
    simp only [encTy, Option.some.injEq] at he
    subst he
    simp only [decTy]
    cases b with
    | true =>
      exact decPrim_tag boolBody name hname litTrue rest _ nameOk_true boolBody_true
    | false =>
      exact decPrim_tag boolBody name hname litFalse rest _ nameOk_false boolBody_false
  | _ => simp [rtVal] at hv

theorem rt_null : RT .null := by
  intro c name il v body rest fuel hname hv he hf
  obtain ⟨f, rfl⟩ : ∃ f, fuel = f + 1 := ⟨fuel - 1, by omega⟩
  cases v with
  | null =>
    simp only [encTy, Option.some.injEq] at he
    subst he
    simp only [decTy, List.append_nil]
    exact decPrim_empty nullBody name hname rest _ rfl
  | _ => simp [rtVal] at hv

theorem rt_integer (r : IntRepr) : RT (.integer r) := by
  intro c name il v body rest fuel hname hv he hf
  obtain ⟨f, rfl⟩ : ∃ f, fuel = f + 1 := ⟨fuel - 1, by omega⟩
  cases v with
  | int z =>
    simp only [rtVal, decide_eq_true_eq] at hv
    have henc : encInt r z = some (intDec z) := by
      have hv' := hv
      unfold intRange at hv'
      cases r with
      | long =>
        simp only [encInt]
        rcases hv' with ⟨a, b, _⟩ | ⟨h, _⟩
        · rw [if_pos ⟨a, b⟩]
        · cases h
      | wide =>
        simp only [encInt]
        rcases hv' with ⟨a, b, _⟩ | ⟨h, _⟩
        · rw [if_pos ⟨a, b⟩]
        · cases h
      | ulong =>
        simp only [encInt]
        rcases hv' with ⟨_, b, h0⟩ | ⟨_, a, b⟩
        · rw [if_pos ⟨h0 rfl, by omega⟩]
        · rw [if_pos ⟨by omega, b⟩]
    simp only [encTy, henc, Option.some.injEq] at he
    subst he
    obtain ⟨ch, rs, hd, hws, _⟩ := intDec_head z
    simp only [decTy]
    apply decPrim_text _ name hname (intDec z) rest _ (by rw [hd]; simp) (intDec_noLT z)
    rw [hd, dropWhile_head hws, ← hd]
    exact intBody_intDec r [] [] z hv
  | _ => simp [rtVal] at hv

theorem rt_enumerated (ns : List Bytes) (vs : List Int) (hok : enumOkB ns vs = true) : RT (.enumerated ns vs) := by
  intro c name il v body rest fuel hname hv he hf
  obtain ⟨f, rfl⟩ : ∃ f, fuel = f + 1 := ⟨fuel - 1, by omega⟩
  have hok' := enumOk_of_B hok
  cases v with
  | int z =>
    simp only [rtVal, Option.isSome_iff_exists] at hv
    obtain ⟨n, hn⟩ := hv
    simp only [encTy, hn, Option.map_some, Option.some.injEq] at he
    subst he
    obtain ⟨hm, _⟩ := lookupName_mem ns vs z n hn
    simp only [decTy]
    exact decPrim_tag _ name hname n rest _ (hok'.2.2.1 n hm) (intBody_enum ns vs z n hok' hn)
  | _ => simp [rtVal] at hv

theorem rt_hexstr : RT .hexstr := by
  intro c name il v body rest fuel hname hv he hf
  obtain ⟨f, rfl⟩ : ∃ f, fuel = f + 1 := ⟨fuel - 1, by omega⟩
  cases v with
  | octets bs =>
    simp only [rtVal, List.all_eq_true, decide_eq_true_eq] at hv
    simp only [encTy, Option.some.injEq] at he
    subst he
    obtain ⟨h1, h2, h3⟩ := encHex_spec c il bs hv
    simp only [decTy]
    by_cases hbs : bs = []
    · subst hbs
      have : encHex c il [] = [] := by cases c <;> simp [encHex, hexBasic]
      rw [this, List.append_nil, decStr_empty hexCb [] name hname]; rfl
    · rw [decStr_text hexCb [] bs name hname (encHex c il bs) rest (h3 hbs) h2 (by simp [hexCb, h1])]; rfl
  | _ => simp [rtVal] at hv

theorem rt_utf8str : RT .utf8str := by
  intro c name il v body rest fuel hname hv he hf
  obtain ⟨f, rfl⟩ : ∃ f, fuel = f + 1 := ⟨fuel - 1, by omega⟩
  cases v with
  | octets bs =>
    simp only [encTy, Option.some.injEq] at he
    subst he
    simp only [decTy, decStr_utf8 name hname]; rfl
  | _ => simp [rtVal] at hv

/-- GeneralizedTime / UTCTime: written and read like the other UTF-8 written strings -/
theorem rt_timestr (u : Bool) : RT (.timestr u) := by
  intro c name il v body rest fuel hname hv he hf
  obtain ⟨f, rfl⟩ : ∃ f, fuel = f + 1 := ⟨fuel - 1, by omega⟩
  cases v with
  | octets bs =>
    simp only [encTy, Option.some.injEq] at he
    subst he
    simp only [decTy, decStr_utf8 name hname]; rfl
  | _ => simp [rtVal] at hv

/-- BMPString (finding F150 repaired): the escaped UTF-8 text decodes to the UTF-8 text, which converts back to
    the 16-bit characters -/
theorem rt_bmpstr : RT .bmpstr := by
  intro c name il v body rest fuel hname hv he hf
  obtain ⟨f, rfl⟩ : ∃ f, fuel = f + 1 := ⟨fuel - 1, by omega⟩
  cases v with
  | octets bs =>
    simp only [rtVal] at hv
    simp only [encTy, encBmp, Option.some.injEq] at he
    subst he
    simp only [decTy, decStr_utf8 name hname, bmpOfUtf8_bmpUtf8 bs hv]; rfl
  | _ => simp [rtVal] at hv

/-- UniversalString, code points below 2^31 -/
theorem rt_unistr : RT .unistr := by
  intro c name il v body rest fuel hname hv he hf
  obtain ⟨f, rfl⟩ : ∃ f, fuel = f + 1 := ⟨fuel - 1, by omega⟩
  cases v with
  | octets bs =>
    simp only [rtVal] at hv
    simp only [encTy, encUni, Option.some.injEq] at he
    subst he
    simp only [decTy, decStr_utf8 name hname, uniOfUtf8_uniUtf8 bs hv]; rfl
  | _ => simp [rtVal] at hv

theorem rt_bitstr : RT .bitstr := by
  intro c name il v body rest fuel hname hv he hf
  obtain ⟨f, rfl⟩ : ∃ f, fuel = f + 1 := ⟨fuel - 1, by omega⟩
  cases v with
  | bits bs u =>
    simp only [rtVal] at hv
    simp only [encTy, Option.some.injEq] at he
    subst he
    obtain ⟨bits, h1, h2, h3⟩ := encBits_spec c il bs u hv
    simp only [decTy]
    by_cases hbody : encBits c il bs u = []
    · rw [hbody] at h1 ⊢
      simp only [convBin, Option.some.injEq] at h1
      subst h1
      rw [List.append_nil, decStr_empty binCb [] name hname]
      simp only [Option.map_some, List.length_nil] at h3 ⊢
      rw [h2, h3]
    · rw [decStr_text binCb [] bits name hname (encBits c il bs u) rest hbody (convBin_noLT _ _ h1) (by simp [binCb, h1])]
      simp only [Option.map_some]
      rw [h2, h3]
  | _ => simp [rtVal] at hv

/-! ### SEQUENCE OF -/

section list
variable (en : Bytes) (e : XTy) (name : Bytes) (hname : nameOk name = true) (hen : nameOk en = true)

omit hen in
theorem decListBody_skip (f : Nat) (w r : Bytes) (hw : ∀ x ∈ w, x ≠ cLT) :
    ∃ g, g ≤ 1 ∧ g ≤ w.length ∧
      decListBody (f + 1) en e name (w ++ cLT :: r) = decListBody (f + 1 - g) en e name (cLT :: r) := by
  by_cases hn : w = []
  · subst hn; exact ⟨0, by omega, by simp, rfl⟩
  · refine ⟨1, by omega, List.length_pos_iff.mpr hn, ?_⟩
    cases f with
    | zero => simp [decListBody, nextTok_text w hn hw]
    | succ f => simp [decListBody, nextTok_text w hn hw]

omit hen in
theorem decListBody_skip_open (f : Nat) (w n r : Bytes) (hw : ∀ x ∈ w, x ≠ cLT) :
    ∃ g, g ≤ 1 ∧ g ≤ w.length ∧
      decListBody (f + 1) en e name (w ++ (openTag n ++ r)) = decListBody (f + 1 - g) en e name (openTag n ++ r) := by
  simpa only [openTag_eq] using decListBody_skip en e name f w _ hw

omit hen in
theorem decListBody_skip_close (f : Nat) (w n r : Bytes) (hw : ∀ x ∈ w, x ≠ cLT) :
    ∃ g, g ≤ 1 ∧ g ≤ w.length ∧
      decListBody (f + 1) en e name (w ++ (closeTag n ++ r)) = decListBody (f + 1 - g) en e name (closeTag n ++ r) := by
  simpa only [closeTag_eq] using decListBody_skip en e name f w _ hw

include hname in
omit hen in
theorem decListBody_close (f : Nat) (r : Bytes) :
    decListBody (f + 1) en e name (closeTag name ++ r) = some ([], r) := by
  simp [decListBody, nextTok_closeTag name hname, checkTag_close_self name hname]

include hname hen in
theorem decListBody_elem (f : Nat) (r : Bytes) :
    decListBody (f + 1) en e name (openTag en ++ r) =
      (decTy f e en (openTag en ++ r)).bind fun p =>
        (decListBody f en e name p.2).map fun q => (p.1 :: q.1, q.2) := by
  have hct : checkTag (openTag en) name = .opening ∨ checkTag (openTag en) name = .unkOp := by
    by_cases h : en = name
    · subst h; exact Or.inl (checkTag_open_self en hen)
    · exact Or.inr (checkTag_open_ne en name hen hname h)
  rcases hct with h | h <;>
  · simp only [decListBody, nextTok_openTag en hen, h]
    rcases decTy f e en (openTag en ++ r) with _ | ⟨v, bs'⟩
    · rfl
    · rfl

end list

/-- the element step for an element that starts with the tag `<n>` (the wrapper `en` itself, or the
    alternative of an unwrapped CHOICE element) -/
theorem decListBody_elem_any (en : Bytes) (e : XTy) (name : Bytes) (hname : nameOk name = true) (n : Bytes)
    (hn : nameOk n = true) (f : Nat) (r : Bytes) :
    decListBody (f + 1) en e name (openTag n ++ r) =
      (decTy f e en (openTag n ++ r)).bind fun p =>
        (decListBody f en e name p.2).map fun q => (p.1 :: q.1, q.2) := by
  have hct : checkTag (openTag n) name = .opening ∨ checkTag (openTag n) name = .unkOp := by
    by_cases h : n = name
    · subst h; exact Or.inl (checkTag_open_self n hn)
    · exact Or.inr (checkTag_open_ne n name hn hname h)
  rcases hct with h | h <;>
  · simp only [decListBody, nextTok_openTag n hn, h]
    rcases decTy f e en (openTag n ++ r) with _ | ⟨v, bs'⟩
    · rfl
    · rfl

theorem mapEnc_cons {α : Type} (f : α → Option Bytes) (v : α) (vs : List α) (bs : List Bytes)
    (h : mapEnc f (v :: vs) = some bs) : ∃ b bs', f v = some b ∧ mapEnc f vs = some bs' ∧ bs = b :: bs' := by
  simp only [mapEnc] at h
  cases h1 : f v with
  | none => simp [h1] at h
  | some b =>
    cases h2 : mapEnc f vs with
    | none => simp [h1, h2] at h
    | some bs' =>
      simp only [h1, h2, Option.some.injEq] at h
      exact ⟨b, bs', rfl, rfl, h.symm⟩

theorem listLoop (c : Bool) (il : Nat) (en : Bytes) (e : XTy) (name : Bytes) (hname : nameOk name = true)
    (hen : nameOk en = true) (ihe : RT e) :
    ∀ (vs : List Val) (bodies : List Bytes), mapEnc (encTy c e (il + 1)) vs = some bodies →
      vs.all (rtVal c e) = true → ∀ (fuel : Nat) (rest : Bytes),
      ((bodies.map (wrapSeqOfElem c 0 en il)).flatten).length + (ws c (il - 1)).length + 2 ≤ fuel →
      decListBody fuel en e name ((bodies.map (wrapSeqOfElem c 0 en il)).flatten ++ ws c (il - 1) ++ closeTag name ++ rest)
        = some (vs, rest) := by
  intro vs
  induction vs with
  | nil =>
    intro bodies hm _ fuel rest hf
    simp only [mapEnc, Option.some.injEq] at hm
    subst hm
    obtain ⟨f, rfl⟩ : ∃ f, fuel = f + 1 := ⟨fuel - 1, by omega⟩
    simp only [List.map_nil, List.flatten_nil, List.nil_append, List.append_assoc]
    obtain ⟨g, hg1, hg2, hg⟩ := decListBody_skip_close en e name f (ws c (il - 1)) name rest (ws_noLT c _)
    rw [hg]
    obtain ⟨f', hf'⟩ : ∃ f', f + 1 - g = f' + 1 := ⟨f - g, by simp at hf; omega⟩
    rw [hf', decListBody_close en e name hname]
  | cons v vs ih =>
    intro bodies hm hall fuel rest hf
    obtain ⟨b, bs', hb, hbs, rfl⟩ := mapEnc_cons _ v vs bodies hm
    simp only [List.all_cons, Bool.and_eq_true] at hall
    obtain ⟨f, rfl⟩ : ∃ f, fuel = f + 1 := ⟨fuel - 1, by omega⟩
    have hwrap : wrapSeqOfElem c 0 en il b = ws c il ++ (openTag en ++ b ++ closeTag en) := by
      simp [wrapSeqOfElem, ws]
    simp only [List.map_cons, List.flatten_cons, hwrap, List.length_append, openTag_length, closeTag_length] at hf ⊢
    simp only [List.append_assoc]
    obtain ⟨g, hg1, hg2, hg⟩ := decListBody_skip_open en e name f (ws c il) en
      (b ++ (closeTag en ++ ((bs'.map (wrapSeqOfElem c 0 en il)).flatten ++ (ws c (il - 1) ++ (closeTag name ++ rest)))))
      (ws_noLT c _)
    rw [hg]
    obtain ⟨f', hf'⟩ : ∃ f', f + 1 - g = f' + 1 := ⟨f - g, by omega⟩
    rw [hf', decListBody_elem en e name hname hen]
    have hrt := ihe c en (il + 1) v b
      ((bs'.map (wrapSeqOfElem c 0 en il)).flatten ++ (ws c (il - 1) ++ (closeTag name ++ rest))) f' hen hall.1 hb (by omega)
    simp only [List.append_assoc] at hrt
    rw [hrt]
    have hih := ih bs' hbs hall.2 f' rest (by omega)
    simp only [List.append_assoc] at hih
    simp only [Option.bind_some, hih, Option.map_some]

/-- one element of a value list: its rendering is optional white space and one empty-element tag, which the
    element decoder (called with the type's own tag name `en`) consumes -/
theorem vl_elem (c : Bool) (il : Nat) (en : Bytes) (e : XTy) (hen : nameOk en = true) (hvl : isVL e = true)
    (hcl : clash e en = false) (hty : rtTy e = true) (v : Val) (body : Bytes) (hv : rtVal c e v = true)
    (hb : encTy c e (il + 1) v = some body) :
    ∃ w x, wrapSeqOfElem c 1 en il body = w ++ emptyTag x ∧ (∀ y ∈ w, y ≠ cLT) ∧ nameOk x = true ∧
      ∀ f rest, decTy (f + 1) e en (emptyTag x ++ rest) = some (v, rest) := by
  cases e with
  | boolean =>
    simp only [clash, Bool.or_eq_false_iff, beq_eq_false_iff_ne] at hcl
    cases v with
    | bool b =>
      simp only [encTy, Option.some.injEq] at hb
      subst hb
      cases b with
      | true =>
        refine ⟨[], litTrue, by simp [wrapSeqOfElem, litTrueTag, litTrue, emptyTag, cLT, cSL, cGT], by simp, nameOk_true, ?_⟩
        intro f rest
        simp only [decTy]
        exact decPrim_tag0 boolBody en hen litTrue rest _ nameOk_true (Ne.symm hcl.1) boolBody_true
      | false =>
        refine ⟨[], litFalse, by simp [wrapSeqOfElem, litFalseTag, litFalse, emptyTag, cLT, cSL, cGT], by simp, nameOk_false, ?_⟩
        intro f rest
        simp only [decTy]
        exact decPrim_tag0 boolBody en hen litFalse rest _ nameOk_false (Ne.symm hcl.2) boolBody_false
    | _ => simp [rtVal] at hv
  | null =>
    cases v with
    | null =>
      simp only [encTy, Option.some.injEq] at hb
      subst hb
      refine ⟨ws c (il + 1), en, by simp [wrapSeqOfElem, ws], ws_noLT c _, hen, ?_⟩
      intro f rest
      simp only [decTy]
      exact decPrim_empty0 nullBody en hen rest _ rfl
    | _ => simp [rtVal] at hv
  | enumerated ns vs =>
    have hok := enumOk_of_B (by simpa [rtTy] using hty)
    cases v with
    | int z =>
      simp only [rtVal, Option.isSome_iff_exists] at hv
      obtain ⟨n, hn⟩ := hv
      simp only [encTy, hn, Option.map_some, Option.some.injEq] at hb
      subst hb
      obtain ⟨hm, _⟩ := lookupName_mem ns vs z n hn
      have hnok := hok.2.2.1 n hm
      have hnn : n ≠ en := by
        intro e; subst e
        simp [clash, hm] at hcl
      refine ⟨[], n, ?_, by simp, hnok, ?_⟩
      · obtain ⟨ch, r, rfl, _, _, _⟩ := nameOk_cons hnok
        simp [wrapSeqOfElem, emptyTag]
      · intro f rest
        simp only [decTy]
        exact decPrim_tag0 _ en hen n rest _ hnok hnn (intBody_enum ns vs z n hok hn)
    | _ => simp [rtVal] at hv
  | _ => simp [isVL] at hvl

theorem decListBody_skip_empty (en : Bytes) (e : XTy) (name : Bytes) (f : Nat) (w n r : Bytes) (hw : ∀ x ∈ w, x ≠ cLT) :
    ∃ g, g ≤ 1 ∧ g ≤ w.length ∧
      decListBody (f + 1) en e name (w ++ (emptyTag n ++ r)) = decListBody (f + 1 - g) en e name (emptyTag n ++ r) := by
  simpa only [emptyTag_eq] using decListBody_skip en e name f w _ hw

theorem decListBody_elem_empty (en : Bytes) (e : XTy) (name : Bytes) (hname : nameOk name = true) (x : Bytes)
    (hx : nameOk x = true) (f : Nat) (r : Bytes) :
    decListBody (f + 1) en e name (emptyTag x ++ r) =
      (decTy f e en (emptyTag x ++ r)).bind fun p =>
        (decListBody f en e name p.2).map fun q => (p.1 :: q.1, q.2) := by
  have hct : checkTag (emptyTag x) name = .both ∨ checkTag (emptyTag x) name = .unkBo := by
    by_cases h : x = name
    · subst h; exact Or.inl (checkTag_empty_self x hx)
    · exact Or.inr (checkTag_empty_ne x name hx hname h)
  rcases hct with h | h <;>
  · simp only [decListBody, nextTok_emptyTag x hx, h]
    rcases decTy f e en (emptyTag x ++ r) with _ | ⟨v, bs'⟩
    · rfl
    · rfl

theorem listLoop1 (c : Bool) (il : Nat) (en : Bytes) (e : XTy) (name : Bytes) (hname : nameOk name = true)
    (hen : nameOk en = true) (hvl : isVL e = true) (hcl : clash e en = false) (hty : rtTy e = true) :
    ∀ (vs : List Val) (bodies : List Bytes), mapEnc (encTy c e (il + 1)) vs = some bodies →
      vs.all (rtVal c e) = true → ∀ (fuel : Nat) (rest : Bytes),
      ((bodies.map (wrapSeqOfElem c 1 en il)).flatten).length + (ws c (il - 1)).length + 2 ≤ fuel →
      decListBody fuel en e name ((bodies.map (wrapSeqOfElem c 1 en il)).flatten ++ ws c (il - 1) ++ closeTag name ++ rest)
        = some (vs, rest) := by
  intro vs
  induction vs with
  | nil =>
    intro bodies hm _ fuel rest hf
    simp only [mapEnc, Option.some.injEq] at hm
    subst hm
    obtain ⟨f, rfl⟩ : ∃ f, fuel = f + 1 := ⟨fuel - 1, by omega⟩
    simp only [List.map_nil, List.flatten_nil, List.nil_append, List.append_assoc]
    obtain ⟨g, hg1, hg2, hg⟩ := decListBody_skip_close en e name f (ws c (il - 1)) name rest (ws_noLT c _)
    rw [hg]
    obtain ⟨f', hf'⟩ : ∃ f', f + 1 - g = f' + 1 := ⟨f - g, by simp at hf; omega⟩
    rw [hf', decListBody_close en e name hname]
  | cons v vs ih =>
    intro bodies hm hall fuel rest hf
    obtain ⟨b, bs', hb, hbs, rfl⟩ := mapEnc_cons _ v vs bodies hm
    simp only [List.all_cons, Bool.and_eq_true] at hall
    obtain ⟨w, x, hwrap, hw, hx, hdec⟩ := vl_elem c il en e hen hvl hcl hty v b hall.1 hb
    obtain ⟨f, rfl⟩ : ∃ f, fuel = f + 1 := ⟨fuel - 1, by omega⟩
    simp only [List.map_cons, List.flatten_cons, hwrap, List.length_append, emptyTag_length] at hf ⊢
    simp only [List.append_assoc]
    obtain ⟨g, hg1, hg2, hg⟩ := decListBody_skip_empty en e name f w x
      ((bs'.map (wrapSeqOfElem c 1 en il)).flatten ++ (ws c (il - 1) ++ (closeTag name ++ rest))) hw
    rw [hg]
    obtain ⟨f', hf'⟩ : ∃ f', f + 1 - g = f' + 1 := ⟨f - g, by omega⟩
    obtain ⟨f'', hf''⟩ : ∃ f'', f' = f'' + 1 := ⟨f' - 1, by omega⟩
    rw [hf', decListBody_elem_empty en e name hname x hx, hf'', hdec]
    have hih := ih bs' hbs hall.2 (f'' + 1) rest (by omega)
    simp only [List.append_assoc] at hih
    simp only [Option.bind_some, hih, Option.map_some]

theorem listLoop2 (c : Bool) (il : Nat) (e : XTy) (names : List Bytes) (alts : List XTy) (ext : Bool)
    (he : e = .choice names alts ext) (name : Bytes) (hname : nameOk name = true) (h0 : RT0 e) :
    ∀ (vs : List Val) (bodies : List Bytes), mapEnc (encTy c e (il + 1)) vs = some bodies →
      vs.all (rtVal c e) = true → ∀ (w0 : Bytes), (∀ y ∈ w0, y ≠ cLT) → ∀ (fuel : Nat) (rest : Bytes),
      w0.length + ((bodies.map (wrapSeqOfElem c 2 [] il)).flatten).length + (ws c (il - 1)).length + 2 ≤ fuel →
      decListBody fuel [] e name
        (w0 ++ ((bodies.map (wrapSeqOfElem c 2 [] il)).flatten ++ (ws c (il - 1) ++ (closeTag name ++ rest))))
        = some (vs, rest) := by
  intro vs
  induction vs with
  | nil =>
    intro bodies hm _ w0 hw0 fuel rest hf
    simp only [mapEnc, Option.some.injEq] at hm
    subst hm
    obtain ⟨f, rfl⟩ : ∃ f, fuel = f + 1 := ⟨fuel - 1, by omega⟩
    simp only [List.map_nil, List.flatten_nil, List.nil_append, List.length_nil] at hf ⊢
    rw [← List.append_assoc]
    obtain ⟨g, hg1, hg2, hg⟩ := decListBody_skip_close [] e name f (w0 ++ ws c (il - 1)) name rest (by
      intro y hy
      rcases List.mem_append.mp hy with h | h
      · exact hw0 y h
      · exact ws_noLT c _ y h)
    rw [hg]
    obtain ⟨f', hf'⟩ : ∃ f', f + 1 - g = f' + 1 := ⟨f - g, by omega⟩
    rw [hf', decListBody_close [] e name hname]
  | cons v vs ih =>
    intro bodies hm hall w0 hw0 fuel rest hf
    obtain ⟨b, bs', hb, hbs, rfl⟩ := mapEnc_cons _ v vs bodies hm
    simp only [List.all_cons, Bool.and_eq_true] at hall
    obtain ⟨f, rfl⟩ : ∃ f, fuel = f + 1 := ⟨fuel - 1, by omega⟩
    let REST := (bs'.map (wrapSeqOfElem c 2 [] il)).flatten ++ (ws c (il - 1) ++ (closeTag name ++ rest))
    obtain ⟨n, r, hn, hbody, _⟩ := h0 names alts ext he c (il + 1) v b REST b.length hall.1 hb (Nat.le_refl _)
    have hbne : b ≠ [] := by rw [hbody]; simp [openTag]
    have hwrap : wrapSeqOfElem c 2 [] il b = b := by simp [wrapSeqOfElem, hbne]
    simp only [List.map_cons, List.flatten_cons, hwrap, List.length_append] at hf ⊢
    have hil : il + 1 - 1 = il := by omega
    rw [hil] at hbody
    have hblen : b.length = (ws c (il + 1)).length + ((n.length + 2) + r.length) + (ws c il).length := by
      rw [hbody]; simp only [List.length_append, openTag_length]
    have e1 : w0 ++ (b ++ (bs'.map (wrapSeqOfElem c 2 [] il)).flatten ++ (ws c (il - 1) ++ (closeTag name ++ rest))) =
        (w0 ++ ws c (il + 1)) ++ (openTag n ++ (r ++ (ws c il ++ REST))) := by
      rw [hbody]; simp [REST]
    rw [e1]
    obtain ⟨g, hg1, hg2, hg⟩ := decListBody_skip_open [] e name f (w0 ++ ws c (il + 1)) n (r ++ (ws c il ++ REST)) (by
      intro y hy
      rcases List.mem_append.mp hy with h | h
      · exact hw0 y h
      · exact ws_noLT c _ y h)
    rw [hg]
    obtain ⟨f', hf'⟩ : ∃ f', f + 1 - g = f' + 1 := ⟨f - g, by simp only [List.length_append] at hg2; omega⟩
    rw [hf', decListBody_elem_any [] e name hname n hn]
    obtain ⟨n', r', hn', hbody', hdec⟩ := h0 names alts ext he c (il + 1) v b REST f' hall.1 hb (by
      simp only [List.length_append] at hg2 hblen; omega)
    rw [hil] at hbody' hdec
    have hsame : openTag n' ++ r' = openTag n ++ r := by
      have := hbody.symm.trans hbody'
      simp only [List.append_assoc] at this
      have h2 := List.append_cancel_left this
      have h3 : (openTag n ++ r) ++ ws c il = (openTag n' ++ r') ++ ws c il := by simpa [List.append_assoc] using h2
      exact (List.append_cancel_right h3).symm
    rw [hsame] at hdec
    simp only [List.append_assoc] at hdec
    rw [hdec]
    have hih := ih bs' hbs hall.2 (ws c il) (ws_noLT c _) f' rest (by
      simp only [List.length_append] at hg2 hblen; omega)
    simp only [Option.bind_some, REST, hih, Option.map_some]

theorem rt_seqOf (mode : Nat) (en : Bytes) (e : XTy) (hm : mode = 0 ∨ (mode = 1 ∧ isVL e = true ∧ clash e en = false))
    (hen : nameOk en = true) (hty : rtTy e = true) (ihe : RT e) : RT (.seqOf mode en e) := by
  intro c name il v body rest fuel hname hv he hf
  cases v with
  | list vs =>
    simp only [rtVal] at hv
    simp only [encTy] at he
    cases hmm : mapEnc (encTy c e (il + 1)) vs with
    | none => simp [hmm] at he
    | some bodies =>
      simp only [hmm, Option.map_some, Option.some.injEq] at he
      subst he
      obtain ⟨f, rfl⟩ : ∃ f, fuel = f + 2 := ⟨fuel - 2, by omega⟩
      have hl : decListBody f en e name ((bodies.map (wrapSeqOfElem c mode en il)).flatten ++ ws c (il - 1) ++ closeTag name ++ rest)
          = some (vs, rest) := by
        rcases hm with rfl | ⟨rfl, hvl, hcl⟩
        · exact listLoop c il en e name hname hen ihe vs bodies hmm hv f rest (by
            simp only [List.length_append] at hf; unfold ws; omega)
        · exact listLoop1 c il en e name hname hen hvl hcl hty vs bodies hmm hv f rest (by
            simp only [List.length_append] at hf; unfold ws; omega)
      simp only [decTy, decListOpen, List.append_assoc, nextTok_openTag name hname, checkTag_open_self name hname]
      unfold ws at hl
      simp only [List.append_assoc] at hl
      rw [hl]; rfl
  | _ => simp [rtVal] at hv

theorem rt_seqOf2 (e : XTy) (names : List Bytes) (alts : List XTy) (ext : Bool) (he : e = .choice names alts ext)
    (h0 : RT0 e) : RT (.seqOf 2 [] e) := by
  intro c name il v body rest fuel hname hv henc hf
  cases v with
  | list vs =>
    simp only [rtVal] at hv
    simp only [encTy] at henc
    cases hmm : mapEnc (encTy c e (il + 1)) vs with
    | none => simp [hmm] at henc
    | some bodies =>
      simp only [hmm, Option.map_some, Option.some.injEq] at henc
      subst henc
      obtain ⟨f, rfl⟩ : ∃ f, fuel = f + 2 := ⟨fuel - 2, by omega⟩
      have hl := listLoop2 c il e names alts ext he name hname h0 vs bodies hmm hv [] (by simp) f rest (by
        simp only [List.length_append] at hf; simp only [List.length_nil]; unfold ws; omega)
      simp only [decTy, decListOpen, List.append_assoc, nextTok_openTag name hname, checkTag_open_self name hname]
      unfold ws at hl
      simp only [List.nil_append] at hl
      rw [hl]; rfl
  | _ => simp [rtVal] at hv

/-! ### member search -/

theorem findMember_open (n : Bytes) (hn : nameOk n = true) :
    ∀ (pre post : List Bytes) (base cnt : Nat) (last : Tcv), (∀ x ∈ pre, nameOk x = true ∧ x ≠ n) →
      pre.length + 1 ≤ cnt → findMember (openTag n) (pre ++ n :: post) base cnt last = .found (base + pre.length) := by
  intro pre
  induction pre with
  | nil =>
    intro post base cnt last _ hc
    obtain ⟨k, rfl⟩ : ∃ k, cnt = k + 1 := ⟨cnt - 1, by simp at hc; omega⟩
    simp [findMember, checkTag_open_self n hn]
  | cons x xs ih =>
    intro post base cnt last hpre hc
    obtain ⟨k, rfl⟩ : ∃ k, cnt = k + 1 := ⟨cnt - 1, by simp at hc; omega⟩
    have hx := hpre x (by simp)
    have hne : checkTag (openTag n) x = .unkOp := checkTag_open_ne n x hn hx.1 (Ne.symm hx.2)
    simp only [List.cons_append, findMember, hne]
    rw [ih post (base + 1) k .unkOp (fun y hy => hpre y (by simp [hy])) (by simp at hc ⊢; omega)]
    simp only [List.length_cons]; congr 1; omega

theorem split_at_index {α : Type} (l : List α) (i : Nat) (x : α) (h : l[i]? = some x) :
    ∃ pre post, l = pre ++ x :: post ∧ pre.length = i := by
  induction l generalizing i with
  | nil => simp at h
  | cons a as ih =>
    cases i with
    | zero => simp at h; subst h; exact ⟨[], as, rfl, rfl⟩
    | succ i =>
      simp only [List.getElem?_cons_succ] at h
      obtain ⟨pre, post, rfl, hl⟩ := ih i h
      exact ⟨a :: pre, post, rfl, by simp [hl]⟩

theorem nodup_split {l pre post : List Bytes} {x : Bytes} (hnd : l.Nodup) (hl : l = pre ++ x :: post) :
    ∀ y ∈ pre, y ≠ x := by
  subst hl
  intro y hy e
  subst e
  have := List.nodup_append.mp hnd
  exact this.2.2 y hy y (by simp) rfl

theorem rtTys_get : ∀ (ms : List XTy) (i : Nat) (m : XTy), rtTys ms = true → ms[i]? = some m → rtTy m = true := by
  intro ms
  induction ms with
  | nil => intro i m _ h; simp at h
  | cons a as ih =>
    intro i m h hm
    simp only [rtTys, Bool.and_eq_true] at h
    cases i with
    | zero => simp at hm; subst hm; exact h.1
    | succ i => simp only [List.getElem?_cons_succ] at hm; exact ih i m h.2 hm

/-! ### CHOICE -/

theorem encAlt_spec (c : Bool) : ∀ (names : List Bytes) (alts : List XTy) (il i : Nat) (v : Val) (out : Bytes),
    encAlt c names alts il i v = some out →
    ∃ n m b, names[i]? = some n ∧ alts[i]? = some m ∧ encTy c m (il + 1) v = some b ∧
      out = ws c il ++ (openTag n ++ b ++ closeTag n) := by
  intro names
  induction names with
  | nil => intro alts il i v out h; simp [encAlt] at h
  | cons a as ih =>
    intro alts il i v out h
    cases alts with
    | nil => simp [encAlt] at h
    | cons m ms =>
      cases i with
      | zero =>
        simp only [encAlt] at h
        cases hb : encTy c m (il + 1) v with
        | none => simp [hb] at h
        | some b =>
          simp only [hb, Option.some.injEq] at h
          exact ⟨a, m, b, by simp, by simp, hb, by rw [← h]; simp [ws]⟩
      | succ i =>
        simp only [encAlt] at h
        obtain ⟨n, m', b, h1, h2, h3, h4⟩ := ih ms il i v out h
        exact ⟨n, m', b, by simpa using h1, by simpa using h2, h3, h4⟩

theorem rtAlt_get (c : Bool) : ∀ (alts : List XTy) (i : Nat) (v : Val) (m : XTy), rtAlt c alts i v = true → alts[i]? = some m →
    rtVal c m v = true := by
  intro alts
  induction alts with
  | nil => intro i v m h; simp [rtAlt] at h
  | cons a as ih =>
    intro i v m h hm
    cases i with
    | zero => simp at hm; subst hm; simpa [rtAlt] using h
    | succ i => simp only [List.getElem?_cons_succ] at hm; simp only [rtAlt] at h; exact ih i v m h hm

section choice
variable (names : List Bytes) (alts : List XTy) (ext : Bool) (name : Bytes)

theorem decChoiceBody_skip_open (f : Nat) (w n r : Bytes) (hw : ∀ x ∈ w, x ≠ cLT) :
    ∃ g, g ≤ 1 ∧ g ≤ w.length ∧
      decChoiceBody (f + 1) names alts ext name (w ++ (openTag n ++ r)) =
        decChoiceBody (f + 1 - g) names alts ext name (openTag n ++ r) := by
  by_cases hn : w = []
  · subst hn; exact ⟨0, by omega, by simp, rfl⟩
  · refine ⟨1, by omega, List.length_pos_iff.mpr hn, ?_⟩
    rw [openTag_eq]
    cases f with
    | zero => simp [decChoiceBody, nextTok_text w hn hw]
    | succ f => simp [decChoiceBody, nextTok_text w hn hw]

theorem decChoiceClose_skip_close (f : Nat) (v : Val) (w n r : Bytes) (hw : ∀ x ∈ w, x ≠ cLT) (hne : name ≠ []) :
    ∃ g, g ≤ 1 ∧ g ≤ w.length ∧
      decChoiceClose (f + 1) name v (w ++ (closeTag n ++ r)) = decChoiceClose (f + 1 - g) name v (closeTag n ++ r) := by
  by_cases hn : w = []
  · subst hn; exact ⟨0, by omega, by simp, rfl⟩
  · refine ⟨1, by omega, List.length_pos_iff.mpr hn, ?_⟩
    rw [closeTag_eq]
    cases f with
    | zero => simp [decChoiceClose, hne, nextTok_text w hn hw]
    | succ f => simp [decChoiceClose, hne, nextTok_text w hn hw]

end choice

theorem rt_choice (names : List Bytes) (alts : List XTy) (ext : Bool)
    (hlen : names.length = alts.length) (hnm : ∀ n ∈ names, nameOk n = true) (hnd : names.Nodup)
    (ih : ∀ m ∈ alts, RT m) : RT (.choice names alts ext) := by
  intro c name il v body rest fuel hname hv he hf
  cases v with
  | choice i x =>
    simp only [rtVal] at hv
    simp only [encTy] at he
    cases ha : encAlt c names alts il i x with
    | none => simp [ha] at he
    | some out =>
      simp only [ha, Option.map_some, Option.some.injEq] at he
      obtain ⟨n, m, b, hn, hm, hb, rfl⟩ := encAlt_spec c names alts il i x out ha
      subst he
      have hmem : m ∈ alts := List.mem_of_getElem? hm
      have hnmem : n ∈ names := List.mem_of_getElem? hn
      have hnok := hnm n hnmem
      have hne : name ≠ [] := nameOk_ne_nil hname
      obtain ⟨pre, post, hsplit, hpl⟩ := split_at_index names i n hn
      have hpre : ∀ y ∈ pre, nameOk y = true ∧ y ≠ n := fun y hy =>
        ⟨hnm y (by rw [hsplit]; simp [hy]), nodup_split hnd hsplit y hy⟩
      have hilt : i < alts.length := by
        have := (List.getElem?_eq_some_iff.mp hm).1; exact this
      simp only [List.length_append, openTag_length, closeTag_length] at hf
      obtain ⟨f, rfl⟩ : ∃ f, fuel = f + 3 := ⟨fuel - 3, by omega⟩
      simp only [decTy, if_neg hne, decChoiceOpen, List.append_assoc, nextTok_openTag name hname,
        checkTag_open_self name hname]
      obtain ⟨g, hg1, hg2, hg⟩ := decChoiceBody_skip_open names alts ext name f (ws c il) n
        (b ++ (closeTag n ++ ((if c = true then [] else indent (il - 1)) ++ (closeTag name ++ rest)))) (ws_noLT c _)
      rw [hg]
      obtain ⟨f', hf'⟩ : ∃ f', f + 1 - g = f' + 1 := ⟨f - g, by omega⟩
      rw [hf']
      have hct : checkTag (openTag n) name = .opening ∨ checkTag (openTag n) name = .unkOp := by
        by_cases h : n = name
        · subst h; exact Or.inl (checkTag_open_self n hnok)
        · exact Or.inr (checkTag_open_ne n name hnok hname h)
      have hfind : ∀ last, findMember (openTag n) names 0 alts.length last = .found i := by
        intro last
        have := findMember_open n hnok pre post 0 alts.length last hpre (by rw [hpl]; omega)
        rw [hsplit, this, hpl]; simp
      have hrt := ih m hmem c n (il + 1) x b
        ((if c = true then [] else indent (il - 1)) ++ (closeTag name ++ rest)) f' hnok
        (rtAlt_get c alts i x m hv hm) hb (by omega)
      simp only [List.append_assoc] at hrt
      have hclose : decChoiceClose f' name (.choice i x)
          ((if c = true then [] else indent (il - 1)) ++ (closeTag name ++ rest)) = some (.choice i x, rest) := by
        obtain ⟨f2, rfl⟩ : ∃ f2, f' = f2 + 2 := ⟨f' - 2, by omega⟩
        obtain ⟨g2, h21, h22, h2⟩ := decChoiceClose_skip_close name (f2 + 1) (.choice i x) (ws c (il - 1)) name rest
          (ws_noLT c _) hne
        unfold ws at h2
        rw [h2]
        obtain ⟨f3, hf3⟩ : ∃ f3, f2 + 1 + 1 - g2 = f3 + 1 := ⟨f2 + 1 - g2, by omega⟩
        rw [hf3]
        simp [decChoiceClose, hne, nextTok_closeTag name hname, checkTag_close_self name hname]
      rcases hct with h | h <;>
      · simp only [decChoiceBody, nextTok_openTag n hnok, h, hfind, hm, hn, hrt, hclose]
  | _ => simp [rtVal] at hv

theorem rt_choice0 (names : List Bytes) (alts : List XTy) (ext : Bool)
    (hnm : ∀ n ∈ names, nameOk n = true) (hnd : names.Nodup)
    (ih : ∀ m ∈ alts, RT m) : RT0 (.choice names alts ext) := by
  intro names' alts' ext' heq c il v body rest fuel hv he hf
  cases heq
  cases v with
  | choice i x =>
    simp only [rtVal] at hv
    simp only [encTy] at he
    cases ha : encAlt c names alts il i x with
    | none => simp [ha] at he
    | some out =>
      simp only [ha, Option.map_some, Option.some.injEq] at he
      obtain ⟨n, m, b, hn, hm, hb, rfl⟩ := encAlt_spec c names alts il i x out ha
      subst he
      have hmem : m ∈ alts := List.mem_of_getElem? hm
      have hnmem : n ∈ names := List.mem_of_getElem? hn
      have hnok := hnm n hnmem
      obtain ⟨pre, post, hsplit, hpl⟩ := split_at_index names i n hn
      have hpre : ∀ y ∈ pre, nameOk y = true ∧ y ≠ n := fun y hy =>
        ⟨hnm y (by rw [hsplit]; simp [hy]), nodup_split hnd hsplit y hy⟩
      have hilt : i < alts.length := (List.getElem?_eq_some_iff.mp hm).1
      simp only [List.length_append, openTag_length, closeTag_length] at hf
      have hnl : 0 < n.length := List.length_pos_iff.mpr (nameOk_ne_nil hnok)
      obtain ⟨g, hg, rfl⟩ : ∃ g, b.length + 4 ≤ g ∧ fuel = g + 2 := ⟨fuel - 2, by omega, by omega⟩
      refine ⟨n, b ++ closeTag n, hnok, by simp [ws], ?_⟩
      have hfind : ∀ last, findMember (openTag n) names 0 alts.length last = .found i := by
        intro last
        have := findMember_open n hnok pre post 0 alts.length last hpre (by rw [hpl]; omega)
        rw [hsplit, this, hpl]; simp
      have hrt := ih m hmem c n (il + 1) x b (ws c (il - 1) ++ rest) g hnok
        (rtAlt_get c alts i x m hv hm) hb hg
      simp only [List.append_assoc] at hrt ⊢
      have hct : checkTag (openTag n) [] = .unkOp := by rw [checkTag_open n [] hnok]; rfl
      have hcl : decChoiceClose g [] (.choice i x) (ws c (il - 1) ++ rest) = some (.choice i x, ws c (il - 1) ++ rest) := by
        obtain ⟨g', rfl⟩ : ∃ g', g = g' + 1 := ⟨g - 1, by omega⟩
        simp [decChoiceClose]
      rw [show decTy (g + 2) (.choice names alts ext) [] (openTag n ++ (b ++ (closeTag n ++ (ws c (il - 1) ++ rest)))) =
          decChoiceBody (g + 1) names alts ext [] (openTag n ++ (b ++ (closeTag n ++ (ws c (il - 1) ++ rest)))) by
        simp only [decTy, if_true]]
      simp only [decChoiceBody, nextTok_openTag n hnok, hct, hfind, hm, hn, hrt, hcl]
  | _ => simp [rtVal] at hv

/-! ### SEQUENCE -/

theorem optCount_ge : ∀ (pre rest : List Attr), (∀ a ∈ pre, omitable a = true) → pre.length ≤ optCount (pre ++ rest) := by
  intro pre
  induction pre with
  | nil => intro rest _; simp
  | cons a as ih =>
    intro rest h
    have ha := h a (by simp)
    have := ih rest (fun x hx => h x (by simp [hx]))
    simp only [List.cons_append, optCount, ha, if_true, List.length_cons]; omega

theorem optCount_all : ∀ (l : List Attr), (∀ a ∈ l, omitable a = true) → optCount l = l.length := by
  intro l
  induction l with
  | nil => intro _; rfl
  | cons a as ih =>
    intro h
    simp only [optCount, h a (by simp), if_true, List.length_cons, ih (fun x hx => h x (by simp [hx]))]

theorem rtVal_absent (c : Bool) (m : XTy) : rtVal c m .absent = false := by
  cases m <;> simp [rtVal]

theorem encMembers_absent (c : Bool) (n : Bytes) (ns : List Bytes) (m : XTy) (ms : List XTy) (a : Attr) (as : List Attr)
    (il : Nat) (vs : List Val) (hd : (c || (dfltVal a).isNone) = true) (ho : omitable a = true) :
    encMembers c (n :: ns) (m :: ms) (a :: as) il (.absent :: vs) = encMembers c ns ms as il vs := by
  have hd' : (if c = true then none else dfltVal a) = none := by
    cases c
    · simpa using hd
    · rfl
  simp only [encMembers, hd', ho, if_true]
  cases encMembers c ns ms as il vs <;> rfl

theorem encMembers_present (c : Bool) (n : Bytes) (ns : List Bytes) (m : XTy) (ms : List XTy) (a : Attr) (as : List Attr)
    (il : Nat) (v : Val) (vs : List Val) (hv : rtVal c m v = true) (hnd : (c && isDefault a v) = false) (R : Bytes)
    (h : encMembers c (n :: ns) (m :: ms) (a :: as) il (v :: vs) = some R) :
    ∃ b R', encTy c m (il + 1) v = some b ∧ encMembers c ns ms as il vs = some R' ∧
      R = ws c il ++ (openTag n ++ b ++ closeTag n) ++ R' := by
  have key : ∀ x : Val, (encMembers c ns ms as il vs).bind (fun rest =>
        (encTy c m (il + 1) x).map fun b => (if c = true then [] else indent il) ++ openTag n ++ b ++ closeTag n ++ rest)
        = some R → ∃ b R', encTy c m (il + 1) x = some b ∧ encMembers c ns ms as il vs = some R' ∧
            R = ws c il ++ (openTag n ++ b ++ closeTag n) ++ R' := by
    intro x hx
    cases hR : encMembers c ns ms as il vs with
    | none => simp [hR] at hx
    | some R' =>
      simp only [hR, Option.bind_some] at hx
      cases hb : encTy c m (il + 1) x with
      | none => simp [hb] at hx
      | some b =>
        simp only [hb, Option.map_some, Option.some.injEq] at hx
        exact ⟨b, R', rfl, rfl, by rw [← hx]; simp [ws]⟩
  cases v with
  | absent => rw [rtVal_absent] at hv; cases hv
  | _ =>
    apply key
    rw [← h]
    simp only [encMembers, hnd, Bool.false_eq_true, if_false]
    cases encMembers c ns ms as il vs with
    | none => rfl
    | some R' =>
      simp only [Option.bind_some]
      cases encTy c m (il + 1) _ <;> rfl

section seq
variable (names : List Bytes) (ms : List XTy) (attrs : List Attr) (fe : Option Nat) (name : Bytes)

theorem decSeqBody_skip_open (f edx : Nat) (w n r : Bytes) (hw : ∀ x ∈ w, x ≠ cLT) :
    ∃ g, g ≤ 1 ∧ g ≤ w.length ∧
      decSeqBody (f + 1) names ms attrs fe name edx (w ++ (openTag n ++ r)) =
        decSeqBody (f + 1 - g) names ms attrs fe name edx (openTag n ++ r) := by
  by_cases hn : w = []
  · subst hn; exact ⟨0, by omega, by simp, rfl⟩
  · refine ⟨1, by omega, List.length_pos_iff.mpr hn, ?_⟩
    rw [openTag_eq]
    cases f with
    | zero => simp [decSeqBody, nextTok_text w hn hw]
    | succ f => simp [decSeqBody, nextTok_text w hn hw]

theorem decSeqBody_skip_close (f edx : Nat) (w n r : Bytes) (hw : ∀ x ∈ w, x ≠ cLT) :
    ∃ g, g ≤ 1 ∧ g ≤ w.length ∧
      decSeqBody (f + 1) names ms attrs fe name edx (w ++ (closeTag n ++ r)) =
        decSeqBody (f + 1 - g) names ms attrs fe name edx (closeTag n ++ r) := by
  by_cases hn : w = []
  · subst hn; exact ⟨0, by omega, by simp, rfl⟩
  · refine ⟨1, by omega, List.length_pos_iff.mpr hn, ?_⟩
    rw [closeTag_eq]
    cases f with
    | zero => simp [decSeqBody, nextTok_text w hn hw]
    | succ f => simp [decSeqBody, nextTok_text w hn hw]

theorem decSeqBody_close (hname : nameOk name = true) (f edx : Nat) (r : Bytes) (hend : seqEndOk attrs fe edx = true) :
    decSeqBody (f + 1) names ms attrs fe name edx (closeTag name ++ r) = some (absents (ms.length - edx), r) := by
  simp [decSeqBody, nextTok_closeTag name hname, checkTag_close_self name hname, hend]

theorem decSeqBody_member (hname : nameOk name = true) (f edx k : Nat) (n r : Bytes) (m : XTy) (hn : nameOk n = true)
    (hlt : edx < ms.length)
    (hfind : ∀ last, findMember (openTag n) (names.drop edx) edx (optCount (attrs.drop edx) + 1) last = .found k)
    (hm : ms[k]? = some m) (hnk : names[k]? = some n) :
    decSeqBody (f + 1) names ms attrs fe name edx (openTag n ++ r) =
      (decTy f m n (openTag n ++ r)).bind fun p =>
        (decSeqBody f names ms attrs fe name (k + 1) p.2).map fun q => (absents (k - edx) ++ p.1 :: q.1, q.2) := by
  have hct : checkTag (openTag n) name = .opening ∨ checkTag (openTag n) name = .unkOp := by
    by_cases h : n = name
    · subst h; exact Or.inl (checkTag_open_self n hn)
    · exact Or.inr (checkTag_open_ne n name hn hname h)
  rcases hct with h | h <;>
  · simp only [decSeqBody, nextTok_openTag n hn, h, hlt, if_true, hfind, hm, hnk]
    rcases decTy f m n (openTag n ++ r) with _ | ⟨v, bs'⟩
    · rfl
    · rfl

end seq

theorem replicate_succ_append {α : Type} (j : Nat) (x : α) : List.replicate (j + 1) x = List.replicate j x ++ [x] :=
  List.replicate_succ'

theorem seqLoop (c : Bool) (il : Nat) (names : List Bytes) (ms : List XTy) (attrs : List Attr) (fe : Option Nat)
    (name : Bytes) (hname : nameOk name = true) (hnm : ∀ n ∈ names, nameOk n = true) (hnd : names.Nodup)
    (ih : ∀ m ∈ ms, RT m) :
    ∀ (ns : List Bytes) (ms' : List XTy) (as : List Attr) (vs : List Val)
      (np : List Bytes) (mp : List XTy) (ap : List Attr) (j : Nat),
      names = np ++ ns → ms = mp ++ ms' → attrs = ap ++ as → np.length = mp.length → ap.length = mp.length →
      ns.length = ms'.length →
      j ≤ ap.length → (∀ a ∈ ap.drop (ap.length - j), omitable a = true) →
      rtVals c ms' as vs = true → ∀ R, encMembers c ns ms' as il vs = some R → ∀ (fuel : Nat) (rest : Bytes),
      R.length + (ws c (il - 1)).length + 2 ≤ fuel →
      decSeqBody fuel names ms attrs fe name (mp.length - j) (R ++ (ws c (il - 1) ++ (closeTag name ++ rest)))
        = some (absents j ++ vs, rest) := by
  intro ns
  induction ns with
  | nil =>
    intro ms' as vs np mp ap j hN hM hA hl1 hl2 hl3 hj hom hv R hR fuel rest hf
    have hms' : ms' = [] := List.length_eq_zero_iff.mp (by simpa using hl3.symm)
    subst hms'
    cases as with
    | cons a as => cases vs <;> simp [rtVals] at hv
    | nil =>
      cases vs with
      | cons v vs => simp [rtVals] at hv
      | nil =>
        simp only [encMembers, Option.some.injEq] at hR
        subst hR
        simp only [List.append_nil] at hM hA
        subst hM; subst hA
        obtain ⟨f, rfl⟩ : ∃ f, fuel = f + 1 := ⟨fuel - 1, by omega⟩
        simp only [List.nil_append]
        obtain ⟨g, hg1, hg2, hg⟩ := decSeqBody_skip_close names ms attrs fe name f (ms.length - j) (ws c (il - 1)) name rest
          (ws_noLT c _)
        rw [hg]
        obtain ⟨f', hf'⟩ : ∃ f', f + 1 - g = f' + 1 := ⟨f - g, by simp at hf; omega⟩
        have hend : seqEndOk attrs fe (ms.length - j) = true := by
          have h1 := optCount_all (attrs.drop (attrs.length - j)) hom
          simp only [seqEndOk, Bool.or_eq_true, decide_eq_true_eq]
          left; right
          rw [← hl2, h1, List.length_drop]; omega
        rw [hf', decSeqBody_close names ms attrs fe name hname f' _ rest hend]
        congr 2
        simp only [List.append_nil]; congr 1; omega
  | cons n ns' ihn =>
    intro ms' as vs np mp ap j hN hM hA hl1 hl2 hl3 hj hom hv R hR fuel rest hf
    cases ms' with
    | nil => simp at hl3
    | cons m ms'' =>
    cases as with
    | nil => cases vs <;> simp [rtVals] at hv
    | cons a as' =>
    cases vs with
    | nil => simp [rtVals] at hv
    | cons v vs' =>
      simp only [rtVals, Bool.and_eq_true] at hv
      have hl3' : ns'.length = ms''.length := by simpa using hl3
      -- the prefixes extended by this member
      have hN' : names = (np ++ [n]) ++ ns' := by rw [hN]; simp
      have hM' : ms = (mp ++ [m]) ++ ms'' := by rw [hM]; simp
      have hA' : attrs = (ap ++ [a]) ++ as' := by rw [hA]; simp
      have hl1' : (np ++ [n]).length = (mp ++ [m]).length := by simp [hl1]
      have hl2' : (ap ++ [a]).length = (mp ++ [m]).length := by simp [hl2]
      by_cases hab : ∃ (d : Unit), v = .absent
      · obtain ⟨_, rfl⟩ := hab
        simp only [Bool.and_eq_true] at hv
        rw [encMembers_absent c n ns' m ms'' a as' il vs' hv.1.1 hv.1.2] at hR
        have hom' : ∀ x ∈ (ap ++ [a]).drop ((ap ++ [a]).length - (j + 1)), omitable x = true := by
          intro x hx
          have e : (ap ++ [a]).length - (j + 1) = ap.length - j := by simp
          rw [e, List.drop_append_of_le_length (by omega)] at hx
          simp only [List.mem_append, List.mem_singleton] at hx
          rcases hx with hx | rfl
          · exact hom x hx
          · exact hv.1.2
        have := ihn ms'' as' vs' (np ++ [n]) (mp ++ [m]) (ap ++ [a]) (j + 1) hN' hM' hA' hl1' hl2' hl3'
          (by simp; omega) hom' hv.2 R hR fuel rest hf
        have e : (mp ++ [m]).length - (j + 1) = mp.length - j := by simp
        rw [e] at this
        rw [this]
        congr 2
        simp only [absents, replicate_succ_append, List.append_assoc, List.singleton_append]
      · have hvm : rtVal c m v = true ∧ (c && isDefault a v) = false := by
          cases v with
          | absent => exact absurd ⟨(), rfl⟩ hab
          | _ =>
            have h1 := hv.1
            simp only [Bool.and_eq_true, Bool.not_eq_true'] at h1
            exact h1
        obtain ⟨hvm, hdf⟩ := hvm
        obtain ⟨b, R', hb, hR', rfl⟩ := encMembers_present c n ns' m ms'' a as' il v vs' hvm hdf R hR
        have hnmem : n ∈ names := by rw [hN]; simp
        have hnok := hnm n hnmem
        have hmmem : m ∈ ms := by rw [hM]; simp
        simp only [List.length_append, openTag_length, closeTag_length] at hf
        obtain ⟨f, rfl⟩ : ∃ f, fuel = f + 1 := ⟨fuel - 1, by omega⟩
        simp only [List.append_assoc]
        obtain ⟨g, hg1, hg2, hg⟩ := decSeqBody_skip_open names ms attrs fe name f (mp.length - j) (ws c il) n
          (b ++ (closeTag n ++ (R' ++ (ws c (il - 1) ++ (closeTag name ++ rest))))) (ws_noLT c _)
        rw [hg]
        obtain ⟨f', hf'⟩ : ∃ f', f + 1 - g = f' + 1 := ⟨f - g, by omega⟩
        rw [hf']
        -- the member search finds this member
        have hk1 : names[mp.length]? = some n := by
          rw [hN, ← hl1, List.getElem?_append_right (Nat.le_refl _)]; simp
        have hk2 : ms[mp.length]? = some m := by
          rw [hM, List.getElem?_append_right (Nat.le_refl _)]; simp
        have hlt : mp.length - j < ms.length := by rw [hM]; simp; omega
        have hfind : ∀ last, findMember (openTag n) (names.drop (mp.length - j)) (mp.length - j)
            (optCount (attrs.drop (mp.length - j)) + 1) last = .found mp.length := by
          intro last
          have e1 : names.drop (mp.length - j) = np.drop (np.length - j) ++ n :: ns' := by
            rw [hN, hl1, List.drop_append_of_le_length (by omega)]
          have e2 : attrs.drop (mp.length - j) = ap.drop (ap.length - j) ++ a :: as' := by
            rw [hA, hl2, List.drop_append_of_le_length (by omega)]
          have hpre : ∀ x ∈ np.drop (np.length - j), nameOk x = true ∧ x ≠ n := by
            intro x hx
            have hxm : x ∈ np := List.mem_of_mem_drop hx
            exact ⟨hnm x (by rw [hN]; simp [hxm]), nodup_split hnd hN x hxm⟩
          have hoc := optCount_ge (ap.drop (ap.length - j)) (a :: as') hom
          have hlen : (np.drop (np.length - j)).length = j := by rw [List.length_drop]; omega
          have hlen2 : (ap.drop (ap.length - j)).length = j := by rw [List.length_drop]; omega
          rw [e1, e2, findMember_open n hnok _ _ _ _ last hpre (by omega), hlen]
          congr 1; omega
        rw [decSeqBody_member names ms attrs fe name hname f' (mp.length - j) mp.length n _ m hnok hlt hfind hk2 hk1]
        have hrt := ih m hmmem c n (il + 1) v b (R' ++ (ws c (il - 1) ++ (closeTag name ++ rest))) f' hnok
          hvm hb (by omega)
        simp only [List.append_assoc] at hrt
        rw [hrt]
        have := ihn ms'' as' vs' (np ++ [n]) (mp ++ [m]) (ap ++ [a]) 0 hN' hM' hA' hl1' hl2' hl3'
          (by simp) (by intro x hx; simp at hx) hv.2 R' hR' f' rest (by omega)
        simp only [List.length_append, List.length_singleton, Nat.sub_zero, absents, List.replicate_zero,
          List.nil_append] at this
        simp only [Option.bind_some, this, Option.map_some]
        congr 2
        simp only [absents]; congr 2; omega

theorem rt_seq (names : List Bytes) (ms : List XTy) (attrs : List Attr) (fe : Option Nat)
    (hl1 : names.length = ms.length) (_hl2 : attrs.length = ms.length) (hnm : ∀ n ∈ names, nameOk n = true)
    (hnd : names.Nodup) (ih : ∀ m ∈ ms, RT m) : RT (.seq names ms attrs fe) := by
  intro c name il v body rest fuel hname hv he hf
  cases v with
  | seq vs =>
    simp only [rtVal] at hv
    simp only [encTy] at he
    cases hR : encMembers c names ms attrs il vs with
    | none => simp [hR] at he
    | some R =>
      simp only [hR, Option.map_some, Option.some.injEq] at he
      subst he
      obtain ⟨f, rfl⟩ : ∃ f, fuel = f + 2 := ⟨fuel - 2, by omega⟩
      have hl := seqLoop c il names ms attrs fe name hname hnm hnd ih names ms attrs vs [] [] [] 0
        rfl rfl rfl rfl rfl hl1 (by simp) (by intro a ha; simp at ha) hv R hR f rest (by
          simp only [List.length_append] at hf; unfold ws; omega)
      simp only [decTy, decSeqOpen, List.append_assoc, nextTok_openTag name hname, checkTag_open_self name hname]
      unfold ws at hl
      simp only [List.length_nil, Nat.sub_zero, absents, List.replicate_zero, List.nil_append] at hl
      rw [hl]; rfl
  | _ => simp [rtVal] at hv

theorem rtTys_iff (ms : List XTy) : rtTys ms = true ↔ ∀ m ∈ ms, rtTy m = true := by
  induction ms with
  | nil => simp [rtTys]
  | cons m ms ih => simp [rtTys, ih]

theorem RT0_of_not_choice (t : XTy) (h : isChoice t = false) : RT0 t := by
  intro names alts ext heq
  subst heq
  simp [isChoice] at h

/-- every decoder of the supported subset inverts its encoder (`RT0`: also as an unwrapped list element) -/
theorem rt_all' : ∀ t, rtTy t = true → RT t ∧ RT0 t := by
  apply XTy.induct' (fun t => rtTy t = true → RT t ∧ RT0 t)
  · intro _; exact ⟨rt_boolean, RT0_of_not_choice _ rfl⟩
  · intro _; exact ⟨rt_null, RT0_of_not_choice _ rfl⟩
  · intro r _; exact ⟨rt_integer r, RT0_of_not_choice _ rfl⟩
  · intro ns vs h; exact ⟨rt_enumerated ns vs (by simpa [rtTy] using h), RT0_of_not_choice _ rfl⟩
  · intro _; exact ⟨rt_hexstr, RT0_of_not_choice _ rfl⟩
  · intro _; exact ⟨rt_bitstr, RT0_of_not_choice _ rfl⟩
  · intro _; exact ⟨rt_utf8str, RT0_of_not_choice _ rfl⟩
  · intro u _; exact ⟨rt_timestr u, RT0_of_not_choice _ rfl⟩
  · intro _; exact ⟨rt_bmpstr, RT0_of_not_choice _ rfl⟩
  · intro _; exact ⟨rt_unistr, RT0_of_not_choice _ rfl⟩
  · intro h; simp [rtTy] at h
  · intro h; simp [rtTy] at h
  · intro names ms attrs fe ih h
    simp only [rtTy, Bool.and_eq_true, beq_iff_eq, decide_eq_true_eq, List.all_eq_true] at h
    obtain ⟨⟨⟨⟨h1, h2⟩, h3⟩, h4⟩, h6⟩ := h
    exact ⟨rt_seq names ms attrs fe h1 h2 h3 h4 (fun m hm => (ih m hm ((rtTys_iff ms).mp h6 m hm)).1),
      RT0_of_not_choice _ rfl⟩
  · intro names ms attrs order ext _ h; simp [rtTy] at h
  · intro names alts ext ih h
    simp only [rtTy, Bool.and_eq_true, beq_iff_eq, decide_eq_true_eq, List.all_eq_true] at h
    obtain ⟨⟨⟨h1, h3⟩, h4⟩, h6⟩ := h
    have iha : ∀ m ∈ alts, RT m := fun m hm => (ih m hm ((rtTys_iff alts).mp h6 m hm)).1
    exact ⟨rt_choice names alts ext h1 h3 h4 iha, rt_choice0 names alts ext h3 h4 iha⟩
  · intro mode en e ih h
    simp only [rtTy, Bool.and_eq_true, Bool.or_eq_true, beq_iff_eq, Bool.not_eq_true'] at h
    obtain ⟨h1, h4⟩ := h
    refine ⟨?_, RT0_of_not_choice _ rfl⟩
    rcases h1 with ⟨h1, h2⟩ | ⟨⟨rfl, rfl⟩, hc⟩
    · exact rt_seqOf mode en e (by
        rcases h1 with h1 | ⟨⟨h1, h1v⟩, h1c⟩
        · exact Or.inl h1
        · exact Or.inr ⟨h1, h1v, h1c⟩) h2 h4 (ih h4).1
    · cases e with
      | choice names alts ext => exact rt_seqOf2 _ names alts ext rfl (ih h4).2
      | _ => simp [isChoice] at hc
  · intro mode en e _ h; simp [rtTy] at h

theorem rt_all (t : XTy) (h : rtTy t = true) : RT t := (rt_all' t h).1

/-! ## SET OF in CANONICAL-XER: order independence -/

theorem mapEnc_perm {α : Type} (f : α → Option Bytes) {vs₁ vs₂ : List α} (hp : vs₁.Perm vs₂) :
    ∀ bs₁, mapEnc f vs₁ = some bs₁ → ∃ bs₂, mapEnc f vs₂ = some bs₂ ∧ bs₁.Perm bs₂ := by
  induction hp with
  | nil => intro bs₁ h; exact ⟨bs₁, h, List.Perm.refl _⟩
  | cons v _ ih =>
    intro bs₁ h
    obtain ⟨b, bs', hb, hbs, rfl⟩ := mapEnc_cons f v _ bs₁ h
    obtain ⟨bs₂, h2, hperm⟩ := ih bs' hbs
    exact ⟨b :: bs₂, by simp [mapEnc, hb, h2], List.Perm.cons b hperm⟩
  | swap a b l =>
    intro bs₁ h
    obtain ⟨x, bs', hx, hbs, rfl⟩ := mapEnc_cons f b _ bs₁ h
    obtain ⟨y, bs'', hy, hbs', rfl⟩ := mapEnc_cons f a _ bs' hbs
    exact ⟨y :: x :: bs'', by simp [mapEnc, hx, hy, hbs'], List.Perm.swap y x bs''⟩
  | trans _ _ ih1 ih2 =>
    intro bs₁ h
    obtain ⟨bs₂, h2, hp2⟩ := ih1 bs₁ h
    obtain ⟨bs₃, h3, hp3⟩ := ih2 bs₂ h2
    exact ⟨bs₃, h3, hp2.trans hp3⟩

theorem mapEnc_perm_eq_none {α : Type} (f : α → Option Bytes) {vs₁ vs₂ : List α} (hp : vs₁.Perm vs₂)
    (h : mapEnc f vs₁ = none) : mapEnc f vs₂ = none := by
  cases h2 : mapEnc f vs₂ with
  | none => rfl
  | some bs₂ =>
    obtain ⟨bs₁, h1, _⟩ := mapEnc_perm f hp.symm bs₂ h2
    rw [h] at h1; cases h1

theorem encTy_setOf_perm (mode : Nat) (en : Bytes) (e : XTy) (il : Nat) (vs₁ vs₂ : List Val) (hp : vs₁.Perm vs₂) :
    encTy true (.setOf mode en e) il (.list vs₁) = encTy true (.setOf mode en e) il (.list vs₂) := by
  simp only [encTy]
  cases h1 : mapEnc (encTy true e (if mode = 2 then il else il + 1)) vs₁ with
  | none => rw [mapEnc_perm_eq_none _ hp h1]
  | some bs₁ =>
    obtain ⟨bs₂, h2, hperm⟩ := mapEnc_perm _ hp bs₁ h1
    rw [h2]
    simp only [Option.map_some, if_true]
    have := Asn1c.Proofs.L2Der.sortBy_perm_eq bytesLe Asn1c.Proofs.L2Der.bytesLe_total Asn1c.Proofs.L2Der.bytesLe_trans
      Asn1c.Proofs.L2Der.bytesLe_antisymm _ _ (hperm.map (wrapSetOfElem true mode en il))
    rw [this]

end Asn1c.Proofs.L2Xer
