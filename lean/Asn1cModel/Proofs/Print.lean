import Asn1cModel.Impl.Print
/-  parse ∘ print = id on the printed subset: lemmas, bottom-up.  Core Lean only. -/
namespace Asn1c.Proofs.Print
open Asn1c.Print Tok

/-- head of a token list is not one of the given keywords -/
def headNot (ks : List Kw) (r : List Tok) : Prop := ∀ k ∈ ks, r.head? ≠ some (kw k)

theorem headNot_cons_kw {ks : List Kw} {k : Kw} {r : List Tok} (h : k ∉ ks) : headNot ks (kw k :: r) := by
  intro k' hk'; simp; intro e; exact h (e ▸ hk')

theorem headNot_sub {ks ks' : List Kw} {r : List Tok} (h : headNot ks r) (hs : ∀ k ∈ ks', k ∈ ks) :
    headNot ks' r := fun k hk => h k (hs k hk)

theorem parseVal_pVal (v : Val) : parseVal (pVal v) = some v := by cases v <;> rfl

theorem pVal_ne_kw (v : Val) (k : Kw) (hk : k ∉ [Kw.min, .max, .true_, .false_]) : pVal v ≠ kw k := by
  cases v <;> simp [pVal] <;> (intro h; subst h; simp at hk)

theorem parseElem_print (e : Elem) (rest : List Tok) (h : headNot [.dotdot] rest) :
    parseElem (pElem e ++ rest) = some (e, rest) := by
  cases e with
  | single v =>
    simp only [pElem, List.cons_append, List.nil_append, parseElem, parseVal_pVal]
    have h' := h .dotdot (by simp)
    cases rest with
    | nil => rfl
    | cons t r =>
      cases r with
      | nil => cases t <;> first | rfl | (rename_i k; cases k <;> first | rfl | simp at h')
      | cons t2 r2 =>
        cases t <;> first | rfl | (rename_i k; cases k <;> first | rfl | simp at h')
  | range lo hi =>
    simp [pElem, parseElem, parseVal_pVal]

theorem parseMore_print (es : List Elem) (rest : List Tok) (fuel : Nat) (hf : es.length < fuel)
    (h : headNot [.dotdot, .bar] rest) :
    parseMore fuel (pMore es ++ rest) = some (es, rest) := by
  induction es generalizing fuel with
  | nil =>
    cases fuel with
    | zero => simp at hf
    | succ f =>
      simp only [pMore, List.nil_append, parseMore]
      have h' := h .bar (by simp)
      cases rest with
      | nil => rfl
      | cons t r => cases t <;> first | rfl | (rename_i k; cases k <;> first | rfl | simp at h')
  | cons e es ih =>
    cases fuel with
    | zero => simp at hf
    | succ f =>
      have hf' : es.length < f := by simp at hf; omega
      simp only [pMore, List.cons_append, List.append_assoc, parseMore]
      have hd : headNot [.dotdot] (pMore es ++ rest) := by
        cases es with
        | nil => simpa [pMore] using headNot_sub h (by simp)
        | cons e' es' => simp only [pMore, List.cons_append]; exact headNot_cons_kw (by simp)
      rw [parseElem_print e _ hd]
      simp only [ih f hf']

theorem pMore_length (es : List Elem) : es.length ≤ (pMore es).length := by
  induction es with
  | nil => simp [pMore]
  | cons e es ih => simp [pMore]; omega

/-- an element set is always followed by ")" -/
theorem parseESet_print (s : ESet) (rest : List Tok) :
    parseESet (pESet s ++ kw .rparen :: rest) = some (s, kw .rparen :: rest) := by
  obtain ⟨first, more, ext⟩ := s
  unfold parseESet pESet
  simp only [List.append_assoc]
  have hd : headNot [.dotdot] (pMore more ++ ((if ext = true then [kw .comma, kw .dots] else []) ++ kw .rparen :: rest)) := by
    cases more with
    | nil => cases ext <;> simp [pMore] <;> exact headNot_cons_kw (by simp)
    | cons e es => simp only [pMore, List.cons_append]; exact headNot_cons_kw (by simp)
  rw [parseElem_print first _ hd]
  have hm : headNot [.dotdot, .bar] ((if ext = true then [kw .comma, kw .dots] else []) ++ kw .rparen :: rest) := by
    cases ext <;> simp <;> exact headNot_cons_kw (by simp)
  simp only []
  rw [parseMore_print more _ _ (by have := pMore_length more; simp; omega) hm]
  cases ext <;> simp [parseExtMark]

theorem parseOptCons_print (c : Option Cons) (rest : List Tok) (h : headNot [.lparen] rest) :
    parseOptCons (pOptCons c ++ rest) = some (c, rest) := by
  cases c with
  | none =>
    simp only [pOptCons, List.nil_append]
    have h' := h .lparen (by simp)
    cases rest with
    | nil => rfl
    | cons t r => cases t <;> first | rfl | (rename_i k; cases k <;> first | rfl | simp at h')
  | some c =>
    cases c with
    | value s =>
      obtain ⟨first, more, ext⟩ := s
      simp only [pOptCons, pCons, List.cons_append, List.nil_append, List.append_assoc, parseOptCons]
      have key := parseESet_print ⟨first, more, ext⟩ rest
      -- the first token of an element set is a value, never SIZE / FROM
      have hv : ∀ (e : Elem) (tl : List Tok), ∃ t tl', pElem e ++ tl = t :: tl' ∧ t ≠ kw .size ∧ t ≠ kw .from_ := by
        intro e tl
        cases e with
        | single v => exact ⟨pVal v, tl, rfl, pVal_ne_kw v _ (by simp), pVal_ne_kw v _ (by simp)⟩
        | range lo hi => exact ⟨pVal lo, _, rfl, pVal_ne_kw lo _ (by simp), pVal_ne_kw lo _ (by simp)⟩
      obtain ⟨t, tl', ht, hs, hf⟩ := hv first (pMore more ++ ((if ext = true then [kw .comma, kw .dots] else []) ++ [kw .rparen] ++ rest))
      have hshape : pESet ⟨first, more, ext⟩ ++ kw .rparen :: rest = t :: tl' := by
        simpa [pESet] using ht
      have key' : parseESet (t :: tl') = some (⟨first, more, ext⟩, kw .rparen :: rest) := by
        rw [← hshape]; exact key
      rw [hshape]
      unfold parseConsBody
      cases t <;> first
        | (simp only [key']; rfl)
        | (rename_i k; cases k <;> first | (simp only [key']; rfl) | exact absurd rfl hs | exact absurd rfl hf)
    | size s =>
      simp only [pOptCons, pCons, List.cons_append, List.nil_append, List.append_assoc, parseOptCons, parseConsBody]
      have key := parseESet_print s (kw .rparen :: rest)
      rw [key]; rfl
    | alpha s =>
      simp only [pOptCons, pCons, List.cons_append, List.nil_append, List.append_assoc, parseOptCons, parseConsBody]
      have key := parseESet_print s (kw .rparen :: rest)
      rw [key]; rfl
    | sizeAlpha s a =>
      simp only [pOptCons, pCons, List.cons_append, List.nil_append, List.append_assoc, parseOptCons, parseConsBody]
      have k1 := parseESet_print s (kw .caret :: kw .from_ :: kw .lparen :: (pESet a ++ kw .rparen :: kw .rparen :: rest))
      have k2 := parseESet_print a (kw .rparen :: rest)
      rw [k1]; simp only []; rw [k2]; rfl

/-! ### named numbers, enumeration items, markers, tags -/

theorem pNamedItems_length (l : List (String × Int)) : l.length ≤ (pNamedItems l).length := by
  induction l with
  | nil => simp [pNamedItems]
  | cons x xs ih =>
    obtain ⟨n, v⟩ := x
    cases xs with
    | nil => simp [pNamedItems]
    | cons y ys => simp [pNamedItems] at ih ⊢; omega

theorem parseNamedItems_print (l : List (String × Int)) (hl : l ≠ []) (rest : List Tok) (fuel : Nat)
    (hf : l.length < fuel) :
    parseNamedItems fuel (pNamedItems l ++ kw .rbrace :: rest) = some (l, rest) := by
  induction l generalizing fuel with
  | nil => exact absurd rfl hl
  | cons x xs ih =>
    obtain ⟨n, v⟩ := x
    cases fuel with
    | zero => simp at hf
    | succ f =>
      cases xs with
      | nil => simp [pNamedItems, parseNamedItems]
      | cons y ys =>
        have := ih (by simp) f (by simp at hf ⊢; omega)
        simp only [pNamedItems, List.cons_append, List.nil_append, List.append_assoc, parseNamedItems] at this ⊢
        simp only [this]

theorem parseNamed_print (l : List (String × Int)) (rest : List Tok) (h : headNot [.lbrace] rest) :
    parseNamed (pNamed l ++ rest) = some (l, rest) := by
  cases l with
  | nil =>
    simp only [pNamed, List.nil_append]
    have h' := h .lbrace (by simp)
    cases rest with
    | nil => rfl
    | cons t r => cases t <;> first | rfl | (rename_i k; cases k <;> first | rfl | simp at h')
  | cons x xs =>
    simp only [pNamed, List.cons_append, List.append_assoc, List.singleton_append, parseNamed]
    apply parseNamedItems_print (x :: xs) (by simp)
    have := pNamedItems_length (x :: xs)
    simp at this ⊢; omega

theorem parseEntry_print (e : EEntry) (rest : List Tok) (h : headNot [.lparen] rest) :
    parseEntry (pEntry e ++ rest) = some (e, rest) := by
  cases e with
  | dots => rfl
  | item n v =>
    cases v with
    | some v => simp [pEntry, parseEntry]
    | none =>
      simp only [pEntry, List.cons_append, List.nil_append, parseEntry]
      have h' := h .lparen (by simp)
      cases rest with
      | nil => rfl
      | cons t r =>
        cases t <;> first | rfl | (rename_i k; cases k <;> first | rfl | simp at h')

theorem pEntry_head (e : EEntry) (tl : List Tok) : ∃ t r, pEntry e ++ tl = t :: r ∧ t ≠ kw .rbrace := by
  cases e with
  | dots => exact ⟨kw .dots, tl, rfl, by simp⟩
  | item n v => cases v <;> exact ⟨lower n, _, rfl, by simp⟩

theorem pEntries_length (es : List EEntry) : es.length ≤ (pEntries es).length := by
  induction es with
  | nil => simp [pEntries]
  | cons e es ih =>
    cases es with
    | nil => cases e <;> simp [pEntries, pEntry] <;> (rename_i v; cases v <;> simp [pEntry])
    | cons e2 es2 => simp [pEntries] at ih ⊢; omega

theorem parseEntries_print (es : List EEntry) (rest : List Tok) (fuel : Nat) (hf : es.length < fuel) :
    parseEntries fuel (pEntries es ++ kw .rbrace :: rest) = some (es, rest) := by
  induction es generalizing fuel with
  | nil =>
    cases fuel with
    | zero => simp at hf
    | succ f => simp [pEntries, parseEntries]
  | cons e es ih =>
    cases fuel with
    | zero => simp at hf
    | succ f =>
      cases es with
      | nil =>
        simp only [pEntries]
        obtain ⟨t, r, hshape, hne⟩ := pEntry_head e (kw .rbrace :: rest)
        have hp := parseEntry_print e (kw .rbrace :: rest) (headNot_cons_kw (by simp))
        rw [hshape] at hp ⊢
        unfold parseEntries
        cases t <;> first
          | (simp only [hp]; done)
          | (rename_i k; cases k <;> first | (simp only [hp]; done) | exact absurd rfl hne)
      | cons e2 es2 =>
        have ih' := ih f (by simp at hf ⊢; omega)
        simp only [pEntries, List.append_assoc, List.cons_append] at ih' ⊢
        obtain ⟨t, r, hshape, hne⟩ := pEntry_head e (kw .comma :: (pEntries (e2 :: es2) ++ kw .rbrace :: rest))
        have hp := parseEntry_print e (kw .comma :: (pEntries (e2 :: es2) ++ kw .rbrace :: rest)) (headNot_cons_kw (by simp))
        rw [hshape] at hp ⊢
        unfold parseEntries
        cases t <;> first
          | (simp only [hp, ih']; done)
          | (rename_i k; cases k <;> first | (simp only [hp, ih']; done) | exact absurd rfl hne)

theorem parseMarker_print (m : Marker) (rest : List Tok) (h : headNot [.optional, .default_] rest) :
    parseMarker (pMarker m ++ rest) = some (m, rest) := by
  cases m with
  | optional => rfl
  | dflt v => simp [pMarker, parseMarker, parseVal_pVal]
  | none =>
    simp only [pMarker, List.nil_append]
    have h1 := h .optional (by simp)
    have h2 := h .default_ (by simp)
    cases rest with
    | nil => rfl
    | cons t r =>
      cases t <;> first | rfl | (rename_i k; cases k <;> first | rfl | exact absurd rfl h1 | exact absurd rfl h2)

/-- tokens that can start a type -/
def isTyStart : Tok → Bool
  | builtin _ => true
  | upper _ => true
  | kw .integer => true
  | kw .enumerated => true
  | kw .sequence => true
  | kw .set => true
  | kw .choice => true
  | _ => false

theorem parseTag_print (t : Option Tag) (tok : Tok) (r : List Tok) (h : isTyStart tok = true) :
    parseTag (pTag t ++ tok :: r) = some (t, tok :: r) := by
  cases t with
  | none =>
    simp only [pTag, List.nil_append]
    cases tok <;> first | rfl | (rename_i k; cases k <;> first | rfl | simp [isTyStart] at h)
  | some t =>
    obtain ⟨cls, n, mode⟩ := t
    cases cls <;> cases mode <;> simp only [pTag, List.cons_append, List.nil_append, List.append_assoc, parseTag] <;>
      first
        | rfl
        | (cases tok <;> first | rfl | (rename_i k; cases k <;> first | rfl | simp [isTyStart] at h))

theorem parseSizeOf_print (sz : Option ESet) (rest : List Tok) :
    parseSizeOf (pSizeOf sz ++ kw .of_ :: rest) = some (sz, kw .of_ :: rest) := by
  cases sz with
  | none => rfl
  | some s =>
    simp only [pSizeOf, List.cons_append, List.nil_append, List.append_assoc, parseSizeOf]
    rw [parseESet_print s (kw .rparen :: kw .of_ :: rest)]

/-! ### types and member lists -/

/-- what may follow a type: not "(" and not "{" -/
def okFollow (r : List Tok) : Prop := headNot [.lparen, .lbrace] r

theorem pTy_head' (t : Ty) : ∃ tok r, pTy t = tok :: r ∧ isTyStart tok = true := by
  cases t with
  | prim b c => rw [pTy]; exact ⟨_, _, rfl, rfl⟩
  | integer n c => rw [pTy]; exact ⟨_, _, rfl, rfl⟩
  | enumerated es => rw [pTy]; exact ⟨_, _, rfl, rfl⟩
  | ref n => rw [pTy]; exact ⟨_, _, rfl, rfl⟩
  | constr k cs => rw [pTy]; cases k <;> exact ⟨_, _, rfl, rfl⟩
  | listOf isSet sz tag el => rw [pTy]; cases isSet <;> exact ⟨_, _, rfl, rfl⟩

theorem pTy_head (t : Ty) (tl : List Tok) : ∃ tok r, pTy t ++ tl = tok :: r ∧ isTyStart tok = true := by
  obtain ⟨tok, r, h, hs⟩ := pTy_head' t
  exact ⟨tok, r ++ tl, by rw [h]; rfl, hs⟩

theorem pOptCons_headNot_lbrace (c : Option Cons) (rest : List Tok) (h : okFollow rest) :
    headNot [.lbrace] (pOptCons c ++ rest) := by
  cases c with
  | none => simpa [pOptCons] using headNot_sub h (by simp)
  | some c => cases c <;> simp only [pOptCons, pCons, List.cons_append] <;> exact headNot_cons_kw (by simp)

theorem pSep_pComps_head (rest' : Comps) (tl : List Tok) :
    ∃ k r, pSep rest' ++ pComps rest' ++ kw .rbrace :: tl = kw k :: r ∧ (k = .comma ∨ k = .rbrace) ∧
      (rest'.isNil = true → k = .rbrace ∧ r = tl) ∧
      (rest'.isNil = false → k = .comma ∧ r = pComps rest' ++ kw .rbrace :: tl) := by
  cases rest' with
  | nil => exact ⟨.rbrace, tl, by simp [pSep, pComps, Comps.isNil], Or.inr rfl, fun _ => ⟨rfl, rfl⟩, fun h => by simp [Comps.isNil] at h⟩
  | ext r' => exact ⟨.comma, _, by simp [pSep, Comps.isNil], Or.inl rfl, fun h => by simp [Comps.isNil] at h, fun _ => ⟨rfl, rfl⟩⟩
  | comp id tag t m r' => exact ⟨.comma, _, by simp [pSep, Comps.isNil], Or.inl rfl, fun h => by simp [Comps.isNil] at h, fun _ => ⟨rfl, rfl⟩⟩

theorem closeBrace_some {α} (f : α → Ty) (x : α) (r : List Tok) :
    closeBrace f (some (x, kw .rbrace :: r)) = some (f x, r) := rfl

mutual
theorem parseTy_print : (t : Ty) → (fuel : Nat) → (rest : List Tok) → (pTy t).length < fuel → okFollow rest →
    parseTy fuel (pTy t ++ rest) = some (t, rest)
  | .prim b c, fuel, rest, hf, hr => by
    cases fuel with
    | zero => simp at hf
    | succ f =>
      simp only [pTy, List.cons_append, parseTy]
      rw [parseOptCons_print c rest (headNot_sub hr (by simp))]; rfl
  | .integer named c, fuel, rest, hf, hr => by
    cases fuel with
    | zero => simp at hf
    | succ f =>
      simp only [pTy, List.cons_append, List.append_assoc, parseTy]
      rw [parseNamed_print named _ (pOptCons_headNot_lbrace c rest hr)]
      simp only []
      rw [parseOptCons_print c rest (headNot_sub hr (by simp))]; rfl
  | .enumerated es, fuel, rest, hf, hr => by
    cases fuel with
    | zero => simp at hf
    | succ f =>
      simp only [pTy, List.cons_append, List.append_assoc, List.singleton_append, List.nil_append, parseTy]
      rw [parseEntries_print es rest _ (by have := pEntries_length es; simp; omega)]; rfl
  | .ref n, fuel, rest, hf, hr => by
    cases fuel with
    | zero => simp at hf
    | succ f => simp [pTy, parseTy]
  | .constr k cs, fuel, rest, hf, hr => by
    cases fuel with
    | zero => simp at hf
    | succ f =>
      have hlen : (pComps cs).length < f := by simp [pTy] at hf; omega
      have ih := parseComps_print cs f rest hlen
      cases k <;>
        simp only [pTy, pKind, List.cons_append, List.append_assoc, List.singleton_append, List.nil_append, parseTy, ih,
          closeBrace_some]
  | .listOf isSet sz tag el, fuel, rest, hf, hr => by
    cases fuel with
    | zero => simp at hf
    | succ f =>
      cases f with
      | zero => simp [pTy] at hf
      | succ f' =>
        have hlen : (pTy el).length < f' := by simp [pTy] at hf; omega
        have ih := parseTy_print el f' rest hlen hr
        obtain ⟨tok, r, hshape, hstart⟩ := pTy_head el rest
        have htag := parseTag_print tag tok r hstart
        rw [← hshape] at htag
        have hsz := parseSizeOf_print sz (pTag tag ++ (pTy el ++ rest))
        have hof : parseOf (f' + 1) isSet (pSizeOf sz ++ kw .of_ :: (pTag tag ++ (pTy el ++ rest)))
            = some (.listOf isSet sz tag el, rest) := by
          simp only [parseOf, hsz, htag, ih]
        cases sz with
        | none =>
          cases isSet <;>
            simp only [pTy, pSizeOf, List.cons_append, List.nil_append, List.append_assoc, parseTy, Bool.false_eq_true,
              if_false, if_true] <;> simpa [pSizeOf] using hof
        | some s =>
          cases isSet <;>
            simp only [pTy, pSizeOf, List.cons_append, List.nil_append, List.append_assoc, parseTy, Bool.false_eq_true,
              if_false, if_true] <;> simpa [pSizeOf] using hof
theorem parseComps_print : (cs : Comps) → (fuel : Nat) → (rest : List Tok) → (pComps cs).length < fuel →
    parseComps fuel (pComps cs ++ kw .rbrace :: rest) = some (cs, kw .rbrace :: rest)
  | .nil, fuel, rest, hf => by
    cases fuel with
    | zero => simp at hf
    | succ f => simp [pComps, parseComps]
  | .ext rest', fuel, rest, hf => by
    cases fuel with
    | zero => simp at hf
    | succ f =>
      obtain ⟨k, r, hshape, _, hnil, hcons⟩ := pSep_pComps_head rest' rest
      simp only [pComps, List.cons_append, List.append_assoc, parseComps]
      simp only [List.append_assoc] at hshape
      rw [hshape]
      cases hn : rest'.isNil with
      | true =>
        obtain ⟨hk, hr⟩ := hnil hn
        subst hk; subst hr
        cases rest' <;> simp [Comps.isNil] at hn
        rfl
      | false =>
        obtain ⟨hk, hr⟩ := hcons hn
        subst hk; subst hr
        have hlen : (pComps rest').length < f := by simp [pComps] at hf; omega
        have ih := parseComps_print rest' f rest hlen
        simp only [ih, hn, Bool.false_eq_true, if_false]
  | .comp id tag t m rest', fuel, rest, hf => by
    cases fuel with
    | zero => simp at hf
    | succ f =>
      have hlenT : (pTy t).length < f := by simp [pComps] at hf; omega
      obtain ⟨k, r, hshape, hk, hnil, hcons⟩ := pSep_pComps_head rest' rest
      simp only [List.append_assoc] at hshape
      -- what follows the member's type: marker tokens, then "," or "}"
      have hfollowM : headNot [.optional, .default_] (pSep rest' ++ (pComps rest' ++ kw .rbrace :: rest)) := by
        rw [hshape]; rcases hk with hk | hk <;> subst hk <;> exact headNot_cons_kw (by simp)
      have hfollowT : okFollow (pMarker m ++ (pSep rest' ++ (pComps rest' ++ kw .rbrace :: rest))) := by
        cases m with
        | none => simp only [pMarker, List.nil_append]; rw [hshape]; rcases hk with hk | hk <;> subst hk <;> exact headNot_cons_kw (by simp)
        | optional => exact headNot_cons_kw (by simp)
        | dflt v => exact headNot_cons_kw (by simp)
      have ihT := parseTy_print t f _ hlenT hfollowT
      obtain ⟨tok, rT, hshapeT, hstart⟩ := pTy_head t (pMarker m ++ (pSep rest' ++ (pComps rest' ++ kw .rbrace :: rest)))
      have htag := parseTag_print tag tok rT hstart
      rw [← hshapeT] at htag
      have hmark := parseMarker_print m _ hfollowM
      simp only [pComps, List.cons_append, List.append_assoc, parseComps, htag, ihT, hmark]
      rw [hshape]
      cases hn : rest'.isNil with
      | true =>
        obtain ⟨hk', hr⟩ := hnil hn
        subst hk'; subst hr
        cases rest' <;> simp [Comps.isNil] at hn
        rfl
      | false =>
        obtain ⟨hk', hr⟩ := hcons hn
        subst hk'; subst hr
        have hlen : (pComps rest').length < f := by simp [pComps] at hf; omega
        have ih := parseComps_print rest' f rest hlen
        simp only [ih, hn, Bool.false_eq_true, if_false]
end

/-! ### modules -/

theorem pAssignments_head (l : List Assignment) (rest : List Tok) :
    okFollow (pAssignments l ++ kw .end_ :: rest) := by
  cases l with
  | nil => exact headNot_cons_kw (by simp)
  | cons a r => intro k _; simp [pAssignments]

theorem parseAssignments_print (l : List Assignment) (rest : List Tok) (fuel : Nat) (hf : l.length < fuel) :
    parseAssignments fuel (pAssignments l ++ kw .end_ :: rest) = some (l, rest) := by
  induction l generalizing fuel with
  | nil =>
    cases fuel with
    | zero => simp at hf
    | succ f => simp [pAssignments, parseAssignments]
  | cons a r ih =>
    cases fuel with
    | zero => simp at hf
    | succ f =>
      obtain ⟨name, tag, ty⟩ := a
      have ih' := ih f (by simp at hf ⊢; omega)
      obtain ⟨tok, rT, hshape, hstart⟩ := pTy_head ty (pAssignments r ++ kw .end_ :: rest)
      have htag := parseTag_print tag tok rT hstart
      rw [← hshape] at htag
      have hty := parseTy_print ty ((pTy ty ++ (pAssignments r ++ kw .end_ :: rest)).length + 1)
        (pAssignments r ++ kw .end_ :: rest) (by simp; omega) (pAssignments_head r rest)
      simp only [pAssignments, List.cons_append, List.append_assoc, parseAssignments, htag, hty, ih']

theorem pAssignments_length (l : List Assignment) : l.length ≤ (pAssignments l).length := by
  induction l with
  | nil => simp [pAssignments]
  | cons a r ih => simp [pAssignments]; omega

theorem parseTagDefault_print (td : Option TagDefault) (rest : List Tok) :
    parseTagDefault (pTagDefault td ++ kw .assign :: rest) = some (td, kw .assign :: rest) := by
  cases td with
  | none => rfl
  | some d => cases d <;> rfl

theorem parse_print (m : Module) : parse (print m) = some m := by
  obtain ⟨name, td, types⟩ := m
  unfold print parse
  simp only [List.append_assoc, List.cons_append]
  rw [parseTagDefault_print td]
  simp only []
  have := parseAssignments_print types [] ((pAssignments types ++ [kw .end_]).length + 1)
    (by have := pAssignments_length types; simp; omega)
  simp only [this]

end Asn1c.Proofs.Print
