import Asn1cModel.Proofs.L2Der
/-
  L2: all valid BER trees of a value (`ValidG` / `ValidBER` / `ValidBERo`) and the theorem that
  the interpreter accepts every one of them (C03).  Helper lemmas; property theorems are in
  Props/C03.lean.
-/
namespace Asn1c.Proofs.L2Variants
open Asn1c Asn1c.Impl.BerTlv Asn1c.L2 Asn1c.Spec Asn1c.Proofs.L2Tlv Asn1c.Proofs.L2Der

/-! ### explicit tag wrappers in any length form (freedom (g)) -/

/-- `Wrapped outer y x`: `x` is `y` inside the explicit wrappers `outer` (outermost first), each a
    constructed node with exactly one child and an **arbitrary** length form -/
inductive Wrapped : List Tag → Tlv → Tlv → Prop
  | nil {y : Tlv} : Wrapped [] y y
  | cons {t : Tag} {ts : List Tag} {f : Option Nat} {y x : Tlv} :
      Wrapped ts y x → Wrapped (t :: ts) y (.cons t f [x])

theorem wrapped_wrapAround (outer : List Tag) (y : Tlv) : Wrapped outer y (wrapAround outer y) := by
  induction outer with
  | nil => exact .nil
  | cons t ts ih => exact .cons ih

theorem unwrapAround_wrapped {outer : List Tag} {y x : Tlv} (h : Wrapped outer y x) :
    unwrapAround outer x = some y := by
  induction h with
  | nil => simp [unwrapAround]
  | cons _ ih => simp [unwrapAround, ih]

theorem unwrapTags_wrapped {outer : List Tag} {inner : Tag} {y x : Tlv} (h : Wrapped outer y x)
    (hy : y.tag = inner) : unwrapTags (outer ++ [inner]) x = some y := by
  unfold unwrapTags
  simp [unwrapAround_wrapped h, hy]

theorem wrapped_tag {outer : List Tag} {y x : Tlv} (h : Wrapped outer y x) :
    x.tag ∈ (outer ++ [y.tag]).take 1 := by
  cases h with
  | nil => simp
  | cons _ => simp [Tlv.tag]

theorem wrapped_tag_ne {outer : List Tag} {y x : Tlv} (h : Wrapped outer y x) (hne : outer ≠ []) :
    x.tag ∈ outer.take 1 := by
  cases h with
  | nil => exact absurd rfl hne
  | cons _ => simp [Tlv.tag]

/-! ### the innermost node of a primitive kind (freedoms (b), (c), (f)) -/

/-- `ValidPrim p v t y`: `y` (carrying tag `t`) is a valid BER node for the value `v` of kind `p`.
    The length form is never constrained. -/
inductive ValidPrim : Prim → Val → Tag → Tlv → Prop
  /-- (f) TRUE is any non-zero octet -/
  | boolean {t : Tag} {k o : Nat} {b : Bool} : (o != 0) = b → ValidPrim .boolean (.bool b) t (.prim t k [o])
  | null {t : Tag} {k : Nat} : ValidPrim .null .null t (.prim t k [])
  | integer {t : Tag} {k : Nat} {z : Int} : ValidPrim .integer (.int z) t (.prim t k (intOctets z))
  | enumerated {t : Tag} {k : Nat} {z : Int} : ValidPrim .enumerated (.int z) t (.prim t k (intOctets z))
  | real {t : Tag} {k b : Nat} : RealOk b →
      ValidPrim .real (.real b) t (.prim t k (Asn1c.Impl.Real.double2REAL b))
  /-- (b) primitive, or constructed and arbitrarily nested, with the concatenated contents `bs` -/
  | octets {t : Tag} {y : Tlv} {bs : Bytes} : y.tag = t → stringContent y = bs →
      ValidPrim .octets (.octets bs) t y
  /-- primitive BIT STRING; the unused bits of the last octet are arbitrary in BER -/
  | bitsPrim {t : Tag} {k u : Nat} {bs' bs : Bytes} : u ≤ 7 → (bs' = [] → u = 0) → maskLast bs' u = bs →
      ValidPrim .bits (.bits bs u) t (.prim t k (u :: bs'))
  /-- (c) constructed (nested) BIT STRING: only the last segment has unused bits -/
  | bitsCons {t : Tag} {f : Option Nat} {cs : List Tlv} {u : Nat} {bs' bs : Bytes} :
      bitSegments cs = some (bs', u) → maskLast bs' u = bs →
      ValidPrim .bits (.bits bs u) t (.cons t f cs)

theorem validPrim_tag {p : Prim} {v : Val} {t : Tag} {y : Tlv} (h : ValidPrim p v t y) : y.tag = t := by
  cases h <;> first | rfl | assumption

theorem decPrim_valid {p : Prim} {v : Val} {t : Tag} {y : Tlv} (h : ValidPrim p v t y) :
    decPrim p y = some v := by
  cases h with
  | boolean hb => simp [decPrim, hb]
  | null => simp [decPrim]
  | @integer _ _ z =>
    cases hq : intOctets z with
    | nil => exact absurd hq (intOctets_ne_nil z)
    | cons b bs => simp only [decPrim]; rw [← hq, twosVal_intOctets]
  | @enumerated _ _ z =>
    cases hq : intOctets z with
    | nil => exact absurd hq (intOctets_ne_nil z)
    | cons b bs => simp only [decPrim]; rw [← hq, twosVal_intOctets]
  | real hb => simp only [decPrim, real_roundtrip _ hb]
  | octets _ hs => subst hs; cases y <;> simp [decPrim]
  | bitsPrim h1 h2 h3 => simp only [decPrim]; rw [if_pos ⟨h1, h2⟩, h3]
  | bitsCons h1 h2 => simp only [decPrim, h1, Option.map_some, h2]

/-- the DER contents are one of the valid forms -/
theorem validPrim_of_primContent (p : Prim) (v : Val) (c : Bytes) (t : Tag)
    (hc : canonPrim p v = true) (h : primContent p v = some c) : ValidPrim p v t (.prim t 0 c) := by
  cases p <;> cases v <;> try (simp [canonPrim] at hc; done)
  case boolean.bool b =>
    simp only [primContent] at h; injection h with h; subst h
    exact .boolean (by cases b <;> rfl)
  case null.null =>
    simp only [primContent] at h; injection h with h; subst h; exact .null
  case integer.int z =>
    simp only [primContent] at h; injection h with h; subst h; exact .integer
  case enumerated.int z =>
    simp only [primContent] at h; injection h with h; subst h; exact .enumerated
  case real.real b =>
    simp only [primContent] at h; injection h with h; subst h
    simp only [canonPrim, decide_eq_true_eq] at hc
    exact .real hc
  case octets.octets bs =>
    simp only [primContent] at h; injection h with h; subst h
    exact .octets rfl rfl
  case bits.bits bs u =>
    simp only [canonPrim, decide_eq_true_eq] at hc
    obtain ⟨h1, h2, h3⟩ := hc
    simp only [primContent] at h
    rw [if_pos ⟨h1, h2⟩, h3] at h
    injection h with h; subst h
    exact .bitsPrim h1 h2 h3

/-! ### all valid BER trees of a value -/

mutual
/-- `ValidG perm t v x`: `x` is a valid BER tree for the (canonical) value `v` of type `t`.
    No constructor constrains a `form` field (freedom (a)); wrappers are `Wrapped` (g);
    primitive kinds are `ValidPrim` (b), (c), (f); SET children come in any order (d);
    SET OF children come in any order if `perm = true` (e), in the order of the value list if
    `perm = false`. -/
inductive ValidG (perm : Bool) : Ty → Val → Tlv → Prop
  | prim {tags outer : List Tag} {inner : Tag} {p : Prim} {v : Val} {y x : Tlv} :
      tags = outer ++ [inner] → ValidPrim p v inner y → Wrapped outer y x →
      ValidG perm (.prim tags p) v x
  | seq {tags outer : List Tag} {inner : Tag} {ms : List Ty} {attrs : List Attr} {ext : Bool}
      {vs : List Val} {f : Option Nat} {cs : List Tlv} {x : Tlv} :
      tags = outer ++ [inner] → ValidSeqG perm ms attrs vs cs → Wrapped outer (.cons inner f cs) x →
      ValidG perm (.seq tags ms attrs ext) (.seq vs) x
  | set {tags outer : List Tag} {inner : Tag} {ms : List Ty} {attrs : List Attr} {ext : Bool}
      {vs : List Val} {f : Option Nat} {cs cs' : List Tlv} {x : Tlv} :
      tags = outer ++ [inner] → ValidSeqG perm ms attrs vs cs → cs'.Perm cs →
      Wrapped outer (.cons inner f cs') x →
      ValidG perm (.set tags ms attrs ext) (.seq vs) x
  | choice {tags : List Tag} {alts : List Ty} {ext : Bool} {i : Nat} {v : Val} {y x : Tlv} :
      ValidAltG perm alts i v y → Wrapped tags y x →
      ValidG perm (.choice tags alts ext) (.choice i v) x
  | seqOf {tags outer : List Tag} {inner : Tag} {e : Ty} {vs : List Val} {f : Option Nat}
      {cs : List Tlv} {x : Tlv} :
      tags = outer ++ [inner] → ValidListG perm e vs cs → Wrapped outer (.cons inner f cs) x →
      ValidG perm (.seqOf tags e) (.list vs) x
  | setOf {tags outer : List Tag} {inner : Tag} {e : Ty} {vs : List Val} {f : Option Nat}
      {cs cs' : List Tlv} {x : Tlv} :
      tags = outer ++ [inner] → ValidListG perm e vs cs → cs'.Perm cs → (perm = false → cs' = cs) →
      Wrapped outer (.cons inner f cs') x →
      ValidG perm (.setOf tags e) (.list vs) x
/-- components of SEQUENCE / SET in declaration order: absent components are OPTIONAL/DEFAULT and
    contribute nothing, present ones are not the DEFAULT value -/
inductive ValidSeqG (perm : Bool) : List Ty → List Attr → List Val → List Tlv → Prop
  | nil : ValidSeqG perm [] [] [] []
  | absent {m : Ty} {ms : List Ty} {a : Attr} {as : List Attr} {vs : List Val} {cs : List Tlv} :
      a.optional = true → ValidSeqG perm ms as vs cs →
      ValidSeqG perm (m :: ms) (a :: as) (.absent :: vs) cs
  | present {m : Ty} {ms : List Ty} {a : Attr} {as : List Attr} {v : Val} {vs : List Val} {c : Tlv}
      {cs : List Tlv} :
      isAbsent v = false → isDefault a v = false → ValidG perm m v c → ValidSeqG perm ms as vs cs →
      ValidSeqG perm (m :: ms) (a :: as) (v :: vs) (c :: cs)
inductive ValidAltG (perm : Bool) : List Ty → Nat → Val → Tlv → Prop
  | here {a : Ty} {as : List Ty} {v : Val} {y : Tlv} : ValidG perm a v y → ValidAltG perm (a :: as) 0 v y
  | there {a : Ty} {as : List Ty} {i : Nat} {v : Val} {y : Tlv} :
      ValidAltG perm as i v y → ValidAltG perm (a :: as) (i + 1) v y
inductive ValidListG (perm : Bool) : Ty → List Val → List Tlv → Prop
  | nil {e : Ty} : ValidListG perm e [] []
  | cons {e : Ty} {v : Val} {vs : List Val} {c : Tlv} {cs : List Tlv} :
      ValidG perm e v c → ValidListG perm e vs cs → ValidListG perm e (v :: vs) (c :: cs)
end

/-- **all valid BER trees of a value** (SET OF children in any order) -/
abbrev ValidBER : Ty → Val → Tlv → Prop := ValidG true
/-- valid BER trees whose SET OF children are in the order of the value's list -/
abbrev ValidBERo : Ty → Val → Tlv → Prop := ValidG false

/-! ### the outermost tag of a valid tree -/

def TagV (t : Ty) : Prop := TyWf t → ∀ p v x, ValidG p t v x → x.tag ∈ outerTags t

theorem take1_append_singleton (outer : List Tag) (inner : Tag) (t : Tag)
    (h : t ∈ (outer ++ [inner]).take 1) : t ∈ (outer ++ [inner]).take 1 := h

theorem validAlt_tag (alts : List Ty) (ih : ∀ a ∈ alts, TagV a) (hw : ∀ a ∈ alts, TyWf a)
    (p : Bool) (i : Nat) (v : Val) (y : Tlv) (h : ValidAltG p alts i v y) :
    y.tag ∈ outerTagsAlts alts := by
  induction alts generalizing i with
  | nil => cases h
  | cons a as iha =>
    simp only [outerTagsAlts, List.mem_append]
    cases h with
    | here h' => exact Or.inl (ih a (by simp) (hw a (by simp)) p v y h')
    | there h' =>
      exact Or.inr (iha (fun b hb => ih b (by simp [hb])) (fun b hb => hw b (by simp [hb])) _ h')

theorem tagV_all : ∀ t, TagV t := by
  apply Ty.induct'
  · intro tags pr _ p v x h
    cases h with
    | prim ht hp hwr =>
      subst ht
      have := wrapped_tag hwr
      rw [validPrim_tag hp] at this
      simpa [outerTags] using this
  · intro tags ms attrs ext _ _ p v x h
    cases h with
    | seq ht _ hwr => subst ht; simpa [outerTags, Tlv.tag] using wrapped_tag hwr
  · intro tags ms attrs ext _ _ p v x h
    cases h with
    | set ht _ _ hwr => subst ht; simpa [outerTags, Tlv.tag] using wrapped_tag hwr
  · intro tags alts ext ih hw p v x h
    obtain ⟨_, hwa, _⟩ := (tyWf_choice tags alts ext).mp hw
    cases h with
    | choice ha hwr =>
      simp only [outerTags]
      cases tags with
      | nil =>
        cases hwr
        simp only [List.isEmpty_nil, if_true]
        exact validAlt_tag alts ih hwa p _ _ _ ha
      | cons t ts =>
        simp only [List.isEmpty_cons, Bool.false_eq_true, if_false]
        exact wrapped_tag_ne hwr (by simp)
  · intro tags e _ _ p v x h
    cases h with
    | seqOf ht _ hwr => subst ht; simpa [outerTags, Tlv.tag] using wrapped_tag hwr
  · intro tags e _ _ p v x h
    cases h with
    | setOf ht _ _ _ hwr => subst ht; simpa [outerTags, Tlv.tag] using wrapped_tag hwr

/-- the outermost tag of a valid BER tree is one of the type's `outerTags` -/
theorem valid_tag_mem {p : Bool} {t : Ty} {v : Val} {x : Tlv} (hw : TyWf t) (h : ValidG p t v x) :
    x.tag ∈ outerTags t := tagV_all t hw p v x h

theorem validSeq_tags {p : Bool} (ms : List Ty) (hw : ∀ m ∈ ms, TyWf m) (as : List Attr) (vs : List Val)
    (cs : List Tlv) (h : ValidSeqG p ms as vs cs) : ∀ c ∈ cs, c.tag ∈ outerTagsAlts ms := by
  induction ms generalizing as vs cs with
  | nil => cases h; intro c hc; cases hc
  | cons m ms ih =>
    have hw' : ∀ m ∈ ms, TyWf m := fun b hb => hw b (by simp [hb])
    simp only [outerTagsAlts, List.mem_append]
    cases h with
    | absent _ h' => exact fun c hc => Or.inr (ih hw' _ _ _ h' c hc)
    | present _ _ h1 h2 =>
      intro c hc
      rcases List.mem_cons.mp hc with rfl | hc
      · exact Or.inl (valid_tag_mem (hw m (by simp)) h1)
      · exact Or.inr (ih hw' _ _ _ h2 c hc)

/-! ### the interpreter accepts every valid tree -/

def InterpV (t : Ty) : Prop := TyWf t → ∀ v x, ValidG false t v x → interp t x = some v

theorem validSeq_head_notin {p : Bool} (T : List Tag) (ms : List Ty) (hw : ∀ m ∈ ms, TyWf m)
    (as : List Attr) (vs : List Val) (c : Tlv) (cs : List Tlv)
    (hd : disjFollow T ms as = true) (h : ValidSeqG p ms as vs (c :: cs)) : c.tag ∉ T := by
  induction ms generalizing as vs with
  | nil => cases h
  | cons m ms ih =>
    have hw' : ∀ m ∈ ms, TyWf m := fun b hb => hw b (by simp [hb])
    cases h with
    | absent ho h' =>
      simp only [disjFollow, Bool.and_eq_true, Bool.or_eq_true, Bool.not_eq_true'] at hd
      rcases hd.2 with hno | hd2
      · rw [ho] at hno; cases hno
      · exact ih hw' _ _ hd2 h'
    | present _ _ h1 _ =>
      simp only [disjFollow, Bool.and_eq_true] at hd
      have hmem := valid_tag_mem (hw m (by simp)) h1
      intro hT
      exact (disjointB_iff _ _).mp hd.1 _ hT hmem

theorem interpSeq_valid (ext : Bool) (ms : List Ty) (ih : ∀ m ∈ ms, InterpV m)
    (hw : ∀ m ∈ ms, TyWf m) (as : List Attr) (vs : List Val) (cs : List Tlv)
    (hd : seqDisj ms as = true) (h : ValidSeqG false ms as vs cs) :
    interpSeq ms as ext cs = some vs := by
  induction ms generalizing as vs cs with
  | nil => cases h; simp [interpSeq_nil]
  | cons m ms ihm =>
    have ih' : ∀ m ∈ ms, InterpV m := fun b hb => ih b (by simp [hb])
    have hw' : ∀ m ∈ ms, TyWf m := fun b hb => hw b (by simp [hb])
    cases h with
    | @absent _ _ a as' vs' _ ho h' =>
      simp only [seqDisj, Bool.and_eq_true, Bool.or_eq_true, Bool.not_eq_true'] at hd
      have hrec := ihm ih' hw' _ _ _ hd.2 h'
      have hfol : disjFollow (outerTags m) ms as' = true := by
        rcases hd.1 with hno | hd1
        · rw [ho] at hno; cases hno
        · exact hd1
      cases cs with
      | nil => rw [interpSeq_cons_nil, if_pos ho, hrec]; rfl
      | cons c cs' =>
        have hnot := validSeq_head_notin (outerTags m) ms hw' as' vs' c cs' hfol h'
        rw [interpSeq_cons_cons, contains_false_of_not_mem _ _ hnot]
        simp only [Bool.false_eq_true, if_false]
        rw [if_pos ho, hrec]; rfl
    | present _ _ h1 h2 =>
      simp only [seqDisj, Bool.and_eq_true] at hd
      have hmem := valid_tag_mem (hw m (by simp)) h1
      have hi := ih m (by simp) (hw m (by simp)) _ _ h1
      have hrec := ihm ih' hw' _ _ _ hd.2 h2
      rw [interpSeq_cons_cons, contains_true_of_mem _ _ hmem, if_pos rfl, hi, hrec]

theorem interpSet_valid (all : List Tlv) (ms : List Ty) (ih : ∀ m ∈ ms, InterpV m)
    (hw : ∀ m ∈ ms, TyWf m) (as : List Attr) (vs : List Val) (xs : List Tlv)
    (hd : pairDisj ms = true) (h : ValidSeqG false ms as vs xs) (hsub : ∀ x ∈ xs, x ∈ all)
    (hall : ∀ c ∈ all, c.tag ∈ outerTagsAlts ms → c ∈ xs) : interpSet ms as all = some vs := by
  induction ms generalizing as vs xs with
  | nil => cases h; rw [interpSet_nil]
  | cons m ms ihm =>
    have ih' : ∀ m ∈ ms, InterpV m := fun b hb => ih b (by simp [hb])
    have hw' : ∀ m ∈ ms, TyWf m := fun b hb => hw b (by simp [hb])
    simp only [pairDisj, Bool.and_eq_true] at hd
    have hdis := (disjointB_iff _ _).mp hd.1
    cases h with
    | @absent _ _ a as' vs' _ ho h' =>
      rw [interpSet_cons]
      have htags := validSeq_tags ms hw' as' vs' xs h'
      have hnone : all.find? (fun c => (outerTags m).contains c.tag) = none := by
        rw [List.find?_eq_none]
        intro c hcm hp
        have hp' : c.tag ∈ outerTags m := by simpa using hp
        have hcx := hall c hcm (by simp [outerTagsAlts, hp'])
        exact hdis _ hp' (htags c hcx)
      have hrec := ihm ih' hw' as' vs' xs hd.2 h' hsub
        (fun c hcm ht => hall c hcm (by simp [outerTagsAlts, ht]))
      rw [hnone]
      simp only []
      rw [if_pos ho, hrec]; rfl
    | @present _ _ a as' v vs' x' xs' _ _ h1 h2 =>
      rw [interpSet_cons]
      have hmem := valid_tag_mem (hw m (by simp)) h1
      have hi := ih m (by simp) (hw m (by simp)) _ _ h1
      have htags := validSeq_tags ms hw' as' vs' xs' h2
      have hx'all : x' ∈ all := hsub x' (by simp)
      have hfind : all.find? (fun c => (outerTags m).contains c.tag) = some x' := by
        cases hf : all.find? (fun c => (outerTags m).contains c.tag) with
        | none =>
          rw [List.find?_eq_none] at hf
          exact absurd (contains_true_of_mem _ _ hmem) (hf x' hx'all)
        | some c =>
          have hp := List.find?_some hf
          have hcm := List.mem_of_find?_eq_some hf
          have hp' : c.tag ∈ outerTags m := by simpa using hp
          have hcx := hall c hcm (by simp [outerTagsAlts, hp'])
          rcases List.mem_cons.mp hcx with rfl | hcx
          · rfl
          · exact absurd (htags c hcx) (hdis _ hp')
      have hrec := ihm ih' hw' as' vs' xs' hd.2 h2 (fun x hx => hsub x (by simp [hx]))
        (fun c hcm ht => by
          have := hall c hcm (by simp [outerTagsAlts, ht])
          rcases List.mem_cons.mp this with rfl | hcx
          · exact absurd ht (hdis _ hmem)
          · exact hcx)
      rw [hfind]
      simp only []
      rw [hi, hrec]

theorem interpAlt_valid (alts : List Ty) (ih : ∀ a ∈ alts, InterpV a) (hw : ∀ a ∈ alts, TyWf a)
    (hd : pairDisj alts = true) (i k : Nat) (v : Val) (y : Tlv) (h : ValidAltG false alts i v y) :
    interpAlt alts k y = some (.choice (k + i) v) := by
  induction alts generalizing i k with
  | nil => cases h
  | cons a as iha =>
    simp only [pairDisj, Bool.and_eq_true] at hd
    have hdis := (disjointB_iff _ _).mp hd.1
    rw [interpAlt_cons]
    cases h with
    | here h' =>
      have hmem := valid_tag_mem (hw a (by simp)) h'
      rw [contains_true_of_mem _ _ hmem, if_pos rfl, ih a (by simp) (hw a (by simp)) v y h']
      rfl
    | @there _ _ i' _ _ h' =>
      have hw' : ∀ b ∈ as, TyWf b := fun b hb => hw b (by simp [hb])
      have hmem := validAlt_tag as (fun b _ => tagV_all b) hw' false i' v y h'
      have hnot : y.tag ∉ outerTags a := fun hin => hdis _ hin hmem
      rw [contains_false_of_not_mem _ _ hnot]
      simp only [Bool.false_eq_true, if_false]
      rw [iha (fun b hb => ih b (by simp [hb])) hw' hd.2 i' (k + 1) h']
      congr 2; omega

theorem interpList_valid (e : Ty) (ih : InterpV e) (hw : TyWf e) (vs : List Val) (cs : List Tlv)
    (h : ValidListG false e vs cs) : interpList e cs = some vs := by
  induction vs generalizing cs with
  | nil => cases h; exact interpList_nil e
  | cons v vs ihv =>
    cases h with
    | cons h1 h2 => rw [interpList_cons, ih hw v _ h1, ihv _ h2]

theorem interp_wrapped_prim {outer : List Tag} {inner : Tag} {p : Prim} {y x : Tlv}
    (h : Wrapped outer y x) (hy : y.tag = inner) :
    interp (.prim (outer ++ [inner]) p) x = decPrim p y := by
  rw [interp, unwrapTags_wrapped h hy]

theorem interp_wrapped_seq {outer : List Tag} {inner : Tag} {ms : List Ty} {attrs : List Attr} {ext : Bool}
    {f : Option Nat} {cs : List Tlv} {x : Tlv} (h : Wrapped outer (.cons inner f cs) x) :
    interp (.seq (outer ++ [inner]) ms attrs ext) x = (interpSeq ms attrs ext cs).map .seq := by
  rw [interp, unwrapTags_wrapped (inner := inner) h rfl]

theorem interp_wrapped_set {outer : List Tag} {inner : Tag} {ms : List Ty} {attrs : List Attr} {ext : Bool}
    {f : Option Nat} {cs : List Tlv} {x : Tlv} (h : Wrapped outer (.cons inner f cs) x) :
    interp (.set (outer ++ [inner]) ms attrs ext) x = (interpSet ms attrs cs).map .seq := by
  rw [interp, unwrapTags_wrapped (inner := inner) h rfl]

theorem interp_wrapped_choice {tags : List Tag} {alts : List Ty} {ext : Bool} {y x : Tlv}
    (h : Wrapped tags y x) : interp (.choice tags alts ext) x = interpAlt alts 0 y := by
  rw [interp, unwrapAround_wrapped h]

theorem interp_wrapped_seqOf {outer : List Tag} {inner : Tag} {e : Ty}
    {f : Option Nat} {cs : List Tlv} {x : Tlv} (h : Wrapped outer (.cons inner f cs) x) :
    interp (.seqOf (outer ++ [inner]) e) x = (interpList e cs).map .list := by
  rw [interp, unwrapTags_wrapped (inner := inner) h rfl]

theorem interp_wrapped_setOf {outer : List Tag} {inner : Tag} {e : Ty}
    {f : Option Nat} {cs : List Tlv} {x : Tlv} (h : Wrapped outer (.cons inner f cs) x) :
    interp (.setOf (outer ++ [inner]) e) x = (interpList e cs).map .list := by
  rw [interp, unwrapTags_wrapped (inner := inner) h rfl]

theorem interpV_all : ∀ t, InterpV t := by
  apply Ty.induct'
  · intro tags pr hw v x h
    cases h with
    | prim ht hp hwr =>
      subst ht
      rw [interp_wrapped_prim hwr (validPrim_tag hp)]
      exact decPrim_valid hp
  · intro tags ms attrs ext ih hw v x h
    cases h with
    | seq ht hs hwr =>
      subst ht
      obtain ⟨_, _, hwm, _, hdis⟩ := (tyWf_seq _ ms attrs ext).mp hw
      rw [interp_wrapped_seq hwr, interpSeq_valid ext ms ih hwm attrs _ _ hdis hs]
      rfl
  · intro tags ms attrs ext ih hw v x h
    cases h with
    | set ht hs hperm hwr =>
      subst ht
      obtain ⟨_, _, hwm, _, hdis⟩ := (tyWf_set _ ms attrs ext).mp hw
      rw [interp_wrapped_set hwr, interpSet_valid _ ms ih hwm attrs _ _ hdis hs
        (fun x hx => hperm.symm.subset hx) (fun c hcm _ => hperm.subset hcm)]
      rfl
  · intro tags alts ext ih hw v x h
    cases h with
    | choice ha hwr =>
      obtain ⟨_, hwa, hdis⟩ := (tyWf_choice tags alts ext).mp hw
      rw [interp_wrapped_choice hwr, interpAlt_valid alts ih hwa hdis _ 0 _ _ ha]
      simp
  · intro tags e ih hw v x h
    cases h with
    | seqOf ht hl hwr =>
      subst ht
      obtain ⟨_, _, hwe⟩ := (tyWf_seqOf _ e).mp hw
      rw [interp_wrapped_seqOf hwr, interpList_valid e ih hwe _ _ hl]
      rfl
  · intro tags e ih hw v x h
    cases h with
    | setOf ht hl _ heq hwr =>
      subst ht
      have := heq rfl
      subst this
      obtain ⟨_, _, hwe⟩ := (tyWf_setOf _ e).mp hw
      rw [interp_wrapped_setOf hwr, interpList_valid e ih hwe _ _ hl]
      rfl

/-- **the interpreter accepts every valid BER tree** (SET OF children in value order) and returns
    exactly the value.  No canonicity hypothesis: `ValidG` itself only relates canonical values. -/
theorem interp_valid_ordered {t : Ty} {v : Val} {x : Tlv} (hw : TyWf t) (h : ValidBERo t v x) :
    interp t x = some v := interpV_all t hw v x h

/-! ### DER is one of the valid forms -/

def DerValid (t : Ty) : Prop := ∀ p v x, Canon t v → toTlv t v = some x → ValidG p t v x

theorem validSeq_of_toTlvs (p : Bool) (ms : List Ty) (ih : ∀ m ∈ ms, DerValid m) (as : List Attr)
    (vs : List Val) (cs : List Tlv) (hc : canonSeq ms as vs = true) (h : toTlvs ms as vs = some cs) :
    ValidSeqG p ms as vs cs := by
  induction ms generalizing as vs cs with
  | nil =>
    rcases toTlvs_some _ _ _ _ h with ⟨_, rfl, rfl, rfl⟩ | ⟨m, ms', a, as', v, vs', he, _⟩
    · exact .nil
    · cases he
  | cons m ms ihm =>
    rcases toTlvs_some _ _ _ _ h with ⟨he, _⟩ | ⟨m', ms', a, as', v, vs', he, rfl, rfl, hcase⟩
    · cases he
    · injection he with e1 e2
      subst e1 e2
      have ih' : ∀ m ∈ ms, DerValid m := fun b hb => ih b (by simp [hb])
      obtain ⟨hc1, hc2⟩ := (canonSeq_cons _ _ _ _ _ _).mp hc
      rcases hcase with ⟨hv, ho, h'⟩ | ⟨hv, hdef, _⟩ | ⟨hv, hnd, x', xs', h1, h2, rfl⟩
      · have hva := (isAbsent_iff v).mp hv
        subst hva
        exact .absent ho (ihm ih' _ _ _ hc2 h')
      · rw [if_neg (by simp [hv])] at hc1
        rw [hc1.1] at hdef; cases hdef
      · rw [if_neg (by simp [hv])] at hc1
        exact .present hv hnd (ih m (by simp) p v x' hc1.2 h1) (ihm ih' _ _ _ hc2 h2)

theorem validAlt_of_toTlvAlt (p : Bool) (alts : List Ty) (ih : ∀ a ∈ alts, DerValid a) (i : Nat) (v : Val)
    (y : Tlv) (hc : canonAlt alts i v = true) (h : toTlvAlt alts i v = some y) :
    ValidAltG p alts i v y := by
  induction alts generalizing i with
  | nil => rw [toTlvAlt_nil] at h; cases h
  | cons a as iha =>
    cases i with
    | zero =>
      rw [toTlvAlt_zero] at h
      simp only [canonAlt] at hc
      exact .here (ih a (by simp) p v y hc h)
    | succ i =>
      rw [toTlvAlt_succ] at h
      simp only [canonAlt] at hc
      exact .there (iha (fun b hb => ih b (by simp [hb])) i hc h)

theorem validList_of_toTlvList (p : Bool) (e : Ty) (ih : DerValid e) (vs : List Val) (cs : List Tlv)
    (hc : vs.all (fun v => canonB e v) = true) (h : toTlvList e vs = some cs) : ValidListG p e vs cs := by
  induction vs generalizing cs with
  | nil =>
    rcases toTlvList_some _ _ _ h with ⟨_, rfl⟩ | ⟨_, _, _, _, he, _⟩
    · exact .nil
    · cases he
  | cons v vs ihv =>
    rcases toTlvList_some _ _ _ h with ⟨he, _⟩ | ⟨v', vs', x, xs', he, rfl, h1, h2⟩
    · cases he
    · injection he with e1 e2
      subst e1 e2
      simp only [List.all_cons, Bool.and_eq_true] at hc
      exact .cons (ih p v x hc.1 h1) (ihv xs' hc.2 h2)

theorem derValid_all : ∀ t, DerValid t := by
  apply Ty.induct'
  · intro tags pr p v x hc h
    obtain ⟨c, hpc, hx⟩ := (toTlv_prim tags pr v x).mp h
    obtain ⟨outer, inner, rfl, rfl⟩ := (wrapTags_eq_some _ _ _).mp hx
    exact .prim rfl (validPrim_of_primContent pr v c inner (by simpa [Canon, canonB] using hc) hpc)
      (wrapped_wrapAround _ _)
  · intro tags ms attrs ext ih p v x hc h
    obtain ⟨vs, cs, rfl, hcs, hx⟩ := (toTlv_seq tags ms attrs ext v x).mp h
    obtain ⟨outer, inner, rfl, rfl⟩ := (wrapTags_eq_some _ _ _).mp hx
    have hc' : canonSeq ms attrs vs = true := by simpa [Canon, canonB] using hc
    exact .seq rfl (validSeq_of_toTlvs p ms ih attrs vs cs hc' hcs) (wrapped_wrapAround _ _)
  · intro tags ms attrs ext ih p v x hc h
    obtain ⟨vs, cs, rfl, hcs, hx⟩ := (toTlv_set tags ms attrs ext v x).mp h
    obtain ⟨outer, inner, rfl, rfl⟩ := (wrapTags_eq_some _ _ _).mp hx
    have hc' : canonSeq ms attrs vs = true := by simpa [Canon, canonB] using hc
    exact .set rfl (validSeq_of_toTlvs p ms ih attrs vs cs hc' hcs) (perm_sortBy _ cs)
      (wrapped_wrapAround _ _)
  · intro tags alts ext ih p v x hc h
    obtain ⟨i, v', y, rfl, hy, rfl⟩ := (toTlv_choice tags alts ext v x).mp h
    have hc' : canonAlt alts i v' = true := by simpa [Canon, canonB] using hc
    exact .choice (validAlt_of_toTlvAlt p alts ih i v' y hc' hy) (wrapped_wrapAround _ _)
  · intro tags e ih p v x hc h
    obtain ⟨vs, cs, rfl, hcs, hx⟩ := (toTlv_seqOf tags e v x).mp h
    obtain ⟨outer, inner, rfl, rfl⟩ := (wrapTags_eq_some _ _ _).mp hx
    have hc' : vs.all (fun v => canonB e v) = true := by
      simp only [Canon, canonB] at hc; exact hc
    exact .seqOf rfl (validList_of_toTlvList p e ih vs cs hc' hcs) (wrapped_wrapAround _ _)
  · intro tags e ih p v x hc h
    obtain ⟨vs, cs, rfl, hcs, hx⟩ := (toTlv_setOf tags e v x).mp h
    obtain ⟨outer, inner, rfl, rfl⟩ := (wrapTags_eq_some _ _ _).mp hx
    simp only [Canon, canonB, Bool.and_eq_true] at hc
    have hsorted : chainB (fun a b => bytesLe a.enc b.enc) cs = true := by
      have := hc.2
      unfold sortedEnc at this
      rw [hcs] at this
      exact this
    rw [sortBy_of_chain _ cs hsorted]
    exact .setOf rfl (validList_of_toTlvList p e ih vs cs hc.1 hcs) (List.Perm.refl _) (fun _ => rfl)
      (wrapped_wrapAround _ _)

/-- **the DER tree of a canonical value is one of its valid BER trees** -/
theorem valid_of_toTlv {p : Bool} {t : Ty} {v : Val} {x : Tlv} (hc : Canon t v) (h : toTlv t v = some x) :
    ValidG p t v x := derValid_all t p v x hc h

/-! ### SET OF children in any order (freedom (e)) -/

mutual
/-- `SetOfPerm t v v'`: `v'` is `v` with the lists of its SET OF nodes (at any depth) permuted -/
inductive SetOfPerm : Ty → Val → Val → Prop
  | refl {t : Ty} {v : Val} : SetOfPerm t v v
  | seq {tags : List Tag} {ms : List Ty} {attrs : List Attr} {ext : Bool} {vs vs' : List Val} :
      SetOfPermSeq ms vs vs' → SetOfPerm (.seq tags ms attrs ext) (.seq vs) (.seq vs')
  | set {tags : List Tag} {ms : List Ty} {attrs : List Attr} {ext : Bool} {vs vs' : List Val} :
      SetOfPermSeq ms vs vs' → SetOfPerm (.set tags ms attrs ext) (.seq vs) (.seq vs')
  | choice {tags : List Tag} {alts : List Ty} {ext : Bool} {i : Nat} {v v' : Val} :
      SetOfPermAlt alts i v v' → SetOfPerm (.choice tags alts ext) (.choice i v) (.choice i v')
  | seqOf {tags : List Tag} {e : Ty} {vs vs' : List Val} :
      SetOfPermList e vs vs' → SetOfPerm (.seqOf tags e) (.list vs) (.list vs')
  | setOf {tags : List Tag} {e : Ty} {vs vs₁ vs₂ : List Val} :
      SetOfPermList e vs vs₁ → vs₂.Perm vs₁ → SetOfPerm (.setOf tags e) (.list vs) (.list vs₂)
inductive SetOfPermSeq : List Ty → List Val → List Val → Prop
  | nil : SetOfPermSeq [] [] []
  | cons {m : Ty} {ms : List Ty} {v v' : Val} {vs vs' : List Val} :
      SetOfPerm m v v' → SetOfPermSeq ms vs vs' → SetOfPermSeq (m :: ms) (v :: vs) (v' :: vs')
inductive SetOfPermAlt : List Ty → Nat → Val → Val → Prop
  | here {a : Ty} {as : List Ty} {v v' : Val} : SetOfPerm a v v' → SetOfPermAlt (a :: as) 0 v v'
  | there {a : Ty} {as : List Ty} {i : Nat} {v v' : Val} :
      SetOfPermAlt as i v v' → SetOfPermAlt (a :: as) (i + 1) v v'
inductive SetOfPermList : Ty → List Val → List Val → Prop
  | nil {e : Ty} : SetOfPermList e [] []
  | cons {e : Ty} {v v' : Val} {vs vs' : List Val} :
      SetOfPerm e v v' → SetOfPermList e vs vs' → SetOfPermList e (v :: vs) (v' :: vs')
end

theorem setOfPerm_isAbsent {t : Ty} {v v' : Val} (h : SetOfPerm t v v') : isAbsent v' = isAbsent v := by
  cases h <;> rfl

theorem setOfPerm_isDefault {t : Ty} {v v' : Val} (a : Attr) (h : SetOfPerm t v v') :
    isDefault a v' = isDefault a v := by
  cases h <;> simp [isDefault]

def PermToOrd (t : Ty) : Prop := ∀ v x, ValidG true t v x → ∃ v', SetOfPerm t v v' ∧ ValidG false t v' x

theorem validSeq_permToOrd (ms : List Ty) (ih : ∀ m ∈ ms, PermToOrd m) (as : List Attr) (vs : List Val)
    (cs : List Tlv) (h : ValidSeqG true ms as vs cs) :
    ∃ vs', SetOfPermSeq ms vs vs' ∧ ValidSeqG false ms as vs' cs := by
  induction ms generalizing as vs cs with
  | nil => cases h; exact ⟨[], .nil, .nil⟩
  | cons m ms ihm =>
    have ih' : ∀ m ∈ ms, PermToOrd m := fun b hb => ih b (by simp [hb])
    cases h with
    | absent ho h' =>
      obtain ⟨vs', hp, hv⟩ := ihm ih' _ _ _ h'
      exact ⟨.absent :: vs', .cons .refl hp, .absent ho hv⟩
    | present hv hd h1 h2 =>
      obtain ⟨vs', hp, hvs⟩ := ihm ih' _ _ _ h2
      obtain ⟨v', hp1, hv1⟩ := ih m (by simp) _ _ h1
      exact ⟨v' :: vs', .cons hp1 hp,
        .present (by rw [setOfPerm_isAbsent hp1]; exact hv) (by rw [setOfPerm_isDefault _ hp1]; exact hd)
          hv1 hvs⟩

theorem validAlt_permToOrd (alts : List Ty) (ih : ∀ a ∈ alts, PermToOrd a) (i : Nat) (v : Val) (y : Tlv)
    (h : ValidAltG true alts i v y) : ∃ v', SetOfPermAlt alts i v v' ∧ ValidAltG false alts i v' y := by
  induction alts generalizing i with
  | nil => cases h
  | cons a as iha =>
    cases h with
    | here h' =>
      obtain ⟨v', hp, hv⟩ := ih a (by simp) _ _ h'
      exact ⟨v', .here hp, .here hv⟩
    | there h' =>
      obtain ⟨v', hp, hv⟩ := iha (fun b hb => ih b (by simp [hb])) _ h'
      exact ⟨v', .there hp, .there hv⟩

theorem validList_permToOrd (e : Ty) (ih : PermToOrd e) (vs : List Val) (cs : List Tlv)
    (h : ValidListG true e vs cs) : ∃ vs', SetOfPermList e vs vs' ∧ ValidListG false e vs' cs := by
  induction vs generalizing cs with
  | nil => cases h; exact ⟨[], .nil, .nil⟩
  | cons v vs ihv =>
    cases h with
    | cons h1 h2 =>
      obtain ⟨vs', hp, hvs⟩ := ihv _ h2
      obtain ⟨v', hp1, hv1⟩ := ih _ _ h1
      exact ⟨v' :: vs', .cons hp1 hp, .cons hv1 hvs⟩

/-- a valid element list can be re-ordered along a permutation of the children -/
theorem validList_perm {p : Bool} (e : Ty) (cs cs' : List Tlv) (hp : cs.Perm cs') :
    ∀ vs, ValidListG p e vs cs → ∃ vs', vs'.Perm vs ∧ ValidListG p e vs' cs' := by
  induction hp with
  | nil => intro vs h; exact ⟨vs, List.Perm.refl _, h⟩
  | cons c _ ih =>
    intro vs h
    cases h with
    | cons h1 h2 =>
      obtain ⟨vs', hp', hv⟩ := ih _ h2
      exact ⟨_ :: vs', List.Perm.cons _ hp', .cons h1 hv⟩
  | swap a b l =>
    intro vs h
    cases h with
    | cons h1 h2 =>
      cases h2 with
      | cons h3 h4 => exact ⟨_, List.Perm.swap _ _ _, .cons h3 (.cons h1 h4)⟩
  | trans _ _ ih1 ih2 =>
    intro vs h
    obtain ⟨vs₂, hp2, hv2⟩ := ih1 vs h
    obtain ⟨vs₃, hp3, hv3⟩ := ih2 vs₂ hv2
    exact ⟨vs₃, hp3.trans hp2, hv3⟩

theorem permToOrd_all : ∀ t, PermToOrd t := by
  apply Ty.induct'
  · intro tags pr v x h
    cases h with
    | prim ht hp hwr => exact ⟨v, .refl, .prim ht hp hwr⟩
  · intro tags ms attrs ext ih v x h
    cases h with
    | seq ht hs hwr =>
      obtain ⟨vs', hp, hv⟩ := validSeq_permToOrd ms ih attrs _ _ hs
      exact ⟨.seq vs', .seq hp, .seq ht hv hwr⟩
  · intro tags ms attrs ext ih v x h
    cases h with
    | set ht hs hperm hwr =>
      obtain ⟨vs', hp, hv⟩ := validSeq_permToOrd ms ih attrs _ _ hs
      exact ⟨.seq vs', .set hp, .set ht hv hperm hwr⟩
  · intro tags alts ext ih v x h
    cases h with
    | choice ha hwr =>
      obtain ⟨v', hp, hv⟩ := validAlt_permToOrd alts ih _ _ _ ha
      exact ⟨.choice _ v', .choice hp, .choice hv hwr⟩
  · intro tags e ih v x h
    cases h with
    | seqOf ht hl hwr =>
      obtain ⟨vs', hp, hv⟩ := validList_permToOrd e ih _ _ hl
      exact ⟨.list vs', .seqOf hp, .seqOf ht hv hwr⟩
  · intro tags e ih v x h
    cases h with
    | setOf ht hl hperm _ hwr =>
      obtain ⟨vs₁, hp, hv⟩ := validList_permToOrd e ih _ _ hl
      obtain ⟨vs₂, hp2, hv2⟩ := validList_perm e _ _ hperm.symm vs₁ hv
      exact ⟨.list vs₂, .setOf hp hp2, .setOf ht hv2 (List.Perm.refl _) (fun _ => rfl) hwr⟩

/-- a valid tree with SET OF children in any order is a value-ordered valid tree of the value
    with its SET OF lists permuted accordingly -/
theorem valid_perm_to_ordered {t : Ty} {v : Val} {x : Tlv} (h : ValidBER t v x) :
    ∃ v', SetOfPerm t v v' ∧ ValidBERo t v' x := permToOrd_all t v x h

/-- **the interpreter accepts every valid BER tree**; the result is the value up to the order of
    its SET OF lists (which, on the wire, is the order of the children) -/
theorem interp_valid {t : Ty} {v : Val} {x : Tlv} (hw : TyWf t) (h : ValidBER t v x) :
    ∃ v', SetOfPerm t v v' ∧ interp t x = some v' := by
  obtain ⟨v', hp, hv⟩ := valid_perm_to_ordered h
  exact ⟨v', hp, interp_valid_ordered hw hv⟩

/-! ### types without SET OF: the value comes back exactly -/

mutual
def noSetOfB : Ty → Bool
  | .prim _ _ => true
  | .seq _ ms _ _ => noSetOfListB ms
  | .set _ ms _ _ => noSetOfListB ms
  | .choice _ alts _ => noSetOfListB alts
  | .seqOf _ e => noSetOfB e
  | .setOf _ _ => false
def noSetOfListB : List Ty → Bool
  | [] => true
  | m :: ms => noSetOfB m && noSetOfListB ms
end

/-- the type contains no SET OF at any depth -/
def NoSetOf (t : Ty) : Prop := noSetOfB t = true
instance (t : Ty) : Decidable (NoSetOf t) := by unfold NoSetOf; infer_instance

theorem noSetOfList_iff (ms : List Ty) : noSetOfListB ms = true ↔ ∀ m ∈ ms, NoSetOf m := by
  induction ms with
  | nil => simp [noSetOfListB]
  | cons m ms ih => simp [noSetOfListB, ih, NoSetOf]

def PermEq (t : Ty) : Prop := NoSetOf t → ∀ v v', SetOfPerm t v v' → v = v'

theorem setOfPermSeq_eq (ms : List Ty) (ih : ∀ m ∈ ms, PermEq m) (hn : ∀ m ∈ ms, NoSetOf m)
    (vs vs' : List Val) (h : SetOfPermSeq ms vs vs') : vs = vs' := by
  induction ms generalizing vs vs' with
  | nil => cases h; rfl
  | cons m ms ihm =>
    cases h with
    | cons h1 h2 =>
      rw [ih m (by simp) (hn m (by simp)) _ _ h1,
        ihm (fun b hb => ih b (by simp [hb])) (fun b hb => hn b (by simp [hb])) _ _ h2]

theorem setOfPermAlt_eq (alts : List Ty) (ih : ∀ a ∈ alts, PermEq a) (hn : ∀ a ∈ alts, NoSetOf a)
    (i : Nat) (v v' : Val) (h : SetOfPermAlt alts i v v') : v = v' := by
  induction alts generalizing i with
  | nil => cases h
  | cons a as iha =>
    cases h with
    | here h' => exact ih a (by simp) (hn a (by simp)) _ _ h'
    | there h' => exact iha (fun b hb => ih b (by simp [hb])) (fun b hb => hn b (by simp [hb])) _ h'

theorem setOfPermList_eq (e : Ty) (ih : PermEq e) (hn : NoSetOf e) (vs vs' : List Val)
    (h : SetOfPermList e vs vs') : vs = vs' := by
  induction vs generalizing vs' with
  | nil => cases h; rfl
  | cons v vs ihv =>
    cases h with
    | cons h1 h2 => rw [ih hn _ _ h1, ihv _ h2]

theorem permEq_all : ∀ t, PermEq t := by
  apply Ty.induct'
  · intro tags p _ v v' h; cases h; rfl
  · intro tags ms attrs ext ih hn v v' h
    have hn' := (noSetOfList_iff ms).mp (by simpa [NoSetOf, noSetOfB] using hn)
    cases h with
    | refl => rfl
    | seq h' => rw [setOfPermSeq_eq ms ih hn' _ _ h']
  · intro tags ms attrs ext ih hn v v' h
    have hn' := (noSetOfList_iff ms).mp (by simpa [NoSetOf, noSetOfB] using hn)
    cases h with
    | refl => rfl
    | set h' => rw [setOfPermSeq_eq ms ih hn' _ _ h']
  · intro tags alts ext ih hn v v' h
    have hn' := (noSetOfList_iff alts).mp (by simpa [NoSetOf, noSetOfB] using hn)
    cases h with
    | refl => rfl
    | choice h' => rw [setOfPermAlt_eq alts ih hn' _ _ _ h']
  · intro tags e ih hn v v' h
    have hn' : NoSetOf e := by simpa [NoSetOf, noSetOfB] using hn
    cases h with
    | refl => rfl
    | seqOf h' => rw [setOfPermList_eq e ih hn' _ _ h']
  · intro tags e _ hn; simp [NoSetOf, noSetOfB] at hn

theorem setOfPerm_eq {t : Ty} {v v' : Val} (hn : NoSetOf t) (h : SetOfPerm t v v') : v = v' :=
  permEq_all t hn v v' h

/-- for a type without SET OF the interpreter returns exactly the value on every valid tree -/
theorem interp_valid_noSetOf {t : Ty} {v : Val} {x : Tlv} (hw : TyWf t) (hn : NoSetOf t)
    (h : ValidBER t v x) : interp t x = some v := by
  obtain ⟨v', hp, hi⟩ := interp_valid hw h
  rw [setOfPerm_eq hn hp]; exact hi

/-! ### length forms never matter to the interpreter (freedom (a)) -/

mutual
/-- forget how the lengths were written -/
def eraseForm : Tlv → Tlv
  | .prim t _ c => .prim t 0 c
  | .cons t _ cs => .cons t (some 0) (eraseFormList cs)
def eraseFormList : List Tlv → List Tlv
  | [] => []
  | x :: xs => eraseForm x :: eraseFormList xs
end

/-- two trees that differ only in their `form` fields -/
def sameShape (x y : Tlv) : Prop := eraseForm x = eraseForm y

theorem eraseFormList_eq_map (cs : List Tlv) : eraseFormList cs = cs.map eraseForm := by
  induction cs with
  | nil => rfl
  | cons x xs ih => simp [eraseFormList, ih]

theorem Tlv.induct' (P : Tlv → Prop) (prim : ∀ t k c, P (.prim t k c))
    (cons : ∀ t f cs, (∀ c ∈ cs, P c) → P (.cons t f cs)) : ∀ x, P x := by
  intro x
  refine Tlv.rec (motive_1 := P) (motive_2 := fun cs => ∀ c ∈ cs, P c) prim cons ?_ ?_ x
  · intro c hc; cases hc
  · intro h tl ih1 ih2 c hc
    rcases List.mem_cons.mp hc with rfl | hc
    · exact ih1
    · exact ih2 c hc

theorem eraseForm_tag (x : Tlv) : (eraseForm x).tag = x.tag := by
  cases x <;> rfl

theorem stringContent_eraseForm : ∀ x, stringContent (eraseForm x) = stringContent x := by
  apply Tlv.induct'
  · intro t k c; rfl
  · intro t f cs ih
    simp only [eraseForm, stringContent]
    induction cs with
    | nil => rfl
    | cons c cs ihc =>
      simp only [eraseFormList, stringContentList]
      rw [ih c (by simp), ihc (fun d hd => ih d (by simp [hd]))]

theorem bitLeaves_eraseForm : ∀ x, bitLeaves (eraseForm x) = bitLeaves x := by
  apply Tlv.induct'
  · intro t k c; cases c <;> rfl
  · intro t f cs ih
    simp only [eraseForm, bitLeaves]
    induction cs with
    | nil => rfl
    | cons c cs ihc =>
      simp only [eraseFormList, bitLeavesList]
      rw [ih c (by simp), ihc (fun d hd => ih d (by simp [hd]))]

theorem bitLeavesList_eraseForm (cs : List Tlv) : bitLeavesList (eraseFormList cs) = bitLeavesList cs := by
  have := bitLeaves_eraseForm (.cons ⟨0, 0⟩ none cs)
  simpa [eraseForm, bitLeaves] using this

theorem decPrim_eraseForm (p : Prim) (y : Tlv) : decPrim p (eraseForm y) = decPrim p y := by
  cases p with
  | octets =>
    have h1 : ∀ z, decPrim .octets z = some (.octets (stringContent z)) := by
      intro z; cases z <;> simp [decPrim]
    rw [h1, h1, stringContent_eraseForm]
  | bits =>
    cases y with
    | prim t k c => cases c <;> simp [eraseForm, decPrim]
    | cons t f cs =>
      simp only [eraseForm, decPrim, bitSegments, bitLeavesList_eraseForm]
  | boolean =>
    cases y with
    | prim t k c => rcases c with _ | ⟨b, _ | ⟨b', c'⟩⟩ <;> simp [eraseForm, decPrim]
    | cons t f cs => simp [eraseForm, decPrim]
  | null =>
    cases y with
    | prim t k c => cases c <;> simp [eraseForm, decPrim]
    | cons t f cs => simp [eraseForm, decPrim]
  | integer =>
    cases y with
    | prim t k c => cases c <;> simp [eraseForm, decPrim]
    | cons t f cs => simp [eraseForm, decPrim]
  | enumerated =>
    cases y with
    | prim t k c => cases c <;> simp [eraseForm, decPrim]
    | cons t f cs => simp [eraseForm, decPrim]
  | real =>
    cases y with
    | prim t k c => simp [eraseForm, decPrim]
    | cons t f cs => simp [eraseForm, decPrim]

theorem unwrapAround_eraseForm (tags : List Tag) (x : Tlv) :
    unwrapAround tags (eraseForm x) = (unwrapAround tags x).map eraseForm := by
  induction tags generalizing x with
  | nil => simp [unwrapAround]
  | cons t ts ih =>
    cases x with
    | prim t' k c => simp [eraseForm, unwrapAround]
    | cons t' f cs =>
      rcases cs with _ | ⟨c, _ | ⟨c', cs'⟩⟩
      · simp [eraseForm, eraseFormList, unwrapAround]
      · simp only [eraseForm, eraseFormList, unwrapAround]
        split
        · exact ih c
        · rfl
      · simp [eraseForm, eraseFormList, unwrapAround]

theorem unwrapTags_eraseForm (tags : List Tag) (x : Tlv) :
    unwrapTags tags (eraseForm x) = (unwrapTags tags x).map eraseForm := by
  unfold unwrapTags
  split
  · rfl
  · rw [unwrapAround_eraseForm]
    cases unwrapAround _ x with
    | none => rfl
    | some y =>
      simp only [Option.map_some, eraseForm_tag]
      split <;> rfl

def EraseOk (t : Ty) : Prop := ∀ x, interp t (eraseForm x) = interp t x

theorem interpSeq_shape_none (ms : List Ty) (as : List Attr) (ext : Bool) (cs : List Tlv)
    (h : ms.length ≠ as.length) : interpSeq ms as ext cs = none := by
  induction ms generalizing as cs with
  | nil =>
    cases as with
    | nil => exact absurd rfl h
    | cons a as => rw [interpSeq] <;> simp
  | cons m ms ih =>
    cases as with
    | nil => rw [interpSeq] <;> simp
    | cons a as =>
      have h' : ms.length ≠ as.length := by simpa using h
      cases cs with
      | nil => rw [interpSeq_cons_nil, ih as [] h']; simp
      | cons c cs =>
        rw [interpSeq_cons_cons, ih as cs h', ih as (c :: cs) h']
        cases interp m c <;> simp

theorem interpSeq_eraseForm (ext : Bool) (ms : List Ty) (ih : ∀ m ∈ ms, EraseOk m) (as : List Attr)
    (cs : List Tlv) : interpSeq ms as ext (cs.map eraseForm) = interpSeq ms as ext cs := by
  by_cases hl : ms.length = as.length
  · induction ms generalizing as cs with
    | nil =>
      cases as with
      | nil => simp [interpSeq_nil]
      | cons a as => simp at hl
    | cons m ms ihm =>
      cases as with
      | nil => simp at hl
      | cons a as =>
        have hl' : ms.length = as.length := by simpa using hl
        have ih' : ∀ m ∈ ms, EraseOk m := fun b hb => ih b (by simp [hb])
        cases cs with
        | nil => rfl
        | cons c cs =>
          simp only [List.map_cons]
          rw [interpSeq_cons_cons, interpSeq_cons_cons, eraseForm_tag, ih m (by simp) c,
            ihm ih' as cs hl']
          have := ihm ih' as (c :: cs) hl'
          simp only [List.map_cons] at this
          rw [this]
  · rw [interpSeq_shape_none _ _ _ _ hl, interpSeq_shape_none _ _ _ _ hl]

theorem interpSet_shape_none (ms : List Ty) (as : List Attr) (cs : List Tlv)
    (h : ms.length ≠ as.length) : interpSet ms as cs = none := by
  induction ms generalizing as with
  | nil =>
    cases as with
    | nil => exact absurd rfl h
    | cons a as => rw [interpSet] <;> simp
  | cons m ms ih =>
    cases as with
    | nil => rw [interpSet] <;> simp
    | cons a as =>
      have h' : ms.length ≠ as.length := by simpa using h
      rw [interpSet_cons, ih as h']
      cases List.find? _ cs with
      | none => simp
      | some c => cases interp m c <;> simp

theorem interpSet_eraseForm (ms : List Ty) (ih : ∀ m ∈ ms, EraseOk m) (as : List Attr)
    (cs : List Tlv) : interpSet ms as (cs.map eraseForm) = interpSet ms as cs := by
  by_cases hl : ms.length = as.length
  · induction ms generalizing as with
    | nil =>
      cases as with
      | nil => simp [interpSet_nil]
      | cons a as => simp at hl
    | cons m ms ihm =>
      cases as with
      | nil => simp at hl
      | cons a as =>
        have hl' : ms.length = as.length := by simpa using hl
        have ih' : ∀ m ∈ ms, EraseOk m := fun b hb => ih b (by simp [hb])
        rw [interpSet_cons, interpSet_cons, ihm ih' as hl', List.find?_map]
        have hp : ((fun c => (outerTags m).contains c.tag) ∘ eraseForm) =
            (fun c => (outerTags m).contains c.tag) := by
          funext c; simp [eraseForm_tag]
        rw [hp]
        cases List.find? (fun c => (outerTags m).contains c.tag) cs with
        | none => rfl
        | some c => simp only [Option.map_some]; rw [ih m (by simp) c]
  · rw [interpSet_shape_none _ _ _ hl, interpSet_shape_none _ _ _ hl]

theorem interpAlt_eraseForm (alts : List Ty) (ih : ∀ a ∈ alts, EraseOk a) (i : Nat) (x : Tlv) :
    interpAlt alts i (eraseForm x) = interpAlt alts i x := by
  induction alts generalizing i with
  | nil => rw [interpAlt, interpAlt]
  | cons a as iha =>
    rw [interpAlt_cons, interpAlt_cons, eraseForm_tag, ih a (by simp) x,
      iha (fun b hb => ih b (by simp [hb]))]

theorem interpList_eraseForm (e : Ty) (ih : EraseOk e) (cs : List Tlv) :
    interpList e (cs.map eraseForm) = interpList e cs := by
  induction cs with
  | nil => rfl
  | cons c cs ihc => simp only [List.map_cons]; rw [interpList_cons, interpList_cons, ih c, ihc]

theorem eraseOk_all : ∀ t, EraseOk t := by
  apply Ty.induct'
  · intro tags p x
    rw [interp, interp, unwrapTags_eraseForm]
    cases unwrapTags tags x with
    | none => rfl
    | some y => exact decPrim_eraseForm p y
  · intro tags ms attrs ext ih x
    rw [interp, interp, unwrapTags_eraseForm]
    cases unwrapTags tags x with
    | none => rfl
    | some y =>
      cases y with
      | prim t k c => rfl
      | cons t f cs =>
        simp only [Option.map_some, eraseForm, eraseFormList_eq_map]
        rw [interpSeq_eraseForm ext ms ih attrs cs]
  · intro tags ms attrs ext ih x
    rw [interp, interp, unwrapTags_eraseForm]
    cases unwrapTags tags x with
    | none => rfl
    | some y =>
      cases y with
      | prim t k c => rfl
      | cons t f cs =>
        simp only [Option.map_some, eraseForm, eraseFormList_eq_map]
        rw [interpSet_eraseForm ms ih attrs cs]
  · intro tags alts ext ih x
    rw [interp, interp, unwrapAround_eraseForm]
    cases unwrapAround tags x with
    | none => rfl
    | some y => exact interpAlt_eraseForm alts ih 0 y
  · intro tags e ih x
    rw [interp, interp, unwrapTags_eraseForm]
    cases unwrapTags tags x with
    | none => rfl
    | some y =>
      cases y with
      | prim t k c => rfl
      | cons t f cs =>
        simp only [Option.map_some, eraseForm, eraseFormList_eq_map]
        rw [interpList_eraseForm e ih cs]
  · intro tags e ih x
    rw [interp, interp, unwrapTags_eraseForm]
    cases unwrapTags tags x with
    | none => rfl
    | some y =>
      cases y with
      | prim t k c => rfl
      | cons t f cs =>
        simp only [Option.map_some, eraseForm, eraseFormList_eq_map]
        rw [interpList_eraseForm e ih cs]

/-- the interpreter never looks at a length form … -/
theorem interp_eraseForm (t : Ty) (x : Tlv) : interp t (eraseForm x) = interp t x := eraseOk_all t x

/-- … so trees that differ only in length forms are interpreted identically (for **every** type
    and every tree, valid or not; no hypothesis) -/
theorem interp_sameShape (t : Ty) (x y : Tlv) (h : sameShape x y) : interp t x = interp t y := by
  rw [← interp_eraseForm t x, ← interp_eraseForm t y, h]

end Asn1c.Proofs.L2Variants
