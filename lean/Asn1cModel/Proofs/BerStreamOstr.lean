import Asn1cModel.Proofs.BerStreamLaws
/-
  The per-iteration laws of the OCTET STRING / BIT STRING machine (`ostrIt`) for single-tag chains.
-/
namespace Asn1c.Proofs.BerStream
open Asn1c Asn1c.Impl.BerTlv Asn1c.Impl.Restart Asn1c.Impl.BerStream Asn1c.Proofs.L2Tlv

/-! ### the TL reader of phase 1 -/

theorem ostrFetch_ext (l : Int) (p ext : Bytes) (h : ostrFetch l p ≠ .ret .more) :
    ostrFetch l (p ++ ext) = ostrFetch l p := by
  obtain ⟨e, he, _⟩ := win_ext l p ext
  unfold winOf at he
  unfold ostrFetch at h ⊢
  simp only at h ⊢
  rw [he]
  have ht := (fetchTag_ext (p.take (leftOf l p.length)) e).1
  cases hf : fetchTag (p.take (leftOf l p.length)) with
  | fail => rw [hf] at ht; simp only [Fetch.Ext] at ht; rw [ht]
  | more => rw [hf] at h; exact absurd rfl h
  | ok tag tl =>
    rw [hf] at ht h; simp only [Fetch.Ext] at ht; rw [ht]
    simp only at h ⊢
    have htl := fetchTag_le _ _ _ hf
    have hlo := leftOf_le l p.length
    simp only [List.length_take] at htl
    have hne : 1 ≤ p.length := by omega
    rw [headD_append _ _ _ hne, drop_append_le _ _ _ (by simp only [List.length_take]; omega)]
    have hl := (fetchLength_ext (isConstructed (p.headD 0)) ((p.take (leftOf l p.length)).drop tl) e).1
    cases hf2 : fetchLength (isConstructed (p.headD 0)) ((p.take (leftOf l p.length)).drop tl) with
    | fail => rw [hf2] at hl; simp only [Fetch.Ext] at hl; rw [hl]
    | more => rw [hf2] at h; exact absurd rfl h
    | ok len ll =>
      rw [hf2] at hl; simp only [Fetch.Ext] at hl; rw [hl]
      have hll := fetchLength_le _ _ _ _ hf2
      have hll1 := fetchLength_ge _ _ _ _ hf2
      simp only [List.length_take, List.length_drop] at hll
      simp only
      rw [headD_append _ _ _ hne, drop_append_le _ _ _ (by omega),
        headD_append _ _ _ (by simp only [List.length_drop]; omega)]

/-! ### composition of partial copies (phases 2 and 3) -/

theorem isEmpty_append_left {α} (c1 c2 : List α) (h : c1 ≠ []) : (c1 ++ c2).isEmpty = false := by
  cases c1 with
  | nil => exact absurd rfl h
  | cons a t => rfl

theorem isEmpty_false_of_ne {α} (c1 : List α) (h : c1 ≠ []) : c1.isEmpty = false := by
  cases c1 with
  | nil => exact absurd rfl h
  | cons a t => rfl

theorem headD_append_ne {α} (c1 c2 : List α) (d : α) (h : c1 ≠ []) : (c1 ++ c2).headD d = c1.headD d := by
  cases c1 with
  | nil => exact absurd rfl h
  | cons a t => rfl

theorem drop1_append_ne {α} (c1 c2 : List α) (h : c1 ≠ []) : (c1 ++ c2).drop 1 = c1.drop 1 ++ c2 := by
  cases c1 with
  | nil => exact absurd rfl h
  | cons a t => rfl

theorem copy3_append (bits : Bool) (s : OS) (c1 c2 : Bytes) (h1 : c1 ≠ []) :
    (s.copy3 bits c1).copy3 bits c2 = s.copy3 bits (c1 ++ c2) := by
  obtain ⟨⟨ph, st, lf⟩, ap, buf, un, stk⟩ := s
  unfold OS.copy3 OS.copyIn
  simp only [isEmpty_append_left _ _ h1, isEmpty_false_of_ne _ h1, Bool.not_true, Bool.and_false, Bool.false_and,
    Bool.not_false, Bool.and_true, Bool.false_eq_true, if_false, List.length_append, headD_append_ne _ _ _ h1,
    drop1_append_ne _ _ h1]
  by_cases hc : (bits && !ap) = true
  · simp only [hc, if_true, List.append_assoc]
    congr 2
    push_cast; omega
  · simp only [hc, if_false, List.append_assoc, Bool.false_eq_true]
    congr 2
    push_cast; omega

theorem ostrCopy3_append (bits : Bool) (s : OS) (c1 c2 : Bytes) (h1 : c1 ≠ []) :
    ostrCopy3 bits s (c1 ++ c2) = bump c1.length (ostrCopy3 bits (s.copy3 bits c1) c2) := by
  have hl : (s.copy3 bits c1).ctx.left = s.ctx.left - c1.length := rfl
  unfold ostrCopy3
  simp only [hl, List.length_append, isEmpty_append_left _ _ h1, copy3_append bits s c1 c2 h1]
  by_cases hlt : ((c1.length + c2.length : Nat) : Int) < s.ctx.left
  · have hlt2 : (c2.length : Int) < s.ctx.left - c1.length := by push_cast at hlt; omega
    simp only [hlt, hlt2, if_true, Bool.false_eq_true, if_false]
    by_cases hc2 : c2.isEmpty = true
    · have : c2 = [] := List.isEmpty_iff.mp hc2
      subst this
      simp only [List.isEmpty_nil, if_true, bump, List.append_nil, List.length_nil, Nat.add_zero]
    · simp only [hc2, if_false, Bool.false_eq_true, bump]
  · have hlt2 : ¬ (c2.length : Int) < s.ctx.left - c1.length := by push_cast at hlt; omega
    simp only [hlt, hlt2, if_false, bump]


/-- state / frame after phase 2 copied `c` -/
def c2S (bits : Bool) (s : OS) (f : Frame) (c : Bytes) : OS :=
  if c.isEmpty then s else s.copyIn (bits && !f.chopped && !c.isEmpty) c
def c2F (bits : Bool) (f : Frame) (c : Bytes) : Frame := f.copied (bits && !f.chopped && !c.isEmpty) c.length

theorem ostrCopy2_eq (bits : Bool) (s : OS) (f : Frame) (rest : List Frame) (c : Bytes) :
    ostrCopy2 bits s f rest c =
      if (c2F bits f c).left != 0 then .ret { (c2S bits s f c) with stack := c2F bits f c :: rest } .more c.length
      else .cont { (c2S bits s f c) with stack := c2F bits f c :: rest,
                                          ctx := { (c2S bits s f c).ctx with phase := 1 } } c.length := rfl

theorem c2F_append (bits : Bool) (f : Frame) (c1 c2 : Bytes) :
    c2F bits (c2F bits f c1) c2 = c2F bits f (c1 ++ c2) := by
  obtain ⟨lf, got, wn, ch⟩ := f
  unfold c2F Frame.copied
  by_cases h1 : c1 = []
  · subst h1; simp
  · simp only [isEmpty_append_left _ _ h1, isEmpty_false_of_ne _ h1, Bool.not_false, Bool.and_true, List.length_append]
    cases ch <;> cases bits <;> simp <;> (constructor <;> (push_cast; omega))

theorem c2S_append (bits : Bool) (s : OS) (f : Frame) (rest : List Frame) (c1 c2 : Bytes) :
    c2S bits { (c2S bits s f c1) with stack := c2F bits f c1 :: rest } (c2F bits f c1) c2 =
      { (c2S bits s f (c1 ++ c2)) with stack := c2F bits f c1 :: rest } := by
  obtain ⟨⟨ph, st, lf⟩, ap, buf, un, stk⟩ := s
  obtain ⟨flf, got, wn, ch⟩ := f
  by_cases h1 : c1 = []
  · subst h1
    unfold c2S c2F Frame.copied OS.copyIn
    by_cases h2 : c2.isEmpty = true
    · simp [h2]
    · simp [h2]
  · by_cases h2 : c2.isEmpty = true
    · have : c2 = [] := List.isEmpty_iff.mp h2
      subst this
      unfold c2S
      simp [isEmpty_false_of_ne _ h1]
    · unfold c2S c2F Frame.copied OS.copyIn
      simp only [isEmpty_append_left _ _ h1, isEmpty_false_of_ne _ h1, h2, Bool.not_false, Bool.and_true,
        Bool.false_eq_true, if_false, headD_append_ne _ _ _ h1, drop1_append_ne _ _ h1]
      cases ch <;> cases bits <;> simp

theorem ostrCopy2_append (bits : Bool) (s : OS) (f : Frame) (rest : List Frame) (c1 c2 : Bytes) :
    ostrCopy2 bits s f rest (c1 ++ c2) =
      bump c1.length (ostrCopy2 bits { (c2S bits s f c1) with stack := c2F bits f c1 :: rest } (c2F bits f c1) rest c2) := by
  rw [ostrCopy2_eq, ostrCopy2_eq, c2F_append, c2S_append]
  split <;> simp [bump]

/-! ### phases 0 and 1 -/

section Ostr
variable (tags allTags : List Tag) (bits : Bool) (tm : Int) (ex : Nat → Tag → Tag)

theorem ostr_phase0 (s : OS) (p ext : Bytes)
    (hph : s.ctx.phase = 0) : StepRel (ostrIt tags allTags bits tm) s p ext := by
  obtain ⟨⟨ph, st, lf⟩, ap, buf, un, stk⟩ := s
  simp only at hph; subst hph
  rcases checkTags_cases tags st tm (-1) p ext with ⟨hm, hc0, hst⟩ | ⟨hnm, heq⟩
  · apply stepRel_wait
    unfold ostrIt
    simp only [hm, hc0, hst]
    rfl
  · apply stepRel_same
    · intro s' n
      unfold ostrIt
      simp only
      split
      · intro hh; injection hh with _ h2 _; exact hnm h2
      · split <;> (intro hh; cases hh)
    · unfold ostrIt
      simp only [heq]

/-- the TL-reading part of phase 1 -/
def ostrFetchPart (s : OS) (q : Bytes) : Out OS :=
  match ostrFetch s.selLeft q with
  | .ret rc => .ret s rc 0
  | .ok t _ => ostrTlv ex s t

theorem ostrTlv_not_more (s : OS) (t : TL) (s' : OS) (n : Nat) : ostrTlv ex s t ≠ .ret s' .more n := by
  unfold ostrTlv
  simp only
  repeat' split
  all_goals (intro hh; cases hh)

theorem ostrFetchPart_rel (s : OS) (p ext : Bytes) :
    ostrFetchPart ex s p = .ret s .more 0 ∨
    ((∀ s' n, ostrFetchPart ex s p ≠ .ret s' .more n) ∧
      ostrFetchPart ex s (p ++ ext) = ostrFetchPart ex s p) := by
  cases hf : ostrFetch s.selLeft p with
  | ret rc =>
    by_cases hm : rc = .more
    · left; subst hm; unfold ostrFetchPart; simp only [hf]
    · right
      have hx := ostrFetch_ext s.selLeft p ext (by rw [hf]; intro hh; injection hh with hh; exact hm hh)
      constructor
      · intro s' n; unfold ostrFetchPart; simp only [hf]; intro hh; injection hh with _ h2 _; exact hm h2
      · unfold ostrFetchPart; simp only [hx]
  | ok t n =>
    right
    have hx := ostrFetch_ext s.selLeft p ext (by rw [hf]; intro hh; cases hh)
    constructor
    · intro s' k; unfold ostrFetchPart; simp only [hf]; exact ostrTlv_not_more ex s t s' k
    · unfold ostrFetchPart; simp only [hx]

theorem ostr_phase1_shape (s : OS) (hph : s.ctx.phase = 1) :
    (∃ o, (∀ q, ostrIt tags allTags bits tm s q = o) ∧ ∀ s' n, o ≠ .ret s' .more n) ∨
    (∀ q, ostrIt tags allTags bits tm s q = ostrFetchPart (ostrEx tags allTags bits tm) s q) := by
  obtain ⟨⟨ph, st, lf⟩, ap, buf, un, stk⟩ := s
  simp only at hph; subst hph
  match stk with
  | [] => right; intro q; unfold ostrIt ostrFetchPart; rfl
  | [f] =>
    by_cases hc : (decide (f.left ≤ 0) && f.wantNulls == 0) = true
    · left
      refine ⟨ostrIt tags allTags bits tm ⟨⟨1, st, lf⟩, ap, buf, un, [f]⟩ [], fun q => ?_, ?_⟩
      · unfold ostrIt; simp only [hc, if_true]
      · intro s' n; unfold ostrIt; simp only [hc, if_true]; intro hh; cases hh
    · right; intro q; unfold ostrIt ostrFetchPart; simp only [hc, if_false, Bool.false_eq_true]; rfl
  | f :: prev :: rest' =>
    by_cases hc : (decide (f.left ≤ 0) && f.wantNulls == 0) = true
    · left
      refine ⟨ostrIt tags allTags bits tm ⟨⟨1, st, lf⟩, ap, buf, un, f :: prev :: rest'⟩ [], fun q => ?_, ?_⟩
      · unfold ostrIt; simp only [hc, if_true]
      · intro s' n; unfold ostrIt; simp only [hc, if_true]; split <;> (intro hh; cases hh)
    · right; intro q; unfold ostrIt ostrFetchPart; simp only [hc, if_false, Bool.false_eq_true]; rfl

theorem ostr_phase1 (s : OS) (p ext : Bytes) (hph : s.ctx.phase = 1) :
    StepRel (ostrIt tags allTags bits tm) s p ext := by
  rcases ostr_phase1_shape tags allTags bits tm s hph with ⟨o, ho, hnm⟩ | hf
  · apply stepRel_same
    · intro s' n; rw [ho]; exact hnm s' n
    · rw [ho, ho]
  · rcases ostrFetchPart_rel (ostrEx tags allTags bits tm) s p ext with h | ⟨h1, h2⟩
    · apply stepRel_wait; rw [hf, h]
    · apply stepRel_same
      · intro s' n; rw [hf]; exact h1 s' n
      · rw [hf, hf, h2]

theorem take_min_lt (p ext : Bytes) (L : Nat) (h : p.length < L) :
    (p ++ ext).take (min (p ++ ext).length L) = p ++ ext.take (min ext.length (L - p.length)) := by
  rw [List.take_append, List.take_of_length_le (by simp only [List.length_append]; omega)]
  congr 1
  simp only [List.length_append]
  congr 1
  omega

theorem take_min_ge (p ext : Bytes) (L : Nat) (h : L ≤ p.length) :
    (p ++ ext).take (min (p ++ ext).length L) = p.take (min p.length L) := by
  simp only [List.length_append]
  rw [Nat.min_eq_right (by omega), Nat.min_eq_right h, take_append_ge _ _ _ h]

theorem ostr_phase2 (s : OS) (p ext : Bytes) (hph : s.ctx.phase = 2) :
    StepRel (ostrIt tags allTags bits tm) s p ext := by
  obtain ⟨⟨ph, st, lf⟩, ap, buf, un, stk⟩ := s
  simp only at hph; subst hph
  match stk with
  | [] =>
    apply stepRel_same
    · intro s' n; unfold ostrIt; simp only; intro hh; cases hh
    · unfold ostrIt; simp only
  | f :: rest =>
    by_cases hneg : f.left < 0
    · apply stepRel_same
      · intro s' n; unfold ostrIt; simp only [hneg, if_true]; intro hh; cases hh
      · unfold ostrIt; simp only [hneg, if_true]
    · have e : ∀ q, ostrIt tags allTags bits tm ⟨⟨2, st, lf⟩, ap, buf, un, f :: rest⟩ q =
          ostrCopy2 bits ⟨⟨2, st, lf⟩, ap, buf, un, f :: rest⟩ f rest (q.take (min q.length f.left.toNat)) := by
        intro q; unfold ostrIt; simp only [hneg, if_false]
      by_cases hge : f.left.toNat ≤ p.length
      · -- everything of this segment is there: the same octets are copied
        have hch : (p ++ ext).take (min (p ++ ext).length f.left.toNat) = p.take (min p.length f.left.toNat) :=
          take_min_ge p ext _ hge
        apply stepRel_same
        · intro s' n; rw [e, ostrCopy2_eq]
          have hlen : (p.take (min p.length f.left.toNat)).length = f.left.toNat := by
            rw [List.length_take]; omega
          have : (c2F bits f (p.take (min p.length f.left.toNat))).left = 0 := by
            unfold c2F Frame.copied
            simp only [hlen]
            omega
          simp only [this, bne_self_eq_false, Bool.false_eq_true, if_false]
          intro hh; cases hh
        · rw [e, e, hch]
      · -- partial copy
        have hlt : p.length < f.left.toNat := by omega
        have hp : p.take (min p.length f.left.toNat) = p := List.take_of_length_le (by omega)
        have hf2 : (c2F bits f p).left = f.left - p.length := rfl
        have hne0 : ((c2F bits f p).left != 0) = true := by
          rw [hf2]; simp only [bne_iff_ne, ne_eq]; omega
        unfold StepRel
        rw [e, hp, ostrCopy2_eq]
        simp only [hne0, if_true]
        left
        rw [e, take_min_lt p ext _ hlt, ostrCopy2_append]
        congr 1
        rw [List.drop_of_length_le (Nat.le_refl _), List.nil_append]
        have hph2 : ({ (c2S bits ⟨⟨2, st, lf⟩, ap, buf, un, f :: rest⟩ f p) with stack := c2F bits f p :: rest } : OS).ctx.phase = 2 := by
          unfold c2S; split <;> rfl
        generalize hs' : ({ (c2S bits ⟨⟨2, st, lf⟩, ap, buf, un, f :: rest⟩ f p) with stack := c2F bits f p :: rest } : OS) = s' at *
        have hstk : s'.stack = c2F bits f p :: rest := by rw [← hs']
        obtain ⟨⟨ph', st', lf'⟩, ap', buf', un', stk'⟩ := s'
        simp only at hph2 hstk; subst hph2; subst hstk
        unfold ostrIt
        have hneg' : ¬ (c2F bits f p).left < 0 := by rw [hf2]; omega
        simp only [hneg', if_false]
        congr 2
        rw [hf2]
        omega

theorem ostr_phase3 (s : OS) (p ext : Bytes) (hph : s.ctx.phase = 3) :
    StepRel (ostrIt tags allTags bits tm) s p ext := by
  obtain ⟨⟨ph, st, lf⟩, ap, buf, un, stk⟩ := s
  simp only at hph; subst hph
  by_cases hneg : lf < 0
  · apply stepRel_same
    · intro s' n; unfold ostrIt; simp only [hneg, if_true]; intro hh; cases hh
    · unfold ostrIt; simp only [hneg, if_true]
  · have e : ∀ q, ostrIt tags allTags bits tm ⟨⟨3, st, lf⟩, ap, buf, un, stk⟩ q =
        ostrCopy3 bits ⟨⟨3, st, lf⟩, ap, buf, un, stk⟩ (q.take (min q.length lf.toNat)) := by
      intro q; unfold ostrIt; simp only [hneg, if_false]
    by_cases hge : lf.toNat ≤ p.length
    · have hch : (p ++ ext).take (min (p ++ ext).length lf.toNat) = p.take (min p.length lf.toNat) :=
        take_min_ge p ext _ hge
      apply stepRel_same
      · intro s' n; rw [e]; unfold ostrCopy3
        have hlen : (p.take (min p.length lf.toNat)).length = lf.toNat := by
          rw [List.length_take]; omega
        have : ¬ (((p.take (min p.length lf.toNat)).length : Int) < lf) := by
          rw [hlen]; omega
        simp only [this, if_false]
        intro hh; cases hh
      · rw [e, e, hch]
    · have hlt : p.length < lf.toNat := by omega
      have hp : p.take (min p.length lf.toNat) = p := List.take_of_length_le (by omega)
      by_cases hemp : p = []
      · subst hemp
        apply stepRel_wait
        rw [e]
        unfold ostrCopy3
        have hl0 : ((0 : Nat) : Int) < lf := by simp only [List.length_nil] at hlt; omega
        simp only [List.take_nil, List.length_nil, hl0, if_true, List.isEmpty_nil]
      · have hlt' : ((p.length : Nat) : Int) < lf := by omega
        unfold StepRel
        rw [e, hp]
        have e1 : ostrCopy3 bits ⟨⟨3, st, lf⟩, ap, buf, un, stk⟩ p =
            .ret (OS.copy3 bits ⟨⟨3, st, lf⟩, ap, buf, un, stk⟩ p) .more p.length := by
          unfold ostrCopy3
          simp only [hlt', if_true, isEmpty_false_of_ne _ hemp, Bool.false_eq_true, if_false]
        rw [e1]
        simp only
        left
        rw [e, take_min_lt p ext _ hlt, ostrCopy3_append _ _ _ _ hemp]
        congr 1
        rw [List.drop_of_length_le (Nat.le_refl _), List.nil_append]
        have hph3 : (OS.copy3 bits ⟨⟨3, st, lf⟩, ap, buf, un, stk⟩ p).ctx.phase = 3 := rfl
        have hlf3 : (OS.copy3 bits ⟨⟨3, st, lf⟩, ap, buf, un, stk⟩ p).ctx.left = lf - p.length := rfl
        generalize (OS.copy3 bits ⟨⟨3, st, lf⟩, ap, buf, un, stk⟩ p) = s' at *
        obtain ⟨⟨ph', st', lf'⟩, ap', buf', un', stk'⟩ := s'
        simp only at hph3 hlf3; subst hph3; subst hlf3
        unfold ostrIt
        have hneg' : ¬ (lf - (p.length : Int)) < 0 := by omega
        simp only [hneg', if_false]
        congr 2
        omega

theorem ostr_rel (s : OS) (p ext : Bytes) :
    StepRel (ostrIt tags allTags bits tm) s p ext := by
  by_cases h0 : s.ctx.phase = 0
  · exact ostr_phase0 tags allTags bits tm s p ext h0
  by_cases h1 : s.ctx.phase = 1
  · exact ostr_phase1 tags allTags bits tm s p ext h1
  by_cases h2 : s.ctx.phase = 2
  · exact ostr_phase2 tags allTags bits tm s p ext h2
  by_cases h3 : s.ctx.phase = 3
  · exact ostr_phase3 tags allTags bits tm s p ext h3
  · have e : ∀ q, ostrIt tags allTags bits tm s q = ostrFinish bits s := by
      intro q; unfold ostrIt; split <;> first | contradiction | rfl
    apply stepRel_same
    · intro s' n; rw [e]; unfold ostrFinish; repeat' split
      all_goals (intro hh; cases hh)
    · rw [e, e]

def ostrRank (ph : Nat) : Nat := match ph with | 0 => 5 | 1 => 2 | 2 => 3 | 3 => 1 | _ => 0

/-- the fuel measure of the OCTET STRING machine (`ostrMeasure` − 1) -/
def ostrMu (s : OS) (bs : Bytes) : Nat := 8 * bs.length + 2 * s.stack.length + ostrRank s.ctx.phase

theorem ostrLoopEnd_shape (s : OS) (c : Bool) (hph : s.ctx.phase = 1) :
    (ostrLoopEnd s c).stack = s.stack ∧ ostrRank (ostrLoopEnd s c).ctx.phase ≤ 3 := by
  unfold ostrLoopEnd
  split
  · exact ⟨rfl, by rw [hph]; decide⟩
  · split
    · exact ⟨rfl, by simp only [hph]; decide⟩
    · exact ⟨rfl, by simp only [hph]; decide⟩

theorem ostrTlv_cont (s : OS) (t : TL) (s' : OS) (n : Nat) (hph : s.ctx.phase = 1)
    (h : ostrTlv ex s t = .cont s' n) :
    s'.stack.length ≤ s.stack.length + 1 ∧ ostrRank s'.ctx.phase ≤ 3 ∧ (n = 2 ∨ n = t.tl + t.ll) := by
  unfold ostrTlv at h
  simp only at h
  repeat' split at h
  all_goals first
    | (cases h; done)
    | (injection h with h1 h2; subst h1; subst h2
       refine ⟨?_, ?_, ?_⟩
       · rw [(ostrLoopEnd_shape _ _ (by exact hph)).1]; simp_all
       · exact (ostrLoopEnd_shape _ _ (by exact hph)).2
       · first | exact Or.inl rfl | exact Or.inr rfl)

theorem ostrFetchPart_cont (s : OS) (p : Bytes) (s' : OS) (n : Nat) (hph : s.ctx.phase = 1)
    (h : ostrFetchPart ex s p = .cont s' n) :
    2 ≤ n ∧ n ≤ p.length ∧ s'.stack.length ≤ s.stack.length + 1 ∧ ostrRank s'.ctx.phase ≤ 3 := by
  unfold ostrFetchPart at h
  split at h
  · cases h
  · rename_i t k hfe
    have hfl := ostrFetch_le _ _ _ _ hfe
    obtain ⟨a1, a2, a3⟩ := ostrTlv_cont ex s t s' n hph h
    refine ⟨?_, ?_, a1, a2⟩
    · rcases a3 with a3 | a3 <;> omega
    · rcases a3 with a3 | a3 <;> omega

theorem ostr_p1_cont (s : OS) (p : Bytes) (s' : OS) (n : Nat) (hph : s.ctx.phase = 1)
    (h : ostrIt tags allTags bits tm s p = .cont s' n) :
    (n = 0 ∧ 2 * s'.stack.length + ostrRank s'.ctx.phase < 2 * s.stack.length + 2) ∨
    (2 ≤ n ∧ n ≤ p.length ∧ s'.stack.length ≤ s.stack.length + 1 ∧ ostrRank s'.ctx.phase ≤ 3) := by
  by_cases hf : ostrIt tags allTags bits tm s p = ostrFetchPart (ostrEx tags allTags bits tm) s p
  · right; rw [hf] at h; exact ostrFetchPart_cont (ostrEx tags allTags bits tm) s p s' n hph h
  · left
    obtain ⟨⟨ph, st, lf⟩, ap, buf, un, stk⟩ := s
    simp only at hph; subst hph
    match stk with
    | [] => exfalso; apply hf; unfold ostrIt ostrFetchPart; rfl
    | [f] =>
      by_cases hc : (decide (f.left ≤ 0) && f.wantNulls == 0) = true
      · unfold ostrIt at h
        simp only [hc, if_true] at h
        injection h with h1 h2; subst h1; subst h2
        refine ⟨rfl, ?_⟩
        unfold ostrLoopEnd
        simp only [Bool.false_eq_true, if_false, List.isEmpty_nil, if_true, List.length_nil, List.length_cons]
        decide
      · exfalso; apply hf; unfold ostrIt ostrFetchPart; simp only [hc, if_false, Bool.false_eq_true]; rfl
    | f :: prev :: rest' =>
      by_cases hc : (decide (f.left ≤ 0) && f.wantNulls == 0) = true
      · unfold ostrIt at h
        simp only [hc, if_true] at h
        split at h
        · cases h
        · injection h with h1 h2; subst h1; subst h2
          refine ⟨rfl, ?_⟩
          simp only [List.length_cons]
          have r1 : ostrRank 1 = 2 := rfl
          rw [r1]; omega
      · exfalso; apply hf; unfold ostrIt ostrFetchPart; simp only [hc, if_false, Bool.false_eq_true]; rfl

theorem ostr_decr (s : OS) (p : Bytes) (s' : OS) (n : Nat) (h : ostrIt tags allTags bits tm s p = .cont s' n) :
    ostrMu s' (p.drop n) < ostrMu s p := by
  have hn : n ≤ p.length := by
    have := ostrIt_bound tags allTags bits tm s p
    rw [h] at this; exact this
  unfold ostrMu
  simp only [List.length_drop]
  by_cases h0 : s.ctx.phase = 0
  · unfold ostrIt at h
    simp only [h0] at h
    split at h
    · cases h
    · split at h
      · injection h with h1 _; subst h1
        simp only [h0, List.length_nil, ostrRank]; omega
      · injection h with h1 _; subst h1
        simp only [h0, ostrRank]; omega
  by_cases h1 : s.ctx.phase = 1
  · have := ostr_p1_cont tags allTags bits tm s p s' n h1 h
    have r1 : ostrRank 1 = 2 := rfl
    rw [h1, r1]
    rcases this with ⟨e0, e1⟩ | ⟨e0, e1, e2, e3⟩
    · subst e0; simp only [Nat.sub_zero]; omega
    · omega
  by_cases h2 : s.ctx.phase = 2
  · unfold ostrIt at h
    simp only [h2] at h
    split at h
    · cases h
    · rename_i f rest hstk
      split at h
      · cases h
      · rw [ostrCopy2_eq] at h
        split at h
        · cases h
        · injection h with h1 _; subst h1
          simp only [hstk, h2, List.length_cons, ostrRank]; omega
  by_cases h3 : s.ctx.phase = 3
  · unfold ostrIt at h
    simp only [h3] at h
    split at h
    · cases h
    · unfold ostrCopy3 at h
      split at h
      · split at h <;> cases h
      · injection h with h1 _; subst h1
        simp only [h3, ostrRank]
        have : (OS.copy3 bits s (p.take (min p.length s.ctx.left.toNat))).stack = s.stack := rfl
        rw [this]; omega
  · have e : ostrIt tags allTags bits tm s p = ostrFinish bits s := by
      unfold ostrIt; split <;> first | contradiction | rfl
    rw [e] at h
    unfold ostrFinish at h
    repeat' split at h
    all_goals cases h

theorem ostr_itLaws :
    ItLaws (ostrIt tags allTags bits tm) ostrMu :=
  itLaws_mk _ _ (ostrIt_bound tags allTags bits tm) (ostr_decr tags allTags bits tm) (ostr_rel tags allTags bits tm)

/-- OCTET STRING / BIT STRING (primitive or constructed encoding, any nesting) with a single-tag chain is a
    lawful restartable decoder -/
theorem ostrDec_lawfulRc :
    LawfulRc (⟨ostrDec tags allTags bits tm⟩ : Dec Node) := by
  have h := lawfulRc_wrap _ (lawfulRc_of_itLaws _ _ (ostr_itLaws tags allTags bits tm))
    OS.ofNode OS.toNode (fun _ => rfl)
  have e : (⟨ostrDec tags allTags bits tm⟩ : Dec Node) =
      ⟨fun n p => (OS.toNode ((itDec (ostrIt tags allTags bits tm) ostrMu).step (OS.ofNode n) p).1,
        ((itDec (ostrIt tags allTags bits tm) ostrMu).step (OS.ofNode n) p).2)⟩ := by
    rfl
  rw [e]; exact h

end Ostr

end Asn1c.Proofs.BerStream
