import Asn1cModel.Proofs.Fixer
/- Helper lemmas for C11: identifiers, enumerations, references, assembling the verdict. -/
namespace Asn1c.Proofs.Fixer
open Asn1c.Fix Asn1c.Impl.Fixer Asn1c.Spec.Fix

/-! ### `asn1f_check_unique_expr` -/

theorem dupNames_iff : ∀ (l prev : List String),
    dupNames prev l = false ↔ (∀ x ∈ l, x ∉ prev) ∧ l.Nodup := by
  intro l
  induction l with
  | nil => intro prev; simp [dupNames]
  | cons n rest ih =>
    intro prev
    unfold dupNames
    rw [Bool.or_eq_false_iff, ih, List.nodup_cons]
    constructor
    · rintro ⟨h1, h2, h3⟩
      have h1' : n ∉ prev := by
        intro hm; rw [List.contains_iff_mem.2 hm] at h1; cases h1
      refine ⟨?_, ?_, h3⟩
      · intro x hx
        rcases List.mem_cons.1 hx with rfl | hx'
        · exact h1'
        · intro hp; exact h2 x hx' (List.mem_append.2 (Or.inl hp))
      · intro hm; exact h2 n hm (List.mem_append.2 (Or.inr (List.mem_singleton.2 rfl)))
    · rintro ⟨h1, h3, h4⟩
      refine ⟨?_, ?_, h4⟩
      · cases hc : prev.contains n with
        | false => rfl
        | true => exact absurd (List.contains_iff_mem.1 hc) (h1 n List.mem_cons_self)
      · intro x hx hm
        rcases List.mem_append.1 hm with hp | hs
        · exact h1 x (List.mem_cons_of_mem _ hx) hp
        · have e : x = n := List.mem_singleton.1 hs
          subst e; exact h3 hx

theorem dupNames_nil_iff (l : List String) : dupNames [] l = false ↔ l.Nodup := by
  rw [dupNames_iff]; simp

/-! ### `asn1f_fix_enum` -/

def itemNames (items : List EnumItem) : List String := items.map EnumItem.name

/-- what the item loop demands of the items it walks over, relative to the state it starts in -/
def LoopOk (after : Bool) (st : EnumSt) (names : List String) (vs : List Nat) : Prop :=
  (∀ v ∈ vs, v ∉ st.used) ∧ vs.Nodup ∧ (∀ n ∈ names, n ∉ st.names) ∧ names.Nodup ∧
  (after = true → (∀ v ∈ vs, st.nextExt ≤ v) ∧ vs.Pairwise (· < ·))

theorem enumLoop_spec (after : Bool) : ∀ (items : List EnumItem) (st st' : EnumSt) (vs : List Nat) (f : Bool),
    enumLoop after st items = (st', vs, f) →
    (f = false ↔ LoopOk after st (itemNames items) vs) ∧
    (∀ x, x ∈ st'.used ↔ x ∈ st.used ∨ x ∈ vs) ∧
    st'.names = st.names ++ itemNames items ∧
    (after = false → st'.nextExt = st.nextExt) ∧
    vs.length = items.length := by
  intro items
  induction items with
  | nil =>
    intro st st' vs f h
    simp [enumLoop] at h
    obtain ⟨rfl, rfl, rfl⟩ := h
    simp [LoopOk, itemNames]
  | cons it rest ih =>
    intro st st' vs f h
    unfold enumLoop at h
    -- name the pieces of the step
    generalize hstep : enumStep after st it = stp at h
    obtain ⟨st1, v, f0⟩ := stp
    simp only at h
    generalize hrest : enumLoop after st1 rest = rst at h
    obtain ⟨st2, vs', fr⟩ := rst
    simp only [Prod.mk.injEq] at h
    obtain ⟨rfl, rfl, rfl⟩ := h
    obtain ⟨ih1, ih2, ih3, ih4, ih5⟩ := ih st1 st2 vs' fr hrest
    -- unfold the step
    unfold enumStep at hstep
    simp only [Prod.mk.injEq] at hstep
    obtain ⟨hst1, hv, hf0⟩ := hstep
    -- facts about st1
    have hnames1 : st1.names = st.names ++ [it.name] := by rw [← hst1]
    have hused1 : ∀ x, x ∈ st1.used ↔ x ∈ st.used ∨ x = v := by
      intro x
      rw [← hst1]; simp only
      rw [hv]
      by_cases hc : st.used.contains v = true
      · rw [if_pos hc]
        have := List.contains_iff_mem.1 hc
        constructor
        · exact Or.inl
        · rintro (h | rfl); exact h; exact this
      · rw [if_neg hc]; simp [List.mem_append]
    have hext1 : st1.nextExt = if (after && decide (st.nextExt ≤ v)) = true then v + 1 else st.nextExt := by
      rw [← hst1]; simp only; rw [hv]
    refine ⟨?_, ?_, ?_, ?_, ?_⟩
    · -- the verdict
      rw [Bool.or_eq_false_iff, ih1]
      unfold LoopOk
      simp only [itemNames, List.map_cons, List.nodup_cons, List.mem_cons, forall_eq_or_imp,
        List.pairwise_cons]
      rw [← hf0, hv]
      simp only [Bool.or_eq_false_iff, Bool.and_eq_false_iff, decide_eq_false_iff_not, Nat.not_lt]
      have hcu : st.used.contains v = false ↔ v ∉ st.used := by
        constructor
        · intro h hm; rw [List.contains_iff_mem.2 hm] at h; cases h
        · intro h; cases hc : st.used.contains v with
          | false => rfl
          | true => exact absurd (List.contains_iff_mem.1 hc) h
      have hcn : st.names.contains it.name = false ↔ it.name ∉ st.names := by
        constructor
        · intro h hm; rw [List.contains_iff_mem.2 hm] at h; cases h
        · intro h; cases hc : st.names.contains it.name with
          | false => rfl
          | true => exact absurd (List.contains_iff_mem.1 hc) h
      rw [hcu, hcn]
      constructor
      · rintro ⟨⟨⟨hA, hB⟩, hC⟩, hD, hE, hF, hG, hH⟩
        refine ⟨⟨hB, fun x hx => ?_⟩, ⟨fun hm => ?_, hE⟩, ⟨hC, fun n hn => ?_⟩, ⟨fun hm => ?_, hG⟩, ?_⟩
        · intro hm; exact hD x hx ((hused1 x).2 (Or.inl hm))
        · exact hD v hm ((hused1 v).2 (Or.inr rfl))
        · intro hm; exact hF n hn (by rw [hnames1]; exact List.mem_append.2 (Or.inl hm))
        · exact hF it.name hm (by rw [hnames1]; simp)
        · intro ha
          have hle : st.nextExt ≤ v := by
            rcases hA with h | h
            · rw [ha] at h; cases h
            · exact h
          obtain ⟨hH1, hH2⟩ := hH ha
          rw [hext1] at hH1
          simp only [ha, Bool.true_and, decide_eq_true_eq, hle, if_true] at hH1
          refine ⟨⟨hle, fun x hx => ?_⟩, ⟨fun x hx => ?_, hH2⟩⟩
          · have := hH1 x hx; omega
          · have := hH1 x hx; omega
      · rintro ⟨⟨hB, hD⟩, ⟨hv', hE⟩, ⟨hC, hF⟩, ⟨hn', hG⟩, hH⟩
        refine ⟨⟨⟨?_, hB⟩, hC⟩, fun x hx => ?_, hE, fun n hn => ?_, hG, ?_⟩
        · cases after with
          | false => exact Or.inl rfl
          | true => exact Or.inr (hH rfl).1.1
        · intro hm
          rcases (hused1 x).1 hm with h | rfl
          · exact hD x hx h
          · exact hv' hx
        · intro hm
          rw [hnames1] at hm
          rcases List.mem_append.1 hm with h | h
          · exact hF n hn h
          · have e : n = it.name := List.mem_singleton.1 h
            subst e; exact hn' hn
        · intro ha
          obtain ⟨⟨hle, hH1⟩, ⟨hlt, hH2⟩⟩ := hH ha
          refine ⟨fun x hx => ?_, hH2⟩
          rw [hext1]
          simp only [ha, Bool.true_and, decide_eq_true_eq, hle, if_true]
          have := hlt x hx; omega
    · intro x
      rw [ih2, hused1]; simp only [List.mem_cons]
      constructor
      · rintro ((h | h) | h)
        · exact Or.inl h
        · exact Or.inr (Or.inl h)
        · exact Or.inr (Or.inr h)
      · rintro (h | h | h)
        · exact Or.inl (Or.inl h)
        · exact Or.inl (Or.inr h)
        · exact Or.inr h
    · rw [ih3, hnames1]; simp [itemNames]
    · intro ha
      rw [ih4 ha, hext1]; simp [ha]
    · simp [ih5]

theorem rootVals_length (ev : List Nat) : ∀ (items : List EnumItem) (cur : Nat),
    (rootVals ev cur items).length = items.length := by
  intro items
  induction items with
  | nil => intro cur; rfl
  | cons it rest ih =>
    intro cur
    unfold rootVals
    cases it.val <;> simp [ih]

/-- **`asn1f_fix_enum`**: with the values the code assigns, it raises FATAL iff a name repeats, a
    value repeats, or the additions are not strictly increasing -/
theorem fixEnum_spec (r a : List EnumItem) :
    (fixEnum r a).2 = false ↔
      (itemNames (r ++ a)).Nodup ∧ (fixEnum r a).1.Nodup ∧
      ((fixEnum r a).1.drop r.length).Pairwise (· < ·) := by
  unfold fixEnum
  generalize h1 : enumLoop false ⟨0, 0, [], []⟩ r = l1
  obtain ⟨st1, vs1, f1⟩ := l1
  simp only
  generalize h2 : enumLoop true st1 a = l2
  obtain ⟨st2, vs2, f2⟩ := l2
  simp only
  obtain ⟨a1, a2, a3, a4, a5⟩ := enumLoop_spec false r _ _ _ _ h1
  obtain ⟨b1, _, _, _, _⟩ := enumLoop_spec true a _ _ _ _ h2
  have hext : st1.nextExt = 0 := a4 rfl
  rw [Bool.or_eq_false_iff, a1, b1]
  unfold LoopOk
  have hdrop : (vs1 ++ vs2).drop r.length = vs2 := by
    rw [← a5]; simp
  rw [hdrop]
  simp only [itemNames, List.map_append, List.nodup_append, a3, List.nil_append, hext, Nat.zero_le,
    implies_true, true_and, forall_const, List.not_mem_nil, not_false_eq_true, Bool.false_eq_true,
    false_implies, and_true]
  constructor
  · rintro ⟨⟨hA, hB⟩, hC, hD, hE, hF, hG⟩
    refine ⟨⟨hB, hF, fun x hx y hy e => hE y hy (e ▸ hx)⟩, ⟨hA, hD, fun x hx y hy e => ?_⟩, hG⟩
    exact hC y hy ((a2 y).2 (Or.inr (e ▸ hx)))
  · rintro ⟨⟨hB, hF, hE⟩, ⟨hA, hD, hC⟩, hG⟩
    refine ⟨⟨hA, hB⟩, fun v hv hm => ?_, hD, fun n hn hm => hE n hm n hn rfl, hF, hG⟩
    rcases (a2 v).1 hm with h | h
    · cases h
    · exact hC v h v hv rfl

/-- the code's numbering of an ENUMERATED coincides with X.680 §20.3/20.6 (the region outside
    is the F15 family of findings) -/
def EnumAgrees : Ty → Prop
  | .enum _ r _ a => (fixEnum r a).1 = enumVals r a
  | _ => True

instance (t : Ty) : Decidable (EnumAgrees t) := by
  cases t <;> unfold EnumAgrees <;> infer_instance

theorem fixEnum_enumOk {r a : List EnumItem} (hag : (fixEnum r a).1 = enumVals r a) :
    (fixEnum r a).2 = false ↔ enumOk r a := by
  rw [fixEnum_spec, hag]
  unfold enumOk enumVals
  have hl : (enumRootVals r).length = r.length := rootVals_length _ _ _
  have hdrop : (enumRootVals r ++ enumAddVals r a).drop r.length = enumAddVals r a := by
    rw [← hl]; simp
  rw [hdrop]
  simp [itemNames]

/-! ### references -/

theorem Ty.self_mem_nodes (t : Ty) : t ∈ t.nodes := by
  cases t <;> simp [Ty.nodes]

theorem lookupIn_mem : ∀ (ts : List TypeAssign) (n : String) (t : Ty),
    lookupIn ts n = some t → t ∈ nodesOf ts := by
  intro ts
  induction ts with
  | nil => intro n t h; simp [lookupIn] at h
  | cons a rest ih =>
    intro n t h
    unfold lookupIn at h
    unfold nodesOf
    split at h
    · simp at h; subst h; exact List.mem_append.2 (Or.inl (Ty.self_mem_nodes _))
    · exact List.mem_append.2 (Or.inr (ih n t h))

theorem lookup_mem_nodes {M : Module} {n : String} {t : Ty} (h : M.lookup n = some t) :
    t ∈ M.nodes := lookupIn_mem _ _ _ h

theorem findTerminal_missing (M : Module) : ∀ (f : Nat) (t : Ty),
    findTerminal M f t = .missing → t ∈ M.nodes →
    ∃ g n, Ty.ref g n ∈ M.nodes ∧ M.lookup n = none := by
  intro f
  induction f with
  | zero => intro t h _; cases t <;> simp [findTerminal] at h
  | succ f ih =>
    intro t h hm
    cases t with
    | ref g n =>
      unfold findTerminal at h
      cases hl : M.lookup n with
      | none => exact ⟨g, n, hm, hl⟩
      | some t' => rw [hl] at h; simp at h; exact ih t' h (lookup_mem_nodes hl)
    | _ => simp [findTerminal] at h

theorem derefFatal_false_defined {M : Module} {g : Option Tag} {n : String}
    (h : derefFatal M (.ref g n) = some false) : (M.lookup n).isSome = true := by
  unfold derefFatal at h
  have hf : fuel M = (4 * M.size + 7) + 1 := by unfold fuel; omega
  rw [hf] at h
  unfold findTerminal at h
  cases hl : M.lookup n with
  | none => rw [hl] at h; simp at h
  | some t' => rfl

/-! ### `_asn1f_check_if_tag_must_be_explicit` -/

theorem isUC_tag_none {M : Module} {t : Ty} (h : IsUntaggedChoice M t) : directTag t = none := by
  cases h <;> simp [directTag, Ty.tag, uclass]

theorem fetch_tag_not_isUC (M : Module) : ∀ (f : Nat) (t : Ty) (g : OTag),
    fetchOutmost M f (.ty t) = .tag g → ¬ IsUntaggedChoice M t := by
  intro f
  induction f with
  | zero =>
    intro t g h huc
    unfold fetchOutmost at h
    rw [isUC_tag_none huc] at h
    cases huc <;> simp at h
  | succ f ih =>
    intro t g h huc
    unfold fetchOutmost at h
    rw [isUC_tag_none huc] at h
    cases huc with
    | choice => simp at h
    | ref hl hu =>
      simp only at h
      rw [hl] at h
      exact ih _ _ h hu

theorem fetch_fail_isUC (M : Module) : ∀ (f : Nat) (t : Ty), fetchOutmost M f (.ty t) = .fail →
    ∀ f2, (∀ c, findTerminal M f2 t = .found c → (isChoice c = true ↔ IsUntaggedChoice M t)) ∧
          (findTerminal M f2 t = .missing → ¬ IsUntaggedChoice M t) := by
  intro f
  induction f with
  | zero =>
    intro t h f2
    rcases fetchOutmost_fail_shape M 0 _ h with ⟨n, e⟩ | ⟨r, hx, a, e⟩
    · cases e; simp [fetchOutmost, directTag, Ty.tag, uclass] at h
    · cases e
      cases f2 <;> simp [findTerminal, isChoice, IsUntaggedChoice.choice]
  | succ f ih =>
    intro t h f2
    rcases fetchOutmost_fail_shape M _ _ h with ⟨n, e⟩ | ⟨r, hx, a, e⟩
    · cases e
      simp only [fetchOutmost, directTag, Ty.tag, uclass, if_true] at h
      cases hl : M.lookup n with
      | none =>
        cases f2 with
        | zero => simp [findTerminal]
        | succ f2 =>
          simp only [findTerminal, hl]
          constructor
          · intro c hc; cases hc
          · intro _ huc
            cases huc with
            | ref hl' _ => rw [hl] at hl'; cases hl'
      | some t' =>
        rw [hl] at h; simp only at h
        cases f2 with
        | zero => simp [findTerminal]
        | succ f2 =>
          simp only [findTerminal, hl]
          obtain ⟨i1, i2⟩ := ih t' h f2
          constructor
          · intro c hc
            rw [i1 c hc]
            constructor
            · intro hu; exact .ref hl hu
            · intro hu
              cases hu with
              | ref hl' hu' => rw [hl] at hl'; cases hl'; exact hu'
          · intro hm huc
            cases huc with
            | ref hl' hu' => rw [hl] at hl'; cases hl'; exact i2 hm hu'
    · cases e
      cases f2 <;> simp [findTerminal, isChoice, IsUntaggedChoice.choice]

theorem findTerminal_withTag (M : Module) (f : Nat) (v : Ty) (g : Option Tag) :
    (∀ c, findTerminal M f v = .found c →
       ∃ c', findTerminal M f (v.withTag g) = .found c' ∧ isChoice c' = isChoice c) ∧
    (findTerminal M f v = .missing → findTerminal M f (v.withTag g) = .missing) ∧
    (findTerminal M f v = .loop → findTerminal M f (v.withTag g) = .loop) := by
  cases v with
  | ref g0 n =>
    cases f with
    | zero => simp [findTerminal, Ty.withTag]
    | succ f =>
      simp only [findTerminal, Ty.withTag]
      cases M.lookup n with
      | none => simp
      | some t' => simp; exact fun c hc => ⟨c, hc, rfl⟩
  | prim g0 p => cases f <;> simp [findTerminal, Ty.withTag, isChoice]
  | enum g0 r h a => cases f <;> simp [findTerminal, Ty.withTag, isChoice]
  | constr g0 k r h a => cases f <;> cases k <;> simp [findTerminal, Ty.withTag, isChoice]
  | seqOf g0 e => cases f <;> simp [findTerminal, Ty.withTag, isChoice]

/-- **`_asn1f_check_if_tag_must_be_explicit`** answers "the type (its own tag put aside) is an
    untagged choice type" -/
theorem mustExplicit_iff {M : Module} {v : Ty} {b : Bool} (h : mustExplicit M v = some b) :
    b = true ↔ IsUntaggedChoice M (v.withTag none) := by
  unfold mustExplicit at h
  cases hf : fetchOutmost M (fuel M) (.ty (v.withTag none)) with
  | tag g =>
    rw [hf] at h; simp at h; subst h
    simp only [Bool.false_eq_true, false_iff]
    exact fetch_tag_not_isUC M _ _ _ hf
  | loop => rw [hf] at h; simp at h
  | fail =>
    rw [hf] at h; simp only at h
    obtain ⟨i1, i2⟩ := fetch_fail_isUC M _ _ hf (fuel M)
    obtain ⟨w1, w2, w3⟩ := findTerminal_withTag M (fuel M) v none
    cases hft : findTerminal M (fuel M) v with
    | found c =>
      rw [hft] at h; simp at h; subst h
      obtain ⟨c', e1, e2⟩ := w1 c hft
      rw [← e2]; exact i1 c' e1
    | missing =>
      rw [hft] at h; simp at h; subst h
      simp only [Bool.false_eq_true, false_iff]
      exact i2 (w2 hft)
    | loop => rw [hft] at h; simp at h

theorem fixComps_untagged {M : Module} : ∀ (cs : List Comp), (∀ c ∈ cs, c.ty.tag = none) →
    fixComps M cs = some (cs, false) := by
  intro cs
  induction cs with
  | nil => intro _; rfl
  | cons c rest ih =>
    intro h
    unfold fixComps
    rw [ih (fun c hc => h c (List.mem_cons_of_mem _ hc)), h c List.mem_cons_self]
    cases c; simp [Comp.name, Comp.ty, Comp.opt]

/-- a member produced by `asn1f_fix_constr_autotag` against the X.680 automatic-tagging
    transformation: same identifier, OPTIONAL-ness and type, same context tag, and the mode is
    EXPLICIT exactly for an untagged choice type, IMPLICIT otherwise -/
def AutoRel (M : Module) (c' c : Comp) : Prop :=
  c'.name = c.name ∧ c'.opt = c.opt ∧ c'.ty.withTag none = c.ty.withTag none ∧
  ∃ g m, c.ty.tag = some g ∧ c'.ty.tag = some { g with mode := m } ∧
    (m = .explicit ∨ m = .implicit) ∧ (m = .explicit ↔ IsUntaggedChoice M (c.ty.withTag none))

theorem autoNumber_spec {M : Module} : ∀ (cs cs' : List Comp) (i : Nat),
    autoNumber M i cs = some cs' → AllRel (AutoRel M) cs' (number i cs) := by
  intro cs
  induction cs with
  | nil => intro cs' i h; simp [autoNumber] at h; subst h; exact .nil
  | cons c rest ih =>
    intro cs' i h
    unfold autoNumber at h
    cases hm : mustExplicit M c.ty with
    | none => rw [hm] at h; simp at h
    | some me =>
      cases hn : autoNumber M (i + 1) rest with
      | none => rw [hm, hn] at h; simp at h
      | some rest' =>
        rw [hm, hn] at h; simp at h; subst h
        unfold number
        refine .cons ⟨?_, ?_, ?_, ⟨.context, i, .default_⟩, (if me = true then .explicit else .implicit), ?_, ?_, ?_, ?_⟩ (ih _ _ hn)
        · rw [comp_withTag_name, comp_withTag_name]
        · rw [comp_withTag_opt, comp_withTag_opt]
        · rw [comp_withTag_ty, comp_withTag_ty, withTag_withTag, withTag_withTag]
        · rw [comp_withTag_ty, withTag_tag]
        · rw [comp_withTag_ty, withTag_tag]
        · cases me <;> simp
        · rw [comp_withTag_ty, withTag_withTag, ← mustExplicit_iff hm]
          cases me <;> simp

theorem number_append (l1 l2 : List Comp) : ∀ i, number i (l1 ++ l2) = number i l1 ++ number (i + l1.length) l2 := by
  induction l1 with
  | nil => intro i; simp [number]
  | cons c rest ih =>
    intro i
    simp only [List.cons_append, number, ih, List.length_cons]
    rw [show i + 1 + rest.length = i + (rest.length + 1) by omega]

/-! ### assembling -/

theorem orAllB_spec : ∀ (l : List (Option Bool)) (r : Bool), orAllB l = some r →
    (r = false → ∀ x ∈ l, x = some false) ∧ (r = true → some true ∈ l) ∧ (∀ x ∈ l, x ≠ none) := by
  intro l
  induction l with
  | nil => intro r h; simp [orAllB] at h; subst h; simp
  | cons x rest ih =>
    intro r h
    unfold orAllB at h
    cases x with
    | none => simp at h
    | some a =>
      cases hr : orAllB rest with
      | none => rw [hr] at h; simp at h
      | some b =>
        rw [hr] at h; simp at h; subst h
        obtain ⟨i1, i2, i3⟩ := ih b hr
        refine ⟨?_, ?_, ?_⟩
        · intro h y hy
          simp at h
          rcases List.mem_cons.1 hy with rfl | hy'
          · rw [h.1]
          · exact i1 h.2 y hy'
        · intro h
          simp at h
          rcases h with h | h
          · subst h; exact List.mem_cons_self
          · exact List.mem_cons_of_mem _ (i2 h)
        · intro y hy
          rcases List.mem_cons.1 hy with rfl | hy'
          · simp
          · exact i3 y hy'

/-- one SEQUENCE / SET / CHOICE: duplicate identifier or tag clash reported iff the node
    violates the property's demands -/
theorem nodeFatal_constr {M : Module} {g : Option Tag} {k : CKind} {r : List Comp} {h : Bool}
    {a : List Comp} {rx : Bool} (hn : nodeFatal M (.constr g k r h a) = some rx) :
    rx = false ↔ NodeOk M (.constr g k r h a) := by
  simp only [nodeFatal] at hn
  cases hcomps : Asn1c.Impl.Fixer.comps M r h a with
  | none => rw [hcomps] at hn; simp at hn
  | some ss =>
    rw [hcomps] at hn; simp only at hn
    cases hd : checkDistinct M (k == .sequence) ss with
    | none => rw [hd] at hn; simp at hn
    | some c =>
      rw [hd] at hn; simp at hn; subst hn
      unfold NodeOk
      simp only [Bool.or_eq_false_iff]
      rw [dupNames_nil_iff, checkDistinct_spec M _ ss c hd, allOk_rel (comps_rel hcomps),
        allOk_iff_tagsDistinct, List.map_append]

theorem nodeFatal_enum {M : Module} {g : Option Tag} {r : List EnumItem} {h : Bool}
    {a : List EnumItem} {rx : Bool} (hn : nodeFatal M (.enum g r h a) = some rx)
    (hag : EnumAgrees (.enum g r h a)) :
    rx = false ↔ NodeOk M (.enum g r h a) := by
  simp only [nodeFatal] at hn
  simp at hn; subst hn
  unfold NodeOk
  exact fixEnum_enumOk hag

/-- what one node's catalogue check says, whenever it answers -/
theorem nodeFatal_iff {M : Module} {t : Ty} (ht : t ∈ M.nodes) {rx : Bool} (e : nodeFatal M t = some rx)
    (hag : EnumAgrees t) (hx : rx = false) : NodeOk M t := by
  subst hx
  cases t with
  | prim g p => trivial
  | seqOf g el => trivial
  | enum g rr hh aa => exact (nodeFatal_enum e hag).1 rfl
  | constr g k rr hh aa => exact (nodeFatal_constr e).1 rfl
  | ref g n =>
    simp only [NodeOk]
    apply derefFatal_false_defined (g := g)
    simpa only [nodeFatal] using e

/-- **the catalogue checks of the fixer decide `Spec.consistent`** -/
theorem catalogue_iff {M : Module} {r : Bool} (hrun : catalogueFatal M = some r)
    (henum : ∀ t ∈ M.nodes, EnumAgrees t) : r = false ↔ consistent M := by
  unfold catalogueFatal at hrun
  obtain ⟨h1, h2, _⟩ := orAllB_spec _ r hrun
  unfold consistent
  constructor
  · intro hcl t ht
    have e := h1 hcl _ (List.mem_map.2 ⟨t, ht, rfl⟩)
    exact nodeFatal_iff ht e (henum _ ht) rfl
  · intro hall
    cases hcl : r with
    | false => rfl
    | true =>
      exfalso
      obtain ⟨t, ht, e⟩ := List.mem_map.1 (h2 hcl)
      cases t with
      | prim g p => simp [nodeFatal] at e
      | seqOf g el => simp [nodeFatal] at e
      | enum g rr hh aa =>
        have := (nodeFatal_enum e (henum _ ht)).2 (hall _ ht)
        cases this
      | constr g k rr hh aa =>
        have := (nodeFatal_constr e).2 (hall _ ht)
        cases this
      | ref g n =>
        simp only [nodeFatal] at e
        unfold derefFatal at e
        cases hft : findTerminal M (fuel M) (.ref g n) with
        | found t' => rw [hft] at e; simp at e
        | loop => rw [hft] at e; simp at e
        | missing =>
          obtain ⟨g', n', hm', hl⟩ := findTerminal_missing M _ _ hft ht
          have := hall _ hm'
          simp only [NodeOk] at this
          rw [hl] at this; cases this

end Asn1c.Proofs.Fixer
