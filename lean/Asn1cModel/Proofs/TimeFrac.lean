import Asn1cModel.Proofs.Time
/- Helper lemmas for the fraction part of C17 (asn_time2GT_frac / asn_GT2time_frac).
   Property theorems live in Props/C17Frac.lean. -/
namespace Asn1c.Proofs.Time
open Asn1c Asn1c.Impl.Time Asn1c.Spec.Time

/-! ### fraction digits (Spec side) -/

theorem fracDigits_zero (n : Nat) : fracDigits n 0 = List.replicate n 48 := by
  induction n with
  | zero => rfl
  | succ n ih => simp [fracDigits, ih, List.replicate_succ]

theorem fracDigits_length (n fv : Nat) : (fracDigits n fv).length = n := by
  induction n with
  | zero => rfl
  | succ n ih => simp [fracDigits, ih]

/-- a digit below position `m` does not see the part of the number above `10^m` -/
theorem digit_mod_pow (fv n m : Nat) (h : n < m) : fv % 10 ^ m / 10 ^ n % 10 = fv / 10 ^ n % 10 := by
  obtain ⟨c, rfl⟩ : ∃ c, m = n + 1 + c := ⟨m - n - 1, by omega⟩
  rw [show 10 ^ (n + 1 + c) = 10 ^ n * (10 * 10 ^ c) by rw [Nat.pow_add, Nat.pow_succ, Nat.mul_assoc]]
  rw [Nat.mod_mul_right_div_self, Nat.mod_mul_right_mod]

theorem fracDigits_mod (n m fv : Nat) (h : n ≤ m) : fracDigits n (fv % 10 ^ m) = fracDigits n fv := by
  induction n with
  | zero => rfl
  | succ n ih =>
    simp only [fracDigits]
    rw [digit_mod_pow _ _ _ (by omega), ih (by omega)]

/-! ### stripping trailing zeros -/

theorem dropWhile_zeros_append (j : Nat) (l : List Nat) :
    (List.replicate j 48 ++ l).dropWhile (· = 48) = l.dropWhile (· = 48) := by
  induction j with
  | zero => simp
  | succ j ih => simp [List.replicate_succ, ih]

theorem stripZeros_append_zeros (l : List Nat) (j : Nat) :
    stripZeros (l ++ List.replicate j 48) = stripZeros l := by
  unfold stripZeros
  rw [List.reverse_append, List.reverse_replicate, dropWhile_zeros_append]

/-! ### the digit loop of `asn_time2GT_frac` -/

/-- with `fbase = 10^k`, a value that fits `k+1` digits and enough room, the loop never aborts and emits a
    prefix of the `k+1` digits of the value; what it leaves out are zeros -/
theorem fracLoop_spec : ∀ (k room fv : Nat), fv < 10 ^ (k + 1) → k + 1 ≤ room →
    ∃ ds j, fracLoop k room fv = some ds ∧ ds ++ List.replicate j 48 = fracDigits (k + 1) fv := by
  intro k
  induction k with
  | zero =>
    intro room fv h _
    refine ⟨[48 + fv], 0, ?_, ?_⟩
    · simp only [fracLoop]; rw [if_neg (by omega)]
    · simp [fracDigits]; omega
  | succ k ih =>
    intro room fv h hr
    have hp : 0 < 10 ^ (k + 1) := Nat.pow_pos (by decide)
    have hd : fv / 10 ^ (k + 1) < 10 := by
      rw [Nat.div_lt_iff_lt_mul hp, Nat.mul_comm, ← Nat.pow_succ]; exact h
    have hdig : fv / 10 ^ (k + 1) % 10 = fv / 10 ^ (k + 1) := Nat.mod_eq_of_lt hd
    have hm : fv % 10 ^ (k + 1) < 10 ^ (k + 1) := Nat.mod_lt _ hp
    simp only [fracLoop]
    rw [if_neg (by omega)]
    by_cases hc : fv % 10 ^ (k + 1) > 0 ∧ room - 1 > 0
    · rw [if_pos hc]
      obtain ⟨ds, j, e1, e2⟩ := ih (room - 1) (fv % 10 ^ (k + 1)) hm (by omega)
      refine ⟨(48 + fv / 10 ^ (k + 1)) :: ds, j, by rw [e1]; rfl, ?_⟩
      rw [fracDigits_mod _ _ _ (Nat.le_refl _)] at e2
      rw [fracDigits, hdig, List.cons_append, e2]
    · rw [if_neg hc]
      have hz : fv % 10 ^ (k + 1) = 0 := by omega
      refine ⟨[48 + fv / 10 ^ (k + 1)], k + 1, rfl, ?_⟩
      rw [fracDigits, hdig, ← fracDigits_mod (k + 1) (k + 1) fv (Nat.le_refl _), hz, fracDigits_zero]
      rfl

theorem fracText_zero (fd : Int) : fracText 0 fd = [] := by simp [fracText]

theorem fracText_no_digits (fv : Int) : fracText fv 0 = [] := by simp [fracText]

theorem fracCanon_zero (d : Nat) : fracCanon 0 d = [] := by
  simp [fracCanon, fracDigits_zero]

/-- the general form of `fracText_canonical`: `n = 0` and `d = 0` included -/
theorem fracText_eq_fracCanon (n d : Nat) (hd9 : d ≤ 9) (hn : n < 10 ^ d) :
    fracText (n : Int) (d : Int) = fracCanon n d := by
  by_cases hn0 : n = 0
  · subst hn0; rw [fracCanon_zero]; exact fracText_zero _
  cases d with
  | zero => simp at hn; omega
  | succ k =>
    obtain ⟨ds, j, e1, e2⟩ := fracLoop_spec k 9 n hn (by omega)
    unfold fracText
    rw [if_pos (by omega)]
    simp only
    rw [if_neg (by omega), if_neg (by omega)]
    have ek : (((k + 1 : Nat) : Int) - 1).toNat = k := by omega
    rw [ek, Int.toNat_natCast, e1]
    simp only
    have hs : stripZeros ds = ((fracDigits (k + 1) n).reverse.dropWhile (· = 48)).reverse := by
      rw [← e2]; exact (stripZeros_append_zeros ds j).symm
    rw [hs]; rfl

/-- a `frac_value` that needs more than `frac_digits` digits is dropped (`digit > 9` abort) -/
theorem fracText_overflow (n d : Nat) (hd1 : 1 ≤ d) (hd9 : d ≤ 9) (hn : 10 ^ d ≤ n) :
    fracText (n : Int) (d : Int) = [] := by
  have hn0 : 0 < n := Nat.lt_of_lt_of_le (Nat.pow_pos (by decide)) hn
  obtain ⟨k, rfl⟩ : ∃ k, d = k + 1 := ⟨d - 1, by omega⟩
  have hnone : fracLoop k 9 n = none := by
    cases k with
    | zero => simp only [fracLoop]; rw [if_pos (by omega)]
    | succ k =>
      have hp : 0 < 10 ^ (k + 1) := Nat.pow_pos (by decide)
      have : 10 ≤ n / 10 ^ (k + 1) := by
        rw [Nat.le_div_iff_mul_le hp, Nat.mul_comm, ← Nat.pow_succ]; exact hn
      simp only [fracLoop]; rw [if_pos (by omega)]
  unfold fracText
  rw [if_pos (by omega)]
  simp only
  rw [if_neg (by omega), if_neg (by omega)]
  have ek : (((k + 1 : Nat) : Int) - 1).toNat = k := by omega
  rw [ek, Int.toNat_natCast, hnone]

/-! ### `asn_time2GT_frac` in forced-GMT form, fraction included -/

theorem gtCanon_eq_digits14 (Y M D h m s : Nat) : gtCanon Y M D h m s = gtDigits14 Y M D h m s ++ [0x5a] := rfl

theorem gtCanon_dropLast (Y M D h m s : Nat) : (gtCanon Y M D h m s).dropLast = gtDigits14 Y M D h m s := by
  rw [gtCanon_eq_digits14, List.dropLast_concat]

theorem gtDigits14_length (Y M D h m s : Nat) : (gtDigits14 Y M D h m s).length = 14 := by
  simp [gtDigits14, digits4, digits2]

/-- `asn_time2GT_frac(localtime(t), fv, fd, force_gmt = 1)` for an instant in the years 0000..9999:
    the fourteen digits of a valid UTC date-time that denotes `t`, whatever the fraction block prints, 'Z' -/
theorem time2GTfrac_head (t off fv fd : Int) (h0 : t0000 ≤ t) (h1 : t < t10000) :
    ∃ Y M D h m s, ValidDateTime Y M D h m s ∧ epochSeconds Y M D h m s = t ∧
      time2GTfrac (localtime t off) fv fd true = some (gtDigits14 Y M D h m s ++ fracText fv fd ++ [0x5a]) := by
  obtain ⟨hy0, hy1⟩ := civil_year_range t h0 h1
  obtain ⟨v1, v2, v3⟩ := civilFromDays_valid (t / 86400)
  have hd := daysFromCivil_civilFromDays (t / 86400)
  rw [time2GTfrac_zone_independent]
  generalize hc : civilFromDays (t / 86400) = c at *
  obtain ⟨cy, cm, cd⟩ := c
  simp only at hy0 hy1 v1 v2 v3 hd
  obtain ⟨Y, rfl⟩ : ∃ Y : Nat, cy = Y := ⟨cy.toNat, by omega⟩
  have hr0 : 0 ≤ t % 86400 := Int.emod_nonneg _ (by decide)
  have hr1 : t % 86400 < 86400 := Int.emod_lt_of_pos _ (by decide)
  obtain ⟨r, hr⟩ : ∃ r : Nat, t % 86400 = r := ⟨(t % 86400).toNat, by omega⟩
  have hsplit := Int.mul_ediv_add_emod t 86400
  have hM1 : 1 ≤ cm + 1 := by omega
  have hM2 : cm + 1 ≤ 12 := by omega
  have hspec := daysFromCivil_eq_spec Y (cm + 1) cd hM1 hM2 v2
  rw [show cm + 1 - 1 = cm by omega] at hspec
  have hml := monthLen_eq_spec Y (cm + 1) hM1 hM2
  rw [show cm + 1 - 1 = cm by omega] at hml
  have e400 : ((Y : Int) % 400).toNat = Y % 400 := by omega
  rw [e400, isLeap_mod400, hml] at v3
  have hD31 : cd ≤ 31 := by
    have := monthLen_le (isLeap Y) cm v1; omega
  refine ⟨Y, cm + 1, cd, r / 3600, r / 60 % 60, r % 60, ?_, ?_, ?_⟩
  · refine ⟨by omega, hM1, hM2, v2, ?_, by omega, by omega, by omega⟩
    rw [show cm + 1 - 1 = cm by omega]; exact v3
  · simp only [epochSeconds]
    rw [← hspec, hd]
    push_cast
    omega
  · have hg : gmtime t = { sec := ((r % 60 : Nat) : Int), min := ((r / 60 % 60 : Nat) : Int), hour := ((r / 3600 : Nat) : Int),
                            mday := (cd : Int), mon := (cm : Int), year := (Y : Int) - 1900, gmtoff := 0 } := by
      simp only [gmtime, hc, hr]
      congr 1
    rw [hg]
    unfold time2GTfrac
    simp only [ne_eq, not_true_eq_false, and_false, if_false]
    rw [fmtD4 _ (by omega) (by omega), fmtD2 _ (by omega) (by omega), fmtD2 _ (by omega) (by omega),
        fmtD2 _ (by omega) (by omega), fmtD2 _ (by omega) (by omega), fmtD2 _ (by omega) (by omega)]
    have e1 : ((Y : Int) - 1900 + 1900).toNat = Y := by omega
    have e2 : ((cm : Int) + 1).toNat = cm + 1 := by omega
    simp only [e1, e2, Int.toNat_natCast]
    have hl := gtDigits14_length Y (cm + 1) cd (r / 3600) (r / 60 % 60) (r % 60)
    unfold gtDigits14 at hl ⊢
    rw [if_neg (by rw [hl]; decide), if_pos trivial]

/-! ### `asn_GT2time_frac`: reading a fraction back -/

theorem digitsValAcc_nil (acc : Nat) : digitsValAcc acc [] = acc := rfl
theorem digitsValAcc_cons (acc c : Nat) (r : List Nat) :
    digitsValAcc acc (c :: r) = digitsValAcc (acc * 10 + (c - 48)) r := by
  unfold digitsValAcc; rw [List.foldl_cons]

theorem gtFracLoop_stop (fv fd : Int) (rest : Bytes) : gtFracLoop fv fd (0x5a :: rest) = (fv, fd, 0x5a :: rest) := by
  rw [gtFracLoop, if_neg (by omega)]

theorem gtFracLoop_step (fv fd : Int) (c : Nat) (r : Bytes) (hc : 48 ≤ c ∧ c ≤ 57) (hfv : fv < 214748364) :
    gtFracLoop fv fd (c :: r) = gtFracLoop (fv * 10 + ((c : Int) - 0x30)) (fd + 1) r := by
  rw [gtFracLoop, if_pos (by omega), if_pos hfv]

/-- the fraction loop on at most `9 - k` digits after a `k`-digit value: every digit is taken
    (the `fvalue < INT_MAX/10` cut-off is not reached) and the loop stops at the 'Z' -/
theorem gtFracLoop_digits (rest : Bytes) : ∀ (ds : List Nat) (k fv : Nat) (fd : Int),
    (∀ c ∈ ds, 48 ≤ c ∧ c ≤ 57) → fv < 10 ^ k → k + ds.length ≤ 9 →
    gtFracLoop (fv : Int) fd (ds ++ 0x5a :: rest) = (((digitsValAcc fv ds : Nat) : Int), fd + ds.length, 0x5a :: rest) := by
  intro ds
  induction ds with
  | nil =>
    intro k fv fd _ _ _
    simp only [List.nil_append, digitsValAcc_nil, List.length_nil]
    rw [gtFracLoop_stop]
    simp
  | cons c r ih =>
    intro k fv fd hds hfv hk
    have hc := hds c (List.mem_cons_self)
    simp only [List.length_cons] at hk
    have h8 : 10 ^ k ≤ 10 ^ 8 := Nat.pow_le_pow_right (by decide) (by omega)
    have e8 : (10 : Nat) ^ 8 = 100000000 := by decide
    rw [List.cons_append, gtFracLoop_step _ _ _ _ hc (by omega)]
    have hcast : (fv : Int) * 10 + ((c : Int) - 48) = ((fv * 10 + (c - 48) : Nat) : Int) := by omega
    rw [hcast, ih (k + 1) (fv * 10 + (c - 48)) (fd + 1) (fun x hx => hds x (List.mem_cons_of_mem _ hx))
      (by rw [Nat.pow_succ]; omega) (by omega)]
    simp only [digitsValAcc_cons, List.length_cons]
    congr 2
    push_cast; omega

theorem gtFracLoop_canon (ds : List Nat) (rest : Bytes) (hds : ∀ c ∈ ds, 48 ≤ c ∧ c ≤ 57) (hlen : ds.length ≤ 9) :
    gtFracLoop 0 0 (ds ++ 0x5a :: rest) = (((digitsVal ds : Nat) : Int), (ds.length : Int), 0x5a :: rest) := by
  have := gtFracLoop_digits rest ds 0 0 0 hds (by decide) (by omega)
  simpa [digitsVal] using this

theorem gtAfterHour_canon_frac (m s : Nat) (hm : m < 100) (hs : s < 100) (ds : List Nat)
    (hds : ∀ c ∈ ds, 48 ≤ c ∧ c ≤ 57) (hlen : ds.length ≤ 9) :
    gtAfterHour (digits2 m ++ (digits2 s ++ (0x2e :: (ds ++ [0x5a])))) =
      some ⟨m, s, (digitsVal ds : Nat), ds.length, true, 0⟩ := by
  simp only [digits2, List.cons_append, List.nil_append, gtAfterHour]
  rw [if_pos (by omega)]
  simp only [List.cons_ne_nil, if_false]
  rw [show ((48 + m / 10 % 10 : Nat) : Int) - 48 = ((m / 10 % 10 : Nat) : Int) by push_cast; omega]
  rw [b2f_digit _ _ (by omega)]
  simp only [gtAfterMin]
  rw [if_pos (by omega)]
  simp only [List.cons_ne_nil, if_false]
  rw [show ((48 + s / 10 % 10 : Nat) : Int) - 48 = ((s / 10 % 10 : Nat) : Int) by push_cast; omega]
  rw [b2f_digit _ _ (by omega)]
  simp only [gtAfterSec]
  rw [if_pos (by decide), gtFracLoop_canon ds [] hds hlen]
  simp only [gtZone]
  rw [if_neg (by decide), if_pos trivial]
  congr 2 <;> omega

/-- parsing "YYYYMMDDHHMMSS.f…fZ" with at most nine fraction digits -/
theorem GT2timeFrac_canon_frac (lo : Int) (g : Bool) (Y M D h m s : Nat) (hv : ValidDateTime Y M D h m s)
    (ds : List Nat) (hds : ∀ c ∈ ds, 48 ≤ c ∧ c ≤ 57) (hlen : ds.length ≤ 9) :
    GT2timeFrac lo (gtDigits14 Y M D h m s ++ 0x2e :: ds ++ [0x5a]) g =
      .ok (epochSeconds Y M D h m s) (digitsVal ds : Nat) ds.length
        (if g then gmtime (epochSeconds Y M D h m s) else localtime (epochSeconds Y M D h m s) lo) := by
  obtain ⟨hY, hM1, hM2, hD1, hD2, hh, hm, hs⟩ := hv
  have hD31 : D ≤ 31 := by
    have := monthLen_eq_spec Y M hM1 hM2
    have := monthLen_le (isLeap Y) (M - 1) (by omega)
    omega
  unfold GT2timeFrac
  have hlen' : (gtDigits14 Y M D h m s ++ 0x2e :: ds ++ [0x5a]).length = 16 + ds.length := by
    simp [gtDigits14_length]; omega
  rw [if_neg (by omega)]
  simp only [gtDigits14, digits4_split Y hY, List.append_assoc, List.cons_append]
  rw [b2f2_digits2 _ _ (by omega)]
  simp only
  rw [b2f2_digits2 _ _ (by omega)]
  simp only
  rw [b2f2_digits2 _ _ (by omega)]
  simp only
  rw [b2f2_digits2 _ _ (by omega)]
  simp only
  rw [b2f2_digits2 _ _ (by omega)]
  simp only
  rw [gtAfterHour_canon_frac m s (by omega) (by omega) ds hds hlen]
  simp only
  rw [if_neg (by omega)]
  have hyear : (0 * 100 + ((Y / 100 : Nat) : Int)) * 100 + ((Y % 100 : Nat) : Int) = Y := by omega
  have ht : timegm { sec := (s : Int) - 0, min := m, hour := 0 * 100 + (h : Int), mday := 0 * 100 + (D : Int),
                     mon := 0 * 100 + (M : Int) - 1, year := (0 * 100 + ((Y / 100 : Nat) : Int)) * 100 + ((Y % 100 : Nat) : Int) - 1900,
                     gmtoff := 0 } = epochSeconds Y M D h m s := by
    simp only [timegm, hyear, epochSeconds]
    have e1 : (0 * 100 + (M : Int) - 1) / 12 = 0 := by omega
    have e2 : ((0 * 100 + (M : Int) - 1) % 12).toNat = M - 1 := by omega
    rw [e1, e2, show (Y : Int) - 1900 + 1900 + 0 = Y by omega, show 0 * 100 + (D : Int) = D by omega,
        daysFromCivil_eq_spec Y M D hM1 hM2 hD1]
    omega
  simp only [if_true, ht]

/-! ### what the canonical fraction denotes; the fraction round trip -/

theorem dropWhile_zeros_split (r : List Nat) :
    ∃ j, r = List.replicate j 48 ++ r.dropWhile (· = 48) := by
  induction r with
  | nil => exact ⟨0, rfl⟩
  | cons c r ih =>
    by_cases hc : c = 48
    · obtain ⟨j, hj⟩ := ih
      refine ⟨j + 1, ?_⟩
      subst hc
      rw [List.dropWhile_cons_of_pos (by simp), List.replicate_succ, List.cons_append, ← hj]
    · exact ⟨0, by rw [List.dropWhile_cons_of_neg (by simpa using hc)]; rfl⟩

/-- stripping removes only zeros -/
theorem stripZeros_split (l : List Nat) : ∃ j, l = stripZeros l ++ List.replicate j 48 := by
  obtain ⟨j, hj⟩ := dropWhile_zeros_split l.reverse
  refine ⟨j, ?_⟩
  have := congrArg List.reverse hj
  rw [List.reverse_reverse, List.reverse_append, List.reverse_replicate] at this
  exact this

theorem digitsValAcc_zeros (a : Nat) (l : List Nat) (j : Nat) :
    digitsValAcc a (l ++ List.replicate j 48) = digitsValAcc a l * 10 ^ j := by
  induction j generalizing a l with
  | zero => simp
  | succ j ih =>
    rw [List.replicate_succ, show l ++ 48 :: List.replicate j 48 = (l ++ [48]) ++ List.replicate j 48 by simp, ih]
    unfold digitsValAcc
    rw [List.foldl_append, List.foldl_cons, List.foldl_nil, Nat.pow_succ]
    simp only [Nat.sub_self, Nat.add_zero]
    rw [Nat.mul_assoc, Nat.mul_comm 10]

theorem digitsValAcc_fracDigits (d a n : Nat) :
    digitsValAcc a (fracDigits d n) = a * 10 ^ d + n % 10 ^ d := by
  induction d generalizing a with
  | zero => simp [fracDigits, digitsValAcc_nil, Nat.mod_one]
  | succ d ih =>
    rw [fracDigits, digitsValAcc_cons, ih, Nat.pow_succ, Nat.mod_mul]
    rw [show 48 + n / 10 ^ d % 10 - 48 = n / 10 ^ d % 10 by omega]
    rw [Nat.add_mul, Nat.mul_assoc, Nat.mul_comm 10, Nat.mul_comm (n / 10 ^ d % 10)]
    omega

theorem fracDigits_range (d n : Nat) : ∀ c ∈ fracDigits d n, 48 ≤ c ∧ c ≤ 57 := by
  induction d with
  | zero => intro c hc; simp [fracDigits] at hc
  | succ d ih =>
    intro c hc
    rw [fracDigits, List.mem_cons] at hc
    rcases hc with rfl | hc
    · omega
    · exact ih c hc

/-- the canonical fraction of n/10^d (0 < n < 10^d) is '.' followed by 1..d digits whose value, scaled back
    to d digits, is n -/
theorem fracCanon_denotes (n d : Nat) (hn0 : 0 < n) (hn : n < 10 ^ d) :
    ∃ ds : List Nat, fracCanon n d = 0x2e :: ds ∧ (∀ c ∈ ds, 48 ≤ c ∧ c ≤ 57) ∧ ds ≠ [] ∧ ds.length ≤ d ∧
      digitsVal ds * 10 ^ (d - ds.length) = n := by
  obtain ⟨j, hj⟩ := stripZeros_split (fracDigits d n)
  have hlen := congrArg List.length hj
  rw [fracDigits_length, List.length_append, List.length_replicate] at hlen
  have hval : digitsVal (stripZeros (fracDigits d n)) * 10 ^ j = n := by
    have := digitsValAcc_fracDigits d 0 n
    rw [hj, digitsValAcc_zeros, Nat.zero_mul, Nat.zero_add, Nat.mod_eq_of_lt hn] at this
    exact this
  have hne : stripZeros (fracDigits d n) ≠ [] := by
    intro h
    rw [h] at hval
    simp [digitsVal, digitsValAcc_nil] at hval
    omega
  refine ⟨stripZeros (fracDigits d n), ?_, ?_, hne, by omega, ?_⟩
  · show (if stripZeros (fracDigits d n) = [] then [] else 0x2e :: stripZeros (fracDigits d n)) = _
    rw [if_neg hne]
  · intro c hc
    apply fracDigits_range d n c
    rw [hj]; exact List.mem_append_left _ hc
  · rw [show d - (stripZeros (fracDigits d n)).length = j by omega]; exact hval

/-- **fraction round trip**: for t in the years 0000..9999 (the instant -1 included) and a fraction n/10^d
    (1 ≤ d ≤ 9, 0 < n < 10^d), `asn_GT2time_frac` applied to the forced-GMT text of `asn_time2GT_frac` returns t
    and a fraction fv/10^fd equal to n/10^d with 1 ≤ fd ≤ d (trailing zeros are gone) -/
theorem GT2timeFrac_time2GTfrac (t off lo : Int) (g : Bool) (n d : Nat) (h0 : t0000 ≤ t) (h1 : t < t10000)
    (hd9 : d ≤ 9) (hn0 : 0 < n) (hn : n < 10 ^ d) :
    ∃ (txt : Bytes) (fv fd : Nat), time2GTfrac (localtime t off) n d true = some txt ∧
      GT2timeFrac lo txt g = .ok t fv fd (if g then gmtime t else localtime t lo) ∧
      1 ≤ fd ∧ fd ≤ d ∧ fv * 10 ^ (d - fd) = n := by
  obtain ⟨Y, M, D, h, m, s, hv, he, ht⟩ := time2GTfrac_head t off n d h0 h1
  obtain ⟨ds, e1, e2, e3, e4, e5⟩ := fracCanon_denotes n d hn0 hn
  rw [fracText_eq_fracCanon n d hd9 hn, e1] at ht
  refine ⟨_, digitsVal ds, ds.length, ht, ?_, ?_, e4, e5⟩
  · have := GT2timeFrac_canon_frac lo g Y M D h m s hv ds e2 (by omega)
    rw [he] at this
    rw [← this]
  · cases ds with
    | nil => exact absurd rfl e3
    | cons _ _ => simp

end Asn1c.Proofs.Time
