import Asn1cModel.Impl.Time
import Asn1cModel.Spec.Time
import Mathlib.Tactic.Ring
/- Helper lemmas for C17 (calendar and time helpers).  Property theorems live in Props/C17.lean. -/
namespace Asn1c.Proofs.Time
open Asn1c Asn1c.Impl.Time

/-! ### `dby` is strictly monotone with steps 365 / 366 -/

theorem ceil4 (y : Nat) : (y + 1 + 3) / 4 = (y + 3) / 4 + (if y % 4 = 0 then 1 else 0) := by split <;> omega
theorem ceil100 (y : Nat) : (y + 1 + 99) / 100 = (y + 99) / 100 + (if y % 100 = 0 then 1 else 0) := by split <;> omega
theorem ceil400 (y : Nat) : (y + 1 + 399) / 400 = (y + 399) / 400 + (if y % 400 = 0 then 1 else 0) := by split <;> omega

/-- subtraction-free form of `dby` -/
theorem dby_add (y : Nat) : dby y + (y + 99) / 100 = 365 * y + (y + 3) / 4 + (y + 399) / 400 := by
  unfold dby; omega

theorem isLeap_iff (y : Nat) : isLeap y = true ↔ (y % 4 = 0 ∧ (y % 100 ≠ 0 ∨ y % 400 = 0)) := by
  unfold isLeap; simp

theorem dby_succ (y : Nat) : dby (y + 1) = dby y + 365 + (if isLeap y then 1 else 0) := by
  have h1 := dby_add y
  have h2 := dby_add (y + 1)
  rw [ceil4, ceil100, ceil400] at h2
  have hl := isLeap_iff y
  cases hleap : isLeap y
  · have hn : ¬ (y % 4 = 0 ∧ (y % 100 ≠ 0 ∨ y % 400 = 0)) := fun h => by
      have := hl.mpr h; rw [hleap] at this; exact Bool.noConfusion this
    simp only [Bool.false_eq_true, if_false]
    split at h2 <;> split at h2 <;> split at h2 <;> omega
  · obtain ⟨h4, h⟩ := hl.mp hleap
    simp only [if_true]
    simp only [h4, if_true] at h2
    split at h2 <;> split at h2 <;> omega

theorem dby_succ_ge (y : Nat) : dby y + 365 ≤ dby (y + 1) := by
  rw [dby_succ]; omega

theorem dby_succ_le (y : Nat) : dby (y + 1) ≤ dby y + 366 := by
  rw [dby_succ]; split <;> omega

theorem dby_mono {a b : Nat} (h : a ≤ b) : dby a ≤ dby b := by
  induction b with
  | zero => have : a = 0 := by omega
            subst this; exact Nat.le_refl _
  | succ b ih =>
    by_cases hab : a = b + 1
    · subst hab; exact Nat.le_refl _
    · have := ih (by omega); have := dby_succ_ge b; omega

theorem dby_strict {a b : Nat} (h : a < b) : dby a < dby b := by
  have h1 : dby (a + 1) ≤ dby b := dby_mono h
  have := dby_succ_ge a; omega

theorem dby_400 : dby 400 = 146097 := by decide
theorem dby_0 : dby 0 = 0 := by decide

theorem dby_le_366 (y : Nat) : dby y ≤ 366 * y := by
  induction y with
  | zero => simp [dby_0]
  | succ y ih => have := dby_succ_le y; omega

/-- the search returns a bracket of `x` -/
theorem searchUp_spec (f : Nat → Nat) (x : Nat) : ∀ (fuel y : Nat), f y ≤ x → x < f (y + fuel) →
    f (searchUp f x y fuel) ≤ x ∧ x < f (searchUp f x y fuel + 1) := by
  intro fuel
  induction fuel with
  | zero => intro y h1 h2; simp at h2; omega
  | succ fuel ih =>
    intro y h1 h2
    unfold searchUp
    split
    · rename_i hle
      exact ih (y + 1) hle (by rw [show y + 1 + fuel = y + (fuel + 1) by omega]; exact h2)
    · rename_i hnle
      exact ⟨h1, by omega⟩

theorem mono_of_step (f : Nat → Nat) (hs : ∀ m, f m ≤ f (m + 1)) {a b : Nat} (h : a ≤ b) : f a ≤ f b := by
  induction b with
  | zero => have : a = 0 := by omega
            subst this; exact Nat.le_refl _
  | succ b ih =>
    by_cases hab : a = b + 1
    · subst hab; exact Nat.le_refl _
    · have := ih (by omega); have := hs b; omega

/-- uniqueness of a bracket for a monotone function -/
theorem bracket_unique (f : Nat → Nat) (hs : ∀ m, f m ≤ f (m + 1)) {a b x : Nat} (ha1 : f a ≤ x) (ha2 : x < f (a + 1))
    (hb1 : f b ≤ x) (hb2 : x < f (b + 1)) : a = b := by
  rcases Nat.lt_trichotomy a b with h | h | h
  · have := mono_of_step f hs (show a + 1 ≤ b by omega); omega
  · exact h
  · have := mono_of_step f hs (show b + 1 ≤ a by omega); omega

/-- uniqueness: a year bracket determines the year -/
theorem dby_bracket_unique {a b doe : Nat} (ha1 : dby a ≤ doe) (ha2 : doe < dby (a + 1))
    (hb1 : dby b ≤ doe) (hb2 : doe < dby (b + 1)) : a = b := by
  rcases Nat.lt_trichotomy a b with h | h | h
  · have := dby_mono (show a + 1 ≤ b by omega); omega
  · exact h
  · have := dby_mono (show b + 1 ≤ a by omega); omega

theorem findYear_era (doe : Nat) (h : doe < 146097) :
    dby (findYear doe) ≤ doe ∧ doe < dby (findYear doe + 1) ∧ findYear doe < 400 := by
  have h0 : dby (doe / 366) ≤ doe := by
    have := dby_le_366 (doe / 366); omega
  have h1 : doe < dby (doe / 366 + 400) := by
    have := dby_mono (show 400 ≤ doe / 366 + 400 by omega); rw [dby_400] at this; omega
  obtain ⟨a, b⟩ := searchUp_spec dby doe 400 (doe / 366) h0 h1
  change dby (findYear doe) ≤ doe at a
  change doe < dby (findYear doe + 1) at b
  refine ⟨a, b, ?_⟩
  by_contra hge
  have := dby_mono (show 400 ≤ findYear doe by omega)
  rw [dby_400] at this; omega

theorem findYear_unique (doe y : Nat) (h : doe < 146097) (h1 : dby y ≤ doe) (h2 : doe < dby (y + 1)) :
    findYear doe = y := by
  obtain ⟨a, b, _⟩ := findYear_era doe h
  exact dby_bracket_unique a b h1 h2

/-! ### months -/

theorem dbm_step (leap : Bool) : ∀ m : Nat, dbm leap m ≤ dbm leap (m + 1)
  | 0 | 1 | 2 | 3 | 4 | 5 | 6 | 7 | 8 | 9 | 10 | 11 => by cases leap <;> simp [dbm]
  | _ + 12 => by cases leap <;> simp [dbm]

theorem dbm_0 (leap : Bool) : dbm leap 0 = 0 := by simp [dbm]

theorem findMonth_spec (leap : Bool) (doy : Nat) (h : doy < dbm leap 12) :
    findMonth leap doy < 12 ∧ dbm leap (findMonth leap doy) ≤ doy ∧ doy < dbm leap (findMonth leap doy + 1) := by
  obtain ⟨a, b⟩ := searchUp_spec (dbm leap) doy 12 0 (by rw [dbm_0]; omega) (by simpa using h)
  change dbm leap (findMonth leap doy) ≤ doy at a
  change doy < dbm leap (findMonth leap doy + 1) at b
  refine ⟨?_, a, b⟩
  by_contra hge
  have := mono_of_step (dbm leap) (dbm_step leap) (show 12 ≤ findMonth leap doy by omega)
  omega

theorem findMonth_unique (leap : Bool) (doy m : Nat) (hm : m < 12) (h1 : dbm leap m ≤ doy)
    (h2 : doy < dbm leap (m + 1)) : findMonth leap doy = m := by
  have h12 : doy < dbm leap 12 := by
    have := mono_of_step (dbm leap) (dbm_step leap) (show m + 1 ≤ 12 by omega); omega
  obtain ⟨_, a, b⟩ := findMonth_spec leap doy h12
  exact bracket_unique (dbm leap) (dbm_step leap) a b h1 h2

/-- number of days of month `m` (0..11) -/
def monthLen (leap : Bool) (m : Nat) : Nat := dbm leap (m + 1) - dbm leap m

theorem monthLen_le (leap : Bool) (m : Nat) (hm : m < 12) : 28 ≤ monthLen leap m ∧ monthLen leap m ≤ 31 := by
  have hm' : m = 0 ∨ m = 1 ∨ m = 2 ∨ m = 3 ∨ m = 4 ∨ m = 5 ∨ m = 6 ∨ m = 7 ∨ m = 8 ∨ m = 9 ∨ m = 10 ∨ m = 11 := by omega
  cases leap <;> rcases hm' with h | h | h | h | h | h | h | h | h | h | h | h <;> subst h <;> simp [monthLen, dbm]

theorem dbm_mono_succ (leap : Bool) (m : Nat) (hm : m < 12) : dbm leap m + monthLen leap m = dbm leap (m + 1) := by
  have hm' : m = 0 ∨ m = 1 ∨ m = 2 ∨ m = 3 ∨ m = 4 ∨ m = 5 ∨ m = 6 ∨ m = 7 ∨ m = 8 ∨ m = 9 ∨ m = 10 ∨ m = 11 := by omega
  cases leap <;> rcases hm' with h | h | h | h | h | h | h | h | h | h | h | h <;> subst h <;> simp [monthLen, dbm]

theorem dbm_le_12 (leap : Bool) (m : Nat) (hm : m < 12) : dbm leap (m + 1) ≤ dbm leap 12 := by
  have hm' : m = 0 ∨ m = 1 ∨ m = 2 ∨ m = 3 ∨ m = 4 ∨ m = 5 ∨ m = 6 ∨ m = 7 ∨ m = 8 ∨ m = 9 ∨ m = 10 ∨ m = 11 := by omega
  cases leap <;> rcases hm' with h | h | h | h | h | h | h | h | h | h | h | h <;> subst h <;> simp [dbm]

theorem dbm_12 (leap : Bool) : dbm leap 12 = 365 + (if leap then 1 else 0) := by cases leap <;> simp [dbm]

/-- the year `y` (of era) has `dbm (isLeap y) 12` days -/
theorem dby_succ' (y : Nat) : dby (y + 1) = dby y + dbm (isLeap y) 12 := by
  rw [dby_succ, dbm_12]; omega


/-! ### the two inverse theorems -/

/-- facts about the decomposition computed by `civilFromDays` -/
theorem civil_parts (z : Int) :
    ∃ (era : Int) (yoe doy : Nat), yoe < 400 ∧ doy < dbm (isLeap yoe) 12 ∧
      z + 719528 = era * 146097 + (dby yoe : Int) + (doy : Int) ∧
      civilFromDays z = (era * 400 + yoe, findMonth (isLeap yoe) doy, doy - dbm (isLeap yoe) (findMonth (isLeap yoe) doy) + 1) := by
  have hdoe_nn : 0 ≤ (z + 719528) % 146097 := Int.emod_nonneg _ (by decide)
  have hdoe_lt : (z + 719528) % 146097 < 146097 := Int.emod_lt_of_pos _ (by decide)
  have hsplit := Int.mul_ediv_add_emod (z + 719528) 146097
  obtain ⟨doe, hdoe⟩ : ∃ doe : Nat, ((z + 719528) % 146097) = (doe : Int) := ⟨((z + 719528) % 146097).toNat, by omega⟩
  have hlt : doe < 146097 := by omega
  obtain ⟨y1, y2, y3⟩ := findYear_era doe hlt
  refine ⟨(z + 719528) / 146097, findYear doe, doe - dby (findYear doe), y3, ?_, ?_, ?_⟩
  · rw [dby_succ'] at y2; omega
  · omega
  · simp only [civilFromDays, hdoe, Int.toNat_natCast]

theorem era_div (era : Int) (yoe : Nat) (h : yoe < 400) : (era * 400 + (yoe : Int)) / 400 = era ∧
    ((era * 400 + (yoe : Int)) % 400).toNat = yoe := by
  constructor <;> omega

/-- **gmtime then timegm (days part)**: `civilFromDays` is a right inverse of `daysFromCivil` on every day -/
theorem daysFromCivil_civilFromDays (z : Int) :
    daysFromCivil (civilFromDays z).1 (civilFromDays z).2.1 (civilFromDays z).2.2 = z := by
  obtain ⟨era, yoe, doy, hy, hd, hz, hc⟩ := civil_parts z
  rw [hc]
  obtain ⟨_, m1, _⟩ := findMonth_spec (isLeap yoe) doy hd
  obtain ⟨e1, e2⟩ := era_div era yoe hy
  simp only [daysFromCivil, e1, e2]
  omega

/-- the fields produced by `civilFromDays` are a valid calendar date -/
theorem civilFromDays_valid (z : Int) :
    (civilFromDays z).2.1 < 12 ∧ 1 ≤ (civilFromDays z).2.2 ∧
    (civilFromDays z).2.2 ≤ monthLen (isLeap ((civilFromDays z).1 % 400).toNat) (civilFromDays z).2.1 := by
  obtain ⟨era, yoe, doy, hy, hd, hz, hc⟩ := civil_parts z
  rw [hc]
  obtain ⟨m0, m1, m2⟩ := findMonth_spec (isLeap yoe) doy hd
  obtain ⟨e1, e2⟩ := era_div era yoe hy
  simp only [e2]
  have := dbm_mono_succ (isLeap yoe) _ m0
  refine ⟨m0, by omega, by omega⟩

/-- **timegm then gmtime (days part)**: on every valid date (any year, month 0..11, day within the month) -/
theorem civilFromDays_daysFromCivil (y : Int) (m d : Nat) (hm : m < 12) (hd1 : 1 ≤ d)
    (hd2 : d ≤ monthLen (isLeap (y % 400).toNat) m) :
    civilFromDays (daysFromCivil y m d) = (y, m, d) := by
  have hyoe_nn : 0 ≤ y % 400 := Int.emod_nonneg _ (by decide)
  have hyoe_lt : y % 400 < 400 := Int.emod_lt_of_pos _ (by decide)
  have hsplit := Int.mul_ediv_add_emod y 400
  obtain ⟨yoe, hyoe⟩ : ∃ yoe : Nat, (y % 400) = (yoe : Int) := ⟨(y % 400).toNat, by omega⟩
  have hy400 : yoe < 400 := by omega
  rw [hyoe] at hd2
  simp only [Int.toNat_natCast] at hd2
  have hms := dbm_mono_succ (isLeap yoe) m hm
  have h12 := dbm_le_12 (isLeap yoe) m hm
  have hys := dby_succ' yoe
  have hmono := dby_mono (show yoe + 1 ≤ 400 by omega)
  rw [dby_400] at hmono
  -- day of era
  have hdoe : daysFromCivil y m d + 719528 = (y / 400) * 146097 + ((dby yoe + dbm (isLeap yoe) m + (d - 1) : Nat) : Int) := by
    simp only [daysFromCivil, hyoe, Int.toNat_natCast]; omega
  have hdoe_lt : dby yoe + dbm (isLeap yoe) m + (d - 1) < 146097 := by omega
  have hq : (daysFromCivil y m d + 719528) / 146097 = y / 400 := by rw [hdoe]; omega
  have hr : ((daysFromCivil y m d + 719528) % 146097).toNat = dby yoe + dbm (isLeap yoe) m + (d - 1) := by rw [hdoe]; omega
  have hfy : findYear (dby yoe + dbm (isLeap yoe) m + (d - 1)) = yoe :=
    findYear_unique _ yoe hdoe_lt (by omega) (by omega)
  have hfm : findMonth (isLeap yoe) (dbm (isLeap yoe) m + (d - 1)) = m :=
    findMonth_unique _ _ m hm (by omega) (by omega)
  simp only [civilFromDays, hq, hr, hfy]
  rw [show dby yoe + dbm (isLeap yoe) m + (d - 1) - dby yoe = dbm (isLeap yoe) m + (d - 1) by omega, hfm]
  refine Prod.ext ?_ (Prod.ext rfl ?_)
  · simp only; omega
  · simp only; omega


/-! ### the closed-form calendar equals the calendar counted year by year (Spec) -/

open Asn1c.Spec.Time in
theorem isLeap_eq_spec (y : Nat) : isLeap y = leapYear y := rfl

theorem isLeap_mod400 (y : Nat) : isLeap (y % 400) = isLeap y := by
  unfold isLeap
  have h4 : y % 400 % 4 = y % 4 := by omega
  have h100 : y % 400 % 100 = y % 100 := by omega
  have h400 : y % 400 % 400 = y % 400 := by omega
  rw [h4, h100, h400]

open Asn1c.Spec.Time in
/-- closed form (era · 146097 + dby (year of era)) = days counted year by year -/
theorem eraForm_eq_spec (Y : Nat) : (Y / 400) * 146097 + dby (Y % 400) = daysBeforeYear Y := by
  induction Y with
  | zero => simp [daysBeforeYear, dby_0]
  | succ Y ih =>
    unfold daysBeforeYear yearLen
    rw [← ih, ← isLeap_eq_spec, ← isLeap_mod400 Y]
    by_cases hw : Y % 400 = 399
    · have e1 : (Y + 1) / 400 = Y / 400 + 1 := by omega
      have e2 : (Y + 1) % 400 = 0 := by omega
      rw [e1, e2, dby_0, hw]
      have h399 : dby 399 = 145732 := by decide
      have hl : isLeap 399 = false := by decide
      rw [h399, hl]; simp; omega
    · have e1 : (Y + 1) / 400 = Y / 400 := by omega
      have e2 : (Y + 1) % 400 = Y % 400 + 1 := by omega
      rw [e1, e2, dby_succ]
      split <;> simp_all <;> omega

open Asn1c.Spec.Time in
theorem dbm_eq_spec (Y M : Nat) (h1 : 1 ≤ M) (h2 : M ≤ 12) :
    dbm (isLeap Y) (M - 1) = ((monthLens Y).take (M - 1)).sum := by
  have hm : M = 1 ∨ M = 2 ∨ M = 3 ∨ M = 4 ∨ M = 5 ∨ M = 6 ∨ M = 7 ∨ M = 8 ∨ M = 9 ∨ M = 10 ∨ M = 11 ∨ M = 12 := by omega
  rw [isLeap_eq_spec]
  rcases hm with h | h | h | h | h | h | h | h | h | h | h | h <;> subst h <;>
    cases hl : leapYear Y <;> simp [dbm, monthLens, hl]

open Asn1c.Spec.Time in
theorem monthLen_eq_spec (Y M : Nat) (h1 : 1 ≤ M) (h2 : M ≤ 12) :
    monthLen (isLeap Y) (M - 1) = (monthLens Y).getD (M - 1) 0 := by
  have hm : M = 1 ∨ M = 2 ∨ M = 3 ∨ M = 4 ∨ M = 5 ∨ M = 6 ∨ M = 7 ∨ M = 8 ∨ M = 9 ∨ M = 10 ∨ M = 11 ∨ M = 12 := by omega
  rw [isLeap_eq_spec]
  rcases hm with h | h | h | h | h | h | h | h | h | h | h | h <;> subst h <;>
    cases hl : leapYear Y <;> simp [monthLen, dbm, monthLens, hl]

open Asn1c.Spec.Time in
/-- **the calendar model is the Gregorian calendar**: for every year ≥ 0, month 1..12 and day ≥ 1 -/
theorem daysFromCivil_eq_spec (Y M D : Nat) (h1 : 1 ≤ M) (h2 : M ≤ 12) (hd : 1 ≤ D) :
    daysFromCivil (Y : Int) (M - 1) (D : Int) = (dayNumber Y M D : Int) - 719528 := by
  have e1 : ((Y : Int) % 400).toNat = Y % 400 := by omega
  have e2 : (Y : Int) / 400 = ((Y / 400 : Nat) : Int) := by omega
  have hs := eraForm_eq_spec Y
  have hm := dbm_eq_spec Y M h1 h2
  simp only [daysFromCivil, e1, e2, isLeap_mod400, dayNumber]
  rw [← hs, ← hm]
  push_cast
  omega

open Asn1c.Spec.Time in
theorem dayNumber_epoch : dayNumber 1970 1 1 = 719528 := by
  have := eraForm_eq_spec 1970
  simp [dayNumber, monthLens]
  rw [← this]; decide

/-! ### timegm / gmtime, printf -/
open Asn1c.Spec.Time

theorem timegm_gmtime (t : Int) : timegm (gmtime t) = t := by
  have hv := civilFromDays_valid (t / 86400)
  have hd := daysFromCivil_civilFromDays (t / 86400)
  have hm : ((civilFromDays (t / 86400)).2.1 : Int) / 12 = 0 := by omega
  have hm2 : (((civilFromDays (t / 86400)).2.1 : Int) % 12).toNat = (civilFromDays (t / 86400)).2.1 := by omega
  simp only [timegm, gmtime, hm, hm2]
  rw [show (civilFromDays (t / 86400)).1 - 1900 + 1900 + 0 = (civilFromDays (t / 86400)).1 by omega, hd]
  omega

theorem timegm_sec_shift (tm : Tm) (k : Int) : timegm { tm with sec := tm.sec - k } = timegm tm - k := by
  simp only [timegm]; omega

theorem forceGmt_normalises (t off : Int) :
    (if True ∧ (localtime t off).gmtoff ≠ 0 then
        gmtime (timegm { localtime t off with sec := (localtime t off).sec - (localtime t off).gmtoff })
     else localtime t off) = gmtime t := by
  by_cases h : off = 0
  · subst h; simp [localtime, gmtime]
  · have : (localtime t off).gmtoff = off := rfl
    rw [this, if_pos ⟨trivial, h⟩, timegm_sec_shift]
    have : timegm (localtime t off) = t + off := by
      have := timegm_gmtime (t + off)
      simpa [localtime, timegm] using this
    rw [this]; congr 1; omega

theorem decDigits_lt10 (n : Nat) (h : n < 10) : decDigits n = [48 + n] := by
  rw [decDigits]; simp [h]

theorem decDigits_lt100 (n : Nat) (h1 : 10 ≤ n) (h : n < 100) : decDigits n = [48 + n / 10, 48 + n % 10] := by
  rw [decDigits, if_neg (by omega), decDigits_lt10 _ (by omega)]; rfl

theorem decDigits_lt1000 (n : Nat) (h1 : 100 ≤ n) (h : n < 1000) :
    decDigits n = [48 + n / 100, 48 + n / 10 % 10, 48 + n % 10] := by
  rw [decDigits, if_neg (by omega), decDigits_lt100 _ (by omega) (by omega)]
  simp; omega

theorem decDigits_lt10000 (n : Nat) (h1 : 1000 ≤ n) (h : n < 10000) :
    decDigits n = [48 + n / 1000, 48 + n / 100 % 10, 48 + n / 10 % 10, 48 + n % 10] := by
  rw [decDigits, if_neg (by omega), decDigits_lt1000 _ (by omega) (by omega)]
  simp; omega

theorem fmtD2 (v : Int) (h0 : 0 ≤ v) (h1 : v ≤ 99) : fmtD 2 v = digits2 v.toNat := by
  obtain ⟨n, rfl⟩ : ∃ n : Nat, v = n := ⟨v.toNat, by omega⟩
  simp only [fmtD, Int.toNat_natCast, digits2]
  rw [if_neg (by omega)]
  by_cases h : n < 10
  · rw [decDigits_lt10 n h]; simp; omega
  · rw [decDigits_lt100 n (by omega) (by omega)]; simp; omega

theorem fmtD4 (v : Int) (h0 : 0 ≤ v) (h1 : v ≤ 9999) : fmtD 4 v = digits4 v.toNat := by
  obtain ⟨n, rfl⟩ : ∃ n : Nat, v = n := ⟨v.toNat, by omega⟩
  simp only [fmtD, Int.toNat_natCast, digits4]
  rw [if_neg (by omega)]
  by_cases h : n < 10
  · rw [decDigits_lt10 n h]; simp; omega
  · by_cases h' : n < 100
    · rw [decDigits_lt100 n (by omega) (by omega)]; simp; omega
    · by_cases h'' : n < 1000
      · rw [decDigits_lt1000 n (by omega) (by omega)]; simp; omega
      · rw [decDigits_lt10000 n (by omega) (by omega)]; simp; omega

/-! ### parsing canonical text -/

theorem b2f_digit (var : Int) (d : Nat) (hd : d < 10) (r : Bytes) :
    b2f var ((48 + d) :: r) = some (var * 10 + d, r) := by
  simp only [b2f]
  rw [if_neg (by omega)]
  congr 2; push_cast; omega

theorem b2f2_digits2 (var : Int) (n : Nat) (h : n < 100) (r : Bytes) :
    b2f2 var (digits2 n ++ r) = some (var * 100 + n, r) := by
  simp only [b2f2, digits2, List.cons_append, List.nil_append]
  rw [b2f_digit _ _ (by omega)]
  simp only
  rw [b2f_digit _ _ (by omega)]
  congr 2; push_cast; omega

theorem digits4_split (Y : Nat) (_h : Y ≤ 9999) : digits4 Y = digits2 (Y / 100) ++ digits2 (Y % 100) := by
  simp only [digits4, digits2, List.cons_append, List.nil_append]
  congr 2 <;> [skip; congr 2] <;> omega

theorem gtAfterHour_canon (m s : Nat) (hm : m < 100) (hs : s < 100) :
    gtAfterHour (digits2 m ++ digits2 s ++ [0x5a]) = some ⟨m, s, 0, 0, true, 0⟩ := by
  simp only [digits2, List.cons_append, List.nil_append, gtAfterHour]
  rw [if_pos (by omega)]
  simp only [List.cons_ne_nil, if_false]
  rw [show ((48 + m / 10 % 10 : Nat) : Int) - 48 = ((m / 10 % 10 : Nat) : Int) by push_cast; omega]
  rw [b2f_digit _ _ (by omega)]
  simp only [gtAfterMin]
  rw [if_pos (by omega)]
  simp only [List.cons_ne_nil, if_false]
  rw [show ((48 + s / 10 % 10 : Nat) : Int) - 48 = ((s / 10 % 10 : Nat) : Int) by push_cast; omega]
  rw [b2f_digit _ _ (by omega)]
  simp only [gtAfterSec, gtZone]
  rw [if_neg (by decide), if_neg (by decide), if_pos trivial]
  congr 2 <;> omega


/-- parsing a canonical text: the ten leading digits, the tail, the validation -/
theorem GT2timeFrac_canon (lo : Int) (g : Bool) (Y M D h m s : Nat) (hv : ValidDateTime Y M D h m s) :
    GT2timeFrac lo (gtCanon Y M D h m s) g =
      .ok (epochSeconds Y M D h m s) 0 0
        (if g then gmtime (epochSeconds Y M D h m s) else localtime (epochSeconds Y M D h m s) lo) := by
  obtain ⟨hY, hM1, hM2, hD1, hD2, hh, hm, hs⟩ := hv
  have hD31 : D ≤ 31 := by
    have := monthLen_eq_spec Y M hM1 hM2
    have := monthLen_le (isLeap Y) (M - 1) (by omega)
    omega
  unfold GT2timeFrac
  have hlen : (gtCanon Y M D h m s).length = 15 := by simp [gtCanon, digits4, digits2]
  rw [if_neg (by omega)]
  simp only [gtCanon, digits4_split Y hY, List.append_assoc]
  rw [b2f2_digits2 _ _ (by omega)]
  simp only
  rw [b2f2_digits2 _ _ (by omega)]
  simp only
  rw [b2f2_digits2 _ _ (by omega)]
  simp only
  rw [b2f2_digits2 _ _ (by omega)]
  simp only
  rw [b2f2_digits2 _ _ (by omega)]
  simp only
  rw [← List.append_assoc (digits2 m), gtAfterHour_canon m s (by omega) (by omega)]
  simp only
  rw [if_neg (by omega)]
  have hyear : (0 * 100 + ((Y / 100 : Nat) : Int)) * 100 + ((Y % 100 : Nat) : Int) = Y := by omega
  have ht : timegm { sec := (s : Int) - 0, min := m, hour := 0 * 100 + (h : Int), mday := 0 * 100 + (D : Int),
                     mon := 0 * 100 + (M : Int) - 1, year := (0 * 100 + ((Y / 100 : Nat) : Int)) * 100 + ((Y % 100 : Nat) : Int) - 1900,
                     gmtoff := 0 } = epochSeconds Y M D h m s := by
    simp only [timegm, hyear, epochSeconds]
    have e1 : (0 * 100 + (M : Int) - 1) / 12 = 0 := by omega
    have e2 : ((0 * 100 + (M : Int) - 1) % 12).toNat = M - 1 := by omega
    rw [e1, e2, show (Y : Int) - 1900 + 1900 + 0 = Y by omega, show 0 * 100 + (D : Int) = D by omega,
        daysFromCivil_eq_spec Y M D hM1 hM2 hD1]
    omega
  simp only [if_true, ht]

/-! ### asn_time2GT in forced-GMT form -/

/-- forced-GMT output does not depend on the zone offset the `struct tm` was produced with -/
theorem time2GTfrac_zone_independent (t off fv fd : Int) :
    time2GTfrac (localtime t off) fv fd true = time2GTfrac (gmtime t) fv fd true := by
  have h1 := forceGmt_normalises t off
  have h2 := forceGmt_normalises t 0
  have e0 : localtime t 0 = gmtime t := by simp [localtime, gmtime]
  rw [e0] at h2
  unfold time2GTfrac
  simp only [true_and, if_true] at h1 h2 ⊢
  rw [h1, h2]

/-- the calendar fields of an instant in the years 0000..9999 -/
theorem civil_year_range (t : Int) (h0 : t0000 ≤ t) (h1 : t < t10000) :
    0 ≤ (civilFromDays (t / 86400)).1 ∧ (civilFromDays (t / 86400)).1 ≤ 9999 := by
  unfold t0000 at h0; unfold t10000 at h1
  obtain ⟨era, yoe, doy, hy, hd, hz, hc⟩ := civil_parts (t / 86400)
  rw [hc]
  have hys := dby_succ' yoe
  have hmono := dby_mono (show yoe + 1 ≤ 400 by omega)
  rw [dby_400] at hmono
  simp only
  constructor <;> omega


/-- `asn_time2GT(localtime(t), force_gmt = 1)` for an instant in the years 0000..9999: the text is the
    canonical "YYYYMMDDHHMMSSZ" of a valid UTC date-time that denotes `t` -/
theorem time2GT_canon (t off : Int) (h0 : t0000 ≤ t) (h1 : t < t10000) :
    ∃ Y M D h m s, ValidDateTime Y M D h m s ∧ epochSeconds Y M D h m s = t ∧
      time2GTfrac (localtime t off) 0 0 true = some (gtCanon Y M D h m s) := by
  obtain ⟨hy0, hy1⟩ := civil_year_range t h0 h1
  obtain ⟨v1, v2, v3⟩ := civilFromDays_valid (t / 86400)
  have hd := daysFromCivil_civilFromDays (t / 86400)
  rw [time2GTfrac_zone_independent]
  generalize hc : civilFromDays (t / 86400) = c at *
  obtain ⟨cy, cm, cd⟩ := c
  simp only at hy0 hy1 v1 v2 v3 hd
  obtain ⟨Y, rfl⟩ : ∃ Y : Nat, cy = Y := ⟨cy.toNat, by omega⟩
  have hr0 : 0 ≤ t % 86400 := Int.emod_nonneg _ (by decide)
  have hr1 : t % 86400 < 86400 := Int.emod_lt_of_pos _ (by decide)
  obtain ⟨r, hr⟩ : ∃ r : Nat, t % 86400 = r := ⟨(t % 86400).toNat, by omega⟩
  have hsplit := Int.mul_ediv_add_emod t 86400
  have hM1 : 1 ≤ cm + 1 := by omega
  have hM2 : cm + 1 ≤ 12 := by omega
  have hspec := daysFromCivil_eq_spec Y (cm + 1) cd hM1 hM2 v2
  rw [show cm + 1 - 1 = cm by omega] at hspec
  have hml := monthLen_eq_spec Y (cm + 1) hM1 hM2
  rw [show cm + 1 - 1 = cm by omega] at hml
  have e400 : ((Y : Int) % 400).toNat = Y % 400 := by omega
  rw [e400, isLeap_mod400, hml] at v3
  have hD31 : cd ≤ 31 := by
    have := monthLen_le (isLeap Y) cm v1; omega
  refine ⟨Y, cm + 1, cd, r / 3600, r / 60 % 60, r % 60, ?_, ?_, ?_⟩
  · refine ⟨by omega, hM1, hM2, v2, ?_, by omega, by omega, by omega⟩
    rw [show cm + 1 - 1 = cm by omega]; exact v3
  · simp only [epochSeconds]
    rw [← hspec, hd]
    push_cast
    omega
  · have hg : gmtime t = { sec := ((r % 60 : Nat) : Int), min := ((r / 60 % 60 : Nat) : Int), hour := ((r / 3600 : Nat) : Int),
                            mday := (cd : Int), mon := (cm : Int), year := (Y : Int) - 1900, gmtoff := 0 } := by
      simp only [gmtime, hc, hr]
      congr 1
    rw [hg]
    unfold time2GTfrac
    simp only [ne_eq, not_true_eq_false, and_false, if_false]
    rw [fmtD4 _ (by omega) (by omega), fmtD2 _ (by omega) (by omega), fmtD2 _ (by omega) (by omega),
        fmtD2 _ (by omega) (by omega), fmtD2 _ (by omega) (by omega), fmtD2 _ (by omega) (by omega)]
    have hft : fracText 0 0 = [] := by simp [fracText]
    rw [hft]
    have e1 : ((Y : Int) - 1900 + 1900).toNat = Y := by omega
    have e2 : ((cm : Int) + 1).toNat = cm + 1 := by omega
    simp only [e1, e2, Int.toNat_natCast, gtCanon, digits4, digits2, List.length_append, List.length_cons, List.length_nil,
      List.append_nil]
    simp

/-! ### UTCTime -/

theorem utCanon_eq_drop (Y M D h m s : Nat) : utCanon Y M D h m s = (gtCanon Y M D h m s).drop 2 := by
  simp only [utCanon, gtCanon, digits4, digits2, List.cons_append, List.nil_append, List.drop_succ_cons, List.drop_zero]

/-- `asn_UT2time` on a canonical UTCTime text is `asn_GT2time` on the text with the window's century -/
theorem UT2time_canon (lo : Int) (g : Bool) (Y M D h m s : Nat) :
    UT2time lo (utCanon Y M D h m s) g = GT2timeFrac lo (gtCanon (utWindow Y) M D h m s) g := by
  unfold UT2time GT2time
  have hlen : (utCanon Y M D h m s).length = 13 := by simp [utCanon, digits2]
  rw [if_neg (by omega)]
  simp only [utCanon, digits2, List.cons_append, List.nil_append]
  by_cases hw : Y % 100 ≥ 60
  · rw [if_pos (by omega)]
    have e1 : (1900 + Y % 100) / 1000 % 10 = 1 := by omega
    have e2 : (1900 + Y % 100) / 100 % 10 = 9 := by omega
    have e3 : (1900 + Y % 100) / 10 % 10 = Y / 10 % 10 := by omega
    have e4 : (1900 + Y % 100) % 10 = Y % 10 := by omega
    simp only [utWindow, if_pos hw, gtCanon, digits4, digits2, List.cons_append, List.nil_append, e1, e2, e3, e4]
  · rw [if_neg (by omega)]
    have e1 : (2000 + Y % 100) / 1000 % 10 = 2 := by omega
    have e2 : (2000 + Y % 100) / 100 % 10 = 0 := by omega
    have e3 : (2000 + Y % 100) / 10 % 10 = Y / 10 % 10 := by omega
    have e4 : (2000 + Y % 100) % 10 = Y % 10 := by omega
    simp only [utWindow, if_neg hw, gtCanon, digits4, digits2, List.cons_append, List.nil_append, e1, e2, e3, e4]

theorem utWindow_id (Y : Nat) (h1 : 1960 ≤ Y) (h2 : Y ≤ 2059) : utWindow Y = Y := by
  unfold utWindow; split <;> omega

/-! year bounds of an instant -/

theorem daysBeforeYear_mono {a b : Nat} (h : a ≤ b) : daysBeforeYear a ≤ daysBeforeYear b :=
  mono_of_step daysBeforeYear (fun m => by simp [daysBeforeYear]) h

theorem dayNumber_lt_next_year (Y M D : Nat) (h1 : 1 ≤ M) (h2 : M ≤ 12) (hd1 : 1 ≤ D)
    (hd2 : D ≤ (monthLens Y).getD (M - 1) 0) : dayNumber Y M D < daysBeforeYear (Y + 1) := by
  have hm : M = 1 ∨ M = 2 ∨ M = 3 ∨ M = 4 ∨ M = 5 ∨ M = 6 ∨ M = 7 ∨ M = 8 ∨ M = 9 ∨ M = 10 ∨ M = 11 ∨ M = 12 := by omega
  simp only [dayNumber, daysBeforeYear, yearLen]
  rcases hm with h | h | h | h | h | h | h | h | h | h | h | h <;> subst h <;>
    cases hl : leapYear Y <;> simp [monthLens, hl] at hd2 ⊢ <;> omega

theorem daysBeforeYear_1960 : daysBeforeYear 1960 = 715875 := by rw [← eraForm_eq_spec]; decide
theorem daysBeforeYear_2060 : daysBeforeYear 2060 = 752400 := by rw [← eraForm_eq_spec]; decide

/-- an instant in [1960-01-01, 2060-01-01) has a year in 1960..2059 -/
theorem year_in_window (Y M D h m s : Nat) (hv : ValidDateTime Y M D h m s)
    (h0 : t1960 ≤ epochSeconds Y M D h m s) (h1 : epochSeconds Y M D h m s < t2060) : 1960 ≤ Y ∧ Y ≤ 2059 := by
  obtain ⟨_, hM1, hM2, hD1, hD2, hh, hm, hs⟩ := hv
  have hn := dayNumber_lt_next_year Y M D hM1 hM2 hD1 hD2
  have hge : daysBeforeYear Y ≤ dayNumber Y M D := by simp only [dayNumber]; omega
  unfold t1960 at h0; unfold t2060 at h1
  simp only [epochSeconds] at h0 h1
  constructor
  · by_contra hc
    have := daysBeforeYear_mono (show Y + 1 ≤ 1960 by omega)
    rw [daysBeforeYear_1960] at this; omega
  · by_contra hc
    have := daysBeforeYear_mono (show 2060 ≤ Y by omega)
    rw [daysBeforeYear_2060] at this; omega

end Asn1c.Proofs.Time
