import Asn1cModel.Proofs.Unber
/-
  The nesting limit of `process_deeper` (`UNBER_MAX_NESTING_LEVEL`, `Impl.Unber.maxLevel`; the F41 repair):

  * `unberOuts_nest`   — the former crash witness: input that opens more than `maxLevel` nested indefinite-length
                         SEQUENCEs (`30 80 30 80 …`, whatever follows) ends with the diagnostic `tooDeep`;
  * `unberOuts_deep`   — every well-formed forest (within the other limits) nested deeper than `maxLevel`
                         ends with the diagnostic `tooDeep`;
  * `unberOuts_levels` — on arbitrary bytes, every element printed sits at a level ≤ `maxLevel`: no activation of
                         `process_deeper` ever runs above that level (bounded C stack).
-/
set_option linter.unusedSimpArgs false

namespace Asn1c.Proofs.UnberDepth
open Asn1c Asn1c.Impl.UnberTlv Asn1c.Impl.Unber Asn1c.Spec.TlvForest Asn1c.Proofs.UnberTlv Asn1c.Proofs.Unber

/-! ### the former witness: `30 80` repeated -/

/-- `30 80` (SEQUENCE, indefinite length) repeated `n` times -/
def nest : Nat → Bytes
  | 0 => []
  | n + 1 => 0x30 :: 0x80 :: nest n

theorem nest_add (a b : Nat) : nest (a + b) = nest a ++ nest b := by
  induction a with
  | zero => simp [nest]
  | succ a ih => rw [show a + 1 + b = (a + b) + 1 by omega]; simp [nest, ih]

theorem nest_eq_replicate (n : Nat) : nest n = (List.replicate n [0x30, 0x80]).flatten := by
  induction n with
  | zero => rfl
  | succ n ih => simp [nest, List.replicate_succ, ih]

theorem nest_length (n : Nat) : (nest n).length = 2 * n := by
  induction n with
  | zero => rfl
  | succ n ih => simp [nest, ih]; omega

/-- reading `30 80` at the head of the loop, no limit set -/
theorem pd_open_indef (f level : Nat) (eoc : Bool) (esize : Nat) (pdc : Pdc) (rest : Bytes) (off : Nat) :
    pd (f + 2) level eoc [] (-1) esize pdc (0x30 :: 0x80 :: rest) off
      = afterTL (pd f) level eoc [0x30, 0x80] (-1) esize pdc rest (off + 2) 64 (-1) true false := by
  simp [pd, fetchTag, fetchLength]

/-- the nesting test fires -/
theorem afterTL_open_deep (rec : Loop) (level : Nat) (eoc : Bool) (esize : Nat) (pdc : Pdc) (rest : Bytes)
    (off : Nat) (h : level + 1 > maxLevel) :
    afterTL rec level eoc [0x30, 0x80] (-1) esize pdc rest off 64 (-1) true false
      = .failed .tooDeep [.opn level true (off - 2) 2 64 (-1), .gt] := by
  simp [afterTL, h]

/-- a failure of the child activation is passed on -/
theorem afterTL_open_fail (rec : Loop) (level : Nat) (eoc : Bool) (esize : Nat) (pdc : Pdc) (rest : Bytes)
    (off : Nat) (e : Err) (o2 : List Out) (h : ¬ level + 1 > maxLevel)
    (hchild : rec (level + 1) true [] (-1) 2 .finished rest off = .failed e o2) :
    afterTL rec level eoc [0x30, 0x80] (-1) esize pdc rest off 64 (-1) true false
      = .failed e ([.opn level true (off - 2) 2 64 (-1), .gt] ++ o2) := by
  simp [afterTL, h, hchild, R.pre]

/-- `k + 1` openings starting at level `maxLevel - k`: the last one is refused -/
theorem pd_nest_deep : ∀ (k level : Nat), level + k = maxLevel →
    ∀ (f : Nat) (eoc : Bool) (esize : Nat) (pdc : Pdc) (rest : Bytes) (off : Nat), 2 * (k + 1) ≤ f →
    ∃ out, pd f level eoc [] (-1) esize pdc (nest (k + 1) ++ rest) off = .failed .tooDeep out := by
  intro k
  induction k with
  | zero =>
    intro level hl f eoc esize pdc rest off hf
    obtain ⟨g, rfl⟩ : ∃ g, f = g + 2 := ⟨f - 2, by omega⟩
    simp only [nest, List.cons_append, List.nil_append]
    rw [pd_open_indef, afterTL_open_deep _ _ _ _ _ _ _ (by omega)]
    exact ⟨_, rfl⟩
  | succ k ih =>
    intro level hl f eoc esize pdc rest off hf
    obtain ⟨g, rfl⟩ : ∃ g, f = g + 2 := ⟨f - 2, by omega⟩
    rw [show nest (k + 1 + 1) = 0x30 :: 0x80 :: nest (k + 1) from rfl]
    simp only [List.cons_append]
    rw [pd_open_indef]
    obtain ⟨o2, h2⟩ := ih (level + 1) (by omega) g true 2 .finished rest (off + 2) (by omega)
    rw [afterTL_open_fail _ _ _ _ _ _ _ _ _ (by omega) h2]
    exact ⟨_, rfl⟩

/-- **`30 80` repeated more than `maxLevel` times** (whatever follows): `unber -p` stops with the
    nesting diagnostic. -/
theorem unberOuts_nest (n : Nat) (rest : Bytes) (h : maxLevel < n) :
    (unberOuts (nest n ++ rest)).1 = .failed .tooDeep := by
  obtain ⟨m, rfl⟩ : ∃ m, n = (maxLevel + 1) + m := ⟨n - (maxLevel + 1), by omega⟩
  rw [nest_add, List.append_assoc]
  unfold unberOuts
  generalize hr : nest m ++ rest = r
  have hlen : (nest (maxLevel + 1) ++ r).length = 2 * (maxLevel + 1) + r.length := by
    rw [List.length_append, nest_length]
  rw [hlen, stream]
  obtain ⟨out, ho⟩ := pd_nest_deep maxLevel 0 (by omega) ((nest (maxLevel + 1) ++ r).length + 1) false 0 .finished r 0
    (by rw [hlen]; omega)
  rw [ho]

/-! ### well-formed forests nested too deeply -/

/-- `process_deeper` run at a level from which the TLV `t` reaches beyond `maxLevel` fails with `tooDeep` -/
def DeepG (t : Tlv) : Prop :=
  t.wf = true → t.inDomain = true →
  ∀ (fuel level : Nat) (eoc : Bool) (limit : Int) (esize : Nat) (pdc : Pdc) (rest : Bytes) (off : Nat),
    level ≤ maxLevel → level + t.depth > maxLevel →
    (limit = -1 ∨ (t.encode.length : Int) ≤ limit) → t.encode.length + 1 ≤ fuel →
    ∃ out, pd fuel level eoc [] limit esize pdc (t.encode ++ rest) off = .failed .tooDeep out

theorem afterTL_cons_deep (rec : Loop) (level : Nat) (eoc : Bool) (hdr : Bytes) (limit : Int) (esize : Nat)
    (pdc : Pdc) (inp : Bytes) (off tag v : Nat)
    (hlim : limit = -1 ∨ ((hdr.length + v : Nat) : Int) ≤ limit) (hlev : level + 1 > maxLevel) :
    afterTL rec level eoc hdr limit esize pdc inp off tag (Int.ofNat v) true false
      = .failed .tooDeep [.opn level true (off - hdr.length) hdr.length tag v, .gt] := by
  unfold afterTL
  have hv : ¬ ((v : Int) = -1) := by omega
  rcases hlim with hl | hl
  · subst hl
    simp [hv, hlev]
  · by_cases hm : limit = -1
    · omega
    · push_cast at hl
      have h1 : ¬ (limit - (hdr.length : Int) < 0) := by omega
      have h2 : ¬ ((v : Int) > limit - (hdr.length : Int)) := by omega
      have h4 : ¬ (limit - (hdr.length : Int) < (v : Int)) := by omega
      simp only [hm, h1, h2, h4, hv, hlev, if_false, Int.ofNat_eq_natCast,
        Bool.false_eq_true, ne_eq, not_false_eq_true, true_and, and_false, false_and, and_true,
        List.cons_append, List.nil_append, not_true_eq_false, if_true, List.append_assoc]

theorem afterTL_cons_fail (rec : Loop) (level : Nat) (eoc : Bool) (hdr : Bytes) (limit : Int) (esize : Nat)
    (pdc : Pdc) (inp : Bytes) (off tag v : Nat) (e : Err) (o2 : List Out)
    (hlim : limit = -1 ∨ ((hdr.length + v : Nat) : Int) ≤ limit) (hlev : level + 1 ≤ maxLevel)
    (hchild : rec (level + 1) false [] (v : Int) hdr.length .finished inp off = .failed e o2) :
    afterTL rec level eoc hdr limit esize pdc inp off tag (Int.ofNat v) true false
      = .failed e ([.opn level true (off - hdr.length) hdr.length tag v, .gt] ++ o2) := by
  unfold afterTL
  have hb : ((v : Int) == -1) = false := by rw [beq_eq_false_iff_ne]; omega
  have hv : ¬ ((v : Int) = -1) := by omega
  have hdeep : ¬ (level + 1 > maxLevel) := by omega
  rcases hlim with hl | hl
  · subst hl
    simp [hb, hv, hchild, hdeep, R.pre]
  · by_cases hm : limit = -1
    · omega
    · push_cast at hl
      have h1 : ¬ (limit - (hdr.length : Int) < 0) := by omega
      have h2 : ¬ ((v : Int) > limit - (hdr.length : Int)) := by omega
      have h4 : ¬ (limit - (hdr.length : Int) < (v : Int)) := by omega
      simp only [hm, h1, h2, h4, hb, hv, hchild, hdeep, R.pre, if_false, Int.ofNat_eq_natCast,
        Bool.false_eq_true, ne_eq, not_false_eq_true, true_and, and_false, false_and, and_true,
        List.cons_append, List.nil_append, not_true_eq_false, if_true, List.append_assoc]

theorem afterTL_indef_deep (rec : Loop) (level : Nat) (eoc : Bool) (hdr : Bytes) (limit : Int) (esize : Nat)
    (pdc : Pdc) (inp : Bytes) (off tag : Nat)
    (hlim : limit = -1 ∨ ((hdr.length : Nat) : Int) ≤ limit) (hlev : level + 1 > maxLevel) :
    afterTL rec level eoc hdr limit esize pdc inp off tag (-1) true false
      = .failed .tooDeep [.opn level true (off - hdr.length) hdr.length tag (-1), .gt] := by
  unfold afterTL
  rcases hlim with hl | hl
  · subst hl
    simp [hlev]
  · by_cases hm : limit = -1
    · omega
    · have h1 : ¬ (limit - (hdr.length : Int) < 0) := by omega
      have h2 : ¬ ((-1 : Int) > limit - (hdr.length : Int)) := by omega
      simp only [hm, h1, h2, hlev, if_false,
        Bool.false_eq_true, ne_eq, not_false_eq_true, true_and, and_false, false_and, and_true,
        List.cons_append, List.nil_append, not_true_eq_false, if_true, List.append_assoc]

theorem afterTL_indef_fail (rec : Loop) (level : Nat) (eoc : Bool) (hdr : Bytes) (limit : Int) (esize : Nat)
    (pdc : Pdc) (inp : Bytes) (off tag : Nat) (e : Err) (o2 : List Out)
    (hlim : limit = -1 ∨ ((hdr.length : Nat) : Int) ≤ limit) (hlev : level + 1 ≤ maxLevel)
    (hchild : rec (level + 1) true [] (limSub limit hdr.length) hdr.length .finished inp off = .failed e o2) :
    afterTL rec level eoc hdr limit esize pdc inp off tag (-1) true false
      = .failed e ([.opn level true (off - hdr.length) hdr.length tag (-1), .gt] ++ o2) := by
  unfold afterTL
  unfold limSub at hchild
  have hdeep : ¬ (level + 1 > maxLevel) := by omega
  rcases hlim with hl | hl
  · subst hl
    simp at hchild
    simp [hchild, hdeep, R.pre]
  · by_cases hm : limit = -1
    · omega
    · simp only [hm, if_false] at hchild
      have h1 : ¬ (limit - (hdr.length : Int) < 0) := by omega
      have h2 : ¬ ((-1 : Int) > limit - (hdr.length : Int)) := by omega
      simp only [hm, h1, h2, hchild, hdeep, R.pre, if_false,
        Bool.false_eq_true, ne_eq, not_false_eq_true, true_and, and_false, false_and, and_true,
        List.cons_append, List.nil_append, not_true_eq_false, if_true, List.append_assoc,
        beq_self_eq_true]

theorem pre_addFrame_failed (o : List Out) (k : Nat) (r : R) (e : Err) (out : List Out)
    (h : r = .failed e out) : (r.addFrame k).pre o = .failed e (o ++ out) := by
  subst h; rfl

/-- the children of a definite-length container, one of them too deep -/
theorem list_def_deep (level : Nat) (rest : Bytes) : ∀ (ts : List Tlv), (∀ t ∈ ts, DeepG t) →
    wfList ts = true → inDomainList ts = true → level ≤ maxLevel → level + depthList ts > maxLevel →
    ∀ (fuel esize : Nat) (pdc : Pdc) (off : Nat), (encodeList ts).length + 1 ≤ fuel →
    ∃ out, pd fuel level false [] ((encodeList ts).length : Int) esize pdc (encodeList ts ++ rest) off
      = .failed .tooDeep out := by
  intro ts
  induction ts with
  | nil =>
    intro _ _ _ hle hd
    simp only [depthList] at hd; omega
  | cons t ts ih =>
    intro hD hwf hdom hle hd fuel esize pdc off hf
    rw [wfList_cons] at hwf
    rw [inDomainList_cons] at hdom
    rw [depthList_cons] at hd
    simp only [encodeList, List.length_append] at hf ⊢
    have hhl := headerLen_le_encode t
    rw [List.append_assoc]
    by_cases htd : level + t.depth > maxLevel
    · exact hD t (List.mem_cons_self ..) hwf.1 hdom.1 fuel level false _ esize pdc (encodeList ts ++ rest) off
        hle htd (by right; push_cast; omega) (by omega)
    · rw [nodeG_all t hwf.1 hdom.1 fuel level false _ esize pdc
        (encodeList ts ++ rest) off (by intro h; omega) (by omega) (by right; push_cast; omega) (by omega)]
      rw [if_neg (by omega)]
      have hl : limSub (((t.encode.length + (encodeList ts).length : Nat) : Int)) t.encode.length
          = ((encodeList ts).length : Int) := by
        unfold limSub; rw [if_neg (by omega)]; push_cast; omega
      rw [hl]
      obtain ⟨out, ho⟩ := ih (fun t' h => hD t' (List.mem_cons_of_mem _ h)) hwf.2 hdom.2 hle (by omega)
        (fuel - t.headerLen) (esize + t.encode.length) (pdcAfter t pdc) (off + t.encode.length) (by omega)
      exact ⟨_, pre_addFrame_failed _ _ _ _ _ ho⟩

/-- the children of an indefinite-length container, one of them too deep -/
theorem list_indef_deep (level : Nat) (rest : Bytes) : ∀ (ts : List Tlv), (∀ t ∈ ts, DeepG t) →
    wfList ts = true → inDomainList ts = true → level ≤ maxLevel → level + depthList ts > maxLevel →
    ∀ (fuel : Nat) (limit : Int) (esize : Nat) (pdc : Pdc) (off : Nat),
    (limit = -1 ∨ (((encodeList ts).length + 2 : Nat) : Int) ≤ limit) → (encodeList ts).length + 2 ≤ fuel →
    ∃ out, pd fuel level true [] limit esize pdc (encodeList ts ++ 0 :: 0 :: rest) off = .failed .tooDeep out := by
  intro ts
  induction ts with
  | nil =>
    intro _ _ _ hle hd
    simp only [depthList] at hd; omega
  | cons t ts ih =>
    intro hD hwf hdom hle hd fuel limit esize pdc off hlim hf
    rw [wfList_cons] at hwf
    rw [inDomainList_cons] at hdom
    rw [depthList_cons] at hd
    simp only [encodeList, List.length_append] at hf hlim ⊢
    have hhl := headerLen_le_encode t
    push_cast at hlim
    rw [List.append_assoc]
    by_cases htd : level + t.depth > maxLevel
    · exact hD t (List.mem_cons_self ..) hwf.1 hdom.1 fuel level true limit esize pdc
        (encodeList ts ++ 0 :: 0 :: rest) off hle htd (by omega) (by omega)
    · rw [nodeG_all t hwf.1 hdom.1 fuel level true limit esize pdc
        (encodeList ts ++ 0 :: 0 :: rest) off (by intro h; simp at h) (by omega) (by omega) (by omega)]
      rw [if_neg (by simp)]
      obtain ⟨out, ho⟩ := ih (fun t' h => hD t' (List.mem_cons_of_mem _ h)) hwf.2 hdom.2 hle (by omega)
        (fuel - t.headerLen) (limSub limit t.encode.length) (esize + t.encode.length) (pdcAfter t pdc)
        (off + t.encode.length)
        (by unfold limSub; split <;> [left; right] <;> [rfl; (push_cast; omega)]) (by omega)
      exact ⟨_, pre_addFrame_failed _ _ _ _ _ ho⟩

theorem deep_prim (c n : Nat) (lf : LenForm) (content : Bytes) : DeepG (.prim c n lf content) := by
  intro _ _ fuel level eoc limit esize pdc rest off hle hd
  simp only [Tlv.depth] at hd; omega

theorem deep_cons (c n : Nat) (lf : LenForm) (ch : List Tlv) (hch : ∀ t ∈ ch, DeepG t) :
    DeepG (.cons c n lf ch) := by
  intro hwf hdom fuel level eoc limit esize pdc rest off hle hd hlim hfuel
  simp only [Tlv.depth] at hd
  simp only [Tlv.wf, Bool.and_eq_true] at hwf
  obtain ⟨⟨htag, hvalid⟩, hwfc⟩ := hwf
  simp only [Tlv.inDomain, Tlv.headerLen, Bool.and_eq_true, decide_eq_true_eq] at hdom
  obtain ⟨⟨⟨hn, h32⟩, hv⟩, hdomc⟩ := hdom
  replace h32 := of_decide_eq_true h32
  simp only [Tlv.encode, List.length_append] at hlim hfuel ⊢
  generalize hvdef : (encodeList ch).length = v at *
  have hlb : lenOctets lf v ≠ [] := by cases lf <;> simp [lenOctets]
  generalize hhdr : identOctets c true n ++ lenOctets lf v = hdr
  have hhl : (identOctets c true n).length + (lenOctets lf v).length = hdr.length := by
    rw [← hhdr]; simp
  have H := pd_header c n true (lenOctets lf v) (Int.ofNat v) htag hn
    (by have := fetchLength_lenOctets lf v true [] _ hvalid hv (Nat.le_refl _)
        rwa [List.append_nil] at this)
    (fun p s hps hs => fetchLength_prefix lf v true p s hvalid hv hps hs)
    (by rw [hhdr]; omega) hlb
    hdr [] (by simp [hhdr]) (by rw [← hhdr]; simp [hlb])
    (fuel - hdr.length) level eoc limit esize pdc (encodeList ch ++ rest) off (by rw [hhdr]; omega)
  rw [hhdr] at H
  rw [hhl] at hlim hfuel
  rw [show hdr.length + (fuel - hdr.length) = fuel by omega] at H
  rw [show hdr ++ encodeList ch ++ rest = hdr ++ (encodeList ch ++ rest) by simp, H]
  by_cases hlev : level + 1 > maxLevel
  · rw [afterTL_cons_deep _ _ _ _ _ _ _ _ _ _ _ hlim hlev]
    exact ⟨_, rfl⟩
  · obtain ⟨o2, ho2⟩ := list_def_deep (level + 1) rest ch hch hwfc hdomc (by omega) (by omega)
      (fuel - hdr.length) hdr.length .finished (off + hdr.length) (by omega)
    rw [hvdef] at ho2
    rw [afterTL_cons_fail _ _ _ _ _ _ _ _ _ _ _ _ _ hlim (by omega) ho2]
    exact ⟨_, rfl⟩

theorem identOctets_length_le6 (c n : Nat) (hn : n < 2 ^ 30) : (identOctets c true n).length ≤ 6 := by
  by_cases h : n ≤ 30
  · rw [identOctets_short h]; simp
  · rw [identOctets_long h]
    simp only [List.length_cons, List.length_append, List.length_nil]
    have : (contOctets (n / 128)).length ≤ 4 := by
      have h1 : n / 128 < 2 ^ 23 := by omega
      generalize n / 128 = m at h1
      by_cases m0 : m = 0
      · subst m0; simp [contOctets_zero]
      rw [contOctets_pos m0]
      by_cases m1 : m / 128 = 0
      · rw [m1]; simp [contOctets_zero]
      rw [contOctets_pos m1]
      by_cases m2 : m / 128 / 128 = 0
      · rw [m2]; simp [contOctets_zero]
      rw [contOctets_pos m2]
      by_cases m3 : m / 128 / 128 / 128 = 0
      · rw [m3]; simp [contOctets_zero]
      rw [contOctets_pos m3]
      have m4 : m / 128 / 128 / 128 / 128 = 0 := by omega
      rw [m4]; simp [contOctets_zero]
    omega

theorem deep_indef (c n : Nat) (ch : List Tlv) (hch : ∀ t ∈ ch, DeepG t) :
    DeepG (.indef c n ch) := by
  intro hwf hdom fuel level eoc limit esize pdc rest off hle hd hlim hfuel
  simp only [Tlv.depth] at hd
  simp only [Tlv.wf, Bool.and_eq_true] at hwf
  obtain ⟨htag, hwfc⟩ := hwf
  simp only [Tlv.inDomain, Bool.and_eq_true, decide_eq_true_eq] at hdom
  obtain ⟨hn, hdomc⟩ := hdom
  simp only [Tlv.encode, List.length_append, List.length_cons, List.length_nil] at hlim hfuel ⊢
  have hidl := identOctets_length_pos c true n
  have hid5 := identOctets_length_le6 c n hn
  generalize hhdr : identOctets c true n ++ [128] = hdr
  have hhl : (identOctets c true n).length + 1 = hdr.length := by rw [← hhdr]; simp
  have H := pd_header c n true [128] (-1) htag hn
    (by simp [fetchLength])
    (fun p s hps hs => by
      have : p = [] := by
        cases p with
        | nil => rfl
        | cons a p' =>
          exfalso
          have := congrArg List.length hps
          simp only [List.length_append, List.length_cons, List.length_nil] at this
          have h2 : 0 < s.length := List.length_pos_iff.mpr hs
          omega
      subst this; simp [fetchLength])
    (by rw [hhdr]; omega) (by simp)
    hdr [] (by simp [hhdr]) (by rw [← hhdr]; simp)
    (fuel - hdr.length) level eoc limit esize pdc (encodeList ch ++ 0 :: 0 :: rest) off
    (by rw [hhdr]; push_cast at hlim ⊢; omega)
  rw [hhdr] at H
  rw [hhl] at hlim hfuel
  rw [show hdr.length + (fuel - hdr.length) = fuel by omega] at H
  rw [show hdr ++ encodeList ch ++ [0, 0] ++ rest = hdr ++ (encodeList ch ++ 0 :: 0 :: rest) by simp, H]
  by_cases hlev : level + 1 > maxLevel
  · rw [afterTL_indef_deep _ _ _ _ _ _ _ _ _ _ (by push_cast at hlim ⊢; omega) hlev]
    exact ⟨_, rfl⟩
  · obtain ⟨o2, ho2⟩ := list_indef_deep (level + 1) rest ch hch hwfc hdomc (by omega) (by omega)
      (fuel - hdr.length) (limSub limit hdr.length) hdr.length .finished (off + hdr.length)
      (by unfold limSub; split <;> [left; right] <;> [rfl; (push_cast at hlim ⊢; omega)]) (by omega)
    rw [afterTL_indef_fail _ _ _ _ _ _ _ _ _ _ _ _ (by push_cast at hlim ⊢; omega) (by omega) ho2]
    exact ⟨_, rfl⟩

theorem deepG_all : ∀ (t : Tlv), DeepG t := by
  intro t
  generalize hs : sizeOf t = s
  induction s using Nat.strongRecOn generalizing t with
  | _ s ih =>
    cases t with
    | prim c n lf content => exact deep_prim c n lf content
    | cons c n lf ch =>
      apply deep_cons
      intro t' ht'
      have := List.sizeOf_lt_of_mem ht'
      exact ih (sizeOf t') (by rw [← hs]; simp; omega) t' rfl
    | indef c n ch =>
      apply deep_indef
      intro t' ht'
      have := List.sizeOf_lt_of_mem ht'
      exact ih (sizeOf t') (by rw [← hs]; simp; omega) t' rfl

theorem stream_deep : ∀ (ts : List Tlv), wfList ts = true → inDomainList ts = true →
    depthList ts > maxLevel → ∀ (fuel off : Nat), ts.length + 1 ≤ fuel →
    (stream fuel (encodeList ts) off).1 = .failed .tooDeep := by
  intro ts
  induction ts with
  | nil =>
    intro _ _ hd
    simp only [depthList] at hd; omega
  | cons t ts ih =>
    intro hwf hdom hd fuel off hf
    obtain ⟨f, rfl⟩ : ∃ f, fuel = f + 1 := ⟨fuel - 1, by simp at hf; omega⟩
    rw [wfList_cons] at hwf
    rw [inDomainList_cons] at hdom
    rw [depthList_cons] at hd
    simp only [stream, encodeList, List.length_append]
    by_cases htd : 0 + t.depth > maxLevel
    · obtain ⟨out, ho⟩ := deepG_all t hwf.1 hdom.1 (t.encode.length + (encodeList ts).length + 1) 0 false (-1) 0
        .finished (encodeList ts) off (by omega) htd (by simp) (by omega)
      rw [ho]
    · rw [nodeG_all t hwf.1 hdom.1 _ 0 false (-1) 0 .finished (encodeList ts) off (by simp) (by omega) (by simp)
        (by omega)]
      simp only [and_self, if_true, pdcAfter_finished]
      exact ih hwf.2 hdom.2 (by omega) f _ (by simp at hf; omega)

/-- **`unber -p` on the encoding of a well-formed forest nested deeper than `maxLevel`** (within the other
    limits of the tool) stops with the nesting diagnostic. -/
theorem unberOuts_deep (ts : List Tlv) (hwf : wfList ts = true) (hdom : inDomainList ts = true)
    (hd : depthList ts > maxLevel) : (unberOuts (encodeList ts)).1 = .failed .tooDeep := by
  unfold unberOuts
  exact stream_deep ts hwf hdom hd _ 0 (by have := encodeList_length_ge ts; omega)

/-! ### arbitrary input: no activation above `maxLevel` -/

def OutsOk (os : List Out) : Prop := ∀ o ∈ os, o.level ≤ maxLevel

/-- every event printed by (the rest of) an activation sits at a level ≤ `maxLevel` -/
def LevelsOk : R → Prop
  | .done _ _ _ _ out => OutsOk out
  | .failed _ out => OutsOk out
  | .oob out => OutsOk out
  | .assertion out => OutsOk out
  | .nofuel => True

theorem outsOk_nil : OutsOk [] := by intro o ho; simp at ho

theorem outsOk_append {a b : List Out} : OutsOk (a ++ b) ↔ OutsOk a ∧ OutsOk b := by
  unfold OutsOk; simp only [List.mem_append]
  constructor
  · intro h; exact ⟨fun o ho => h o (Or.inl ho), fun o ho => h o (Or.inr ho)⟩
  · rintro ⟨h1, h2⟩ o (ho | ho)
    · exact h1 o ho
    · exact h2 o ho

theorem outsOk_cons {x : Out} {b : List Out} : OutsOk (x :: b) ↔ x.level ≤ maxLevel ∧ OutsOk b := by
  unfold OutsOk; simp

theorem LevelsOk.pre {r : R} (o : List Out) (ho : OutsOk o) (h : LevelsOk r) : LevelsOk (r.pre o) := by
  cases r <;> simp only [R.pre, LevelsOk] at h ⊢ <;> exact outsOk_append.mpr ⟨ho, h⟩

theorem LevelsOk.addFrame {r : R} (k : Nat) (h : LevelsOk r) : LevelsOk (r.addFrame k) := by
  cases r <;> exact h

theorem levelsOk_ite {c : Prop} [Decidable c] {a b : R} (ha : LevelsOk a) (hb : LevelsOk b) :
    LevelsOk (if c then a else b) := by
  split <;> assumption

/-- what `afterTL` needs from `process_deeper` itself -/
def RecLevels (rec : Loop) : Prop :=
  ∀ (level : Nat) (eoc : Bool) (tagbuf : Bytes) (limit : Int) (esize : Nat) (pdc : Pdc) (inp : Bytes) (off : Nat),
    level ≤ maxLevel → LevelsOk (rec level eoc tagbuf limit esize pdc inp off)

theorem afterTL_levels (rec : Loop) (hrec : RecLevels rec)
    (level : Nat) (eoc : Bool) (tagbuf : Bytes) (limit : Int) (esize : Nat) (pdc : Pdc) (inp : Bytes)
    (off tag : Nat) (len : Int) (constr isEoc : Bool) (hl : level ≤ maxLevel) :
    LevelsOk (afterTL rec level eoc tagbuf limit esize pdc inp off tag len constr isEoc) := by
  unfold afterTL
  simp only []
  have ho1 : OutsOk (if isEoc = true then [] else [Out.opn level constr (off - tagbuf.length) tagbuf.length tag len]) := by
    split
    · exact outsOk_nil
    · exact outsOk_cons.mpr ⟨hl, outsOk_nil⟩
  generalize (if isEoc = true then [] else [Out.opn level constr (off - tagbuf.length) tagbuf.length tag len]) = o1 at ho1 ⊢
  have hgt : OutsOk (o1 ++ [Out.gt]) := outsOk_append.mpr ⟨ho1, outsOk_cons.mpr ⟨Nat.zero_le _, outsOk_nil⟩⟩
  generalize (if limit = -1 then (-1 : Int) else limit - (tagbuf.length : Int)) = limit1
  by_cases c1 : limit ≠ -1 ∧ limit1 < 0
  · rw [if_pos c1]; exact ho1
  rw [if_neg c1]
  by_cases c2 : limit ≠ -1 ∧ len > limit1
  · rw [if_pos c2]; exact ho1
  rw [if_neg c2]
  by_cases c3 : isEoc = true
  · rw [if_pos c3]
    exact outsOk_append.mpr ⟨ho1, outsOk_cons.mpr ⟨by simp only [Out.level]; omega, outsOk_nil⟩⟩
  rw [if_neg c3]
  by_cases c4 : constr = true
  · rw [if_pos c4]
    by_cases c5 : len ≠ -1 ∧ limit1 ≠ -1 ∧ limit1 < len
    · rw [if_pos c5]; exact hgt
    rw [if_neg c5]
    by_cases cd : level + 1 > maxLevel
    · rw [if_pos cd]; exact hgt
    rw [if_neg cd]
    generalize (if len = -1 then limit1 else len) = limitc
    have hchild := hrec (level + 1) (len == -1) [] limitc tagbuf.length .finished inp off (by omega)
    cases hres : rec (level + 1) (len == -1) [] limitc tagbuf.length .finished inp off with
    | done cpdc dec inp2 off2 o2 =>
      rw [hres] at hchild
      have ho12 : OutsOk (o1 ++ [Out.gt] ++ o2) := outsOk_append.mpr ⟨hgt, hchild⟩
      have ho123 : OutsOk (o1 ++ [Out.gt] ++ o2 ++ [Out.cls level true off2 tagbuf.length tag len (tagbuf.length + dec)]) :=
        outsOk_append.mpr ⟨ho12, outsOk_cons.mpr ⟨hl, outsOk_nil⟩⟩
      simp only []
      by_cases c6 : limit1 ≠ -1 ∧ limit1 < dec
      · rw [if_pos c6]; exact ho12
      rw [if_neg c6]
      by_cases c7 : len = -1
      · rw [if_pos c7]
        exact levelsOk_ite ho12 (LevelsOk.pre _ ho12 (LevelsOk.addFrame _ (hrec _ _ _ _ _ _ _ _ hl)))
      · rw [if_neg c7]
        exact levelsOk_ite ho123 (LevelsOk.pre _ ho123 (LevelsOk.addFrame _ (hrec _ _ _ _ _ _ _ _ hl)))
    | failed e o2 => rw [hres] at hchild; exact outsOk_append.mpr ⟨hgt, hchild⟩
    | oob o2 => rw [hres] at hchild; exact outsOk_append.mpr ⟨hgt, hchild⟩
    | assertion o2 => rw [hres] at hchild; exact outsOk_append.mpr ⟨hgt, hchild⟩
    | nofuel => trivial
  · rw [if_neg c4]
    by_cases c5 : len < 0
    · rw [if_pos c5]; exact ho1
    rw [if_neg c5]
    have hval : ∀ content, OutsOk (o1 ++ [Out.val content]) := fun content =>
      outsOk_append.mpr ⟨ho1, outsOk_cons.mpr ⟨Nat.zero_le _, outsOk_nil⟩⟩
    have h123 : ∀ content off2 k, OutsOk (o1 ++ [Out.val content, Out.cls level false off2 tagbuf.length tag len k]) :=
      fun content off2 k => outsOk_append.mpr ⟨ho1, outsOk_cons.mpr ⟨Nat.zero_le _, outsOk_cons.mpr ⟨hl, outsOk_nil⟩⟩⟩
    by_cases c6 : (inp.take len.toNat).length < len.toNat
    · rw [if_pos c6]; exact hval _
    rw [if_neg c6]
    by_cases c7 : limit1 ≠ -1 ∧ limit1 < len
    · rw [if_pos c7]; exact hval _
    rw [if_neg c7]
    exact levelsOk_ite (h123 _ _ _) (LevelsOk.pre _ (h123 _ _ _) (LevelsOk.addFrame _ (hrec _ _ _ _ _ _ _ _ hl)))

/-- `process_deeper` entered at a level ≤ `maxLevel` prints nothing above `maxLevel` -/
theorem pd_levels : ∀ (fuel : Nat), RecLevels (pd fuel) := by
  intro fuel
  induction fuel with
  | zero => intro _ _ _ _ _ _ _ _ _; simp only [pd, LevelsOk]
  | succ fuel ih =>
    intro level eoc tagbuf limit esize pdc inp off hl
    unfold pd
    dsimp only []
    repeat' split
    all_goals first
      | exact outsOk_nil
      | trivial
      | exact ih _ _ _ _ _ _ _ _ hl
      | exact afterTL_levels (pd fuel) ih _ _ _ _ _ _ _ _ _ _ _ _ hl

theorem stream_levels : ∀ (fuel : Nat) (inp : Bytes) (off : Nat), OutsOk (stream fuel inp off).2 := by
  intro fuel
  induction fuel with
  | zero => intro _ _; exact outsOk_nil
  | succ fuel ih =>
    intro inp off
    have h := pd_levels (inp.length + 1) 0 false [] (-1) 0 .finished inp off (Nat.zero_le _)
    rw [stream]
    split
    · rename_i heq; rw [heq] at h
      exact outsOk_append.mpr ⟨h, ih _ _⟩
    · rename_i heq; rw [heq] at h; exact h
    · rename_i heq; rw [heq] at h; exact h
    · rename_i heq; rw [heq] at h; exact h
    · rename_i heq; rw [heq] at h; exact h
    · exact outsOk_nil

/-- **bounded recursion on arbitrary bytes**: every element `unber -p` prints sits at a nesting level
    ≤ `maxLevel` — `process_deeper` never runs above that level. -/
theorem unberOuts_levels (inp : Bytes) : ∀ o ∈ (unberOuts inp).2, o.level ≤ maxLevel :=
  stream_levels _ inp 0

end Asn1c.Proofs.UnberDepth
