/-
  Helper lemmas for Props/C08.lean (core Lean + omega/simp only).
-/
import Asn1cModel.Impl.ConstraintCheckDom
namespace Asn1c.Proofs.ConstraintCheck
open Asn1c Asn1c.Spec.ConstraintCheck Asn1c.Impl.ConstraintCheck Asn1c.Generated.AlphabetTables

/-! ### emit_range_comparison_code -/

def loOK (lo : Option Int) (x : Int) : Bool := match lo with | none => true | some l => decide (l ≤ x)
def hiOK (hi : Option Int) (x : Int) : Bool := match hi with | none => true | some h => decide (x ≤ h)

theorem mem_eq (r : Range) (x : Int) : r.mem x = (loOK r.lo x && hiOK r.hi x) := rfl

theorem ignoreLeft_true {r : Range} {ns : Option Int} {x : Int}
    (hns : ∀ s, ns = some s → s ≤ x) (h : ignoreLeft r ns = true) : loOK r.lo x = true := by
  unfold ignoreLeft at h
  unfold loOK
  cases hl : r.lo with
  | none => rfl
  | some l =>
    cases hs : ns with
    | none => simp [hl, hs] at h
    | some s =>
      simp [hl, hs] at h
      have := hns s hs
      simp; omega

theorem ignoreLeft_false {r : Range} {ns : Option Int} (h : ignoreLeft r ns = false) :
    ∃ l, r.lo = some l := by
  unfold ignoreLeft at h
  cases hl : r.lo with
  | none => simp [hl] at h
  | some l => exact ⟨l, rfl⟩

theorem ignoreRight_true {r : Range} {ne : Option Int} {x : Int}
    (hne : ∀ e, ne = some e → x ≤ e) (h : ignoreRight r ne = true) : hiOK r.hi x = true := by
  unfold ignoreRight at h
  unfold hiOK
  cases hl : r.hi with
  | none => rfl
  | some l =>
    cases hs : ne with
    | none => simp [hl, hs] at h
    | some s =>
      simp [hl, hs] at h
      have := hne s hs
      simp; omega

theorem ignoreRight_false {r : Range} {ne : Option Int} (h : ignoreRight r ne = false) :
    ∃ l, r.hi = some l := by
  unfold ignoreRight at h
  cases hl : r.hi with
  | none => simp [hl] at h
  | some l => exact ⟨l, rfl⟩

/-- one printed group decides membership in its range, for values inside the natural range of
    the C variable; a range that prints nothing contains every such value -/
theorem emitOne_spec (r : Range) (ns ne : Option Int) (x : Int)
    (hns : ∀ s, ns = some s → s ≤ x) (hne : ∀ e, ne = some e → x ≤ e) :
    match emitOne r ns ne with
    | none => r.mem x = true
    | some c => c.eval x = r.mem x := by
  rw [mem_eq]
  unfold emitOne
  cases hil : ignoreLeft r ns <;> cases hir : ignoreRight r ne
  · -- both bounds printed
    obtain ⟨l, hl⟩ := ignoreLeft_false hil
    obtain ⟨h, hh⟩ := ignoreRight_false hir
    simp only [hl, hh, Option.getD, Bool.false_and, Bool.false_eq_true, if_false]
    by_cases heq : (l == h) = true
    · simp only [heq, if_true, Cmp.eval, loOK, hiOK]
      have : l = h := by simpa using heq
      subst this
      by_cases hx : x = l
      · subst hx; simp
      · simp [hx]; omega
    · simp only [heq, Cmp.eval, loOK, hiOK]
      simp
  · obtain ⟨l, hl⟩ := ignoreLeft_false hil
    have := ignoreRight_true hne hir
    simp [hl, Cmp.eval, loOK, this]
  · obtain ⟨h, hh⟩ := ignoreRight_false hir
    have := ignoreLeft_true hns hil
    simp [hh, Cmp.eval, hiOK, this]
  · have h1 := ignoreLeft_true hns hil
    have h2 := ignoreRight_true hne hir
    simp [h1, h2]

/-- the generated `if` with an empty text means "no test" -/
def codeAccepts (code : Code) (x : Int) : Bool := code.isEmpty || code.eval x

theorem emitRange_cons (r : Range) (rs : Cons) (ns ne : Option Int) :
    emitRange (r :: rs) ns ne =
      (match emitOne r ns ne with | none => emitRange rs ns ne | some c => c :: emitRange rs ns ne) := by
  unfold emitRange
  simp only [List.filterMap_cons]
  cases emitOne r ns ne <;> rfl

theorem emitRange_eval_allSome (rs : Cons) (ns ne : Option Int) (x : Int)
    (hns : ∀ s, ns = some s → s ≤ x) (hne : ∀ e, ne = some e → x ≤ e)
    (hall : rs.all (fun r => (emitOne r ns ne).isSome) = true) :
    (emitRange rs ns ne).eval x = inCons rs x ∧ ((emitRange rs ns ne).isEmpty = rs.isEmpty) := by
  induction rs with
  | nil => simp [emitRange, Code.eval, inCons]
  | cons r rs ih =>
    simp only [List.all_cons, Bool.and_eq_true] at hall
    obtain ⟨ih1, ih2⟩ := ih hall.2
    rw [emitRange_cons]
    have hs := emitOne_spec r ns ne x hns hne
    cases he : emitOne r ns ne with
    | none => simp [he] at hall
    | some c =>
      simp only [he] at hs
      constructor
      · simp only [Code.eval, List.any_cons, inCons] at *
        rw [hs, ih1]
      · simp

/-- **emit_range_comparison_code is correct**: for a value inside the natural range of the C
    variable, the emitted condition (empty text = no test) holds iff the value lies in the union -/
theorem emitRange_spec (rs : Cons) (ns ne : Option Int) (x : Int)
    (hns : ∀ s, ns = some s → s ≤ x) (hne : ∀ e, ne = some e → x ≤ e)
    (hne0 : rs ≠ []) (hmix : mixedFree rs ns ne = true) :
    codeAccepts (emitRange rs ns ne) x = inCons rs x := by
  unfold mixedFree at hmix
  simp only [Bool.or_eq_true, decide_eq_true_eq] at hmix
  rcases hmix with hlen | hall
  · match rs, hne0, hlen with
    | [r], _, _ =>
      have hs := emitOne_spec r ns ne x hns hne
      rw [emitRange_cons]
      cases he : emitOne r ns ne with
      | none =>
        simp only [he] at hs
        simp [codeAccepts, emitRange, inCons, hs]
      | some c =>
        simp only [he] at hs
        simp [codeAccepts, emitRange, inCons, Code.eval, hs]
    | _ :: _ :: _, _, h => simp at h
  · obtain ⟨h1, h2⟩ := emitRange_eval_allSome rs ns ne x hns hne hall
    unfold codeAccepts
    rw [h1, h2]
    cases rs with
    | nil => exact absurd rfl hne0
    | cons r rs => simp

/-! ### INTEGER -/

/-- `unsigned long value` is declared only for an INTEGER held in an `unsigned long` or in an INTEGER_t -/
theorem sign_nonneg_repr (rs : Cons) (h : nativeLongSign rs ≥ 0) :
    fitsLong rs = .ulong ∨ fitsLong rs = .wide := by
  cases hf : fitsLong rs with
  | ulong => exact Or.inl rfl
  | wide => exact Or.inr rfl
  | long =>
    exfalso
    unfold nativeLongSign at h
    simp only [hf] at h
    unfold fitsLong at hf
    cases hl : overallLo rs <;> cases hh : overallHi rs <;> simp only [hl, hh] at h hf
    · simp at h
    · simp at h
    · split at h
      · rename_i hc; simp [hc] at hf
      · simp at h
    · split at h
      · rename_i hc; simp [hc] at hf
      · simp at h

theorem dropped_single (rs : Cons) (hd : dropped rs = true) (hne : rs ≠ []) (x : Int) :
    inCons rs x = true := by
  match rs, hne with
  | [r], _ =>
    simp [dropped, overallLo, overallHi] at hd
    simp [inCons, Range.mem, hd.1, hd.2]
  | _ :: _ :: _, _ => simp [dropped] at hd

theorem readInt_ok (rs : Cons) (u : Bool) (i : Int) (h : reprOK (fitsLong rs) u i = true) :
    readInt (fitsLong rs) u i = some i := by
  unfold readInt
  cases hf : fitsLong rs <;> cases u <;> simp [hf, reprOK] at h ⊢ <;> omega

theorem intNs_le (rs : Cons) (i : Int) (h : reprOK (fitsLong rs) (decide (nativeLongSign rs ≥ 0)) i = true) :
    ∀ s, intNs rs = some s → s ≤ i := by
  intro s hs
  unfold intNs at hs
  split at hs
  · rename_i hsg
    simp only [hsg, decide_true] at h
    simp at hs
    rcases sign_nonneg_repr rs hsg with hf | hf <;> simp [hf, reprOK] at h <;> omega
  · simp at hs

theorem genInt_spec (rs : Cons) (i : Int) (hd : intDom rs i = true) :
    genInt rs i = (if intTests rs then (if inCons rs i then Gen.pass else Gen.fail .constraintFailed) else Gen.noTest)
    ∧ (intTests rs = false → inCons rs i = true) := by
  unfold intDom at hd
  simp only [Bool.and_eq_true, Bool.not_eq_true'] at hd
  obtain ⟨⟨⟨hne, hrep⟩, hmix⟩, _⟩ := hd
  have hne0 : rs ≠ [] := by intro h; simp [h] at hne
  have hspec := emitRange_spec rs (intNs rs) none i (intNs_le rs i hrep) (by intro e h; cases h) hne0 hmix
  unfold genInt intTests
  by_cases hdr : dropped rs = true
  · have hin := dropped_single rs hdr hne0 i
    have hdr2 : (decide (rs.length ≤ 1) && (overallLo rs).isNone && (overallHi rs).isNone) = true := hdr
    simp [hdr2, hdr, hin]
  · have hdr' : dropped rs = false := by simpa using hdr
    have hdr2 : (decide (rs.length ≤ 1) && (overallLo rs).isNone && (overallHi rs).isNone) = false := hdr'
    simp only [hdr2, Bool.false_eq_true, if_false, hdr', Bool.not_false, Bool.true_and]
    simp only [readInt_ok rs _ i hrep]
    unfold codeAccepts at hspec
    have hns : (if nativeLongSign rs ≥ 0 then some (0:Int) else none) = intNs rs := rfl
    simp only [hns]
    cases hemp : (emitRange rs (intNs rs) none).isEmpty
    · simp only [hemp, Bool.false_or] at hspec
      simp [hspec]
    · simp only [hemp, Bool.true_or] at hspec
      simp [← hspec]

/-! ### SIZE -/

theorem keepSize_false_single (rs : Cons) (hk : keepSize rs = false) (hne : rs ≠ []) (n : Nat) :
    inCons rs (n : Int) = true := by
  match rs, hne with
  | [r], _ =>
    simp [keepSize, overallLo, overallHi] at hk
    obtain ⟨hlo, hhi⟩ := hk
    simp [inCons, Range.mem, hhi]
    by_cases h : r.lo = some 0
    · simp [h]
    · simp [hlo h]
  | _ :: _ :: _, _ => simp [keepSize] at hk

/-- the size part of a generated checker: `none` = no test emitted -/
def sizePart (size : Option Cons) (n : Nat) : Option Bool :=
  match keptSize size with
  | some rs => sizeTest rs n
  | none => none

theorem sizeTest_spec (rs : Cons) (n : Nat) (hd : sizeDom rs = true) :
    match sizeTest rs n with
    | none => inCons rs (n : Int) = true ∧ (emitRange rs (some 0) none).isEmpty = true
    | some b => b = inCons rs (n : Int) ∧ (emitRange rs (some 0) none).isEmpty = false := by
  unfold sizeDom at hd
  simp only [Bool.and_eq_true, Bool.or_eq_true, Bool.not_eq_true'] at hd
  obtain ⟨⟨⟨hne, hmix⟩, _⟩, _⟩ := hd
  have hne0 : rs ≠ [] := by intro h; simp [h] at hne
  have hspec := emitRange_spec rs (some 0) none n (by intro s h; cases h; omega) (by intro e h; cases h) hne0 hmix
  unfold sizeTest
  unfold codeAccepts at hspec
  cases hemp : (emitRange rs (some 0) none).isEmpty
  · simp only [hemp, Bool.false_or] at hspec
    simp only [hemp, Bool.false_eq_true, if_false]
    exact ⟨hspec, trivial⟩
  · simp only [hemp, Bool.true_or] at hspec
    simp only [hemp, if_true]
    exact ⟨hspec.symm, trivial⟩

theorem sizePart_spec (size : Option Cons) (n : Nat)
    (hd : sizeOptDom size = true) :
    match sizePart size n with
    | none => inOpt size (n : Int) = true
    | some b => b = inOpt size (n : Int) := by
  unfold sizePart keptSize
  cases size with
  | none => simp [inOpt]
  | some rs =>
    simp only [sizeOptDom] at hd
    by_cases hk : keepSize rs = true
    · simp only [hk, if_true, inOpt]
      have := sizeTest_spec rs n hd
      cases hst : sizeTest rs n with
      | none => simp only [hst] at this; exact this.1
      | some b => simp only [hst] at this; exact this.1
    · have hk' : keepSize rs = false := by simpa using hk
      simp only [hk', Bool.false_eq_true, if_false, inOpt]
      unfold sizeDom at hd
      simp only [Bool.and_eq_true, Bool.not_eq_true'] at hd
      exact keepSize_false_single rs hk' (by intro h; simp [h] at hd) n

theorem genSize_spec (rs : Cons) (n : Nat) (hd : sizeDom rs = true) :
    genSize rs n = (if sizeTests rs then (if inCons rs (n : Int) then Gen.pass else Gen.fail .constraintFailed) else Gen.noTest)
    ∧ (sizeTests rs = false → inCons rs (n : Int) = true) := by
  have hst := sizeTest_spec rs n hd
  unfold genSize sizeTests
  by_cases hk : keepSize rs = true
  · simp only [hk, if_true, Bool.true_and]
    cases h : sizeTest rs n with
    | none =>
      simp only [h] at hst
      simp [hst.1, hst.2]
    | some b =>
      simp only [h] at hst
      obtain ⟨hb, he⟩ := hst
      subst hb
      cases hin : inCons rs (n : Int) <;> simp [he]
  · have hk' : keepSize rs = false := by simpa using hk
    simp only [hk', Bool.false_eq_true, if_false, Bool.false_and, true_implies]
    unfold sizeDom at hd
    simp only [Bool.and_eq_true, Bool.not_eq_true'] at hd
    exact ⟨trivial, keepSize_false_single rs hk' (by intro h; simp [h] at hd) n⟩

/-! ### characters -/

theorem inCons_le_overallHi (rs : Cons) (x h : Int) (hin : inCons rs x = true) (hh : overallHi rs = some h) :
    x ≤ h := by
  induction rs generalizing h with
  | nil => simp [inCons] at hin
  | cons r rs ih =>
    cases rs with
    | nil =>
      simp [overallHi] at hh
      simp [inCons, Range.mem, hh] at hin
      exact hin.2
    | cons r2 rs2 =>
      simp only [overallHi] at hh
      cases hr : r.hi with
      | none => simp [hr] at hh
      | some a =>
        cases ho : overallHi (r2 :: rs2) with
        | none => simp [hr, ho] at hh
        | some b =>
          simp [hr, ho] at hh
          simp only [inCons, List.any_cons, Bool.or_eq_true] at hin
          rcases hin with h1 | h2
          · simp [Range.mem, hr] at h1
            omega
          · have := ih b (by simpa [inCons] using h2) ho
            omega

theorem charOK_spec (k : StrKind) (rs : Cons) (cv : Nat) (hne0 : rs ≠ [])
    (hfin : (overallHi rs).isSome = true)
    (hmix : mixedFree rs (some 0) (some (naturalStop k)) = true) (hcv : (cv : Int) ≤ naturalStop k) :
    charOK k rs cv = inCons rs (cv : Int) := by
  unfold charOK
  by_cases ht : useTable k rs = true
  · simp only [ht, if_true]
    by_cases hbig : cv > 255
    · simp only [hbig, decide_true, Bool.not_true, Bool.false_and]
      -- the table covers 0..255 only because no range reaches beyond 255
      unfold useTable at ht
      simp only [Bool.and_eq_true, decide_eq_true_eq] at ht
      obtain ⟨⟨hlen, hstop⟩, _⟩ := ht
      cases hin : inCons rs (cv : Int) with
      | false => rfl
      | true =>
        cases ho : overallHi rs with
        | none => simp [ho] at hfin
        | some h =>
          have := inCons_le_overallHi rs cv h hin ho
          simp [ho] at hstop
          omega
    · simp [hbig]
  · have ht' : useTable k rs = false := by simpa using ht
    simp only [ht', Bool.false_eq_true, if_false]
    exact emitRange_spec rs (some 0) (some (naturalStop k)) cv (by intro s h; cases h; omega) (by intro e h; cases h; exact hcv) hne0 hmix

theorem loopChars_one (fuel : Nat) (bs : List Nat) (h : bs.length ≤ fuel) : loopChars 1 fuel bs = bs := by
  induction fuel generalizing bs with
  | zero => cases bs with
    | nil => simp [loopChars]
    | cons b bs => simp at h
  | succ n ih =>
    cases bs with
    | nil => simp [loopChars]
    | cons b bs =>
      simp only [List.length_cons] at h
      simp [loopChars, ofBE, ih bs (by omega)]

theorem groupsBE_eq (w : Nat) (hw : 0 < w) (fuel : Nat) (bs : List Nat) (h : bs.length ≤ fuel) :
    groupsBE w fuel bs = if bs.length % w = 0 then some (loopChars w fuel bs) else none := by
  induction fuel generalizing bs with
  | zero => cases bs with
    | nil => simp [groupsBE, loopChars]
    | cons b bs => simp at h
  | succ n ih =>
    cases bs with
    | nil => simp [groupsBE, loopChars]
    | cons b bs =>
      have hw0 : (w == 0) = false := by simp; omega
      simp only [groupsBE, loopChars, hw0, Bool.or_false]
      by_cases hlt : (b :: bs).length < w
      · simp only [hlt, decide_true, if_true]
        have : (b :: bs).length % w = (b :: bs).length := Nat.mod_eq_of_lt hlt
        rw [this]; simp
      · simp only [hlt, decide_false, Bool.false_eq_true, if_false]
        have hd : ((b :: bs).drop w).length = (b :: bs).length - w := by simp
        have hle : ((b :: bs).drop w).length ≤ n := by
          simp only [List.length_cons] at h hd ⊢; rw [hd]; omega
        rw [ih _ hle, hd]
        have hmod : ((b :: bs).length - w) % w = (b :: bs).length % w := by
          rw [Nat.mod_eq_sub_mod (by omega : (b :: bs).length ≥ w)]
        rw [hmod]
        by_cases hm : (b :: bs).length % w = 0 <;> simp

theorem loopChars_length (w : Nat) (hw : 0 < w) (fuel : Nat) (bs : List Nat) (h : bs.length ≤ fuel) :
    (loopChars w fuel bs).length = bs.length / w := by
  induction fuel generalizing bs with
  | zero => cases bs with
    | nil => simp [loopChars]
    | cons b bs => simp at h
  | succ n ih =>
    cases bs with
    | nil => simp [loopChars]
    | cons b bs =>
      have hw0 : (w == 0) = false := by simp; omega
      simp only [loopChars, hw0, Bool.or_false]
      by_cases hlt : (b :: bs).length < w
      · simp only [hlt, decide_true, if_true, List.length_nil]
        exact (Nat.div_eq_of_lt hlt).symm
      · simp only [hlt, decide_false, Bool.false_eq_true, if_false]
        rw [List.length_cons]
        have hd : ((b :: bs).drop w).length = (b :: bs).length - w := by simp
        have hle : ((b :: bs).drop w).length ≤ n := by
          simp only [List.length_cons] at h hd ⊢; rw [hd]; omega
        rw [ih _ hle, hd]
        have : (b :: bs).length / w = ((b :: bs).length - w) / w + 1 := by
          rw [Nat.div_eq_sub_div hw (by omega)]
        simp only [List.length_cons] at this ⊢
        omega

theorem ofBE_lt (bs : List Nat) (acc : Nat) (h : ∀ b ∈ bs, b < 256) :
    ofBE acc bs < (acc + 1) * 256 ^ bs.length := by
  induction bs generalizing acc with
  | nil => simp [ofBE]
  | cons b bs ih =>
    have hb : b < 256 := h b (by simp)
    have := ih (acc * 256 + b) (fun x hx => h x (by simp [hx]))
    simp only [ofBE, List.length_cons]
    calc ofBE (acc * 256 + b) bs < (acc * 256 + b + 1) * 256 ^ bs.length := this
      _ ≤ ((acc + 1) * 256) * 256 ^ bs.length := Nat.mul_le_mul_right _ (by omega)
      _ = (acc + 1) * 256 ^ (bs.length + 1) := by rw [Nat.pow_succ, Nat.mul_assoc, Nat.mul_comm 256]

theorem loopChars_bound (w : Nat) (fuel : Nat) (bs : List Nat) (h : ∀ b ∈ bs, b < 256) :
    ∀ c ∈ loopChars w fuel bs, c < 256 ^ w := by
  induction fuel generalizing bs with
  | zero => cases bs <;> simp [loopChars]
  | succ n ih =>
    cases bs with
    | nil => simp [loopChars]
    | cons b bs =>
      simp only [loopChars]
      split
      · simp
      · intro c hc
        simp only [List.mem_cons] at hc
        rcases hc with rfl | hc
        · have h1 := ofBE_lt ((b :: bs).take w) 0 (fun x hx => h x (List.mem_of_mem_take hx))
          have h2 : ((b :: bs).take w).length ≤ w := by simp [List.length_take]; omega
          calc ofBE 0 ((b :: bs).take w) < (0 + 1) * 256 ^ ((b :: bs).take w).length := h1
            _ = 256 ^ ((b :: bs).take w).length := by simp
            _ ≤ 256 ^ w := Nat.pow_le_pow_right (by omega) h2
        · exact ih _ (fun x hx => h x (List.mem_of_mem_drop hx)) c hc

/-! ### the extracted alphabet data (exhaustive over the 256 octets) -/

theorem printable_lookup : ∀ c : Fin 256, (printableTable.getD c.val 0 != 0) = printableChars c.val := by
  decide +kernel
theorem numeric_lookup : ∀ c : Fin 256, numericCases.contains c.val = numericChars c.val := by
  decide +kernel
theorem visible_test : ∀ c : Fin 256, (!(decide (c.val < visibleLo) || decide (c.val > visibleHi))) = visibleChars c.val := by
  decide +kernel
theorem ia5_test : ∀ c : Fin 256, (!(decide (c.val > ia5Hi))) = ia5Chars c.val := by
  decide +kernel

theorem default_printable : ∀ c : Fin 256, inCons (toCons compilerPrintable) (c.val : Int) = printableChars c.val := by
  decide +kernel
theorem default_numeric : ∀ c : Fin 256, inCons (toCons compilerNumeric) (c.val : Int) = numericChars c.val := by
  decide +kernel
theorem default_visible : ∀ c : Fin 256, inCons (toCons compilerVisible) (c.val : Int) = visibleChars c.val := by
  decide +kernel
theorem default_ia5 : ∀ c : Fin 256, inCons (toCons compilerIa5) (c.val : Int) = ia5Chars c.val := by
  decide +kernel

/-! ### strings -/

theorem emitOne_none {r : Range} {ns ne : Option Int} (h : emitOne r ns ne = none) :
    ignoreLeft r ns = true ∧ ignoreRight r ne = true := by
  unfold emitOne at h
  cases hil : ignoreLeft r ns <;> cases hir : ignoreRight r ne <;> simp [hil, hir] at h ⊢
  split at h <;> simp at h

theorem kept_nonempty (rs : Cons) (hd : sizeDom rs = true) (hk : keepSize rs = true) :
    (emitRange rs (some 0) none).isEmpty = false := by
  unfold sizeDom at hd
  simp only [Bool.and_eq_true, Bool.or_eq_true, Bool.not_eq_true'] at hd
  obtain ⟨⟨⟨hne, hmix⟩, hlo⟩, _⟩ := hd
  unfold mixedFree at hmix
  simp only [Bool.or_eq_true, decide_eq_true_eq] at hmix
  rcases hmix with hlen | hall
  · match rs, hlen with
    | [], _ => simp at hne
    | [r], _ =>
      rw [emitRange_cons]
      cases he : emitOne r (some 0) none with
      | some c => simp
      | none =>
        exfalso
        -- nothing printed: lo ≤ 0 (or MIN) and hi = MAX, which `keepSize` excludes for a non-negative lower edge
        obtain ⟨hil, hir⟩ := emitOne_none he
        simp only [overallLo] at hlo
        have hhi : r.hi = none := by
          unfold ignoreRight at hir
          cases hh : r.hi with
          | none => rfl
          | some h => simp [hh] at hir
        have hk2 : ¬ ((r.lo = some 0 ∨ r.lo = none) ∧ r.hi = none) := by
          intro ⟨h1, h2⟩
          rcases h1 with h1 | h1 <;> simp [keepSize, overallLo, overallHi, h1, h2] at hk
        apply hk2
        refine ⟨?_, hhi⟩
        cases hl : r.lo with
        | none => exact Or.inr rfl
        | some l =>
          left
          simp [hl] at hlo
          unfold ignoreLeft at hil
          simp [hl] at hil
          have : l = 0 := by omega
          rw [this]
    | _ :: _ :: _, h => simp at h
  · have := (emitRange_eval_allSome rs (some 0) none 0 (by intro s h; cases h; omega) (by intro e h; cases h) hall).2
    rw [this]
    cases rs with
    | nil => simp at hne
    | cons r rs => rfl

theorem combine_cases (st al : Option Bool) (A B : Bool)
    (hs : match st with | none => A = true | some b => b = A)
    (ha : match al with | none => B = true | some b => b = B) :
    ((A && B) = true → combine st al = .pass ∨ combine st al = .noTest) ∧
    ((A && B) = false → combine st al = .fail .constraintFailed) ∧
    (combine st al = .noTest → st = none ∧ al = none) := by
  cases st with
  | none =>
    cases al with
    | none => simp only [] at hs ha; subst hs; subst ha; simp [combine]
    | some b => simp only [] at hs ha; subst hs; subst ha; cases b <;> simp [combine]
  | some a =>
    cases al with
    | none => simp only [] at hs ha; subst hs; subst ha; cases a <;> simp [combine]
    | some b => simp only [] at hs ha; subst hs; subst ha; cases a <;> cases b <;> simp [combine]


theorem genStr_eq_combine (k : StrKind) (size alpha : Option Cons) (bs : List Nat) (u n : Nat)
    (hn : strSize k bs u = some n) :
    genStr k size alpha bs u = combine (sizePart size n) (alphaCheck k alpha (keptSize size).isSome bs) := by
  unfold genStr sizePart
  cases keptSize size <;> simp [hn]

theorem sizePart_none (size : Option Cons) (n : Nat)
    (hd : sizeOptDom size = true)
    (h : sizePart size n = none) : keptSize size = none := by
  unfold sizePart at h
  cases hk : keptSize size with
  | none => rfl
  | some rs =>
    exfalso
    simp only [hk] at h
    unfold keptSize at hk
    cases size with
    | none => simp at hk
    | some rs' =>
      simp only [sizeOptDom] at hk hd
      split at hk
      · rename_i hkeep
        simp at hk; subst hk
        have := kept_nonempty rs' hd hkeep
        unfold sizeTest at h
        simp [this] at h
      · simp at hk

/-- the three facts the callers need about a generated string checker -/
def GenStrSpec (k : StrKind) (size alpha : Option Cons) (bs : List Nat) (u : Nat) : Prop :=
  (strSat k size alpha bs u = true → genStr k size alpha bs u = .pass ∨ genStr k size alpha bs u = .noTest) ∧
  (strSat k size alpha bs u = false → ∃ w, genStr k size alpha bs u = .fail w) ∧
  (genStr k size alpha bs u = .noTest → (k = .octet ∨ k = .bit) ∧ keptSize size = none)

/-- generic assembly: size part `A`, alphabet part `B` -/
theorem genStrSpec_of (k : StrKind) (size alpha : Option Cons) (bs : List Nat) (u n : Nat) (B : Bool)
    (hn : strSize k bs u = some n)
    (hsd : sizeOptDom size = true)
    (hsat : strSat k size alpha bs u = (inOpt size (n : Int) && B))
    (ha : match alphaCheck k alpha (keptSize size).isSome bs with | none => B = true | some b => b = B)
    (hnone : alphaCheck k alpha (keptSize size).isSome bs = none → k = .octet ∨ k = .bit) :
    GenStrSpec k size alpha bs u := by
  have hs := sizePart_spec size n hsd
  have hc := combine_cases (sizePart size n) (alphaCheck k alpha (keptSize size).isSome bs) (inOpt size (n : Int)) B hs ha
  unfold GenStrSpec
  rw [genStr_eq_combine k size alpha bs u n hn, hsat]
  refine ⟨hc.1, fun h => ⟨_, hc.2.1 h⟩, fun h => ?_⟩
  obtain ⟨h1, h2⟩ := hc.2.2 h
  exact ⟨hnone h2, sizePart_none size n hsd h1⟩


theorem strDom_parts {k : StrKind} {size alpha : Option Cons} {bs : List Nat} {u : Nat}
    (hd : strDom k size alpha bs u = true) :
    (∀ b ∈ bs, b < 256) ∧
    (k = .bit → u ≤ 7 ∧ (bs = [] → u = 0)) ∧
    (sizeOptDom size = true) ∧
    (∀ rs, alpha = some rs → k ≠ .octet ∧ k ≠ .bit ∧ (k = .utf8 → useTable .utf8 rs = true) ∧ alphaDom k rs = true) ∧
    (k = .utf8 → utf8Agree bs = true) := by
  unfold strDom at hd
  simp only [Bool.and_eq_true, Bool.or_eq_true, List.all_eq_true, decide_eq_true_eq, bne_iff_ne, ne_eq,
    Bool.not_eq_true', beq_iff_eq] at hd
  obtain ⟨⟨⟨⟨h1, h2⟩, h3⟩, h4⟩, h5⟩ := hd
  refine ⟨h1, ?_, h3, ?_, ?_⟩
  · intro hk
    rcases h2 with h2 | h2
    · exact absurd hk h2
    · refine ⟨h2.1, fun he => ?_⟩
      rcases h2.2 with h | h
      · simp [he] at h
      · exact h
  · intro rs hrs
    simp only [hrs, Bool.and_eq_true, Bool.or_eq_true, bne_iff_ne, ne_eq] at h4
    refine ⟨h4.1.1.1, h4.1.1.2, fun hk => ?_, h4.2⟩
    rcases h4.1.2 with h | h
    · exact absurd hk h
    · exact h
  · intro hk
    rcases h5 with h | h
    · exact absurd hk h
    · exact h

theorem genStr_octet (size alpha : Option Cons) (bs : List Nat) (u : Nat)
    (hd : strDom .octet size alpha bs u = true) : GenStrSpec .octet size alpha bs u := by
  obtain ⟨_, _, hsd, hal, _⟩ := strDom_parts hd
  have halpha : alpha = none := by
    cases alpha with
    | none => rfl
    | some rs => exact absurd rfl (hal rs rfl).1
  subst halpha
  apply genStrSpec_of .octet size none bs u bs.length true rfl hsd
  · simp [strSat, strSatisfies, chars, builtinChar, inOpt]
  · simp [alphaCheck]
  · intro _; exact Or.inl rfl

theorem genStr_bit (size alpha : Option Cons) (bs : List Nat) (u : Nat)
    (hd : strDom .bit size alpha bs u = true) : GenStrSpec .bit size alpha bs u := by
  obtain ⟨_, hbit, hsd, hal, _⟩ := strDom_parts hd
  obtain ⟨hu, hemp⟩ := hbit rfl
  have halpha : alpha = none := by
    cases alpha with
    | none => rfl
    | some rs => exact absurd rfl (hal rs rfl).2.1
  subst halpha
  apply genStrSpec_of .bit size none bs u (bitLength bs u) true _ hsd
  · have : (!bs.isEmpty || u == 0) = true := by
      cases bs with
      | nil => simp [hemp rfl]
      | cons b bs => simp
    simp [strSat, hu, this]
  · simp [alphaCheck]
  · intro _; exact Or.inr rfl
  · unfold strSize bitLength
    have : u % 8 = u := Nat.mod_eq_of_lt (by omega)
    cases bs with
    | nil => simp
    | cons b bs => simp [this]


theorem all_congr_mem {α : Type} (l : List α) (f g : α → Bool) (h : ∀ a ∈ l, f a = g a) :
    l.all f = l.all g := by
  induction l with
  | nil => rfl
  | cons a l ih =>
    simp only [List.all_cons]
    rw [h a (by simp), ih (fun x hx => h x (by simp [hx]))]

/-- facts about the compiler's default alphabet of an 8-bit restricted string type -/
structure DefaultOK (k : StrKind) (rs0 : Cons) : Prop where
  eq : defaultAlphabet k = some rs0
  ne : rs0 ≠ []
  fin : (overallHi rs0).isSome = true
  mix : mixedFree rs0 (some 0) (some (naturalStop k)) = true
  mem : ∀ c : Fin 256, inCons rs0 (c.val : Int) = builtinChar k c.val

theorem defaultOK_printable : DefaultOK .printable (toCons compilerPrintable) :=
  ⟨rfl, by decide +kernel, by decide +kernel, by decide +kernel, default_printable⟩
theorem defaultOK_numeric : DefaultOK .numeric (toCons compilerNumeric) :=
  ⟨rfl, by decide +kernel, by decide +kernel, by decide +kernel, default_numeric⟩
theorem defaultOK_visible : DefaultOK .visible (toCons compilerVisible) :=
  ⟨rfl, by decide +kernel, by decide +kernel, by decide +kernel, default_visible⟩
theorem defaultOK_ia5 : DefaultOK .ia5 (toCons compilerIa5) :=
  ⟨rfl, by decide +kernel, by decide +kernel, by decide +kernel, default_ia5⟩

theorem alphaFixed_one (k : StrKind) (rs : Cons) (bs : List Nat) (hw : charWidth k = 1)
    (hstop : naturalStop k = 255) (hne0 : rs ≠ []) (hfin : (overallHi rs).isSome = true)
    (hmix : mixedFree rs (some 0) (some (naturalStop k)) = true) (hb : ∀ b ∈ bs, b < 256) :
    alphaFixed k rs bs = bs.all (fun c => inCons rs (c : Int)) := by
  unfold alphaFixed
  rw [hw, loopChars_one _ _ (Nat.le_refl _)]
  simp only [Nat.mod_one, beq_self_eq_true, Bool.true_and]
  apply all_congr_mem
  intro c hc
  exact charOK_spec k rs c hne0 hfin hmix (by rw [hstop]; have := hb c hc; omega)

/-- the 8-bit restricted character string types -/
theorem genStr_8bit (k : StrKind) (h8 : is8bit k = true) (rs0 : Cons) (hdef : DefaultOK k rs0)
    (hw : charWidth k = 1) (hstop : naturalStop k = 255)
    (hchars : ∀ bs, chars k bs = some bs) (hsz : ∀ bs u, strSize k bs u = some bs.length)
    (hac : ∀ alpha g bs, alphaCheck k alpha g bs = (alphaRanges k alpha).map fun rs => alphaFixed k rs bs)
    (hbit : (k == .bit) = false)
    (size alpha : Option Cons) (bs : List Nat) (u : Nat)
    (hd : strDom k size alpha bs u = true) : GenStrSpec k size alpha bs u := by
  obtain ⟨hb, _, hsd, hal, _⟩ := strDom_parts hd
  let B := bs.all (fun c => builtinChar k c && inOpt alpha (c : Int))
  apply genStrSpec_of k size alpha bs u bs.length B (hsz bs u) hsd
  · simp [strSat, hbit, strSatisfies, hchars, B]
  · rw [hac]
    cases alpha with
    | none =>
      simp only [alphaRanges, hdef.eq, Option.map]
      rw [alphaFixed_one k rs0 bs hw hstop hdef.ne hdef.fin hdef.mix hb]
      apply all_congr_mem
      intro c hc
      have := hdef.mem ⟨c, hb c hc⟩
      simp only at this
      simp [this, inOpt]
    | some rs =>
      obtain ⟨_, _, _, had⟩ := hal rs rfl
      unfold alphaDom at had
      simp only [Bool.and_eq_true, Bool.or_eq_true, Bool.not_eq_true', List.all_eq_true, List.mem_range] at had
      obtain ⟨⟨⟨hne, hfin⟩, hmix⟩, hsub⟩ := had
      have hne0 : rs ≠ [] := by intro h; simp [h] at hne
      simp only [alphaRanges, Option.map]
      rw [alphaFixed_one k rs bs hw hstop hne0 hfin hmix hb]
      apply all_congr_mem
      intro c hc
      have hc256 := hb c hc
      rcases hsub with h | h
      · simp [h8] at h
      · rcases h c hc256 with h | h
        · simp [h, inOpt]
        · simp [h, inOpt]
  · intro h
    rw [hac] at h
    cases alpha with
    | none => simp [alphaRanges, hdef.eq] at h
    | some rs => simp [alphaRanges] at h


theorem genStr_printable (size alpha : Option Cons) (bs : List Nat) (u : Nat)
    (hd : strDom .printable size alpha bs u = true) : GenStrSpec .printable size alpha bs u :=
  genStr_8bit .printable rfl _ defaultOK_printable rfl rfl (fun _ => rfl) (fun _ _ => rfl) (fun _ _ _ => rfl) rfl size alpha bs u hd
theorem genStr_numeric (size alpha : Option Cons) (bs : List Nat) (u : Nat)
    (hd : strDom .numeric size alpha bs u = true) : GenStrSpec .numeric size alpha bs u :=
  genStr_8bit .numeric rfl _ defaultOK_numeric rfl rfl (fun _ => rfl) (fun _ _ => rfl) (fun _ _ _ => rfl) rfl size alpha bs u hd
theorem genStr_visible (size alpha : Option Cons) (bs : List Nat) (u : Nat)
    (hd : strDom .visible size alpha bs u = true) : GenStrSpec .visible size alpha bs u :=
  genStr_8bit .visible rfl _ defaultOK_visible rfl rfl (fun _ => rfl) (fun _ _ => rfl) (fun _ _ _ => rfl) rfl size alpha bs u hd
theorem genStr_ia5 (size alpha : Option Cons) (bs : List Nat) (u : Nat)
    (hd : strDom .ia5 size alpha bs u = true) : GenStrSpec .ia5 size alpha bs u :=
  genStr_8bit .ia5 rfl _ defaultOK_ia5 rfl rfl (fun _ => rfl) (fun _ _ => rfl) (fun _ _ _ => rfl) rfl size alpha bs u hd

/-- BMPString / UniversalString: `w` octets per character -/
theorem genStr_wide (k : StrKind) (w : Nat) (hw0 : 0 < w) (hw : charWidth k = w)
    (hstop : naturalStop k = (256 ^ w : Nat) - 1)
    (rs0 : Cons) (hdeq : defaultAlphabet k = some rs0) (hdne : rs0 ≠ []) (hdfin : (overallHi rs0).isSome = true)
    (hdmix : mixedFree rs0 (some 0) (some (naturalStop k)) = true)
    (hchars : ∀ bs, chars k bs = groupsBE w bs.length bs)
    (hsz : ∀ bs u, strSize k bs u = some (bs.length / w))
    (hac : ∀ alpha g bs, alphaCheck k alpha g bs = (alphaRanges k alpha).map fun rs => alphaFixed k rs bs)
    (hbit : (k == .bit) = false) (hbc : ∀ c, builtinChar k c = true)
    (size alpha : Option Cons) (bs : List Nat) (u : Nat)
    (hdmem : ∀ c ∈ loopChars w bs.length bs, inCons rs0 (c : Int) = true)
    (hd : strDom k size alpha bs u = true) : GenStrSpec k size alpha bs u := by
  obtain ⟨hb, _, hsd, hal, _⟩ := strDom_parts hd
  let cs := loopChars w bs.length bs
  let B := decide (bs.length % w = 0) && cs.all (fun c => inOpt alpha (c : Int))
  have hlen : cs.length = bs.length / w := loopChars_length w hw0 _ bs (Nat.le_refl _)
  have hbound : ∀ c ∈ cs, (c : Int) ≤ naturalStop k := by
    intro c hc
    have h1 := loopChars_bound w bs.length bs hb c hc
    rw [hstop]
    have : 0 < 256 ^ w := Nat.pow_pos (by omega)
    omega
  apply genStrSpec_of k size alpha bs u (bs.length / w) B (hsz bs u) hsd
  · simp only [strSat, hbit, Bool.false_eq_true, if_false, strSatisfies, hchars,
      groupsBE_eq w hw0 _ bs (Nat.le_refl _)]
    by_cases hm : bs.length % w = 0
    · simp only [hm, if_true, B, decide_true, Bool.true_and, hbc]
      rw [hlen]
    · simp [hm, B]
  · rw [hac]
    have key : ∀ rs, rs ≠ [] → (overallHi rs).isSome = true → mixedFree rs (some 0) (some (naturalStop k)) = true →
        (∀ c ∈ cs, inCons rs (c : Int) = inOpt alpha (c : Int)) → alphaFixed k rs bs = B := by
      intro rs h1 h2 h3 h4
      unfold alphaFixed
      rw [hw]
      simp only [B]
      congr 1
      · apply all_congr_mem
        intro c hc
        rw [charOK_spec k rs c h1 h2 h3 (hbound c hc)]
        exact h4 c hc
    cases alpha with
    | none =>
      simp only [alphaRanges, hdeq, Option.map]
      exact key rs0 hdne hdfin hdmix (fun c hc => by simp [hdmem c hc, inOpt])
    | some rs =>
      obtain ⟨_, _, _, had⟩ := hal rs rfl
      unfold alphaDom at had
      simp only [Bool.and_eq_true, Bool.or_eq_true, Bool.not_eq_true'] at had
      obtain ⟨⟨⟨hne, hfin⟩, hmix⟩, _⟩ := had
      have hne0 : rs ≠ [] := by intro h; simp [h] at hne
      simp only [alphaRanges, Option.map]
      exact key rs hne0 hfin hmix (fun c hc => by simp [inOpt])
  · intro h
    rw [hac] at h
    cases alpha with
    | none => simp [alphaRanges, hdeq] at h
    | some rs => simp [alphaRanges] at h


theorem genStr_bmp (size alpha : Option Cons) (bs : List Nat) (u : Nat)
    (hd : strDom .bmp size alpha bs u = true) : GenStrSpec .bmp size alpha bs u := by
  have hb := (strDom_parts hd).1
  refine genStr_wide .bmp 2 (by omega) rfl (by decide) (toCons compilerBmp) rfl (by decide +kernel) (by decide +kernel)
    (by decide +kernel) (fun _ => rfl) (fun _ _ => rfl) (fun _ _ _ => rfl) rfl (fun _ => rfl) size alpha bs u ?_ hd
  intro c hc
  have := loopChars_bound 2 bs.length bs hb c hc
  simp [compilerBmp, toCons, inCons, Range.mem]
  omega

theorem genStr_universal (size alpha : Option Cons) (bs : List Nat) (u : Nat)
    (hd : strDom .universal size alpha bs u = true) : GenStrSpec .universal size alpha bs u := by
  have hb := (strDom_parts hd).1
  refine genStr_wide .universal 4 (by omega) rfl (by decide) (toCons compilerUniversal) rfl (by decide +kernel) (by decide +kernel)
    (by decide +kernel) (fun _ => rfl) (fun _ _ => rfl) (fun _ _ _ => rfl) rfl (fun _ => rfl) size alpha bs u ?_ hd
  intro c hc
  have := loopChars_bound 4 bs.length bs hb c hc
  simp [compilerUniversal, toCons, inCons, Range.mem]
  omega

/-! UTF-8 and the 7-bit characters: a code point below 128 is encoded as itself, every other
    well-formed sequence denotes a code point ≥ 128 -/

theorem utf8Step_ascii (cp : Nat) (bs rest : List Nat) (h : utf8Step bs = some (cp, rest)) (hc : cp < 128) :
    bs = cp :: rest := by
  unfold utf8Step at h
  split at h
  · cases h
  · rename_i b0 r
    split at h
    · simp at h; obtain ⟨h1, h2⟩ := h; subst h1; subst h2; rfl
    · exfalso
      split at h
      · rename_i hb
        simp only [Bool.and_eq_true, decide_eq_true_eq] at hb
        split at h
        · split at h
          · simp at h; omega
          · cases h
        · cases h
      · split at h
        · split at h
          · dsimp only at h
            split at h
            · rename_i hcond
              simp at hcond h
              omega
            · cases h
          · cases h
        · split at h
          · split at h
            · dsimp only at h
              split at h
              · rename_i hcond
                simp at hcond h
                omega
              · cases h
            · cases h
          · cases h

theorem utf8Decode_ascii (fuel : Nat) (bs : List Nat) (hf : bs.length ≤ fuel) (h : ∀ b ∈ bs, b < 128) :
    utf8Decode fuel bs = some bs := by
  induction fuel generalizing bs with
  | zero => cases bs with
    | nil => simp [utf8Decode]
    | cons b bs => simp at hf
  | succ n ih =>
    cases bs with
    | nil => simp [utf8Decode]
    | cons b bs =>
      have hb : b < 128 := h b (by simp)
      simp only [List.length_cons] at hf
      simp [utf8Decode, utf8Step, hb, ih bs (by omega) (fun x hx => h x (by simp [hx]))]

theorem utf8Decode_all_ascii (fuel : Nat) (bs cs : List Nat) (hd : utf8Decode fuel bs = some cs)
    (h : ∀ c ∈ cs, c < 128) : bs = cs := by
  induction fuel generalizing bs cs with
  | zero => cases bs with
    | nil => simp [utf8Decode] at hd; exact hd.symm
    | cons b bs => simp [utf8Decode] at hd
  | succ n ih =>
    cases bs with
    | nil => simp [utf8Decode] at hd; exact hd.symm
    | cons b bs =>
      simp only [utf8Decode] at hd
      cases hs : utf8Step (b :: bs) with
      | none => simp [hs] at hd
      | some p =>
        obtain ⟨cp, rest⟩ := p
        simp only [hs] at hd
        cases hr : utf8Decode n rest with
        | none => simp [hr] at hd
        | some cs' =>
          simp [hr] at hd
          subst hd
          have hcp : cp < 128 := h cp (by simp)
          have := utf8Step_ascii cp (b :: bs) rest hs hcp
          rw [this, ih rest cs' hr (fun c hc => h c (by simp [hc]))]

/-- a FROM within 0..127 on UTF8String, tested octet by octet through the 128-entry table: the
    test holds iff the octets decode and every code point is permitted -/
theorem utf8_table_spec (rs : Cons) (bs : List Nat) (hlt : ∀ x : Nat, inCons rs (x : Int) = true → x < 128) :
    (bs.all fun cv => !(decide (cv ≥ 128)) && inCons rs (cv : Int)) =
      (match utf8Decode bs.length bs with
       | none => false
       | some cs => cs.all fun c => inCons rs (c : Int)) := by
  cases hT : (bs.all fun cv => !(decide (cv ≥ 128)) && inCons rs (cv : Int)) with
  | true =>
    simp only [List.all_eq_true, Bool.and_eq_true, Bool.not_eq_true', decide_eq_false_iff_not] at hT
    have hdec := utf8Decode_ascii bs.length bs (Nat.le_refl _) (fun b hb => by have := (hT b hb).1; omega)
    simp only [hdec]
    symm
    simp only [List.all_eq_true]
    exact fun c hc => (hT c hc).2
  | false =>
    cases hdec : utf8Decode bs.length bs with
    | none => rfl
    | some cs =>
      simp only []
      cases hA : (cs.all fun c => inCons rs (c : Int)) with
      | false => rfl
      | true =>
        exfalso
        simp only [List.all_eq_true] at hA
        have heq := utf8Decode_all_ascii bs.length bs cs hdec (fun c hc => hlt c (hA c hc))
        subst heq
        have : (bs.all fun cv => !(decide (cv ≥ 128)) && inCons rs (cv : Int)) = true := by
          simp only [List.all_eq_true, Bool.and_eq_true, Bool.not_eq_true', decide_eq_false_iff_not]
          exact fun b hb => ⟨by have := hlt b (hA b hb); omega, hA b hb⟩
        rw [this] at hT; cases hT

theorem useTable_utf8_lt (rs : Cons) (ht : useTable .utf8 rs = true) (hfin : (overallHi rs).isSome = true)
    (x : Nat) (hin : inCons rs (x : Int) = true) : x < 128 := by
  unfold useTable at ht
  simp only [Bool.and_eq_true, Bool.or_eq_true, decide_eq_true_eq, bne_self_eq_false, Bool.false_or] at ht
  cases ho : overallHi rs with
  | none => simp [ho] at hfin
  | some h =>
    have := inCons_le_overallHi rs x h hin ho
    have h2 := ht.2
    simp [ho] at h2
    omega

theorem genStr_utf8 (size alpha : Option Cons) (bs : List Nat) (u : Nat)
    (hd : strDom .utf8 size alpha bs u = true) : GenStrSpec .utf8 size alpha bs u := by
  obtain ⟨_, _, hsd, hal, hagree⟩ := strDom_parts hd
  have hag : utf8Length bs.length bs = (utf8Decode bs.length bs).map List.length := by
    have := hagree rfl
    unfold utf8Agree at this
    simpa using this
  -- the alphabet part: `B` on the decoded code points, `al g` the emitted test
  have key : ∃ (al : Bool → Option Bool) (B : List Nat → Bool),
      (∀ g, alphaCheck .utf8 alpha g bs = al g) ∧
      (strSat .utf8 size alpha bs u =
        (match utf8Decode bs.length bs with | none => false | some cs => inOpt size (cs.length : Int) && B cs)) ∧
      -- with a SIZE test the alphabet test is absent or equals `B`
      (∀ cs, utf8Decode bs.length bs = some cs → match al true with | none => B cs = true | some b => b = B cs) ∧
      -- without a SIZE test the alphabet test is there and decides well-formedness and `B`
      (al false = some (match utf8Decode bs.length bs with | none => false | some cs => B cs)) := by
    cases alpha with
    | none =>
      refine ⟨fun g => if g then none else some (utf8Length bs.length bs).isSome, fun _ => true, ?_, ?_, ?_, ?_⟩
      · intro g; simp [alphaCheck, alphaRanges, defaultAlphabet, useTable, overallHi]
      · simp [strSat, strSatisfies, chars, builtinChar, inOpt]
        cases utf8Decode bs.length bs <;> simp
      · intro cs _; simp
      · simp only [Bool.false_eq_true, if_false, hag]
        cases utf8Decode bs.length bs <;> simp
    | some rs =>
      obtain ⟨_, _, htab, had⟩ := hal rs rfl
      have htab := htab rfl
      unfold alphaDom at had
      simp only [Bool.and_eq_true, Bool.or_eq_true, Bool.not_eq_true'] at had
      obtain ⟨⟨⟨_, hfin⟩, _⟩, _⟩ := had
      have hspec := utf8_table_spec rs bs (useTable_utf8_lt rs htab hfin)
      refine ⟨fun _ => some (bs.all fun cv => !(decide (cv ≥ 128)) && inCons rs (cv : Int)),
              fun cs => cs.all fun c => inCons rs (c : Int), ?_, ?_, ?_, ?_⟩
      · intro g; simp [alphaCheck, alphaRanges, htab]
      · simp [strSat, strSatisfies, chars, builtinChar, inOpt]
        cases utf8Decode bs.length bs <;> simp
      · intro cs hcs; simp only [hspec, hcs]
      · simp only [hspec]
  obtain ⟨al, B, hac, hsat, hsz, hnosz⟩ := key
  unfold GenStrSpec
  rw [hsat]
  unfold genStr
  cases hk : keptSize size with
  | none =>
    simp only [hac, hnosz]
    have hvac : ∀ n : Nat, inOpt size (n : Int) = true := by
      intro n
      have := sizePart_spec size n hsd
      simp only [sizePart, hk] at this
      exact this
    cases hdec : utf8Decode bs.length bs with
    | none => simp [combine]
    | some cs => cases hB : B cs <;> simp [combine, hvac, hB]
  | some rs =>
    simp only [hac, strSize]
    cases hdec : utf8Decode bs.length bs with
    | none =>
      have : utf8Length bs.length bs = none := by rw [hag, hdec]; rfl
      simp [this]
    | some cs =>
      have hl : utf8Length bs.length bs = some cs.length := by rw [hag, hdec]; rfl
      simp only [hl]
      have hs := sizePart_spec size cs.length hsd
      simp only [sizePart, hk] at hs
      have hc := combine_cases (sizeTest rs cs.length) (al true) (inOpt size (cs.length : Int)) (B cs) hs (hsz cs hdec)
      refine ⟨hc.1, fun h => ⟨_, hc.2.1 h⟩, fun h => ?_⟩
      -- a kept SIZE always prints a test
      exfalso
      have h1 := (hc.2.2 h).1
      have hsn := sizePart_none size cs.length hsd (by simp [sizePart, hk, h1])
      simp [hk] at hsn


theorem genStr_spec (k : StrKind) (size alpha : Option Cons) (bs : List Nat) (u : Nat)
    (hd : strDom k size alpha bs u = true) : GenStrSpec k size alpha bs u := by
  cases k with
  | octet => exact genStr_octet size alpha bs u hd
  | bit => exact genStr_bit size alpha bs u hd
  | ia5 => exact genStr_ia5 size alpha bs u hd
  | visible => exact genStr_visible size alpha bs u hd
  | printable => exact genStr_printable size alpha bs u hd
  | numeric => exact genStr_numeric size alpha bs u hd
  | utf8 => exact genStr_utf8 size alpha bs u hd
  | bmp => exact genStr_bmp size alpha bs u hd
  | universal => exact genStr_universal size alpha bs u hd

@[simp] theorem inOpt_none (x : Int) : inOpt none x = true := rfl

theorem vacuous_size (size : Option Cons) (hsd : sizeOptDom size = true) (hk : keptSize size = none) (n : Nat) :
    inOpt size (n : Int) = true := by
  have := sizePart_spec size n hsd
  simp only [sizePart, hk] at this
  exact this

/-- the skeleton checker of a string type agrees with X.680 when no SIZE test is left -/
theorem builtinStr_spec (k : StrKind) (nm : String) (size : Option Cons) (bs : List Nat) (u : Nat)
    (hd : strDom k size none bs u = true) (hk : keptSize size = none) :
    builtinStr k nm bs u = .ok ↔ strSat k size none bs u = true := by
  obtain ⟨hb, hbit, hsd, _, hagree⟩ := strDom_parts hd
  have hv := vacuous_size size hsd hk
  cases k with
  | octet => simp [builtinStr, strSat, strSatisfies, chars, builtinChar, inOpt_none, hv]
  | bit =>
    obtain ⟨hu, hemp⟩ := hbit rfl
    have h1 : (!bs.isEmpty || u == 0) = true := by
      cases bs with
      | nil => simp [hemp rfl]
      | cons b bs => simp
    have h2 : ((bs.isEmpty && u != 0) || decide (u > 7)) = false := by
      cases bs with
      | nil => simp [hemp rfl]
      | cons b bs => simp; omega
    simp [builtinStr, strSat, hu, h1, h2, hv]
  | ia5 =>
    simp only [builtinStr, strSat, strSatisfies, chars, builtinChar, inOpt_none, hv, Bool.true_and, Bool.and_true]
    rw [all_congr_mem bs _ (fun c => ia5Chars c) (fun c hc => ia5_test ⟨c, hb c hc⟩)]
    simp
  | visible =>
    simp only [builtinStr, strSat, strSatisfies, chars, builtinChar, inOpt_none, hv, Bool.true_and, Bool.and_true]
    rw [all_congr_mem bs _ (fun c => visibleChars c) (fun c hc => visible_test ⟨c, hb c hc⟩)]
    simp
  | printable =>
    simp only [builtinStr, strSat, strSatisfies, chars, builtinChar, inOpt_none, hv, Bool.true_and, Bool.and_true]
    rw [all_congr_mem bs _ (fun c => printableChars c) (fun c hc => printable_lookup ⟨c, hb c hc⟩)]
    simp
  | numeric =>
    simp only [builtinStr, strSat, strSatisfies, chars, builtinChar, inOpt_none, hv, Bool.true_and, Bool.and_true]
    rw [all_congr_mem bs _ (fun c => numericChars c) (fun c hc => numeric_lookup ⟨c, hb c hc⟩)]
    simp
  | utf8 =>
    have hag : utf8Length bs.length bs = (utf8Decode bs.length bs).map List.length := by
      have := hagree rfl
      unfold utf8Agree at this
      simpa using this
    simp only [builtinStr, strSat, strSatisfies, chars, builtinChar, inOpt_none]
    cases hdec : utf8Decode bs.length bs with
    | none => simp [hag, hdec]
    | some cs => simp [hag, hdec, hv]
  | bmp =>
    simp only [builtinStr, strSat, strSatisfies, chars, builtinChar, inOpt_none, groupsBE_eq 2 (by omega) _ bs (Nat.le_refl _)]
    by_cases hm : bs.length % 2 = 0 <;> simp [hm, hv]
  | universal =>
    simp only [builtinStr, strSat, strSatisfies, chars, builtinChar, inOpt_none, groupsBE_eq 4 (by omega) _ bs (Nat.le_refl _)]
    by_cases hm : bs.length % 4 = 0 <;> simp [hm, hv]


theorem firstFail_ok_iff (f : Val → Verdict) (p : Val → Bool) (vs : List Val)
    (h : ∀ v ∈ vs, (f v = .ok ↔ p v = true)) : firstFail f vs = .ok ↔ vs.all p = true := by
  induction vs with
  | nil => simp [firstFail]
  | cons v vs ih =>
    have hv := h v (by simp)
    have ih' := ih (fun x hx => h x (by simp [hx]))
    simp only [firstFail, List.all_cons, Bool.and_eq_true]
    cases hf : f v with
    | ok => simp [hv.mp hf, ih']
    | fail n w =>
      have : p v = false := by
        cases hp : p v with
        | false => rfl
        | true => rw [hv.mpr hp] at hf; cases hf
      simp [this]

/-! ### leaves of the main induction -/

theorem int_descr_iff (nm : String) (rs : Cons) (i : Int) (hd : intDom rs i = true) :
    ofGen nm .ok .ok (genInt rs i) = .ok ↔ inCons rs i = true := by
  obtain ⟨h1, h2⟩ := genInt_spec rs i hd
  rw [h1]
  cases ht : intTests rs with
  | true =>
    simp only [if_true]
    cases inCons rs i <;> simp [ofGen]
  | false => simp [ofGen, h2 ht]

theorem int_member_iff (id : String) (rs : Cons) (i : Int) (hd : intDom rs i = true) :
    memberSel id (.int (some rs)) (.int i) (occChk id (.int (some rs)) (.int i)) = .ok ↔ inCons rs i = true := by
  obtain ⟨h1, h2⟩ := genInt_spec rs i hd
  simp only [memberSel, occChk]
  rw [h1]
  cases ht : intTests rs with
  | true =>
    simp only [if_true]
    cases inCons rs i <;> simp [ofGen]
  | false =>
    have hin := h2 ht
    cases hu : (fitsLong rs == IntRepr.ulong) <;> simp [ofGen, hin]

/-- the checker built from the generated test with the skeleton checker (reporting as `nm`) as
    fall back — the shape of both the type-level and the member-level string checker -/
theorem str_chk_iff (nm : String) (k : StrKind) (size alpha : Option Cons) (bs : List Nat) (u : Nat)
    (hd : strDom k size alpha bs u = true) :
    (if size.isNone && alpha.isNone then builtinStr k nm bs u
     else ofGen nm (builtinStr k nm bs u) .ok (genStr k size alpha bs u)) = .ok
      ↔ strSat k size alpha bs u = true := by
  by_cases hnc : (size.isNone && alpha.isNone) = true
  · simp only [hnc, if_true]
    simp only [Bool.and_eq_true, Option.isNone_iff_eq_none] at hnc
    obtain ⟨hs, ha⟩ := hnc
    subst hs; subst ha
    exact builtinStr_spec k _ none bs u hd rfl
  · have hnc' : (size.isNone && alpha.isNone) = false := by
      cases h : (size.isNone && alpha.isNone) with
      | true => exact absurd h hnc
      | false => rfl
    simp only [hnc', Bool.false_eq_true, if_false]
    obtain ⟨h1, h2, h3⟩ := genStr_spec k size alpha bs u hd
    cases hg : genStr k size alpha bs u with
    | pass =>
      cases hsat : strSat k size alpha bs u with
      | true => simp [ofGen]
      | false => obtain ⟨w, hw⟩ := h2 hsat; rw [hg] at hw; cases hw
    | fail w =>
      cases hsat : strSat k size alpha bs u with
      | true => rcases h1 hsat with h | h <;> (rw [hg] at h; cases h)
      | false => simp [ofGen]
    | noTest =>
      obtain ⟨hk, hkept⟩ := h3 hg
      simp only [ofGen]
      -- octet / bit with a vacuous SIZE: FROM is excluded for them
      have halpha : alpha = none := by
        cases alpha with
        | none => rfl
        | some rs =>
          have := ((strDom_parts hd).2.2.2.1 rs rfl)
          rcases hk with rfl | rfl
          · exact absurd rfl this.1
          · exact absurd rfl this.2.1
      subst halpha
      exact builtinStr_spec k _ size bs u hd hkept


theorem str_descr_iff (nm : String) (k : StrKind) (size alpha : Option Cons) (bs : List Nat) (u : Nat)
    (hd : strDom k size alpha bs u = true) :
    (if size.isNone && alpha.isNone then builtinStr k nm bs u
     else ofGen nm (builtinStr k nm bs u) .ok (genStr k size alpha bs u)) = .ok ↔ strSat k size alpha bs u = true :=
  str_chk_iff nm k size alpha bs u hd

theorem str_member_iff (_id : String) (k : StrKind) (size alpha : Option Cons) (bs : List Nat) (u : Nat)
    (hd : strDom k size alpha bs u = true) :
    (if size.isNone && alpha.isNone then builtinStr k (skelName k) bs u
     else ofGen (skelName k) (builtinStr k (skelName k) bs u) .ok (genStr k size alpha bs u)) = .ok
      ↔ strSat k size alpha bs u = true :=
  str_chk_iff (skelName k) k size alpha bs u hd


/-! ### the main induction -/

theorem memberSel_noOwn (id : String) (t : Ty) (v : Val) (occ : Verdict) (h : hasOwn t = false) :
    memberSel id t v occ = occ := by
  cases t with
  | int c => cases c <;> simp [hasOwn] at h <;> cases v <;> simp [memberSel]
  | str k size alpha =>
    cases size <;> cases alpha <;> simp [hasOwn] at h
    simp only [memberSel]
    cases strValue k v with
    | none => rfl
    | some p => simp
  | listOf s size elem => cases size <;> simp [hasOwn] at h <;> cases v <;> simp [memberSel]
  | _ => cases v <;> simp [memberSel]

theorem memberSel_list (id : String) (s : Bool) (rs : Cons) (elem : Ty) (vs : List Val) (occ : Verdict) :
    memberSel id (.listOf s (some rs) elem) (.list vs) occ = ofGen id occ occ (genSize rs vs.length) := rfl

theorem occChk_list (id : String) (s : Bool) (size : Option Cons) (elem : Ty) (vs : List Val) :
    occChk id (.listOf s size elem) (.list vs) =
      firstFail (fun v => memberSel (elemId elem) elem v (occChk (elemId elem) elem v)) vs := by
  simp [occChk]

mutual
theorem descr_iff : ∀ (t : Ty) (nm : String) (v : Val), domDescr t v = true →
    (descrChk nm t v = .ok ↔ satisfies t v = true)
  | .named n t, nm, v, hd => by
      have h := descr_iff t nm v (by simpa [domDescr] using hd)
      simpa [descrChk, satisfies] using h
  | .bool, nm, v, hd => by cases v <;> simp [descrChk, satisfies]
  | .null, nm, v, hd => by cases v <;> simp [descrChk, satisfies]
  | .enumerated, nm, v, hd => by cases v <;> simp [descrChk, satisfies]
  | .int none, nm, v, hd => by cases v <;> simp [descrChk, satisfies]
  | .int (some rs), nm, v, hd => by
      cases v <;> try (simp [descrChk, satisfies]; done)
      rename_i i
      simp only [domDescr] at hd
      simpa [descrChk, satisfies, inOpt] using int_descr_iff nm rs i hd
  | .str k size alpha, nm, v, hd => by
      simp only [descrChk, satisfies, domDescr] at hd ⊢
      cases hp : strValue k v with
      | none => simp
      | some p =>
        obtain ⟨bs, u⟩ := p
        simp only [hp] at hd ⊢
        exact str_descr_iff nm k size alpha bs u hd
  | .seq ms, nm, v, hd => by
      cases v <;> try (simp [descrChk, satisfies]; done)
      rename_i fs
      simp only [domDescr] at hd
      simpa [descrChk, satisfies] using seq_iff ms nm fs hd
  | .set ms, nm, v, hd => by
      cases v <;> try (simp [descrChk, satisfies]; done)
      rename_i fs
      simp only [domDescr] at hd
      simpa [descrChk, satisfies] using set_iff ms nm fs hd
  | .choice ms, nm, v, hd => by
      cases v <;> try (simp [descrChk, satisfies]; done)
      rename_i sel v
      simp only [domDescr] at hd
      simpa [descrChk, satisfies] using alt_iff ms nm sel v hd
  | .listOf s size elem, nm, v, hd => by
      cases v <;> try (simp [descrChk, satisfies]; done)
      rename_i vs
      simp only [domDescr, Bool.and_eq_true, List.all_eq_true] at hd
      obtain ⟨hsz, hel⟩ := hd
      have hwalk : firstFail (fun v => memberSel (elemId elem) elem v (occChk (elemId elem) elem v)) vs = .ok
          ↔ vs.all (fun v => satisfies elem v) = true :=
        firstFail_ok_iff _ _ vs (fun v hv => member_iff elem (elemId elem) v (hel v hv))
      simp only [descrChk, satisfies]
      cases size with
      | none => simp [hwalk, inOpt]
      | some rs =>
        simp only [sizeOptDom] at hsz
        obtain ⟨h1, h2⟩ := genSize_spec rs vs.length hsz
        simp only [h1, inOpt, Bool.and_eq_true]
        cases ht : sizeTests rs with
        | true =>
          simp only [if_true]
          cases hin : inCons rs (vs.length : Int) with
          | true => simp [ofGen, hwalk]
          | false => simp [ofGen]
        | false =>
          simp [ofGen, hwalk, h2 ht]
theorem member_iff : ∀ (t : Ty) (id : String) (v : Val), domMember t v = true →
    (memberSel id t v (occChk id t v) = .ok ↔ satisfies t v = true)
  | .named n t, id, v, hd => by
      have h := descr_iff t n v (by simpa [domMember] using hd)
      rw [memberSel_noOwn id _ v _ rfl]
      simpa [occChk, satisfies] using h
  | .bool, id, v, hd => by cases v <;> simp [memberSel, occChk, satisfies]
  | .null, id, v, hd => by cases v <;> simp [memberSel, occChk, satisfies]
  | .enumerated, id, v, hd => by cases v <;> simp [memberSel, occChk, satisfies]
  | .int none, id, v, hd => by cases v <;> simp [memberSel, occChk, satisfies]
  | .int (some rs), id, v, hd => by
      cases v <;> try (simp [memberSel, occChk, satisfies]; done)
      rename_i i
      simp only [domMember] at hd
      simpa [satisfies, inOpt] using int_member_iff id rs i hd
  | .str k size alpha, id, v, hd => by
      simp only [memberSel, occChk, satisfies, domMember] at hd ⊢
      cases hp : strValue k v with
      | none => simp
      | some p =>
        obtain ⟨bs, u⟩ := p
        simp only [hp] at hd ⊢
        exact str_member_iff id k size alpha bs u hd
  | .seq ms, id, v, hd => by
      rw [memberSel_noOwn id _ v _ rfl]
      cases v <;> try (simp [occChk, satisfies]; done)
      rename_i fs
      simp only [domMember] at hd
      simpa [occChk, satisfies] using seq_iff ms id fs hd
  | .set ms, id, v, hd => by
      rw [memberSel_noOwn id _ v _ rfl]
      cases v <;> try (simp [occChk, satisfies]; done)
      rename_i fs
      simp only [domMember] at hd
      simpa [occChk, satisfies] using set_iff ms id fs hd
  | .choice ms, id, v, hd => by
      rw [memberSel_noOwn id _ v _ rfl]
      cases v <;> try (simp [occChk, satisfies]; done)
      rename_i sel v
      simp only [domMember] at hd
      simpa [occChk, satisfies] using alt_iff ms id sel v hd
  | .listOf s size elem, id, v, hd => by
      cases v <;> try (cases size <;> simp [memberSel, occChk, satisfies]; done)
      rename_i vs
      simp only [domMember, Bool.and_eq_true, List.all_eq_true] at hd
      obtain ⟨hsz, hel⟩ := hd
      have hwalk : firstFail (fun v => memberSel (elemId elem) elem v (occChk (elemId elem) elem v)) vs = .ok
          ↔ vs.all (fun v => satisfies elem v) = true :=
        firstFail_ok_iff _ _ vs (fun v hv => member_iff elem (elemId elem) v (hel v hv))
      cases size with
      | none =>
        rw [memberSel_noOwn id _ _ _ rfl, occChk_list]
        simp [satisfies, hwalk, inOpt]
      | some rs =>
        simp only [sizeOptDom] at hsz
        obtain ⟨h1, h2⟩ := genSize_spec rs vs.length hsz
        rw [memberSel_list, occChk_list]
        simp only [satisfies, h1, inOpt, Bool.and_eq_true]
        cases ht : sizeTests rs with
        | true =>
          simp only [if_true]
          cases hin : inCons rs (vs.length : Int) with
          | true => simp [ofGen, hwalk]
          | false => simp [ofGen]
        | false =>
          simp [ofGen, hwalk, h2 ht]
theorem seq_iff : ∀ (ms : Members) (nm : String) (fs : List (String × Val)),
    domMembers ms fs = true →
    (walkSeq nm ms fs = .ok ↔ satisfiesMembers ms fs = true)
  | .nil, nm, fs, _ => by simp [walkSeq, satisfiesMembers]
  | .cons id opt t rest, nm, fs, hd => by
      simp only [domMembers, Bool.and_eq_true] at hd
      obtain ⟨hdm, hdr⟩ := hd
      have ih := seq_iff rest nm fs hdr
      simp only [walkSeq, satisfiesMembers, Bool.and_eq_true]
      cases hl : lookupField id fs with
      | none =>
        cases opt with
        | false => simp
        | true => simpa using ih
      | some v =>
        simp only [hl] at hdm
        have hm := member_iff t id v hdm
        cases hv : memberSel id t v (occChk id t v) with
        | ok => simp [hv, hm.mp hv, ih]
        | fail n w =>
          have : satisfies t v = false := by
            cases hsat : satisfies t v with
            | false => rfl
            | true => rw [hm.mpr hsat] at hv; cases hv
          simp [hv, this]
theorem set_iff : ∀ (ms : Members) (nm : String) (fs : List (String × Val)),
    domMembers ms fs = true →
    (walkSet nm ms fs = .ok ↔ satisfiesMembers ms fs = true)
  | .nil, nm, fs, _ => by simp [walkSet, satisfiesMembers]
  | .cons id opt t rest, nm, fs, hd => by
      simp only [domMembers, Bool.and_eq_true] at hd
      obtain ⟨hdm, hdr⟩ := hd
      have ih := set_iff rest nm fs hdr
      simp only [walkSet, satisfiesMembers, Bool.and_eq_true]
      cases hl : lookupField id fs with
      | none =>
        cases opt with
        | false => simp
        | true => simpa using ih
      | some v =>
        simp only [hl] at hdm
        have hm := member_iff t id v hdm
        cases hv : memberSel id t v (occChk id t v) with
        | ok => simp [hv, hm.mp hv, ih]
        | fail n w =>
          have : satisfies t v = false := by
            cases hsat : satisfies t v with
            | false => rfl
            | true => rw [hm.mpr hsat] at hv; cases hv
          simp [hv, this]
theorem alt_iff : ∀ (ms : Members) (nm : String) (sel : String) (v : Val), domAlt ms sel v = true →
    (walkAlt nm ms sel v = .ok ↔ satisfiesAlt ms sel v = true)
  | .nil, nm, sel, v, _ => by simp [walkAlt, satisfiesAlt]
  | .cons id opt t rest, nm, sel, v, hd => by
      simp only [walkAlt, satisfiesAlt, domAlt] at hd ⊢
      by_cases he : (id == sel) = true
      · simp only [he, if_true] at hd ⊢
        exact member_iff t id v hd
      · have he' : (id == sel) = false := by
          cases h : (id == sel) with
          | true => exact absurd h he
          | false => rfl
        simp only [he', Bool.false_eq_true, if_false] at hd ⊢
        exact alt_iff rest nm sel v hd
end


end Asn1c.Proofs.ConstraintCheck
