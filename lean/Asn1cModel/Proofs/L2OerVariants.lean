import Asn1cModel.L2.OerVariants
import Asn1cModel.Proofs.L2Oer
/-
  Helper lemmas for Props/C03Oer.lean: the reference OER decoder `L2.Oer.decOER` accepts every output of the
  variant encoder `L2.OerVar.encV` — for every selector state — and returns the value.
-/
namespace Asn1c.Proofs.L2OerVariants
open Asn1c Asn1c.Impl.BerTlv Asn1c.L2 Asn1c.L2.Oer Asn1c.L2.OerVar Asn1c.Spec
open Asn1c.Proofs.L2Tlv Asn1c.Proofs.Integer Asn1c.Proofs.L2Der Asn1c.Proofs.L2Oer

/-! ### (b) length determinants -/

theorem ofBE_replicate_zero (pad : Nat) (x : Bytes) : ofBE 0 (List.replicate pad 0 ++ x) = ofBE 0 x := by
  induction pad with
  | zero => simp
  | succ p ih => simp only [List.replicate_succ, List.cons_append, ofBE]; simpa using ih

theorem ofBE_unsOctets (n : Nat) : ofBE 0 (unsOctets n) = n := by
  have := unsVal_unsOctets n
  simpa [unsVal] using this

/-- §8.6.5: the long form with any number of leading zero octets is read back as the length -/
theorem decLen_lenLong (pad n : Nat) (rest : Bytes) : decLen (lenLong pad n ++ rest) = .ok n rest := by
  unfold lenLong
  have hne : (List.replicate pad 0 ++ unsOctets n).length ≠ 0 := by
    have := unsOctets_ne_nil n
    cases hq : unsOctets n with
    | nil => exact absurd hq this
    | cons _ _ => simp
  simp only [List.cons_append, decLen]
  rw [if_neg (by omega)]
  simp only [Nat.add_sub_cancel_left]
  rw [if_neg hne, if_neg (by simp)]
  rw [take_left' _ _ _ rfl, drop_left' _ _ _ rfl, ofBE_replicate_zero, ofBE_unsOctets]

theorem decLen_lenV (n : Nat) (s : VSt) (rest : Bytes) : decLen ((lenV n s).1 ++ rest) = .ok n rest := by
  unfold lenV
  simp only []
  split
  · exact decLen_lenLong _ _ _
  · exact decLen_lenDet _ _

theorem decLenBody_lenBody (c : Bytes) (s : VSt) (rest : Bytes) :
    decLenBody ((lenBody c s).1 ++ rest) = .ok c rest := by
  unfold decLenBody lenBody
  simp only [List.append_assoc]
  rw [decLen_lenV]
  simp only []
  exact takeN_append c rest _ rfl

theorem decLenBody_lenV (c : Bytes) (s : VSt) (rest : Bytes) :
    decLenBody ((lenV c.length s).1 ++ c ++ rest) = .ok c rest := decLenBody_lenBody c s rest

theorem decLenBody_lenV' (c : Bytes) (s : VSt) (rest : Bytes) :
    decLenBody ((lenV c.length s).1 ++ (c ++ rest)) = .ok c rest := by
  rw [← List.append_assoc]; exact decLenBody_lenBody c s rest

theorem decOpen_lenBody (d : Bytes → PRes Val) (x : Bytes) (s : VSt) (v : Val) (rest : Bytes)
    (hd : d x = .ok v []) : decOpen d ((lenBody x s).1 ++ rest) = .ok v rest := by
  unfold decOpen
  rw [decLenBody_lenBody]
  simp only [hd]

/-! ### (c) ENUMERATED, §10 INTEGER -/

theorem decEnum_encEnumV (z : Int) (s s' : VSt) (out rest : Bytes) (h : encEnumV z s = some (out, s')) :
    decEnum (out ++ rest) = .ok z rest := by
  unfold encEnumV at h
  simp only [] at h
  split at h
  · rename_i hs
    simp only [Option.some.injEq, Prod.mk.injEq] at h
    obtain ⟨rfl, _⟩ := h
    -- the position is only chosen where the variation is applicable: 0 ≤ z ≤ 127
    have hz : 0 ≤ z ∧ z ≤ 127 := by
      unfold VSt.site at hs
      split at hs
      · rename_i hc; simpa using hc.2
      · simp at hs
    simp only [List.cons_append, List.nil_append, decEnum]
    rw [if_neg (by omega), if_neg (by omega)]
    have : takeN (129 - 128) (z.toNat :: rest) = .ok [z.toNat] rest := takeN_append [z.toNat] rest 1 rfl
    rw [this]
    simp only [twosVal]
    have h1 : z.toNat < 128 := by omega
    have h2 : (z.toNat : Int) = z := Int.toNat_of_nonneg hz.1
    simp [unsVal, ofBE, h1, h2]
  · cases he : encEnum z with
    | none => simp [he] at h
    | some x =>
      simp only [he, Option.map_some, Option.some.injEq, Prod.mk.injEq] at h
      obtain ⟨rfl, _⟩ := h
      exact decEnum_encEnum z x rest he

theorem decInt_encIntV (sh : IntShape) (hw : ∀ w, sh = .fixedS w → w ≠ 0) (z : Int) (s s' : VSt) (out rest : Bytes)
    (h : encIntV sh z s = some (out, s')) : decInt sh (out ++ rest) = .ok z rest := by
  cases sh with
  | fixedU w =>
    simp only [encIntV] at h
    cases he : encInt (.fixedU w) z with
    | none => simp [he] at h
    | some x =>
      simp only [he, Option.map_some, Option.some.injEq, Prod.mk.injEq] at h
      obtain ⟨rfl, _⟩ := h
      exact decInt_encInt _ hw z x rest he
  | fixedS w =>
    simp only [encIntV] at h
    cases he : encInt (.fixedS w) z with
    | none => simp [he] at h
    | some x =>
      simp only [he, Option.map_some, Option.some.injEq, Prod.mk.injEq] at h
      obtain ⟨rfl, _⟩ := h
      exact decInt_encInt _ hw z x rest he
  | varU =>
    simp only [encIntV] at h
    split at h
    · rename_i hz
      simp only [Option.some.injEq, Prod.mk.injEq] at h
      obtain ⟨rfl, _⟩ := h
      simp only [decInt, lenBody, decLenBody_lenV]
      rw [if_neg (unsOctets_ne_nil _), unsVal_unsOctets, Int.toNat_of_nonneg hz]
    · exact absurd h (by simp)
  | varS =>
    simp only [encIntV, Option.some.injEq, Prod.mk.injEq] at h
    obtain ⟨rfl, _⟩ := h
    simp only [decInt, lenBody, decLenBody_lenV]
    rw [if_neg (intOctets_ne_nil _), twosVal_intOctets]


/-! ### values: canonical up to the order of SET OF lists -/

mutual
def ucanonB : OTy → Val → Bool
  | .real, .real b => decide (RealOk b)
  | .bits _, .bits bs u => decide (u ≤ 7 ∧ (bs = [] → u = 0) ∧ maskLast bs u = bs)
  | .seq root rattrs _ adds aattrs, .seq vs =>
    ucanonComps root rattrs (vs.take root.length) && ucanonComps adds aattrs (vs.drop root.length)
  | .choice _ alts _, .choice i v => ucanonAlt alts i v
  | .seqOf e, .list vs => vs.all (fun v => ucanonB e v)
  | .setOf e, .list vs => vs.all (fun v => ucanonB e v)
  | _, _ => true
def ucanonComps : List OTy → List Attr → List Val → Bool
  | m :: ms, a :: as, v :: vs =>
    (if isAbsent v then true else (!isDefault a v && ucanonB m v)) && ucanonComps ms as vs
  | _, _, _ => true
def ucanonAlt : List OTy → Nat → Val → Bool
  | [], _, _ => true
  | a :: _, 0, v => ucanonB a v
  | _ :: as, i + 1, v => ucanonAlt as i v
end

/-- **abstract value in normal form, SET OF lists in any order**: `OCanon` (present components are not the DEFAULT
    value, BIT STRING values normalised, REAL values in `RealOk`) without the requirement that SET OF lists are
    sorted by element encoding. -/
def UCanon (t : OTy) (v : Val) : Prop := ucanonB t v = true
instance (t : OTy) (v : Val) : Decidable (UCanon t v) := by unfold UCanon; infer_instance

/-- the acceptance statement for one type -/
def RTV (t : OTy) : Prop :=
  OTyWf t → ∀ (v : Val) (s s' : VSt) (out rest : Bytes), UCanon t v → encV t v s = some (out, s') →
    decOER t (out ++ rest) = .ok v rest

theorem isPresent_false_ucanon (a : Attr) (v : Val) (m : OTy) (h : isPresent a v = false)
    (hc : (if isAbsent v then true else (!isDefault a v && ucanonB m v)) = true) : v = .absent := by
  cases v <;> simp_all [isPresent, isAbsent]

/-! ### SEQUENCE: root components -/

theorem decRoot_encRootV (ms : List OTy) (ih : ∀ m ∈ ms, RTV m) (hw : ∀ m ∈ ms, OTyWf m) :
    ∀ (as : List Attr) (vs : List Val) (s s' : VSt) (bits : Bits) (body : Bytes) (tail : Bits) (rest : Bytes),
      ucanonComps ms as vs = true → encRootV ms as vs s = some (bits, body, s') →
      decRoot ms as (bits ++ tail) (body ++ rest) = .ok vs rest ∧ bits.length = (as.filter (·.optional)).length := by
  induction ms with
  | nil =>
    intro as vs s s' bits body tail rest _ h
    cases as <;> cases vs <;> simp [encRootV] at h
    obtain ⟨rfl, rfl, _⟩ := h
    simp [decRoot]
  | cons m ms ihms =>
    intro as vs s s' bits body tail rest hc h
    cases as with
    | nil => cases vs <;> simp [encRootV] at h
    | cons a as =>
    cases vs with
    | nil => simp [encRootV] at h
    | cons v vs =>
    have ihm := ih m (by simp)
    have hwm := hw m (by simp)
    have ih' := ihms (fun x hx => ih x (by simp [hx])) (fun x hx => hw x (by simp [hx]))
    simp only [ucanonComps, Bool.and_eq_true] at hc
    obtain ⟨hcv, hcs⟩ := hc
    simp only [encRootV] at h
    by_cases hp : isPresent a v = true
    · rw [if_pos hp] at h
      obtain ⟨hna, hnd⟩ := isPresent_true a v hp
      rw [hna] at hcv
      simp only [Bool.false_eq_true, if_false, hnd, Bool.not_false, Bool.true_and] at hcv
      cases h1 : encV m v s with
      | none => simp [h1] at h
      | some p1 =>
      obtain ⟨x, s1⟩ := p1
      cases h2 : encRootV ms as vs s1 with
      | none => simp [h1, h2] at h
      | some p =>
      obtain ⟨bits', body', s2⟩ := p
      simp only [h1, h2, Option.some.injEq, Prod.mk.injEq] at h
      obtain ⟨hb, rfl, _⟩ := h
      obtain ⟨hd, hl⟩ := ih' as vs s1 s2 bits' body' tail rest hcs h2
      have hm := ihm hwm v s s1 x (body' ++ rest) hcv h1
      by_cases ho : a.optional = true
      · rw [if_pos ho] at hb; subst hb
        simp only [decRoot, ho, if_true, List.cons_append, List.append_assoc, hm, hd]
        simp [List.filter, ho, hl]
      · rw [if_neg ho] at hb; subst hb
        simp only [decRoot, ho, Bool.false_eq_true, if_false, List.append_assoc, hm, hd]
        simp [List.filter, ho, hl]
    · rw [if_neg hp] at h
      have hv : v = .absent := isPresent_false_ucanon a v m (by simpa using hp) hcv
      subst hv
      by_cases ho : a.optional = true
      · rw [if_pos ho] at h
        cases h2 : encRootV ms as vs s with
        | none => simp [h2] at h
        | some p =>
        obtain ⟨bits', body', s2⟩ := p
        simp only [h2, Option.some.injEq, Prod.mk.injEq] at h
        obtain ⟨rfl, rfl, _⟩ := h
        obtain ⟨hd, hl⟩ := ih' as vs s s2 bits' body' tail rest hcs h2
        simp only [decRoot, ho, if_true, List.cons_append, hd]
        simp [List.filter, ho, hl]
      · rw [if_neg ho] at h; exact absurd h (by simp)

/-! ### SEQUENCE: extension additions against the bitmap of another version -/

/-- `Compat bits B`: the bitmap `B` sent by a peer agrees with the receiver's presence bits `bits` on every addition
    the receiver knows: equal where `B` has a bit, and the additions beyond the end of `B` are absent -/
def Compat : Bits → Bits → Prop
  | [], _ => True
  | b :: bits, [] => b = false ∧ Compat bits []
  | b :: bits, c :: B => b = c ∧ Compat bits B

theorem compat_append (bits tail : Bits) : Compat bits (bits ++ tail) := by
  induction bits with
  | nil => simp [Compat]
  | cons b bits ih => simp [Compat, ih]

theorem compat_nil (bits : Bits) (h : bits.all (· == false) = true) : Compat bits [] := by
  induction bits with
  | nil => simp [Compat]
  | cons b bits ih =>
    simp only [List.all_cons, Bool.and_eq_true, beq_iff_eq] at h
    exact ⟨h.1, ih h.2⟩

theorem compat_take (bits : Bits) : ∀ k, (bits.drop k).all (· == false) = true → Compat bits (bits.take k) := by
  induction bits with
  | nil => intro k _; simp [Compat]
  | cons b bits ih =>
    intro k h
    cases k with
    | zero => simpa using compat_nil (b :: bits) (by simpa using h)
    | succ k =>
      simp only [List.drop_succ_cons] at h
      simp only [List.take_succ_cons, Compat, true_and]
      exact ih k h

theorem compat_shorten (k : Nat) (bits : Bits) : Compat bits (shorten k bits) := by
  unfold shorten
  split
  · rename_i h; exact compat_take bits k h
  · simpa using compat_append bits []

theorem decAdds_encAddsV (ms : List OTy) (ih : ∀ m ∈ ms, RTV m) (hw : ∀ m ∈ ms, OTyWf m) :
    ∀ (as : List Attr) (vs : List Val) (s s' : VSt) (bits : Bits) (body : Bytes) (B : Bits) (rest : Bytes),
      ucanonComps ms as vs = true → encAddsV ms as vs s = some (bits, body, s') → Compat bits B →
      decAdds ms as B (body ++ rest) = .ok vs rest ∧ bits.length = ms.length := by
  induction ms with
  | nil =>
    intro as vs s s' bits body B rest _ h _
    cases as <;> cases vs <;> simp [encAddsV] at h
    obtain ⟨rfl, rfl, _⟩ := h
    simp [decAdds]
  | cons m ms ihms =>
    intro as vs s s' bits body B rest hc h hB
    cases as with
    | nil => cases vs <;> simp [encAddsV] at h
    | cons a as =>
    cases vs with
    | nil => simp [encAddsV] at h
    | cons v vs =>
    have ihm := ih m (by simp)
    have hwm := hw m (by simp)
    have ih' := ihms (fun x hx => ih x (by simp [hx])) (fun x hx => hw x (by simp [hx]))
    simp only [ucanonComps, Bool.and_eq_true] at hc
    obtain ⟨hcv, hcs⟩ := hc
    simp only [encAddsV] at h
    by_cases hp : isPresent a v = true
    · rw [if_pos hp] at h
      obtain ⟨hna, hnd⟩ := isPresent_true a v hp
      rw [hna] at hcv
      simp only [Bool.false_eq_true, if_false, hnd, Bool.not_false, Bool.true_and] at hcv
      cases h1 : encV m v s with
      | none => simp [h1] at h
      | some p1 =>
      obtain ⟨x, s1⟩ := p1
      cases h2 : encAddsV ms as vs (lenBody x s1).2 with
      | none => simp [h1, h2] at h
      | some p =>
      obtain ⟨bits', body', s2⟩ := p
      simp only [h1, h2, Option.some.injEq, Prod.mk.injEq] at h
      obtain ⟨rfl, rfl, _⟩ := h
      -- the sender's bitmap has this bit, and it is set
      cases B with
      | nil => exact absurd hB.1 (by simp)
      | cons c B =>
      obtain ⟨hc1, hB'⟩ := hB
      subst hc1
      obtain ⟨hd, hl⟩ := ih' as vs _ s2 bits' body' B rest hcs h2 hB'
      have hm := ihm hwm v s s1 x [] hcv h1
      rw [List.append_nil] at hm
      have ho := decOpen_lenBody (decOER m) x s1 v (body' ++ rest) hm
      simp only [decAdds, List.append_assoc, ho, hd]
      simp [hl]
    · rw [if_neg hp] at h
      have hv : v = .absent := isPresent_false_ucanon a v m (by simpa using hp) hcv
      subst hv
      cases h2 : encAddsV ms as vs s with
      | none => simp [h2] at h
      | some p =>
      obtain ⟨bits', body', s2⟩ := p
      simp only [h2, Option.some.injEq, Prod.mk.injEq] at h
      obtain ⟨rfl, rfl, _⟩ := h
      cases B with
      | nil =>
        obtain ⟨hd, hl⟩ := ih' as vs s s2 bits' body' [] rest hcs h2 hB.2
        simp only [decAdds, List.drop_nil, hd]
        simp [hl]
      | cons c B =>
        obtain ⟨hc1, hB'⟩ := hB
        subst hc1
        obtain ⟨hd, hl⟩ := ih' as vs s s2 bits' body' B rest hcs h2 hB'
        simp only [decAdds, List.drop_succ_cons, List.drop_zero, hd]
        simp [hl]


/-- no addition present: every addition value is `absent` -/
theorem encAddsV_none_present (ms : List OTy) :
    ∀ (as : List Attr) (vs : List Val) (s s' : VSt) (bits : Bits) (body : Bytes),
      ucanonComps ms as vs = true → encAddsV ms as vs s = some (bits, body, s') → bits.any id = false →
      vs = ms.map (fun _ => Val.absent) ∧ body = [] := by
  induction ms with
  | nil =>
    intro as vs s s' bits body _ h _
    cases as <;> cases vs <;> simp [encAddsV] at h
    simp [h.2.1]
  | cons m ms ihms =>
    intro as vs s s' bits body hc h hb
    cases as with
    | nil => cases vs <;> simp [encAddsV] at h
    | cons a as =>
    cases vs with
    | nil => simp [encAddsV] at h
    | cons v vs =>
    simp only [ucanonComps, Bool.and_eq_true] at hc
    obtain ⟨hcv, hcs⟩ := hc
    simp only [encAddsV] at h
    by_cases hp : isPresent a v = true
    · rw [if_pos hp] at h
      cases h1 : encV m v s with
      | none => simp [h1] at h
      | some p1 =>
      obtain ⟨x, s1⟩ := p1
      cases h2 : encAddsV ms as vs (lenBody x s1).2 with
      | none => simp [h1, h2] at h
      | some p =>
      simp only [h1, h2, Option.some.injEq, Prod.mk.injEq] at h
      obtain ⟨rfl, _⟩ := h
      simp at hb
    · rw [if_neg hp] at h
      have hv : v = .absent := isPresent_false_ucanon a v m (by simpa using hp) hcv
      subst hv
      cases h2 : encAddsV ms as vs s with
      | none => simp [h2] at h
      | some p =>
      obtain ⟨bits', body', s2⟩ := p
      simp only [h2, Option.some.injEq, Prod.mk.injEq] at h
      obtain ⟨rfl, rfl, _⟩ := h
      simp only [List.any_cons, id, Bool.false_or] at hb
      obtain ⟨hvs, hbd⟩ := ihms as vs s s2 bits' body' hcs h2 hb
      simp [hvs, hbd]

/-! ### (a) the bitmap of another version -/

theorem skipOpen_extra (extra : List (Option Bytes)) (rest : Bytes) :
    skipOpen (extraBits extra) (extraBody extra ++ rest) = .ok () rest := by
  induction extra with
  | nil => simp [extraBits, extraBody, skipOpen]
  | cons e extra ih =>
    cases e with
    | none => simpa [extraBits, extraBody, skipOpen] using ih
    | some p =>
      simp only [extraBits, extraBody, skipOpen, openType, List.append_assoc]
      rw [← List.append_assoc, decLenBody_append]
      simpa using ih

theorem any_take_drop (bits : Bits) (k : Nat) (h1 : (bits.take k).any id = false)
    (h2 : (bits.drop k).all (· == false) = true) : bits.any id = false := by
  have : bits = bits.take k ++ bits.drop k := (List.take_append_drop k bits).symm
  rw [this, List.any_append, h1, Bool.false_or]
  generalize bits.drop k = d at h2
  induction d with
  | nil => simp
  | cons b d ih =>
    simp only [List.all_cons, Bool.and_eq_true, beq_iff_eq] at h2
    simp [h2.1, ih h2.2]

/-- what the receiver needs to know about the bitmap `bm` and the extra octets `xb` sent instead of `abits`:
    it agrees with `abits` on the known additions, it is all-zero only if `abits` is, and the bits beyond the
    known additions describe exactly the open types `xb` -/
theorem versionV_spec (ext : Bool) (abits : Bits) (s : VSt) (rest : Bytes) :
    Compat abits (versionV ext abits s).1 ∧
    ((versionV ext abits s).1.any id = false → abits.any id = false) ∧
    skipOpen ((versionV ext abits s).1.drop abits.length) ((versionV ext abits s).2.1 ++ rest) = .ok () rest := by
  unfold versionV
  simp only []
  split
  · refine ⟨compat_shorten _ _, ?_, ?_⟩
    · unfold shorten
      split
      · rename_i h; intro h1; exact any_take_drop abits _ h1 h
      · exact id
    · have : (shorten (needLen abits + s.param % (abits.length - needLen abits)) abits).drop abits.length = [] := by
        unfold shorten
        split
        · apply List.drop_eq_nil_of_le; simp
        · simp
      rw [this]; simp [skipOpen]
  · split
    · refine ⟨compat_append _ _, ?_, ?_⟩
      · intro h; rw [List.any_append] at h; simp only [Bool.or_eq_false_iff] at h; exact h.1
      · rw [List.drop_left]; exact skipOpen_extra _ _
    · refine ⟨by simpa using compat_append abits [], id, ?_⟩
      simp [skipOpen]


/-! ### §20 CHOICE, §17 SEQUENCE OF, §19 SET OF -/

theorem decAlt_encAltV (alts : List OTy) (ih : ∀ m ∈ alts, RTV m) (hw : ∀ m ∈ alts, OTyWf m) :
    ∀ (i : Nat) (v : Val) (s s1 s2 : VSt) (body : Bytes) (nroot : Nat) (rest : Bytes),
      ucanonAlt alts i v = true → encAltV alts i v s = some (body, s1) →
      decAlt alts i nroot ((if i < nroot then body else (lenBody body s2).1) ++ rest) = .ok v rest := by
  induction alts with
  | nil => intro i v s s1 s2 body nroot rest _ h; simp [encAltV] at h
  | cons a as ihas =>
    intro i v s s1 s2 body nroot rest hc h
    cases i with
    | zero =>
      simp only [encAltV] at h
      simp only [ucanonAlt] at hc
      have iha := ih a (by simp) (hw a (by simp))
      simp only [decAlt]
      by_cases hn : 0 < nroot
      · rw [if_pos hn, if_pos hn]; exact iha v s s1 body rest hc h
      · rw [if_neg hn, if_neg hn]
        have := iha v s s1 body [] hc h
        rw [List.append_nil] at this
        exact decOpen_lenBody _ body s2 v rest this
    | succ i =>
      simp only [encAltV] at h
      simp only [ucanonAlt] at hc
      simp only [decAlt]
      have := ihas (fun x hx => ih x (by simp [hx])) (fun x hx => hw x (by simp [hx])) i v s s1 s2 body (nroot - 1) rest hc h
      have hiff : (i + 1 < nroot) ↔ (i < nroot - 1) := by omega
      simp only [hiff]; exact this

theorem decInt_quantityV (n : Nat) (s : VSt) (rest : Bytes) :
    decInt .varU ((lenBody (unsOctets n) s).1 ++ rest) = .ok (n : Int) rest := by
  simp only [decInt, decLenBody_lenBody]
  rw [if_neg (unsOctets_ne_nil _), unsVal_unsOctets]

theorem decRep_mapEncV (e : OTy) (ih : RTV e) (hw : OTyWf e) :
    ∀ (vs : List Val) (s s' : VSt) (els : List Bytes) (rest : Bytes), (vs.all (fun v => ucanonB e v)) = true →
      mapEncV (encV e) vs s = some (els, s') → decRep (decOER e) vs.length (flatten els ++ rest) = .ok vs rest := by
  intro vs
  induction vs with
  | nil =>
    intro s s' els rest _ h
    simp only [mapEncV, Option.some.injEq, Prod.mk.injEq] at h
    obtain ⟨rfl, _⟩ := h
    simp [decRep, flatten]
  | cons v vs ihvs =>
    intro s s' els rest hc h
    simp only [List.all_cons, Bool.and_eq_true] at hc
    simp only [mapEncV] at h
    cases h1 : encV e v s with
    | none => simp [h1] at h
    | some p1 =>
    obtain ⟨x, s1⟩ := p1
    cases h2 : mapEncV (encV e) vs s1 with
    | none => simp [h1, h2] at h
    | some p2 =>
    obtain ⟨xs, s2⟩ := p2
    simp only [h1, h2, Option.some.injEq, Prod.mk.injEq] at h
    obtain ⟨rfl, _⟩ := h
    simp only [flatten, List.length_cons, decRep, List.append_assoc]
    rw [ih hw v s s1 x _ hc.1 h1]
    simp only []
    rw [ihvs s1 s2 xs rest hc.2 h2]

/-! ### acceptance, by induction on the type -/

theorem rtv_boolean : RTV .boolean := by
  intro _ v s s' out rest _ h
  cases v with
  | bool b =>
    simp only [encV] at h
    cases b with
    | false =>
      simp only [Bool.false_eq_true, if_false, Option.some.injEq, Prod.mk.injEq] at h
      obtain ⟨rfl, _⟩ := h
      simp [decOER]
    | true =>
      simp only [if_true, Option.some.injEq, Prod.mk.injEq] at h
      obtain ⟨rfl, _⟩ := h
      have : (boolV s).1 ≠ 0 := by
        unfold boolV; simp only []; split <;> omega
      simp [decOER, this]
  | _ => simp [encV] at h

theorem rtv_null : RTV .null := by
  intro _ v s s' out rest _ h
  cases v <;> simp [encV] at h
  obtain ⟨rfl, _⟩ := h
  simp [decOER]

theorem rtv_integer (sh : IntShape) : RTV (.integer sh) := by
  intro hw v s s' out rest _ h
  cases v with
  | int z => ?_
  | _ => simp [encV] at h
  simp only [encV] at h
  have hs : ∀ w, sh = .fixedS w → w ≠ 0 := by
    intro w e; subst e
    simpa [OTyWf, otyWfB, shapeOk] using hw
  simp only [decOER, decInt_encIntV sh hs z s s' out rest h]

theorem rtv_enumerated : RTV .enumerated := by
  intro _ v s s' out rest _ h
  cases v with
  | int z => ?_
  | _ => simp [encV] at h
  simp only [encV] at h
  simp only [decOER, decEnum_encEnumV z s s' out rest h]

theorem rtv_real : RTV .real := by
  intro _ v s s' out rest hc h
  cases v with
  | real b => ?_
  | _ => simp [encV] at h
  simp only [encV, Option.some.injEq, Prod.mk.injEq] at h
  obtain ⟨rfl, _⟩ := h
  simp only [UCanon, ucanonB, decide_eq_true_eq] at hc
  simp only [decOER, decLenBody_lenV, real_roundtrip b hc]

theorem rtv_octets (f : Option Nat) : RTV (.octets f) := by
  intro _ v s s' out rest _ h
  cases f with
  | none =>
    cases v <;> simp [encV] at h
    obtain ⟨rfl, _⟩ := h
    simp only [decOER, decLenBody_lenV]
  | some n =>
    cases v <;> simp [encV] at h
    obtain ⟨hl, rfl, _⟩ := h
    simp only [decOER, takeN_append _ _ _ hl.symm]

theorem rtv_bits (f : Option Nat) : RTV (.bits f) := by
  intro _ v s s' out rest hc h
  cases f with
  | none =>
    cases v with
    | bits bs u => ?_
    | _ => simp [encV] at h
    simp only [encV] at h
    simp only [UCanon, ucanonB, decide_eq_true_eq] at hc
    obtain ⟨h1, h2, h3⟩ := hc
    rw [if_pos ⟨h1, h2⟩] at h
    simp only [Option.some.injEq, Prod.mk.injEq] at h
    have hh : lenBody (u :: maskLast bs u) s = (out, s') := h
    have hd := decLenBody_lenBody (u :: maskLast bs u) s rest
    rw [hh] at hd
    simp only [decOER, hd, h3]
    rw [if_pos ⟨h1, h2⟩]
  | some n =>
    cases v with
    | bits bs u => ?_
    | _ => simp [encV] at h
    simp [encV] at h
    simp only [UCanon, ucanonB, decide_eq_true_eq] at hc
    obtain ⟨h1, h2, h3⟩ := hc
    obtain ⟨⟨_, hl, hu⟩, rfl, _⟩ := h
    rw [h3]
    simp only [decOER, takeN_append _ _ _ hl.symm]
    rw [← hu, h3]

theorem rtv_seqOf (e : OTy) (ih : RTV e) : RTV (.seqOf e) := by
  intro hw v s s' out rest hc h
  cases v with
  | list vs => ?_
  | _ => simp [encV] at h
  simp only [encV] at h
  have hwe : OTyWf e := by simpa [OTyWf, otyWfB] using hw
  simp only [UCanon, ucanonB] at hc
  cases h1 : mapEncV (encV e) vs s with
  | none => simp [h1] at h
  | some p =>
  obtain ⟨els, s1⟩ := p
  simp only [h1, Option.some.injEq, Prod.mk.injEq] at h
  obtain ⟨rfl, _⟩ := h
  simp only [decOER, List.append_assoc, decInt_quantityV, Int.toNat_natCast]
  rw [decRep_mapEncV e ih hwe vs s s1 els rest hc h1]

theorem rtv_setOf (e : OTy) (ih : RTV e) : RTV (.setOf e) := by
  intro hw v s s' out rest hc h
  cases v with
  | list vs => ?_
  | _ => simp [encV] at h
  simp only [encV] at h
  have hwe : OTyWf e := by simpa [OTyWf, otyWfB] using hw
  simp only [UCanon, ucanonB] at hc
  cases h1 : mapEncV (encV e) vs s with
  | none => simp [h1] at h
  | some p =>
  obtain ⟨els, s1⟩ := p
  simp only [h1, Option.some.injEq, Prod.mk.injEq] at h
  obtain ⟨rfl, _⟩ := h
  simp only [decOER, List.append_assoc, decInt_quantityV, Int.toNat_natCast]
  rw [decRep_mapEncV e ih hwe vs s s1 els rest hc h1]

theorem rtv_choice (tags : List Tag) (alts : List OTy) (n : Nat) (ih : ∀ m ∈ alts, RTV m) : RTV (.choice tags alts n) := by
  intro hw v s s' out rest hc h
  cases v with
  | choice i v => ?_
  | _ => simp [encV] at h
  simp only [encV] at h
  simp only [OTyWf, otyWfB, Bool.and_eq_true, decide_eq_true_eq] at hw
  obtain ⟨hwa, hnd⟩ := hw
  have hwa' := (otyWfList_iff alts).mp hwa
  simp only [UCanon, ucanonB] at hc
  cases h1 : tags[i]? with
  | none => simp [h1] at h
  | some t =>
  cases h2 : encAltV alts i v s with
  | none => simp [h1, h2] at h
  | some p =>
  obtain ⟨body, s1⟩ := p
  simp only [h1, h2] at h
  have key := decAlt_encAltV alts ih hwa' i v s s1 s1 body n rest hc h2
  by_cases hi : i < n
  · rw [if_pos hi] at h key
    simp only [Option.some.injEq, Prod.mk.injEq] at h
    obtain ⟨rfl, _⟩ := h
    simp only [decOER, List.append_assoc, decTag_tagOctets, findTag_of_getElem t tags i 0 hnd h1, Nat.zero_add]
    rw [key]
  · rw [if_neg hi] at h key
    simp only [Option.some.injEq, Prod.mk.injEq] at h
    obtain ⟨rfl, _⟩ := h
    simp only [decOER, List.append_assoc, decTag_tagOctets, findTag_of_getElem t tags i 0 hnd h1, Nat.zero_add]
    rw [key]


theorem bits_ne_nil_of_any (bm : Bits) (h : bm.any id = true) : bitsToBytes bm ≠ [] := by
  intro he
  have := bitsToBytes_eq_nil bm he
  subst this; simp at h

theorem rtv_seq (root : List OTy) (rattrs : List Attr) (ext : Bool) (adds : List OTy) (aattrs : List Attr)
    (ihr : ∀ m ∈ root, RTV m) (iha : ∀ m ∈ adds, RTV m) : RTV (.seq root rattrs ext adds aattrs) := by
  intro hw v s s' out rest hc h
  cases v with
  | seq vs => ?_
  | _ => simp [encV] at h
  simp only [encV] at h
  simp only [OTyWf, otyWfB, Bool.and_eq_true] at hw
  obtain ⟨hwr, hwa⟩ := hw
  have hwr' := (otyWfList_iff root).mp hwr
  have hwa' := (otyWfList_iff adds).mp hwa
  simp only [UCanon, ucanonB, Bool.and_eq_true] at hc
  obtain ⟨hcr, hca⟩ := hc
  cases h1 : encRootV root rattrs (vs.take root.length) s with
  | none => simp [h1] at h
  | some p1 =>
  obtain ⟨rbits, rbody, s1⟩ := p1
  cases h2 : encAddsV adds aattrs (vs.drop root.length) s1 with
  | none => simp [h1, h2] at h
  | some p2 =>
  obtain ⟨abits, abody, s2⟩ := p2
  simp only [h1, h2] at h
  have hvs : vs.take root.length ++ vs.drop root.length = vs := List.take_append_drop _ _
  obtain ⟨hcompat, hnone, hskip⟩ := versionV_spec ext abits s2 rest
  generalize hbm : (versionV ext abits s2).1 = bm at h hcompat hnone hskip
  generalize hxb : (versionV ext abits s2).2.1 = xb at h hskip
  generalize (versionV ext abits s2).2.2 = s3 at h
  by_cases hany : bm.any id = true
  · -- a bitmap is sent
    rw [if_pos hany] at h
    cases ext with
    | false => simp at h
    | true =>
    simp only [if_true, Option.some.injEq, Prod.mk.injEq] at h
    obtain ⟨rfl, _⟩ := h
    have hpad := bytesToBits_bitsToBytes (true :: rbits)
    obtain ⟨hdr, hlr⟩ := decRoot_encRootV root ihr hwr' rattrs _ s s1 rbits rbody
      (List.replicate (padBits (true :: rbits).length) false)
      ((lenBody (padBits bm.length :: bitsToBytes bm) s3).1 ++ (abody ++ xb) ++ rest) hcr h1
    obtain ⟨hda, hla⟩ := decAdds_encAddsV adds iha hwa' aattrs _ s1 s2 abits abody bm (xb ++ rest) hca h2 hcompat
    have hne : bitsToBytes bm ≠ [] := bits_ne_nil_of_any bm hany
    simp only [decOER, if_true, List.append_assoc]
    rw [takeN_bitsToBytes (true :: rbits) _ (1 + (List.filter (fun x => x.optional) rattrs).length)
      (by simp [hlr, Nat.add_comm])]
    simp only [hpad, List.cons_append, List.headD_cons, Bool.and_self, List.drop_succ_cons,
      List.drop_zero, if_true]
    simp only [List.append_assoc] at hdr
    rw [hdr]
    simp only []
    rw [decLenBody_lenBody]
    simp only [bitmap_bits]
    rw [if_pos ⟨padBits_le _, fun he => absurd he hne⟩]
    rw [hda]
    simp only [hvs]
    rw [← hla, hskip]
  · -- no bitmap: no extension addition is present
    have hany' : bm.any id = false := by simpa using hany
    have habits := hnone hany'
    obtain ⟨hva, hba⟩ := encAddsV_none_present adds aattrs _ s1 s2 abits abody hca h2 habits
    rw [if_neg hany] at h
    simp only [Option.some.injEq, Prod.mk.injEq] at h
    obtain ⟨rfl, _⟩ := h
    cases ext with
    | true =>
      obtain ⟨hdr, hlr⟩ := decRoot_encRootV root ihr hwr' rattrs _ s s1 rbits rbody
        (List.replicate (padBits (false :: rbits).length) false) rest hcr h1
      have hpad := bytesToBits_bitsToBytes (false :: rbits)
      simp only [decOER, if_true, List.append_assoc, List.singleton_append]
      rw [takeN_bitsToBytes (false :: rbits) _ (1 + (List.filter (fun x => x.optional) rattrs).length)
        (by simp [hlr, Nat.add_comm])]
      simp only [hpad, List.cons_append, List.headD_cons, Bool.and_false, Bool.false_eq_true, if_false,
        List.drop_succ_cons, List.drop_zero]
      rw [hdr]
      simp only [← hva, hvs]
    | false =>
      obtain ⟨hdr, hlr⟩ := decRoot_encRootV root ihr hwr' rattrs _ s s1 rbits rbody
        (List.replicate (padBits rbits.length) false) rest hcr h1
      have hpad := bytesToBits_bitsToBytes rbits
      simp only [decOER, Bool.false_eq_true, if_false, List.append_assoc, List.nil_append]
      rw [takeN_bitsToBytes rbits _ (0 + (List.filter (fun x => x.optional) rattrs).length)
        (by simp [hlr])]
      simp only [hpad, Bool.false_and, Bool.false_eq_true, if_false, List.drop_zero]
      rw [hdr]
      simp only [← hva, hvs]

/-- the reference decoder accepts every output of the variant encoder, for every selector state -/
theorem rtv_all : ∀ t, RTV t := by
  apply OTy.induct'
  · exact rtv_boolean
  · exact rtv_null
  · exact rtv_integer
  · exact rtv_enumerated
  · exact rtv_real
  · exact rtv_octets
  · exact rtv_bits
  · exact rtv_seq
  · exact rtv_choice
  · exact rtv_seqOf
  · exact rtv_setOf

/-! ### without a variation `encV` is the canonical encoder -/

theorem site_none (s : VSt) (hs : s.kind = .none) (k : Kind) (hk : k ≠ .none) (a : Bool) : s.site k a = (false, s) := by
  unfold VSt.site
  rw [if_neg]
  intro h; rw [hs] at h; exact hk h.1.symm

theorem lenV_none (n : Nat) (s : VSt) (hs : s.kind = .none) : lenV n s = (lenDet n, s) := by
  unfold lenV; simp only [site_none s hs .lenLong (by decide)]; simp

theorem lenBody_none (c : Bytes) (s : VSt) (hs : s.kind = .none) : lenBody c s = (lenDet c.length ++ c, s) := by
  unfold lenBody; rw [lenV_none _ s hs]

theorem boolV_none (s : VSt) (hs : s.kind = .none) : boolV s = (255, s) := by
  unfold boolV; simp only [site_none s hs .boolTrue (by decide)]; simp

theorem encEnumV_none (z : Int) (s : VSt) (hs : s.kind = .none) : encEnumV z s = (encEnum z).map fun x => (x, s) := by
  unfold encEnumV; simp only [site_none s hs .enumLong (by decide)]; simp

theorem encIntV_none (sh : IntShape) (z : Int) (s : VSt) (hs : s.kind = .none) :
    encIntV sh z s = (encInt sh z).map fun x => (x, s) := by
  cases sh with
  | fixedU w => simp [encIntV]
  | fixedS w => simp [encIntV]
  | varU => simp only [encIntV, encInt, lenBody_none _ s hs]; split <;> simp
  | varS => simp only [encIntV, encInt, lenBody_none _ s hs]; simp

theorem versionV_none (ext : Bool) (abits : Bits) (s : VSt) (hs : s.kind = .none) :
    versionV ext abits s = (abits, [], s) := by
  unfold versionV
  simp only [site_none s hs .older (by decide), site_none s hs .newer (by decide)]
  simp

/-- the statement for one type -/
def NV (t : OTy) : Prop :=
  ∀ (v : Val) (s : VSt), s.kind = .none → OCanon t v → encV t v s = (encOER t v).map fun x => (x, s)

theorem encRootV_none (ms : List OTy) (ih : ∀ m ∈ ms, NV m) :
    ∀ (as : List Attr) (vs : List Val) (s : VSt), s.kind = .none → ocanonComps ms as vs = true →
      encRootV ms as vs s = (encRoot ms as vs).map fun p => (p.1, p.2, s) := by
  induction ms with
  | nil => intro as vs s _ _; cases as <;> cases vs <;> simp [encRootV, encRoot]
  | cons m ms ihms =>
    intro as vs s hs hc
    cases as with
    | nil => cases vs <;> simp [encRootV, encRoot]
    | cons a as =>
    cases vs with
    | nil => simp [encRootV, encRoot]
    | cons v vs =>
    simp only [ocanonComps, Bool.and_eq_true] at hc
    obtain ⟨hcv, hcs⟩ := hc
    have ih' := ihms (fun x hx => ih x (by simp [hx])) as vs s hs hcs
    simp only [encRootV, encRoot]
    by_cases hp : isPresent a v = true
    · obtain ⟨hna, hnd⟩ := isPresent_true a v hp
      rw [hna] at hcv
      simp only [Bool.false_eq_true, if_false, hnd, Bool.not_false, Bool.true_and] at hcv
      rw [if_pos hp, if_pos hp, ih m (by simp) v s hs hcv]
      cases encOER m v with
      | none => simp
      | some x =>
        simp only [Option.map_some, ih']
        cases encRoot ms as vs with
        | none => simp
        | some p => simp
    · rw [if_neg hp, if_neg hp]
      split
      · rw [ih']
        cases encRoot ms as vs with
        | none => simp
        | some p => simp
      · rfl

theorem encAddsV_none (ms : List OTy) (ih : ∀ m ∈ ms, NV m) :
    ∀ (as : List Attr) (vs : List Val) (s : VSt), s.kind = .none → ocanonComps ms as vs = true →
      encAddsV ms as vs s = (encAdds ms as vs).map fun p => (p.1, p.2, s) := by
  induction ms with
  | nil => intro as vs s _ _; cases as <;> cases vs <;> simp [encAddsV, encAdds]
  | cons m ms ihms =>
    intro as vs s hs hc
    cases as with
    | nil => cases vs <;> simp [encAddsV, encAdds]
    | cons a as =>
    cases vs with
    | nil => simp [encAddsV, encAdds]
    | cons v vs =>
    simp only [ocanonComps, Bool.and_eq_true] at hc
    obtain ⟨hcv, hcs⟩ := hc
    have ih' := ihms (fun x hx => ih x (by simp [hx])) as vs s hs hcs
    simp only [encAddsV, encAdds]
    by_cases hp : isPresent a v = true
    · obtain ⟨hna, hnd⟩ := isPresent_true a v hp
      rw [hna] at hcv
      simp only [Bool.false_eq_true, if_false, hnd, Bool.not_false, Bool.true_and] at hcv
      rw [if_pos hp, if_pos hp, ih m (by simp) v s hs hcv]
      cases encOER m v with
      | none => simp
      | some x =>
        simp only [Option.map_some, lenBody_none x s hs, ih']
        cases encAdds ms as vs with
        | none => simp
        | some p => simp [openType]
    · rw [if_neg hp, if_neg hp, ih']
      cases encAdds ms as vs with
      | none => simp
      | some p => simp

theorem encAltV_none (alts : List OTy) (ih : ∀ m ∈ alts, NV m) :
    ∀ (i : Nat) (v : Val) (s : VSt), s.kind = .none → ocanonAlt alts i v = true →
      encAltV alts i v s = (encAlt alts i v).map fun x => (x, s) := by
  induction alts with
  | nil => intro i v s _ _; simp [encAltV, encAlt]
  | cons a as ihas =>
    intro i v s hs hc
    cases i with
    | zero => simp only [ocanonAlt] at hc; simp only [encAltV, encAlt]; exact ih a (by simp) v s hs hc
    | succ i =>
      simp only [ocanonAlt] at hc; simp only [encAltV, encAlt]
      exact ihas (fun m hm => ih m (by simp [hm])) i v s hs hc

theorem mapEncV_none (e : OTy) (ih : NV e) :
    ∀ (vs : List Val) (s : VSt), s.kind = .none → (vs.all fun v => ocanonB e v) = true →
      mapEncV (encV e) vs s = (mapEnc (encOER e) vs).map fun x => (x, s) := by
  intro vs
  induction vs with
  | nil => intro s _ _; simp [mapEncV, mapEnc]
  | cons v vs ihvs =>
    intro s hs hc
    simp only [List.all_cons, Bool.and_eq_true] at hc
    simp only [mapEncV, mapEnc, ih v s hs hc.1]
    cases encOER e v with
    | none => simp
    | some x =>
      simp only [Option.map_some, ihvs s hs hc.2]
      cases mapEnc (encOER e) vs with
      | none => simp
      | some xs => simp


theorem nv_seq (root : List OTy) (rattrs : List Attr) (ext : Bool) (adds : List OTy) (aattrs : List Attr)
    (ihr : ∀ m ∈ root, NV m) (iha : ∀ m ∈ adds, NV m) : NV (.seq root rattrs ext adds aattrs) := by
  intro v s hs hc
  cases v with
  | seq vs => ?_
  | _ => simp [encV, encOER]
  simp only [OCanon, ocanonB, Bool.and_eq_true] at hc
  simp only [encV, encOER, encRootV_none root ihr rattrs _ s hs hc.1]
  cases encRoot root rattrs (vs.take root.length) with
  | none => simp
  | some p1 =>
  obtain ⟨rbits, rbody⟩ := p1
  simp only [Option.map_some, encAddsV_none adds iha aattrs _ s hs hc.2]
  cases encAdds adds aattrs (vs.drop root.length) with
  | none => simp
  | some p2 =>
  obtain ⟨abits, abody⟩ := p2
  simp only [Option.map_some, versionV_none ext abits s hs]
  by_cases hany : abits.any id = true
  · cases ext with
    | false => simp [hany]
    | true =>
      simp [hany, lenBody_none _ s hs, bitmapField, Nat.add_comm]
  · have hany' : abits.any id = false := by simpa using hany
    cases ext <;> simp [hany']

theorem nv_all : ∀ t, NV t := by
  apply OTy.induct'
  · intro v s hs _
    cases v with
    | bool b => cases b <;> simp [encV, encOER, boolV_none s hs]
    | _ => simp [encV, encOER]
  · intro v s _ _; cases v <;> simp [encV, encOER]
  · intro sh v s hs _; cases v <;> simp [encV, encOER, encIntV_none _ _ s hs]
  · intro v s hs _; cases v <;> simp [encV, encOER, encEnumV_none _ s hs]
  · intro v s hs _; cases v <;> simp [encV, encOER, lenBody_none _ s hs]
  · intro f v s hs _
    cases f <;> cases v <;> simp [encV, encOER, lenBody_none _ s hs]
  · intro f v s hs hc
    cases v with
    | bits bs u =>
      simp only [OCanon, ocanonB, decide_eq_true_eq] at hc
      cases f with
      | none =>
        simp only [encV, encOER, lenBody_none _ s hs]
        split
        · simp [hc.2.2, Nat.add_comm]
        · simp
      | some n =>
        simp only [encV, encOER]
        split <;> simp
    | _ => cases f <;> simp [encV, encOER]
  · exact nv_seq
  · intro tags alts n ih v s hs hc
    cases v with
    | choice i x =>
      simp only [OCanon, ocanonB] at hc
      simp only [encV, encOER, encAltV_none alts ih i x s hs hc]
      cases tags[i]? with
      | none => simp
      | some t =>
        cases encAlt alts i x with
        | none => simp
        | some body =>
          simp only [Option.map_some, lenBody_none body s hs]
          split <;> simp [openType]
    | _ => simp [encV, encOER]
  · intro e ih v s hs hc
    cases v with
    | list vs =>
      simp only [OCanon, ocanonB] at hc
      simp only [encV, encOER, mapEncV_none e ih vs s hs hc]
      cases mapEnc (encOER e) vs with
      | none => simp
      | some els => simp [lenBody_none _ s hs, quantity]
    | _ => simp [encV, encOER]
  · intro e ih v s hs hc
    cases v with
    | list vs =>
      simp only [OCanon, ocanonB, Bool.and_eq_true] at hc
      simp only [encV, encOER, mapEncV_none e ih vs s hs hc.1]
      have hsorted := hc.2
      simp only [sortedEncO, encElems] at hsorted
      cases hm : mapEnc (encOER e) vs with
      | none => simp
      | some els =>
        rw [hm] at hsorted
        simp [lenBody_none _ s hs, quantity, sortBy_of_chain bytesLe els hsorted]
    | _ => simp [encV, encOER]

end Asn1c.Proofs.L2OerVariants
