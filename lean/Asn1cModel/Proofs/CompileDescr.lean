import Asn1cModel.Impl.CompileDescr
import Asn1cModel.Impl.CompileDescrL2
/-
  Proofs.CompileDescr — lemmas behind Props/C10Compile.lean.
  Part 1: the tag chain the compiler model emits (`fetchTags` on the fixed module, i.e. asn1fix_tags.c after
  asn1fix_constr.c) equals the tag list of the type the L2 codecs resolve (`toL2`, X.680 §31.2.7).
-/
namespace Asn1c.Impl.CompileDescr
open Asn1c Asn1c.L2 Asn1c.Impl.BerTlv

/-! ### the resolved tag list without building the members -/

/-- `tyTags` of `toL2 M fuel t` (see `toL2_tags`) -/
def l2Tags (M : Module) : Nat → CTy → Option (List Tag)
  | 0, _ => none
  | fuel + 1, t =>
    match t with
    | .ref tag n =>
      match M.lookup n with
      | none => none
      | some d => (l2Tags M fuel d).map fun base => applyTag M.tagDefault (specOf tag) base base.isEmpty
    | .constr tag .choice _ _ => some (applyTag M.tagDefault (specOf tag) [] true)
    | t => some (applyTag M.tagDefault (specOf t.tag) [univ (univNum t)] false)

theorem tyTags_retag (t : Ty) (f : List Tag → List Tag) : tyTags (retag t f) = f (tyTags t) := by
  cases t <;> rfl

theorem isUntaggedChoice_tags {t : Ty} (h : isUntaggedChoice t = true) : tyTags t = [] := by
  cases t <;> simp_all [isUntaggedChoice, tyTags]

theorem applyTag_choice_flag (td : String) (s : Option TagSpec) (base : List Tag) (b : Bool)
    (h : b = true → base = []) : applyTag td s base b = applyTag td s base base.isEmpty := by
  cases s with
  | none => rfl
  | some s =>
    cases b with
    | false => simp [applyTag]
    | true => simp [applyTag, h rfl]

theorem strUniv_agree {k : String} {u : Nat} (h : L2.strUniv k = some u) : strUniv k = u := by
  unfold L2.strUniv at h
  unfold strUniv
  split at h
  · simp_all
  · split at h
    · simp_all
    · split at h
      · simp_all
      · split at h
        · simp_all
        · split at h
          · simp_all
          · split at h
            · simp_all
            · split at h
              · simp_all
              · simp at h

theorem toL2_tags (M : Module) : ∀ (fuel : Nat) (t : CTy) (ty : Ty),
    toL2 M fuel t = some ty → l2Tags M fuel t = some (tyTags ty) := by
  intro fuel
  induction fuel with
  | zero => intro t ty h; simp [toL2] at h
  | succ fuel ih =>
    intro t ty h
    cases t with
    | prim tag k => simp only [toL2, Option.some.injEq] at h; subst h; cases k <;> rfl
    | integer tag c => simp only [toL2, Option.some.injEq] at h; subst h; rfl
    | enumerated tag r e => simp only [toL2, Option.some.injEq] at h; subst h; rfl
    | bitstr tag s => simp only [toL2, Option.some.injEq] at h; subst h; rfl
    | octstr tag s => simp only [toL2, Option.some.injEq] at h; subst h; rfl
    | str tag k s a =>
      simp only [toL2] at h
      cases hu : L2.strUniv k with
      | none => simp [hu] at h
      | some u =>
        simp only [hu, Option.bind_some, Option.some.injEq] at h
        subst h
        simp [l2Tags, univNum, strUniv_agree hu, tyTags, CTy.tag]
    | listOf tag q s e =>
      simp only [toL2] at h
      cases he : toL2 M fuel e with
      | none => simp [he] at h
      | some e' =>
        simp only [he, Option.bind_some, Option.some.injEq] at h
        subst h
        cases q <;> simp [l2Tags, univNum, tyTags, CTy.tag]
    | constr tag k ext comps =>
      simp only [toL2] at h
      cases hc : l2Comps (toL2 M fuel) (autoSelected M comps) (ext.getD comps.length) 0 comps with
      | none => simp [hc] at h
      | some p =>
        obtain ⟨ms, as⟩ := p
        simp only [hc, Option.bind_some] at h
        cases k <;> simp only [Option.some.injEq] at h <;> subst h <;> simp [l2Tags, univNum, tyTags, CTy.tag]
    | ref tag n =>
      simp only [toL2] at h
      cases hl : M.lookup n with
      | none => simp [hl] at h
      | some d =>
        simp only [hl] at h
        cases hd : toL2 M fuel d with
        | none => simp [hd] at h
        | some ty' =>
          simp only [hd, Option.bind_some, Option.some.injEq] at h
          subst h
          simp only [l2Tags, hl, ih d ty' hd, Option.map_some, tyTags_retag]
          congr 1
          exact (applyTag_choice_flag _ _ _ _ (fun hb => isUntaggedChoice_tags hb)).symm

/-! ### the chain X.680 §31.2.7 assigns on the fixed module, and `asn1f_fetch_tags_impl` -/

/-- prefix a (fixed) tag: IMPLICIT replaces the first tag of the base chain, EXPLICIT prepends -/
def chainTag (g : Option WTag) (b : List Tag) : List Tag :=
  match g with
  | none => b
  | some g => if g.mode == .imp then g.tag :: b.drop 1 else g.tag :: b

/-- the chain below the own tag -/
def chainBase (M : Module) (rec : CTy → Option (List Tag)) : CTy → Option (List Tag)
  | .ref _ n =>
    match M.lookup n with
    | some t' => rec t'
    | none => none
  | .constr _ .choice _ _ => some []
  | t => some [⟨0, univNum t⟩]

def chain (M : Module) : Nat → CTy → Option (List Tag)
  | 0, t => (chainBase M (fun _ => none) t).map (chainTag t.tag)
  | fuel + 1, t => (chainBase M (chain M fuel) t).map (chainTag t.tag)

/-- the chain below the own tag of a type that is not a reference -/
def baseOf : CTy → List Tag
  | .constr _ .choice _ _ => []
  | t => [⟨0, univNum t⟩]

def CTy.isRef : CTy → Bool
  | .ref _ _ => true
  | _ => false

def fetchList (r : Option (List Tag × Nat)) : List Tag :=
  match r with
  | some st => st.1
  | none => []

theorem addOwn_state (t : CTy) (acc : List Tag) (s : Nat) (hs : s ≤ 1) :
    addOwn false t (acc, s) =
      match t.tag with
      | none => (acc, s)
      | some g => (if s = 0 then acc ++ [g.tag] else acc, if g.mode == .imp then 1 else 0) := by
  unfold addOwn
  cases ht : t.tag with
  | none => rfl
  | some g =>
    simp only [addTag]
    rcases Nat.le_one_iff_eq_zero_or_eq_one.mp hs with h | h <;> subst h
    · cases g.mode <;> simp
    · cases g.mode <;> simp

theorem chainTag_drop (g : Option WTag) (b acc : List Tag) (s : Nat) (hs : s ≤ 1) :
    (match g with
      | none => acc ++ b.drop s
      | some g => (if s = 0 then acc ++ [g.tag] else acc) ++ b.drop (if g.mode == .imp then 1 else 0))
    = acc ++ (chainTag g b).drop s := by
  cases g with
  | none => rfl
  | some g =>
    rcases Nat.le_one_iff_eq_zero_or_eq_one.mp hs with h | h <;> subst h
    · cases hm : g.mode <;> simp [chainTag, hm]
    · cases hm : g.mode <;> simp [chainTag, hm]

theorem mode_le_one (g : WTag) : (if g.mode == Mode.imp then 1 else 0) ≤ 1 := by
  split <;> omega

theorem chainBase_nonref (M : Module) (rec : CTy → Option (List Tag)) (t : CTy) (h : t.isRef = false) :
    chainBase M rec t = some (baseOf t) := by
  cases t with
  | ref tg n => simp [CTy.isRef] at h
  | constr tg k e cs => cases k <;> rfl
  | _ => rfl

theorem chain_nonref (M : Module) (fuel : Nat) (t : CTy) (h : t.isRef = false) :
    chain M fuel t = some (chainTag t.tag (baseOf t)) := by
  cases fuel <;> simp [chain, chainBase_nonref M _ t h]

theorem fetchTags_nonref (M : Module) (fuel : Nat) (t : CTy) (st : List Tag × Nat) (h : t.isRef = false) :
    fetchTags M false fuel t st =
      (match t with
       | .constr _ .choice _ _ => if (addOwn false t st).1.length > 0 then some (addOwn false t st) else none
       | t => some (addTag false ⟨⟨0, univNum t⟩, .dflt⟩ (addOwn false t st))) := by
  cases t with
  | ref tg n => simp [CTy.isRef] at h
  | constr tg k e cs => cases k <;> cases fuel <;> simp [fetchTags]
  | _ => cases fuel <;> simp [fetchTags]

theorem fetch_leaf (u : Tag) (acc : List Tag) (s : Nat) (hs : s ≤ 1) :
    (addTag false ⟨u, .dflt⟩ (acc, s)).1 = acc ++ [u].drop s := by
  rcases Nat.le_one_iff_eq_zero_or_eq_one.mp hs with h | h <;> subst h <;> simp [addTag]

theorem leaf_case (t : CTy) (u : Tag) (acc : List Tag) (s : Nat) (hs : s ≤ 1) :
    fetchList (some (addTag false ⟨u, .dflt⟩ (addOwn false t (acc, s)))) = acc ++ (chainTag t.tag [u]).drop s := by
  rw [addOwn_state t acc s hs, ← chainTag_drop t.tag [u] acc s hs]
  cases t.tag with
  | none => exact fetch_leaf _ _ _ hs
  | some g => exact fetch_leaf _ _ _ (mode_le_one g)

theorem choice_case (t : CTy) (acc : List Tag) (s : Nat) (hs : s ≤ 1) :
    fetchList (if (addOwn false t (acc, s)).1.length > 0 then some (addOwn false t (acc, s)) else none)
      = acc ++ (chainTag t.tag []).drop s := by
  rw [addOwn_state t acc s hs, ← chainTag_drop t.tag [] acc s hs]
  cases t.tag with
  | none => by_cases hl : acc.length > 0 <;> simp_all [fetchList]
  | some g =>
    simp only [List.drop_nil, List.append_nil]
    split <;> rename_i h0
    · simp [fetchList]
    · by_cases hl : acc.length > 0 <;> simp_all [fetchList]

theorem fetch_nonref (M : Module) (fuel : Nat) (t : CTy) (acc : List Tag) (s : Nat) (hs : s ≤ 1)
    (h : t.isRef = false) :
    fetchList (fetchTags M false fuel t (acc, s)) = acc ++ (chainTag t.tag (baseOf t)).drop s := by
  rw [fetchTags_nonref M fuel t _ h]
  cases t with
  | ref tg n => simp [CTy.isRef] at h
  | constr tg k e cs =>
    cases k with
    | choice => exact choice_case _ acc s hs
    | sequence => exact leaf_case _ _ acc s hs
    | set => exact leaf_case _ _ acc s hs
  | prim tg k => exact leaf_case _ _ acc s hs
  | integer tg c => exact leaf_case _ _ acc s hs
  | enumerated tg r e => exact leaf_case _ _ acc s hs
  | bitstr tg z => exact leaf_case _ _ acc s hs
  | octstr tg z => exact leaf_case _ _ acc s hs
  | str tg k z a => exact leaf_case _ _ acc s hs
  | listOf tg q z e => exact leaf_case _ _ acc s hs

/-- **`asn1f_fetch_tags_impl` computes the chain**: started with the tags `acc` and `skip` ≤ 1 it appends the
    chain of the type minus its first `skip` tags -/
theorem fetch_chain (M : Module) : ∀ (fuel : Nat) (t : CTy) (acc : List Tag) (s : Nat) (c : List Tag),
    s ≤ 1 → chain M fuel t = some c →
    fetchList (fetchTags M false fuel t (acc, s)) = acc ++ c.drop s := by
  intro fuel
  induction fuel with
  | zero =>
    intro t acc s c hs hc
    cases hr : t.isRef with
    | false =>
      rw [chain_nonref M 0 t hr] at hc
      cases hc
      exact fetch_nonref M 0 t acc s hs hr
    | true =>
      cases t with
      | ref tg n =>
        simp only [chain, chainBase] at hc
        cases hl : M.lookup n <;> simp [hl] at hc
      | _ => simp [CTy.isRef] at hr
  | succ fuel ih =>
    intro t acc s c hs hc
    cases hr : t.isRef with
    | false =>
      rw [chain_nonref M _ t hr] at hc
      cases hc
      exact fetch_nonref M _ t acc s hs hr
    | true =>
      cases t with
      | ref tg n =>
        simp only [chain, chainBase] at hc
        cases hl : M.lookup n with
        | none => simp [hl] at hc
        | some t' =>
          simp only [hl] at hc
          cases hb : chain M fuel t' with
          | none => simp [hb] at hc
          | some b =>
            simp only [hb, Option.map_some, Option.some.injEq, CTy.tag] at hc
            subst hc
            unfold fetchTags
            simp only [hl]
            rw [addOwn_state _ acc s hs]
            simp only [CTy.tag]
            rw [← chainTag_drop tg b acc s hs]
            cases tg with
            | none => exact ih t' acc s b hs hb
            | some g => exact ih t' _ _ b (mode_le_one g) hb
      | _ => simp [CTy.isRef] at hr

/-- `td->tags` of the model = the chain -/
theorem tagsOf_chain (M : Module) (t : CTy) (c : List Tag) (h : chain M M.fuel t = some c) : tagsOf M t = c := by
  have := fetch_chain M M.fuel t [] 0 c (by omega) h
  unfold tagsOf
  cases hf : fetchTags M false M.fuel t ([], 0) <;> simp_all [fetchList]

/-! ### the fixer (asn1fix_constr.c) realises X.680 §31.2.7 / §25.8 -/

def ValidTagDefault (M : Module) : Prop :=
  M.tagDefault = "none" ∨ M.tagDefault = "EXPLICIT" ∨ M.tagDefault = "IMPLICIT" ∨ M.tagDefault = "AUTOMATIC"

theorem lookup_map_fix (M : Module) (l : List (String × CTy)) (n : String) :
    (l.map fun (p : String × CTy) => (p.1, fixTop M p.2)).lookup n = (l.lookup n).map (fixTop M) := by
  induction l with
  | nil => rfl
  | cons p rest ih =>
    by_cases h : (n == p.1) = true <;> simp [List.lookup, h, ih]

theorem lookup_fix (M : Module) (n : String) : (fixModule M).lookup n = (M.lookup n).map (fixTop M) := by
  unfold Module.lookup fixModule
  exact lookup_map_fix M M.types n

theorem withTag_tag (t : CTy) (g : Option WTag) : (t.withTag g).tag = g := by cases t <;> rfl
theorem withTag_isRef (t : CTy) (g : Option WTag) : (t.withTag g).isRef = t.isRef := by cases t <;> rfl
theorem withTag_baseOf (t : CTy) (g : Option WTag) : baseOf (t.withTag g) = baseOf t := by
  cases t with
  | constr tg k e cs => cases k <;> rfl
  | listOf tg q z e => cases q <;> rfl
  | prim tg k => cases k <;> rfl
  | _ => rfl
theorem fixTy_tag (M : Module) (t : CTy) : (fixTy M t).tag = t.tag := by cases t <;> simp [fixTy, CTy.tag]
theorem fixTy_isRef (M : Module) (t : CTy) : (fixTy M t).isRef = t.isRef := by cases t <;> simp [fixTy, CTy.isRef]
theorem fixTy_baseOf (M : Module) (t : CTy) : baseOf (fixTy M t) = baseOf t := by
  cases t with
  | constr tg k e cs => cases k <;> simp [fixTy, baseOf, univNum]
  | listOf tg q z e => cases q <;> simp [fixTy, baseOf, univNum]
  | _ => simp [fixTy]

/-- the own tag after `asn1f_fix_constr_tag(arg, 1)` -/
theorem fixTop_tag (M : Module) (t : CTy) :
    (fixTop M t).tag = t.tag.map (fixTag M (mustExplicit M M.fuel t)) := by
  unfold fixTop
  cases ht : t.tag with
  | none => simp [fixTy_tag, ht]
  | some g => simp [withTag_tag]
theorem fixTop_isRef (M : Module) (t : CTy) : (fixTop M t).isRef = t.isRef := by
  unfold fixTop; cases t.tag <;> simp [withTag_isRef, fixTy_isRef]
theorem fixTop_baseOf (M : Module) (t : CTy) : baseOf (fixTop M t) = baseOf t := by
  unfold fixTop; cases t.tag <;> simp [withTag_baseOf, fixTy_baseOf]
theorem fixTop_ref (M : Module) (tg : Option WTag) (n : String) :
    fixTop M (.ref tg n) = .ref (tg.map (fixTag M (mustExplicit M M.fuel (.ref tg n)))) n := by
  unfold fixTop; cases tg <;> simp [fixTy, CTy.tag, CTy.withTag]

theorem applyTag_some_ne_nil (td : String) (s : TagSpec) (base : List Tag) (b : Bool) :
    applyTag td (some s) base b ≠ [] := by
  simp only [applyTag]; split <;> simp

/-- **the tag mode the fixer decides is the one X.680 §31.2.7 prescribes**: EXPLICIT iff written EXPLICIT, or
    the module default is explicit and nothing was written, or the tagged type is an untagged CHOICE -/
theorem applyTag_eq_chainTag (M : Module) (htd : ValidTagDefault M) (tg : Option WTag) (base : List Tag)
    (flag me : Bool) (hme : (flag || base.isEmpty) = me) :
    applyTag M.tagDefault (specOf tg) base flag = chainTag (tg.map (fixTag M me)) base := by
  cases tg with
  | none => rfl
  | some g =>
    subst hme
    obtain ⟨tag, mode⟩ := g
    rcases htd with h | h | h | h <;> rw [h] <;>
      cases mode <;> cases flag <;> cases hb : base.isEmpty <;>
      simp [applyTag, specOf, chainTag, fixTag, implicitDefault, h, hb]
    all_goals (cases base <;> simp_all)

theorem mustExplicit_leaf (M : Module) (f : Nat) (t : CTy) (hr : t.isRef = false) (hb : baseOf t ≠ []) :
    mustExplicit M f t = false := by
  cases t with
  | ref tg n => simp [CTy.isRef] at hr
  | constr tg k e cs =>
    cases k with
    | choice => simp [baseOf] at hb
    | sequence => cases f <;> rfl
    | set => cases f <;> rfl
  | _ => cases f <;> rfl

theorem mustExplicit_choice (M : Module) (f : Nat) (t : CTy) (hr : t.isRef = false) (hb : baseOf t = []) :
    mustExplicit M f t = true := by
  cases t with
  | ref tg n => simp [CTy.isRef] at hr
  | constr tg k e cs =>
    cases k with
    | choice => cases f <;> rfl
    | sequence => simp [baseOf] at hb
    | set => simp [baseOf] at hb
  | _ => simp [baseOf] at hb

theorem l2Tags_nonref (M : Module) (k : Nat) (t : CTy) (hr : t.isRef = false) :
    l2Tags M (k + 1) t = some (applyTag M.tagDefault (specOf t.tag) (baseOf t) (baseOf t).isEmpty) := by
  cases t with
  | ref tg n => simp [CTy.isRef] at hr
  | constr tg kk e cs => cases kk <;> rfl
  | _ => rfl

theorem applyTag_isEmpty (td : String) (tg : Option WTag) (base : List Tag) (b : Bool) :
    (applyTag td (specOf tg) base b).isEmpty = (tg.isNone && base.isEmpty) := by
  cases tg with
  | none => simp [specOf, applyTag]
  | some g =>
    have := applyTag_some_ne_nil td ⟨g.tag, match g.mode with | .dflt => 0 | .imp => 1 | .exp => 2⟩ base b
    cases hx : applyTag td (specOf (some g)) base b with
    | nil => exact absurd hx this
    | cons a r => simp

/-- `_asn1f_check_if_tag_must_be_explicit` decides "the resolved type has no tag of its own" -/
theorem mustExplicit_iff_empty (M : Module) : ∀ (k : Nat) (d : CTy) (bs : List Tag), l2Tags M k d = some bs →
    ∀ f, k ≤ f → (d.tag.isNone && mustExplicit M f d) = bs.isEmpty := by
  intro k
  induction k with
  | zero => intro d bs h; simp [l2Tags] at h
  | succ k ih =>
    intro d bs h f hf
    obtain ⟨f', rfl⟩ : ∃ f', f = f' + 1 := ⟨f - 1, by omega⟩
    cases hr : d.isRef with
    | false =>
      rw [l2Tags_nonref M k d hr] at h
      cases h
      rw [applyTag_isEmpty]
      cases ht : d.tag with
      | some g => simp
      | none =>
        simp only [Option.isNone_none, Bool.true_and]
        cases hb : baseOf d with
        | nil => simp [mustExplicit_choice M _ d hr hb]
        | cons a r => simp [mustExplicit_leaf M _ d hr (by simp [hb])]
    | true =>
      cases d with
      | ref tg n =>
        simp only [l2Tags] at h
        cases hl : M.lookup n with
        | none => simp [hl] at h
        | some d' =>
          simp only [hl] at h
          cases hb : l2Tags M k d' with
          | none => simp [hb] at h
          | some base =>
            simp only [hb, Option.map_some, Option.some.injEq] at h
            subst h
            rw [applyTag_isEmpty]
            have e1 : (CTy.ref tg n).tag = tg := rfl
            rw [e1]
            cases tg with
            | some g => simp
            | none =>
              simp only [Option.isNone_none, Bool.true_and, mustExplicit, hl]
              have := ih d' base hb f' (by omega)
              rw [← this]
              cases hd : d'.tag <;> simp
      | _ => simp [CTy.isRef] at hr

/-- **tag chains, top-level**: the chain on the fixed module = the tags of the L2-resolved type -/
theorem l2_chain (M : Module) (htd : ValidTagDefault M) : ∀ (k : Nat) (t : CTy) (ts : List Tag),
    k ≤ M.fuel → l2Tags M k t = some ts → ∀ f, k ≤ f → chain (fixModule M) f (fixTop M t) = some ts := by
  intro k
  induction k with
  | zero => intro t ts _ h; simp [l2Tags] at h
  | succ k ih =>
    intro t ts hk h f hf
    obtain ⟨f', rfl⟩ : ∃ f', f = f' + 1 := ⟨f - 1, by omega⟩
    cases hr : t.isRef with
    | false =>
      rw [chain_nonref _ _ _ (by rw [fixTop_isRef]; exact hr), fixTop_tag, fixTop_baseOf]
      rw [l2Tags_nonref M k t hr] at h
      cases h
      congr 1
      symm
      apply applyTag_eq_chainTag M htd
      cases hb : baseOf t with
      | nil => simp [mustExplicit_choice M _ t hr hb]
      | cons a r => simp [mustExplicit_leaf M _ t hr (by simp [hb])]
    | true =>
      cases t with
      | ref tg n =>
        simp only [l2Tags] at h
        cases hl : M.lookup n with
        | none => simp [hl] at h
        | some d =>
          simp only [hl] at h
          cases hb : l2Tags M k d with
          | none => simp [hb] at h
          | some base =>
            simp only [hb, Option.map_some, Option.some.injEq] at h
            subst h
            rw [fixTop_ref]
            simp only [chain, chainBase, lookup_fix, hl, Option.map_some, CTy.tag]
            rw [ih d base (by omega) hb f' (by omega)]
            simp only [Option.map_some, Option.some.injEq]
            symm
            apply applyTag_eq_chainTag M htd
            have hme := mustExplicit_iff_empty M k d base hb (M.fuel - 1) (by omega)
            have hf64 : M.fuel = (M.fuel - 1) + 1 := by omega
            rw [Bool.or_self, ← hme, hf64]
            simp only [mustExplicit, hl]
            cases hd : d.tag <;> simp
      | _ => simp [CTy.isRef] at hr

end Asn1c.Impl.CompileDescr

/-! ## Part 2: tag2el — sorted, duplicate free under the distinctness rule, binary search finds the member -/
namespace Asn1c.Impl.CompileDescr
open Asn1c Asn1c.Impl.BerTlv

theorem tagLt_irrefl (a : Tag) : tagLt a a = false := by simp [tagLt]
theorem tagLt_asymm {a b : Tag} (h : tagLt a b = true) : tagLt b a = false := by
  obtain ⟨ac, an⟩ := a; obtain ⟨bc, bn⟩ := b
  simp only [tagLt, Bool.or_eq_true, decide_eq_true_eq, Bool.and_eq_true, beq_iff_eq] at h
  simp only [tagLt, Bool.or_eq_false_iff, decide_eq_false_iff_not, Bool.and_eq_false_imp, beq_iff_eq]
  omega
theorem tagLt_trans {a b c : Tag} (h1 : tagLt a b = true) (h2 : tagLt b c = true) : tagLt a c = true := by
  obtain ⟨ac, an⟩ := a; obtain ⟨bc, bn⟩ := b; obtain ⟨cc, cn⟩ := c
  simp only [tagLt, Bool.or_eq_true, decide_eq_true_eq, Bool.and_eq_true, beq_iff_eq] at *
  omega
theorem tagLt_trichotomy {a b : Tag} (h1 : tagLt a b = false) (h2 : tagLt b a = false) : a = b := by
  obtain ⟨ac, an⟩ := a; obtain ⟨bc, bn⟩ := b
  simp only [tagLt, Bool.or_eq_false_iff, decide_eq_false_iff_not, Bool.and_eq_false_imp, beq_iff_eq] at h1 h2
  have : ac = bc := by omega
  subst this
  have : an = bn := by have := h1.2 rfl; have := h2.2 rfl; omega
  subst this; rfl

theorem t2eLe_total (a b : Tag × Nat) : t2eLe a b = true ∨ t2eLe b a = true := by
  obtain ⟨⟨ac, an⟩, ai⟩ := a; obtain ⟨⟨bc, bn⟩, bi⟩ := b
  simp only [t2eLe, tagLt, Bool.or_eq_true, decide_eq_true_eq, Bool.and_eq_true, beq_iff_eq, Tag.mk.injEq]
  omega
theorem t2eLe_trans {a b c : Tag × Nat} (h1 : t2eLe a b = true) (h2 : t2eLe b c = true) : t2eLe a c = true := by
  obtain ⟨⟨ac, an⟩, ai⟩ := a; obtain ⟨⟨bc, bn⟩, bi⟩ := b; obtain ⟨⟨cc, cn⟩, ci⟩ := c
  simp only [t2eLe, tagLt, Bool.or_eq_true, decide_eq_true_eq, Bool.and_eq_true, beq_iff_eq, Tag.mk.injEq] at *
  omega

theorem insertT2E_perm (x : Tag × Nat) (l : List (Tag × Nat)) : (insertT2E x l).Perm (x :: l) := by
  induction l with
  | nil => exact List.Perm.refl _
  | cons y ys ih =>
    simp only [insertT2E]
    split
    · exact List.Perm.refl _
    · exact (List.Perm.cons y ih).trans (List.Perm.swap x y ys)

theorem sortT2E_perm (l : List (Tag × Nat)) : (sortT2E l).Perm l := by
  induction l with
  | nil => exact List.Perm.refl _
  | cons x xs ih => exact (insertT2E_perm x (sortT2E xs)).trans (List.Perm.cons x ih)

theorem insertT2E_sorted (x : Tag × Nat) (l : List (Tag × Nat))
    (h : l.Pairwise (fun a b => t2eLe a b = true)) : (insertT2E x l).Pairwise (fun a b => t2eLe a b = true) := by
  induction l with
  | nil => simp [insertT2E]
  | cons y ys ih =>
    simp only [insertT2E]
    have hy := List.pairwise_cons.mp h
    split
    · rename_i hxy
      refine List.pairwise_cons.mpr ⟨?_, h⟩
      intro z hz
      rcases List.mem_cons.mp hz with rfl | hz
      · exact hxy
      · exact t2eLe_trans hxy (hy.1 z hz)
    · rename_i hxy
      refine List.pairwise_cons.mpr ⟨?_, ih hy.2⟩
      intro z hz
      have := (insertT2E_perm x ys).mem_iff.mp hz
      rcases List.mem_cons.mp this with rfl | hz'
      · rcases t2eLe_total z y with h1 | h1
        · exact absurd h1 hxy
        · exact h1
      · exact hy.1 z hz'

/-- the emitted map is sorted by `_tag2el_cmp` -/
theorem sortT2E_sorted (l : List (Tag × Nat)) : (sortT2E l).Pairwise (fun a b => t2eLe a b = true) := by
  induction l with
  | nil => simp [sortT2E]
  | cons x xs ih => exact insertT2E_sorted x _ ih

theorem annotate_keys (pre l : List (Tag × Nat)) : (annotate pre l).map (fun e => (e.tag, e.elNo)) = l := by
  induction l generalizing pre with
  | nil => rfl
  | cons e rest ih => simp [annotate, ih]

theorem tag2el_keys (M : Module) (comps : List Comp) :
    (tag2el M comps).map (fun e => (e.tag, e.elNo)) = sortT2E (t2eRaw M 0 comps) := annotate_keys _ _

/-- with pairwise distinct tags the sorted map is strictly increasing in the `_search4tag` order -/
theorem sorted_strict (l : List (Tag × Nat)) (hnd : (l.map (·.1)).Nodup) :
    (sortT2E l).Pairwise (fun a b => tagLt a.1 b.1 = true) := by
  have hs := sortT2E_sorted l
  have hp := sortT2E_perm l
  have hnd' : ((sortT2E l).map (·.1)).Nodup := (hp.map (·.1)).nodup_iff.mpr hnd
  have hne : (sortT2E l).Pairwise (fun a b => a.1 ≠ b.1) := by
    have := List.pairwise_map.mp hnd'
    exact this
  refine (hs.and hne).imp ?_
  intro a b ⟨hle, hne⟩
  simp only [t2eLe, Bool.or_eq_true, Bool.and_eq_true, beq_iff_eq] at hle
  rcases hle with h | ⟨h, _⟩
  · exact h
  · exact absurd h hne

theorem tag2el_strict (M : Module) (comps : List Comp) (hnd : ((t2eRaw M 0 comps).map (·.1)).Nodup) :
    (tag2el M comps).Pairwise (fun a b => tagLt a.tag b.tag = true) := by
  have h := sorted_strict _ hnd
  rw [← tag2el_keys] at h
  exact List.pairwise_map.mp h

/-! ### binary search -/

theorem bsearchGo_sound (key : Tag) (l : List T2E) : ∀ (fuel lo hi : Nat) (e : T2E),
    bsearchGo key l fuel lo hi = some e → e ∈ l ∧ e.tag = key := by
  intro fuel
  induction fuel with
  | zero => intro lo hi e h; simp [bsearchGo] at h
  | succ fuel ih =>
    intro lo hi e h
    simp only [bsearchGo] at h
    split at h
    · cases hm : l[(lo + hi) / 2]? with
      | none => simp [hm] at h
      | some m =>
        simp only [hm] at h
        split at h
        · exact ih _ _ _ h
        · split at h
          · exact ih _ _ _ h
          · rename_i h1 h2
            cases h
            refine ⟨List.mem_of_getElem? hm, ?_⟩
            exact (tagLt_trichotomy (by simpa using h1) (by simpa using h2)).symm
    · simp at h

theorem bsearchGo_complete (key : Tag) (l : List T2E) (hs : l.Pairwise (fun a b => tagLt a.tag b.tag = true)) :
    ∀ (fuel lo hi idx : Nat) (e : T2E), hi ≤ l.length → hi - lo < fuel → lo ≤ idx → idx < hi →
      l[idx]? = some e → e.tag = key → bsearchGo key l fuel lo hi = some e := by
  intro fuel
  induction fuel with
  | zero => intro lo hi idx e _ hf; omega
  | succ fuel ih =>
    intro lo hi idx e hhi hf hlo hidx he hk
    have hlt : lo < hi := by omega
    simp only [bsearchGo, hlt, if_true]
    have hmid : (lo + hi) / 2 < l.length := by omega
    have hidxl : idx < l.length := by omega
    rw [List.getElem?_eq_getElem hmid]
    simp only
    have hei : l[idx] = e := by rw [List.getElem?_eq_getElem hidxl] at he; exact Option.some.inj he
    have hpw := List.pairwise_iff_getElem.mp hs
    by_cases h1 : tagLt key l[(lo + hi) / 2].tag = true
    · simp only [h1, if_true]
      have hlt2 : idx < (lo + hi) / 2 := by
        rcases Nat.lt_trichotomy idx ((lo + hi) / 2) with h | h | h
        · exact h
        · have : l[(lo + hi) / 2] = e := by simp only [← h]; exact hei
          rw [this, hk, tagLt_irrefl] at h1; cases h1
        · have := hpw _ _ hmid hidxl h
          rw [hei, hk] at this
          rw [tagLt_asymm this] at h1; cases h1
      exact ih lo _ idx e (by omega) (by omega) hlo hlt2 he hk
    · simp only [h1]
      by_cases h2 : tagLt l[(lo + hi) / 2].tag key = true
      · simp only [h2, if_true]
        have hgt2 : (lo + hi) / 2 + 1 ≤ idx := by
          rcases Nat.lt_trichotomy idx ((lo + hi) / 2) with h | h | h
          · have := hpw _ _ hidxl hmid h
            rw [hei, hk] at this
            rw [tagLt_asymm this] at h2; cases h2
          · have : l[(lo + hi) / 2] = e := by simp only [← h]; exact hei
            rw [this, hk, tagLt_irrefl] at h2; cases h2
          · omega
        exact ih _ hi idx e hhi (by omega) hgt2 hidx he hk
      · simp only [h2]
        have heq := tagLt_trichotomy (by simpa using h1) (by simpa using h2)
        -- the entry at mid carries the key: by strictness it is the entry at idx
        have : (lo + hi) / 2 = idx := by
          rcases Nat.lt_trichotomy ((lo + hi) / 2) idx with hlt' | heq' | hgt'
          · have := hpw _ _ hmid hidxl hlt'
            rw [hei, hk, ← heq, tagLt_irrefl] at this; cases this
          · exact heq'
          · have := hpw _ _ hidxl hmid hgt'
            rw [hei, hk, ← heq, tagLt_irrefl] at this; cases this
        simp only [this, hei]
        rfl

end Asn1c.Impl.CompileDescr

/-! ## Part 3: the members of SEQUENCE / SET / CHOICE (written tags and automatic tagging) -/
namespace Asn1c.Impl.CompileDescr
open Asn1c Asn1c.L2 Asn1c.Impl.BerTlv

theorem chainBase_withTag (M : Module) (rec : CTy → Option (List Tag)) (t : CTy) (g : Option WTag) :
    chainBase M rec (t.withTag g) = chainBase M rec t := by
  cases t with
  | constr tg k e cs => cases k <;> rfl
  | listOf tg q z e => cases q <;> rfl
  | prim tg k => cases k <;> rfl
  | _ => rfl

theorem chain_succ (M : Module) (f : Nat) (t : CTy) :
    chain M (f + 1) t = (chainBase M (chain M f) t).map (chainTag t.tag) := rfl

theorem fixTop_untagged (M : Module) (t : CTy) (h : t.tag = none) : fixTop M t = fixTy M t := by
  unfold fixTop; simp [h]

/-- the tag list `L2.resolveComps` gives component `i` under automatic tagging -/
theorem auto_retag_tags (t0 : Ty) (i : Nat) :
    tyTags (if isUntaggedChoice t0 then retag t0 (fun base => (⟨2, i⟩ : Tag) :: base)
            else retag t0 (fun base => ⟨2, i⟩ :: base.drop 1)) = ⟨2, i⟩ :: (tyTags t0).drop 1 := by
  by_cases h : isUntaggedChoice t0 = true
  · simp [h, tyTags_retag, isUntaggedChoice_tags h]
  · simp [h, tyTags_retag]

/-- one component: the chain of the fixed component = the tags of the component as `L2.resolveComps` tags it -/
theorem comp_chain (M : Module) (htd : ValidTagDefault M) (f : Nat) (hf : f ≤ M.fuel) (auto : Bool) (i : Nat)
    (c : Comp) (t0 : Ty) (hauto : auto = true → c.ty.tag = none) (h0 : toL2 M f c.ty = some t0) :
    let t1 := fixTy M c.ty
    let me := mustExplicit M M.fuel c.ty
    let t2 := if auto then t1.withTag (some ⟨⟨2, i⟩, if me then .exp else .imp⟩)
              else match c.ty.tag with
                | some g => t1.withTag (some (fixTag M me g))
                | none => t1
    let t' := if auto then
          (if isUntaggedChoice t0 then retag t0 (fun base => (⟨2, i⟩ : Tag) :: base)
           else retag t0 (fun base => ⟨2, i⟩ :: base.drop 1))
        else t0
    chain (fixModule M) M.fuel t2 = some (tyTags t') := by
  intro t1 me t2 t'
  have hl2 := toL2_tags M f c.ty t0 h0
  have hch := l2_chain M htd f c.ty (tyTags t0) hf hl2 M.fuel hf
  cases ha : auto with
  | false =>
    -- written tags: the component is fixed like a top-level type
    have e2 : t2 = fixTop M c.ty := by
      simp only [t2, ha, Bool.false_eq_true, if_false, fixTop, t1, me]
      cases c.ty.tag <;> rfl
    have e' : t' = t0 := by simp [t', ha]
    rw [e2, e', hch]
  | true =>
    have htag := hauto ha
    have e' : tyTags t' = ⟨2, i⟩ :: (tyTags t0).drop 1 := by
      simp only [t', ha, if_true]; exact auto_retag_tags t0 i
    rw [e']
    rw [fixTop_untagged M c.ty htag] at hch
    have hF : M.fuel = 63 + 1 := rfl
    have hF' : (fixModule M).fuel = 63 + 1 := rfl
    rw [hF, chain_succ, fixTy_tag, htag] at hch
    have hbase : chainBase (fixModule M) (chain (fixModule M) 63) (fixTy M c.ty) = some (tyTags t0) := by
      cases hb : chainBase (fixModule M) (chain (fixModule M) 63) (fixTy M c.ty) with
      | none => simp [hb] at hch
      | some b => simp [hb, chainTag] at hch; simp [hch]
    have hme := mustExplicit_iff_empty M f c.ty (tyTags t0) hl2 M.fuel hf
    rw [htag] at hme
    simp only [Option.isNone_none, Bool.true_and] at hme
    simp only [t2, ha, if_true, t1]
    rw [hF, chain_succ, chainBase_withTag, hbase, withTag_tag]
    simp only [Option.map_some, Option.some.injEq, chainTag, me]
    cases hb : tyTags t0 with
    | nil => simp [hme, hb]
    | cons a r => simp [hme, hb]

/-- **tag chains of the members**: for a component list resolved by `L2.resolveComps` (written tags or
    automatic tagging), the chains the model assigns to the fixed components are the tag lists of the
    resolved components -/
theorem members_chain (M : Module) (htd : ValidTagDefault M) (f : Nat) (hf : f ≤ M.fuel) (auto : Bool) (extAt : Nat) :
    ∀ (cs : List Comp) (i : Nat) (ms : List Ty) (as : List Attr),
      (∀ c ∈ cs, auto = true → c.ty.tag = none) →
      l2Comps (toL2 M f) auto extAt i cs = some (ms, as) →
      (fixComps M auto i cs).map (fun c => chain (fixModule M) M.fuel c.ty) = ms.map (fun t => some (tyTags t)) := by
  intro cs
  induction cs with
  | nil => intro i ms as _ h; simp [l2Comps] at h; simp [fixComps, h.1]
  | cons c rest ih =>
    intro i ms as hauto h
    obtain ⟨n, ty, o⟩ := c
    simp only [l2Comps] at h
    cases h0 : toL2 M f (Comp.mk n ty o).ty with
    | none => simp [h0] at h
    | some t0 =>
      cases hr : l2Comps (toL2 M f) auto extAt (i + 1) rest with
      | none => simp [h0, hr] at h
      | some p =>
        obtain ⟨ts, as'⟩ := p
        simp only [h0, hr, Option.some.injEq, Prod.mk.injEq] at h
        obtain ⟨hms, _⟩ := h
        subst hms
        have hc := comp_chain M htd f hf auto i (Comp.mk n ty o) t0 (hauto _ (List.mem_cons_self ..)) h0
        have hrest := ih (i + 1) ts as' (fun c hc' => hauto c (List.mem_cons_of_mem _ hc')) hr
        simp only [fixComps, List.map_cons, Comp.ty, List.cons.injEq] at hc ⊢
        exact ⟨hc, hrest⟩

theorem autoSelected_untagged (M : Module) (comps : List Comp) :
    ∀ c ∈ comps, autoSelected M comps = true → c.ty.tag = none := by
  intro c hc h
  simp only [autoSelected, Bool.and_eq_true, List.all_eq_true] at h
  have := h.2 c hc
  cases ht : c.ty.tag <;> simp_all

end Asn1c.Impl.CompileDescr

/-! ## Part 4: optional-member table (`oms`) -/
namespace Asn1c.Impl.CompileDescr
open Asn1c Asn1c.L2

theorem omsFrom_mem (k : CK) (ext : Option Nat) (e : Nat) (r : Bool) : ∀ (cs : List Comp) (i j : Nat),
    j ∈ omsFrom k ext e r i cs ↔
      i ≤ j ∧ ∃ c, cs[j - i]? = some c ∧ (decide (j < e) == r) = true ∧ omitable k ext j c = true := by
  intro cs
  induction cs with
  | nil => intro i j; simp [omsFrom]
  | cons c rest ih =>
    intro i j
    simp only [omsFrom, List.mem_append, ih]
    constructor
    · rintro (h | ⟨hle, c', hc', h1, h2⟩)
      · split at h
        · rename_i hc
          simp only [List.mem_singleton] at h
          subst h
          simp only [Bool.and_eq_true] at hc
          exact ⟨Nat.le_refl _, c, by simp, hc.1, hc.2⟩
        · simp at h
      · refine ⟨by omega, c', ?_, h1, h2⟩
        have : j - i = (j - (i + 1)) + 1 := by omega
        rw [this]; simpa using hc'
    · rintro ⟨hle, c', hc', h1, h2⟩
      rcases Nat.eq_or_lt_of_le hle with heq | hlt
      · subst heq
        left
        simp only [Nat.sub_self, List.getElem?_cons_zero, Option.some.injEq] at hc'
        subst hc'
        simp [h1, h2]
      · right
        refine ⟨by omega, c', ?_, h1, h2⟩
        have : j - i = (j - (i + 1)) + 1 := by omega
        rw [this] at hc'; simpa using hc'

theorem omsFrom_ge (k : CK) (ext : Option Nat) (e : Nat) (r : Bool) (cs : List Comp) (i j : Nat)
    (h : j ∈ omsFrom k ext e r i cs) : i ≤ j := ((omsFrom_mem k ext e r cs i j).mp h).1

/-- the table is strictly ascending -/
theorem omsFrom_sorted (k : CK) (ext : Option Nat) (e : Nat) (r : Bool) : ∀ (cs : List Comp) (i : Nat),
    (omsFrom k ext e r i cs).Pairwise (· < ·) := by
  intro cs
  induction cs with
  | nil => intro i; simp [omsFrom]
  | cons c rest ih =>
    intro i
    simp only [omsFrom]
    rw [List.pairwise_append]
    refine ⟨by split <;> simp, ih (i + 1), ?_⟩
    intro a ha b hb
    have := omsFrom_ge k ext e r rest (i + 1) b hb
    split at ha
    · simp only [List.mem_singleton] at ha; omega
    · simp at ha

/-- the attributes `L2.resolveComps` computes: OPTIONAL/DEFAULT flags in component order -/
theorem l2Comps_attrs (res : CTy → Option Ty) (auto : Bool) (extAt : Nat) : ∀ (cs : List Comp) (i : Nat)
    (ms : List Ty) (as : List Attr), l2Comps res auto extAt i cs = some (ms, as) →
    as.map (·.optional) = cs.map (fun c => !c.opt.isMand) ∧ ms.length = cs.length := by
  intro cs
  induction cs with
  | nil => intro i ms as h; simp [l2Comps] at h; simp [h.1, h.2]
  | cons c rest ih =>
    intro i ms as h
    simp only [l2Comps] at h
    cases h0 : res c.ty with
    | none => simp [h0] at h
    | some t0 =>
      cases hr : l2Comps res auto extAt (i + 1) rest with
      | none => simp [h0, hr] at h
      | some p =>
        obtain ⟨ts, as'⟩ := p
        simp only [h0, hr, Option.some.injEq, Prod.mk.injEq] at h
        obtain ⟨h1, h2⟩ := h
        subst h1 h2
        have := ih (i + 1) ts as' hr
        simp only [List.map_cons, this.1, List.length_cons, this.2, and_true, List.cons.injEq]
        cases c.opt <;> simp [attrOf, Opt.isMand]

end Asn1c.Impl.CompileDescr

/-! ## Part 5: what the entries of tag2el are -/
namespace Asn1c.Impl.CompileDescr
open Asn1c Asn1c.Impl.BerTlv

/-- every entry contributed by member `el` carries element number `el` (also the flattened alternatives of an
    untagged CHOICE member) -/
theorem t2eMember_elNo (M : Module) : ∀ (f : Nat) (t : CTy) (el : Nat) (p : Tag × Nat),
    p ∈ t2eMember M f t el → p.2 = el := by
  intro f
  induction f with
  | zero => intro t el p h; simp [t2eMember] at h
  | succ f ih =>
    intro t el p h
    simp only [t2eMember] at h
    split at h
    · simp only [List.mem_singleton] at h; rw [h]
    · split at h
      · obtain ⟨c, _, hc⟩ := List.mem_flatMap.mp h
        exact ih _ _ _ hc
      · split at h
        · exact ih _ _ _ h
        · simp at h
      · simp at h

theorem t2eRaw_mem (M : Module) : ∀ (cs : List Comp) (s : Nat) (g : Tag) (i : Nat),
    (g, i) ∈ t2eRaw M s cs ↔ s ≤ i ∧ ∃ c, cs[i - s]? = some c ∧ (g, i) ∈ t2eMember M t2eFuel c.ty i := by
  intro cs
  induction cs with
  | nil => intro s g i; simp [t2eRaw]
  | cons c rest ih =>
    intro s g i
    simp only [t2eRaw, List.mem_append, ih]
    constructor
    · rintro (h | ⟨hle, c', hc', hm⟩)
      · have := t2eMember_elNo M _ _ _ _ h
        simp only at this
        subst this
        exact ⟨Nat.le_refl _, c, by simp, h⟩
      · refine ⟨by omega, c', ?_, hm⟩
        have : i - s = (i - (s + 1)) + 1 := by omega
        rw [this]; simpa using hc'
    · rintro ⟨hle, c', hc', hm⟩
      rcases Nat.eq_or_lt_of_le hle with heq | hlt
      · subst heq
        left
        simp only [Nat.sub_self, List.getElem?_cons_zero, Option.some.injEq] at hc'
        subst hc'
        exact hm
      · right
        refine ⟨by omega, c', ?_, hm⟩
        have : i - s = (i - (s + 1)) + 1 := by omega
        rw [this] at hc'; simpa using hc'

theorem tag2el_mem (M : Module) (comps : List Comp) (g : Tag) (i : Nat) :
    (∃ e ∈ tag2el M comps, e.tag = g ∧ e.elNo = i) ↔ (g, i) ∈ t2eRaw M 0 comps := by
  rw [← (sortT2E_perm (t2eRaw M 0 comps)).mem_iff, ← tag2el_keys, List.mem_map]
  constructor
  · rintro ⟨e, he, h1, h2⟩; exact ⟨e, he, by rw [h1, h2]⟩
  · rintro ⟨e, he, h⟩
    simp only [Prod.mk.injEq] at h
    exact ⟨e, he, h.1, h.2⟩

theorem bsearchTag_finds (key : Tag) (l : List T2E) (hs : l.Pairwise (fun a b => tagLt a.tag b.tag = true))
    (e : T2E) (he : e ∈ l) (hk : e.tag = key) : bsearchTag key l = some e := by
  obtain ⟨idx, hidx, hget⟩ := List.mem_iff_getElem.mp he
  apply bsearchGo_complete key l hs (l.length + 1) 0 l.length idx e (Nat.le_refl _) (by omega) (by omega) hidx _ hk
  rw [List.getElem?_eq_getElem hidx, hget]

theorem bsearchTag_sound (key : Tag) (l : List T2E) (e : T2E) (h : bsearchTag key l = some e) :
    e ∈ l ∧ e.tag = key := bsearchGo_sound key l _ _ _ e h

end Asn1c.Impl.CompileDescr

/-! ## Part 6: the member `tag`, and tag2el = the outermost tags of the resolved members -/
namespace Asn1c.Impl.CompileDescr
open Asn1c Asn1c.L2 Asn1c.Impl.BerTlv

theorem head_chainTag (g : Option WTag) (b : List Tag) :
    (chainTag g b).head? = match g with | some g => some g.tag | none => b.head? := by
  cases g with
  | none => rfl
  | some g => simp only [chainTag]; split <;> rfl

theorem outmost_nonref (M : Module) (f : Nat) (t : CTy) (hr : t.isRef = false) :
    outmost M f t = match t.tag with | some g => some g.tag | none => (baseOf t).head? := by
  cases t with
  | ref tg n => simp [CTy.isRef] at hr
  | constr tg k e cs => cases k <;> cases tg <;> cases f <;> rfl
  | prim tg k => cases tg <;> cases f <;> rfl
  | integer tg c => cases tg <;> cases f <;> rfl
  | enumerated tg r e => cases tg <;> cases f <;> rfl
  | bitstr tg z => cases tg <;> cases f <;> rfl
  | octstr tg z => cases tg <;> cases f <;> rfl
  | str tg k z a => cases tg <;> cases f <;> rfl
  | listOf tg q z e => cases tg <;> cases f <;> rfl

/-- the `tag` of a member (`asn1f_fetch_outmost_tag`) is the first tag of its chain; `none` (the "ambiguous"
    marker −1) exactly for a type without tags of its own, i.e. an untagged CHOICE -/
theorem outmost_eq_chain_head (M : Module) : ∀ (f : Nat) (t : CTy) (c : List Tag),
    chain M f t = some c → outmost M f t = c.head? := by
  intro f
  induction f with
  | zero =>
    intro t c h
    cases hr : t.isRef with
    | false =>
      rw [chain_nonref M 0 t hr] at h; cases h
      rw [head_chainTag, outmost_nonref M 0 t hr]
    | true =>
      cases t with
      | ref tg n => simp only [chain, chainBase] at h; cases hl : M.lookup n <;> simp [hl] at h
      | _ => simp [CTy.isRef] at hr
  | succ f ih =>
    intro t c h
    cases hr : t.isRef with
    | false =>
      rw [chain_nonref M _ t hr] at h; cases h
      rw [head_chainTag, outmost_nonref M _ t hr]
    | true =>
      cases t with
      | ref tg n =>
        simp only [chain, chainBase] at h
        cases hl : M.lookup n with
        | none => simp [hl] at h
        | some t' =>
          simp only [hl] at h
          cases hb : chain M f t' with
          | none => simp [hb] at h
          | some b =>
            simp only [hb, Option.map_some, Option.some.injEq, CTy.tag] at h
            subst h
            rw [head_chainTag]
            cases tg with
            | none => simp [outmost, CTy.tag, hl, ih t' b hb]
            | some g => simp [outmost, CTy.tag]
      | _ => simp [CTy.isRef] at hr



/-- the component as the fixer leaves it (`fixComps`) -/
def fixedComp (M : Module) (auto : Bool) (i : Nat) (c : Comp) : CTy :=
  if auto then (fixTy M c.ty).withTag (some ⟨⟨2, i⟩, if mustExplicit M M.fuel c.ty then .exp else .imp⟩)
  else match c.ty.tag with
    | some g => (fixTy M c.ty).withTag (some (fixTag M (mustExplicit M M.fuel c.ty) g))
    | none => fixTy M c.ty

/-- the component as `L2.resolveComps` tags it -/
def l2Auto (auto : Bool) (i : Nat) (t0 : Ty) : Ty :=
  if auto then
    (if isUntaggedChoice t0 then retag t0 (fun base => (⟨2, i⟩ : Tag) :: base)
     else retag t0 (fun base => ⟨2, i⟩ :: base.drop 1))
  else t0

theorem fixComps_cons (M : Module) (auto : Bool) (i : Nat) (c : Comp) (rest : List Comp) :
    fixComps M auto i (c :: rest) = .mk c.name (fixedComp M auto i c) c.opt :: fixComps M auto (i + 1) rest := by
  obtain ⟨n, t, o⟩ := c
  simp only [fixComps, fixedComp, Comp.ty, Comp.name, Comp.opt, List.cons.injEq, and_true]
  cases auto <;> simp <;> cases t.tag <;> rfl

theorem fixedComp_false (M : Module) (i : Nat) (c : Comp) : fixedComp M false i c = fixTop M c.ty := by
  simp only [fixedComp, Bool.false_eq_true, if_false, fixTop]
  cases c.ty.tag <;> rfl

theorem fixedComp_chain (M : Module) (htd : ValidTagDefault M) (f : Nat) (hf : f ≤ M.fuel) (auto : Bool) (i : Nat)
    (c : Comp) (t0 : Ty) (hauto : auto = true → c.ty.tag = none) (h0 : toL2 M f c.ty = some t0) :
    chain (fixModule M) M.fuel (fixedComp M auto i c) = some (tyTags (l2Auto auto i t0)) :=
  comp_chain M htd f hf auto i c t0 hauto h0

theorem outerTags_of_tags {ty : Ty} {g : Tag} {r : List Tag} (h : tyTags ty = g :: r) : outerTags ty = [g] := by
  cases ty <;> simp_all [tyTags, outerTags]

theorem retag_id (t : Ty) : retag t (fun b => b) = t := by cases t <;> rfl

theorem outerTagsAlts_cons (a : Ty) (as : List Ty) : outerTagsAlts (a :: as) = outerTags a ++ outerTagsAlts as := by
  simp [outerTagsAlts]

/-- a resolved type without tags is an untagged CHOICE, written inline or referenced without a tag -/
theorem toL2_empty_tags (M : Module) (k : Nat) (t : CTy) (ty : Ty) (h : toL2 M (k + 1) t = some ty)
    (he : tyTags ty = []) :
    (∃ ext comps ms as, t = .constr none .choice ext comps ∧
        l2Comps (toL2 M k) (autoSelected M comps) (ext.getD comps.length) 0 comps = some (ms, as) ∧
        ty = .choice [] ms ext.isSome) ∨
    (∃ n d, t = .ref none n ∧ M.lookup n = some d ∧ toL2 M k d = some ty) := by
  have hl2 := toL2_tags M (k + 1) t ty h
  have hem : (applyTag M.tagDefault (specOf t.tag) (if t.isRef then tyTags ty else baseOf t) false).isEmpty = true → t.tag = none := by
    intro hx; rw [applyTag_isEmpty] at hx; cases ht : t.tag <;> simp_all
  cases t with
  | ref tg n =>
    simp only [toL2] at h
    cases hl : M.lookup n with
    | none => simp [hl] at h
    | some d =>
      simp only [hl] at h
      cases hd : toL2 M k d with
      | none => simp [hd] at h
      | some ty0 =>
        simp only [hd, Option.bind_some, Option.some.injEq] at h
        subst h
        rw [tyTags_retag] at he
        cases tg with
        | some g => exact absurd he (applyTag_some_ne_nil _ _ _ _)
        | none =>
          right
          refine ⟨n, d, rfl, hl, ?_⟩
          simp only [specOf, applyTag]
          rw [retag_id, hd]
  | constr tg kk ext comps =>
    simp only [toL2] at h
    cases hc : l2Comps (toL2 M k) (autoSelected M comps) (ext.getD comps.length) 0 comps with
    | none => simp [hc] at h
    | some p =>
      obtain ⟨ms, as⟩ := p
      simp only [hc, Option.bind_some] at h
      cases kk with
      | choice =>
        simp only [Option.some.injEq] at h
        subst h
        simp only [tyTags] at he
        cases tg with
        | some g => exact absurd he (applyTag_some_ne_nil _ _ _ _)
        | none => left; exact ⟨ext, comps, ms, as, rfl, hc, by simp [specOf, applyTag]⟩
      | sequence =>
        simp only [Option.some.injEq] at h; subst h
        simp only [tyTags] at he
        cases tg with
        | some g => exact absurd he (applyTag_some_ne_nil _ _ _ _)
        | none => simp [specOf, applyTag] at he
      | set =>
        simp only [Option.some.injEq] at h; subst h
        simp only [tyTags] at he
        cases tg with
        | some g => exact absurd he (applyTag_some_ne_nil _ _ _ _)
        | none => simp [specOf, applyTag] at he
  | prim tg kk =>
    simp only [toL2, Option.some.injEq] at h; subst h
    simp only [tyTags] at he
    cases tg with
    | some g => exact absurd he (applyTag_some_ne_nil _ _ _ _)
    | none => simp [specOf, applyTag] at he
  | integer tg c =>
    simp only [toL2, Option.some.injEq] at h; subst h
    simp only [tyTags] at he
    cases tg with
    | some g => exact absurd he (applyTag_some_ne_nil _ _ _ _)
    | none => simp [specOf, applyTag] at he
  | enumerated tg r e =>
    simp only [toL2, Option.some.injEq] at h; subst h
    simp only [tyTags] at he
    cases tg with
    | some g => exact absurd he (applyTag_some_ne_nil _ _ _ _)
    | none => simp [specOf, applyTag] at he
  | bitstr tg z =>
    simp only [toL2, Option.some.injEq] at h; subst h
    simp only [tyTags] at he
    cases tg with
    | some g => exact absurd he (applyTag_some_ne_nil _ _ _ _)
    | none => simp [specOf, applyTag] at he
  | octstr tg z =>
    simp only [toL2, Option.some.injEq] at h; subst h
    simp only [tyTags] at he
    cases tg with
    | some g => exact absurd he (applyTag_some_ne_nil _ _ _ _)
    | none => simp [specOf, applyTag] at he
  | str tg kd z a =>
    simp only [toL2] at h
    cases hu : L2.strUniv kd with
    | none => simp [hu] at h
    | some u =>
      simp only [hu, Option.bind_some, Option.some.injEq] at h; subst h
      simp only [tyTags] at he
      cases tg with
      | some g => exact absurd he (applyTag_some_ne_nil _ _ _ _)
      | none => simp [specOf, applyTag] at he
  | listOf tg q z e =>
    simp only [toL2] at h
    cases hee : toL2 M k e with
    | none => simp [hee] at h
    | some e' =>
      simp only [hee, Option.bind_some, Option.some.injEq] at h; subst h
      cases q <;> simp only [tyTags, if_true, Bool.false_eq_true, if_false] at he <;>
        (cases tg with
         | some g => exact absurd he (applyTag_some_ne_nil _ _ _ _)
         | none => simp [specOf, applyTag] at he)


theorem t2eMember_succ (M : Module) (fuel : Nat) (t : CTy) (el : Nat) :
    t2eMember M (fuel + 1) t el =
      match outmost M M.fuel t with
      | some g => [(g, el)]
      | none =>
        match t with
        | .constr _ .choice _ comps => comps.flatMap fun c => t2eMember M fuel c.ty el
        | .ref _ n =>
          match M.lookup n with
          | some t' => t2eMember M fuel t' el
          | none => []
        | _ => [] := by
  cases h : outmost M M.fuel t with
  | some g => simp [t2eMember, h]
  | none =>
    cases t with
    | constr tg k e cs => cases k <;> simp [t2eMember, h]
    | ref tg n => simp only [t2eMember, h]; cases M.lookup n <;> rfl
    | _ => simp [t2eMember, h]

theorem Comp.ty_mk (n : String) (t : CTy) (o : Opt) : (Comp.mk n t o).ty = t := rfl

/-- **tag2el = outerTags**: the tags `_add_tag2el_member` collects for a (fixed) component are the possible outermost
    tags (`L2.outerTags`, X.680 §31.2.7 "outermost tags") of the component as the L2 codecs resolve it — one tag,
    or for an untagged CHOICE (also behind references, also nested) those of all its alternatives in order -/
theorem t2e_eq_outerTags (M : Module) (htd : ValidTagDefault M) : ∀ (k : Nat), k ≤ M.fuel →
    ∀ (fuel : Nat), k ≤ fuel → ∀ (auto : Bool) (i : Nat) (c : Comp) (t0 : Ty) (el : Nat),
      (auto = true → c.ty.tag = none) → toL2 M k c.ty = some t0 →
      (t2eMember (fixModule M) fuel (fixedComp M auto i c) el).map (·.1) = outerTags (l2Auto auto i t0) := by
  intro k
  induction k with
  | zero => intro _ fuel _ auto i c t0 el _ h; simp [toL2] at h
  | succ k ih =>
    intro hk fuel hfuel auto i c t0 el hauto h0
    obtain ⟨fuel', rfl⟩ : ∃ f', fuel = f' + 1 := ⟨fuel - 1, by omega⟩
    have hch := fixedComp_chain M htd (k + 1) hk auto i c t0 hauto h0
    have hout := outmost_eq_chain_head (fixModule M) M.fuel _ _ hch
    rw [t2eMember_succ]
    have hF : (fixModule M).fuel = M.fuel := rfl
    rw [hF, hout]
    cases htags : tyTags (l2Auto auto i t0) with
    | cons g r =>
      simp only [List.head?_cons, List.map_cons, List.map_nil]
      rw [outerTags_of_tags htags]
    | nil =>
      simp only [List.head?_nil]
      -- no tag of its own: not automatic tagging, and the component is an untagged CHOICE or an untagged reference
      cases auto with
      | true =>
        exfalso
        simp only [l2Auto, if_true] at htags
        have := auto_retag_tags t0 i
        rw [this] at htags
        cases htags
      | false =>
        simp only [l2Auto, Bool.false_eq_true, if_false] at htags ⊢
        rw [fixedComp_false]
        rcases toL2_empty_tags M k c.ty t0 h0 htags with ⟨ext, comps, ms, as, hc, hl, hty⟩ | ⟨n, d, hc, hl, hd⟩
        · -- inline untagged CHOICE: flatten the alternatives
          rw [hc, hty]
          have hfix : fixTop M (.constr none .choice ext comps) =
              .constr none .choice ext (fixComps M (autoSelected M comps) 0 comps) := by
            simp [fixTop, CTy.tag, fixTy, autoSelected]
          rw [hfix]
          simp only [outerTags, List.isEmpty_nil, if_true]
          -- list induction over the alternatives
          have key : ∀ (cs : List Comp) (j : Nat) (ms : List Ty) (as : List Attr),
              (∀ c ∈ cs, autoSelected M comps = true → c.ty.tag = none) →
              l2Comps (toL2 M k) (autoSelected M comps) (ext.getD comps.length) j cs = some (ms, as) →
              ((fixComps M (autoSelected M comps) j cs).flatMap
                  (fun c' => t2eMember (fixModule M) fuel' c'.ty el)).map (·.1) = outerTagsAlts ms := by
            intro cs
            induction cs with
            | nil => intro j ms as _ h; simp [l2Comps] at h; simp [fixComps, h.1, outerTagsAlts]
            | cons c' rest ihl =>
              intro j ms as hau h
              simp only [l2Comps] at h
              cases h1 : toL2 M k c'.ty with
              | none => simp [h1] at h
              | some t1 =>
                cases hr : l2Comps (toL2 M k) (autoSelected M comps) (ext.getD comps.length) (j + 1) rest with
                | none => simp [h1, hr] at h
                | some p =>
                  obtain ⟨ts, as'⟩ := p
                  simp only [h1, hr, Option.some.injEq, Prod.mk.injEq] at h
                  obtain ⟨hms, _⟩ := h
                  subst hms
                  rw [fixComps_cons, List.flatMap_cons, List.map_append, outerTagsAlts_cons]
                  simp only [Comp.ty_mk]
                  rw [ih (by omega) fuel' (by omega) (autoSelected M comps) j c' t1 el (hau c' (List.mem_cons_self ..)) h1]
                  rw [ihl (j + 1) ts as' (fun c hc' => hau c (List.mem_cons_of_mem _ hc')) hr]
                  rfl
          exact key comps 0 ms as (autoSelected_untagged M comps) hl
        · -- untagged reference to a type without tags: follow it
          rw [hc]
          have hfix : fixTop M (.ref none n) = .ref none n := by simp [fixTop, CTy.tag, fixTy]
          rw [hfix]
          simp only [lookup_fix, hl, Option.map_some]
          have := ih (by omega) fuel' (by omega) false 0 (Comp.mk "" d .mand) t0 el (by simp) hd
          simp only [fixedComp_false, Comp.ty, l2Auto, Bool.false_eq_true, if_false] at this
          exact this

/-- the tag column of the unsorted tag2el map of a constructed type = the concatenated outermost tags of its
    resolved members -/
theorem t2eRaw_eq_outerTagsAlts (M : Module) (htd : ValidTagDefault M) (k : Nat) (hk : k ≤ M.fuel) (auto : Bool)
    (extAt : Nat) : ∀ (cs : List Comp) (j : Nat) (ms : List Ty) (as : List Attr),
      (∀ c ∈ cs, auto = true → c.ty.tag = none) →
      l2Comps (toL2 M k) auto extAt j cs = some (ms, as) →
      (t2eRaw (fixModule M) j (fixComps M auto j cs)).map (·.1) = outerTagsAlts ms := by
  intro cs
  induction cs with
  | nil => intro j ms as _ h; simp [l2Comps] at h; simp [fixComps, t2eRaw, h.1, outerTagsAlts]
  | cons c rest ihl =>
    intro j ms as hau h
    simp only [l2Comps] at h
    cases h1 : toL2 M k c.ty with
    | none => simp [h1] at h
    | some t1 =>
      cases hr : l2Comps (toL2 M k) auto extAt (j + 1) rest with
      | none => simp [h1, hr] at h
      | some p =>
        obtain ⟨ts, as'⟩ := p
        simp only [h1, hr, Option.some.injEq, Prod.mk.injEq] at h
        obtain ⟨hms, _⟩ := h
        subst hms
        rw [fixComps_cons]
        simp only [t2eRaw, Comp.ty_mk, List.map_append]
        rw [outerTagsAlts_cons]
        rw [t2e_eq_outerTags M htd k hk t2eFuel (by simpa [t2eFuel, Module.fuel] using hk) auto j c t1 j
              (hau c (List.mem_cons_self ..)) h1]
        rw [ihl (j + 1) ts as' (fun c hc' => hau c (List.mem_cons_of_mem _ hc')) hr]
        rfl


/-- (tag, member index) pairs of a list of resolved members: what a dispatch table built from `L2.outerTags` holds -/
def pairsFrom : Nat → List Ty → List (Tag × Nat)
  | _, [] => []
  | j, m :: ms => (outerTags m).map (fun g => (g, j)) ++ pairsFrom (j + 1) ms

theorem pairs_of_fst {l : List (Tag × Nat)} {ts : List Tag} {el : Nat}
    (h1 : l.map (·.1) = ts) (h2 : ∀ p ∈ l, p.2 = el) : l = ts.map (fun g => (g, el)) := by
  induction l generalizing ts with
  | nil => simp at h1; simp [← h1]
  | cons p rest ih =>
    cases ts with
    | nil => simp at h1
    | cons a r =>
      simp only [List.map_cons, List.cons.injEq] at h1
      have hp := h2 p (List.mem_cons_self ..)
      simp only [List.map_cons, List.cons.injEq]
      refine ⟨?_, ih h1.2 (fun q hq => h2 q (List.mem_cons_of_mem _ hq))⟩
      obtain ⟨p1, p2⟩ := p
      simp only at hp h1
      rw [hp, h1.1]

/-- the unsorted tag2el map of the model = the dispatch pairs of the resolved members -/
theorem t2eRaw_eq_pairs (M : Module) (htd : ValidTagDefault M) (k : Nat) (hk : k ≤ M.fuel) (auto : Bool)
    (extAt : Nat) : ∀ (cs : List Comp) (j : Nat) (ms : List Ty) (as : List Attr),
      (∀ c ∈ cs, auto = true → c.ty.tag = none) →
      l2Comps (toL2 M k) auto extAt j cs = some (ms, as) →
      t2eRaw (fixModule M) j (fixComps M auto j cs) = pairsFrom j ms := by
  intro cs
  induction cs with
  | nil => intro j ms as _ h; simp [l2Comps] at h; simp [fixComps, t2eRaw, h.1, pairsFrom]
  | cons c rest ihl =>
    intro j ms as hau h
    simp only [l2Comps] at h
    cases h1 : toL2 M k c.ty with
    | none => simp [h1] at h
    | some t1 =>
      cases hr : l2Comps (toL2 M k) auto extAt (j + 1) rest with
      | none => simp [h1, hr] at h
      | some p =>
        obtain ⟨ts, as'⟩ := p
        simp only [h1, hr, Option.some.injEq, Prod.mk.injEq] at h
        obtain ⟨hms, _⟩ := h
        subst hms
        rw [fixComps_cons]
        simp only [t2eRaw, Comp.ty_mk, pairsFrom]
        rw [ihl (j + 1) ts as' (fun c hc' => hau c (List.mem_cons_of_mem _ hc')) hr]
        congr 1
        apply pairs_of_fst
        · have := t2e_eq_outerTags M htd k hk t2eFuel (by simpa [t2eFuel, Module.fuel] using hk) auto j c t1 j
              (hau c (List.mem_cons_self ..)) h1
          simpa [l2Auto] using this
        · intro p hp; exact t2eMember_elNo _ _ _ _ _ hp

theorem pairsFrom_mem : ∀ (ms : List Ty) (j : Nat) (g : Tag) (i : Nat),
    (g, i) ∈ pairsFrom j ms ↔ j ≤ i ∧ ∃ m, ms[i - j]? = some m ∧ g ∈ outerTags m := by
  intro ms
  induction ms with
  | nil => intro j g i; simp [pairsFrom]
  | cons m rest ih =>
    intro j g i
    simp only [pairsFrom, List.mem_append, List.mem_map, Prod.mk.injEq, ih]
    constructor
    · rintro (⟨g', hg', rfl, rfl⟩ | ⟨hle, m', hm', hg⟩)
      · exact ⟨Nat.le_refl _, m, by simp, hg'⟩
      · refine ⟨by omega, m', ?_, hg⟩
        have : i - j = (i - (j + 1)) + 1 := by omega
        rw [this]; simpa using hm'
    · rintro ⟨hle, m', hm', hg⟩
      rcases Nat.eq_or_lt_of_le hle with heq | hlt
      · subst heq
        left
        simp only [Nat.sub_self, List.getElem?_cons_zero, Option.some.injEq] at hm'
        subst hm'
        exact ⟨g, hg, rfl, rfl⟩
      · right
        refine ⟨by omega, m', ?_, hg⟩
        have : i - j = (i - (j + 1)) + 1 := by omega
        rw [this] at hm'; simpa using hm'

theorem pairsFrom_fst : ∀ (ms : List Ty) (j : Nat), (pairsFrom j ms).map (·.1) = outerTagsAlts ms := by
  intro ms
  induction ms with
  | nil => intro j; simp [pairsFrom, outerTagsAlts]
  | cons m rest ih => intro j; simp [pairsFrom, outerTagsAlts_cons, ih, List.map_map, Function.comp_def]

end Asn1c.Impl.CompileDescr
