import Asn1cModel.L2.Uper
import Asn1cModel.Proofs.PerSupport
import Asn1cModel.Proofs.L2Tlv
import Asn1cModel.Proofs.L2Der
import Asn1cModel.Props.L1Per
/-
  Helper lemmas for the reference UPER codec (`L2/Uper.lean`): every reader inverts its writer.
  Property theorems are in `Props/C02Uper.lean`.
-/
namespace Asn1c.Proofs.L2Uper
open Asn1c Asn1c.L2 Asn1c.Spec.Per Asn1c.Impl.PerSupport Asn1c.Proofs.PerSupport

/-! ### bit fields -/

theorem rdBits_append (n : Nat) (bits rest : Bits) (hl : bits.length = n) :
    rdBits n (bits ++ rest) = some (bitsVal 0 bits, rest) := by
  unfold rdBits
  rw [List.take_left' hl, List.drop_left' hl, if_neg (by omega)]

theorem rdBits_natBits (n v : Nat) (rest : Bits) : rdBits n (natBits n v ++ rest) = some (v % 2 ^ n, rest) := by
  rw [rdBits_append n _ rest (natBits_length n v), bitsVal_natBits]

theorem rdBits_nnbi (n v : Nat) (rest : Bits) (h : v < 2 ^ n) : rdBits n (nnbi n v ++ rest) = some (v, rest) := by
  unfold nnbi
  rw [rdBits_natBits, Nat.mod_eq_of_lt h]

theorem rdBools_append (n : Nat) (bits rest : Bits) (hl : bits.length = n) :
    rdBools n (bits ++ rest) = some (bits, rest) := by
  unfold rdBools
  rw [List.take_left' hl, List.drop_left' hl, if_neg (by omega)]

theorem rdBit_cons (b : Bool) (rest : Bits) : rdBit (b :: rest) = some (b, rest) := rfl

/-! ### unconstrained length + items (§10.9.3.5–10.9.3.8, all fragment shapes) -/

theorem rdLengthPrefixed_enc {α : Type} (rd : Bits → Option (α × Bits)) (enc : α → Bits) (xs : List α) (rest : Bits)
    (hrd : ∀ a ∈ xs, ∀ r, rd (enc a ++ r) = some (a, r)) :
    rdLengthPrefixed rd (lengthPrefixed ((xs.map enc).length + 1) (xs.map enc) ++ rest) = some (xs, rest) := by
  rw [← Asn1c.Props.L1Per.putLength_eq_spec]
  exact Asn1c.Props.L1Per.lengthLoop_roundtrip rd enc xs rest hrd

theorem rdItems_enc {α : Type} (rd : Bits → Option (α × Bits)) (enc : α → Bits) (xs : List α) (rest : Bits)
    (hrd : ∀ a ∈ xs, ∀ r, rd (enc a ++ r) = some (a, r)) :
    rdItems rd xs.length ((xs.map enc).flatten ++ rest) = some (xs, rest) :=
  getItems_encoded rd enc xs rest hrd

/-! ### counted items (§10.9.4) -/

theorem decCounted_enc {α : Type} (lb : Nat) (ub : Option Nat) (rd : Bits → Option (α × Bits)) (enc : α → Bits)
    (xs : List α) (rest : Bits)
    (hrd : ∀ a ∈ xs, ∀ r, rd (enc a ++ r) = some (a, r))
    (h1 : lb ≤ xs.length) (h2 : ∀ u, ub = some u → xs.length ≤ u) :
    decCounted lb ub rd (encCounted lb ub (xs.map enc) ++ rest) = some (xs, rest) := by
  unfold decCounted encCounted
  cases ub with
  | none => exact rdLengthPrefixed_enc rd enc xs rest hrd
  | some u =>
    have hu := h2 u rfl
    simp only
    by_cases h64 : u < 65536
    · rw [if_pos h64, if_pos h64]
      unfold constrainedLength constrainedWholeNumber
      simp only [List.length_map]
      have e1 : ((u : Int) - (lb : Int) + 1).toNat = u + 1 - lb := by omega
      have e2 : ((xs.length : Int) - (lb : Int)).toNat = xs.length - lb := by omega
      rw [e1, e2, List.append_assoc, rdBits_nnbi _ _ _ (Asn1c.Props.L1Per.lt_two_pow_bitWidth _ _ (by omega))]
      simp only
      have e3 : lb + (xs.length - lb) = xs.length := by omega
      rw [e3, if_pos hu]
      exact rdItems_enc rd enc xs rest hrd
    · rw [if_neg h64, if_neg h64]
      exact rdLengthPrefixed_enc rd enc xs rest hrd

theorem sizeInRoot_iff (sz : SizeC) (n : Nat) :
    sizeInRoot sz n = true ↔ sz.lb ≤ n ∧ ∀ u, sz.ub = some u → n ≤ u := by
  unfold sizeInRoot
  cases h : sz.ub <;> simp

/-- sized items with possibly different item codecs inside / outside the extension root -/
theorem decSized_enc {α : Type} (sz : SizeC) (rd rdOut : Bits → Option (α × Bits)) (enc encOut : α → Bits)
    (xs : List α) (bits rest : Bits)
    (hrd : sizeInRoot sz xs.length = true → ∀ a ∈ xs, ∀ r, rd (enc a ++ r) = some (a, r))
    (hrdOut : sizeInRoot sz xs.length = false → ∀ a ∈ xs, ∀ r, rdOut (encOut a ++ r) = some (a, r))
    (h : encSized sz (xs.map (if sizeInRoot sz xs.length then enc else encOut)) = some bits) :
    decSized sz rd rdOut (bits ++ rest) = some (xs, rest) := by
  unfold encSized at h
  simp only [List.length_map] at h
  unfold decSized
  by_cases hr : sizeInRoot sz xs.length = true
  · rw [if_pos hr] at h
    simp only [hr, if_true] at h
    obtain ⟨h1, h2⟩ := (sizeInRoot_iff sz xs.length).mp hr
    cases he : sz.ext with
    | false =>
      simp only [he, Bool.false_eq_true, if_false, List.nil_append, Option.some.injEq] at h ⊢
      subst h
      exact decCounted_enc sz.lb sz.ub rd enc xs rest (hrd hr) h1 h2
    | true =>
      simp only [he, if_true, Option.some.injEq] at h ⊢
      subst h
      simp only [List.cons_append, List.nil_append]
      exact decCounted_enc sz.lb sz.ub rd enc xs rest (hrd hr) h1 h2
  · have hr' : sizeInRoot sz xs.length = false := by simpa using hr
    rw [if_neg hr] at h
    simp only [hr', Bool.false_eq_true, if_false] at h
    cases he : sz.ext with
    | false => simp [he] at h
    | true =>
      simp only [he, if_true, Option.some.injEq] at h ⊢
      subst h
      simp only [List.cons_append]
      have := rdLengthPrefixed_enc rdOut encOut xs rest (hrdOut hr')
      simpa using this

/-! ### octets with an unconstrained length -/

theorem rdOctet (a : Nat) (h : a < 256) (r : Bits) : rdBits 8 (nnbi 8 a ++ r) = some (a, r) :=
  rdBits_nnbi 8 a r (by omega)

theorem decOctetsUnc_enc (os : Bytes) (h : os.wf) (rest : Bits) :
    decOctetsUnc (encOctetsUnc os ++ rest) = some (os, rest) := by
  unfold decOctetsUnc encOctetsUnc octetItems
  have := rdLengthPrefixed_enc (rdBits 8) (nnbi 8) os rest (fun a ha r => rdOctet a (h a ha) r)
  simpa using this

theorem nnOctets_wf (n : Nat) : (nnOctets n).wf := by
  unfold nnOctets
  split
  · intro b hb; simp at hb; omega
  · exact Asn1c.Proofs.L2Der.toBE_wf n

theorem nnOctets_ne_nil (n : Nat) : nnOctets n ≠ [] := by
  unfold nnOctets
  split
  · simp
  · rename_i h; exact Asn1c.Proofs.L2Tlv.toBE_ne_nil n h

theorem ofBE_nnOctets (n : Nat) : ofBE 0 (nnOctets n) = n := by
  unfold nnOctets
  split
  · rename_i h; subst h; rfl
  · exact Asn1c.Proofs.L2Tlv.ofBE_toBE n

theorem twosOctets_eq (z : Int) : twosOctets z = intOctets z := by
  unfold twosOctets intOctets natOctets
  rfl

/-! ### §13 INTEGER -/

theorem decUnconstrainedInt_enc (z : Int) (rest : Bits) :
    decUnconstrainedInt (unconstrainedWholeNumber z ++ rest) = some (z, rest) := by
  have e : unconstrainedWholeNumber z = encOctetsUnc (twosOctets z) := rfl
  have hw : (twosOctets z).wf := by rw [twosOctets_eq]; exact Asn1c.Proofs.L2Der.intOctets_wf z
  have hn : twosOctets z ≠ [] := by rw [twosOctets_eq]; exact Asn1c.Proofs.L2Der.intOctets_ne_nil z
  unfold decUnconstrainedInt
  rw [e, decOctetsUnc_enc _ hw]
  cases h : twosOctets z with
  | nil => exact absurd h hn
  | cons b os =>
    simp only
    rw [← h, twosOctets_eq, Asn1c.Proofs.L2Der.twosVal_intOctets]

theorem decSemi_enc (l z : Int) (h : l ≤ z) (rest : Bits) :
    (match decOctetsUnc (semiConstrainedWholeNumber l z ++ rest) with
     | some (b :: os, r) => some (l + ((ofBE 0 (b :: os) : Nat) : Int), r)
     | _ => none) = some (z, rest) := by
  have e : semiConstrainedWholeNumber l z = encOctetsUnc (nnOctets (z - l).toNat) := rfl
  rw [e, decOctetsUnc_enc _ (nnOctets_wf _)]
  cases h2 : nnOctets (z - l).toNat with
  | nil => exact absurd h2 (nnOctets_ne_nil _)
  | cons b os =>
    simp only
    rw [← h2, ofBE_nnOctets]
    congr 2
    omega

theorem intInRoot_iff (c : IntC) (z : Int) :
    intInRoot c z = true ↔ (∀ l, c.lb = some l → l ≤ z) ∧ (∀ u, c.ub = some u → z ≤ u) := by
  unfold intInRoot
  cases c.lb <;> cases c.ub <;> simp

theorem decIntRoot_enc (c : IntC) (z : Int) (h : intInRoot c z = true) (rest : Bits) :
    decIntRoot c (encIntRoot c z ++ rest) = some (z, rest) := by
  obtain ⟨h1, h2⟩ := (intInRoot_iff c z).mp h
  unfold decIntRoot encIntRoot
  cases hl : c.lb with
  | none => exact decUnconstrainedInt_enc z rest
  | some l =>
    have hlz := h1 l hl
    cases hu : c.ub with
    | none => exact decSemi_enc l z hlz rest
    | some u =>
      have hzu := h2 u hu
      simp only
      unfold constrainedWholeNumber
      rw [rdBits_nnbi _ _ _ (Asn1c.Props.L1Per.lt_two_pow_bitWidth _ _ (by omega))]
      simp only
      have e : l + (((z - l).toNat : Nat) : Int) = z := by omega
      rw [e, if_pos hzu]

theorem decInt_enc (c : IntC) (z : Int) (bits rest : Bits) (h : encInt c z = some bits) :
    decInt c (bits ++ rest) = some (z, rest) := by
  unfold encInt at h
  unfold decInt
  by_cases hr : intInRoot c z = true
  · rw [if_pos hr] at h
    cases he : c.ext with
    | false =>
      simp only [he, Bool.false_eq_true, if_false, List.nil_append, Option.some.injEq] at h ⊢
      subst h
      exact decIntRoot_enc c z hr rest
    | true =>
      simp only [he, if_true, Option.some.injEq] at h ⊢
      subst h
      simp only [List.cons_append, List.nil_append]
      exact decIntRoot_enc c z hr rest
  · rw [if_neg hr] at h
    cases he : c.ext with
    | false => simp [he] at h
    | true =>
      simp only [he, if_true, Option.some.injEq] at h ⊢
      subst h
      simp only [List.cons_append]
      exact decUnconstrainedInt_enc z rest

/-! ### §10.6 normally small numbers, §10.9.3.4 normally small lengths -/

theorem decNormallySmall_enc (n : Nat) (rest : Bits) :
    decNormallySmall (normallySmall n ++ rest) = some (n, rest) := by
  unfold normallySmall
  by_cases h : n ≤ 63
  · rw [if_pos h]
    simp only [List.cons_append, decNormallySmall]
    exact rdBits_nnbi 6 n rest (by omega)
  · rw [if_neg h]
    simp only [List.cons_append, decNormallySmall]
    have e : semiConstrainedWholeNumber 0 (n : Int) = encOctetsUnc (nnOctets n) := by
      show encOctetsUnc (nnOctets ((n : Int) - 0).toNat) = _
      congr 2
    rw [e, decOctetsUnc_enc _ (nnOctets_wf _)]
    cases h2 : nnOctets n with
    | nil => exact absurd h2 (nnOctets_ne_nil _)
    | cons b os =>
      simp only
      rw [← h2, ofBE_nnOctets]

theorem decLengthDetSmall_enc (n : Nat) (h : n < 16384) (rest : Bits) :
    decLengthDetSmall (lengthDetSmall n ++ rest) = some (n, rest) := by
  unfold lengthDetSmall
  by_cases h7 : n ≤ 127
  · rw [if_pos h7]
    simp only [List.cons_append, decLengthDetSmall]
    exact rdBits_nnbi 7 n rest (by omega)
  · rw [if_neg h7]
    simp only [List.cons_append, decLengthDetSmall]
    exact rdBits_nnbi 14 n rest (by omega)

theorem decNormallySmallLength_enc (n : Nat) (h1 : 1 ≤ n) (h : n < 16384) (rest : Bits) :
    decNormallySmallLength (normallySmallLength n ++ rest) = some (n, rest) := by
  unfold normallySmallLength
  by_cases h6 : n ≤ 64
  · rw [if_pos h6]
    simp only [List.cons_append, decNormallySmallLength]
    rw [rdBits_nnbi 6 (n - 1) rest (by omega)]
    simp only [Option.map_some]
    congr 2; omega
  · rw [if_neg h6]
    simp only [List.cons_append, decNormallySmallLength]
    exact decLengthDetSmall_enc n h rest

/-! ### §14 ENUMERATED -/

theorem getElem?_idxOf {α : Type} [BEq α] [LawfulBEq α] (l : List α) (a : α) (h : a ∈ l) :
    l[l.idxOf a]? = some a := by
  have hi : l.idxOf a < l.length := List.idxOf_lt_length_iff.mpr h
  rw [List.getElem?_eq_getElem hi]
  simp

theorem decEnumRoot_enc (root : List Int) (z : Int) (h : z ∈ root) (rest : Bits) :
    decEnumRoot root (constrainedWholeNumber 0 ((root.length : Int) - 1) (root.idxOf z) ++ rest) = some (z, rest) := by
  have hi : root.idxOf z < root.length := List.idxOf_lt_length_iff.mpr h
  unfold decEnumRoot constrainedWholeNumber
  have e1 : ((root.length : Int) - 1 - 0 + 1).toNat = root.length := by omega
  have e2 : (((root.idxOf z : Nat) : Int) - 0).toNat = root.idxOf z := by omega
  rw [e1, e2, rdBits_nnbi _ _ _ (Asn1c.Props.L1Per.lt_two_pow_bitWidth _ _ hi)]
  simp only
  rw [getElem?_idxOf root z h]
  rfl

theorem decEnum_enc (root : List Int) (ext : Option (List Int)) (z : Int) (bits rest : Bits)
    (h : encEnum root ext z = some bits) : decEnum root ext (bits ++ rest) = some (z, rest) := by
  unfold encEnum at h
  unfold decEnum
  by_cases hz : z ∈ root
  · rw [if_pos hz] at h
    cases ext with
    | none =>
      simp only [Option.isSome_none, Bool.false_eq_true, if_false, List.nil_append, Option.some.injEq] at h
      subst h
      exact decEnumRoot_enc root z hz rest
    | some adds =>
      simp only [Option.isSome_some, if_true, Option.some.injEq] at h
      subst h
      simp only [List.cons_append, List.nil_append]
      exact decEnumRoot_enc root z hz rest
  · rw [if_neg hz] at h
    cases ext with
    | none => simp at h
    | some adds =>
      simp only at h
      by_cases ha : z ∈ adds
      · rw [if_pos ha] at h
        simp only [Option.some.injEq] at h
        subst h
        simp only [List.cons_append]
        rw [decNormallySmall_enc]
        simp only
        rw [getElem?_idxOf adds z ha]
        rfl
      · rw [if_neg ha] at h; simp at h

/-! ### §11.1 / §11.2 complete encodings and open types -/

theorem bitsToBytes_spec (n : Nat) : ∀ bs : Bits, bs.length = n →
    ∃ pad, bytesToBits (bitsToBytes bs) = bs ++ pad ∧ (bitsToBytes bs).wf := by
  induction n using Nat.strong_induction_on with
  | _ n ih =>
    intro bs hlen
    rw [bitsToBytes]
    split
    · rename_i h0
      subst h0
      exact ⟨[], by simp [bytesToBits], by intro b hb; simp at hb⟩
    · rename_i hne
      have hpos : bs.length ≠ 0 := by simpa using hne
      obtain ⟨pad, hp, hw⟩ := ih (bs.drop 8).length (by simp only [List.length_drop]; omega) (bs.drop 8) rfl
      have hc : (bs.take 8 ++ List.replicate (8 - (bs.take 8).length) false).length = 8 := by
        simp only [List.length_append, List.length_take, List.length_replicate]; omega
      have hb : natBits 8 (bitsVal 0 (bs.take 8 ++ List.replicate (8 - (bs.take 8).length) false))
          = bs.take 8 ++ List.replicate (8 - (bs.take 8).length) false := by
        have := natBits_bitsVal (bs.take 8 ++ List.replicate (8 - (bs.take 8).length) false)
        rwa [hc] at this
      have hlt : bitsVal 0 (bs.take 8 ++ List.replicate (8 - (bs.take 8).length) false) < 256 := by
        have := bitsVal_lt (bs.take 8 ++ List.replicate (8 - (bs.take 8).length) false)
        rwa [hc] at this
      refine ⟨List.replicate (8 - (bs.take 8).length) false ++ pad, ?_, ?_⟩
      · rw [bytesToBits_cons, hb, hp]
        by_cases h8 : 8 ≤ bs.length
        · have : (bs.take 8).length = 8 := by simp only [List.length_take]; omega
          rw [this]
          simp only [Nat.sub_self, List.replicate_zero, List.append_nil, List.nil_append]
          rw [← List.append_assoc, List.take_append_drop]
        · have e1 : bs.take 8 = bs := List.take_of_length_le (by omega)
          have e2 : bs.drop 8 = [] := List.drop_of_length_le (by omega)
          rw [e1, e2]
          simp
      · intro b hb'
        rcases List.mem_cons.mp hb' with rfl | hb'
        · exact hlt
        · exact hw b hb'

theorem complete_spec (x : Bits) : ∃ pad, bytesToBits (complete x) = x ++ pad ∧ (complete x).wf := by
  unfold complete
  split
  · rename_i h
    have : x = [] := by simpa using h
    subst this
    exact ⟨bytesToBits [0], by simp, by intro b hb; simp at hb; omega⟩
  · exact bitsToBytes_spec x.length x rfl

/-! ### canonical values, well-formed types, induction principle -/

open Asn1c.Proofs.L2Der (isAbsent RealOk)

/-- canonical BIT STRING value `(octets, unused)`: at most 7 unused bits (none for the empty string) and the
    octets are exactly the zero-padded packing of the value's bits (i.e. octets < 256, unused bits 0) -/
def canonBits (bs : Bytes) (unused : Nat) : Bool :=
  decide (unused ≤ 7) && decide (bs = [] → unused = 0) && (bitsToBytes (bitsOfValue bs unused) == bs)

/-- element encodings are already in canonical order -/
def sortedItems (items : List Bits) : Bool := canonicalSetOf items == items

mutual
/-- canonical abstract values, i.e. the values the decoder returns -/
def canonV : PTy → Val → Bool
  | .boolean, .bool _ => true
  | .null, .null => true
  | .integer _, .int _ => true
  | .enumerated _ _, .int _ => true
  | .real, .real b => decide (RealOk b) && decide (Asn1c.Impl.Real.double2REAL b).wf
  | .octstr _, .octets os => decide os.wf
  | .bitstr _, .bits bs unused => canonBits bs unused
  | .kmstr _ _ _ _, .octets os => decide os.wf
  | .unkstr, .octets os => decide os.wf
  | .seq root rattrs _ adds aattrs, .seq vs => canonRoot root rattrs vs && canonAdds adds aattrs (vs.drop root.length)
  | .choice root _ _ adds, .choice i v =>
    if i < root.length then canonAlt root i v else canonAlt adds (i - root.length) v
  | .seqOf _ e, .list vs => vs.all (canonV e)
  | .setOf _ e, .list vs =>
    vs.all (canonV e) && (match encList e vs with | some items => sortedItems items | none => false)
  | _, _ => false
def canonRoot : List PTy → List Attr → List Val → Bool
  | [], _, _ => true
  | m :: ms, a :: as, v :: vs => (isAbsent v || (!isDefault a v && canonV m v)) && canonRoot ms as vs
  | _, _, _ => false
def canonAdds : List PTy → List Attr → List Val → Bool
  | [], _, _ => true
  | m :: ms, a :: as, v :: vs => (isAbsent v || (!isDefault a v && canonV m v)) && canonAdds ms as vs
  | _, _, _ => false
def canonAlt : List PTy → Nat → Val → Bool
  | [], _, _ => false
  | a :: _, 0, v => canonV a v
  | _ :: as, i + 1, v => canonAlt as i v
end

mutual
def wfP : PTy → Bool
  | .seq root rattrs _ adds _ => wfPs root && wfPs adds && rattrs.length == root.length && decide (adds.length < 16384)
  | .choice root order _ adds => wfPs root && wfPs adds && decide (order.length ≤ root.length)
  | .seqOf _ e => wfP e
  | .setOf _ e => wfP e
  | _ => true
def wfPs : List PTy → Bool
  | [] => true
  | m :: ms => wfP m && wfPs ms
end

theorem PTy.induct' (P : PTy → Prop)
    (boolean : P .boolean) (null : P .null) (integer : ∀ c, P (.integer c))
    (enumerated : ∀ r e, P (.enumerated r e)) (real : P .real) (bitstr : ∀ s, P (.bitstr s))
    (octstr : ∀ s, P (.octstr s)) (kmstr : ∀ cw a b s, P (.kmstr cw a b s)) (unkstr : P .unkstr)
    (seq : ∀ root rattrs ext adds aattrs, (∀ m ∈ root, P m) → (∀ m ∈ adds, P m) → P (.seq root rattrs ext adds aattrs))
    (choice : ∀ root order ext adds, (∀ m ∈ root, P m) → (∀ m ∈ adds, P m) → P (.choice root order ext adds))
    (seqOf : ∀ s e, P e → P (.seqOf s e)) (setOf : ∀ s e, P e → P (.setOf s e)) : ∀ t, P t := by
  intro t
  refine PTy.rec (motive_1 := P) (motive_2 := fun ms => ∀ m ∈ ms, P m)
    boolean null integer enumerated real bitstr octstr kmstr unkstr seq choice seqOf setOf ?_ ?_ t
  · intro m hm; cases hm
  · intro h tl ih1 ih2 m hm
    rcases List.mem_cons.mp hm with rfl | hm
    · exact ih1
    · exact ih2 m hm

/-! ### SEQUENCE components -/

/-- the round-trip statement for one type -/
def RT (t : PTy) : Prop :=
  ∀ v bits rest, canonV t v = true → encUPER t v = some bits → decUPER t (bits ++ rest) = some (v, rest)

theorem encRoot_nil (as : List Attr) (vs : List Val) : encRoot [] as vs = some ([], [], vs) := by rw [encRoot]

theorem encRoot_absent (m : PTy) (ms : List PTy) (a : Attr) (as : List Attr) (vs : List Val) :
    encRoot (m :: ms) (a :: as) (.absent :: vs) =
      if a.optional then
        match encRoot ms as vs with
        | some (p, b, r) => some (false :: p, b, r)
        | none => none
      else none := by
  rw [encRoot]; rfl

theorem encRoot_present (m : PTy) (ms : List PTy) (a : Attr) (as : List Attr) (v : Val) (vs : List Val)
    (hv : isAbsent v = false) :
    encRoot (m :: ms) (a :: as) (v :: vs) =
      if isDefault a v then
        match encRoot ms as vs with
        | some (p, b, r) => some (false :: p, b, r)
        | none => none
      else
        match encUPER m v, encRoot ms as vs with
        | some x, some (p, b, r) => some (if a.optional then true :: p else p, x ++ b, r)
        | _, _ => none := by
  cases v <;> first
    | (simp [isAbsent] at hv; done)
    | (rw [encRoot] <;> first | rfl | (intro h; cases h))

theorem isAbsent_eq (v : Val) (h : isAbsent v = true) : v = .absent := by
  cases v <;> simp [isAbsent] at h ⊢

theorem decRoot_enc (root : List PTy) (ih : ∀ m ∈ root, RT m) :
    ∀ (rattrs : List Attr) (vs : List Val) (p b : Bits) (r : List Val) (tail : Bits),
      rattrs.length = root.length → canonRoot root rattrs vs = true → encRoot root rattrs vs = some (p, b, r) →
      decRoot root rattrs p (b ++ tail) = some (vs.take root.length, tail) ∧ r = vs.drop root.length ∧
        p.length = optCount rattrs := by
  induction root with
  | nil =>
    intro rattrs vs p b r tail hl _ he
    rw [encRoot_nil] at he
    simp only [Option.some.injEq, Prod.mk.injEq] at he
    obtain ⟨rfl, rfl, rfl⟩ := he
    have : rattrs = [] := by cases rattrs <;> simp_all
    subst this
    simp [decRoot, optCount]
  | cons m ms ihm =>
    intro rattrs vs p b r tail hl hc he
    cases rattrs with
    | nil => simp at hl
    | cons a as =>
      cases vs with
      | nil => simp [canonRoot] at hc
      | cons v vs =>
        have hl' : as.length = ms.length := by simpa using hl
        have ihms : ∀ x ∈ ms, RT x := fun x hx => ih x (by simp [hx])
        simp only [canonRoot, Bool.and_eq_true, Bool.or_eq_true, Bool.not_eq_true'] at hc
        obtain ⟨hv, hcr⟩ := hc
        by_cases hab : isAbsent v = true
        · have := isAbsent_eq v hab; subst this
          rw [encRoot_absent] at he
          by_cases ho : a.optional = true
          · rw [if_pos ho] at he
            cases h2 : encRoot ms as vs with
            | none => simp [h2] at he
            | some res =>
              obtain ⟨p', b', r'⟩ := res
              simp only [h2, Option.some.injEq, Prod.mk.injEq] at he
              obtain ⟨rfl, rfl, rfl⟩ := he
              obtain ⟨h3, h4, h5⟩ := ihm ihms as vs p' b' r' tail hl' hcr h2
              refine ⟨?_, by simpa using h4, by simp [optCount, ho, h5]; omega⟩
              rw [decRoot, if_pos ho]
              simp only [h3, List.length_cons, List.take_succ_cons]
          · rw [if_neg ho] at he; simp at he
        · have hab' : isAbsent v = false := by simpa using hab
          rw [hab'] at hv
          simp only [Bool.false_eq_true, false_or] at hv
          obtain ⟨hnd, hcv⟩ := hv
          rw [encRoot_present m ms a as v vs hab', hnd] at he
          simp only [Bool.false_eq_true, if_false] at he
          cases h1 : encUPER m v with
          | none => simp [h1] at he
          | some x =>
            cases h2 : encRoot ms as vs with
            | none => simp [h1, h2] at he
            | some res =>
              obtain ⟨p', b', r'⟩ := res
              simp only [h1, h2, Option.some.injEq, Prod.mk.injEq] at he
              obtain ⟨rfl, rfl, rfl⟩ := he
              obtain ⟨h3, h4, h5⟩ := ihm ihms as vs p' b' r' tail hl' hcr h2
              have hm := ih m (by simp) v x (b' ++ tail) hcv h1
              refine ⟨?_, by simpa using h4, ?_⟩
              · by_cases ho : a.optional = true
                · simp only [ho, if_true]
                  rw [decRoot, if_pos ho]
                  simp only [List.append_assoc, hm, h3, List.length_cons, List.take_succ_cons]
                · simp only [ho, Bool.false_eq_true, if_false]
                  rw [decRoot.eq_def]
                  simp only [ho, Bool.false_eq_true, if_false, List.append_assoc, hm, h3, List.length_cons, List.take_succ_cons]
              · by_cases ho : a.optional = true
                · simp [optCount, ho, h5]; omega
                · simp [optCount, ho, h5]

theorem encAdds_absent (m : PTy) (ms : List PTy) (a : Attr) (as : List Attr) (vs : List Val) :
    encAdds (m :: ms) (a :: as) (.absent :: vs) =
      match encAdds ms as vs with
      | some (bm, b) => some (false :: bm, b)
      | none => none := by
  rw [encAdds]; rfl

/-- CANONICAL-PER §19.5 for an extension addition: the DEFAULT value is encoded as absent -/
theorem encAdds_default (m : PTy) (ms : List PTy) (a : Attr) (as : List Attr) (v : Val) (vs : List Val)
    (hd : isDefault a v = true) :
    encAdds (m :: ms) (a :: as) (v :: vs) = encAdds (m :: ms) (a :: as) (.absent :: vs) := by
  cases v <;> first
    | rfl
    | (rw [encAdds, encAdds] <;> first | (simp only [hd, if_true]; done) | (intro h; cases h))

theorem encAdds_present (m : PTy) (ms : List PTy) (a : Attr) (as : List Attr) (v : Val) (vs : List Val)
    (hv : isAbsent v = false) (hd : isDefault a v = false) :
    encAdds (m :: ms) (a :: as) (v :: vs) =
      match encUPER m v, encAdds ms as vs with
      | some x, some (bm, b) => some (true :: bm, openType x ++ b)
      | _, _ => none := by
  cases v <;> first
    | (simp [isAbsent] at hv; done)
    | (rw [encAdds] <;> first | (simp only [hd]; rfl) | (intro h; cases h))

/-- an open type is read back: the octets are those of the complete encoding -/
theorem decOpen (x tail : Bits) : decOctetsUnc (openType x ++ tail) = some (complete x, tail) := by
  obtain ⟨_, _, hw⟩ := complete_spec x
  exact decOctetsUnc_enc (complete x) hw tail

theorem decAdds_enc (adds : List PTy) (ih : ∀ m ∈ adds, RT m) :
    ∀ (as : List Attr) (vs : List Val) (bm : List Bool) (ab tail : Bits),
      canonAdds adds as vs = true → encAdds adds as vs = some (bm, ab) →
      decAdds adds bm (ab ++ tail) = some (vs, tail) ∧ bm.length = adds.length := by
  induction adds with
  | nil =>
    intro as vs bm ab tail _ he
    cases vs with
    | nil =>
      rw [encAdds] at he
      simp only [Option.some.injEq, Prod.mk.injEq] at he
      obtain ⟨rfl, rfl⟩ := he
      simp [decAdds, skipOpen]
    | cons v vs => simp [encAdds] at he
  | cons m ms ihm =>
    intro as vs bm ab tail hc he
    cases as with
    | nil => simp [canonAdds] at hc
    | cons a as =>
    cases vs with
    | nil => simp [canonAdds] at hc
    | cons v vs =>
      have ihms : ∀ x ∈ ms, RT x := fun x hx => ih x (by simp [hx])
      simp only [canonAdds, Bool.and_eq_true, Bool.or_eq_true] at hc
      obtain ⟨hv, hcr⟩ := hc
      by_cases hab : isAbsent v = true
      · have := isAbsent_eq v hab; subst this
        rw [encAdds_absent] at he
        cases h2 : encAdds ms as vs with
        | none => simp [h2] at he
        | some res =>
          obtain ⟨bm', ab'⟩ := res
          simp only [h2, Option.some.injEq, Prod.mk.injEq] at he
          obtain ⟨rfl, rfl⟩ := he
          obtain ⟨h3, h4⟩ := ihm ihms as vs bm' ab' tail hcr h2
          refine ⟨?_, by simp [h4]⟩
          rw [decAdds]
          simp only [h3]
      · have hab' : isAbsent v = false := by simpa using hab
        rw [hab'] at hv
        simp only [Bool.false_eq_true, false_or, Bool.not_eq_true'] at hv
        obtain ⟨hnd, hv⟩ := hv
        rw [encAdds_present m ms a as v vs hab' hnd] at he
        cases h1 : encUPER m v with
        | none => simp [h1] at he
        | some x =>
          cases h2 : encAdds ms as vs with
          | none => simp [h1, h2] at he
          | some res =>
            obtain ⟨bm', ab'⟩ := res
            simp only [h1, h2, Option.some.injEq, Prod.mk.injEq] at he
            obtain ⟨rfl, rfl⟩ := he
            obtain ⟨h3, h4⟩ := ihm ihms as vs bm' ab' tail hcr h2
            obtain ⟨pad, hp, _⟩ := complete_spec x
            have hm := ih m (by simp) v x pad hv h1
            refine ⟨?_, by simp [h4]⟩
            rw [decAdds]
            simp only [List.append_assoc, decOpen, hp, hm, h3]

theorem encAdds_none_present (adds : List PTy) :
    ∀ (as : List Attr) (vs : List Val) (bm : List Bool) (ab : Bits), canonAdds adds as vs = true →
      encAdds adds as vs = some (bm, ab) → bm.any id = false →
      vs = absentVals adds.length ∧ ab = [] := by
  induction adds with
  | nil =>
    intro as vs bm ab _ he _
    cases vs with
    | nil => rw [encAdds] at he; simp at he; simp [absentVals, he]
    | cons v vs => simp [encAdds] at he
  | cons m ms ihm =>
    intro as vs bm ab hc he hb
    cases as with
    | nil => simp [canonAdds] at hc
    | cons a as =>
    cases vs with
    | nil => simp [encAdds] at he
    | cons v vs =>
      simp only [canonAdds, Bool.and_eq_true, Bool.or_eq_true] at hc
      obtain ⟨hv, hcr⟩ := hc
      by_cases hab : isAbsent v = true
      · have := isAbsent_eq v hab; subst this
        rw [encAdds_absent] at he
        cases h2 : encAdds ms as vs with
        | none => simp [h2] at he
        | some res =>
          obtain ⟨bm', ab'⟩ := res
          simp only [h2, Option.some.injEq, Prod.mk.injEq] at he
          obtain ⟨rfl, rfl⟩ := he
          obtain ⟨h3, h4⟩ := ihm as vs bm' ab' hcr h2 (by simpa using hb)
          simp [absentVals, List.replicate_succ, h3, h4]
      · have hab' : isAbsent v = false := by simpa using hab
        rw [hab'] at hv
        simp only [Bool.false_eq_true, false_or, Bool.not_eq_true'] at hv
        rw [encAdds_present m ms a as v vs hab' hv.1] at he
        cases h1 : encUPER m v with
        | none => simp [h1] at he
        | some x =>
          cases h2 : encAdds ms as vs with
          | none => simp [h1, h2] at he
          | some res =>
            obtain ⟨bm', ab'⟩ := res
            simp only [h1, h2, Option.some.injEq, Prod.mk.injEq] at he
            obtain ⟨rfl, _⟩ := he
            simp at hb

theorem decAlt_enc (alts : List PTy) (ih : ∀ m ∈ alts, RT m) :
    ∀ (i : Nat) (v : Val) (x rest : Bits), canonAlt alts i v = true → encAlt alts i v = some x →
      decAlt alts i (x ++ rest) = some (v, rest) := by
  induction alts with
  | nil => intro i v x rest hc; simp [canonAlt] at hc
  | cons a as iha =>
    intro i v x rest hc he
    cases i with
    | zero =>
      rw [canonAlt] at hc
      rw [encAlt] at he
      rw [decAlt]
      exact ih a (by simp) v x rest hc he
    | succ i =>
      rw [canonAlt] at hc
      rw [encAlt] at he
      rw [decAlt]
      exact iha (fun m hm => ih m (by simp [hm])) i v x rest hc he

theorem encList_some (e : PTy) : ∀ (vs : List Val) (items : List Bits), encList e vs = some items →
    items = vs.map (fun v => (encUPER e v).getD []) ∧ ∀ v ∈ vs, encUPER e v = some ((encUPER e v).getD []) := by
  intro vs
  induction vs with
  | nil => intro items h; rw [encList] at h; simp at h; simp [h]
  | cons v vs ihv =>
    intro items h
    rw [encList] at h
    cases h1 : encUPER e v with
    | none => simp [h1] at h
    | some x =>
      cases h2 : encList e vs with
      | none => simp [h1, h2] at h
      | some xs =>
        simp only [h1, h2, Option.some.injEq] at h
        obtain ⟨h3, h4⟩ := ihv xs h2
        subst h
        refine ⟨by simp [h1, h3], ?_⟩
        intro w hw
        rcases List.mem_cons.mp hw with rfl | hw
        · simp [h1]
        · exact h4 w hw

/-! ### round trip, kind by kind -/

theorem wfPs_iff (ms : List PTy) : wfPs ms = true ↔ ∀ m ∈ ms, wfP m = true := by
  induction ms with
  | nil => simp [wfPs]
  | cons m ms ih => simp [wfPs, ih]

theorem rt_boolean : RT .boolean := by
  intro v bits rest hc he
  cases v <;> simp [canonV] at hc
  simp only [encUPER, Option.some.injEq] at he
  subst he
  simp [decUPER]

theorem rt_null : RT .null := by
  intro v bits rest hc he
  cases v <;> simp [canonV] at hc
  simp only [encUPER, Option.some.injEq] at he
  subst he
  simp [decUPER]

theorem rt_integer (c : IntC) : RT (.integer c) := by
  intro v bits rest hc he
  cases v <;> simp [canonV] at hc
  simp only [encUPER] at he
  simp only [decUPER, decInt_enc c _ bits rest he, Option.map_some]

theorem rt_enumerated (r : List Int) (e : Option (List Int)) : RT (.enumerated r e) := by
  intro v bits rest hc he
  cases v <;> simp [canonV] at hc
  simp only [encUPER] at he
  simp only [decUPER, decEnum_enc r e _ bits rest he, Option.map_some]

theorem rt_real : RT .real := by
  intro v bits rest hc he
  cases v <;> simp [canonV] at hc
  obtain ⟨hr, hw⟩ := hc
  simp only [encUPER, Option.some.injEq] at he
  subst he
  simp only [decUPER, decOctetsUnc_enc _ hw, Asn1c.Proofs.L2Der.real_roundtrip _ hr]

theorem rt_unkstr : RT .unkstr := by
  intro v bits rest hc he
  cases v <;> simp [canonV] at hc
  simp only [encUPER, Option.some.injEq] at he
  subst he
  simp only [decUPER, decOctetsUnc_enc _ hc]

theorem rt_octstr (sz : SizeC) : RT (.octstr sz) := by
  intro v bits rest hc he
  cases v <;> simp [canonV] at hc
  rename_i os
  simp only [encUPER, octetItems] at he
  have := decSized_enc sz (rdBits 8) (rdBits 8) (nnbi 8) (nnbi 8) os bits rest
    (fun _ a ha r => rdOctet a (hc a ha) r) (fun _ a ha r => rdOctet a (hc a ha) r) (by simpa using he)
  simp only [decUPER, this]

theorem bitsOfValue_length (bs : Bytes) (u : Nat) : (bitsOfValue bs u).length = 8 * bs.length - u := by
  unfold bitsOfValue
  rw [List.length_take, bytesToBits_length]
  omega

theorem rt_bitstr (sz : SizeC) : RT (.bitstr sz) := by
  intro v bits rest hc he
  cases v with
  | bits bs u =>
    simp only [canonV, canonBits, Bool.and_eq_true, decide_eq_true_eq, beq_iff_eq] at hc
    obtain ⟨⟨hu, h0⟩, hb⟩ := hc
    simp only [encUPER, encBitString] at he
    rw [if_pos ⟨hu, h0⟩] at he
    have := decSized_enc sz rdBit rdBit (fun b => [b]) (fun b => [b]) (bitsOfValue bs u) bits rest
      (fun _ a _ r => rfl) (fun _ a _ r => rfl) (by simpa using he)
    have hmod : (8 - (8 * bs.length - u) % 8) % 8 = u := by
      cases bs with
      | nil => simp [h0 rfl]
      | cons b bs' => simp only [List.length_cons]; omega
    simp only [decUPER, this, valueOfBits, hb, bitsOfValue_length, hmod]
  | _ => simp [canonV] at hc

theorem rt_list (sz : SizeC) (e : PTy) (ih : RT e) (vs : List Val) (items : List Bits) (bits rest : Bits)
    (hc : vs.all (canonV e) = true) (hl : encList e vs = some items) (he : encSized sz items = some bits) :
    decSized sz (decUPER e) (decUPER e) (bits ++ rest) = some (vs, rest) := by
  obtain ⟨h1, h2⟩ := encList_some e vs items hl
  have hrd : ∀ a ∈ vs, ∀ r, decUPER e ((fun v => (encUPER e v).getD []) a ++ r) = some (a, r) := by
    intro a ha r
    exact ih a _ r (by simpa using (List.all_eq_true.mp hc) a ha) (h2 a ha)
  subst h1
  exact decSized_enc sz (decUPER e) (decUPER e) _ _ vs bits rest (fun _ => hrd) (fun _ => hrd) (by simpa using he)

theorem rt_seqOf (sz : SizeC) (e : PTy) (ih : RT e) : RT (.seqOf sz e) := by
  intro v bits rest hc he
  cases v with
  | list vs =>
    simp only [canonV] at hc
    simp only [encUPER] at he
    cases hl : encList e vs with
    | none => simp [hl] at he
    | some items =>
      simp only [hl] at he
      simp only [decUPER, rt_list sz e ih vs items bits rest hc hl he]
  | _ => simp [canonV] at hc

theorem rt_setOf (sz : SizeC) (e : PTy) (ih : RT e) : RT (.setOf sz e) := by
  intro v bits rest hc he
  cases v with
  | list vs =>
    simp only [canonV] at hc
    simp only [encUPER] at he
    cases hl : encList e vs with
    | none => simp [hl] at he
    | some items =>
      simp only [hl, Bool.and_eq_true] at he hc
      obtain ⟨hca, hs⟩ := hc
      have hs' : canonicalSetOf items = items := by simpa [sortedItems] using hs
      rw [hs'] at he
      simp only [decUPER, rt_list sz e ih vs items bits rest hca hl he]
  | _ => simp [canonV] at hc

theorem any_true_length (bm : List Bool) (h : bm.any id = true) : 1 ≤ bm.length := by
  cases bm with
  | nil => simp at h
  | cons b bs => simp

theorem rt_seq (root : List PTy) (rattrs : List Attr) (ext : Bool) (adds : List PTy) (aattrs : List Attr)
    (ihr : ∀ m ∈ root, RT m) (iha : ∀ m ∈ adds, RT m)
    (hl : rattrs.length = root.length) (hn : adds.length < 16384) : RT (.seq root rattrs ext adds aattrs) := by
  intro v bits rest hc he
  cases v with
  | seq vs =>
    simp only [canonV] at hc
    simp only [Bool.and_eq_true] at hc
    obtain ⟨hcr, hca⟩ := hc
    simp only [encUPER] at he
    cases h1 : encRoot root rattrs vs with
    | none => simp [h1] at he
    | some res1 =>
      obtain ⟨p, b, r⟩ := res1
      simp only [h1] at he
      cases h2 : encAdds adds aattrs r with
      | none => simp [h2] at he
      | some res2 =>
        obtain ⟨bm, ab⟩ := res2
        simp only [h2] at he
        have hr0 := (decRoot_enc root ihr rattrs vs p b r [] hl hcr h1).2
        obtain ⟨hrd, hpl⟩ := hr0
        subst hrd
        have hbl := (decAdds_enc adds iha aattrs _ bm ab [] hca h2).2
        have htd : vs.take root.length ++ vs.drop root.length = vs := List.take_append_drop _ _
        by_cases hany : bm.any id = true
        · -- extension additions present
          cases ext with
          | false =>
            simp only [Bool.false_eq_true, if_false] at he
            by_cases hem : adds.isEmpty = true
            · have : adds = [] := by simpa using hem
              subst this
              have : bm = [] := by simpa using hbl
              subst this
              simp at hany
            · simp [hem] at he
          | true =>
            simp only [if_true, hany, Option.some.injEq] at he
            subst he
            have hR := (decRoot_enc root ihr rattrs vs p b _ (normallySmallLength bm.length ++ (bm ++ (ab ++ rest))) hl hcr h1).1
            have hA := (decAdds_enc adds iha aattrs _ bm ab rest hca h2).1
            have hN := decNormallySmallLength_enc bm.length (any_true_length bm hany) (by omega) (bm ++ (ab ++ rest))
            simp only [decUPER, if_true, List.cons_append, rdBit, List.append_assoc,
              rdBools_append _ p _ hpl, hR, hN, rdBools_append _ bm _ rfl, hA, htd]
        · have hany' : bm.any id = false := by simpa using hany
          obtain ⟨hv, _⟩ := encAdds_none_present adds aattrs _ bm ab hca h2 hany'
          cases ext with
          | false =>
            simp only [Bool.false_eq_true, if_false] at he
            by_cases hem : adds.isEmpty = true
            · simp only [hem, if_true, Option.some.injEq] at he
              subst he
              have hR := (decRoot_enc root ihr rattrs vs p b _ rest hl hcr h1).1
              simp only [decUPER, Bool.false_eq_true, if_false, List.append_assoc,
                rdBools_append _ p _ hpl, hR, ← hv, htd]
            · simp [hem] at he
          | true =>
            simp only [if_true, hany', Bool.false_eq_true, if_false, Option.some.injEq] at he
            subst he
            have hR := (decRoot_enc root ihr rattrs vs p b _ rest hl hcr h1).1
            simp only [decUPER, if_true, List.cons_append, rdBit, List.append_assoc,
              rdBools_append _ p _ hpl, hR, Bool.false_eq_true, if_false, ← hv, htd]
  | _ => simp [canonV] at hc

/-! ### §30 known-multiplier character strings -/

theorem alphaIndex_props (A : Alpha) : ∀ (c i : Nat), alphaIndex c A = some i →
    i < alphaCount A ∧ c ≤ alphaMax A ∧ alphaNth i A = some c := by
  induction A with
  | nil => intro c i h; simp [alphaIndex] at h
  | cons r A ih =>
    obtain ⟨lo, hi⟩ := r
    intro c i h
    simp only [alphaIndex] at h
    by_cases hr : lo ≤ c ∧ c ≤ hi
    · rw [if_pos hr] at h
      simp only [Option.some.injEq] at h
      subst h
      refine ⟨by simp only [alphaCount]; omega, by simp only [alphaMax]; omega, ?_⟩
      simp only [alphaNth]
      rw [if_pos (by omega)]
      congr 1; omega
    · rw [if_neg hr] at h
      cases h2 : alphaIndex c A with
      | none => simp [h2] at h
      | some j =>
        simp only [h2, Option.map_some, Option.some.injEq] at h
        subst h
        obtain ⟨h3, h4, h5⟩ := ih c j h2
        refine ⟨by simp only [alphaCount]; omega, by simp only [alphaMax]; omega, ?_⟩
        simp only [alphaNth]
        rw [if_neg (by omega)]
        have : j + (hi + 1 - lo) - (hi + 1 - lo) = j := by omega
        rw [this, h5]

theorem decChar_enc (A : Alpha) (c : Nat) (bits r : Bits) (h : encChar A c = some bits) :
    decChar A (bits ++ r) = some (c, r) := by
  unfold encChar at h
  cases hi : alphaIndex c A with
  | none => simp [hi] at h
  | some i =>
    simp only [hi, Option.some.injEq] at h
    subst h
    obtain ⟨h1, h2, h3⟩ := alphaIndex_props A c i hi
    unfold decChar
    by_cases hv : byValue A = true
    · have hlt : c < 2 ^ charWidth A := by
        have : alphaMax A < 2 ^ charWidth A := by simpa [byValue] using hv
        omega
      simp only [hv, if_true]
      rw [rdBits_nnbi _ _ _ hlt]
      simp [hi]
    · have hlt : i < 2 ^ charWidth A := Asn1c.Props.L1Per.lt_two_pow_bitWidth _ _ h1
      simp only [hv, Bool.false_eq_true, if_false]
      rw [rdBits_nnbi _ _ _ hlt]
      simp [h3]

theorem mapOpt_some {α β : Type} [Inhabited β] (f : α → Option β) : ∀ (xs : List α) (ys : List β), mapOpt f xs = some ys →
    ys = xs.map (fun a => (f a).getD default) ∧ ∀ a ∈ xs, f a = some ((f a).getD default) := by
  intro xs
  induction xs with
  | nil => intro ys h; simp [mapOpt] at h; simp [h]
  | cons a as ih =>
    intro ys h
    rw [mapOpt] at h
    cases h1 : f a with
    | none => simp [h1] at h
    | some b =>
      cases h2 : mapOpt f as with
      | none => simp [h1, h2] at h
      | some bs =>
        simp only [h1, h2, Option.some.injEq] at h
        obtain ⟨h3, h4⟩ := ih bs h2
        subst h
        refine ⟨by simp [h1, h3], ?_⟩
        intro w hw
        rcases List.mem_cons.mp hw with rfl | hw
        · simp [h1]
        · exact h4 w hw

theorem toBEn_add_mul (k n m : Nat) : toBEn k (m * 256 ^ k + n) = toBEn k n := by
  induction k generalizing n m with
  | zero => rfl
  | succ k ih =>
    simp only [toBEn]
    have e1 : (m * 256 ^ (k + 1) + n) / 256 ^ k = m * 256 + n / 256 ^ k := by
      have : m * 256 ^ (k + 1) = (m * 256) * 256 ^ k := by rw [Nat.pow_succ]; ac_rfl
      rw [this, Nat.add_comm, Nat.add_mul_div_right _ _ (Nat.pow_pos (by omega)), Nat.add_comm]
    have e2 : m * 256 ^ (k + 1) + n = (m * 256) * 256 ^ k + n := by rw [Nat.pow_succ]; ac_rfl
    rw [e1, e2, ih]
    congr 1
    omega

theorem toBEn_ofBE (bs : Bytes) (hw : bs.wf) : toBEn bs.length (ofBE 0 bs) = bs := by
  induction bs with
  | nil => rfl
  | cons b bs ih =>
    have hw' : Bytes.wf bs := fun x hx => hw x (by simp [hx])
    have hb : b < 256 := hw b (by simp)
    have hlt := Asn1c.Proofs.Integer.ofBE_lt bs hw'
    rw [Asn1c.Proofs.Integer.ofBE_cons]
    simp only [List.length_cons, toBEn]
    rw [toBEn_add_mul, ih hw']
    congr 1
    rw [Nat.add_comm, Nat.add_mul_div_right _ _ (Nat.pow_pos (by omega)), Nat.div_eq_of_lt hlt]
    omega

theorem charsOf_octets (f cw : Nat) : ∀ (os : Bytes) (cs : List Nat), os.wf → charsOf f cw os = some cs →
    octetsOfChars cw cs = os := by
  induction f with
  | zero =>
    intro os cs _ h
    simp only [charsOf] at h
    by_cases he : os.isEmpty = true
    · simp only [he, if_true, Option.some.injEq] at h
      subst h
      have : os = [] := by simpa using he
      simp [octetsOfChars, this]
    · simp [he] at h
  | succ f ih =>
    intro os cs hw h
    simp only [charsOf] at h
    by_cases he : os.isEmpty = true
    · simp only [he, if_true, Option.some.injEq] at h
      subst h
      have : os = [] := by simpa using he
      simp [octetsOfChars, this]
    · simp only [he, Bool.false_eq_true, if_false] at h
      by_cases hc : cw = 0 ∨ (os.take cw).length < cw
      · rw [if_pos hc] at h; simp at h
      · rw [if_neg hc] at h
        cases h2 : charsOf f cw (os.drop cw) with
        | none => simp [h2] at h
        | some cs' =>
          simp only [h2, Option.map_some, Option.some.injEq] at h
          subst h
          have hwd : Bytes.wf (os.drop cw) := fun x hx => hw x (List.mem_of_mem_drop hx)
          have hwt : Bytes.wf (os.take cw) := fun x hx => hw x (List.mem_of_mem_take hx)
          have hlen : (os.take cw).length = cw := by
            have := List.length_take_le cw os
            omega
          have := ih (os.drop cw) cs' hwd h2
          simp only [octetsOfChars, List.flatMap_cons] at this ⊢
          rw [this]
          have h3 := toBEn_ofBE (os.take cw) hwt
          rw [hlen] at h3
          rw [h3, List.take_append_drop]

theorem rt_kmstr (cw : Nat) (alpha base : Alpha) (sz : SizeC) :
    RT (.kmstr cw alpha base sz) := by
  intro v bits rest hc he
  cases v with
  | octets os =>
    simp only [canonV, decide_eq_true_eq] at hc
    simp only [encUPER, encKmString] at he
    cases h1 : charsOf os.length cw os with
    | none => simp [h1] at he
    | some cs =>
      simp only [h1] at he
      cases h2 : mapOpt (encChar (if sizeInRoot sz cs.length = true then alpha else base)) cs with
      | none => simp [h2] at he
      | some items =>
        simp only [h2] at he
        obtain ⟨h3, h4⟩ := mapOpt_some _ cs items h2
        have hO := charsOf_octets os.length cw os cs hc h1
        subst h3
        have := decSized_enc sz (decChar alpha) (decChar base)
          (fun a => (encChar alpha a).getD default) (fun a => (encChar base a).getD default) cs bits rest
          (fun hr a ha r => by
            have := h4 a ha
            rw [if_pos hr] at this
            exact decChar_enc alpha a _ r this)
          (fun hr a ha r => by
            have := h4 a ha
            rw [if_neg (by simp [hr])] at this
            exact decChar_enc base a _ r this)
          (by
            by_cases hr : sizeInRoot sz cs.length = true
            · simpa [hr] using he
            · simpa [hr] using he)
        simp only [decUPER, decKmString, this, hO]
  | _ => simp [canonV] at hc

theorem rt_choice (root : List PTy) (order : List Nat) (ext : Bool) (adds : List PTy)
    (ihr : ∀ m ∈ root, RT m) (iha : ∀ m ∈ adds, RT m) (ho : order.length ≤ root.length) :
    RT (.choice root order ext adds) := by
  intro v bits rest hc he
  cases v with
  | choice i v =>
    simp only [canonV] at hc
    simp only [encUPER] at he
    by_cases hi : i < root.length
    · rw [if_pos hi] at hc he
      cases h1 : encAlt root i v with
      | none => simp [h1] at he
      | some x =>
        simp only [h1] at he
        by_cases hm : order.contains i = true
        · rw [if_pos hm] at he
          simp only [Option.some.injEq] at he
          subst he
          have hmem : i ∈ order := by simpa using hm
          have hidx : order.idxOf i < order.length := List.idxOf_lt_length_iff.mpr hmem
          have hA := decAlt_enc root ihr i v x rest hc h1
          have e1 : ((root.length : Int) - 1 - 0 + 1).toNat = root.length := by omega
          have e2 : (((order.idxOf i : Nat) : Int) - 0).toNat = order.idxOf i := by omega
          have hB : rdBits (bitWidth root.length)
              (constrainedWholeNumber 0 ((root.length : Int) - 1) (order.idxOf i) ++ (x ++ rest)) =
              some (order.idxOf i, x ++ rest) := by
            unfold constrainedWholeNumber
            rw [e1, e2]
            exact rdBits_nnbi _ _ _ (Asn1c.Props.L1Per.lt_two_pow_bitWidth _ _ (by omega))
          cases ext with
          | false =>
            simp only [decUPER, Bool.false_eq_true, if_false, List.nil_append, List.append_assoc, hB,
              getElem?_idxOf order i hmem, hA]
          | true =>
            simp only [decUPER, if_true, List.cons_append, List.nil_append, rdBit, List.append_assoc, hB,
              getElem?_idxOf order i hmem, hA]
        · rw [if_neg hm] at he; simp at he
    · rw [if_neg hi] at hc he
      cases ext with
      | false => simp at he
      | true =>
        simp only [if_true] at he
        cases h1 : encAlt adds (i - root.length) v with
        | none => simp [h1] at he
        | some x =>
          simp only [h1, Option.some.injEq] at he
          subst he
          obtain ⟨pad, hp, _⟩ := complete_spec x
          have hA := decAlt_enc adds iha (i - root.length) v x pad hc h1
          have e : root.length + (i - root.length) = i := by omega
          simp only [decUPER, if_true, List.cons_append, rdBit, List.append_assoc, decNormallySmall_enc,
            decOpen, hp, hA, e]
  | _ => simp [canonV] at hc

/-- every reader of the reference codec inverts its writer: for a well-formed type and a canonical value,
    decoding the encoding followed by arbitrary bits returns the value and exactly those bits -/
theorem rt_all : ∀ t, wfP t = true → RT t := by
  apply PTy.induct' (fun t => wfP t = true → RT t)
  · intro _; exact rt_boolean
  · intro _; exact rt_null
  · intro c _; exact rt_integer c
  · intro r e _; exact rt_enumerated r e
  · intro _; exact rt_real
  · intro s _; exact rt_bitstr s
  · intro s _; exact rt_octstr s
  · intro cw a b s _; exact rt_kmstr cw a b s
  · intro _; exact rt_unkstr
  · intro root rattrs ext adds aattrs ihr iha hw
    simp only [wfP, Bool.and_eq_true, beq_iff_eq, decide_eq_true_eq] at hw
    obtain ⟨⟨⟨hwr, hwa⟩, hl⟩, hn⟩ := hw
    exact rt_seq root rattrs ext adds aattrs (fun m hm => ihr m hm ((wfPs_iff root).mp hwr m hm))
      (fun m hm => iha m hm ((wfPs_iff adds).mp hwa m hm)) hl hn
  · intro root order ext adds ihr iha hw
    simp only [wfP, Bool.and_eq_true, decide_eq_true_eq] at hw
    obtain ⟨⟨hwr, hwa⟩, ho⟩ := hw
    exact rt_choice root order ext adds (fun m hm => ihr m hm ((wfPs_iff root).mp hwr m hm))
      (fun m hm => iha m hm ((wfPs_iff adds).mp hwa m hm)) ho
  · intro s e ih hw
    simp only [wfP] at hw
    exact rt_seqOf s e (ih hw)
  · intro s e ih hw
    simp only [wfP] at hw
    exact rt_setOf s e (ih hw)

end Asn1c.Proofs.L2Uper
