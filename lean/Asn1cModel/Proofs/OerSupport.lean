import Asn1cModel.Impl.OerSupport
import Asn1cModel.Spec.Oer
import Asn1cModel.Proofs.BerTlv
import Asn1cModel.Proofs.Integer
/- L1 lemmas about the OER length determinant (used by C01/C02/C04). -/
namespace Asn1c.Proofs.OerSupport
open Asn1c Asn1c.Impl.OerSupport

macro "ifomega" : tactic => `(tactic| repeat (first | rw [if_pos (by omega)] | rw [if_neg (by omega)]))

/-! ### no read outside the buffer -/

theorem skipZeros_ok (buf : Bytes) (fuel b bend : Nat) (h : bend ≤ buf.length) :
    ∃ b', skipZeros buf fuel b bend = some b' ∧ b ≤ b' ∧ (b' ≤ bend ∨ b' = b) := by
  induction fuel generalizing b with
  | zero => exact ⟨b, rfl, Nat.le_refl _, Or.inr rfl⟩
  | succ fuel ih =>
    rw [skipZeros]
    by_cases hb : b < bend
    · rw [if_pos hb]
      have hlt : b < buf.length := by omega
      rw [List.getElem?_eq_getElem hlt]
      simp only
      by_cases hz : buf[b] = 0
      · rw [if_pos hz]
        obtain ⟨b', e, l, u⟩ := ih (b + 1)
        exact ⟨b', e, by omega, by omega⟩
      · rw [if_neg hz]
        exact ⟨b, rfl, Nat.le_refl _, Or.inr rfl⟩
    · rw [if_neg hb]
      exact ⟨b, rfl, Nat.le_refl _, Or.inr rfl⟩

theorem accumLen_ok (buf : Bytes) (fuel b bend len : Nat) (h : bend ≤ buf.length) :
    ∃ v, accumLen buf fuel b bend len = some v := by
  induction fuel generalizing b len with
  | zero => exact ⟨len, rfl⟩
  | succ fuel ih =>
    rw [accumLen]
    by_cases hb : b < bend
    · rw [if_pos hb]
      have hlt : b < buf.length := by omega
      rw [List.getElem?_eq_getElem hlt]
      exact ih _ _
    · rw [if_neg hb]
      exact ⟨len, rfl⟩

/-- `oer_fetch_length` never reads outside `[bufptr, bufptr + size)` -/
theorem fetchLength_no_oob (buf : Bytes) : fetchLength buf ≠ .oob := by
  unfold fetchLength
  split
  · simp
  · rename_i hne
    have h0 : 0 < buf.length := by omega
    rw [List.getElem?_eq_getElem h0]
    simp only
    split
    · simp
    · split
      · simp
      · rename_i hsz
        obtain ⟨b', e, _, _⟩ := skipZeros_ok buf (buf[0] % 128) 1 (1 + buf[0] % 128) (by omega)
        rw [e]
        simp only
        split
        · simp
        · obtain ⟨v, ev⟩ := accumLen_ok buf (1 + buf[0] % 128 - b') b' (1 + buf[0] % 128) 0 (by omega)
          rw [ev]
          simp only
          split <;> simp

/-- … and never reports more octets consumed than it was given -/
theorem fetchLength_used_le (buf : Bytes) (len used : Nat) (h : fetchLength buf = .ok len used) :
    1 ≤ used ∧ used ≤ buf.length := by
  unfold fetchLength at h
  split at h
  · cases h
  · rename_i hne
    have h0 : 0 < buf.length := by omega
    rw [List.getElem?_eq_getElem h0] at h
    simp only at h
    split at h
    · simp only [LenRes.ok.injEq] at h; omega
    · split at h
      · cases h
      · rename_i hsz
        split at h
        · cases h
        · split at h
          · cases h
          · split at h
            · cases h
            · split at h
              · cases h
              · simp only [LenRes.ok.injEq] at h; omega

/-! ### `oer_fetch_length` inverts `oer_serialize_length`; `oer_serialize_length` is X.696 §8.6 -/

theorem sigOctets_spec (n : Nat) (h64 : n < 2 ^ 64) (h1 : 1 ≤ n) :
    ∃ k, k < 8 ∧ 256 ^ k ≤ n ∧ n < 256 ^ (k + 1) ∧ sigOctets n = k + 1 := by
  unfold sigOctets
  norm_num at h64 ⊢
  by_cases c7 : 72057594037927936 ≤ n
  · exact ⟨7, by omega, by omega, by omega, by ifomega⟩
  by_cases c6 : 281474976710656 ≤ n
  · exact ⟨6, by omega, by omega, by omega, by ifomega⟩
  by_cases c5 : 1099511627776 ≤ n
  · exact ⟨5, by omega, by omega, by omega, by ifomega⟩
  by_cases c4 : 4294967296 ≤ n
  · exact ⟨4, by omega, by omega, by omega, by ifomega⟩
  by_cases c3 : 16777216 ≤ n
  · exact ⟨3, by omega, by omega, by omega, by ifomega⟩
  by_cases c2 : 65536 ≤ n
  · exact ⟨2, by omega, by omega, by omega, by ifomega⟩
  by_cases c1 : 256 ≤ n
  · exact ⟨1, by omega, by omega, by omega, by ifomega⟩
  · exact ⟨0, by omega, by omega, by omega, by ifomega⟩

/-- the long form with exactly the significant octets of `n` is read back as `n` -/
theorem fetchLength_long (k n : Nat) (rest : Bytes) (hk : k < 8) (hlo : 256 ^ k ≤ n) (hhi : n < 256 ^ (k + 1))
    (hn : n ≤ 2 ^ 63 - 1) :
    fetchLength ((128 + (k + 1)) :: toBEn (k + 1) n ++ rest) = .ok n (k + 2) := by
  have : k = 0 ∨ k = 1 ∨ k = 2 ∨ k = 3 ∨ k = 4 ∨ k = 5 ∨ k = 6 ∨ k = 7 := by omega
  rcases this with h | h | h | h | h | h | h | h <;> subst h <;> norm_num at hlo hhi hn ⊢
  · have htop : ¬ (n % 256 = 0) := by omega
    simp [toBEn, fetchLength, skipZeros, accumLen, htop]
    ifomega
    simp; omega
  · have htop : ¬ (n / 256 % 256 = 0) := by omega
    simp [toBEn, fetchLength, skipZeros, accumLen, htop]
    ifomega
    simp; omega
  · have htop : ¬ (n / 65536 % 256 = 0) := by omega
    simp [toBEn, fetchLength, skipZeros, accumLen, htop]
    ifomega
    simp; omega
  · have htop : ¬ (n / 16777216 % 256 = 0) := by omega
    simp [toBEn, fetchLength, skipZeros, accumLen, htop]
    ifomega
    simp; omega
  · have htop : ¬ (n / 4294967296 % 256 = 0) := by omega
    simp [toBEn, fetchLength, skipZeros, accumLen, htop]
    ifomega
    simp; omega
  · have htop : ¬ (n / 1099511627776 % 256 = 0) := by omega
    simp [toBEn, fetchLength, skipZeros, accumLen, htop]
    ifomega
    simp; omega
  · have htop : ¬ (n / 281474976710656 % 256 = 0) := by omega
    simp [toBEn, fetchLength, skipZeros, accumLen, htop]
    ifomega
    simp; omega
  · have htop : ¬ (n / 72057594037927936 % 256 = 0) := by omega
    simp [toBEn, fetchLength, skipZeros, accumLen, htop]
    ifomega
    simp; omega

theorem fetchLength_serialize (n : Nat) (rest : Bytes) (hn : n ≤ 2 ^ 63 - 1) :
    fetchLength (serializeLength n ++ rest) = .ok n (serializeLength n).length := by
  unfold serializeLength
  split
  · rename_i h
    simp only [List.cons_append, List.nil_append, fetchLength, List.length_cons, List.length_nil]
    simp
    omega
  · rename_i h
    obtain ⟨k, hk, hlo, hhi, hs⟩ := sigOctets_spec n (by omega) (by omega)
    rw [hs, fetchLength_long k n rest hk hlo hhi hn]
    simp [Asn1c.Proofs.BerTlv.toBEn_length]

theorem serializeLength_eq_spec (n : Nat) (h : n < 2 ^ 64) : serializeLength n = Spec.Oer.length n := by
  unfold serializeLength Spec.Oer.length
  split
  · rfl
  · rename_i hn
    obtain ⟨k, _, h1, h2, h3⟩ := sigOctets_spec n h (by omega)
    rw [Asn1c.Proofs.BerTlv.toBE_eq_toBEn k n h1 h2, h3, Asn1c.Proofs.BerTlv.toBEn_length]

open Asn1c.Impl.Integer Asn1c.Spec Asn1c.Proofs.Integer

/-! ### INTEGER_oer.c -/

theorem stripZeros_ne_nil (bs : Bytes) (h : bs ≠ []) : stripZeros bs ≠ [] := by
  fun_induction stripZeros bs
  · rename_i b bs ih; exact ih (by simp)
  · exact h

theorem take_drop_ne_nil (buf : Bytes) (req off : Nat) (h0 : req ≠ 0) (h : ¬ req > buf.length - off) :
    (buf.drop off).take req ≠ [] := by
  intro e
  have := congrArg List.length e
  simp only [List.length_take, List.length_drop, List.length_nil] at this
  omega

/-- C04: `INTEGER_decode_oer` never reads outside its input (finding F5 repaired: a zero length determinant of a
    variable-size integer is rejected before the `msb` probe) -/
theorem intDecodeOer_no_oob (width : Nat) (positive : Bool) (buf : Bytes) :
    intDecodeOer width positive buf ≠ .oob := by
  unfold intDecodeOer
  simp only
  by_cases hw : width ≠ 0
  · rw [if_pos hw]
    intro h
    split at h
    · cases h
    · rename_i hreq
      split at h
      · split at h
        · rename_i e; exact stripZeros_ne_nil _ (take_drop_ne_nil buf width 0 hw hreq) e
        · cases h
      · cases h
  · rw [if_neg hw]
    cases hf : fetchLength buf with
    | more => simp
    | fail => simp
    | oob => exact absurd hf (fetchLength_no_oob buf)
    | ok len used =>
      simp only
      intro h
      split at h
      · cases h
      · rename_i hl0
        split at h
        · cases h
        · rename_i hreq
          split at h
          · split at h
            · rename_i e; exact stripZeros_ne_nil _ (take_drop_ne_nil buf len used hl0 hreq) e
            · cases h
          · cases h

/-- the former F5 witness (`INTEGER (0..MAX)`, OER input `00`) is now rejected -/
theorem intDecodeOer_zero_length_fails : intDecodeOer 0 true [0x00] = .fail := by decide


theorem twosVal_cons_ff (c : Nat) (cs : Bytes) (h : c ≥ 128) : twosVal (255 :: c :: cs) = twosVal (c :: cs) := by
  simp only [twosVal, List.length_cons]
  rw [if_neg (by omega), if_neg (by omega), ofBE_cons 255]
  simp only [List.length_cons]
  push_cast
  ring

theorem twosVal_cons_00 (c : Nat) (cs : Bytes) (h : c < 128) : twosVal (0 :: c :: cs) = twosVal (c :: cs) := by
  simp only [twosVal, List.length_cons]
  rw [if_pos (by omega), if_pos h, ofBE_cons 0]
  simp

/-- sign extension does not change the two's complement value -/
theorem twosVal_signext (m : Nat) (b : Nat) (bs : Bytes) :
    twosVal (List.replicate m (if b ≥ 128 then 255 else 0) ++ (b :: bs)) = twosVal (b :: bs) := by
  induction m generalizing b bs with
  | zero => simp
  | succ m ih =>
    rw [List.replicate_succ', List.append_assoc]
    simp only [List.singleton_append]
    by_cases hb : b ≥ 128
    · rw [if_pos hb]
      have := ih 255 (b :: bs)
      rw [if_pos (by omega)] at this
      rw [this, twosVal_cons_ff b bs hb]
    · rw [if_neg hb]
      have := ih 0 (b :: bs)
      rw [if_neg (by omega)] at this
      rw [this, twosVal_cons_00 b bs (by omega)]

/-- the strip loop keeps the sign octet's sign -/
theorem strip_sign (b : Nat) (bs : Bytes) :
    ∃ c cs, strip (b :: bs) = c :: cs ∧ (c ≥ 128 ↔ b ≥ 128) := by
  induction bs generalizing b with
  | nil => exact ⟨b, [], by simp [strip], Iff.rfl⟩
  | cons x xs ih =>
    by_cases h0 : b = 0
    · subst h0
      by_cases hx : x < 128
      · obtain ⟨c, cs, e, s⟩ := ih x
        refine ⟨c, cs, ?_, ?_⟩
        · rw [strip, if_pos hx, e]
        · rw [s]; omega
      · exact ⟨0, x :: xs, by rw [strip, if_neg hx], Iff.rfl⟩
    · by_cases h255 : b = 255
      · subst h255
        by_cases hx : x ≥ 128
        · obtain ⟨c, cs, e, s⟩ := ih x
          refine ⟨c, cs, ?_, ?_⟩
          · rw [strip, if_pos hx, e]
          · rw [s]; omega
        · refine ⟨255, x :: xs, ?_, Iff.rfl⟩
          rw [strip, if_neg hx]
      · refine ⟨b, x :: xs, ?_, Iff.rfl⟩
        rw [strip]
        · intro b' bs' hh; simp only [List.cons.injEq] at hh; omega
        · intro b' bs' hh; simp only [List.cons.injEq] at hh; omega


theorem stripZeros_spec (bs : Bytes) (h : bs.wf) (hne : bs ≠ []) :
    (stripZeros bs).wf ∧ stripZeros bs ≠ [] ∧ Spec.Oer.MinimalUns (stripZeros bs) ∧
    unsVal (stripZeros bs) = unsVal bs ∧ (stripZeros bs).length ≤ bs.length := by
  fun_induction stripZeros bs
  · rename_i b bs ih
    obtain ⟨a1, a2, a3, a4, a5⟩ := ih (wf_tail h) (by simp)
    refine ⟨a1, a2, a3, ?_, by simp only [List.length_cons] at *; omega⟩
    rw [a4]; unfold unsVal; rw [ofBE_cons 0]; simp
  · rename_i bs hno
    refine ⟨h, hne, ?_, rfl, Nat.le_refl _⟩
    unfold Spec.Oer.MinimalUns
    split
    · rename_i b rest; exact hno b rest rfl
    · trivial

theorem unsVal_zeros (m : Nat) (bs : Bytes) : unsVal (List.replicate m 0 ++ bs) = unsVal bs := by
  induction m with
  | zero => simp
  | succ m ih =>
    rw [List.replicate_succ, List.cons_append]
    unfold unsVal at *
    rw [ofBE_cons 0, ih]; simp

theorem twosVal_of_head_lt (b : Nat) (bs : Bytes) (h : b < 128) : twosVal (b :: bs) = unsVal (b :: bs) := by
  simp only [twosVal, unsVal]; rw [if_pos h]

theorem twosVal_zero_cons (bs : Bytes) : twosVal (0 :: bs) = unsVal bs := by
  simp only [twosVal, unsVal]; rw [if_pos (by omega), ofBE_cons 0]; simp

theorem wf_append {a b : Bytes} (ha : a.wf) (hb : b.wf) : Bytes.wf (a ++ b) := by
  intro x hx
  rcases List.mem_append.1 hx with h | h
  · exact ha x h
  · exact hb x h

theorem wf_replicate (m v : Nat) (hv : v < 256) : Bytes.wf (List.replicate m v) := by
  intro x hx
  rw [List.mem_replicate] at hx
  omega

/-- C02: what `INTEGER_encode_oer` emits, by shape -/
theorem intEncodeOer_signed (width : Nat) (st : Bytes) (h : st.wf) (hne : st ≠ []) (hlen : st.length < 2 ^ 64) :
    (width = 0 → ∃ out, intEncodeOer 0 false st = some out ∧ Spec.Oer.IsVarSigned (twosVal st) out) ∧
    (width ≠ 0 → (strip st).length ≤ width →
      ∃ out, intEncodeOer width false st = some out ∧ Spec.Oer.IsFixedSigned width (twosVal st) out) ∧
    (width ≠ 0 → width < (strip st).length → intEncodeOer width false st = none) := by
  match st, hne with
  | b0 :: rest, _ =>
    have hsv := strip_val (b0 :: rest) h
    have hsw := strip_wf (b0 :: rest) h
    have hsn := strip_ne_nil (b0 :: rest) (by simp)
    have hsm := strip_minimal (b0 :: rest)
    have hsl := strip_length_le (b0 :: rest)
    refine ⟨?_, ?_, ?_⟩
    · intro _
      refine ⟨_, ?_, strip (b0 :: rest), hsw, hsn, hsm, hsv, rfl⟩
      simp only [intEncodeOer, Bool.false_eq_true, false_and, if_false, ne_eq, not_true_eq_false,
        Nat.lt_irrefl, Nat.sub_self, List.replicate_zero, List.append_nil]
      rw [serializeLength_eq_spec _ (by omega)]
    · intro hw hle
      obtain ⟨c, cs, e, hs⟩ := strip_sign b0 rest
      refine ⟨List.replicate (width - (strip (b0 :: rest)).length) (if b0 ≥ 128 then 255 else 0) ++ strip (b0 :: rest), ?_, ?_, ?_, ?_⟩
      · simp only [intEncodeOer, Bool.false_eq_true, false_and, if_false, ne_eq, hw, not_false_eq_true, if_true,
          List.nil_append]
        rw [if_neg (by omega)]
      · apply wf_append _ hsw
        apply wf_replicate; split <;> omega
      · simp only [List.length_append, List.length_replicate]; omega
      · rw [e]
        have : (if b0 ≥ 128 then 255 else 0) = (if c ≥ 128 then 255 else 0) := by
          by_cases hb : b0 ≥ 128
          · rw [if_pos hb, if_pos (hs.2 hb)]
          · rw [if_neg hb, if_neg (fun hc => hb (hs.1 hc))]
        rw [this, twosVal_signext, ← e, hsv]
    · intro hw hlt
      simp only [intEncodeOer, Bool.false_eq_true, false_and, if_false, ne_eq, hw, not_false_eq_true, if_true]
      rw [if_pos hlt]

theorem intEncodeOer_unsigned (width : Nat) (st : Bytes) (h : st.wf) (hne : st ≠ []) (hlen : st.length < 2 ^ 64) :
    (twosVal st < 0 → intEncodeOer width true st = none) ∧
    (0 ≤ twosVal st → width = 0 → ∃ out, intEncodeOer 0 true st = some out ∧ Spec.Oer.IsVarUnsigned (twosVal st) out) ∧
    (0 ≤ twosVal st → width ≠ 0 → (stripZeros st).length ≤ width →
      ∃ out, intEncodeOer width true st = some out ∧ Spec.Oer.IsFixedUnsigned width (twosVal st) out) ∧
    (0 ≤ twosVal st → width ≠ 0 → width < (stripZeros st).length → intEncodeOer width true st = none) := by
  match st, hne with
  | b0 :: rest, _ =>
    obtain ⟨z1, z2, z3, z4, z5⟩ := stripZeros_spec (b0 :: rest) h (by simp)
    have hb0 : b0 < 256 := h b0 (by simp)
    have hsign : twosVal (b0 :: rest) < 0 ↔ b0 ≥ 128 := by
      have hlt := ofBE_lt (b0 :: rest) h
      have hge : b0 ≥ 128 → 128 * 256 ^ rest.length ≤ ofBE 0 (b0 :: rest) := by
        intro hh; rw [ofBE_cons]
        have := Nat.mul_le_mul_right (256 ^ rest.length) hh
        omega
      simp only [twosVal]
      constructor
      · intro hneg
        by_cases c : b0 < 128
        · rw [if_pos c] at hneg; omega
        · omega
      · intro hh
        rw [if_neg (by omega)]
        simp only [List.length_cons] at hlt
        have : ((ofBE 0 (b0 :: rest) : Nat) : Int) < (256 : Int) ^ (rest.length + 1) := by exact_mod_cast hlt
        omega
    refine ⟨?_, ?_, ?_, ?_⟩
    · intro hneg
      have := hsign.1 hneg
      simp only [intEncodeOer, true_and]
      rw [if_pos (by simpa using this)]
    · intro hnn _
      have hb : ¬ b0 ≥ 128 := fun hh => by have := hsign.2 hh; omega
      refine ⟨_, ?_, stripZeros (b0 :: rest), z1, z2, z3, ?_, rfl⟩
      · simp only [intEncodeOer, true_and, if_true, ne_eq, not_true_eq_false, if_false, Nat.lt_irrefl,
          Nat.sub_self, List.replicate_zero, List.append_nil]
        rw [if_neg (by simpa using hb), serializeLength_eq_spec _ (by omega)]
      · rw [z4, twosVal_nonneg _ h hnn]
    · intro hnn hw hle
      have hb : ¬ b0 ≥ 128 := fun hh => by have := hsign.2 hh; omega
      refine ⟨List.replicate (width - (stripZeros (b0 :: rest)).length) 0 ++ stripZeros (b0 :: rest), ?_, ?_, ?_, ?_⟩
      · simp only [intEncodeOer, true_and, if_true, ne_eq, hw, not_false_eq_true, List.nil_append]
        rw [if_neg (by simpa using hb), if_neg (by omega)]
        simp [hb]
      · exact wf_append (wf_replicate _ _ (by omega)) z1
      · simp only [List.length_append, List.length_replicate]; omega
      · rw [unsVal_zeros, z4, twosVal_nonneg _ h hnn]
    · intro hnn hw hlt
      have hb : ¬ b0 ≥ 128 := fun hh => by have := hsign.2 hh; omega
      simp only [intEncodeOer, true_and, if_true, ne_eq, hw, not_false_eq_true]
      rw [if_neg (by simpa using hb), if_pos hlt]


/-- the octets `INTEGER_decode_oer` stores for the wire octets `body` (F36 repaired): without the superfluous leading
    octets; an unsigned value whose top bit is set gets a 0 in front -/
def oerContent (positive : Bool) (body : Bytes) : Bytes :=
  if positive then (if (stripZeros body).headD 0 / 128 % 2 = 1 then [0] else []) ++ stripZeros body
  else strip body

theorem intDecodeOer_fixed (width : Nat) (positive : Bool) (out rest : Bytes) (hw : width ≠ 0) (hl : out.length = width) :
    intDecodeOer width positive (out ++ rest) = .ok (oerContent positive out) width := by
  unfold intDecodeOer oerContent
  simp only
  rw [if_pos hw, if_neg (by rw [List.length_append]; omega)]
  have ht : ((out ++ rest).drop 0).take width = out := by rw [List.drop_zero, ← hl, List.take_left']; rfl
  rw [ht]
  have hne : out ≠ [] := by intro e; rw [e] at hl; simp at hl; omega
  cases positive with
  | false => simp
  | true =>
    simp only [if_true]
    have := stripZeros_ne_nil out hne
    match hz : stripZeros out, this with
    | b :: bs, _ => simp

theorem intDecodeOer_var (positive : Bool) (body rest : Bytes) (hne : body ≠ []) (hl : body.length ≤ 2 ^ 63 - 1) :
    intDecodeOer 0 positive (Spec.Oer.length body.length ++ body ++ rest)
      = .ok (oerContent positive body) ((Spec.Oer.length body.length).length + body.length) := by
  rw [← serializeLength_eq_spec _ (by omega)]
  unfold intDecodeOer oerContent
  simp only
  rw [if_neg (by omega), List.append_assoc, fetchLength_serialize _ _ hl]
  have hl0 : ¬ body.length = 0 := by
    cases body with
    | nil => exact absurd rfl hne
    | cons _ _ => simp
  simp only [if_neg hl0]
  rw [if_neg (by simp only [List.length_append]; omega)]
  have hd : (serializeLength body.length ++ (body ++ rest)).drop (serializeLength body.length).length = body ++ rest := by
    rw [List.drop_left']; rfl
  have ht : (body ++ rest).take body.length = body := by rw [List.take_left']; rfl
  rw [hd, ht]
  cases positive with
  | false => simp
  | true =>
    simp only [if_true]
    have := stripZeros_ne_nil body hne
    match hz : stripZeros body, this with
    | b :: bs, _ => simp

theorem twosVal_oerContent_signed (body : Bytes) (h : body.wf) : twosVal (oerContent false body) = twosVal body := by
  simp only [oerContent, Bool.false_eq_true, if_false]
  exact strip_val body h

theorem twosVal_oerContent_unsigned (body : Bytes) (h : body.wf) (hne : body ≠ []) :
    twosVal (oerContent true body) = unsVal body := by
  obtain ⟨z1, z2, _, z4, _⟩ := stripZeros_spec body h hne
  unfold oerContent
  simp only [if_true]
  rw [← z4]
  match hz : stripZeros body, z2 with
  | b :: bs, _ =>
    have hb : b < 256 := by rw [hz] at z1; exact z1 b (by simp)
    by_cases c : b / 128 % 2 = 1
    · simp only [List.headD_cons, c, if_true, List.singleton_append]; exact twosVal_zero_cons _
    · simp only [List.headD_cons, c, if_false, List.nil_append]; exact twosVal_of_head_lt b bs (by omega)

theorem oerContent_wf (positive : Bool) (body : Bytes) (h : body.wf) (hne : body ≠ []) : (oerContent positive body).wf := by
  unfold oerContent
  split
  · apply wf_append _ (stripZeros_spec body h hne).1
    split
    · intro x hx; simp at hx; omega
    · intro x hx; simp at hx
  · exact strip_wf body h

theorem oerContent_ne_nil (positive : Bool) (body : Bytes) (hne : body ≠ []) : oerContent positive body ≠ [] := by
  unfold oerContent
  split
  · intro e
    exact stripZeros_ne_nil body hne (List.append_eq_nil_iff.1 e).2
  · exact strip_ne_nil body hne

/-- F36 repaired: what `INTEGER_decode_oer` stores is in the minimal form of X.690 §8.3.2 (the form
    `INTEGER_compare` assumes and every other decoder / `asn_long2INTEGER` produces) -/
theorem oerContent_minimal (positive : Bool) (body : Bytes) (h : body.wf) (hne : body ≠ []) :
    MinimalTwos (oerContent positive body) := by
  unfold oerContent
  split
  · obtain ⟨z1, z2, z3, _, _⟩ := stripZeros_spec body h hne
    match hz : stripZeros body, z2 with
    | [b], _ =>
      by_cases c : b / 128 % 2 = 1
      · simp only [List.headD_cons, c, if_true, List.singleton_append, MinimalTwos]; omega
      · simp only [List.headD_cons, c, if_false, List.nil_append]
        unfold MinimalTwos
        split
        · rename_i e; simp at e
        · rename_i e; simp at e
        · trivial
    | b :: b2 :: bs, _ =>
      have hb : b < 256 := by rw [hz] at z1; exact z1 b (by simp)
      have hb0 : b ≠ 0 := by
        intro e; rw [hz, e] at z3; exact z3
      by_cases c : b / 128 % 2 = 1
      · simp only [List.headD_cons, c, if_true, List.singleton_append, MinimalTwos]; omega
      · simp only [List.headD_cons, c, if_false, List.nil_append]
        unfold MinimalTwos
        split
        · rename_i e; simp only [List.cons.injEq] at e; omega
        · rename_i e; simp only [List.cons.injEq] at e; omega
        · trivial
  · exact strip_minimal body

/-- the explicit octets produced by `INTEGER_encode_oer` -/
theorem intEncodeOer_eq (width : Nat) (positive : Bool) (b0 : Nat) (r : Bytes) :
    intEncodeOer width positive (b0 :: r) =
      if positive = true ∧ b0 ≥ 128 then none
      else
        let buf := if positive then stripZeros (b0 :: r) else strip (b0 :: r)
        if width = 0 then some (serializeLength buf.length ++ buf)
        else if width < buf.length then none
        else some (List.replicate (width - buf.length) (if b0 ≥ 128 then 255 else 0) ++ buf) := by
  simp only [intEncodeOer]
  by_cases c : positive = true ∧ b0 ≥ 128
  · rw [if_pos (by simpa using c), if_pos c]
  · rw [if_neg (by simpa using c), if_neg c]
    generalize (if positive = true then stripZeros (b0 :: r) else strip (b0 :: r)) = buf
    by_cases hw : width = 0
    · subst hw; simp
    · simp only [ne_eq, hw, not_false_eq_true, if_true, if_false, List.nil_append]

/-- C01: `INTEGER_decode_oer` reads back what `INTEGER_encode_oer` wrote, under the same `(width, positive)`:
    same value, in the minimal form of X.690 §8.3.2 (F36 repaired), exactly the produced octets consumed,
    whatever follows -/
theorem intDecodeOer_intEncodeOer (width : Nat) (positive : Bool) (st out rest : Bytes) (h : st.wf)
    (hlen : st.length ≤ 2 ^ 63 - 1) (he : intEncodeOer width positive st = some out) :
    ∃ c, intDecodeOer width positive (out ++ rest) = .ok c out.length ∧ c.wf ∧ c ≠ [] ∧ MinimalTwos c ∧
      twosVal c = twosVal st := by
  match st, h, hlen, he with
  | [], _, _, he => simp [intEncodeOer] at he
  | b0 :: r, h, hlen, he =>
    rw [intEncodeOer_eq] at he
    by_cases c : positive = true ∧ b0 ≥ 128
    · rw [if_pos c] at he; cases he
    · rw [if_neg c] at he
      simp only at he
      -- the stripped contents and their value
      have hbuf : ∃ buf : Bytes, (if positive then stripZeros (b0 :: r) else strip (b0 :: r)) = buf ∧ buf.wf ∧ buf ≠ [] ∧
          buf.length ≤ (b0 :: r).length ∧
          (positive = false → twosVal buf = twosVal (b0 :: r) ∧ ∃ c cs, buf = c :: cs ∧ (c ≥ 128 ↔ b0 ≥ 128)) ∧
          (positive = true → (unsVal buf : Int) = twosVal (b0 :: r)) := by
        cases positive with
        | false =>
          refine ⟨strip (b0 :: r), by simp, strip_wf _ h, strip_ne_nil _ (by simp), strip_length_le _, ?_, by simp⟩
          intro _
          exact ⟨strip_val _ h, strip_sign b0 r⟩
        | true =>
          obtain ⟨z1, z2, z3, z4, z5⟩ := stripZeros_spec (b0 :: r) h (by simp)
          refine ⟨stripZeros (b0 :: r), by simp, z1, z2, z5, by simp, ?_⟩
          intro _
          have hb : b0 < 128 := by
            have : ¬ b0 ≥ 128 := fun hh => c ⟨rfl, hh⟩
            omega
          rw [z4, twosVal_of_head_lt b0 r hb]
      obtain ⟨buf, ebuf, bw, bne, bl, bs, bu⟩ := hbuf
      rw [ebuf] at he
      by_cases hw : width = 0
      · rw [if_pos hw] at he
        have he' : serializeLength buf.length ++ buf = out := by simpa using he
        subst hw
        rw [← he', serializeLength_eq_spec _ (by omega)]
        have hd := intDecodeOer_var positive buf rest bne (by omega)
        rw [hd]
        refine ⟨oerContent positive buf, ?_, oerContent_wf _ _ bw bne, oerContent_ne_nil _ _ bne, oerContent_minimal _ _ bw bne, ?_⟩
        · simp [List.length_append]
        · cases positive with
          | false => rw [twosVal_oerContent_signed _ bw]; exact (bs rfl).1
          | true => rw [twosVal_oerContent_unsigned _ bw bne]; exact bu rfl
      · rw [if_neg hw] at he
        by_cases hlt : width < buf.length
        · rw [if_pos hlt] at he; cases he
        · rw [if_neg hlt] at he
          have hout : List.replicate (width - buf.length) (if b0 ≥ 128 then 255 else 0) ++ buf = out := by simpa using he
          have hol : out.length = width := by
            rw [← hout]; simp only [List.length_append, List.length_replicate]; omega
          rw [intDecodeOer_fixed width positive out rest hw hol]
          have how : out.wf := by
            rw [← hout]
            apply wf_append _ bw
            apply wf_replicate; split <;> omega
          have hone : out ≠ [] := by intro e; rw [e] at hol; simp at hol; omega
          refine ⟨oerContent positive out, by rw [hol], oerContent_wf _ _ how hone, oerContent_ne_nil _ _ hone,
            oerContent_minimal _ _ how hone, ?_⟩
          cases positive with
          | false =>
            rw [twosVal_oerContent_signed _ how, ← hout]
            obtain ⟨hv, c', cs, ec, hs⟩ := bs rfl
            rw [ec]
            have : (if b0 ≥ 128 then 255 else 0) = (if c' ≥ 128 then 255 else 0) := by
              by_cases hb : b0 ≥ 128
              · rw [if_pos hb, if_pos (hs.2 hb)]
              · rw [if_neg hb, if_neg (fun hc => hb (hs.1 hc))]
            rw [this, twosVal_signext, ← ec, hv]
          | true =>
            rw [twosVal_oerContent_unsigned _ how hone, ← hout]
            have hb : ¬ b0 ≥ 128 := fun hh => c ⟨rfl, hh⟩
            rw [if_neg hb, unsVal_zeros]
            exact bu rfl

/-- F36 repaired: whatever octets `INTEGER_decode_oer` accepts (canonical or not), the contents it stores are
    non-empty and in the minimal form of X.690 §8.3.2, and it consumed no more than it was given -/
theorem intDecodeOer_minimal (width : Nat) (positive : Bool) (buf c : Bytes) (used : Nat) (hb : buf.wf)
    (h : intDecodeOer width positive buf = .ok c used) : c ≠ [] ∧ MinimalTwos c ∧ c.wf := by
  have key : ∀ req off, req ≠ 0 → ¬ req > buf.length - off →
      ∀ body, body = (buf.drop off).take req → c = oerContent positive body → c ≠ [] ∧ MinimalTwos c ∧ c.wf := by
    intro req off h0 hreq body eb ec
    have bne : body ≠ [] := by rw [eb]; exact take_drop_ne_nil buf req off h0 hreq
    have bw : Bytes.wf body := by
      rw [eb]; intro x hx
      exact hb x (List.mem_of_mem_drop (List.mem_of_mem_take hx))
    rw [ec]
    exact ⟨oerContent_ne_nil _ _ bne, oerContent_minimal _ _ bw bne, oerContent_wf _ _ bw bne⟩
  have goEq : ∀ req off, req ≠ 0 →
      (if req > buf.length - off then IntRes.more
       else if positive = true then
         match stripZeros ((buf.drop off).take req) with
         | [] => IntRes.oob
         | b :: bs => IntRes.ok ((if b / 128 % 2 = 1 then [0] else []) ++ b :: bs) (off + req)
       else IntRes.ok (strip ((buf.drop off).take req)) (off + req)) = .ok c used →
      c ≠ [] ∧ MinimalTwos c ∧ c.wf := by
    intro req off h0 hh
    split at hh
    · cases hh
    · rename_i hreq
      refine key req off h0 hreq _ rfl ?_
      unfold oerContent
      split at hh
      · rename_i hp
        rw [if_pos hp]
        split at hh
        · cases hh
        · rename_i b bs e
          rw [e]
          simp only [IntRes.ok.injEq] at hh
          simp only [List.headD_cons]
          exact hh.1.symm
      · rename_i hp
        rw [if_neg hp]
        simp only [IntRes.ok.injEq] at hh
        exact hh.1.symm
  unfold intDecodeOer at h
  simp only at h
  by_cases hw : width ≠ 0
  · rw [if_pos hw] at h
    exact goEq width 0 hw h
  · rw [if_neg hw] at h
    cases hf : fetchLength buf with
    | more => rw [hf] at h; cases h
    | fail => rw [hf] at h; cases h
    | oob => rw [hf] at h; cases h
    | ok len u =>
      rw [hf] at h
      simp only at h
      split at h
      · cases h
      · rename_i hl0
        exact goEq len u hl0 h

/-- the former F36 witness: `INTEGER (-2147483648..4294967294)` (8 octets, signed) holding -2147483648 is stored as
    `80000000`, the contents `asn_long2INTEGER` / the DER decoder produce, so `INTEGER_compare` answers 0 -/
theorem intDecodeOer_F36_witness :
    intDecodeOer 8 false [0xff, 0xff, 0xff, 0xff, 0x80, 0x00, 0x00, 0x00] = .ok [0x80, 0x00, 0x00, 0x00] 8 ∧
    Asn1c.Impl.Integer.compare [0x80, 0x00, 0x00, 0x00] (imax2INTEGER (-2147483648)) = some 0 := by decide

end Asn1c.Proofs.OerSupport
