import Asn1cModel.Impl.WfDescr
/-  Helper lemmas for Props/C10: what `WfDescr` gives to the codecs.  Core Lean only. -/
namespace Asn1c.Proofs.WfDescr
open Asn1c.Impl.WfDescr

theorem runLengths_length (bs : List Bool) : (runLengths bs).length = bs.length := by
  induction bs with
  | nil => rfl
  | cons b bs ih => simp [runLengths, ih]

theorem runLengths_head_le (bs : List Bool) : (runLengths bs).headD 0 ≤ bs.length := by
  induction bs with
  | nil => simp [runLengths]
  | cons b bs ih =>
    simp only [runLengths, List.headD_cons, List.length_cons]
    split <;> omega

/-- position `i` + its run length stays inside the list -/
theorem runLengths_bound (bs : List Bool) (i : Nat) (h : i < (runLengths bs).length) :
    i + (runLengths bs)[i] ≤ bs.length := by
  induction bs generalizing i with
  | nil => simp [runLengths] at h
  | cons b bs ih =>
    cases i with
    | zero =>
      have := runLengths_head_le bs
      simp only [runLengths, List.getElem_cons_zero, List.length_cons]
      split <;> omega
    | succ j =>
      have hj : j < (runLengths bs).length := by simpa [runLengths] using h
      have := ih j hj
      simp only [runLengths, List.getElem_cons_succ, List.length_cons]
      omega

theorem isSubseq_sublist (xs ys : List Tag) (h : isSubseq xs ys = true) : xs.Sublist ys := by
  induction ys generalizing xs with
  | nil =>
    cases xs with
    | nil => exact List.Sublist.slnil
    | cons x xs => simp [isSubseq] at h
  | cons y ys ih =>
    cases xs with
    | nil => exact List.nil_sublist _
    | cons x xs =>
      unfold isSubseq at h
      by_cases hxy : x = y
      · subst hxy
        simp only [if_true] at h
        exact List.Sublist.cons₂ _ (ih xs h)
      · simp only [hxy, if_false] at h
        exact List.Sublist.cons _ (ih (x :: xs) h)

theorem isPermInverse_roundtrip (n : Nat) (to frm : List Nat) (h : isPermInverse n to frm = true)
    (i : Nat) (hi : i < n) :
    (∃ j, to[i]? = some j ∧ frm[j]? = some i) ∧ (∃ j, frm[i]? = some j ∧ to[j]? = some i) := by
  unfold isPermInverse at h
  simp only [Bool.and_eq_true, List.all_eq_true, List.mem_range] at h
  obtain ⟨⟨⟨_, _⟩, h1⟩, h2⟩ := h
  constructor
  · have := h1 i hi
    cases ht : to[i]? with
    | none => simp [ht] at this
    | some j => simp [ht] at this; exact ⟨j, rfl, this⟩
  · have := h2 i hi
    cases hf : frm[i]? with
    | none => simp [hf] at this
    | some j => simp [hf] at this; exact ⟨j, rfl, this⟩

end Asn1c.Proofs.WfDescr
