import Asn1cModel.Impl.Application
import Asn1cModel.Spec.EncoderApi
/- Helper lemmas for C07 (asn_application.c).  Property theorems live in Props/C07.lean. -/
namespace Asn1c.Proofs.Application
open Asn1c Asn1c.Impl.Application Asn1c.Spec.EncoderApi

/-! ### callbacks that never fail -/

def NeverFails {σ : Type} (cb : Callback σ) : Prop := ∀ s c, (cb s c).2 = true

/-- state after a never-failing callback has seen `chunks` -/
def foldCb {σ : Type} (cb : Callback σ) (s : σ) (chunks : List Bytes) : σ :=
  chunks.foldl (fun s c => (cb s c).1) s

@[simp] theorem foldCb_nil {σ : Type} (cb : Callback σ) (s : σ) : foldCb cb s [] = s := rfl
@[simp] theorem foldCb_cons {σ : Type} (cb : Callback σ) (s : σ) (c : Bytes) (cs : List Bytes) :
    foldCb cb s (c :: cs) = foldCb cb (cb s c).1 cs := rfl

theorem foldCb_append {σ : Type} (cb : Callback σ) (s : σ) (a b : List Bytes) :
    foldCb cb s (a ++ b) = foldCb cb (foldCb cb s a) b := by
  simp [foldCb, List.foldl_append]

theorem run_neverFails {σ : Type} (cb : Callback σ) (h : NeverFails cb) (e : Enc) (s : σ) :
    e.run cb s = (foldCb cb s e.trace, e.result) := by
  induction e generalizing s with
  | ret o => rfl
  | emit c k f ihk _ =>
    simp only [Enc.run, h s c, if_true, Enc.trace, Enc.result, foldCb_cons]
    exact ihk _

theorem recordCb_neverFails : NeverFails recordCb := fun _ _ => rfl

theorem foldCb_record (acc chunks : List Bytes) : foldCb recordCb acc chunks = acc ++ chunks := by
  induction chunks generalizing acc with
  | nil => simp
  | cons c cs ih => simp [ih, recordCb]

theorem total_nil : total [] = 0 := rfl
theorem total_cons (c : Bytes) (cs : List Bytes) : total (c :: cs) = c.length + total cs := by
  simp [total]
theorem total_append (a b : List Bytes) : total (a ++ b) = total a + total b := by
  simp [total]
theorem total_eq_flatten_length (cs : List Bytes) : total cs = cs.flatten.length := by
  induction cs with
  | nil => rfl
  | cons c cs ih => simp [total_cons, ih]

theorem countBytes_neverFails {σ : Type} (cb : Callback σ) (h : NeverFails cb) : NeverFails (countBytesCb cb) := by
  intro s c; simp [countBytesCb, h s.1 c]

theorem foldCb_countBytes {σ : Type} (cb : Callback σ) (h : NeverFails cb) (s : σ) (n : Nat) (chunks : List Bytes) :
    foldCb (countBytesCb cb) (s, n) chunks = (foldCb cb s chunks, n + total chunks) := by
  induction chunks generalizing s n with
  | nil => simp [total_nil]
  | cons c cs ih =>
    simp only [foldCb_cons, countBytesCb, h s c, if_true, total_cons]
    rw [ih]; simp [Nat.add_assoc]


/-! ### asn_encode_internal against a never-failing callback: explicit description -/

def stdDescr (enc : Option Enc) : List Bytes × Rval :=
  match enc with
  | none => ([], ⟨-1, some .ENOENT⟩)
  | some e =>
    match e.result with
    | .ok n => (e.trace, ⟨(n : Int), none⟩)
    | .fail b => (e.trace, ⟨-1, some (errnoOfBlame b)⟩)

/-- (chunks delivered, value returned) by `asn_encode_internal` when the callback accepts everything -/
def descr (syn : Syntax) (ops : Option TypeOps) : List Bytes × Rval :=
  match ops with
  | none => ([], ⟨-1, some .EINVAL⟩)
  | some ops =>
    match syn with
    | .plaintext =>
      match ops.print with
      | none => ([], ⟨-1, some .ENOENT⟩)
      | some e =>
        match e.result with
        | .fail _ => (e.trace, ⟨-1, some .EBADF⟩)
        | .ok _ => (e.trace ++ [[10]], ⟨((total e.trace + 1 : Nat) : Int), none⟩)
    | .random => ([], ⟨-1, some .ENOENT⟩)
    | .ber | .der => stdDescr ops.der
    | .cer => ([], ⟨-1, some .ENOENT⟩)
    | .basicOer | .canonicalOer => stdDescr ops.oer
    | .basicUper | .canonicalUper =>
      match ops.uper with
      | none => ([], ⟨-1, some .ENOENT⟩)
      | some e =>
        match e.result with
        | .fail b => (e.trace, ⟨-1, some (errnoOfBlame b)⟩)
        | .ok bits =>
          if bits = 0 then (e.trace ++ [[0]], ⟨1, none⟩) else (e.trace, ⟨(((bits + 7) / 8 : Nat) : Int), none⟩)
    | .basicXer | .canonicalXer => stdDescr (ops.xer.map (· (xerFlags syn)))
    | .invalid => ([], ⟨-1, some .ENOENT⟩)

theorem stdBranch_neverFails {σ : Type} (cb : Callback σ) (h : NeverFails cb) (enc : Option Enc) (s : σ) :
    stdBranch cb s enc = (foldCb cb s (stdDescr enc).1, (stdDescr enc).2) := by
  cases enc with
  | none => rfl
  | some e =>
    simp only [stdBranch, stdDescr, run_neverFails cb h]
    cases e.result <;> rfl

theorem internal_eq_descr {σ : Type} (cb : Callback σ) (h : NeverFails cb) (syn : Syntax) (ops : Option TypeOps) (s : σ) :
    asnEncodeInternal syn ops cb s = (foldCb cb s (descr syn ops).1, (descr syn ops).2) := by
  cases ops with
  | none => rfl
  | some ops =>
    cases syn
    case plaintext =>
      simp only [asnEncodeInternal, descr]
      cases hp : ops.print with
      | none => rfl
      | some e =>
        simp only [run_neverFails _ (countBytes_neverFails cb h), foldCb_countBytes cb h]
        cases e.result with
        | fail b => rfl
        | ok n =>
          have h10 := h (foldCb cb s e.trace) [10]
          simp [countBytesCb, h10, foldCb_append]
    case basicUper =>
      simp only [asnEncodeInternal, descr]
      cases hp : ops.uper with
      | none => rfl
      | some e =>
        simp only [run_neverFails cb h]
        cases e.result with
        | fail b => rfl
        | ok bits =>
          have h0 := h (foldCb cb s e.trace) [0]
          by_cases hb : bits = 0
          · simp [hb, h0, foldCb_append]
          · simp [hb]
    case canonicalUper =>
      simp only [asnEncodeInternal, descr]
      cases hp : ops.uper with
      | none => rfl
      | some e =>
        simp only [run_neverFails cb h]
        cases e.result with
        | fail b => rfl
        | ok bits =>
          have h0 := h (foldCb cb s e.trace) [0]
          by_cases hb : bits = 0
          · simp [hb, h0, foldCb_append]
          · simp [hb]
    all_goals first | rfl | exact stdBranch_neverFails cb h _ s

theorem delivered_eq (syn : Syntax) (ops : Option TypeOps) : delivered syn ops = (descr syn ops).1 := by
  unfold delivered
  rw [internal_eq_descr recordCb recordCb_neverFails, foldCb_record]; simp

theorem reported_eq (syn : Syntax) (ops : Option TypeOps) : reported syn ops = (descr syn ops).2 := by
  unfold reported
  rw [internal_eq_descr recordCb recordCb_neverFails]

/-- `asn_encode_internal` with any callback that never fails: the callback sees `delivered`, the call returns `reported` -/
theorem internal_neverFails {σ : Type} (cb : Callback σ) (h : NeverFails cb) (syn : Syntax) (ops : Option TypeOps) (s : σ) :
    asnEncodeInternal syn ops cb s = (foldCb cb s (delivered syn ops), reported syn ops) := by
  rw [internal_eq_descr cb h, delivered_eq, reported_eq]


/-! ### overrun_encoder_cb -/

theorem writeAt_append (w r c : Bytes) : writeAt (w ++ r) w.length c = w ++ c ++ r.drop c.length := by
  simp [writeAt, List.drop_append]

theorem overrunCb_neverFails : NeverFails overrunCb := by
  intro s c; unfold overrunCb; split <;> rfl

/-- after the first overflow (`buffer_size = 0`, `computed_size > 0`) nothing is ever copied again -/
theorem overrun_dead (m : Bytes) (comp hi : Nat) (h : 0 < comp) (chunks : List Bytes) :
    foldCb overrunCb ⟨m, 0, comp, hi⟩ chunks = ⟨m, 0, comp + total chunks, hi⟩ := by
  induction chunks generalizing comp with
  | nil => simp [total_nil]
  | cons c cs ih =>
    have : comp + c.length > 0 := by omega
    simp only [foldCb_cons, overrunCb, this, if_true]
    rw [ih _ (by omega), total_cons]; simp [Nat.add_assoc]

theorem fitChunks_length_le (n acc : Nat) (chunks : List Bytes) (h : acc ≤ n) :
    acc + (fitChunks n acc chunks).flatten.length ≤ n := by
  induction chunks generalizing acc with
  | nil => simpa [fitChunks]
  | cons c cs ih =>
    unfold fitChunks
    split
    · rename_i hfit
      have := ih (acc + c.length) hfit
      simp only [List.flatten_cons, List.length_append]; omega
    · simpa

theorem fitChunks_prefix (n acc : Nat) (chunks : List Bytes) : fitChunks n acc chunks <+: chunks := by
  induction chunks generalizing acc with
  | nil => simp [fitChunks]
  | cons c cs ih =>
    unfold fitChunks
    split
    · exact List.prefix_cons_inj c |>.mpr (ih _)
    · exact List.nil_prefix

theorem fitChunks_all (n acc : Nat) (chunks : List Bytes) (h : acc + total chunks ≤ n) :
    fitChunks n acc chunks = chunks := by
  induction chunks generalizing acc with
  | nil => rfl
  | cons c cs ih =>
    rw [total_cons] at h
    unfold fitChunks
    rw [if_pos (by omega), ih _ (by omega)]

theorem flatten_prefix_of_prefix {a b : List Bytes} (h : a <+: b) : a.flatten <+: b.flatten := by
  obtain ⟨t, rfl⟩ := h
  simp

/-- complete description of `overrun_encoder_cb` over a chunk list, started with `w` already written -/
theorem overrun_fold (n : Nat) (chunks : List Bytes) (w r : Bytes) (hw : w.length ≤ n) :
    foldCb overrunCb ⟨w ++ r, n, w.length, w.length⟩ chunks =
      ⟨w ++ (fitChunks n w.length chunks).flatten ++ r.drop (fitChunks n w.length chunks).flatten.length,
       if w.length + total chunks ≤ n then n else 0,
       w.length + total chunks,
       w.length + (fitChunks n w.length chunks).flatten.length⟩ := by
  induction chunks generalizing w r with
  | nil => simp [fitChunks, total_nil, hw]
  | cons c cs ih =>
    by_cases hfit : w.length + c.length ≤ n
    · have hstep : (overrunCb ⟨w ++ r, n, w.length, w.length⟩ c).1 =
          ⟨(w ++ c) ++ r.drop c.length, n, (w ++ c).length, (w ++ c).length⟩ := by
        have hng : ¬ (w.length + c.length > n) := by omega
        simp only [overrunCb, hng, if_false, writeAt_append]
        simp [Nat.max_eq_right]
      rw [foldCb_cons, hstep, ih (w ++ c) (r.drop c.length) (by simpa using hfit)]
      have hl : (w ++ c).length = w.length + c.length := by simp
      simp only [fitChunks, hfit, if_true, total_cons, hl, List.flatten_cons, List.length_append, List.drop_drop]
      rw [OverrunKey.mk.injEq]
      refine ⟨?_, ?_, ?_, ?_⟩
      · simp [List.append_assoc, Nat.add_comm]
      · simp [Nat.add_assoc]
      · omega
      · omega
    · have hstep : (overrunCb ⟨w ++ r, n, w.length, w.length⟩ c).1 = ⟨w ++ r, 0, w.length + c.length, w.length⟩ := by
        have hg : w.length + c.length > n := by omega
        simp only [overrunCb, hg, if_true]
      rw [foldCb_cons, hstep, overrun_dead _ _ _ (by omega)]
      have hno : ¬ (w.length + (c.length + total cs) ≤ n) := by omega
      simp [fitChunks, hfit, hno, total_cons, Nat.add_assoc]


/-! ### dynamic_encoder_cb -/

theorem writeAt_length (mem : Bytes) (off : Nat) (data : Bytes) (h : off + data.length ≤ mem.length) :
    (writeAt mem off data).length = mem.length := by
  simp [writeAt, List.length_take, List.length_drop]; omega

theorem writeAt_take (mem : Bytes) (off : Nat) (data : Bytes) (h : off ≤ mem.length) :
    (writeAt mem off data).take (off + data.length) = mem.take off ++ data := by
  have hl : (mem.take off ++ data).length = off + data.length := by simp [List.length_take]; omega
  unfold writeAt
  rw [← hl, List.take_left]

theorem growLoop_spec (b t : Nat) (hb : 0 < b) : ∃ ns, growLoop b t = some ns ∧ t < ns ∧ b < ns := by
  fun_induction growLoop b t
  · omega
  · rename_i ih
    obtain ⟨ns, h, h2, h3⟩ := ih (by omega)
    exact ⟨ns, h, h2, by omega⟩
  · exact ⟨_, rfl, by omega, by omega⟩

theorem dynamicCb_neverFails (allocOk : Nat → Bool) (junk : Nat) : NeverFails (dynamicCb allocOk junk) := by
  intro s c; unfold dynamicCb
  split
  · rfl
  · split
    · split
      · rfl
      · split <;> rfl
    · rfl

/-- invariant of `struct dynamic_encoder_key` after `d` has been delivered -/
structure DynInv (d : Bytes) (key : DynKey) : Prop where
  notStuck : key.stuck = false
  computed : key.computedSize = d.length
  live : ∀ b, key.buffer = some b →
    b.length = key.bufferSize ∧ key.computedSize < key.bufferSize ∧ b.take key.computedSize = d

theorem dynamicCb_inv (allocOk : Nat → Bool) (junk : Nat) (d : Bytes) (key : DynKey) (c : Bytes) (h : DynInv d key) :
    DynInv (d ++ c) (dynamicCb allocOk junk key c).1 := by
  obtain ⟨hs, hc, hl⟩ := h
  unfold dynamicCb
  cases hb : key.buffer with
  | none =>
    refine ⟨hs, by simp [hc], ?_⟩
    intro b hbb; simp at hbb
  | some b =>
    obtain ⟨hlen, hlt, htake⟩ := hl b hb
    simp only
    by_cases hgrow : key.computedSize + c.length ≥ key.bufferSize
    · simp only [hgrow, if_true]
      obtain ⟨ns, hg, h1, h2⟩ := growLoop_spec key.bufferSize (key.computedSize + c.length) (by omega)
      simp only [hg]
      by_cases ha : allocOk key.allocs = true
      · simp only [ha, if_true]
        refine ⟨hs, by simp [hc], ?_⟩
        intro b' hb'
        simp only [Option.some.injEq] at hb'
        subst hb'
        have hb'len : (b ++ List.replicate (ns - b.length) junk).length = ns := by simp; omega
        refine ⟨?_, h1, ?_⟩
        · rw [writeAt_length _ _ _ (by omega), hb'len]
        · rw [writeAt_take _ _ _ (by omega), List.take_append_of_le_length (by omega), htake]
      · simp only [ha]
        refine ⟨hs, by simp [hc], ?_⟩
        intro b' hb'; simp at hb'
    · simp only [hgrow, if_false]
      refine ⟨hs, by simp [hc], ?_⟩
      intro b' hb'
      simp only [Option.some.injEq] at hb'
      subst hb'
      refine ⟨?_, by dsimp only; omega, ?_⟩
      · rw [writeAt_length _ _ _ (by omega), hlen]
      · rw [writeAt_take _ _ _ (by omega), htake]

theorem dynamic_fold_inv (allocOk : Nat → Bool) (junk : Nat) (d : Bytes) (key : DynKey) (chunks : List Bytes)
    (h : DynInv d key) : DynInv (d ++ chunks.flatten) (foldCb (dynamicCb allocOk junk) key chunks) := by
  induction chunks generalizing d key with
  | nil => simpa using h
  | cons c cs ih =>
    have := ih (d ++ c) _ (dynamicCb_inv allocOk junk d key c h)
    simpa [List.append_assoc] using this

/-- the buffer pointer becomes NULL only through a failed allocation -/
theorem dynamicCb_buffer_some (allocOk : Nat → Bool) (junk : Nat) (key : DynKey) (c : Bytes)
    (hall : ∀ i, allocOk i = true) (hb : key.buffer.isSome) (hpos : 0 < key.bufferSize) :
    (dynamicCb allocOk junk key c).1.buffer.isSome ∧ 0 < (dynamicCb allocOk junk key c).1.bufferSize := by
  unfold dynamicCb
  cases hbb : key.buffer with
  | none => simp [hbb] at hb
  | some b =>
    simp only
    by_cases hgrow : key.computedSize + c.length ≥ key.bufferSize
    · simp only [hgrow, if_true]
      obtain ⟨ns, hg, h1, h2⟩ := growLoop_spec key.bufferSize (key.computedSize + c.length) hpos
      simp only [hg, hall, if_true]
      exact ⟨rfl, by omega⟩
    · simp only [hgrow, if_false]
      exact ⟨rfl, hpos⟩

theorem dynamic_fold_buffer_some (allocOk : Nat → Bool) (junk : Nat) (key : DynKey) (chunks : List Bytes)
    (hall : ∀ i, allocOk i = true) (hb : key.buffer.isSome) (hpos : 0 < key.bufferSize) :
    (foldCb (dynamicCb allocOk junk) key chunks).buffer.isSome := by
  induction chunks generalizing key with
  | nil => simpa using hb
  | cons c cs ih =>
    obtain ⟨h1, h2⟩ := dynamicCb_buffer_some allocOk junk key c hall hb hpos
    exact ih _ h1 h2

/-- the buffer pointer is NULL exactly when an allocation has failed so far -/
theorem dynamicCb_null_iff (mallocOk : Bool) (allocOk : Nat → Bool) (junk : Nat) (key : DynKey) (c : Bytes)
    (h : key.buffer = none ↔ AllocFailed mallocOk allocOk key.allocs) :
    (dynamicCb allocOk junk key c).1.buffer = none ↔
      AllocFailed mallocOk allocOk (dynamicCb allocOk junk key c).1.allocs := by
  unfold dynamicCb
  cases hb : key.buffer with
  | none => simpa [hb] using h
  | some b =>
    have hok : ¬ AllocFailed mallocOk allocOk key.allocs := fun hf => by
      have := h.mpr hf; rw [hb] at this; cases this
    simp only
    by_cases hgrow : key.computedSize + c.length ≥ key.bufferSize
    · simp only [hgrow, if_true]
      cases hg : growLoop key.bufferSize (key.computedSize + c.length) with
      | none => simpa [hb] using h
      | some ns =>
        simp only
        by_cases ha : allocOk key.allocs = true
        · simp only [ha, if_true]
          constructor
          · intro hn; cases hn
          · rintro (hm | ⟨i, hi, hf⟩)
            · exact absurd (Or.inl hm) hok
            · by_cases hlt : i < key.allocs
              · exact absurd (Or.inr ⟨i, hlt, hf⟩) hok
              · have : i = key.allocs := by omega
                subst this; rw [ha] at hf; cases hf
        · simp only [ha]
          constructor
          · intro _
            exact Or.inr ⟨key.allocs, by simp, by simpa using ha⟩
          · intro _; rfl
    · simp only [hgrow, if_false]
      simpa [hb] using h

theorem dynamic_fold_null_iff (mallocOk : Bool) (allocOk : Nat → Bool) (junk : Nat) (key : DynKey) (chunks : List Bytes)
    (h : key.buffer = none ↔ AllocFailed mallocOk allocOk key.allocs) :
    (foldCb (dynamicCb allocOk junk) key chunks).buffer = none ↔
      AllocFailed mallocOk allocOk (foldCb (dynamicCb allocOk junk) key chunks).allocs := by
  induction chunks generalizing key with
  | nil => simpa using h
  | cons c cs ih => exact ih _ (dynamicCb_null_iff mallocOk allocOk junk key c h)


/-! ### a callback that fails at invocation k, caught by callback_failure_catch_cb -/

theorem failsEventually_run {σ : Type} (cb : Callback σ) (e : Enc) (h : FailsEventually e) (s : σ) :
    (e.run cb s).2 = .fail .hasEnc := by
  induction e generalizing s with
  | ret o => simpa [FailsEventually, Enc.run] using h
  | emit c k f ihk ihf =>
    obtain ⟨hk, hf⟩ := h
    simp only [Enc.run]
    split
    · exact ihk hk _
    · exact ihf hf _

/-- `callback_failed` is sticky -/
theorem catch_flag_sticky {σ : Type} (cb : Callback σ) (e : Enc) (s : σ) :
    (e.run (failureCatchCb cb) (s, true)).1.2 = true := by
  induction e generalizing s with
  | ret o => rfl
  | emit c k f ihk ihf =>
    simp only [Enc.run, failureCatchCb]
    split
    · split
      · exact ihk _
      · exact ihf _
    · split
      · exact ihk _
      · exact ihf _

/-- the recording callback that fails at invocation `k`, behind the catcher -/
abbrev cbk (k : Nat) : Callback (RecState × Bool) := failureCatchCb (failAtCb (some k))

/-- past the failing invocation the recorder only appends -/
theorem run_after_failure (k : Nat) (e : Enc) (st : RecState) (flag : Bool) (h : k < st.calls) :
    ∃ m1 m2, (e.run (cbk k) (st, flag)).1.1.accepted = st.accepted ++ m1 ∧
             (e.run (cbk k) (st, flag)).1.1.sizes = st.sizes ++ m2 := by
  induction e generalizing st flag with
  | ret o => exact ⟨[], [], by simp [Enc.run], by simp [Enc.run]⟩
  | emit c ko kf ihk _ =>
    have hne : ¬ (some k = some st.calls) := by simp; omega
    simp only [Enc.run, failureCatchCb, failAtCb, hne, if_false, if_true]
    obtain ⟨m1, m2, h1, h2⟩ := ihk ⟨st.calls + 1, st.accepted ++ [c], st.sizes ++ [c.length]⟩ flag (by simp; omega)
    exact ⟨[c] ++ m1, [c.length] ++ m2, by simp [h1], by simp [h2]⟩

/-- running a propagating encoder against the failing callback, from `st.calls ≤ k` -/
theorem run_failAt (k : Nat) (e : Enc) (hP : Propagates e) (st : RecState)
    (hacc : st.accepted.length = st.calls) (hle : st.calls ≤ k) :
    (k - st.calls < e.trace.length →
      ∃ st', e.run (cbk k) (st, false) = ((st', true), .fail .hasEnc) ∧
        st'.accepted.take k = st.accepted ++ e.trace.take (k - st.calls)) ∧
    (¬ (k - st.calls < e.trace.length) →
      e.run (cbk k) (st, false) =
        ((⟨st.calls + e.trace.length, st.accepted ++ e.trace, st.sizes ++ e.trace.map List.length⟩, false), e.result)) := by
  induction e generalizing st with
  | ret o =>
    constructor
    · intro h; simp [Enc.trace] at h
    · intro _; simp [Enc.run, Enc.trace, Enc.result]
  | emit c ko kf ihk _ =>
    obtain ⟨hfe, hpk⟩ := hP
    by_cases heq : k = st.calls
    · -- this invocation is refused
      constructor
      · intro _
        have hrun : (Enc.emit c ko kf).run (cbk k) (st, false) =
            kf.run (cbk k) (⟨st.calls + 1, st.accepted, st.sizes ++ [c.length]⟩, true) := by
          simp [Enc.run, failureCatchCb, failAtCb, heq]
        obtain ⟨m1, m2, h1, _⟩ := run_after_failure k kf ⟨st.calls + 1, st.accepted, st.sizes ++ [c.length]⟩ true (by simp; omega)
        have hflag := catch_flag_sticky (failAtCb (some k)) kf ⟨st.calls + 1, st.accepted, st.sizes ++ [c.length]⟩
        have hres := failsEventually_run (cbk k) kf hfe (⟨st.calls + 1, st.accepted, st.sizes ++ [c.length]⟩, true)
        refine ⟨(kf.run (cbk k) (⟨st.calls + 1, st.accepted, st.sizes ++ [c.length]⟩, true)).1.1, ?_, ?_⟩
        · rw [hrun]
          apply Prod.ext
          · apply Prod.ext
            · rfl
            · exact hflag
          · exact hres
        · rw [h1]
          simp only at *
          have : k - st.calls = 0 := by omega
          rw [this, List.take_zero, List.append_nil, List.take_append_of_le_length (by omega), List.take_of_length_le (by omega)]
      · intro h; simp [Enc.trace] at h; omega
    · -- accepted; continue
      have hne : ¬ (some k = some st.calls) := by simpa using heq
      have hrun : (Enc.emit c ko kf).run (cbk k) (st, false) =
          ko.run (cbk k) (⟨st.calls + 1, st.accepted ++ [c], st.sizes ++ [c.length]⟩, false) := by
        simp [Enc.run, failureCatchCb, failAtCb, hne]
      have ih := ihk hpk ⟨st.calls + 1, st.accepted ++ [c], st.sizes ++ [c.length]⟩ (by simp [hacc]) (by simp; omega)
      simp only at ih
      have hsub : k - (st.calls + 1) + 1 = k - st.calls := by omega
      constructor
      · intro h
        have h' : k - (st.calls + 1) < ko.trace.length := by simp [Enc.trace] at h; omega
        obtain ⟨st', h1, h2⟩ := ih.1 h'
        refine ⟨st', by rw [hrun, h1], ?_⟩
        rw [h2, ← hsub]
        simp [Enc.trace, List.take_succ_cons, List.append_assoc]
      · intro h
        have h' : ¬ (k - (st.calls + 1) < ko.trace.length) := by simp [Enc.trace] at h; omega
        rw [hrun, ih.2 h']
        simp [Enc.trace, Enc.result, Nat.add_assoc, Nat.add_comm 1, List.append_assoc]


/-! ### closed forms of the buffer wrappers -/

theorem fit_length_le (n : Nat) (out : List Bytes) : (fitChunks n 0 out).flatten.length ≤ n := by
  have := fitChunks_length_le n 0 out (Nat.zero_le _)
  omega

theorem toBuffer_closed (syn : Syntax) (ops : Option TypeOps) (buf tail : Bytes) :
    asnEncodeToBuffer syn ops (some (buf ++ tail)) buf.length =
      if BadAccounting syn ops then .abort
      else .done (⟨(fitChunks buf.length 0 (delivered syn ops)).flatten
                     ++ buf.drop (fitChunks buf.length 0 (delivered syn ops)).flatten.length ++ tail,
                   if total (delivered syn ops) ≤ buf.length then buf.length else 0,
                   total (delivered syn ops),
                   (fitChunks buf.length 0 (delivered syn ops)).flatten.length⟩, reported syn ops) := by
  unfold asnEncodeToBuffer
  simp only [reduceCtorEq, and_false, if_false, Option.getD_some]
  rw [internal_neverFails overrunCb overrunCb_neverFails]
  have hf := overrun_fold buf.length (delivered syn ops) [] (buf ++ tail) (by simp)
  simp only [List.length_nil, List.nil_append, Nat.zero_add] at hf
  rw [hf]
  simp only [ge_iff_le, List.drop_append_of_le_length (fit_length_le buf.length (delivered syn ops)), List.append_assoc]
  by_cases hbad : BadAccounting syn ops
  · rw [if_pos hbad]; unfold BadAccounting at hbad; rw [if_pos hbad]
  · rw [if_neg hbad]; unfold BadAccounting at hbad; rw [if_neg hbad]

/-- the key after `asn_encode_to_new_buffer`'s encoder run -/
def dynFinal (syn : Syntax) (ops : Option TypeOps) (mallocOk : Bool) (allocOk : Nat → Bool) (junk : Nat) : DynKey :=
  foldCb (dynamicCb allocOk junk) ⟨if mallocOk then some (List.replicate 16 junk) else none, 16, 0, 0, false⟩ (delivered syn ops)

theorem dynFinal_inv (syn : Syntax) (ops : Option TypeOps) (mallocOk : Bool) (allocOk : Nat → Bool) (junk : Nat) :
    DynInv (delivered syn ops).flatten (dynFinal syn ops mallocOk allocOk junk) := by
  have hinv0 : DynInv [] (⟨if mallocOk then some (List.replicate 16 junk) else none, 16, 0, 0, false⟩ : DynKey) := by
    refine ⟨rfl, rfl, ?_⟩
    intro b hb
    cases mallocOk
    · simp at hb
    · simp at hb; subst hb; simp
  have := dynamic_fold_inv allocOk junk [] _ (delivered syn ops) hinv0
  simpa [dynFinal] using this

/-- no allocation ever fails ⇒ "the allocation failed" is false -/
theorem not_allocFailed (allocOk : Nat → Bool) (hall : ∀ i, allocOk i = true) (n : Nat) : ¬ AllocFailed true allocOk n := by
  rintro (h | ⟨i, _, hi⟩)
  · cases h
  · rw [hall i] at hi; cases hi

/-- NULL exactly when the initial MALLOC or one of the REALLOCs made during the run failed -/
theorem dynFinal_null_iff (syn : Syntax) (ops : Option TypeOps) (mallocOk : Bool) (allocOk : Nat → Bool) (junk : Nat) :
    (dynFinal syn ops mallocOk allocOk junk).buffer = none ↔
      AllocFailed mallocOk allocOk (dynFinal syn ops mallocOk allocOk junk).allocs := by
  apply dynamic_fold_null_iff
  cases mallocOk <;> simp [AllocFailed]

theorem toNewBuffer_closed (syn : Syntax) (ops : Option TypeOps) (mallocOk : Bool) (allocOk : Nat → Bool) (junk : Nat) :
    asnEncodeToNewBuffer syn ops mallocOk allocOk junk =
      if BadAccounting syn ops then .abort
      else if (reported syn ops).encoded < 0 then
        .done ⟨none, reported syn ops, { dynFinal syn ops mallocOk allocOk junk with buffer := none }⟩
      else match (dynFinal syn ops mallocOk allocOk junk).buffer with
        | none => .done ⟨none, reported syn ops, dynFinal syn ops mallocOk allocOk junk⟩
        | some b => .done ⟨some (writeAt b (total (delivered syn ops)) [0]), reported syn ops,
                           dynFinal syn ops mallocOk allocOk junk⟩ := by
  obtain ⟨hs, hc, hl⟩ := dynFinal_inv syn ops mallocOk allocOk junk
  rw [← total_eq_flatten_length] at hc
  unfold asnEncodeToNewBuffer
  simp only
  rw [internal_neverFails _ (dynamicCb_neverFails allocOk junk)]
  have hK : foldCb (dynamicCb allocOk junk) ⟨if mallocOk then some (List.replicate 16 junk) else none, 16, 0, 0, false⟩
      (delivered syn ops) = dynFinal syn ops mallocOk allocOk junk := rfl
  rw [hK]
  simp only [hs, hc, Bool.false_eq_true, if_false, ge_iff_le]
  by_cases hbad : BadAccounting syn ops
  · rw [if_pos hbad]; unfold BadAccounting at hbad; rw [if_pos hbad]
  · rw [if_neg hbad]; unfold BadAccounting at hbad; rw [if_neg hbad]
    by_cases hneg : (reported syn ops).encoded < 0
    · rw [if_pos hneg]; simp only [hneg, if_true]
    · rw [if_neg hneg]; simp only [hneg, if_false]
      cases hb : (dynFinal syn ops mallocOk allocOk junk).buffer with
      | none => rfl
      | some b =>
        obtain ⟨_, hlt, _⟩ := hl b hb
        rw [hc] at hlt
        rw [hc]
        simp only [hlt, not_true_eq_false, if_false]

end Asn1c.Proofs.Application
