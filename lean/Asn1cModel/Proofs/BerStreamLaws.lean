import Asn1cModel.Proofs.BerStream
/-
  The per-iteration laws (`ItLaws`) of the SET OF / CHOICE / SEQUENCE machines of Impl/BerStream.lean,
  for single-tag chains and lawful member decoders.
-/
namespace Asn1c.Proofs.BerStream
open Asn1c Asn1c.Impl.BerTlv Asn1c.Impl.Restart Asn1c.Impl.BerStream Asn1c.Proofs.L2Tlv

theorem rc_cases (rc : Rc) : rc = .ok ∨ rc = .more ∨ rc = .fail := by cases rc <;> simp

theorem advLeft_add (left : Int) (a b : Nat) (size : Nat) (ha : a ≤ leftOf left size) :
    advLeft (advLeft left a) b = advLeft left (a + b) := by
  unfold advLeft
  by_cases h : left ≥ 0
  · have : a ≤ left.toNat := by
      unfold leftOf at ha; rw [if_neg (by omega)] at ha; omega
    rw [if_pos h, if_pos (by omega), if_pos h]; omega
  · rw [if_neg h, if_neg h, if_neg h]

/-- the relation of `StepRel` on outcomes -/
def OutRel {σ : Type} (a b : Out σ) (resumed : σ → Nat → Out σ) : Prop :=
  match a with
  | .cont s' n => b = .cont s' n
  | .ret s' .ok n => b = .ret s' .ok n
  | .ret _ .fail _ => ∃ s'' n', b = .ret s'' .fail n'
  | .ret s' .more n => OutEq b (bump n (resumed s' n))

theorem stepRel_iff {σ : Type} (it : σ → Bytes → Out σ) (s : σ) (p ext : Bytes) :
    StepRel it s p ext ↔ OutRel (it s p) (it s (p ++ ext)) (fun s' n => it s' (p.drop n ++ ext)) := Iff.rfl

theorem outRel_congr {σ : Type} (a b : Out σ) (r1 r2 : σ → Nat → Out σ)
    (h : ∀ s' n, a = .ret s' .more n → r1 s' n = r2 s' n) (hr : OutRel a b r1) : OutRel a b r2 := by
  unfold OutRel at *
  cases a with
  | cont s' n => exact hr
  | ret s' rc n =>
    cases rc with
    | ok => exact hr
    | fail => exact hr
    | more => simp only at hr ⊢; rw [← h s' n rfl]; exact hr

theorem outRel_wait {σ : Type} (a b : Out σ) (r : σ → Nat → Out σ) (s : σ) (h : a = .ret s .more 0)
    (hb : b = r s 0) : OutRel a b r := by
  unfold OutRel; rw [h]; simp only [bump_zero]; exact Or.inl hb

theorem outRel_same {σ : Type} (a b : Out σ) (r : σ → Nat → Out σ) (hnm : ∀ s' n, a ≠ .ret s' .more n)
    (h : b = a) : OutRel a b r := by
  unfold OutRel
  cases a with
  | cont s' n => exact h
  | ret s' rc n =>
    cases rc with
    | ok => exact h
    | fail => exact ⟨s', n, h⟩
    | more => exact absurd rfl (hnm s' n)

theorem eoc_wait_cases (left : Int) (p ext : Bytes) (rc : Rc) (h : eocTest left p = .wait rc) :
    rc = .more ∨ eocTest left (p ++ ext) = .wait rc := by
  by_cases hm : rc = .more
  · exact Or.inl hm
  · right; rw [eocTest_ext _ _ _ (by rw [h]; intro hh; injection hh with hh; exact hm hh), h]

theorem wf_ret_cases {α : Type} (left : Int) (p ext : Bytes) (f : Int → Bytes → WF α)
    (hext : f left p ≠ .ret .more → f left (p ++ ext) = f left p) (rc : Rc) (h : f left p = .ret rc) :
    rc = .more ∨ f left (p ++ ext) = .ret rc := by
  by_cases hm : rc = .more
  · exact Or.inl hm
  · right; rw [hext (by rw [h]; intro hh; injection hh with hh; exact hm hh), h]

/-! ### SET OF -/

section SetOf
variable (tags : List Tag) (el : Elem) (edec : Node → Bytes → Node × Rc × Nat) (tm : Int)

theorem setOf_phase0 (s : SetOfSt) (p ext : Bytes)
    (hph : s.ctx.phase = 0) : StepRel (setOfIt tags el edec tm) s p ext := by
  obtain ⟨⟨ph, st, lf⟩, elems, cur⟩ := s
  simp only at hph; subst hph
  rcases checkTags_cases tags st tm 1 p ext with ⟨hm, hc0, hst⟩ | ⟨hnm, heq⟩
  · apply stepRel_wait
    unfold setOfIt
    simp only [hm, hc0, hst]
    rfl
  · apply stepRel_same
    · intro s' n
      unfold setOfIt
      simp only
      split
      · intro hh; injection hh with _ h2 _; exact hnm h2
      · intro hh; cases hh
    · unfold setOfIt
      simp only [heq]

theorem setOf_micro2_rel (hd : LawfulRc ⟨edec⟩) (s : SetOfSt) (p ext : Bytes) :
    OutRel (setOfIt.micro2 edec p s) (setOfIt.micro2 edec (p ++ ext) s)
      (fun s' n => setOfIt.micro2 edec (p.drop n ++ ext) s') := by
  unfold OutRel
  rcases rc_cases (callMember edec s.ctx.left s.cur p).2.1 with hrc | hrc | hrc
  · -- RC_OK
    have hr : callMember edec s.ctx.left s.cur p =
        ((callMember edec s.ctx.left s.cur p).1, .ok, (callMember edec s.ctx.left s.cur p).2.2) := by rw [← hrc]
    have hx := callMember_ok_ext edec hd _ _ p ext _ _ hr
    unfold setOfIt.micro2
    simp only [hx, hrc]
  · -- RC_WMORE
    have hr : callMember edec s.ctx.left s.cur p =
        ((callMember edec s.ctx.left s.cur p).1, .more, (callMember edec s.ctx.left s.cur p).2.2) := by rw [← hrc]
    obtain ⟨hk, hres⟩ := callMember_more_ext edec hd _ _ p ext _ _ hr
    generalize (callMember edec s.ctx.left s.cur p).1 = n1 at *
    generalize (callMember edec s.ctx.left s.cur p).2.2 = k at *
    have e1 : setOfIt.micro2 edec p s =
        .ret { s with cur := n1, ctx := { s.ctx with left := advLeft s.ctx.left k } } .more k := by
      unfold setOfIt.micro2; simp only [hr]
    rw [e1]
    simp only
    unfold setOfIt.micro2
    simp only
    generalize callMember edec (advLeft s.ctx.left k) n1 (List.drop k p ++ ext) = R2 at *
    generalize callMember edec s.ctx.left s.cur (p ++ ext) = R1 at *
    obtain ⟨h1, h2⟩ := hres
    simp only [shiftR] at h1 h2
    rcases rc_cases R2.2.1 with h | h | h
    · have := h2 (by rw [h1, h]; simp)
      subst this
      simp only [h, bump, advLeft_add _ _ _ _ hk]
      exact Or.inl rfl
    · have := h2 (by rw [h1, h]; simp)
      subst this
      simp only [h, bump, advLeft_add _ _ _ _ hk]
      exact Or.inl rfl
    · rw [h] at h1
      simp only [h, h1, bump]
      exact Or.inr ⟨_, _, _, _, rfl, rfl⟩
  · -- RC_FAIL
    have hx := callMember_fail_ext edec hd _ _ p ext hrc
    unfold setOfIt.micro2
    simp only [hx, hrc]
    exact ⟨_, _, rfl⟩

theorem setOf_micro2_more (s s' : SetOfSt) (p : Bytes) (n : Nat)
    (h : setOfIt.micro2 edec p s = .ret s' .more n) : s'.ctx.phase = s.ctx.phase ∧ s'.ctx.step = s.ctx.step := by
  unfold setOfIt.micro2 at h
  simp only at h
  split at h
  · cases h
  · injection h with h1 _ _; subst h1; exact ⟨rfl, rfl⟩
  · cases h

theorem setOf_at_micro2 (s : SetOfSt) (q : Bytes) (hph : s.ctx.phase = 1) (hodd : s.ctx.step % 2 = 1) :
    setOfIt tags el edec tm s q = setOfIt.micro2 edec q s := by
  unfold setOfIt
  simp only [hph, hodd, beq_self_eq_true, if_true]

/-- phase 1, microphase 1 with something left: the bytes are looked at through these readers only -/
def setOfSync (s : SetOfSt) (q : Bytes) : Out SetOfSt :=
  match winFetchTag s.ctx.left q with
  | .ret rc => .ret s rc 0
  | .ok tag _ =>
    match eocTest s.ctx.left q with
    | .wait rc => .ret s rc 0
    | .yes => .cont { s with ctx := { s.ctx with phase := 2, step := 0 } } 0
    | .no =>
      if el.tag != noTag && tag != el.tag then .ret s .fail 0
      else setOfIt.micro2 edec q { s with cur := .none, ctx := { s.ctx with step := s.ctx.step + 1 } }

theorem setOf_at_sync (s : SetOfSt) (q : Bytes) (hph : s.ctx.phase = 1) (heven : ¬ s.ctx.step % 2 = 1)
    (hl0 : ¬ s.ctx.left = 0) : setOfIt tags el edec tm s q = setOfSync el edec s q := by
  obtain ⟨⟨ph, st, lf⟩, elems, cur⟩ := s
  simp only at hph heven hl0
  subst hph
  unfold setOfIt setOfSync
  have h1 : (st % 2 == 1) = false := by simpa using heven
  have h2 : (lf == 0) = false := by simpa using hl0
  simp only [h1, h2, Bool.false_eq_true, if_false]
  rfl

theorem setOf_sync_rel (hd : LawfulRc ⟨edec⟩) (s : SetOfSt) (p ext : Bytes)
    (hph : s.ctx.phase = 1) (heven : ¬ s.ctx.step % 2 = 1) (hl0 : ¬ s.ctx.left = 0) :
    OutRel (setOfSync el edec s p) (setOfSync el edec s (p ++ ext))
      (fun s' n => setOfIt tags el edec tm s' (p.drop n ++ ext)) := by
  have hwait : setOfSync el edec s p = .ret s .more 0 →
      OutRel (setOfSync el edec s p) (setOfSync el edec s (p ++ ext))
        (fun s' n => setOfIt tags el edec tm s' (p.drop n ++ ext)) := by
    intro h
    refine outRel_wait _ _ _ s h ?_
    simp only [List.drop_zero]
    rw [setOf_at_sync tags el edec tm s _ hph heven hl0]
  cases hw : winFetchTag s.ctx.left p with
  | ret rc =>
    rcases wf_ret_cases s.ctx.left p ext winFetchTag (winFetchTag_ext _ _ _) rc hw with hm | hx
    · subst hm
      apply hwait; unfold setOfSync; simp only [hw]
    · by_cases hm : rc = .more
      · subst hm; apply hwait; unfold setOfSync; simp only [hw]
      · apply outRel_same
        · intro s' n; unfold setOfSync; simp only [hw]
          intro hh; injection hh with _ h2 _; exact hm h2
        · unfold setOfSync; simp only [hw, hx]
  | ok tag tl =>
    have hx : winFetchTag s.ctx.left (p ++ ext) = .ok tag tl := by
      rw [winFetchTag_ext _ _ _ (by rw [hw]; intro h; cases h), hw]
    cases he : eocTest s.ctx.left p with
    | wait rc =>
      by_cases hm : rc = .more
      · subst hm; apply hwait; unfold setOfSync; simp only [hw, he]
      · rcases eoc_wait_cases s.ctx.left p ext rc he with h | h
        · exact absurd h hm
        · apply outRel_same
          · intro s' n; unfold setOfSync; simp only [hw, he]
            intro hh; injection hh with _ h2 _; exact hm h2
          · unfold setOfSync; simp only [hw, hx, he, h]
    | yes =>
      have hy : eocTest s.ctx.left (p ++ ext) = .yes := by
        rw [eocTest_ext _ _ _ (by rw [he]; intro h; cases h), he]
      apply outRel_same
      · intro s' n; unfold setOfSync; simp only [hw, he]; intro hh; cases hh
      · unfold setOfSync; simp only [hw, hx, he, hy]
    | no =>
      have hy : eocTest s.ctx.left (p ++ ext) = .no := by
        rw [eocTest_ext _ _ _ (by rw [he]; intro h; cases h), he]
      by_cases hbad : (el.tag != noTag && tag != el.tag) = true
      · apply outRel_same
        · intro s' n; unfold setOfSync; simp only [hw, he, hbad, if_true]; intro hh; cases hh
        · unfold setOfSync; simp only [hw, hx, he, hy, hbad, if_true]
      · have e1 : ∀ q, winFetchTag s.ctx.left q = .ok tag tl → eocTest s.ctx.left q = .no →
            setOfSync el edec s q =
              setOfIt.micro2 edec q { s with cur := .none, ctx := { s.ctx with step := s.ctx.step + 1 } } := by
          intro q h1 h2; unfold setOfSync; simp only [h1, h2, hbad, if_false, Bool.false_eq_true]
        rw [e1 p hw he, e1 _ hx hy]
        refine outRel_congr _ _ _ _ ?_ (setOf_micro2_rel edec hd _ p ext)
        intro s' n h
        obtain ⟨h1, h2⟩ := setOf_micro2_more edec _ s' p n h
        simp only at h1 h2
        rw [setOf_at_micro2 tags el edec tm s' _ (by rw [h1, hph]) (by rw [h2]; omega)]

theorem setOf_phase2 (s : SetOfSt) (p ext : Bytes) (hph : s.ctx.phase = 2) :
    StepRel (setOfIt tags el edec tm) s p ext := by
  have e : ∀ q, setOfIt tags el edec tm s q =
      if s.ctx.left < 0 then
        if leftOf s.ctx.left q.length < 2 then
          if leftOf s.ctx.left q.length > 0 && q.headD 0 != 0 then .ret s .fail 0 else .ret s .more 0
        else if q.headD 1 == 0 && (q.drop 1).headD 1 == 0 then
          .cont { s with ctx := { s.ctx with left := s.ctx.left + 1 } } 2
        else .ret s .fail 0
      else .ret { s with ctx := { s.ctx with phase := 10 } } .ok 0 := by
    intro q; unfold setOfIt; simp only [hph]
  by_cases hneg : s.ctx.left < 0
  · have eq2 : ∀ q : Bytes, leftOf s.ctx.left q.length = q.length := fun q => leftOf_neg _ _ hneg
    by_cases h2 : p.length < 2
    · by_cases hb : (decide (p.length > 0) && p.headD 0 != 0) = true
      · have hpos : 1 ≤ p.length := by
          simp only [Bool.and_eq_true, decide_eq_true_eq] at hb; omega
        have hh : p.headD 0 ≠ 0 := by
          simp only [Bool.and_eq_true, bne_iff_ne] at hb; exact hb.2
        have hh1 : p.headD 1 = p.headD 0 := by
          cases p with
          | nil => simp at hpos
          | cons a t => rfl
        refine stepRel_fail _ s p ext s s 0 0 ?_ ?_
        · rw [e]; simp only [hneg, if_true, eq2, h2, hb]
        · rw [e]; simp only [hneg, if_true, eq2]
          have hd0 : (p ++ ext).headD 0 = p.headD 0 := headD_append _ _ _ hpos
          have hd1 : (p ++ ext).headD 1 = p.headD 0 := by rw [headD_append _ _ _ hpos, hh1]
          by_cases h3 : (p ++ ext).length < 2
          · have : (decide ((p ++ ext).length > 0) && (p ++ ext).headD 0 != 0) = true := by
              simp only [Bool.and_eq_true, decide_eq_true_eq, bne_iff_ne, hd0, List.length_append]
              exact ⟨by omega, hh⟩
            simp only [h3, if_true, this]
          · have : ((p ++ ext).headD 1 == 0 && ((p ++ ext).drop 1).headD 1 == 0) = false := by
              rw [hd1]
              have : (p.headD 0 == 0) = false := by simpa using hh
              rw [this]; rfl
            simp only [h3, if_false, this, Bool.false_eq_true]
      · apply stepRel_wait
        rw [e]; simp only [hneg, if_true, eq2, h2, hb, Bool.false_eq_true, if_false]
    · have h3 : ¬ (p ++ ext).length < 2 := by simp only [List.length_append]; omega
      apply stepRel_same
      · intro s' n; rw [e]; simp only [hneg, if_true, eq2, h2, if_false]
        split <;> (intro hh; cases hh)
      · rw [e, e]; simp only [hneg, if_true, eq2, h2, h3, if_false]
        rw [headD_append _ _ _ (by omega), drop_append_le _ _ _ (by omega),
          headD_append _ _ _ (by simp only [List.length_drop]; omega)]
  · apply stepRel_same
    · intro s' n; rw [e]; simp only [hneg, if_false]; intro hh; cases hh
    · rw [e, e]; simp only [hneg, if_false]

theorem setOf_rel (hd : LawfulRc ⟨edec⟩)
    (s : SetOfSt) (p ext : Bytes) : StepRel (setOfIt tags el edec tm) s p ext := by
  by_cases hph0 : s.ctx.phase = 0
  · exact setOf_phase0 tags el edec tm s p ext hph0
  by_cases hph1 : s.ctx.phase = 1
  · by_cases hodd : s.ctx.step % 2 = 1
    · rw [stepRel_iff, setOf_at_micro2 tags el edec tm s p hph1 hodd, setOf_at_micro2 tags el edec tm s _ hph1 hodd]
      refine outRel_congr _ _ _ _ ?_ (setOf_micro2_rel edec hd s p ext)
      intro s' n h
      obtain ⟨h1, h2⟩ := setOf_micro2_more edec s s' p n h
      rw [setOf_at_micro2 tags el edec tm s' _ (by rw [h1, hph1]) (by rw [h2, hodd])]
    · by_cases hl0 : s.ctx.left = 0
      · apply stepRel_same
        · intro s' n; unfold setOfIt; simp [hph1, hodd, hl0]
        · unfold setOfIt; simp [hph1, hodd, hl0]
      · rw [stepRel_iff, setOf_at_sync tags el edec tm s p hph1 hodd hl0,
          setOf_at_sync tags el edec tm s _ hph1 hodd hl0]
        exact setOf_sync_rel tags el edec tm hd s p ext hph1 hodd hl0
  by_cases hph2 : s.ctx.phase = 2
  · exact setOf_phase2 tags el edec tm s p ext hph2
  · apply stepRel_same
    · intro s' n; unfold setOfIt; split <;> first | contradiction | (intro hh; cases hh)
    · unfold setOfIt; split <;> first | contradiction | rfl

theorem setOf_micro2_cont (s s' : SetOfSt) (p : Bytes) (n : Nat)
    (h : setOfIt.micro2 edec p s = .cont s' n) :
    s'.ctx.phase = s.ctx.phase ∧ s'.ctx.step = 0 ∧ (callMember edec s.ctx.left s.cur p).2.1 = .ok ∧
      (callMember edec s.ctx.left s.cur p).2.2 = n := by
  unfold setOfIt.micro2 at h
  simp only at h
  split at h
  · rename_i hrc
    injection h with h1 h2; subst h1
    exact ⟨rfl, rfl, hrc, h2⟩
  · cases h
  · cases h

theorem callMember_ok_inner (d : Node → Bytes → Node × Rc × Nat) (left : Int) (n : Node) (p : Bytes)
    (h : (callMember d left n p).2.1 = .ok) : callMember d left n p = d n (winOf left p) := by
  rw [callMember_eq] at h ⊢
  unfold postMember at h ⊢
  split
  · rfl
  · rename_i hrc; rw [hrc] at h; simp only at h; split at h
    · rw [hrc] at h; cases h
    · cases h
  · rename_i hrc; rw [hrc] at h; cases h

/-- the fuel measure of the SET OF machine (`setOfMeasure` − 1) -/
def setOfMu (s : SetOfSt) (bs : Bytes) : Nat :=
  4 * bs.length + (match s.ctx.phase with | 0 => 3 | 1 => 1 + s.ctx.step % 2 | _ => 0)

theorem setOf_decr (hd : LawfulRc ⟨edec⟩) (hp : ∀ q n' k, edec .none q = (n', .ok, k) → 1 ≤ k)
    (s : SetOfSt) (p : Bytes) (s' : SetOfSt) (n : Nat) (h : setOfIt tags el edec tm s p = .cont s' n) :
    setOfMu s' (p.drop n) < setOfMu s p := by
  have hn : n ≤ p.length := by
    have := setOfIt_bound tags el edec tm (fun n p => hd.consumed_le n p) s p
    rw [h] at this; exact this
  unfold setOfMu
  simp only [List.length_drop]
  by_cases hph0 : s.ctx.phase = 0
  · unfold setOfIt at h
    simp only [hph0] at h
    split at h
    · cases h
    · injection h with h1 _; subst h1
      simp only [hph0]; omega
  by_cases hph1 : s.ctx.phase = 1
  · by_cases hodd : s.ctx.step % 2 = 1
    · rw [setOf_at_micro2 tags el edec tm s p hph1 hodd] at h
      obtain ⟨h1, h2, _, _⟩ := setOf_micro2_cont edec s s' p n h
      rw [h1, hph1, h2, hodd]; simp only; omega
    · by_cases hl0 : s.ctx.left = 0
      · unfold setOfIt at h; simp [hph1, hodd, hl0] at h
      · rw [setOf_at_sync tags el edec tm s p hph1 hodd hl0] at h
        unfold setOfSync at h
        split at h
        · cases h
        · split at h
          · cases h
          · injection h with h1 h2; subst h1
            simp only [hph1]; omega
          · split at h
            · cases h
            · obtain ⟨h1, h2, hok, hk⟩ := setOf_micro2_cont edec _ s' p n h
              simp only at h1 h2 hok hk
              have := callMember_ok_inner edec _ _ _ hok
              have hk1 := hp (winOf s.ctx.left p) (callMember edec s.ctx.left .none p).1 n (by
                rw [← this, ← hk, ← hok])
              rw [h1, hph1, h2]
              have : s.ctx.step % 2 = 0 := by omega
              rw [this]; simp only; omega
  by_cases hph2 : s.ctx.phase = 2
  · unfold setOfIt at h
    simp only [hph2] at h
    split at h
    · rename_i hneg
      split at h
      · split at h <;> cases h
      · rename_i h2
        rw [leftOf_neg _ _ hneg] at h2
        split at h
        · injection h with h1 h3; subst h1; subst h3
          simp only [hph2]; omega
        · cases h
    · cases h
  · unfold setOfIt at h
    split at h <;> first | contradiction | cases h

theorem setOf_itLaws (hd : LawfulRc ⟨edec⟩)
    (hp : ∀ q n' k, edec .none q = (n', .ok, k) → 1 ≤ k) : ItLaws (setOfIt tags el edec tm) setOfMu :=
  itLaws_mk _ _ (setOfIt_bound tags el edec tm (fun n p => hd.consumed_le n p))
    (setOf_decr tags el edec tm hd hp) (setOf_rel tags el edec tm hd)

theorem setOfSt_roundtrip (s : SetOfSt) : SetOfSt.ofNode s.toNode = s := rfl

/-- SET OF / SEQUENCE OF with a single-tag chain over a lawful element decoder is a lawful restartable decoder -/
theorem setOfDec_lawfulRc (hd : LawfulRc ⟨edec⟩)
    (hp : ∀ q n' k, edec .none q = (n', .ok, k) → 1 ≤ k) : LawfulRc (⟨setOfDec tags el edec tm⟩ : Dec Node) := by
  have h := lawfulRc_wrap _ (lawfulRc_of_itLaws _ _ (setOf_itLaws tags el edec tm hd hp))
    SetOfSt.ofNode SetOfSt.toNode setOfSt_roundtrip
  have e : (⟨setOfDec tags el edec tm⟩ : Dec Node) =
      ⟨fun n p => (SetOfSt.toNode ((itDec (setOfIt tags el edec tm) setOfMu).step (SetOfSt.ofNode n) p).1,
        ((itDec (setOfIt tags el edec tm) setOfMu).step (SetOfSt.ofNode n) p).2)⟩ := by
    rfl
  rw [e]; exact h

end SetOf

/-! ### CHOICE -/

section Choice
variable (tags : List Tag) (es : List Elem) (xs : Int) (t2e : List T2M) (mdec : MDec) (tm : Int)

theorem choice_phase0 (s : ChoiceSt) (p ext : Bytes)
    (hph : s.ctx.phase = 0) : StepRel (choiceIt tags es xs t2e mdec tm) s p ext := by
  obtain ⟨⟨ph, st, lf⟩, pres, m⟩ := s
  simp only at hph; subst hph
  by_cases htg : (tm != 0 || tags.length != 0) = true
  · rcases checkTags_cases tags st tm (-1) p ext with ⟨hm, hc0, hst⟩ | ⟨hnm, heq⟩
    · apply stepRel_wait
      unfold choiceIt
      simp only [htg, if_true, hm, hc0, hst]
      rfl
    · apply stepRel_same
      · intro s' n
        unfold choiceIt
        simp only [htg, if_true]
        split
        · intro hh; injection hh with _ h2 _; exact hnm h2
        · intro hh; cases hh
      · unfold choiceIt
        simp only [htg, if_true, heq]
  · apply stepRel_same
    · intro s' n; unfold choiceIt; simp only [htg, if_false, Bool.false_eq_true]; intro hh; cases hh
    · unfold choiceIt; simp only [htg, if_false, Bool.false_eq_true]

/-- phase 1 as a function of the readers -/
def choiceP1 (s : ChoiceSt) (q : Bytes) : Out ChoiceSt :=
  match winFetchTag s.ctx.left q with
  | .ret rc => .ret s rc 0
  | .ok tag tl =>
    match bsearchIdx (fun (e : T2M) => cmpTag tag e.tag) t2e (t2e.length + 1) 0 t2e.length with
    | some i => .cont { s with ctx := { s.ctx with phase := 2, step := (t2e.getD i default).elNo } } 0
    | none =>
      if xs == -1 then .ret s .fail 0
      else
        match winSkip s.ctx.left q tl with
        | .ret rc => .ret s rc 0
        | .ok _ skip => .ret { s with ctx := { s.ctx with left := advLeft s.ctx.left (skip + tl) } } .ok (skip + tl)

theorem choice_at_p1 (s : ChoiceSt) (q : Bytes) (hph : s.ctx.phase = 1) :
    choiceIt tags es xs t2e mdec tm s q = choiceP1 xs t2e s q := by
  obtain ⟨⟨ph, st, lf⟩, pres, m⟩ := s
  simp only at hph; subst hph
  unfold choiceIt choiceP1
  rfl

theorem choice_p1_rel (s : ChoiceSt) (p ext : Bytes) (hph : s.ctx.phase = 1) :
    OutRel (choiceP1 xs t2e s p) (choiceP1 xs t2e s (p ++ ext))
      (fun s' n => choiceIt tags es xs t2e mdec tm s' (p.drop n ++ ext)) := by
  have hwait : choiceP1 xs t2e s p = .ret s .more 0 →
      OutRel (choiceP1 xs t2e s p) (choiceP1 xs t2e s (p ++ ext))
        (fun s' n => choiceIt tags es xs t2e mdec tm s' (p.drop n ++ ext)) := by
    intro h
    refine outRel_wait _ _ _ s h ?_
    simp only [List.drop_zero]
    rw [choice_at_p1 tags es xs t2e mdec tm s _ hph]
  cases hw : winFetchTag s.ctx.left p with
  | ret rc =>
    by_cases hm : rc = .more
    · subst hm; apply hwait; unfold choiceP1; simp only [hw]
    · rcases wf_ret_cases s.ctx.left p ext winFetchTag (winFetchTag_ext _ _ _) rc hw with h | hx
      · exact absurd h hm
      · apply outRel_same
        · intro s' n; unfold choiceP1; simp only [hw]
          intro hh; injection hh with _ h2 _; exact hm h2
        · unfold choiceP1; simp only [hw, hx]
  | ok tag tl =>
    have hx : winFetchTag s.ctx.left (p ++ ext) = .ok tag tl := by
      rw [winFetchTag_ext _ _ _ (by rw [hw]; intro h; cases h), hw]
    cases hb : bsearchIdx (fun (e : T2M) => cmpTag tag e.tag) t2e (t2e.length + 1) 0 t2e.length with
    | some i =>
      apply outRel_same
      · intro s' n; unfold choiceP1; simp only [hw, hb]; intro hh; cases hh
      · unfold choiceP1; simp only [hw, hx, hb]
    | none =>
      by_cases hxs : (xs == -1) = true
      · apply outRel_same
        · intro s' n; unfold choiceP1; simp only [hw, hb, hxs, if_true]; intro hh; cases hh
        · unfold choiceP1; simp only [hw, hx, hb, hxs, if_true]
      · cases hsk : winSkip s.ctx.left p tl with
        | ret rc =>
          by_cases hm : rc = .more
          · subst hm; apply hwait; unfold choiceP1; simp only [hw, hb, hxs, hsk, if_false, Bool.false_eq_true]
          · have hx2 : winSkip s.ctx.left (p ++ ext) tl = .ret rc := by
              rw [winSkip_ext _ _ _ _ (by rw [hsk]; intro hh; injection hh with hh; exact hm hh), hsk]
            apply outRel_same
            · intro s' n; unfold choiceP1; simp only [hw, hb, hxs, hsk, if_false, Bool.false_eq_true]
              intro hh; injection hh with _ h2 _; exact hm h2
            · unfold choiceP1; simp only [hw, hx, hb, hxs, hsk, hx2, if_false, Bool.false_eq_true]
        | ok u skip =>
          have hx2 : winSkip s.ctx.left (p ++ ext) tl = .ok u skip := by
            rw [winSkip_ext _ _ _ _ (by rw [hsk]; intro hh; cases hh), hsk]
          apply outRel_same
          · intro s' n; unfold choiceP1; simp only [hw, hb, hxs, hsk, if_false, Bool.false_eq_true]
            intro hh; cases hh
          · unfold choiceP1; simp only [hw, hx, hb, hxs, hsk, hx2, if_false, Bool.false_eq_true]

/-- phase 2: the member call -/
def choiceP2 (s : ChoiceSt) (q : Bytes) : Out ChoiceSt :=
  let r := callMember (mdec s.ctx.step) s.ctx.left s.m q
  let s1 := { s with present := s.ctx.step + 1, m := r.1 }
  match r.2.1 with
  | .ok => .cont { s1 with ctx := { s1.ctx with left := advLeft s.ctx.left r.2.2, phase := 3, step := 0 } } r.2.2
  | rc => .ret { s1 with ctx := { s1.ctx with left := advLeft s.ctx.left r.2.2 } } rc r.2.2

theorem choice_at_p2 (s : ChoiceSt) (q : Bytes) (hph : s.ctx.phase = 2) :
    choiceIt tags es xs t2e mdec tm s q = choiceP2 mdec s q := by
  obtain ⟨⟨ph, st, lf⟩, pres, m⟩ := s
  simp only at hph; subst hph
  unfold choiceIt choiceP2
  rfl

theorem choice_p2_rel (hm : ∀ i, LawfulRc ⟨mdec i⟩) (s : ChoiceSt) (p ext : Bytes) :
    OutRel (choiceP2 mdec s p) (choiceP2 mdec s (p ++ ext)) (fun s' n => choiceP2 mdec s' (p.drop n ++ ext)) := by
  unfold OutRel
  have hd := hm s.ctx.step
  rcases rc_cases (callMember (mdec s.ctx.step) s.ctx.left s.m p).2.1 with hrc | hrc | hrc
  · have hr : callMember (mdec s.ctx.step) s.ctx.left s.m p =
        ((callMember (mdec s.ctx.step) s.ctx.left s.m p).1, .ok, (callMember (mdec s.ctx.step) s.ctx.left s.m p).2.2) := by
      rw [← hrc]
    have hx := callMember_ok_ext _ hd _ _ p ext _ _ hr
    unfold choiceP2
    simp only [hx, hrc]
  · have hr : callMember (mdec s.ctx.step) s.ctx.left s.m p =
        ((callMember (mdec s.ctx.step) s.ctx.left s.m p).1, .more, (callMember (mdec s.ctx.step) s.ctx.left s.m p).2.2) := by
      rw [← hrc]
    obtain ⟨hk, hres⟩ := callMember_more_ext _ hd _ _ p ext _ _ hr
    generalize (callMember (mdec s.ctx.step) s.ctx.left s.m p).1 = n1 at *
    generalize (callMember (mdec s.ctx.step) s.ctx.left s.m p).2.2 = k at *
    have e1 : choiceP2 mdec s p =
        .ret { s with present := s.ctx.step + 1, m := n1, ctx := { s.ctx with left := advLeft s.ctx.left k } } .more k := by
      unfold choiceP2; simp only [hr]
    rw [e1]
    simp only
    unfold choiceP2
    simp only
    generalize callMember (mdec s.ctx.step) (advLeft s.ctx.left k) n1 (List.drop k p ++ ext) = R2 at *
    generalize callMember (mdec s.ctx.step) s.ctx.left s.m (p ++ ext) = R1 at *
    obtain ⟨h1, h2⟩ := hres
    simp only [shiftR] at h1 h2
    rcases rc_cases R2.2.1 with h | h | h
    · have := h2 (by rw [h1, h]; simp)
      subst this
      simp only [h, bump, advLeft_add _ _ _ _ hk]
      exact Or.inl rfl
    · have := h2 (by rw [h1, h]; simp)
      subst this
      simp only [h, bump, advLeft_add _ _ _ _ hk]
      exact Or.inl rfl
    · rw [h] at h1
      simp only [h, h1, bump]
      exact Or.inr ⟨_, _, _, _, rfl, rfl⟩
  · have hx := callMember_fail_ext _ hd _ _ p ext hrc
    unfold choiceP2
    simp only [hx, hrc]
    exact ⟨_, _, rfl⟩

theorem choice_p2_more (s s' : ChoiceSt) (p : Bytes) (n : Nat) (h : choiceP2 mdec s p = .ret s' .more n) :
    s'.ctx.phase = s.ctx.phase := by
  unfold choiceP2 at h
  simp only at h
  split at h
  · cases h
  · injection h with h1 _ _; subst h1; rfl

/-- phase 3 as a function of the readers -/
def choiceP3 (s : ChoiceSt) (q : Bytes) : Out ChoiceSt :=
  if s.ctx.left > 0 then .ret s .fail 0
  else if s.ctx.left == -1 && !(tm != 0 || tags.length != 0) then
    .ret { s with ctx := { s.ctx with phase := 4, step := 0 } } .ok 0
  else if s.ctx.left < 0 then
    match winFetchTag s.ctx.left q with
    | .ret rc => .ret s rc 0
    | .ok _ _ =>
      match eocTest s.ctx.left q with
      | .wait rc => .ret s rc 0
      | .yes => .cont { s with ctx := { s.ctx with left := s.ctx.left + 1 } } 2
      | .no => .ret s .fail 0
  else .ret { s with ctx := { s.ctx with phase := 4, step := 0 } } .ok 0

theorem choice_at_p3 (s : ChoiceSt) (q : Bytes) (hph : s.ctx.phase = 3) :
    choiceIt tags es xs t2e mdec tm s q = choiceP3 tags tm s q := by
  obtain ⟨⟨ph, st, lf⟩, pres, m⟩ := s
  simp only at hph; subst hph
  unfold choiceIt choiceP3
  rfl

theorem choice_p3_rel (s : ChoiceSt) (p ext : Bytes) (hph : s.ctx.phase = 3) :
    OutRel (choiceP3 tags tm s p) (choiceP3 tags tm s (p ++ ext))
      (fun s' n => choiceIt tags es xs t2e mdec tm s' (p.drop n ++ ext)) := by
  have hwait : choiceP3 tags tm s p = .ret s .more 0 →
      OutRel (choiceP3 tags tm s p) (choiceP3 tags tm s (p ++ ext))
        (fun s' n => choiceIt tags es xs t2e mdec tm s' (p.drop n ++ ext)) := by
    intro h
    refine outRel_wait _ _ _ s h ?_
    simp only [List.drop_zero]
    rw [choice_at_p3 tags es xs t2e mdec tm s _ hph]
  by_cases h1 : s.ctx.left > 0
  · apply outRel_same
    · intro s' n; unfold choiceP3; simp only [h1, if_true]; intro hh; cases hh
    · unfold choiceP3; simp only [h1, if_true]
  by_cases h2 : (s.ctx.left == -1 && !(tm != 0 || tags.length != 0)) = true
  · apply outRel_same
    · intro s' n; unfold choiceP3; simp only [h1, h2, if_true, if_false]; intro hh; cases hh
    · unfold choiceP3; simp only [h1, h2, if_true, if_false]
  by_cases h3 : s.ctx.left < 0
  · have e : ∀ q, choiceP3 tags tm s q =
        match winFetchTag s.ctx.left q with
        | .ret rc => .ret s rc 0
        | .ok _ _ =>
          match eocTest s.ctx.left q with
          | .wait rc => .ret s rc 0
          | .yes => .cont { s with ctx := { s.ctx with left := s.ctx.left + 1 } } 2
          | .no => .ret s .fail 0 := by
      intro q; unfold choiceP3; simp only [h1, h2, h3, if_true, if_false, Bool.false_eq_true]
    cases hw : winFetchTag s.ctx.left p with
    | ret rc =>
      by_cases hm : rc = .more
      · subst hm; apply hwait; rw [e]; simp only [hw]
      · rcases wf_ret_cases s.ctx.left p ext winFetchTag (winFetchTag_ext _ _ _) rc hw with h | hx
        · exact absurd h hm
        · apply outRel_same
          · intro s' n; rw [e]; simp only [hw]
            intro hh; injection hh with _ h2 _; exact hm h2
          · rw [e, e]; simp only [hw, hx]
    | ok tag tl =>
      have hx : winFetchTag s.ctx.left (p ++ ext) = .ok tag tl := by
        rw [winFetchTag_ext _ _ _ (by rw [hw]; intro h; cases h), hw]
      cases he : eocTest s.ctx.left p with
      | wait rc =>
        by_cases hm : rc = .more
        · subst hm; apply hwait; rw [e]; simp only [hw, he]
        · rcases eoc_wait_cases s.ctx.left p ext rc he with h | h
          · exact absurd h hm
          · apply outRel_same
            · intro s' n; rw [e]; simp only [hw, he]
              intro hh; injection hh with _ h2 _; exact hm h2
            · rw [e, e]; simp only [hw, hx, he, h]
      | yes =>
        have hy : eocTest s.ctx.left (p ++ ext) = .yes := by
          rw [eocTest_ext _ _ _ (by rw [he]; intro h; cases h), he]
        apply outRel_same
        · intro s' n; rw [e]; simp only [hw, he]; intro hh; cases hh
        · rw [e, e]; simp only [hw, hx, he, hy]
      | no =>
        have hy : eocTest s.ctx.left (p ++ ext) = .no := by
          rw [eocTest_ext _ _ _ (by rw [he]; intro h; cases h), he]
        apply outRel_same
        · intro s' n; rw [e]; simp only [hw, he]; intro hh; cases hh
        · rw [e, e]; simp only [hw, hx, he, hy]
  · apply outRel_same
    · intro s' n; unfold choiceP3; simp only [h1, h2, h3, if_false, Bool.false_eq_true]; intro hh; cases hh
    · unfold choiceP3; simp only [h1, h2, h3, if_false, Bool.false_eq_true]

theorem choice_rel (hm : ∀ i, LawfulRc ⟨mdec i⟩)
    (s : ChoiceSt) (p ext : Bytes) : StepRel (choiceIt tags es xs t2e mdec tm) s p ext := by
  by_cases hph0 : s.ctx.phase = 0
  · exact choice_phase0 tags es xs t2e mdec tm s p ext hph0
  by_cases hph1 : s.ctx.phase = 1
  · rw [stepRel_iff, choice_at_p1 tags es xs t2e mdec tm s p hph1, choice_at_p1 tags es xs t2e mdec tm s _ hph1]
    exact choice_p1_rel tags es xs t2e mdec tm s p ext hph1
  by_cases hph2 : s.ctx.phase = 2
  · rw [stepRel_iff, choice_at_p2 tags es xs t2e mdec tm s p hph2, choice_at_p2 tags es xs t2e mdec tm s _ hph2]
    refine outRel_congr _ _ _ _ ?_ (choice_p2_rel mdec hm s p ext)
    intro s' n h
    have := choice_p2_more mdec s s' p n h
    rw [choice_at_p2 tags es xs t2e mdec tm s' _ (by rw [this, hph2])]
  by_cases hph3 : s.ctx.phase = 3
  · rw [stepRel_iff, choice_at_p3 tags es xs t2e mdec tm s p hph3, choice_at_p3 tags es xs t2e mdec tm s _ hph3]
    exact choice_p3_rel tags es xs t2e mdec tm s p ext hph3
  · apply stepRel_same
    · intro s' n; unfold choiceIt; split <;> first | contradiction | (intro hh; cases hh)
    · unfold choiceIt; split <;> first | contradiction | rfl

/-- the fuel measure of the CHOICE machine (`choiceMeasure` − 1) -/
def choiceMu (s : ChoiceSt) (bs : Bytes) : Nat := 2 * bs.length + (4 - min s.ctx.phase 4)

theorem choice_decr (s : ChoiceSt) (p : Bytes) (s' : ChoiceSt) (n : Nat)
    (h : choiceIt tags es xs t2e mdec tm s p = .cont s' n) : choiceMu s' (p.drop n) < choiceMu s p := by
  unfold choiceMu
  simp only [List.length_drop]
  by_cases hph0 : s.ctx.phase = 0
  · unfold choiceIt at h
    simp only [hph0] at h
    split at h
    · split at h
      · cases h
      · injection h with h1 _; subst h1; simp only [hph0]; omega
    · injection h with h1 _; subst h1; simp only [hph0]; omega
  by_cases hph1 : s.ctx.phase = 1
  · rw [choice_at_p1 tags es xs t2e mdec tm s p hph1] at h
    unfold choiceP1 at h
    split at h
    · cases h
    · split at h
      · injection h with h1 _; subst h1; simp only [hph1]; omega
      · split at h
        · cases h
        · split at h <;> cases h
  by_cases hph2 : s.ctx.phase = 2
  · rw [choice_at_p2 tags es xs t2e mdec tm s p hph2] at h
    unfold choiceP2 at h
    simp only at h
    split at h
    · injection h with h1 _; subst h1; simp only [hph2]; omega
    · cases h
  by_cases hph3 : s.ctx.phase = 3
  · rw [choice_at_p3 tags es xs t2e mdec tm s p hph3] at h
    unfold choiceP3 at h
    split at h
    · cases h
    · split at h
      · cases h
      · split at h
        · split at h
          · cases h
          · split at h
            · cases h
            · rename_i hy
              have := eocTest_yes_le _ _ hy
              injection h with h1 h2; subst h1; subst h2
              simp only [hph3]; omega
            · cases h
        · cases h
  · unfold choiceIt at h
    split at h <;> first | contradiction | cases h

theorem choice_itLaws (hm : ∀ i, LawfulRc ⟨mdec i⟩) :
    ItLaws (choiceIt tags es xs t2e mdec tm) choiceMu :=
  itLaws_mk _ _ (choiceIt_bound tags es xs t2e mdec tm (fun i n p => (hm i).consumed_le n p))
    (choice_decr tags es xs t2e mdec tm) (choice_rel tags es xs t2e mdec tm hm)

/-- CHOICE with at most one own tag over lawful alternative decoders is a lawful restartable decoder -/
theorem choiceDec_lawfulRc (hm : ∀ i, LawfulRc ⟨mdec i⟩) :
    LawfulRc (⟨choiceDec tags es xs t2e mdec tm⟩ : Dec Node) := by
  have h := lawfulRc_wrap _ (lawfulRc_of_itLaws _ _ (choice_itLaws tags es xs t2e mdec tm hm))
    ChoiceSt.ofNode ChoiceSt.toNode (fun _ => rfl)
  have e : (⟨choiceDec tags es xs t2e mdec tm⟩ : Dec Node) =
      ⟨fun n p => (ChoiceSt.toNode ((itDec (choiceIt tags es xs t2e mdec tm) choiceMu).step (ChoiceSt.ofNode n) p).1,
        ((itDec (choiceIt tags es xs t2e mdec tm) choiceMu).step (ChoiceSt.ofNode n) p).2)⟩ := by
    rfl
  rw [e]; exact h

end Choice

/-! ### SEQUENCE -/

theorem putAt_getD (ms : List Node) (i : Nat) (v : Node) : (putAt ms i v).getD i .none = v := by
  induction ms generalizing i with
  | nil =>
    induction i with
    | zero => rfl
    | succ i ih => simp only [putAt, List.getD_cons_succ]; exact ih
  | cons m ms ih =>
    cases i with
    | zero => rfl
    | succ i => simp only [putAt, List.getD_cons_succ]; exact ih i

theorem putAt_putAt (ms : List Node) (i : Nat) (a b : Node) : putAt (putAt ms i a) i b = putAt ms i b := by
  induction ms generalizing i with
  | nil =>
    induction i with
    | zero => rfl
    | succ i ih => simp only [putAt]; rw [ih]
  | cons m ms ih =>
    cases i with
    | zero => rfl
    | succ i => simp only [putAt]; rw [ih]

theorem syncEdx_getD (step edx : Nat) : (syncEdx step edx).getD (step / 2) = edx := by
  unfold syncEdx
  split
  · rename_i h; simp only [Option.getD_none]; exact (beq_iff_eq.mp h)
  · rfl

theorem seqLinear_spec (es : List Elem) (tag : Tag) (f n m : Nat) (h : seqLinear es tag f n = some (.inl m)) :
    n ≤ m ∧ m < es.length := by
  induction f generalizing n with
  | zero => simp [seqLinear] at h
  | succ f ih =>
    unfold seqLinear at h
    split at h
    · cases h
    · rename_i e he
      have hn : n < es.length := by
        rcases Nat.lt_or_ge n es.length with h' | h'
        · exact h'
        · rw [List.getElem?_eq_none h'] at he; cases he
      split at h
      · injection h with h; injection h with h; subst h; exact ⟨Nat.le_refl _, hn⟩
      · split at h
        · injection h with h; injection h with h; subst h; exact ⟨Nat.le_refl _, hn⟩
        · split at h
          · cases h
          · have := ih _ h; omega

theorem t2eBest_spec (t2e : List T2M) (count edx edxMax : Nat) (ht : ∀ e ∈ t2e, e.elNo < count) (f : Nat) (i last : Int)
    (best : Option Nat) (hb : ∀ b, best = some b → edx ≤ b ∧ b < count) (r : Nat)
    (h : t2eBest t2e edx edxMax f i last best = some r) : edx ≤ r ∧ r < count := by
  induction f generalizing i best with
  | zero => unfold t2eBest at h; exact hb r h
  | succ f ih =>
    unfold t2eBest at h
    split at h
    · exact hb r h
    · split at h
      · exact hb r h
      · rename_i e he
        split at h
        · exact hb r h
        · split at h
          · exact ih _ _ hb h
          · refine ih _ _ ?_ h
            intro b hbb
            injection hbb with hbb; subst hbb
            have hmem : e ∈ t2e := by
              split at he
              · cases he
              · exact List.mem_of_getElem? he
            exact ⟨by omega, ht e hmem⟩

theorem seqFind_spec (es : List Elem) (t2e : List T2M) (ht : ∀ e ∈ t2e, e.elNo < es.length) (tag : Tag) (edx n : Nat)
    (h : seqFind es t2e tag edx = some n) : edx ≤ n ∧ n < es.length := by
  unfold seqFind at h
  simp only at h
  split at h
  · rename_i m hm
    injection h with h; subst h
    exact seqLinear_spec _ _ _ _ _ hm
  · split at h
    · unfold seqBsearch at h
      simp only at h
      split at h
      · cases h
      · split at h
        · cases h
        · exact t2eBest_spec t2e es.length edx _ ht _ _ _ none (by intro b hb; cases hb) n h
    · cases h

section Seq
variable (tags : List Tag) (es : List Elem) (fe : Int) (t2e : List T2M) (mdec : MDec) (tm : Int)

theorem seq_phase0 (s : SeqSt) (p ext : Bytes)
    (hph : s.ctx.phase = 0) : StepRel (seqIt tags es fe t2e mdec tm) s p ext := by
  obtain ⟨⟨ph, st, lf⟩, ms, ov⟩ := s
  simp only at hph; subst hph
  rcases checkTags_cases tags st tm 1 p ext with ⟨hm, hc0, hst⟩ | ⟨hnm, heq⟩
  · apply stepRel_wait
    unfold seqIt
    simp only [hm, hc0, hst]
    rfl
  · apply stepRel_same
    · intro s' n
      unfold seqIt
      simp only
      split
      · intro hh; injection hh with _ h2 _; exact hnm h2
      · intro hh; cases hh
    · unfold seqIt
      simp only [heq]

theorem seq_micro2_rel (hm : ∀ i, LawfulRc ⟨mdec i⟩) (s : SeqSt) (edx : Nat) (p ext : Bytes) :
    OutRel (seqIt.micro2 mdec p s edx) (seqIt.micro2 mdec (p ++ ext) s edx)
      (fun s' n => seqIt.micro2 mdec (p.drop n ++ ext) s' edx) := by
  unfold OutRel
  have hd := hm edx
  rcases rc_cases (callMember (mdec edx) s.ctx.left (s.ms.getD edx .none) p).2.1 with hrc | hrc | hrc
  · have hr : callMember (mdec edx) s.ctx.left (s.ms.getD edx .none) p =
        ((callMember (mdec edx) s.ctx.left (s.ms.getD edx .none) p).1, .ok,
          (callMember (mdec edx) s.ctx.left (s.ms.getD edx .none) p).2.2) := by rw [← hrc]
    have hx := callMember_ok_ext _ hd _ _ p ext _ _ hr
    unfold seqIt.micro2
    simp only [hx, hrc]
  · have hr : callMember (mdec edx) s.ctx.left (s.ms.getD edx .none) p =
        ((callMember (mdec edx) s.ctx.left (s.ms.getD edx .none) p).1, .more,
          (callMember (mdec edx) s.ctx.left (s.ms.getD edx .none) p).2.2) := by rw [← hrc]
    obtain ⟨hk, hres⟩ := callMember_more_ext _ hd _ _ p ext _ _ hr
    generalize (callMember (mdec edx) s.ctx.left (s.ms.getD edx .none) p).1 = n1 at *
    generalize (callMember (mdec edx) s.ctx.left (s.ms.getD edx .none) p).2.2 = k at *
    have e1 : seqIt.micro2 mdec p s edx =
        .ret { s with ms := putAt s.ms edx n1, ctx := { s.ctx with left := advLeft s.ctx.left k } } .more k := by
      unfold seqIt.micro2; simp only [hr]
    rw [e1]
    simp only
    unfold seqIt.micro2
    simp only [putAt_getD, putAt_putAt]
    generalize callMember (mdec edx) (advLeft s.ctx.left k) n1 (List.drop k p ++ ext) = R2 at *
    generalize callMember (mdec edx) s.ctx.left (s.ms.getD edx .none) (p ++ ext) = R1 at *
    obtain ⟨h1, h2⟩ := hres
    simp only [shiftR] at h1 h2
    rcases rc_cases R2.2.1 with h | h | h
    · have := h2 (by rw [h1, h]; simp)
      subst this
      simp only [h, bump, advLeft_add _ _ _ _ hk]
      exact Or.inl rfl
    · have := h2 (by rw [h1, h]; simp)
      subst this
      simp only [h, bump, advLeft_add _ _ _ _ hk]
      exact Or.inl rfl
    · rw [h] at h1
      simp only [h, h1, bump]
      exact Or.inr ⟨_, _, _, _, rfl, rfl⟩
  · have hx := callMember_fail_ext _ hd _ _ p ext hrc
    unfold seqIt.micro2
    simp only [hx, hrc]
    exact ⟨_, _, rfl⟩

theorem seq_micro2_more (s s' : SeqSt) (edx : Nat) (p : Bytes) (n : Nat)
    (h : seqIt.micro2 mdec p s edx = .ret s' .more n) :
    s'.ctx.phase = s.ctx.phase ∧ s'.ctx.step = s.ctx.step ∧ s'.edxOv = s.edxOv := by
  unfold seqIt.micro2 at h
  simp only at h
  split at h
  · cases h
  · injection h with h1 _ _; subst h1; exact ⟨rfl, rfl, rfl⟩

theorem seq_at_micro2 (s : SeqSt) (q : Bytes) (hph : s.ctx.phase = 1) (hodd : s.ctx.step % 2 = 1)
    (hlt : s.edxOv.getD (s.ctx.step / 2) < es.length) :
    seqIt tags es fe t2e mdec tm s q = seqIt.micro2 mdec q s (s.edxOv.getD (s.ctx.step / 2)) := by
  obtain ⟨⟨ph, st, lf⟩, ms, ov⟩ := s
  simp only at hph hodd hlt; subst hph
  unfold seqIt
  simp only
  rw [if_neg (by omega), if_pos (by simp [hodd])]

theorem seq_search_rel (hm : ∀ i, LawfulRc ⟨mdec i⟩) (ht : ∀ e ∈ t2e, e.elNo < es.length) (s : SeqSt)
    (hph : s.ctx.phase = 1) (edx : Nat) (e : Elem) (tag : Tag) (tl : Nat) (p ext : Bytes) :
    seqIt.search es fe t2e mdec p s edx e tag tl = .ret s .more 0 ∨
    OutRel (seqIt.search es fe t2e mdec p s edx e tag tl) (seqIt.search es fe t2e mdec (p ++ ext) s edx e tag tl)
      (fun s' n => seqIt tags es fe t2e mdec tm s' (p.drop n ++ ext)) := by
  cases hf : seqFind es t2e tag edx with
  | some n =>
    right
    have hn := seqFind_spec es t2e ht tag edx n hf
    have e1 : ∀ q, seqIt.search es fe t2e mdec q s edx e tag tl =
        seqIt.micro2 mdec q { s with ctx := { s.ctx with step := 1 + 2 * n }, edxOv := none } n := by
      intro q; unfold seqIt.search; simp only [hf]
    rw [e1, e1]
    refine outRel_congr _ _ _ _ ?_ (seq_micro2_rel mdec hm _ n p ext)
    intro s' k h
    obtain ⟨h1, h2, h3⟩ := seq_micro2_more mdec _ s' n p k h
    simp only at h1 h2 h3
    have hg : s'.edxOv.getD (s'.ctx.step / 2) = n := by rw [h3, h2]; simp only [Option.getD_none]; omega
    rw [seq_at_micro2 tags es fe t2e mdec tm s' _ (by rw [h1, hph]) (by rw [h2]; omega) (by rw [hg]; exact hn.2), hg]
  | none =>
    by_cases hx : (!inExt fe (edx + e.optional)) = true
    · right
      apply outRel_same
      · intro s' n; unfold seqIt.search; simp only [hf, hx, if_true]; intro hh; cases hh
      · unfold seqIt.search; simp only [hf, hx, if_true]
    · cases hsk : winSkip s.ctx.left p tl with
      | ret rc =>
        by_cases hmr : rc = .more
        · left; subst hmr; unfold seqIt.search; simp only [hf, hx, hsk, if_false, Bool.false_eq_true]
        · right
          have hx2 : winSkip s.ctx.left (p ++ ext) tl = .ret rc := by
            rw [winSkip_ext _ _ _ _ (by rw [hsk]; intro hh; injection hh with hh; exact hmr hh), hsk]
          apply outRel_same
          · intro s' n; unfold seqIt.search; simp only [hf, hx, hsk, if_false, Bool.false_eq_true]
            intro hh; injection hh with _ h2 _; exact hmr h2
          · unfold seqIt.search; simp only [hf, hx, hsk, hx2, if_false, Bool.false_eq_true]
      | ok u skip =>
        right
        have hx2 : winSkip s.ctx.left (p ++ ext) tl = .ok u skip := by
          rw [winSkip_ext _ _ _ _ (by rw [hsk]; intro hh; cases hh), hsk]
        apply outRel_same
        · intro s' n; unfold seqIt.search; simp only [hf, hx, hsk, if_false, Bool.false_eq_true]
          intro hh; cases hh
        · unfold seqIt.search; simp only [hf, hx, hsk, hx2, if_false, Bool.false_eq_true]

/-- phase 1, microphase 1 after the end-of-structure test -/
def seqSync (s : SeqSt) (edx : Nat) (q : Bytes) : Out SeqSt :=
  let e := es.getD edx default
  let endOk := edx + e.optional == es.length || inExt fe edx
  match winFetchTag s.ctx.left q with
  | .ret rc => .ret s rc 0
  | .ok tag tl =>
    match eocTest s.ctx.left q with
    | .wait rc => .ret s rc 0
    | .yes =>
      if endOk then .cont { s with ctx := { s.ctx with phase := 3 }, edxOv := none } 0
      else seqIt.search es fe t2e mdec q s edx e tag tl
    | .no => seqIt.search es fe t2e mdec q s edx e tag tl

theorem seq_sync_rel (hm : ∀ i, LawfulRc ⟨mdec i⟩) (ht : ∀ e ∈ t2e, e.elNo < es.length) (s : SeqSt)
    (hph : s.ctx.phase = 1) (edx : Nat) (p ext : Bytes) :
    seqSync es fe t2e mdec s edx p = .ret s .more 0 ∨
    OutRel (seqSync es fe t2e mdec s edx p) (seqSync es fe t2e mdec s edx (p ++ ext))
      (fun s' n => seqIt tags es fe t2e mdec tm s' (p.drop n ++ ext)) := by
  cases hw : winFetchTag s.ctx.left p with
  | ret rc =>
    by_cases hmr : rc = .more
    · left; subst hmr; unfold seqSync; simp only [hw]
    · right
      rcases wf_ret_cases s.ctx.left p ext winFetchTag (winFetchTag_ext _ _ _) rc hw with h | hx
      · exact absurd h hmr
      · apply outRel_same
        · intro s' n; unfold seqSync; simp only [hw]
          intro hh; injection hh with _ h2 _; exact hmr h2
        · unfold seqSync; simp only [hw, hx]
  | ok tag tl =>
    have hx : winFetchTag s.ctx.left (p ++ ext) = .ok tag tl := by
      rw [winFetchTag_ext _ _ _ (by rw [hw]; intro h; cases h), hw]
    cases he : eocTest s.ctx.left p with
    | wait rc =>
      by_cases hmr : rc = .more
      · left; subst hmr; unfold seqSync; simp only [hw, he]
      · right
        rcases eoc_wait_cases s.ctx.left p ext rc he with h | h
        · exact absurd h hmr
        · apply outRel_same
          · intro s' n; unfold seqSync; simp only [hw, he]
            intro hh; injection hh with _ h2 _; exact hmr h2
          · unfold seqSync; simp only [hw, hx, he, h]
    | yes =>
      have hy : eocTest s.ctx.left (p ++ ext) = .yes := by
        rw [eocTest_ext _ _ _ (by rw [he]; intro h; cases h), he]
      by_cases hend : (edx + (es.getD edx default).optional == es.length || inExt fe edx) = true
      · right
        apply outRel_same
        · intro s' n; unfold seqSync; simp only [hw, he, hend, if_true]; intro hh; cases hh
        · unfold seqSync; simp only [hw, hx, he, hy, hend, if_true]
      · have e1 : ∀ q, winFetchTag s.ctx.left q = .ok tag tl → eocTest s.ctx.left q = .yes →
            seqSync es fe t2e mdec s edx q = seqIt.search es fe t2e mdec q s edx (es.getD edx default) tag tl := by
          intro q h1 h2; unfold seqSync; simp only [h1, h2, hend, if_false, Bool.false_eq_true]
        rw [e1 p hw he, e1 _ hx hy]
        exact seq_search_rel tags es fe t2e mdec tm hm ht s hph edx _ tag tl p ext
    | no =>
      have hy : eocTest s.ctx.left (p ++ ext) = .no := by
        rw [eocTest_ext _ _ _ (by rw [he]; intro h; cases h), he]
      have e1 : ∀ q, winFetchTag s.ctx.left q = .ok tag tl → eocTest s.ctx.left q = .no →
          seqSync es fe t2e mdec s edx q = seqIt.search es fe t2e mdec q s edx (es.getD edx default) tag tl := by
        intro q h1 h2; unfold seqSync; simp only [h1, h2]
      rw [e1 p hw he, e1 _ hx hy]
      exact seq_search_rel tags es fe t2e mdec tm hm ht s hph edx _ tag tl p ext

theorem seq_at_sync (s : SeqSt) (q : Bytes) (hph : s.ctx.phase = 1) (heven : ¬ s.ctx.step % 2 = 1)
    (hlt : s.edxOv.getD (s.ctx.step / 2) < es.length)
    (hne : ¬ ((s.ctx.left == 0 && ((s.edxOv.getD (s.ctx.step / 2)) +
        (es.getD (s.edxOv.getD (s.ctx.step / 2)) default).optional == es.length ||
          inExt fe (s.edxOv.getD (s.ctx.step / 2)))) = true)) :
    seqIt tags es fe t2e mdec tm s q = seqSync es fe t2e mdec s (s.edxOv.getD (s.ctx.step / 2)) q := by
  obtain ⟨⟨ph, st, lf⟩, ms, ov⟩ := s
  simp only at hph heven hlt hne; subst hph
  unfold seqIt seqSync
  simp only
  rw [if_neg (by omega), if_neg (by simpa using heven), if_neg hne]
  rfl

/-- phases 3 / 4 as a function of the readers -/
def seqP3 (s : SeqSt) (q : Bytes) : Out SeqSt :=
  if s.ctx.left == 0 then .ret { s with ctx := { s.ctx with phase := 10 } } .ok 0
  else
    match winFetchTag s.ctx.left q with
    | .ret rc => .ret s rc 0
    | .ok _ tl =>
      match eocTest s.ctx.left q with
      | .wait rc => .ret s rc 0
      | .yes => .cont { s with ctx := { s.ctx with left := s.ctx.left + 1, phase := 4 } } 2
      | .no =>
        if !inExt fe es.length || s.ctx.phase == 4 then .ret s .fail 0
        else
          match winSkip s.ctx.left q tl with
          | .ret rc => .ret s rc 0
          | .ok _ ll => .cont { s with ctx := { s.ctx with left := advLeft s.ctx.left (tl + ll) } } (tl + ll)

theorem seq_at_p3 (s : SeqSt) (q : Bytes) (hph : s.ctx.phase = 3 ∨ s.ctx.phase = 4) :
    seqIt tags es fe t2e mdec tm s q = seqP3 es fe s q := by
  obtain ⟨⟨ph, st, lf⟩, ms, ov⟩ := s
  simp only at hph
  rcases hph with hph | hph <;> subst hph <;> unfold seqIt seqP3 <;> rfl

theorem seq_p3_rel (s : SeqSt) (p ext : Bytes) :
    seqP3 es fe s p = .ret s .more 0 ∨
    OutRel (seqP3 es fe s p) (seqP3 es fe s (p ++ ext))
      (fun s' n => seqIt tags es fe t2e mdec tm s' (p.drop n ++ ext)) := by
  by_cases hl0 : (s.ctx.left == 0) = true
  · right
    apply outRel_same
    · intro s' n; unfold seqP3; simp only [hl0, if_true]; intro hh; cases hh
    · unfold seqP3; simp only [hl0, if_true]
  have e : ∀ q, seqP3 es fe s q =
      match winFetchTag s.ctx.left q with
      | .ret rc => .ret s rc 0
      | .ok _ tl =>
        match eocTest s.ctx.left q with
        | .wait rc => .ret s rc 0
        | .yes => .cont { s with ctx := { s.ctx with left := s.ctx.left + 1, phase := 4 } } 2
        | .no =>
          if !inExt fe es.length || s.ctx.phase == 4 then .ret s .fail 0
          else
            match winSkip s.ctx.left q tl with
            | .ret rc => .ret s rc 0
            | .ok _ ll => .cont { s with ctx := { s.ctx with left := advLeft s.ctx.left (tl + ll) } } (tl + ll) := by
    intro q; unfold seqP3; simp only [hl0, if_false, Bool.false_eq_true]
  cases hw : winFetchTag s.ctx.left p with
  | ret rc =>
    by_cases hmr : rc = .more
    · left; subst hmr; rw [e]; simp only [hw]
    · right
      rcases wf_ret_cases s.ctx.left p ext winFetchTag (winFetchTag_ext _ _ _) rc hw with h | hx
      · exact absurd h hmr
      · apply outRel_same
        · intro s' n; rw [e]; simp only [hw]
          intro hh; injection hh with _ h2 _; exact hmr h2
        · rw [e, e]; simp only [hw, hx]
  | ok tag tl =>
    have hx : winFetchTag s.ctx.left (p ++ ext) = .ok tag tl := by
      rw [winFetchTag_ext _ _ _ (by rw [hw]; intro h; cases h), hw]
    cases he : eocTest s.ctx.left p with
    | wait rc =>
      by_cases hmr : rc = .more
      · left; subst hmr; rw [e]; simp only [hw, he]
      · right
        rcases eoc_wait_cases s.ctx.left p ext rc he with h | h
        · exact absurd h hmr
        · apply outRel_same
          · intro s' n; rw [e]; simp only [hw, he]
            intro hh; injection hh with _ h2 _; exact hmr h2
          · rw [e, e]; simp only [hw, hx, he, h]
    | yes =>
      right
      have hy : eocTest s.ctx.left (p ++ ext) = .yes := by
        rw [eocTest_ext _ _ _ (by rw [he]; intro h; cases h), he]
      apply outRel_same
      · intro s' n; rw [e]; simp only [hw, he]; intro hh; cases hh
      · rw [e, e]; simp only [hw, hx, he, hy]
    | no =>
      have hy : eocTest s.ctx.left (p ++ ext) = .no := by
        rw [eocTest_ext _ _ _ (by rw [he]; intro h; cases h), he]
      by_cases hbad : (!inExt fe es.length || s.ctx.phase == 4) = true
      · right
        apply outRel_same
        · intro s' n; rw [e]; simp only [hw, he, hbad, if_true]; intro hh; cases hh
        · rw [e, e]; simp only [hw, hx, he, hy, hbad, if_true]
      · cases hsk : winSkip s.ctx.left p tl with
        | ret rc =>
          by_cases hmr : rc = .more
          · left; subst hmr; rw [e]; simp only [hw, he, hbad, hsk, if_false, Bool.false_eq_true]
          · right
            have hx2 : winSkip s.ctx.left (p ++ ext) tl = .ret rc := by
              rw [winSkip_ext _ _ _ _ (by rw [hsk]; intro hh; injection hh with hh; exact hmr hh), hsk]
            apply outRel_same
            · intro s' n; rw [e]; simp only [hw, he, hbad, hsk, if_false, Bool.false_eq_true]
              intro hh; injection hh with _ h2 _; exact hmr h2
            · rw [e, e]; simp only [hw, hx, he, hy, hbad, hsk, hx2, if_false, Bool.false_eq_true]
        | ok u ll =>
          right
          have hx2 : winSkip s.ctx.left (p ++ ext) tl = .ok u ll := by
            rw [winSkip_ext _ _ _ _ (by rw [hsk]; intro hh; cases hh), hsk]
          apply outRel_same
          · intro s' n; rw [e]; simp only [hw, he, hbad, hsk, if_false, Bool.false_eq_true]
            intro hh; cases hh
          · rw [e, e]; simp only [hw, hx, he, hy, hbad, hsk, hx2, if_false, Bool.false_eq_true]

theorem stepRel_of_or {σ : Type} (it : σ → Bytes → Out σ) (s : σ) (p ext : Bytes) (a b : Out σ)
    (ha : it s p = a) (hb : it s (p ++ ext) = b)
    (h : a = .ret s .more 0 ∨ OutRel a b (fun s' n => it s' (p.drop n ++ ext))) : StepRel it s p ext := by
  rcases h with h | h
  · exact stepRel_wait it s p ext (by rw [ha, h])
  · rw [stepRel_iff, ha, hb]; exact h

theorem seq_rel (hm : ∀ i, LawfulRc ⟨mdec i⟩)
    (ht : ∀ e ∈ t2e, e.elNo < es.length) (s : SeqSt) (p ext : Bytes) :
    StepRel (seqIt tags es fe t2e mdec tm) s p ext := by
  by_cases hph0 : s.ctx.phase = 0
  · exact seq_phase0 tags es fe t2e mdec tm s p ext hph0
  by_cases hph1 : s.ctx.phase = 1
  · by_cases hge : s.edxOv.getD (s.ctx.step / 2) ≥ es.length
    · have e : ∀ q, seqIt tags es fe t2e mdec tm s q =
          .cont { s with ctx := { s.ctx with phase := 3 }, edxOv := none } 0 := by
        intro q
        obtain ⟨⟨ph, st, lf⟩, ms, ov⟩ := s
        simp only at hph1 hge; subst hph1
        unfold seqIt; simp only; rw [if_pos hge]
      apply stepRel_same
      · intro s' n; rw [e]; intro hh; cases hh
      · rw [e, e]
    have hlt : s.edxOv.getD (s.ctx.step / 2) < es.length := by omega
    by_cases hodd : s.ctx.step % 2 = 1
    · rw [stepRel_iff, seq_at_micro2 tags es fe t2e mdec tm s p hph1 hodd hlt,
        seq_at_micro2 tags es fe t2e mdec tm s _ hph1 hodd hlt]
      refine outRel_congr _ _ _ _ ?_ (seq_micro2_rel mdec hm s _ p ext)
      intro s' n h
      obtain ⟨h1, h2, h3⟩ := seq_micro2_more mdec s s' _ p n h
      rw [seq_at_micro2 tags es fe t2e mdec tm s' _ (by rw [h1, hph1]) (by rw [h2, hodd]) (by rw [h3, h2]; exact hlt),
        h3, h2]
    · by_cases hend : ((s.ctx.left == 0 && ((s.edxOv.getD (s.ctx.step / 2)) +
          (es.getD (s.edxOv.getD (s.ctx.step / 2)) default).optional == es.length ||
            inExt fe (s.edxOv.getD (s.ctx.step / 2)))) = true)
      · have e : ∀ q, seqIt tags es fe t2e mdec tm s q = .ret { s with ctx := { s.ctx with phase := 10 } } .ok 0 := by
          intro q
          obtain ⟨⟨ph, st, lf⟩, ms, ov⟩ := s
          simp only at hph1 hlt hodd hend; subst hph1
          unfold seqIt; simp only
          rw [if_neg (by omega), if_neg (by simpa using hodd), if_pos hend]
        apply stepRel_same
        · intro s' n; rw [e]; intro hh; cases hh
        · rw [e, e]
      · exact stepRel_of_or _ s p ext _ _ (seq_at_sync tags es fe t2e mdec tm s p hph1 hodd hlt hend)
          (seq_at_sync tags es fe t2e mdec tm s _ hph1 hodd hlt hend)
          (seq_sync_rel tags es fe t2e mdec tm hm ht s hph1 _ p ext)
  by_cases hph3 : s.ctx.phase = 3 ∨ s.ctx.phase = 4
  · exact stepRel_of_or _ s p ext _ _ (seq_at_p3 tags es fe t2e mdec tm s p hph3)
      (seq_at_p3 tags es fe t2e mdec tm s _ hph3) (seq_p3_rel tags es fe t2e mdec tm s p ext)
  · have e : ∀ q, seqIt tags es fe t2e mdec tm s q = .ret s .ok 0 := by
      intro q
      unfold seqIt
      split <;> first | contradiction | rfl | (exfalso; apply hph3; simp_all)
    apply stepRel_same
    · intro s' n; rw [e]; intro hh; cases hh
    · rw [e, e]

/-- the fuel measure of the SEQUENCE machine (`seqMeasure` − 1) -/
def seqRank (count : Nat) (s : SeqSt) : Nat :=
  match s.ctx.phase with
  | 0 => 2 * count + 5
  | 1 => 2 * count + 4 - min (2 * (s.edxOv.getD (s.ctx.step / 2)) + s.ctx.step % 2) (2 * count + 3)
  | _ => 0

def seqMu (count : Nat) (s : SeqSt) (bs : Bytes) : Nat := (2 * count + 6) * bs.length + seqRank count s

theorem seqRank_p34 (count : Nat) (s : SeqSt) (h : s.ctx.phase = 3 ∨ s.ctx.phase = 4) : seqRank count s = 0 := by
  unfold seqRank; rcases h with h | h <;> simp only [h]

theorem seqRank_le (count : Nat) (s : SeqSt) : seqRank count s ≤ 2 * count + 5 := by
  unfold seqRank; split <;> omega

theorem mul_sub_le (K a n : Nat) : K * (a - n) ≤ K * a := Nat.mul_le_mul_left K (Nat.sub_le a n)

theorem mul_sub_lt (K a d r r' : Nat) (hd : 1 ≤ d) (hda : d ≤ a) (hr' : r' < K) : K * (a - d) + r' < K * a + r := by
  have h1 : K * ((a - d) + 1) ≤ K * a := Nat.mul_le_mul_left K (by omega)
  rw [Nat.mul_succ] at h1
  omega

theorem seq_micro2_cont (s s' : SeqSt) (edx : Nat) (p : Bytes) (n : Nat)
    (h : seqIt.micro2 mdec p s edx = .cont s' n) :
    s'.ctx.phase = s.ctx.phase ∧ s'.ctx.step = s.ctx.step / 2 * 2 + 2 ∧
      s'.edxOv = syncEdx (s.ctx.step / 2 * 2 + 2) (edx + 1) := by
  unfold seqIt.micro2 at h
  simp only at h
  split at h
  · injection h with h1 _; subst h1; exact ⟨rfl, rfl, rfl⟩
  · cases h

theorem seq_search_decr (ht : ∀ e ∈ t2e, e.elNo < es.length) (s : SeqSt) (hph : s.ctx.phase = 1)
    (heven : s.ctx.step % 2 = 0) (edx : Nat) (hedx : edx = s.edxOv.getD (s.ctx.step / 2)) (hlt : edx < es.length)
    (e : Elem) (tag : Tag) (tl : Nat) (p : Bytes) (htl : 1 ≤ tl ∧ tl ≤ leftOf s.ctx.left p.length ∧ tl ≤ p.length)
    (s' : SeqSt) (n : Nat)
    (h : seqIt.search es fe t2e mdec p s edx e tag tl = .cont s' n) (hn : n ≤ p.length) :
    seqMu es.length s' (p.drop n) < seqMu es.length s p := by
  unfold seqMu seqRank
  simp only [List.length_drop]
  unfold seqIt.search at h
  split at h
  · rename_i m hf
    obtain ⟨h1, h2, h3⟩ := seq_micro2_cont mdec _ s' m p n h
    simp only at h1 h2 h3
    have hm := seqFind_spec es t2e ht tag edx m hf
    have hg : s'.edxOv.getD (s'.ctx.step / 2) = m + 1 := by rw [h3, h2]; exact syncEdx_getD _ _
    have hs2 : s'.ctx.step % 2 = 0 := by rw [h2]; omega
    rw [h1, hph, hg, hs2, ← hedx, heven]
    simp only
    have := mul_sub_le (2 * es.length + 6) p.length n
    omega
  · split at h
    · cases h
    · split at h
      · cases h
      · rename_i u skip hsk
        injection h with h1 h2; subst h1; subst h2
        have hsk' := winSkip_le _ _ _ _ _ hsk
        have hl := leftOf_le s.ctx.left p.length
        simp only [hph]
        refine mul_sub_lt _ _ _ _ _ (by omega) hn ?_
        omega

theorem seq_decr (hm : ∀ i, LawfulRc ⟨mdec i⟩) (ht : ∀ e ∈ t2e, e.elNo < es.length)
    (s : SeqSt) (p : Bytes) (s' : SeqSt) (n : Nat) (h : seqIt tags es fe t2e mdec tm s p = .cont s' n) :
    seqMu es.length s' (p.drop n) < seqMu es.length s p := by
  have hn : n ≤ p.length := by
    have := seqIt_bound tags es fe t2e mdec tm (fun i n p => (hm i).consumed_le n p) s p
    rw [h] at this; exact this
  by_cases hph0 : s.ctx.phase = 0
  · unfold seqMu seqRank
    simp only [List.length_drop]
    unfold seqIt at h
    simp only [hph0] at h
    split at h
    · cases h
    · injection h with h1 _; subst h1
      simp only [hph0, Option.getD_none]
      have := mul_sub_le (2 * es.length + 6) p.length n
      omega
  by_cases hph1 : s.ctx.phase = 1
  · by_cases hge : s.edxOv.getD (s.ctx.step / 2) ≥ es.length
    · have e : seqIt tags es fe t2e mdec tm s p =
          .cont { s with ctx := { s.ctx with phase := 3 }, edxOv := none } 0 := by
        obtain ⟨⟨ph, st, lf⟩, ms, ov⟩ := s
        simp only at hph1 hge; subst hph1
        unfold seqIt; simp only; rw [if_pos hge]
      rw [e] at h
      injection h with h1 h2; subst h1; subst h2
      unfold seqMu seqRank
      simp only [hph1, List.drop_zero]
      omega
    have hlt : s.edxOv.getD (s.ctx.step / 2) < es.length := by omega
    by_cases hodd : s.ctx.step % 2 = 1
    · rw [seq_at_micro2 tags es fe t2e mdec tm s p hph1 hodd hlt] at h
      obtain ⟨h1, h2, h3⟩ := seq_micro2_cont mdec s s' _ p n h
      have hg : s'.edxOv.getD (s'.ctx.step / 2) = s.edxOv.getD (s.ctx.step / 2) + 1 := by
        rw [h3, h2]; exact syncEdx_getD _ _
      have hs2 : s'.ctx.step % 2 = 0 := by rw [h2]; omega
      unfold seqMu seqRank
      simp only [List.length_drop]
      rw [h1, hph1, hg, hs2, hodd]
      simp only
      have := mul_sub_le (2 * es.length + 6) p.length n
      omega
    · by_cases hend : ((s.ctx.left == 0 && ((s.edxOv.getD (s.ctx.step / 2)) +
          (es.getD (s.edxOv.getD (s.ctx.step / 2)) default).optional == es.length ||
            inExt fe (s.edxOv.getD (s.ctx.step / 2)))) = true)
      · have e : seqIt tags es fe t2e mdec tm s p = .ret { s with ctx := { s.ctx with phase := 10 } } .ok 0 := by
          obtain ⟨⟨ph, st, lf⟩, ms, ov⟩ := s
          simp only at hph1 hlt hodd hend; subst hph1
          unfold seqIt; simp only
          rw [if_neg (by omega), if_neg (by simpa using hodd), if_pos hend]
        rw [e] at h; cases h
      · rw [seq_at_sync tags es fe t2e mdec tm s p hph1 hodd hlt hend] at h
        unfold seqSync at h
        simp only at h
        split at h
        · cases h
        · rename_i tag tl hw
          have htl := winFetchTag_le _ _ _ _ hw
          split at h
          · cases h
          · split at h
            · injection h with h1 h2; subst h1; subst h2
              unfold seqMu seqRank
              simp only [hph1, List.drop_zero]
              omega
            · exact seq_search_decr es fe t2e mdec ht s hph1 (by omega) _ rfl hlt _ tag tl p htl s' n h hn
          · exact seq_search_decr es fe t2e mdec ht s hph1 (by omega) _ rfl hlt _ tag tl p htl s' n h hn
  by_cases hph3 : s.ctx.phase = 3 ∨ s.ctx.phase = 4
  · rw [seq_at_p3 tags es fe t2e mdec tm s p hph3] at h
    have hr := seqRank_p34 es.length s hph3
    unfold seqMu
    simp only [List.length_drop]
    rw [hr]
    unfold seqP3 at h
    split at h
    · cases h
    · split at h
      · cases h
      · rename_i tag tl hw
        have htl := winFetchTag_le _ _ _ _ hw
        split at h
        · cases h
        · rename_i hy
          have := eocTest_yes_le _ _ hy
          injection h with h1 h2; subst h1; subst h2
          rw [seqRank_p34 _ _ (Or.inr rfl)]
          exact mul_sub_lt _ _ _ _ _ (by omega) (by omega) (by omega)
        · split at h
          · cases h
          · split at h
            · cases h
            · rename_i u ll hsk
              injection h with h1 h2; subst h1; subst h2
              rw [seqRank_p34 _ _ (by simpa using hph3)]
              exact mul_sub_lt _ _ _ _ _ (by omega) hn (by omega)
  · have e : seqIt tags es fe t2e mdec tm s p = .ret s .ok 0 := by
      unfold seqIt
      split <;> first | contradiction | rfl | (exfalso; apply hph3; simp_all)
    rw [e] at h; cases h

theorem seq_itLaws (hm : ∀ i, LawfulRc ⟨mdec i⟩)
    (ht : ∀ e ∈ t2e, e.elNo < es.length) : ItLaws (seqIt tags es fe t2e mdec tm) (seqMu es.length) :=
  itLaws_mk _ _ (seqIt_bound tags es fe t2e mdec tm (fun i n p => (hm i).consumed_le n p))
    (seq_decr tags es fe t2e mdec tm hm ht) (seq_rel tags es fe t2e mdec tm hm ht)

/-- SEQUENCE with a single-tag chain, a `tag2el` table pointing into the member table and lawful member
    decoders is a lawful restartable decoder -/
theorem seqDec_lawfulRc (hm : ∀ i, LawfulRc ⟨mdec i⟩)
    (ht : ∀ e ∈ t2e, e.elNo < es.length) : LawfulRc (⟨seqDec tags es fe t2e mdec tm⟩ : Dec Node) := by
  have h := lawfulRc_wrap _ (lawfulRc_of_itLaws _ _ (seq_itLaws tags es fe t2e mdec tm hm ht))
    (SeqSt.ofNode es.length) SeqSt.toNode (fun _ => rfl)
  have e : (⟨seqDec tags es fe t2e mdec tm⟩ : Dec Node) =
      ⟨fun n p => (SeqSt.toNode ((itDec (seqIt tags es fe t2e mdec tm) (seqMu es.length)).step
          (SeqSt.ofNode es.length n) p).1,
        ((itDec (seqIt tags es fe t2e mdec tm) (seqMu es.length)).step (SeqSt.ofNode es.length n) p).2)⟩ := by
    rfl
  rw [e]; exact h

end Seq

end Asn1c.Proofs.BerStream
