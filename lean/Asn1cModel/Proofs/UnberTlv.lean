import Asn1cModel.Impl.UnberTlv
import Asn1cModel.Spec.TlvForest
import Mathlib.Tactic.NormNum
import Mathlib.Tactic.IntervalCases
/-
  Lemmas relating the TL primitives of `Impl.UnberTlv` to the X.690 octets of `Spec.TlvForest`:
  fetching a complete identifier / length field, fetching a proper prefix of one (`more`),
  and the two serializers.
-/
namespace Asn1c.Proofs.UnberTlv
open Asn1c Asn1c.Impl.UnberTlv Asn1c.Spec.TlvForest

/-! ### identifier octets -/

theorem contOctets_zero : contOctets 0 = [] := by
  rw [contOctets]; simp

theorem contOctets_pos {m : Nat} (h : m ≠ 0) : contOctets m = contOctets (m / 128) ++ [128 + m % 128] := by
  rw [contOctets]; simp [h]

/-- the continuation octets of `m` take the loop from `val = 0` to `val = m` -/
theorem fetchTagLoop_cont (tclass : Nat) : ∀ (m : Nat) (rest : Bytes) (skipped size : Nat),
    m < 2 ^ 23 → skipped + (contOctets m).length ≤ size + 1 →
    fetchTagLoop tclass (contOctets m ++ rest) 0 skipped size
      = fetchTagLoop tclass rest m (skipped + (contOctets m).length) size := by
  intro m
  induction m using Nat.strongRecOn with
  | _ m ih =>
    intro rest skipped size hm hs
    by_cases h0 : m = 0
    · subst h0; simp [contOctets_zero]
    · rw [contOctets_pos h0] at hs ⊢
      simp only [List.length_append, List.length_cons, List.length_nil] at hs ⊢
      rw [List.append_assoc, ih (m / 128) (by omega) _ skipped size (by omega) (by omega)]
      simp only [List.cons_append, List.nil_append, fetchTagLoop]
      rw [if_pos (by omega), if_pos (by omega), if_neg (by omega)]
      congr 1
      · omega

/-- a proper or improper prefix of continuation octets leaves the loop waiting for more -/
theorem fetchTagLoop_prefix_more (tclass : Nat) : ∀ (m : Nat) (p : Bytes) (skipped size : Nat),
    m < 2 ^ 23 → p <+: contOctets m → skipped + p.length = size + 1 →
    fetchTagLoop tclass p 0 skipped size = .more := by
  intro m
  induction m using Nat.strongRecOn with
  | _ m ih =>
    intro p skipped size hm hp hs
    by_cases h0 : m = 0
    · subst h0
      rw [contOctets_zero] at hp
      have : p = [] := List.prefix_nil.mp hp
      subst this
      simp only [List.length_nil] at hs
      simp [fetchTagLoop]; omega
    · rw [contOctets_pos h0, List.prefix_concat_iff] at hp
      rcases hp with hp | hp
      · have := fetchTagLoop_cont tclass m [] skipped size hm (by
          rw [contOctets_pos h0, ← hp]; omega)
        rw [List.append_nil, contOctets_pos h0, ← hp] at this
        rw [this]
        simp [fetchTagLoop]; omega
      · exact ih (m / 128) (by omega) p skipped size (by omega) hp hs

theorem identOctets_short {c : Nat} {k : Bool} {n : Nat} (h : n ≤ 30) :
    identOctets c k n = [c * 64 + (if k = true then 32 else 0) + n] := by
  simp [identOctets, h]

theorem identOctets_long {c : Nat} {k : Bool} {n : Nat} (h : ¬ n ≤ 30) :
    identOctets c k n = (c * 64 + (if k = true then 32 else 0) + 31) :: (contOctets (n / 128) ++ [n % 128]) := by
  simp [identOctets, h]

theorem identOctets_length_pos (c : Nat) (k : Bool) (n : Nat) : 0 < (identOctets c k n).length := by
  by_cases h : n ≤ 30
  · rw [identOctets_short h]; simp
  · rw [identOctets_long h]; simp

/-- `ber_fetch_tag` on a buffer that starts with a complete identifier -/
theorem fetchTag_ident (c : Nat) (k : Bool) (n : Nat) (rest : Bytes) (size : Nat)
    (_hc : c < 4) (hn : n < 2 ^ 30) (hs : (identOctets c k n).length ≤ size) :
    fetchTag (identOctets c k n ++ rest) size = .ok (tagOf c n) (identOctets c k n).length := by
  have hpos := identOctets_length_pos c k n
  have hpc : (if k = true then 32 else 0) = 0 ∨ (if k = true then 32 else 0) = 32 := by
    cases k <;> simp
  unfold fetchTag tagOf
  rw [if_neg (by omega)]
  by_cases h : n ≤ 30
  · rw [identOctets_short h]
    generalize (if k = true then 32 else 0) = pc at hpc
    simp only [List.cons_append, List.nil_append, List.length_cons, List.length_nil]
    rw [if_pos (by omega)]; congr 1; omega
  · rw [identOctets_long h] at hs ⊢
    generalize (if k = true then 32 else 0) = pc at hpc
    simp only [List.cons_append, List.length_cons, List.length_append, List.length_nil] at hs ⊢
    rw [if_neg (by omega), List.append_assoc,
      fetchTagLoop_cont _ (n / 128) _ 2 size (by omega) (by omega)]
    simp only [List.cons_append, List.nil_append, fetchTagLoop]
    rw [if_pos (by omega), if_neg (by omega)]
    congr 1
    · omega
    · omega

/-- `ber_fetch_tag` on a non-empty proper prefix of an identifier wants more data -/
theorem fetchTag_ident_prefix (c : Nat) (k : Bool) (n : Nat) (p s : Bytes)
    (hn : n < 2 ^ 30) (hps : p ++ s = identOctets c k n) (hp : p ≠ []) (hsne : s ≠ []) :
    fetchTag p p.length = .more := by
  have h1 : 0 < p.length := List.length_pos_iff.mpr hp
  have h2 : 0 < s.length := List.length_pos_iff.mpr hsne
  have hpc : (if k = true then 32 else 0) = 0 ∨ (if k = true then 32 else 0) = 32 := by
    cases k <;> simp
  by_cases h : n ≤ 30
  · -- single octet: no non-empty proper prefix
    exfalso
    rw [identOctets_short h] at hps
    have := congrArg List.length hps
    simp at this
    omega
  · rw [identOctets_long h] at hps
    generalize (if k = true then 32 else 0) = pc at hpc hps
    cases p with
    | nil => exact absurd rfl hp
    | cons b p' =>
      simp only [List.cons_append, List.cons.injEq] at hps
      obtain ⟨hb, hps⟩ := hps
      unfold fetchTag
      rw [if_neg (by simp)]
      simp only
      rw [if_neg (by omega)]
      -- p' is a prefix of the continuation octets
      have hpre : p' <+: contOctets (n / 128) := by
        have h1 : p' <+: contOctets (n / 128) ++ [n % 128] := ⟨s, hps⟩
        rw [List.prefix_concat_iff] at h1
        rcases h1 with h1 | h1
        · exfalso
          rw [h1] at hps
          have := congrArg List.length hps
          simp only [List.length_append, List.length_cons, List.length_nil] at this
          omega
        · exact h1
      exact fetchTagLoop_prefix_more _ (n / 128) p' 2 _ (by omega) hpre (by simp only [List.length_cons]; omega)

/-! ### length octets -/

theorem toBEn_length (k n : Nat) : (toBEn k n).length = k := by
  induction k with
  | zero => simp [toBEn]
  | succ k ih => simp [toBEn, ih]

/-- reading the `k` big-endian octets of `n`: the loop value goes from `len` to
    `len * 256^k + n % 256^k`, provided that value fits (no overflow guard fires) -/
theorem fetchLenLoop_toBEn : ∀ (k n : Nat) (rest : Bytes) (j len skipped size : Nat),
    len * 256 ^ k + n % 256 ^ k < 2 ^ 62 → skipped + k ≤ size →
    fetchLenLoop (toBEn k n ++ rest) (k + j) len skipped size
      = fetchLenLoop rest j (len * 256 ^ k + n % 256 ^ k) (skipped + k) size := by
  intro k
  induction k with
  | zero => intro n rest j len skipped size _ _; simp [toBEn, Nat.mod_one]
  | succ k ih =>
    intro n rest j len skipped size hb hs
    have hP : 0 < 256 ^ k := Nat.pow_pos (by norm_num)
    have hmod : n % 256 ^ (k + 1) = n % 256 ^ k + 256 ^ k * (n / 256 ^ k % 256) := Nat.mod_pow_succ
    have hpow : 256 ^ (k + 1) = 256 ^ k * 256 := Nat.pow_succ 256 k
    rw [hmod, hpow] at hb
    generalize hd : n / 256 ^ k % 256 = d at hb hmod
    have hdlt : d < 256 := by rw [← hd]; exact Nat.mod_lt _ (by norm_num)
    have e1 : len * (256 ^ k * 256) = len * 256 * 256 ^ k := by
      rw [Nat.mul_comm (256 ^ k) 256, Nat.mul_assoc]
    have e2 : (len * 256 + d) * 256 ^ k = len * 256 * 256 ^ k + 256 ^ k * d := by
      rw [Nat.add_mul, Nat.mul_comm d]
    have hlen : len * 256 ≤ len * 256 * 256 ^ k := Nat.le_mul_of_pos_right _ hP
    simp only [toBEn, List.cons_append]
    rw [show k + 1 + j = (k + j) + 1 by omega, hd]
    simp only [fetchLenLoop]
    rw [if_pos (by omega), if_pos (by omega)]
    rw [ih n rest j (len * 256 + d) (skipped + 1) size (by rw [e2]; omega) (by omega)]
    rw [hmod, hpow]
    congr 1
    · rw [e1, e2]; omega
    · omega

/-- a proper prefix (the first `i < k` of `k` announced octets): more data wanted -/
theorem fetchLenLoop_take_more : ∀ (k n i len skipped : Nat),
    i < k → len * 256 ^ k + n % 256 ^ k < 2 ^ 62 →
    fetchLenLoop ((toBEn k n).take i) k len skipped (skipped + i) = .more := by
  intro k
  induction k with
  | zero => intro n i len skipped hi; omega
  | succ k ih =>
    intro n i len skipped hi hb
    cases i with
    | zero => simp [fetchLenLoop]
    | succ i =>
      have hP : 0 < 256 ^ k := Nat.pow_pos (by norm_num)
      have hmod : n % 256 ^ (k + 1) = n % 256 ^ k + 256 ^ k * (n / 256 ^ k % 256) := Nat.mod_pow_succ
      have hpow : 256 ^ (k + 1) = 256 ^ k * 256 := Nat.pow_succ 256 k
      rw [hmod, hpow] at hb
      generalize hd : n / 256 ^ k % 256 = d at hb
      have e1 : len * (256 ^ k * 256) = len * 256 * 256 ^ k := by
        rw [Nat.mul_comm (256 ^ k) 256, Nat.mul_assoc]
      have e2 : (len * 256 + d) * 256 ^ k = len * 256 * 256 ^ k + 256 ^ k * d := by
        rw [Nat.add_mul, Nat.mul_comm d]
      have hlen : len * 256 ≤ len * 256 * 256 ^ k := Nat.le_mul_of_pos_right _ hP
      simp only [toBEn, List.take_succ_cons, hd, fetchLenLoop]
      rw [if_pos (by omega), if_pos (by omega)]
      have := ih n i (len * 256 + d) (skipped + 1) (by omega) (by rw [e2]; omega)
      rw [show skipped + (i + 1) = skipped + 1 + i by omega]
      exact this

theorem lenOctets_length (lf : LenForm) (n : Nat) :
    (lenOctets lf n).length = match lf with | .short => 1 | .long k => k + 1 := by
  cases lf <;> simp [lenOctets, toBEn_length]

/-- `ber_fetch_length` on a buffer that starts with a complete definite length field -/
theorem fetchLength_lenOctets (lf : LenForm) (n : Nat) (constr : Bool) (rest : Bytes) (size : Nat)
    (hv : lf.valid n = true) (hn : n < 2 ^ 62) (hs : (lenOctets lf n).length ≤ size) :
    fetchLength constr (lenOctets lf n ++ rest) size = .ok (Int.ofNat n) (lenOctets lf n).length := by
  cases lf with
  | short =>
    simp only [LenForm.valid, decide_eq_true_eq] at hv
    simp only [lenOctets, List.length_cons, List.length_nil] at hs ⊢
    simp only [fetchLength, List.cons_append, List.nil_append]
    rw [if_neg (by omega), if_pos (by omega)]
  | long k =>
    simp only [LenForm.valid, Bool.and_eq_true, decide_eq_true_eq] at hv
    obtain ⟨⟨hk1, hk2⟩, hnk⟩ := hv
    simp only [lenOctets, List.length_cons, toBEn_length] at hs ⊢
    simp only [fetchLength, List.cons_append]
    rw [if_neg (by omega), if_neg (by omega)]
    have h128 : ((constr && (128 + k == 128)) = true) = False := by
      have : (128 + k == 128) = false := by simp; omega
      simp [this]
    have h255 : ((128 + k == 255) = true) = False := by
      have : (128 + k == 255) = false := by simp; omega
      simp [this]
    rw [if_neg (by rw [h128]; exact id), if_neg (by rw [h255]; exact id)]
    have hk : (128 + k) % 128 = k + 0 := by omega
    rw [hk, fetchLenLoop_toBEn k n rest 0 0 1 size (by rw [Nat.mod_eq_of_lt hnk]; omega) (by omega)]
    rw [Nat.mod_eq_of_lt hnk]
    simp only [Nat.zero_mul, Nat.zero_add, fetchLenLoop]
    rw [if_neg (by omega)]
    congr 1; omega

/-- `ber_fetch_length` on a proper prefix of a definite length field wants more data -/
theorem fetchLength_prefix (lf : LenForm) (n : Nat) (constr : Bool) (p s : Bytes)
    (hv : lf.valid n = true) (hn : n < 2 ^ 62) (hps : p ++ s = lenOctets lf n) (hsne : s ≠ []) :
    fetchLength constr p p.length = .more := by
  have h2 : 0 < s.length := List.length_pos_iff.mpr hsne
  cases p with
  | nil => simp [fetchLength]
  | cons b p' =>
    cases lf with
    | short =>
      exfalso
      have := congrArg List.length hps
      simp only [lenOctets, List.length_append, List.length_cons, List.length_nil] at this
      omega
    | long k =>
      simp only [LenForm.valid, Bool.and_eq_true, decide_eq_true_eq] at hv
      obtain ⟨⟨hk1, hk2⟩, hnk⟩ := hv
      simp only [lenOctets, List.cons_append, List.cons.injEq] at hps
      obtain ⟨hb, hps⟩ := hps
      subst hb
      have hpre : p' <+: toBEn k n := ⟨s, hps⟩
      have hlen : p'.length < k := by
        have := congrArg List.length hps
        simp only [List.length_append, toBEn_length] at this
        omega
      rw [List.prefix_iff_eq_take] at hpre
      simp only [fetchLength, List.length_cons]
      rw [if_neg (by omega), if_neg (by omega)]
      have h128 : ((constr && (128 + k == 128)) = true) = False := by
        have : (128 + k == 128) = false := by simp; omega
        simp [this]
      have h255 : ((128 + k == 255) = true) = False := by
        have : (128 + k == 255) = false := by simp; omega
        simp [this]
      rw [if_neg (by rw [h128]; exact id), if_neg (by rw [h255]; exact id)]
      have hk : (128 + k) % 128 = k := by omega
      have := fetchLenLoop_take_more k n p'.length 0 1 hlen (by rw [Nat.mod_eq_of_lt hnk]; omega)
      rw [← hpre] at this
      rw [hk, show p'.length + 1 = 1 + p'.length by omega]
      exact this

/-- the indefinite form `80` of a constructed TLV -/
theorem fetchLength_indef (rest : Bytes) (size : Nat) (hs : 1 ≤ size) :
    fetchLength true (128 :: rest) size = .ok (-1) 1 := by
  simp only [fetchLength]
  rw [if_neg (by omega), if_neg (by omega)]
  simp

/-! ### the serializers used by enber -/

theorem contOctets_lt128 {m : Nat} (h0 : m ≠ 0) (h : m < 128) : contOctets m = [128 + m] := by
  rw [contOctets_pos h0, show m / 128 = 0 by omega, contOctets_zero, Nat.mod_eq_of_lt h]; rfl

theorem tagRequired_eq (n : Nat) :
    (n < 128 → tagRequired n = 1) ∧ (128 ≤ n → n < 16384 → tagRequired n = 2)
    ∧ (16384 ≤ n → n < 2097152 → tagRequired n = 3) ∧ (2097152 ≤ n → n < 268435456 → tagRequired n = 4)
    ∧ (268435456 ≤ n → tagRequired n = 5) := by
  unfold tagRequired
  simp only [Nat.reducePow]
  refine ⟨?_, ?_, ?_, ?_, ?_⟩ <;> intros <;>
    (repeat (first | rw [if_pos (by omega)] | rw [if_neg (by omega)]))

/-- `ber_tlv_tag_serialize` produces the X.690 identifier octets (P/C bit clear) -/
theorem tagSerialize_ident (c n : Nat) (hc : c < 4) (hn : n < 2 ^ 30) :
    tagSerialize (n * 4 + c) 32 = (identOctets c false n, (identOctets c false n).length) := by
  unfold tagSerialize tagClass tagValue
  have e1 : (n * 4 + c) % 4 = c := by omega
  have e2 : (n * 4 + c) / 4 = n := by omega
  simp only [e1, e2]
  by_cases h : n ≤ 30
  · rw [identOctets_short h, if_pos h]; simp
  · rw [identOctets_long h, if_neg h]
    simp only [Bool.false_eq_true, if_false, Nat.add_zero, Nat.reduceGT, if_true,
      Nat.reduceSub, List.cons_append, List.nil_append, List.length_cons, List.length_append, List.length_nil]
    obtain ⟨q1, q2, q3, q4, q5⟩ := tagRequired_eq n
    simp only [Nat.reducePow] at hn
    by_cases r1 : n < 128
    · rw [q1 r1, if_neg (by omega), show n / 128 = 0 by omega, contOctets_zero]
      simp [tagGroupOctets]
    have c1 : contOctets (n / 128) = contOctets (n / 128 / 128) ++ [128 + n / 128 % 128] :=
      contOctets_pos (by omega)
    by_cases r2 : n < 16384
    · rw [q2 (by omega) r2, if_neg (by omega), contOctets_lt128 (by omega) (by omega)]
      simp [tagGroupOctets]; omega
    have c2 : contOctets (n / 128 / 128) = contOctets (n / 128 / 128 / 128) ++ [128 + n / 128 / 128 % 128] :=
      contOctets_pos (by omega)
    by_cases r3 : n < 2097152
    · rw [q3 (by omega) r3, if_neg (by omega), c1, contOctets_lt128 (by omega) (by omega)]
      simp [tagGroupOctets]; omega
    have c3 : contOctets (n / 128 / 128 / 128) = contOctets (n / 128 / 128 / 128 / 128) ++ [128 + n / 128 / 128 / 128 % 128] :=
      contOctets_pos (by omega)
    by_cases r4 : n < 268435456
    · rw [q4 (by omega) r4, if_neg (by omega), c1, c2, contOctets_lt128 (by omega) (by omega)]
      simp [tagGroupOctets]; omega
    rw [q5 (by omega), if_neg (by omega), c1, c2, c3, contOctets_lt128 (by omega) (by omega)]
    simp [tagGroupOctets]; omega

/-- `der_tlv_length_serialize` produces the minimal form of the length octets -/
theorem lenSerialize_minimal (lf : LenForm) (n size : Nat) (hmin : lf.minimal n = true) (hn : n < 2 ^ 62)
    (hs : 10 ≤ size) :
    lenSerialize n size = (lenOctets lf n, (lenOctets lf n).length) := by
  unfold lenSerialize
  cases lf with
  | short =>
    simp only [LenForm.minimal, decide_eq_true_eq] at hmin
    rw [if_pos hmin, if_pos (by omega)]
    simp [lenOctets]
  | long k =>
    simp only [LenForm.minimal, Bool.and_eq_true, decide_eq_true_eq] at hmin
    obtain ⟨⟨h128, hlo⟩, hhi⟩ := hmin
    rw [if_neg (by omega)]
    have hk8 : k ≤ 8 := by
      by_cases h : k ≤ 8
      · exact h
      · exfalso
        have : 256 ^ 8 ≤ 256 ^ (k - 1) := Nat.pow_le_pow_right (by norm_num) (by omega)
        norm_num at this hn; omega
    have hk1 : 1 ≤ k := by
      by_cases h : 1 ≤ k
      · exact h
      · exfalso
        have : k = 0 := by omega
        subst this; simp at hhi; omega
    have hreq : lenRequired n = k := by
      unfold lenRequired
      simp only [Nat.reducePow]
      interval_cases k <;> norm_num at hlo hhi <;>
        (repeat (first | rw [if_pos (by omega)] | rw [if_neg (by omega)]))
    simp only [hreq]
    rw [if_neg (by omega)]
    simp [lenOctets, toBEn_length]

/-- the minimal length form of `len` -/
def minForm (len : Nat) : LenForm := if len ≤ 127 then .short else .long (lenRequired len)

theorem lenRequired_bounds (len : Nat) (h : len < 2 ^ 62) (h128 : 128 ≤ len) :
    1 ≤ lenRequired len ∧ lenRequired len ≤ 8 ∧ 256 ^ (lenRequired len - 1) ≤ len ∧ len < 256 ^ lenRequired len := by
  unfold lenRequired
  simp only [Nat.reducePow] at h ⊢
  by_cases r1 : len / 256 = 0
  · rw [if_pos r1]; norm_num; omega
  rw [if_neg r1]
  by_cases r2 : len / 65536 = 0
  · rw [if_pos r2]; norm_num; omega
  rw [if_neg r2]
  by_cases r3 : len / 16777216 = 0
  · rw [if_pos r3]; norm_num; omega
  rw [if_neg r3]
  by_cases r4 : len / 4294967296 = 0
  · rw [if_pos r4]; norm_num; omega
  rw [if_neg r4]
  by_cases r5 : len / 1099511627776 = 0
  · rw [if_pos r5]; norm_num; omega
  rw [if_neg r5]
  by_cases r6 : len / 281474976710656 = 0
  · rw [if_pos r6]; norm_num; omega
  rw [if_neg r6]
  by_cases r7 : len / 72057594037927936 = 0
  · rw [if_pos r7]; norm_num; omega
  rw [if_neg r7]; norm_num; omega

theorem minForm_minimal (len : Nat) (h : len < 2 ^ 62) : (minForm len).minimal len = true := by
  unfold minForm
  by_cases h127 : len ≤ 127
  · rw [if_pos h127]; simp [LenForm.minimal, h127]
  · rw [if_neg h127]
    have := lenRequired_bounds len h (by omega)
    simp only [LenForm.minimal, Bool.and_eq_true, decide_eq_true_eq]
    exact ⟨⟨by omega, this.2.2.1⟩, this.2.2.2⟩

theorem minForm_valid (len : Nat) (h : len < 2 ^ 62) : (minForm len).valid len = true := by
  unfold minForm
  by_cases h127 : len ≤ 127
  · rw [if_pos h127]; simp [LenForm.valid, h127]
  · rw [if_neg h127]
    have := lenRequired_bounds len h (by omega)
    simp only [LenForm.valid, Bool.and_eq_true, decide_eq_true_eq]
    exact ⟨⟨this.1, by omega⟩, this.2.2.2⟩

end Asn1c.Proofs.UnberTlv
