import Asn1cModel.Proofs.BerStreamOstr
/-
  Assembly over descriptor trees: every decoder started on a fresh structure consumes at least one octet
  before RC_OK (needed for the SET OF loop), and `dec td tm` obeys the restart laws on `inDomain` trees.
-/
namespace Asn1c.Proofs.BerStream
open Asn1c Asn1c.Impl.BerTlv Asn1c.Impl.Restart Asn1c.Impl.BerStream Asn1c.Proofs.L2Tlv

/-! ### progress: RC_OK on a fresh structure consumes at least one octet -/

def ProgressFresh (d : Node → Bytes → Node × Rc × Nat) : Prop := ∀ q n' k, d .none q = (n', .ok, k) → 1 ≤ k

def OkGe (cons : Nat) (r : CT) : Prop := r.rc = .ok → cons ≤ r.consumed

theorem ctLoop_ok_ge (tags : List Tag) (tm lf : Int) (hc : Bool) (rem : Nat) (tagno : Int) (step : Nat) (limit : Int)
    (e00 : Nat) (tlvLen constr : Int) (cons : Nat) (bs : Bytes) :
    OkGe cons (ctLoop tags tm lf hc rem tagno step limit e00 tlvLen constr cons bs) := by
  fun_induction ctLoop tags tm lf hc rem tagno step limit e00 tlvLen constr cons bs
  all_goals (first
    | (rename_i ih; intro h; have := ih h; omega)
    | (simp [OkGe, ctRet]))

theorem ctLoop_ok_pos (tags : List Tag) (tm lf : Int) (hc : Bool) (rem : Nat) (hrem : 1 ≤ rem) (tagno : Int) (step : Nat)
    (limit : Int) (e00 : Nat) (tlvLen constr : Int) (cons : Nat) (bs : Bytes) :
    OkGe (cons + 1) (ctLoop tags tm lf hc rem tagno step limit e00 tlvLen constr cons bs) := by
  match rem, hrem with
  | rem + 1, _ =>
    unfold ctLoop
    simp only
    repeat' split
    all_goals (first
      | (simp [OkGe, ctRet]; done)
      | (have htl := fetchTag_le _ _ _ ‹fetchTag _ = Fetch.ok _ _›
         intro h
         have := ctLoop_ok_ge _ _ _ _ _ _ _ _ _ _ _ _ _ h
         omega))

theorem checkTagsRaw_ok_pos (tags : List Tag) (cs : Option Nat) (tm lf : Int) (bs : Bytes) :
    OkGe 1 (checkTagsRaw tags cs tm lf bs) := by
  unfold checkTagsRaw
  simp only
  repeat' split
  all_goals (first | (simp [OkGe, ctRet]; done) | skip)
  · have htl := fetchTag_le _ _ _ ‹fetchTag _ = Fetch.ok _ _›
    intro h
    have := ctLoop_ok_ge _ _ _ _ _ _ _ _ _ _ _ _ _ h
    omega
  · rename_i hlt
    have := ctLoop_ok_pos tags tm lf cs.isSome ((tags.length : Int) - ctTagno (cs.getD 0) tm).toNat (by omega)
      (ctTagno (cs.getD 0) tm) (cs.getD 0) (-1) 0 0 (-1) 0 bs
    simpa using this

theorem checkTags_ok_pos (tags : List Tag) (cs : Option Nat) (tm lf : Int) (bs : Bytes) :
    OkGe 1 (checkTags tags cs tm lf bs) := by
  unfold checkTags
  simp only
  split
  · rename_i hm
    intro h
    simp only [beq_iff_eq] at hm
    rw [hm] at h; cases h
  · exact checkTagsRaw_ok_pos tags cs tm lf bs

theorem decPrim_progress (tags : List Tag) (k : PKind) (tm : Int) : ProgressFresh (decPrim tags k tm) := by
  intro q n' c h
  have hp := checkTags_ok_pos tags none tm 0 q
  unfold decPrim at h
  simp only at h
  split at h
  · rename_i hne
    injection h with _ h2; injection h2 with h2 _
    rw [h2] at hne; simp at hne
  · rename_i hok
    have hok' : (checkTags tags none tm 0 q).rc = .ok := by simpa using hok
    have h1 := hp hok'
    unfold primTail at h
    split at h
    · split at h
      · cases h
      · injection h with _ h2; injection h2 with _ h2; omega
    · split at h
      · cases h
      · unfold primBody at h
        repeat' split at h
        all_goals first
          | (cases h; done)
          | (injection h with _ h2; injection h2 with _ h2; omega)

/-- the first iteration of a machine: if it continues with advance `n`, the final consumed count is ≥ `n` -/
theorem iterate_cont {σ : Type} (it : σ → Bytes → Out σ) (f : Nat) (s s1 : σ) (p : Bytes) (n : Nat)
    (h : it s p = .cont s1 n) :
    iterate it (f + 1) s p = ((iterate it f s1 (p.drop n)).1, (iterate it f s1 (p.drop n)).2.1,
      n + (iterate it f s1 (p.drop n)).2.2) := by
  rw [iterate]; simp only [h]

theorem iterate_ret {σ : Type} (it : σ → Bytes → Out σ) (f : Nat) (s s1 : σ) (p : Bytes) (rc : Rc) (n : Nat)
    (h : it s p = .ret s1 rc n) : iterate it (f + 1) s p = (s1, rc, n) := by
  rw [iterate]; simp only [h]

/-- phase 0 of SEQUENCE / SET OF / tagged CHOICE: RC_OK needs `ber_check_tags` to succeed, which consumes -/
theorem seqDec_progress (tags : List Tag) (es : List Elem) (fe : Int) (t2e : List T2M) (mdec : MDec) (tm : Int) :
    ProgressFresh (seqDec tags es fe t2e mdec tm) := by
  intro q n' k h
  unfold seqDec at h
  simp only [SeqSt.ofNode] at h
  have hm : seqMeasure es.length ⟨{}, List.replicate es.length .none, none⟩ q =
      (seqMeasure es.length ⟨{}, List.replicate es.length .none, none⟩ q - 1) + 1 := by
    unfold seqMeasure; omega
  rw [hm] at h
  have hp := checkTags_ok_pos tags (some 0) tm 1 q
  cases hit : seqIt tags es fe t2e mdec tm ⟨{}, List.replicate es.length .none, none⟩ q with
  | ret s1 rc n =>
    rw [iterate_ret _ _ _ _ _ _ _ hit] at h
    unfold seqIt at hit
    simp only at hit
    split at hit
    · rename_i hne
      injection hit with _ h2 _
      injection h with _ h3; injection h3 with h3 _
      rw [h2, h3] at hne; simp at hne
    · cases hit
  | cont s1 n =>
    rw [iterate_cont _ _ _ _ _ _ hit] at h
    unfold seqIt at hit
    simp only at hit
    split at hit
    · cases hit
    · rename_i hok
      have hok' : (checkTags tags (some 0) tm 1 q).rc = .ok := by simpa using hok
      have h1 := hp hok'
      injection hit with _ h2
      injection h with _ h3; injection h3 with _ h3
      omega

theorem setOfDec_progress (tags : List Tag) (el : Elem) (edec : Node → Bytes → Node × Rc × Nat) (tm : Int) :
    ProgressFresh (setOfDec tags el edec tm) := by
  intro q n' k h
  unfold setOfDec at h
  simp only [SetOfSt.ofNode] at h
  have hm : setOfMeasure ⟨{}, [], .none⟩ q = (setOfMeasure ⟨{}, [], .none⟩ q - 1) + 1 := by
    unfold setOfMeasure; omega
  rw [hm] at h
  have hp := checkTags_ok_pos tags (some 0) tm 1 q
  cases hit : setOfIt tags el edec tm ⟨{}, [], .none⟩ q with
  | ret s1 rc n =>
    rw [iterate_ret _ _ _ _ _ _ _ hit] at h
    unfold setOfIt at hit
    simp only at hit
    split at hit
    · rename_i hne
      injection hit with _ h2 _
      injection h with _ h3; injection h3 with h3 _
      rw [h2, h3] at hne; simp at hne
    · cases hit
  | cont s1 n =>
    rw [iterate_cont _ _ _ _ _ _ hit] at h
    unfold setOfIt at hit
    simp only at hit
    split at hit
    · cases hit
    · rename_i hok
      have hok' : (checkTags tags (some 0) tm 1 q).rc = .ok := by simpa using hok
      have h1 := hp hok'
      injection hit with _ h2
      injection h with _ h3; injection h3 with _ h3
      omega

theorem moreOrFail_ne_ok (left : Int) (size : Nat) : moreOrFail left size ≠ .ok := by
  unfold moreOrFail; split <;> simp

theorem winFetchTag_ret_ne_ok (left : Int) (q : Bytes) (rc : Rc) (h : winFetchTag left q = .ret rc) : rc ≠ .ok := by
  unfold winFetchTag at h
  split at h
  · injection h with h; rw [← h]; exact moreOrFail_ne_ok _ _
  · injection h with h; rw [← h]; simp
  · cases h

theorem winSkip_ret_ne_ok (left : Int) (q : Bytes) (tl : Nat) (rc : Rc) (h : winSkip left q tl = .ret rc) : rc ≠ .ok := by
  unfold winSkip at h
  split at h
  · injection h with h; rw [← h]; simp
  split at h
  · injection h with h; rw [← h]; exact moreOrFail_ne_ok _ _
  · injection h with h; rw [← h]; simp
  · cases h

theorem ostrFetch_ret_ne_ok (l : Int) (q : Bytes) (rc : Rc) (h : ostrFetch l q = .ret rc) : rc ≠ .ok := by
  unfold ostrFetch at h
  simp only at h
  repeat' split at h
  all_goals first | (cases h; done) | (injection h with h; rw [← h]; simp)

theorem ostrTlv_ret_fail (allTags : Nat → Tag → Tag) (s : OS) (t : TL) (s' : OS) (rc : Rc) (n : Nat)
    (h : ostrTlv allTags s t = .ret s' rc n) : rc = .fail := by
  unfold ostrTlv at h
  simp only at h
  repeat' split at h
  all_goals first | (cases h; done) | (injection h with _ h2 _; exact h2.symm)

theorem res_rc {σ : Type} {a n' : σ} {b : Rc} {c k : Nat} (h : (a, b, c) = (n', Rc.ok, k)) : b = .ok ∧ c = k :=
  ⟨(Prod.mk.inj (Prod.mk.inj h).2).1, (Prod.mk.inj (Prod.mk.inj h).2).2⟩

theorem ostrDec_progress (tags allTags : List Tag) (bits : Bool) (tm : Int) :
    ProgressFresh (ostrDec tags allTags bits tm) := by
  intro q n' k h
  unfold ostrDec at h
  simp only [OS.ofNode] at h
  have hm : ostrMeasure ⟨{}, false, [], 0, []⟩ q = (8 * q.length + 4) + 1 + 1 := by
    unfold ostrMeasure; simp only [List.length_nil]; try omega
  rw [hm] at h
  have hp := checkTags_ok_pos tags (some 0) tm (-1) q
  cases hit : ostrIt tags allTags bits tm ⟨{}, false, [], 0, []⟩ q with
  | ret s1 rc n =>
    rw [iterate_ret _ _ _ _ _ _ _ hit] at h
    unfold ostrIt at hit
    simp only at hit
    split at hit
    · rename_i hne
      injection hit with _ h2 _
      injection h with _ h3; injection h3 with h3 _
      rw [h2, h3] at hne; simp at hne
    · split at hit <;> cases hit
  | cont s1 n =>
    rw [iterate_cont _ _ _ _ _ _ hit] at h
    unfold ostrIt at hit
    simp only at hit
    split at hit
    · cases hit
    · rename_i hok
      have hok' : (checkTags tags (some 0) tm (-1) q).rc = .ok := by simpa using hok
      have h1 := hp hok'
      split at hit
      · -- constructed: phase 1 re-reads the TL, which consumes at least two octets
        injection hit with hs1 hn; subst hs1; subst hn
        simp only [List.drop_zero, Nat.zero_add] at h
        have e1 : ∀ q', ostrIt tags allTags bits tm
            ⟨⟨1, (checkTags tags (some 0) tm (-1) q).step, (checkTags tags (some 0) tm (-1) q).lastLen⟩, false, [], 0, []⟩ q' =
            ostrFetchPart (ostrEx tags allTags bits tm)
              ⟨⟨1, (checkTags tags (some 0) tm (-1) q).step, (checkTags tags (some 0) tm (-1) q).lastLen⟩, false, [], 0, []⟩ q' := by
          intro q'; unfold ostrIt ostrFetchPart; rfl
        cases hit2 : ostrFetchPart (ostrEx tags allTags bits tm)
            ⟨⟨1, (checkTags tags (some 0) tm (-1) q).step, (checkTags tags (some 0) tm (-1) q).lastLen⟩, false, [], 0, []⟩ q with
        | ret s2 rc n =>
          rw [iterate_ret _ _ _ _ _ _ _ (by rw [e1]; exact hit2)] at h
          injection h with _ h3; injection h3 with h3 _
          subst h3
          unfold ostrFetchPart at hit2
          split at hit2
          · rename_i rc' hf
            injection hit2 with _ h4 _
            exact absurd h4 (ostrFetch_ret_ne_ok _ _ _ hf)
          · have := ostrTlv_ret_fail _ _ _ _ _ _ hit2
            cases this
        | cont s2 n =>
          rw [iterate_cont _ _ _ _ _ _ (by rw [e1]; exact hit2)] at h
          have := ostrFetchPart_cont (ostrEx tags allTags bits tm) _ q s2 n rfl hit2
          simp only at h
          have hk := (res_rc h).2
          omega
      · injection hit with _ h2
        injection h with _ h3; injection h3 with _ h3
        omega

theorem choiceDec_progress (tags : List Tag) (es : List Elem) (xs : Int) (t2e : List T2M) (mdec : MDec) (tm : Int)
    (hmp : ∀ i, ProgressFresh (mdec i)) : ProgressFresh (choiceDec tags es xs t2e mdec tm) := by
  intro q n' k h
  unfold choiceDec at h
  simp only [ChoiceSt.ofNode] at h
  have hm : choiceMeasure ⟨{}, 0, .none⟩ q = (2 * q.length + 2) + 1 + 1 + 1 := by
    unfold choiceMeasure; simp only; omega
  rw [hm] at h
  have hp := checkTags_ok_pos tags (some 0) tm (-1) q
  cases hit : choiceIt tags es xs t2e mdec tm ⟨{}, 0, .none⟩ q with
  | ret s1 rc n =>
    rw [iterate_ret _ _ _ _ _ _ _ hit] at h
    unfold choiceIt at hit
    simp only at hit
    split at hit
    · split at hit
      · rename_i hne
        injection hit with _ h2 _
        injection h with _ h3; injection h3 with h3 _
        rw [h2, h3] at hne; simp at hne
      · cases hit
    · cases hit
  | cont s1 n =>
    rw [iterate_cont _ _ _ _ _ _ hit] at h
    unfold choiceIt at hit
    simp only at hit
    split at hit
    · split at hit
      · cases hit
      · rename_i hok
        have hok' : (checkTags tags (some 0) tm (-1) q).rc = .ok := by simpa using hok
        have h1 := hp hok'
        injection hit with _ h2
        injection h with _ h3; injection h3 with _ h3
        omega
    · -- untagged CHOICE: phase 1 looks at the tag, phase 2 runs the alternative on a fresh structure
      injection hit with hs1 hn; subst hs1; subst hn
      simp only [List.drop_zero, Nat.zero_add] at h
      rw [show (2 * q.length + 2 + 1 + 1) = (2 * q.length + 2 + 1) + 1 from rfl] at h
      cases hit1 : choiceIt tags es xs t2e mdec tm ⟨⟨1, 0, -1⟩, 0, .none⟩ q with
      | ret s2 rc n =>
        rw [iterate_ret _ _ _ _ _ _ _ hit1] at h
        simp only at h
        obtain ⟨hr1, hr2⟩ := res_rc h
        subst hr1
        rw [choice_at_p1 tags es xs t2e mdec tm _ _ rfl] at hit1
        unfold choiceP1 at hit1
        split at hit1
        · rename_i rc' hf
          injection hit1 with _ h4 _
          exact absurd h4 (winFetchTag_ret_ne_ok _ _ _ hf)
        · rename_i tag tl hf
          have htl := winFetchTag_le _ _ _ _ hf
          split at hit1
          · cases hit1
          · split at hit1
            · cases hit1
            · split at hit1
              · rename_i rc' hsk
                injection hit1 with _ h4 _
                exact absurd h4 (winSkip_ret_ne_ok _ _ _ _ hsk)
              · injection hit1 with _ _ h5
                have h1n : 1 ≤ n := by rw [← h5]; omega
                omega
      | cont s2 n =>
        rw [iterate_cont _ _ _ _ _ _ hit1] at h
        rw [choice_at_p1 tags es xs t2e mdec tm _ _ rfl] at hit1
        unfold choiceP1 at hit1
        split at hit1
        · cases hit1
        · split at hit1
          · injection hit1 with hs2 hn; subst hs2; subst hn
            simp only [List.drop_zero, Nat.zero_add] at h
            rw [show (2 * q.length + 2 + 1) = (2 * q.length + 2) + 1 from rfl] at h
            cases hit2 : choiceIt tags es xs t2e mdec tm
                ⟨⟨2, (t2e.getD _ default).elNo, -1⟩, 0, .none⟩ q with
            | ret s3 rc n =>
              rw [iterate_ret _ _ _ _ _ _ _ hit2] at h
              simp only at h
              obtain ⟨hr1, hr2⟩ := res_rc h
              subst hr1
              rw [choice_at_p2 tags es xs t2e mdec tm _ _ rfl] at hit2
              unfold choiceP2 at hit2
              simp only at hit2
              split at hit2
              · cases hit2
              · rename_i hrc
                injection hit2 with _ h4 _
                exact absurd h4 (by intro hh; exact hrc hh)
            | cont s3 n =>
              rw [iterate_cont _ _ _ _ _ _ hit2] at h
              rw [choice_at_p2 tags es xs t2e mdec tm _ _ rfl] at hit2
              unfold choiceP2 at hit2
              simp only at hit2
              split at hit2
              · rename_i hrc
                injection hit2 with _ hn
                have hin := callMember_ok_inner _ _ _ _ hrc
                have := hmp _ (winOf (-1) q) _ _ (by rw [← hin, ← hrc])
                simp only at h
                have hk := (res_rc h).2
                have h1n : 1 ≤ n := hn ▸ this
                omega
              · cases hit2
          · split at hit1
            · cases hit1
            · split at hit1 <;> cases hit1

/-! ### progress of every decoder of a descriptor tree -/

mutual
theorem dec_progress : ∀ (td : TD) (tm : Int), ProgressFresh (dec td tm)
  | .prim tags allTags (.ostr bits), tm => by
    have := ostrDec_progress tags allTags bits tm
    intro q n' k h; simp only [dec] at h; exact this q n' k h
  | .prim tags _ .boolean, tm => by
    intro q n' k h; simp only [dec] at h; exact decPrim_progress tags _ tm q n' k h
  | .prim tags _ .null, tm => by
    intro q n' k h; simp only [dec] at h; exact decPrim_progress tags _ tm q n' k h
  | .prim tags _ (.nint _), tm => by
    intro q n' k h; simp only [dec] at h; exact decPrim_progress tags _ tm q n' k h
  | .prim tags _ (.prim _), tm => by
    intro q n' k h; simp only [dec] at h; exact decPrim_progress tags _ tm q n' k h
  | .seq tags ms es fe t2e, tm => by
    intro q n' k h; simp only [dec] at h; exact seqDec_progress tags es fe t2e _ tm q n' k h
  | .setOf tags e el, tm => by
    intro q n' k h; simp only [dec] at h; exact setOfDec_progress tags el _ tm q n' k h
  | .choice tags ms es xs t2e, tm => by
    intro q n' k h; simp only [dec] at h
    exact choiceDec_progress tags es xs t2e _ tm (fun i => decAt_progress ms es i) q n' k h
theorem decAt_progress : ∀ (ms : List TD) (es : List Elem) (i : Nat), ProgressFresh (decAt ms es i)
  | m :: _, e :: _, 0 => by
    intro q n' k h; simp only [decAt] at h; exact dec_progress m e.tagMode q n' k h
  | _ :: ms, _ :: es, i + 1 => by
    intro q n' k h; simp only [decAt] at h; exact decAt_progress ms es i q n' k h
  | [], _, _ => by intro q n' k h; simp [decAt] at h
  | _ :: _, [], _ => by intro q n' k h; simp [decAt] at h
end

/-! ### the restart laws for `inDomain` descriptor trees -/

theorem lawfulRc_const_fail : LawfulRc (⟨fun n _ => (n, Rc.fail, 0)⟩ : Dec Node) := by
  refine ⟨?_, ?_, ?_, ?_⟩
  · intro s p; exact Nat.zero_le _
  · intro s p s1 k h; cases h
  · intro s p s1 k h; cases h
  · intro s p s1 k h ext; rfl

mutual
theorem dec_lawfulRc : ∀ (td : TD) (tm : Int), inDomain td = true → LawfulRc (⟨dec td tm⟩ : Dec Node)
  | .prim tags allTags (.ostr bits), tm, _ => by
    have := ostrDec_lawfulRc tags allTags bits tm
    have e : (⟨dec (.prim tags allTags (.ostr bits)) tm⟩ : Dec Node) = ⟨ostrDec tags allTags bits tm⟩ := by
      first | rfl | (congr 1; funext n p; simp only [dec])
    rw [e]; exact this
  | .prim tags allTags .boolean, tm, _ => by
    have e : (⟨dec (.prim tags allTags .boolean) tm⟩ : Dec Node) = ⟨decPrim tags .boolean tm⟩ := by
      first | rfl | (congr 1; funext n p; simp only [dec])
    rw [e]; exact lawfulRc_of_lawful _ (decPrim_lawful tags _ tm)
  | .prim tags allTags .null, tm, _ => by
    have e : (⟨dec (.prim tags allTags .null) tm⟩ : Dec Node) = ⟨decPrim tags .null tm⟩ := by
      first | rfl | (congr 1; funext n p; simp only [dec])
    rw [e]; exact lawfulRc_of_lawful _ (decPrim_lawful tags _ tm)
  | .prim tags allTags (.nint u), tm, _ => by
    have e : (⟨dec (.prim tags allTags (.nint u)) tm⟩ : Dec Node) = ⟨decPrim tags (.nint u) tm⟩ := by
      first | rfl | (congr 1; funext n p; simp only [dec])
    rw [e]; exact lawfulRc_of_lawful _ (decPrim_lawful tags _ tm)
  | .prim tags allTags (.prim i), tm, _ => by
    have e : (⟨dec (.prim tags allTags (.prim i)) tm⟩ : Dec Node) = ⟨decPrim tags (.prim i) tm⟩ := by
      first | rfl | (congr 1; funext n p; simp only [dec])
    rw [e]; exact lawfulRc_of_lawful _ (decPrim_lawful tags _ tm)
  | .seq tags ms es fe t2e, tm, h => by
    simp only [inDomain, Bool.and_eq_true] at h
    obtain ⟨h2, h3⟩ := h
    have ht : ∀ e ∈ t2e, e.elNo < es.length := by
      intro e he
      have := List.all_eq_true.mp h2 e he
      simpa using this
    have := seqDec_lawfulRc tags es fe t2e (fun i => decAt ms es i) tm
      (fun i => decAt_lawfulRc ms es h3 i) ht
    have e : (⟨dec (.seq tags ms es fe t2e) tm⟩ : Dec Node) = ⟨seqDec tags es fe t2e (fun i => decAt ms es i) tm⟩ := by
      first | rfl | (congr 1; funext n p; simp only [dec])
    rw [e]; exact this
  | .setOf tags e el, tm, h => by
    simp only [inDomain] at h
    have := setOfDec_lawfulRc tags el (dec e el.tagMode) tm (dec_lawfulRc e el.tagMode h)
      (dec_progress e el.tagMode)
    have e' : (⟨dec (.setOf tags e el) tm⟩ : Dec Node) = ⟨setOfDec tags el (dec e el.tagMode) tm⟩ := by
      first | rfl | (congr 1; funext n p; simp only [dec])
    rw [e']; exact this
  | .choice tags ms es xs t2e, tm, h => by
    simp only [inDomain] at h
    have := choiceDec_lawfulRc tags es xs t2e (fun i => decAt ms es i) tm
      (fun i => decAt_lawfulRc ms es h i)
    have e : (⟨dec (.choice tags ms es xs t2e) tm⟩ : Dec Node) =
        ⟨choiceDec tags es xs t2e (fun i => decAt ms es i) tm⟩ := by
      first | rfl | (congr 1; funext n p; simp only [dec])
    rw [e]; exact this
theorem decAt_lawfulRc : ∀ (ms : List TD) (es : List Elem), inDomainL ms = true →
    ∀ i, LawfulRc (⟨decAt ms es i⟩ : Dec Node)
  | m :: ms, e :: es, h, 0 => by
    simp only [inDomainL, Bool.and_eq_true] at h
    have e' : (⟨decAt (m :: ms) (e :: es) 0⟩ : Dec Node) = ⟨dec m e.tagMode⟩ := by
      first | rfl | (congr 1; funext n p; simp only [decAt])
    rw [e']; exact dec_lawfulRc m e.tagMode h.1
  | m :: ms, e :: es, h, i + 1 => by
    simp only [inDomainL, Bool.and_eq_true] at h
    have e' : (⟨decAt (m :: ms) (e :: es) (i + 1)⟩ : Dec Node) = ⟨decAt ms es i⟩ := by
      first | rfl | (congr 1; funext n p; simp only [decAt])
    rw [e']; exact decAt_lawfulRc ms es h.2 i
  | [], es, _, i => by
    have e' : (⟨decAt [] es i⟩ : Dec Node) = ⟨fun n _ => (n, Rc.fail, 0)⟩ := by
      first | rfl | (congr 1; funext n p; simp [decAt])
    rw [e']; exact lawfulRc_const_fail
  | m :: ms, [], _, i => by
    have e' : (⟨decAt (m :: ms) [] i⟩ : Dec Node) = ⟨fun n _ => (n, Rc.fail, 0)⟩ := by
      first | rfl | (congr 1; funext n p; simp [decAt])
    rw [e']; exact lawfulRc_const_fail
end

end Asn1c.Proofs.BerStream
