import Asn1cModel.Proofs.PerSupport
import Asn1cModel.Proofs.OerSupport
/-
  Helper lemmas for the normally small non-negative whole number (X.691 §10.6) of per_support.c
  from 64 on (marker bit, length octet, 1..3 octets): what the writer emits, what the standard
  prescribes, what the reader returns.  Used by Props.L1Per.
-/
namespace Asn1c.Proofs.PerSmall
open Asn1c Asn1c.Impl.BitData Asn1c.Impl.PerSupport
open Asn1c.Proofs.PerSupport

/-- `uper_put_nsnnwn` for `64 ≤ n < 2^24`: marker, length octet, `bytes` octets -/
theorem putNsnnwn_large (n bytes : Nat) (hb : 1 ≤ bytes ∧ bytes ≤ 3) (h64 : 64 ≤ n)
    (hlo : 256 ^ (bytes - 1) ≤ n) (hhi : n < 256 ^ bytes) :
    putNsnnwn n = some (true :: (natBits 8 bytes ++ natBits (8 * bytes) n)) := by
  have hm : putFewBits 1 1 = some [true] := by decide
  unfold putNsnnwn
  rw [if_neg (by omega)]
  simp only [Int.toNat_natCast, hm]
  have : bytes = 1 ∨ bytes = 2 ∨ bytes = 3 := by omega
  rcases this with rfl | rfl | rfl
  · norm_num at hhi hlo
    rw [if_pos (by omega), putFewBits_eq _ _ (by omega), putFewBits_eq _ _ (by omega)]; rfl
  · norm_num at hhi hlo
    rw [if_neg (by omega), if_pos (by omega), putFewBits_eq _ _ (by omega), putFewBits_eq _ _ (by omega)]; rfl
  · norm_num at hhi hlo
    rw [if_neg (by omega), if_neg (by omega), if_pos (by omega), putFewBits_eq _ _ (by omega), putFewBits_eq _ _ (by omega)]; rfl

/-- the X.691 §10.6.2 encoding for `64 ≤ n < 2^24` -/
theorem normallySmall_large (n bytes : Nat) (hb : 1 ≤ bytes ∧ bytes ≤ 3) (h64 : 64 ≤ n)
    (hlo : 256 ^ (bytes - 1) ≤ n) (hhi : n < 256 ^ bytes) :
    Spec.Per.normallySmall n = true :: (natBits 8 bytes ++ natBits (8 * bytes) n) := by
  unfold Spec.Per.normallySmall Spec.Per.semiConstrainedWholeNumber Spec.Per.nnOctets
  simp only [Int.sub_zero, Int.toNat_natCast]
  rw [if_neg (by omega), if_neg (by omega)]
  have : bytes = 1 ∨ bytes = 2 ∨ bytes = 3 := by omega
  rcases this with rfl | rfl | rfl
  · have ht : toBE n = [n] := by
      rw [Asn1c.Proofs.BerTlv.toBE_eq_toBEn 0 n (by omega) (by simpa using hhi)]; simp [toBEn]; omega
    rw [ht]
    simp only [List.length_cons, List.length_nil, List.map_cons, List.map_nil, Spec.Per.lengthPrefixed,
      Spec.Per.lengthDetSmall, Spec.Per.nnbi]
    norm_num
    rfl
  · have ht : toBE n = [n / 256, n % 256] := by
      rw [Asn1c.Proofs.BerTlv.toBE_eq_toBEn 1 n (by simpa using hlo) (by norm_num at hhi ⊢; omega)]; simp [toBEn]; omega
    rw [ht]
    simp only [List.length_cons, List.length_nil, List.map_cons, List.map_nil, Spec.Per.lengthPrefixed,
      Spec.Per.lengthDetSmall, Spec.Per.nnbi]
    norm_num
    rw [show (16 : Nat) = 8 + 8 from rfl, natBits_split, ← natBits_mod 8 n]
    rfl
  · have ht : toBE n = [n / 65536, n / 256 % 256, n % 256] := by
      rw [Asn1c.Proofs.BerTlv.toBE_eq_toBEn 2 n (by simpa using hlo) (by norm_num at hhi ⊢; omega)]; simp [toBEn]; omega
    rw [ht]
    simp only [List.length_cons, List.length_nil, List.map_cons, List.map_nil, Spec.Per.lengthPrefixed,
      Spec.Per.lengthDetSmall, Spec.Per.nnbi]
    norm_num
    rw [show (24 : Nat) = 8 + (8 + 8) from rfl, natBits_split, natBits_split, ← natBits_mod 8 n, ← natBits_mod 8 (n / 2 ^ 8)]
    rfl

/-- `uper_get_nsnnwn` on marker + length octet `len ∈ {1,2,3}` + `len` octets -/
theorem getNsnnwn_large (len v : Nat) (rest : Bits) (hl : 1 ≤ len ∧ len ≤ 3) :
    getNsnnwn (true :: (natBits 8 len ++ natBits (8 * len) v) ++ rest) = some (v % 2 ^ (8 * len), rest) := by
  have e : true :: (natBits 8 len ++ natBits (8 * len) v) ++ rest
      = natBits 7 64 ++ (natBits 2 len ++ (natBits (8 * len) v ++ rest)) := by
    have : len = 1 ∨ len = 2 ∨ len = 3 := by omega
    rcases this with rfl | rfl | rfl <;> simp [natBits]
  rw [e]
  unfold getNsnnwn
  rw [getFewBits_natBits 7 _ _ (by omega)]
  simp only
  rw [if_pos trivial, getFewBits_natBits 2 _ _ (by omega)]
  simp only
  have : len = 1 ∨ len = 2 ∨ len = 3 := by omega
  rcases this with rfl | rfl | rfl
  · norm_num
    rw [getFewBits_natBits 8 _ _ (by omega)]
  · norm_num
    rw [getFewBits_natBits 16 _ _ (by omega)]
  · norm_num
    rw [getFewBits_natBits 24 _ _ (by omega)]


/-- the number of octets `uper_put_nsnnwn` chooses for `64 ≤ n < 2^24` -/
def nsBytes (n : Nat) : Nat := if n < 256 then 1 else if n < 65536 then 2 else 3

theorem nsBytes_spec (n : Nat) (h64 : 64 ≤ n) (h : n < 2 ^ 24) :
    (1 ≤ nsBytes n ∧ nsBytes n ≤ 3) ∧ 256 ^ (nsBytes n - 1) ≤ n ∧ n < 256 ^ nsBytes n := by
  unfold nsBytes
  norm_num at h
  split
  · norm_num; omega
  · split
    · norm_num; omega
    · norm_num; omega

end Asn1c.Proofs.PerSmall
