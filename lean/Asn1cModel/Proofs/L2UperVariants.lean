import Asn1cModel.L2.UperVariants
import Asn1cModel.Proofs.L2Uper
import Asn1cModel.Proofs.L2OerVariants
/-
  Helper lemmas for Props/C03Oer.lean (UPER part): the reference UPER decoder `L2.decUPER` accepts every output
  of the version-skew variant encoder `L2.UperVar.encUV` — for every selector state — and returns the value.
-/
namespace Asn1c.Proofs.L2UperVariants
open Asn1c Asn1c.L2 Asn1c.Spec.Per Asn1c.L2.UperVar Asn1c.Impl.PerSupport
open Asn1c.L2.OerVar (VSt Kind needLen shorten extraBits)
open Asn1c.Proofs.L2Uper Asn1c.Proofs.L2Der
open Asn1c.Proofs.L2OerVariants (Compat compat_append compat_shorten compat_take any_take_drop)

/-! ### item readers: mapping the item type (naturality of the length-prefixed / counted readers) -/

def mapRd {α β : Type} (f : α → β) (rd : Bits → Option (α × Bits)) : Bits → Option (β × Bits) :=
  fun bs => (rd bs).map fun p => (f p.1, p.2)

theorem getItems_map {α β : Type} (f : α → β) (rd : Bits → Option (α × Bits)) :
    ∀ (k : Nat) (bs : Bits), getItems (mapRd f rd) k bs = (getItems rd k bs).map fun p => (p.1.map f, p.2) := by
  intro k
  induction k with
  | zero => intro bs; simp [getItems]
  | succ k ih =>
    intro bs
    simp only [getItems]
    have hm : mapRd f rd bs = (rd bs).map fun p => (f p.1, p.2) := rfl
    rw [hm]
    cases rd bs with
    | none => simp
    | some p =>
      simp only [Option.map_some, ih p.2]
      cases getItems rd k p.2 with
      | none => simp
      | some q => simp

theorem getLoopF_map {α β : Type} (f : α → β) (rd : Bits → Option (α × Bits)) :
    ∀ (fuel : Nat) (bs : Bits), getLoopF (mapRd f rd) fuel bs = (getLoopF rd fuel bs).map fun p => (p.1.map f, p.2) := by
  intro fuel
  induction fuel with
  | zero => intro bs; simp [getLoopF]
  | succ fuel ih =>
    intro bs
    simp only [getLoopF]
    cases getLength (-1) 0 bs with
    | none => simp
    | some r =>
      obtain ⟨n, rep, bs1⟩ := r
      simp only [getItems_map]
      cases getItems rd n bs1 with
      | none => simp
      | some q =>
        obtain ⟨xs, bs2⟩ := q
        simp only [Option.map_some]
        cases rep with
        | false => simp
        | true =>
          simp only [if_true, ih bs2]
          cases getLoopF rd fuel bs2 with
          | none => simp
          | some w => simp

theorem decSized_map {α β : Type} (f : α → β) (sz : SizeC) (rd : Bits → Option (α × Bits)) (bs : Bits) :
    decSized sz (mapRd f rd) (mapRd f rd) bs = (decSized sz rd rd bs).map fun p => (p.1.map f, p.2) := by
  have hL : ∀ bs, rdLengthPrefixed (mapRd f rd) bs = (rdLengthPrefixed rd bs).map fun p => (p.1.map f, p.2) := by
    intro bs; exact getLoopF_map f rd _ bs
  have hC : ∀ bs, decCounted sz.lb sz.ub (mapRd f rd) bs = (decCounted sz.lb sz.ub rd bs).map fun p => (p.1.map f, p.2) := by
    intro bs
    unfold decCounted
    cases sz.ub with
    | none => exact hL bs
    | some u =>
      simp only []
      split
      · cases rdBits (bitWidth (u + 1 - sz.lb)) bs with
        | none => simp
        | some q =>
          simp only []
          split
          · exact getItems_map f rd _ _
          · simp
      · exact hL bs
  unfold decSized
  split
  · cases bs with
    | nil => simp
    | cons b r => cases b <;> simp [hC, hL]
  · exact hC bs


/-! ### values: canonical up to the order of SET OF lists -/

mutual
def ucanonP : PTy → Val → Bool
  | .seq root rattrs _ adds _, .seq vs => ucanonRootP root rattrs vs && ucanonAddsP adds (vs.drop root.length)
  | .choice root _ _ adds, .choice i v =>
    if i < root.length then ucanonAltP root i v else ucanonAltP adds (i - root.length) v
  | .seqOf _ e, .list vs => vs.all (ucanonP e)
  | .setOf _ e, .list vs => vs.all (ucanonP e)
  | .boolean, v => canonV .boolean v
  | .null, v => canonV .null v
  | .integer c, v => canonV (.integer c) v
  | .enumerated r e, v => canonV (.enumerated r e) v
  | .real, v => canonV .real v
  | .bitstr sz, v => canonV (.bitstr sz) v
  | .octstr sz, v => canonV (.octstr sz) v
  | .kmstr cw a b sz, v => canonV (.kmstr cw a b sz) v
  | .unkstr, v => canonV .unkstr v
  | _, _ => false
def ucanonRootP : List PTy → List Attr → List Val → Bool
  | [], _, _ => true
  | m :: ms, a :: as, v :: vs => (isAbsent v || (!isDefault a v && ucanonP m v)) && ucanonRootP ms as vs
  | _, _, _ => false
def ucanonAddsP : List PTy → List Val → Bool
  | [], _ => true
  | m :: ms, v :: vs => (isAbsent v || ucanonP m v) && ucanonAddsP ms vs
  | _, _ => false
def ucanonAltP : List PTy → Nat → Val → Bool
  | [], _, _ => false
  | a :: _, 0, v => ucanonP a v
  | _ :: as, i + 1, v => ucanonAltP as i v
end

/-- the acceptance statement for one type -/
def RTU (t : PTy) : Prop :=
  ∀ (v : Val) (s s' : VSt) (bits rest : Bits), ucanonP t v = true → encUV t v s = some (bits, s') →
    decUPER t (bits ++ rest) = some (v, rest)

theorem isAbs_eq (v : Val) : isAbs v = isAbsent v := by cases v <;> rfl

/-! ### SEQUENCE OF / SET OF -/

theorem encListU_spec (e : PTy) (ih : RTU e) :
    ∀ (vs : List Val) (s s' : VSt) (items : List Bits), vs.all (ucanonP e) = true → mapEncU (encUV e) vs s = some (items, s') →
      items.length = vs.length ∧ ∀ p ∈ vs.zip items, ∀ r, decUPER e (p.2 ++ r) = some (p.1, r) := by
  intro vs
  induction vs with
  | nil =>
    intro s s' items _ h
    simp only [mapEncU, Option.some.injEq, Prod.mk.injEq] at h
    obtain ⟨rfl, _⟩ := h
    simp
  | cons v vs ihvs =>
    intro s s' items hc h
    simp only [List.all_cons, Bool.and_eq_true] at hc
    simp only [mapEncU] at h
    cases h1 : encUV e v s with
    | none => simp [h1] at h
    | some p1 =>
    obtain ⟨x, s1⟩ := p1
    cases h2 : mapEncU (encUV e) vs s1 with
    | none => simp [h1, h2] at h
    | some p2 =>
    obtain ⟨xs, s2⟩ := p2
    simp only [h1, h2, Option.some.injEq, Prod.mk.injEq] at h
    obtain ⟨rfl, _⟩ := h
    obtain ⟨hl, hz⟩ := ihvs s1 s2 xs hc.2 h2
    refine ⟨by simp [hl], ?_⟩
    intro p hp r
    simp only [List.zip_cons_cons, List.mem_cons] at hp
    rcases hp with rfl | hp
    · exact ih v s s1 x r hc.1 h1
    · exact hz p hp r

theorem rtu_list (sz : SizeC) (e : PTy) (ih : RTU e) (vs : List Val) (s s' : VSt) (items : List Bits) (bits rest : Bits)
    (hc : vs.all (ucanonP e) = true) (hl : mapEncU (encUV e) vs s = some (items, s')) (he : encSized sz items = some bits) :
    decSized sz (decUPER e) (decUPER e) (bits ++ rest) = some (vs, rest) := by
  obtain ⟨hlen, hz⟩ := encListU_spec e ih vs s s' items hc hl
  -- read pairs (value, its encoding) so that the encoding is a function of the item
  let rd' : Bits → Option ((Val × Bits) × Bits) :=
    fun bs => (decUPER e bs).map fun q => ((q.1, bs.take (bs.length - q.2.length)), q.2)
  have hfun : decUPER e = mapRd Prod.fst rd' := by
    funext bs
    simp only [mapRd, rd', Option.map_map]
    cases decUPER e bs <;> simp
  have hrd : ∀ a ∈ vs.zip items, ∀ r, rd' (Prod.snd a ++ r) = some (a, r) := by
    intro a ha r
    simp only [rd', hz a ha r, Option.map_some, List.length_append, Nat.add_sub_cancel, List.take_left']
  have hmap : (vs.zip items).map Prod.snd = items := by
    rw [List.map_snd_zip]; omega
  have key := decSized_enc sz rd' rd' Prod.snd Prod.snd (vs.zip items) bits rest (fun _ => hrd) (fun _ => hrd)
    (by simpa [hmap] using he)
  rw [hfun, decSized_map, key]
  simp only [Option.map_some, Option.some.injEq, Prod.mk.injEq, and_true]
  rw [List.map_fst_zip]; omega


/-! ### SEQUENCE: root components -/

theorem decRoot_encRootU (root : List PTy) (ih : ∀ m ∈ root, RTU m) :
    ∀ (rattrs : List Attr) (vs : List Val) (s s' : VSt) (p b : Bits) (r : List Val) (tail : Bits),
      rattrs.length = root.length → ucanonRootP root rattrs vs = true → encRootU root rattrs vs s = some (p, b, r, s') →
      decRoot root rattrs p (b ++ tail) = some (vs.take root.length, tail) ∧ r = vs.drop root.length ∧
        p.length = optCount rattrs := by
  induction root with
  | nil =>
    intro rattrs vs s s' p b r tail hl _ he
    simp only [encRootU, Option.some.injEq, Prod.mk.injEq] at he
    obtain ⟨rfl, rfl, rfl, _⟩ := he
    have : rattrs = [] := by cases rattrs <;> simp_all
    subst this
    simp [decRoot, optCount]
  | cons m ms ihm =>
    intro rattrs vs s s' p b r tail hl hc he
    cases rattrs with
    | nil => simp at hl
    | cons a as =>
    cases vs with
    | nil => simp [ucanonRootP] at hc
    | cons v vs =>
    have hl' : as.length = ms.length := by simpa using hl
    have ihms : ∀ x ∈ ms, RTU x := fun x hx => ih x (by simp [hx])
    simp only [ucanonRootP, Bool.and_eq_true, Bool.or_eq_true, Bool.not_eq_true'] at hc
    obtain ⟨hv, hcr⟩ := hc
    simp only [encRootU, isAbs_eq] at he
    by_cases hab : isAbsent v = true
    · have := isAbsent_eq v hab; subst this
      rw [if_pos hab] at he
      by_cases ho : a.optional = true
      · rw [if_pos ho] at he
        cases h2 : encRootU ms as vs s with
        | none => simp [h2] at he
        | some res =>
          obtain ⟨p', b', r', s2⟩ := res
          simp only [h2, Option.some.injEq, Prod.mk.injEq] at he
          obtain ⟨rfl, rfl, rfl, _⟩ := he
          obtain ⟨h3, h4, h5⟩ := ihm ihms as vs s s2 p' b' r' tail hl' hcr h2
          refine ⟨?_, by simpa using h4, by simp [optCount, ho, h5]; omega⟩
          rw [decRoot, if_pos ho]
          simp only [h3, List.length_cons, List.take_succ_cons]
      · rw [if_neg ho] at he; simp at he
    · have hab' : isAbsent v = false := by simpa using hab
      rw [hab'] at hv
      simp only [Bool.false_eq_true, false_or] at hv
      obtain ⟨hnd, hcv⟩ := hv
      rw [if_neg hab, hnd] at he
      simp only [Bool.false_eq_true, if_false] at he
      cases h1 : encUV m v s with
      | none => simp [h1] at he
      | some p1 =>
      obtain ⟨x, s1⟩ := p1
      cases h2 : encRootU ms as vs s1 with
      | none => simp [h1, h2] at he
      | some res =>
        obtain ⟨p', b', r', s2⟩ := res
        simp only [h1, h2, Option.some.injEq, Prod.mk.injEq] at he
        obtain ⟨rfl, rfl, rfl, _⟩ := he
        obtain ⟨h3, h4, h5⟩ := ihm ihms as vs s1 s2 p' b' r' tail hl' hcr h2
        have hm := ih m (by simp) v s s1 x (b' ++ tail) hcv h1
        refine ⟨?_, by simpa using h4, ?_⟩
        · by_cases ho : a.optional = true
          · simp only [ho, if_true]
            rw [decRoot, if_pos ho]
            simp only [List.append_assoc, hm, h3, List.length_cons, List.take_succ_cons]
          · simp only [ho, Bool.false_eq_true, if_false]
            rw [decRoot.eq_def]
            simp only [ho, Bool.false_eq_true, if_false, List.append_assoc, hm, h3, List.length_cons, List.take_succ_cons]
        · by_cases ho : a.optional = true
          · simp [optCount, ho, h5]; omega
          · simp [optCount, ho, h5]

/-! ### SEQUENCE: extension additions against the bitmap of another version -/

/-- the known additions are decoded from any compatible bitmap `B`; the bits of `B` beyond them announce the
    open types `X`, which are skipped -/
theorem decAdds_encAddsU (adds : List PTy) (ih : ∀ m ∈ adds, RTU m) :
    ∀ (vs : List Val) (s s' : VSt) (bm : List Bool) (ab : Bits) (B : List Bool) (X tail : Bits),
      ucanonAddsP adds vs = true → encAddsU adds vs s = some (bm, ab, s') → Compat bm B →
      skipOpen (B.drop adds.length) (X ++ tail) = some tail →
      decAdds adds B (ab ++ (X ++ tail)) = some (vs, tail) ∧ bm.length = adds.length := by
  induction adds with
  | nil =>
    intro vs s s' bm ab B X tail _ he _ hsk
    cases vs with
    | nil =>
      simp only [encAddsU, Option.some.injEq, Prod.mk.injEq] at he
      obtain ⟨rfl, rfl, _⟩ := he
      simp only [List.length_nil, List.drop_zero] at hsk
      simp [decAdds, hsk]
    | cons v vs => simp [encAddsU] at he
  | cons m ms ihm =>
    intro vs s s' bm ab B X tail hc he hB hsk
    cases vs with
    | nil => simp [ucanonAddsP] at hc
    | cons v vs =>
    have ihms : ∀ x ∈ ms, RTU x := fun x hx => ih x (by simp [hx])
    simp only [ucanonAddsP, Bool.and_eq_true, Bool.or_eq_true] at hc
    obtain ⟨hv, hcr⟩ := hc
    simp only [encAddsU, isAbs_eq] at he
    by_cases hab : isAbsent v = true
    · have := isAbsent_eq v hab; subst this
      rw [if_pos hab] at he
      cases h2 : encAddsU ms vs s with
      | none => simp [h2] at he
      | some res =>
        obtain ⟨bm', ab', s2⟩ := res
        simp only [h2, Option.some.injEq, Prod.mk.injEq] at he
        obtain ⟨rfl, rfl, _⟩ := he
        cases B with
        | nil =>
          obtain ⟨h3, h4⟩ := ihm ihms vs s s2 bm' ab' [] X tail hcr h2 hB.2 (by simpa using hsk)
          refine ⟨?_, by simp [h4]⟩
          rw [decAdds]
          simp only [h3]
        | cons c B =>
          obtain ⟨hc1, hB'⟩ := hB
          subst hc1
          obtain ⟨h3, h4⟩ := ihm ihms vs s s2 bm' ab' B X tail hcr h2 hB' (by simpa using hsk)
          refine ⟨?_, by simp [h4]⟩
          rw [decAdds]
          simp only [h3]
    · have hab' : isAbsent v = false := by simpa using hab
      rw [hab'] at hv
      simp only [Bool.false_eq_true, false_or] at hv
      rw [if_neg hab] at he
      cases h1 : encUV m v s with
      | none => simp [h1] at he
      | some p1 =>
      obtain ⟨x, s1⟩ := p1
      cases h2 : encAddsU ms vs s1 with
      | none => simp [h1, h2] at he
      | some res =>
        obtain ⟨bm', ab', s2⟩ := res
        simp only [h1, h2, Option.some.injEq, Prod.mk.injEq] at he
        obtain ⟨rfl, rfl, _⟩ := he
        cases B with
        | nil => exact absurd hB.1 (by simp)
        | cons c B =>
          obtain ⟨hc1, hB'⟩ := hB
          subst hc1
          obtain ⟨h3, h4⟩ := ihm ihms vs s1 s2 bm' ab' B X tail hcr h2 hB' (by simpa using hsk)
          obtain ⟨pad, hp, _⟩ := complete_spec x
          have hm := ih m (by simp) v s s1 x pad hv h1
          refine ⟨?_, by simp [h4]⟩
          rw [decAdds]
          simp only [List.append_assoc, decOpen, hp, hm, h3]

/-- no addition present: every addition value is `absent` -/
theorem encAddsU_none_present (adds : List PTy) :
    ∀ (vs : List Val) (s s' : VSt) (bm : List Bool) (ab : Bits), encAddsU adds vs s = some (bm, ab, s') → bm.any id = false →
      vs = absentVals adds.length ∧ ab = [] := by
  induction adds with
  | nil =>
    intro vs s s' bm ab he _
    cases vs with
    | nil => simp [encAddsU] at he; simp [absentVals, he]
    | cons v vs => simp [encAddsU] at he
  | cons m ms ihm =>
    intro vs s s' bm ab he hb
    cases vs with
    | nil => simp [encAddsU] at he
    | cons v vs =>
      simp only [encAddsU, isAbs_eq] at he
      by_cases hab : isAbsent v = true
      · have := isAbsent_eq v hab; subst this
        rw [if_pos hab] at he
        cases h2 : encAddsU ms vs s with
        | none => simp [h2] at he
        | some res =>
          obtain ⟨bm', ab', s2⟩ := res
          simp only [h2, Option.some.injEq, Prod.mk.injEq] at he
          obtain ⟨rfl, rfl, _⟩ := he
          obtain ⟨h3, h4⟩ := ihm vs s s2 bm' ab' h2 (by simpa using hb)
          simp [absentVals, List.replicate_succ, h3, h4]
      · rw [if_neg hab] at he
        cases h1 : encUV m v s with
        | none => simp [h1] at he
        | some p1 =>
        obtain ⟨x, s1⟩ := p1
        cases h2 : encAddsU ms vs s1 with
        | none => simp [h1, h2] at he
        | some res =>
          obtain ⟨bm', ab', s2⟩ := res
          simp only [h1, h2, Option.some.injEq, Prod.mk.injEq] at he
          obtain ⟨rfl, _⟩ := he
          simp at hb


/-! ### the bitmap of another version -/

theorem skipOpen_extraU (extra : List (Option Bytes)) (hw : extraWf extra = true) (rest : Bits) :
    skipOpen (extraBits extra) (extraBodyU extra ++ rest) = some rest := by
  induction extra with
  | nil => simp [extraBits, extraBodyU, skipOpen]
  | cons e extra ih =>
    cases e with
    | none =>
      simp only [extraWf] at hw
      simpa [extraBits, extraBodyU, skipOpen] using ih hw
    | some p =>
      simp only [extraWf, Bool.and_eq_true, List.all_eq_true, decide_eq_true_eq] at hw
      have hwf : Bytes.wf (if p.isEmpty then [0] else p) := by
        intro b hb
        split at hb
        · simp at hb; omega
        · exact hw.1 b hb
      simp only [extraBits, extraBodyU, skipOpen, List.append_assoc]
      rw [decOctetsUnc_enc _ hwf]
      simpa using ih hw.2

theorem site_true (s : VSt) (k : Kind) (a : Bool) (h : (s.site k a).1 = true) : a = true := by
  unfold VSt.site at h
  split at h
  · rename_i hc; exact hc.2
  · simp at h

/-- what the receiver needs to know about the bitmap `bm` and the extra bits `xb` sent instead of `abits` -/
theorem versionU_spec (abits : Bits) (s : VSt) (rest : Bits) (hn : abits.length < 16384) :
    Compat abits (versionU abits s).1 ∧
    ((versionU abits s).1.any id = false → abits.any id = false) ∧
    skipOpen ((versionU abits s).1.drop abits.length) ((versionU abits s).2.1 ++ rest) = some rest ∧
    (versionU abits s).1.length < 16384 := by
  unfold versionU
  simp only []
  split
  · have hle : (shorten (needLen abits + s.param % (abits.length - needLen abits)) abits).length ≤ abits.length := by
      unfold shorten; split <;> simp
    refine ⟨compat_shorten _ _, ?_, ?_, Nat.lt_of_le_of_lt hle hn⟩
    · unfold shorten
      split
      · rename_i h; intro h1; exact any_take_drop abits _ h1 h
      · exact id
    · rw [List.drop_eq_nil_of_le hle]; simp [skipOpen]
  · split
    · rename_i _ hq
      -- the position is only chosen where the contents are octets and the bitmap stays below 16K
      have hc : extraWf s.extra = true ∧ abits.length + s.extra.length < 16384 := by
        have := site_true _ _ _ hq
        simp only [Bool.and_eq_true, decide_eq_true_eq] at this
        exact ⟨this.1.2, this.2⟩
      have hlen : (extraBits s.extra).length = s.extra.length := by
        generalize s.extra = ex
        induction ex with
        | nil => simp [extraBits]
        | cons e ex ih => cases e <;> simp [extraBits, ih]
      refine ⟨compat_append _ _, ?_, ?_, ?_⟩
      rotate_left 2
      · show (abits ++ extraBits s.extra).length < 16384
        rw [List.length_append, hlen]; exact hc.2
      · intro h; rw [List.any_append] at h; simp only [Bool.or_eq_false_iff] at h; exact h.1
      · rw [List.drop_left]; exact skipOpen_extraU _ hc.1 _
    · refine ⟨by simpa using compat_append abits [], id, by simp [skipOpen], hn⟩


theorem encAddsU_length (adds : List PTy) :
    ∀ (vs : List Val) (s s' : VSt) (bm : List Bool) (ab : Bits), encAddsU adds vs s = some (bm, ab, s') →
      bm.length = adds.length := by
  induction adds with
  | nil =>
    intro vs s s' bm ab he
    cases vs with
    | nil => simp [encAddsU] at he; simp [he]
    | cons v vs => simp [encAddsU] at he
  | cons m ms ihm =>
    intro vs s s' bm ab he
    cases vs with
    | nil => simp [encAddsU] at he
    | cons v vs =>
      simp only [encAddsU] at he
      split at he
      · cases h2 : encAddsU ms vs s with
        | none => simp [h2] at he
        | some res =>
          obtain ⟨bm', ab', s2⟩ := res
          simp only [h2, Option.some.injEq, Prod.mk.injEq] at he
          obtain ⟨rfl, _⟩ := he
          simp [ihm vs s s2 bm' ab' h2]
      · cases h1 : encUV m v s with
        | none => simp [h1] at he
        | some p1 =>
        obtain ⟨x, s1⟩ := p1
        cases h2 : encAddsU ms vs s1 with
        | none => simp [h1, h2] at he
        | some res =>
          obtain ⟨bm', ab', s2⟩ := res
          simp only [h1, h2, Option.some.injEq, Prod.mk.injEq] at he
          obtain ⟨rfl, _⟩ := he
          simp [ihm vs s1 s2 bm' ab' h2]

/-! ### acceptance, kind by kind -/

theorem rtu_seq (root : List PTy) (rattrs : List Attr) (ext : Bool) (adds : List PTy) (aattrs : List Attr)
    (ihr : ∀ m ∈ root, RTU m) (iha : ∀ m ∈ adds, RTU m)
    (hl : rattrs.length = root.length) (hn : adds.length < 16384) : RTU (.seq root rattrs ext adds aattrs) := by
  intro v s s' bits rest hc he
  cases v with
  | seq vs =>
    simp only [ucanonP, Bool.and_eq_true] at hc
    obtain ⟨hcr, hca⟩ := hc
    simp only [encUV] at he
    cases h1 : encRootU root rattrs vs s with
    | none => simp [h1] at he
    | some res1 =>
      obtain ⟨p, b, r, s1⟩ := res1
      simp only [h1] at he
      cases h2 : encAddsU adds r s1 with
      | none => simp [h2] at he
      | some res2 =>
        obtain ⟨abits, ab, s2⟩ := res2
        simp only [h2] at he
        have hr0 := (decRoot_encRootU root ihr rattrs vs s s1 p b r [] hl hcr h1).2
        obtain ⟨hrd, hpl⟩ := hr0
        subst hrd
        have htd : vs.take root.length ++ vs.drop root.length = vs := List.take_append_drop _ _
        have hbl := encAddsU_length adds _ s1 s2 abits ab h2
        cases ext with
        | false =>
          simp only [Bool.false_eq_true, if_false] at he
          by_cases hem : adds.isEmpty = true
          · simp only [hem, if_true, Option.some.injEq, Prod.mk.injEq] at he
            obtain ⟨rfl, _⟩ := he
            have : adds = [] := by simpa using hem
            subst this
            have hv : vs.drop root.length = absentVals 0 := by
              cases hq : vs.drop root.length with
              | nil => simp [absentVals]
              | cons x xs => rw [hq] at h2; simp [encAddsU] at h2
            have hR := (decRoot_encRootU root ihr rattrs vs s s1 p b _ rest hl hcr h1).1
            simp only [decUPER, Bool.false_eq_true, if_false, List.append_assoc,
              rdBools_append _ p _ hpl, hR, List.length_nil, ← hv, htd]
          · simp [hem] at he
        | true =>
          simp only [if_true] at he
          have habl : abits.length < 16384 := by omega
          obtain ⟨hcompat, hnone, hskip, hlen⟩ := versionU_spec abits s2 rest habl
          generalize hbm : (versionU abits s2).1 = bm at he hcompat hnone hskip hlen
          generalize hxb : (versionU abits s2).2.1 = xb at he hskip
          generalize (versionU abits s2).2.2 = s3 at he
          by_cases hany : bm.any id = true
          · rw [if_pos hany] at he
            simp only [Option.some.injEq, Prod.mk.injEq] at he
            obtain ⟨rfl, _⟩ := he
            have hR := (decRoot_encRootU root ihr rattrs vs s s1 p b _
              (normallySmallLength bm.length ++ (bm ++ (ab ++ (xb ++ rest)))) hl hcr h1).1
            rw [hbl] at hskip
            have hA := (decAdds_encAddsU adds iha _ s1 s2 abits ab bm xb rest hca h2 hcompat hskip).1
            have hN := decNormallySmallLength_enc bm.length (any_true_length bm hany) hlen (bm ++ (ab ++ (xb ++ rest)))
            simp only [decUPER, if_true, List.cons_append, rdBit, List.append_assoc,
              rdBools_append _ p _ hpl, hR, hN, rdBools_append _ bm _ rfl, hA, htd]
          · have hany' : bm.any id = false := by simpa using hany
            rw [if_neg hany] at he
            simp only [Option.some.injEq, Prod.mk.injEq] at he
            obtain ⟨rfl, _⟩ := he
            obtain ⟨hv, _⟩ := encAddsU_none_present adds _ s1 s2 abits ab h2 (hnone hany')
            have hR := (decRoot_encRootU root ihr rattrs vs s s1 p b _ rest hl hcr h1).1
            simp only [decUPER, if_true, List.cons_append, rdBit, List.append_assoc,
              rdBools_append _ p _ hpl, hR, Bool.false_eq_true, if_false, ← hv, htd]
  | _ => simp [ucanonP] at hc


theorem decAlt_encAltU (alts : List PTy) (ih : ∀ m ∈ alts, RTU m) :
    ∀ (i : Nat) (v : Val) (s s' : VSt) (x rest : Bits), ucanonAltP alts i v = true → encAltU alts i v s = some (x, s') →
      decAlt alts i (x ++ rest) = some (v, rest) := by
  induction alts with
  | nil => intro i v s s' x rest hc; simp [ucanonAltP] at hc
  | cons a as iha =>
    intro i v s s' x rest hc he
    cases i with
    | zero =>
      rw [ucanonAltP] at hc
      rw [encAltU] at he
      rw [decAlt]
      exact ih a (by simp) v s s' x rest hc he
    | succ i =>
      rw [ucanonAltP] at hc
      rw [encAltU] at he
      rw [decAlt]
      exact iha (fun m hm => ih m (by simp [hm])) i v s s' x rest hc he

theorem rtu_choice (root : List PTy) (order : List Nat) (ext : Bool) (adds : List PTy)
    (ihr : ∀ m ∈ root, RTU m) (iha : ∀ m ∈ adds, RTU m) (ho : order.length ≤ root.length) :
    RTU (.choice root order ext adds) := by
  intro v s s' bits rest hc he
  cases v with
  | choice i v =>
    simp only [ucanonP] at hc
    simp only [encUV] at he
    by_cases hi : i < root.length
    · rw [if_pos hi] at hc he
      cases h1 : encAltU root i v s with
      | none => simp [h1] at he
      | some p1 =>
        obtain ⟨x, s1⟩ := p1
        simp only [h1] at he
        by_cases hm : order.contains i = true
        · rw [if_pos hm] at he
          simp only [Option.some.injEq, Prod.mk.injEq] at he
          obtain ⟨rfl, _⟩ := he
          have hmem : i ∈ order := by simpa using hm
          have hidx : order.idxOf i < order.length := List.idxOf_lt_length_iff.mpr hmem
          have hA := decAlt_encAltU root ihr i v s s1 x rest hc h1
          have e1 : ((root.length : Int) - 1 - 0 + 1).toNat = root.length := by omega
          have e2 : (((order.idxOf i : Nat) : Int) - 0).toNat = order.idxOf i := by omega
          have hB : rdBits (bitWidth root.length)
              (constrainedWholeNumber 0 ((root.length : Int) - 1) (order.idxOf i) ++ (x ++ rest)) =
              some (order.idxOf i, x ++ rest) := by
            unfold constrainedWholeNumber
            rw [e1, e2]
            exact rdBits_nnbi _ _ _ (Asn1c.Props.L1Per.lt_two_pow_bitWidth _ _ (by omega))
          cases ext with
          | false =>
            simp only [decUPER, Bool.false_eq_true, if_false, List.nil_append, List.append_assoc, hB,
              getElem?_idxOf order i hmem, hA]
          | true =>
            simp only [decUPER, if_true, List.cons_append, List.nil_append, rdBit, List.append_assoc, hB,
              getElem?_idxOf order i hmem, hA]
        · rw [if_neg hm] at he; simp at he
    · rw [if_neg hi] at hc he
      cases ext with
      | false => simp at he
      | true =>
        simp only [if_true] at he
        cases h1 : encAltU adds (i - root.length) v s with
        | none => simp [h1] at he
        | some p1 =>
          obtain ⟨x, s1⟩ := p1
          simp only [h1, Option.some.injEq, Prod.mk.injEq] at he
          obtain ⟨rfl, _⟩ := he
          obtain ⟨pad, hp, _⟩ := complete_spec x
          have hA := decAlt_encAltU adds iha (i - root.length) v s s1 x pad hc h1
          have e : root.length + (i - root.length) = i := by omega
          simp only [decUPER, if_true, List.cons_append, rdBit, List.append_assoc, decNormallySmall_enc,
            decOpen, hp, hA, e]
  | _ => simp [ucanonP] at hc

theorem rtu_seqOf (sz : SizeC) (e : PTy) (ih : RTU e) : RTU (.seqOf sz e) := by
  intro v s s' bits rest hc he
  cases v with
  | list vs =>
    simp only [ucanonP] at hc
    simp only [encUV] at he
    cases hl : mapEncU (encUV e) vs s with
    | none => simp [hl] at he
    | some p1 =>
      obtain ⟨items, s1⟩ := p1
      simp only [hl] at he
      cases hs : encSized sz items with
      | none => simp [hs] at he
      | some x =>
        simp only [hs, Option.map_some, Option.some.injEq, Prod.mk.injEq] at he
        obtain ⟨rfl, _⟩ := he
        simp only [decUPER, rtu_list sz e ih vs s s1 items x rest hc hl hs]
  | _ => simp [ucanonP] at hc

theorem rtu_setOf (sz : SizeC) (e : PTy) (ih : RTU e) : RTU (.setOf sz e) := by
  intro v s s' bits rest hc he
  cases v with
  | list vs =>
    simp only [ucanonP] at hc
    simp only [encUV] at he
    cases hl : mapEncU (encUV e) vs s with
    | none => simp [hl] at he
    | some p1 =>
      obtain ⟨items, s1⟩ := p1
      simp only [hl] at he
      cases hs : encSized sz items with
      | none => simp [hs] at he
      | some x =>
        simp only [hs, Option.map_some, Option.some.injEq, Prod.mk.injEq] at he
        obtain ⟨rfl, _⟩ := he
        simp only [decUPER, rtu_list sz e ih vs s s1 items x rest hc hl hs]
  | _ => simp [ucanonP] at hc

/-- a type without components is encoded by the canonical encoder: its round trip is `Proofs.L2Uper.rt_*` -/
theorem rtu_prim (t : PTy) (hrt : RT t) (hu : ∀ v, ucanonP t v = canonV t v)
    (he : ∀ v s, encUV t v s = (encUPER t v).map fun x => (x, s)) : RTU t := by
  intro v s s' bits rest hc h
  rw [he] at h
  cases hx : encUPER t v with
  | none => simp [hx] at h
  | some x =>
    simp only [hx, Option.map_some, Option.some.injEq, Prod.mk.injEq] at h
    obtain ⟨rfl, _⟩ := h
    exact hrt v x rest (by rw [← hu]; exact hc) hx

/-- the reference UPER decoder accepts every output of the variant encoder, for every selector state -/
theorem rtu_all : ∀ t, wfP t = true → RTU t := by
  apply PTy.induct' (fun t => wfP t = true → RTU t)
  · intro _; exact rtu_prim _ rt_boolean (fun v => by simp [ucanonP]) (fun v s => by cases v <;> simp [encUV, encUPER])
  · intro _; exact rtu_prim _ rt_null (fun v => by simp [ucanonP]) (fun v s => by cases v <;> simp [encUV, encUPER])
  · intro c _; exact rtu_prim _ (rt_integer c) (fun v => by simp [ucanonP]) (fun v s => by cases v <;> simp [encUV, encUPER])
  · intro r e _; exact rtu_prim _ (rt_enumerated r e) (fun v => by simp [ucanonP]) (fun v s => by cases v <;> simp [encUV, encUPER])
  · intro _; exact rtu_prim _ rt_real (fun v => by simp [ucanonP]) (fun v s => by cases v <;> simp [encUV, encUPER])
  · intro sz _; exact rtu_prim _ (rt_bitstr sz) (fun v => by simp [ucanonP]) (fun v s => by cases v <;> simp [encUV, encUPER])
  · intro sz _; exact rtu_prim _ (rt_octstr sz) (fun v => by simp [ucanonP]) (fun v s => by cases v <;> simp [encUV, encUPER])
  · intro cw a b sz _; exact rtu_prim _ (rt_kmstr cw a b sz) (fun v => by simp [ucanonP]) (fun v s => by cases v <;> simp [encUV, encUPER])
  · intro _; exact rtu_prim _ rt_unkstr (fun v => by simp [ucanonP]) (fun v s => by cases v <;> simp [encUV, encUPER])
  · intro root rattrs ext adds aattrs ihr iha hw
    simp only [wfP, Bool.and_eq_true, beq_iff_eq, decide_eq_true_eq] at hw
    obtain ⟨⟨⟨hwr, hwa⟩, hl⟩, hn⟩ := hw
    exact rtu_seq root rattrs ext adds aattrs (fun m hm => ihr m hm ((wfPs_iff root).mp hwr m hm))
      (fun m hm => iha m hm ((wfPs_iff adds).mp hwa m hm)) hl hn
  · intro root order ext adds ihr iha hw
    simp only [wfP, Bool.and_eq_true, decide_eq_true_eq] at hw
    obtain ⟨⟨hwr, hwa⟩, ho⟩ := hw
    exact rtu_choice root order ext adds (fun m hm => ihr m hm ((wfPs_iff root).mp hwr m hm))
      (fun m hm => iha m hm ((wfPs_iff adds).mp hwa m hm)) ho
  · intro s e ih hw
    simp only [wfP] at hw
    exact rtu_seqOf s e (ih hw)
  · intro s e ih hw
    simp only [wfP] at hw
    exact rtu_setOf s e (ih hw)

end Asn1c.Proofs.L2UperVariants
