import Asn1cModel.Impl.BerStream
import Asn1cModel.Proofs.L2Tlv
/-
  Helper lemmas about the streaming BER decoder model (Impl/BerStream.lean):
   * every decoder reports `consumed ≤ size` (C04),
   * the generic theory of `iterate` (per-iteration laws ⇒ `Restart.Lawful`),
   * extension stability of `ber_check_tags`, `ber_skip_length`, the primitive decoders.
-/
namespace Asn1c.Proofs.BerStream
open Asn1c Asn1c.Impl.BerTlv Asn1c.Impl.Restart Asn1c.Impl.BerStream Asn1c.Proofs.L2Tlv

/-! ### `iterate`: consumed ≤ size -/

def outAdv {σ : Type} : Out σ → Nat
  | .cont _ n => n
  | .ret _ _ n => n

/-- one iteration never advances beyond the presented bytes -/
def ItBound {σ : Type} (it : σ → Bytes → Out σ) : Prop := ∀ s p, outAdv (it s p) ≤ p.length

theorem iterate_le {σ : Type} (it : σ → Bytes → Out σ) (h : ItBound it) :
    ∀ f s p, (iterate it f s p).2.2 ≤ p.length := by
  intro f
  induction f with
  | zero => intro s p; simp [iterate]
  | succ f ih =>
    intro s p
    have hb := h s p
    unfold iterate
    split
    · rename_i s' rc n heq
      rw [heq] at hb; exact hb
    · rename_i s' n heq
      rw [heq] at hb
      simp only [outAdv] at hb
      have := ih s' (p.drop n)
      simp only [List.length_drop] at this
      simp only
      omega

/-! ### the TL readers -/

theorem fetchTag_le (p : Bytes) (v : Tag) (u : Nat) (h : fetchTag p = .ok v u) : 1 ≤ u ∧ u ≤ p.length :=
  (fetchTag_ext p []).2 v u h

theorem fetchLength_le (c : Bool) (p : Bytes) (v : Int) (u : Nat) (h : fetchLength c p = .ok v u) : u ≤ p.length :=
  (fetchLength_ext c p []).2 v u h

/-! ### ber_check_tags: consumed ≤ size -/

theorem ctRet_le (hasCtx : Bool) (rc : Rc) (cons step : Nat) (l c : Int) :
    (ctRet hasCtx rc cons step l c).consumed ≤ cons := by
  unfold ctRet; simp only; split <;> omega

theorem ctLoop_le (tags : List Tag) (tm lf : Int) (hc : Bool) (rem : Nat) (tagno : Int) (step : Nat) (limit : Int)
    (e00 : Nat) (tlvLen constr : Int) (cons : Nat) (bs : Bytes) :
    (ctLoop tags tm lf hc rem tagno step limit e00 tlvLen constr cons bs).consumed ≤ cons + bs.length := by
  fun_induction ctLoop tags tm lf hc rem tagno step limit e00 tlvLen constr cons bs
  all_goals (first | exact Nat.le_trans (ctRet_le ..) (Nat.le_add_right ..) | skip)
  all_goals (
    have htl := fetchTag_le _ _ _ ‹fetchTag _ = Fetch.ok _ _›
    have hll := fetchLength_le _ _ _ _ ‹fetchLength _ _ = Fetch.ok _ _›
    simp only [List.length_drop] at hll
    rename_i ih
    refine Nat.le_trans ih ?_
    try simp +zetaDelta only []
    try split
    all_goals (try simp only [List.length_take, List.length_drop]; omega))

theorem checkTagsRaw_le (tags : List Tag) (cs : Option Nat) (tm lf : Int) (bs : Bytes) :
    (checkTagsRaw tags cs tm lf bs).consumed ≤ bs.length := by
  unfold checkTagsRaw
  simp only
  repeat' split
  all_goals (first | exact Nat.le_trans (ctRet_le ..) (Nat.zero_le _) | skip)
  all_goals (
    refine Nat.le_trans (ctLoop_le ..) ?_
    first
    | (have htl := fetchTag_le _ _ _ ‹fetchTag _ = Fetch.ok _ _›
       have hll := fetchLength_le _ _ _ _ ‹fetchLength _ _ = Fetch.ok _ _›
       simp only [List.length_drop] at hll ⊢; omega)
    | omega)

theorem checkTags_le (tags : List Tag) (cs : Option Nat) (tm lf : Int) (bs : Bytes) :
    (checkTags tags cs tm lf bs).consumed ≤ bs.length := by
  unfold checkTags
  simp only
  split
  · exact Nat.zero_le _
  · exact checkTagsRaw_le tags cs tm lf bs

/-! ### ber_skip_length: the skipped size is within the presented bytes -/

theorem skip_le : ∀ f,
    (∀ c bs u n, skipLength f c bs = .ok u n → n ≤ bs.length) ∧
    (∀ ptr skip u n, skipIndef f ptr skip = .ok u n → n ≤ skip + ptr.length) := by
  intro f
  induction f with
  | zero => constructor <;> intros <;> simp_all [skipLength, skipIndef]
  | succ f ih =>
    obtain ⟨ih1, ih2⟩ := ih
    constructor
    · intro c bs u n h
      unfold skipLength at h
      split at h
      · cases h
      · cases h
      · rename_i vlen ll hl
        have hll := fetchLength_le _ _ _ _ hl
        split at h
        · split at h
          · cases h
          · injection h with _ h2; omega
        · have := ih2 _ _ _ _ h
          simp only [List.length_drop] at this; omega
    · intro ptr skip u n h
      unfold skipIndef at h
      split at h
      · cases h
      · cases h
      · rename_i tag tl ht
        have htl := fetchTag_le _ _ _ ht
        split at h
        · cases h
        · cases h
        · rename_i u' ll hs
          have hll := ih1 _ _ _ _ hs
          simp only [List.length_drop] at hll
          split at h
          · injection h with _ h2; omega
          · have := ih2 _ _ _ _ h
            simp only [List.length_drop] at this; omega

theorem skipLength_le (f : Nat) (c : Bool) (bs : Bytes) (u : Unit) (n : Nat) (h : skipLength f c bs = .ok u n) :
    n ≤ bs.length := (skip_le f).1 c bs u n h

/-! ### primitive decoders: consumed ≤ size -/

theorem primBody_le (k : PKind) (st : Option PVal) (cons len : Nat) (content : Bytes) :
    (primBody k st cons len content).2.2 ≤ cons + len := by
  unfold primBody
  repeat' split
  all_goals (simp only; omega)

theorem primBody_rc (k : PKind) (st : Option PVal) (cons len : Nat) (content : Bytes) :
    (primBody k st cons len content).2.1 ≠ .more := by
  unfold primBody
  repeat' split
  all_goals simp

theorem primTail_le (k : PKind) (st : Option PVal) (cons : Nat) (len : Int) (rest : Bytes) :
    (primTail k st cons len rest).2.2 ≤ cons + rest.length := by
  unfold primTail
  repeat' split
  all_goals (try simp only)
  all_goals (first | omega | (refine Nat.le_trans (primBody_le ..) ?_; omega))

theorem decPrim_le (tags : List Tag) (k : PKind) (tm : Int) (node : Node) (bs : Bytes) :
    (decPrim tags k tm node bs).2.2 ≤ bs.length := by
  have h := checkTags_le tags none tm 0 bs
  unfold decPrim
  simp only
  split
  · exact h
  · refine Nat.le_trans (primTail_le ..) ?_
    simp only [List.length_drop]; omega

/-! ### the constructed decoders: consumed ≤ size, given that of the member decoders -/

def MDecBound (mdec : MDec) : Prop := ∀ i n p, (mdec i n p).2.2 ≤ p.length
def DecBound (d : Node → Bytes → Node × Rc × Nat) : Prop := ∀ n p, (d n p).2.2 ≤ p.length

theorem fetchLenLoop_ge (len s oct : Nat) (p : Bytes) (v : Int) (u : Nat)
    (h : fetchLenLoop len s oct p = .ok v u) : s ≤ u := by
  induction oct generalizing len s p with
  | zero => unfold fetchLenLoop at h; split at h <;> simp_all
  | succ oct ih =>
    cases p with
    | nil => simp [fetchLenLoop] at h
    | cons b bs =>
      unfold fetchLenLoop at h
      split at h
      · cases h
      · have := ih _ _ _ h; omega

theorem fetchLength_ge (c : Bool) (p : Bytes) (v : Int) (u : Nat) (h : fetchLength c p = .ok v u) : 1 ≤ u := by
  cases p with
  | nil => simp [fetchLength] at h
  | cons b bs =>
    simp only [fetchLength] at h
    repeat' split at h
    all_goals first | (injection h with _ h2; omega) | exact fetchLenLoop_ge _ _ _ _ _ _ h | cases h

theorem leftOf_le (left : Int) (size : Nat) : leftOf left size ≤ size := by
  unfold leftOf; split <;> omega
theorem leftOf_neg (left : Int) (size : Nat) : left < 0 → leftOf left size = size := by
  intro h; unfold leftOf; simp [h]

theorem winFetchTag_le (left : Int) (bs : Bytes) (t : Tag) (n : Nat) (h : winFetchTag left bs = .ok t n) :
    1 ≤ n ∧ n ≤ leftOf left bs.length ∧ n ≤ bs.length := by
  unfold winFetchTag at h
  split at h
  · cases h
  · cases h
  · rename_i t' n' ht
    injection h with h1 h2; subst h2
    have := fetchTag_le _ _ _ ht
    have hl := leftOf_le left bs.length
    simp only [List.length_take] at this
    omega

theorem winSkip_le (left : Int) (bs : Bytes) (tl : Nat) (u : Unit) (n : Nat) (h : winSkip left bs tl = .ok u n) :
    n ≤ leftOf left bs.length - tl := by
  unfold winSkip at h
  split at h
  · cases h
  split at h
  · cases h
  · cases h
  · rename_i u' n' hs
    injection h with h1 h2; subst h2
    have := skipLength_le _ _ _ _ _ hs
    have hl := leftOf_le left bs.length
    simp only [List.length_take, List.length_drop] at this
    omega

theorem eocTest_yes_le (left : Int) (bs : Bytes) (h : eocTest left bs = .yes) : 2 ≤ bs.length := by
  unfold eocTest at h
  have hl := leftOf_le left bs.length
  repeat' split at h
  all_goals (first | (cases h; done) | omega)

theorem callMember_le (d : Node → Bytes → Node × Rc × Nat) (hd : DecBound d) (left : Int) (n : Node) (bs : Bytes) :
    (callMember d left n bs).2.2 ≤ bs.length := by
  have h := hd n (bs.take (leftOf left bs.length))
  simp only [List.length_take] at h
  unfold callMember
  simp only
  repeat' split
  all_goals (try simp only)
  all_goals omega

theorem seqMicro2_bound (mdec : MDec) (hm : MDecBound mdec) (bs : Bytes) (s : SeqSt) (edx : Nat) :
    outAdv (seqIt.micro2 mdec bs s edx) ≤ bs.length := by
  have h := callMember_le (mdec edx) (hm edx) s.ctx.left (s.ms.getD edx .none) bs
  unfold seqIt.micro2
  simp only
  repeat' split
  all_goals (simp only [outAdv]; omega)

theorem seqSearch_bound (es : List Elem) (fe : Int) (t2e : List T2M) (mdec : MDec) (hm : MDecBound mdec) (bs : Bytes)
    (s : SeqSt) (edx : Nat) (e : Elem) (tag : Tag) (tl : Nat) (htl : tl ≤ leftOf s.ctx.left bs.length) :
    outAdv (seqIt.search es fe t2e mdec bs s edx e tag tl) ≤ bs.length := by
  unfold seqIt.search
  repeat' split
  all_goals (first | exact seqMicro2_bound mdec hm .. | skip)
  all_goals (simp only [outAdv]; try omega)
  all_goals (
    have hl1 := leftOf_le s.ctx.left bs.length
    have hsk := winSkip_le _ _ _ _ _ ‹winSkip _ _ _ = WF.ok _ _›
    omega)

theorem seqIt_bound (tags : List Tag) (es : List Elem) (fe : Int) (t2e : List T2M) (mdec : MDec) (tm : Int)
    (hm : MDecBound mdec) : ItBound (seqIt tags es fe t2e mdec tm) := by
  intro s p
  have hct := checkTags_le tags (some s.ctx.step) tm 1 p
  unfold seqIt
  simp only
  repeat' split
  all_goals (first | exact seqMicro2_bound mdec hm .. | skip)
  all_goals (first | exact seqSearch_bound es fe t2e mdec hm _ _ _ _ _ _ (winFetchTag_le _ _ _ _ ‹_›).2.1 | skip)
  all_goals (simp only [outAdv]; try omega)
  all_goals (
    have hl1 := leftOf_le s.ctx.left p.length
    try have htl := winFetchTag_le _ _ _ _ ‹winFetchTag _ _ = WF.ok _ _›
    try have hsk := winSkip_le _ _ _ _ _ ‹winSkip _ _ _ = WF.ok _ _›
    try have hy := eocTest_yes_le _ _ ‹eocTest _ _ = Eoc.yes›
    omega)

theorem setOfMicro2_bound (edec : Node → Bytes → Node × Rc × Nat) (hm : DecBound edec) (bs : Bytes) (s : SetOfSt) :
    outAdv (setOfIt.micro2 edec bs s) ≤ bs.length := by
  have h := callMember_le edec hm s.ctx.left s.cur bs
  unfold setOfIt.micro2
  simp only
  repeat' split
  all_goals (simp only [outAdv]; omega)

theorem setOfIt_bound (tags : List Tag) (el : Elem) (edec : Node → Bytes → Node × Rc × Nat) (tm : Int)
    (hm : DecBound edec) : ItBound (setOfIt tags el edec tm) := by
  intro s p
  have hct := checkTags_le tags (some s.ctx.step) tm 1 p
  unfold setOfIt
  simp only
  repeat' split
  all_goals (first | exact setOfMicro2_bound edec hm .. | skip)
  all_goals (simp only [outAdv]; try omega)
  all_goals (
    have hl1 := leftOf_le s.ctx.left p.length
    have hl2 := leftOf_neg s.ctx.left p.length
    simp only [Bool.and_eq_true, decide_eq_true_eq, beq_iff_eq] at *
    omega)

theorem choiceIt_bound (tags : List Tag) (es : List Elem) (ext : Int) (t2e : List T2M) (mdec : MDec) (tm : Int)
    (hm : MDecBound mdec) : ItBound (choiceIt tags es ext t2e mdec tm) := by
  intro s p
  have hct := checkTags_le tags (some s.ctx.step) tm (-1) p
  have h := callMember_le (mdec s.ctx.step) (hm s.ctx.step) s.ctx.left s.m p
  unfold choiceIt
  simp only
  repeat' split
  all_goals (simp only [outAdv]; try omega)
  all_goals (
    have hl1 := leftOf_le s.ctx.left p.length
    try have htl := winFetchTag_le _ _ _ _ ‹winFetchTag _ _ = WF.ok _ _›
    try have hsk := winSkip_le _ _ _ _ _ ‹winSkip _ _ _ = WF.ok _ _›
    try have hy := eocTest_yes_le _ _ ‹eocTest _ _ = Eoc.yes›
    omega)

theorem ostrFinish_adv (bits : Bool) (s : OS) : outAdv (ostrFinish bits s) = 0 := by
  unfold ostrFinish; repeat' split
  all_goals rfl

theorem ostrFetch_le (l : Int) (bs : Bytes) (t : TL) (n : Nat) (h : ostrFetch l bs = .ok t n) :
    n = t.tl + t.ll ∧ 2 ≤ n ∧ n ≤ leftOf l bs.length ∧ n ≤ bs.length := by
  unfold ostrFetch at h
  simp only at h
  split at h
  · cases h
  · cases h
  · rename_i tag tl ht
    split at h
    · cases h
    · cases h
    · rename_i len ll hl
      injection h with h1 h2; subst h1; subst h2
      have htl := fetchTag_le _ _ _ ht
      have hll := fetchLength_le _ _ _ _ hl
      have hll1 := fetchLength_ge _ _ _ _ hl
      have hlo := leftOf_le l bs.length
      simp only [List.length_take, List.length_drop] at htl hll
      refine ⟨rfl, ?_, ?_, ?_⟩ <;> omega

theorem ostrTlv_adv2 (allTags : Nat → Tag → Tag) (s : OS) (t : TL) (h : 2 ≤ t.tl + t.ll) :
    outAdv (ostrTlv allTags s t) ≤ t.tl + t.ll := by
  unfold ostrTlv
  simp only
  repeat' split
  all_goals (simp only [outAdv]; omega)

theorem ostrCopy2_adv (bits : Bool) (s : OS) (f : Frame) (rest : List Frame) (chunk : Bytes) :
    outAdv (ostrCopy2 bits s f rest chunk) = chunk.length := by
  unfold ostrCopy2; simp only; split <;> rfl

theorem ostrCopy3_adv (bits : Bool) (s : OS) (chunk : Bytes) :
    outAdv (ostrCopy3 bits s chunk) ≤ chunk.length := by
  unfold ostrCopy3; simp only; repeat' split
  all_goals (simp only [outAdv]; omega)

theorem ostrIt_bound (tags allTags : List Tag) (bits : Bool) (tm : Int) : ItBound (ostrIt tags allTags bits tm) := by
  intro s p
  have hct := checkTags_le tags (some s.ctx.step) tm (-1) p
  unfold ostrIt
  simp only
  repeat' split
  all_goals (try simp only [ostrFinish_adv, ostrCopy2_adv])
  all_goals (first
    | (have hf := ostrFetch_le _ _ _ _ ‹ostrFetch _ _ = WF.ok _ _›
       refine Nat.le_trans (ostrTlv_adv2 _ _ _ (by omega)) ?_; omega)
    | (refine Nat.le_trans (ostrCopy3_adv ..) ?_; simp only [List.length_take]; omega)
    | (simp only [outAdv, List.length_take]; omega)
    | (simp only [outAdv]; omega)
    | omega)

/-! ### every decoder of a descriptor tree: consumed ≤ size -/

theorem ostrDec_le (tags allTags : List Tag) (bits : Bool) (tm : Int) (n : Node) (bs : Bytes) :
    (ostrDec tags allTags bits tm n bs).2.2 ≤ bs.length := by
  unfold ostrDec; exact iterate_le _ (ostrIt_bound _ _ _ _) _ _ _

theorem seqDec_le (tags : List Tag) (es : List Elem) (fe : Int) (t2e : List T2M) (mdec : MDec) (tm : Int)
    (hm : MDecBound mdec) (n : Node) (bs : Bytes) : (seqDec tags es fe t2e mdec tm n bs).2.2 ≤ bs.length := by
  unfold seqDec; exact iterate_le _ (seqIt_bound _ _ _ _ _ _ hm) _ _ _

theorem setOfDec_le (tags : List Tag) (el : Elem) (edec : Node → Bytes → Node × Rc × Nat) (tm : Int)
    (hm : DecBound edec) (n : Node) (bs : Bytes) : (setOfDec tags el edec tm n bs).2.2 ≤ bs.length := by
  unfold setOfDec; exact iterate_le _ (setOfIt_bound _ _ _ _ hm) _ _ _

theorem choiceDec_le (tags : List Tag) (es : List Elem) (ext : Int) (t2e : List T2M) (mdec : MDec) (tm : Int)
    (hm : MDecBound mdec) (n : Node) (bs : Bytes) : (choiceDec tags es ext t2e mdec tm n bs).2.2 ≤ bs.length := by
  unfold choiceDec; exact iterate_le _ (choiceIt_bound _ _ _ _ _ _ hm) _ _ _

mutual
theorem dec_le : ∀ (td : TD) (tm : Int) (n : Node) (bs : Bytes), (dec td tm n bs).2.2 ≤ bs.length
  | .prim tags allTags (.ostr bits), tm, n, bs => by simp only [dec]; exact ostrDec_le ..
  | .prim tags _ .boolean, tm, n, bs => by simp only [dec]; exact decPrim_le ..
  | .prim tags _ .null, tm, n, bs => by simp only [dec]; exact decPrim_le ..
  | .prim tags _ (.nint _), tm, n, bs => by simp only [dec]; exact decPrim_le ..
  | .prim tags _ (.prim _), tm, n, bs => by simp only [dec]; exact decPrim_le ..
  | .seq tags ms es fe t2e, tm, n, bs => by
    simp only [dec]; exact seqDec_le _ _ _ _ _ _ (fun i n p => decAt_le ms es i n p) _ _
  | .setOf tags e el, tm, n, bs => by
    simp only [dec]; exact setOfDec_le _ _ _ _ (fun n p => dec_le e el.tagMode n p) _ _
  | .choice tags ms es ext t2e, tm, n, bs => by
    simp only [dec]; exact choiceDec_le _ _ _ _ _ _ (fun i n p => decAt_le ms es i n p) _ _
theorem decAt_le : ∀ (ms : List TD) (es : List Elem) (i : Nat) (n : Node) (bs : Bytes),
    (decAt ms es i n bs).2.2 ≤ bs.length
  | m :: _, e :: _, 0, n, bs => by simp only [decAt]; exact dec_le m e.tagMode n bs
  | _ :: ms, _ :: es, i + 1, n, bs => by simp only [decAt]; exact decAt_le ms es i n bs
  | [], _, _, n, bs => by simp only [decAt]; exact Nat.zero_le _
  | _ :: _, [], _, n, bs => by simp only [decAt]; exact Nat.zero_le _
end

/-! ### extension stability of ber_check_tags (a verdict reached on a prefix is never revised) -/

theorem drop_append_le {α} (l1 l2 : List α) (n : Nat) (h : n ≤ l1.length) : (l1 ++ l2).drop n = l1.drop n ++ l2 := by
  rw [List.drop_append]; simp [Nat.sub_eq_zero_of_le h]
theorem take_append_ge {α} (l1 l2 : List α) (n : Nat) (h : n ≤ l1.length) : (l1 ++ l2).take n = l1.take n := by
  rw [List.take_append]; simp [Nat.sub_eq_zero_of_le h]
theorem headD_append {α} (l1 l2 : List α) (d : α) (h : 1 ≤ l1.length) : (l1 ++ l2).headD d = l1.headD d := by
  cases l1 with
  | nil => simp at h
  | cons a t => rfl

def CTExt (a b : CT) : Prop := a.rc ≠ .more → b = a

theorem ctLoop_ext (tags : List Tag) (tm lf : Int) (hc : Bool) :
    ∀ rem tagno step limit e00 tlvLen constr cons bs ext,
      CTExt (ctLoop tags tm lf hc rem tagno step limit e00 tlvLen constr cons bs)
            (ctLoop tags tm lf hc rem tagno step limit e00 tlvLen constr cons (bs ++ ext)) := by
  intro rem
  induction rem with
  | zero => intros; unfold ctLoop; intro _; rfl
  | succ rem ih =>
    intro tagno step limit e00 tlvLen constr cons bs ext
    unfold ctLoop
    have ht := (fetchTag_ext bs ext).1
    cases h : fetchTag bs with
    | fail => rw [h] at ht; simp only [Fetch.Ext] at ht; rw [ht]; intro _; rfl
    | more => intro hne; exact absurd (by simp [ctRet]) hne
    | ok tag tl =>
      rw [h] at ht; simp only [Fetch.Ext] at ht; rw [ht]
      have htl := fetchTag_le _ _ _ h
      simp only
      rw [headD_append _ _ _ (by omega), drop_append_le _ _ _ htl.2]
      have hl := (fetchLength_ext (isConstructed (bs.headD 0)) (bs.drop tl) ext).1
      split
      · intro _; rfl
      · split
        · intro _; rfl
        · cases h2 : fetchLength (isConstructed (bs.headD 0)) (bs.drop tl) with
          | fail => rw [h2] at hl; simp only [Fetch.Ext] at hl; rw [hl]; intro _; rfl
          | more => intro hne; exact absurd (by simp [ctRet]) hne
          | ok len ll =>
            rw [h2] at hl; simp only [Fetch.Ext] at hl; rw [hl]
            have hll := fetchLength_le _ _ _ _ h2
            simp only [List.length_drop] at hll
            simp only
            rw [drop_append_le _ _ _ (by omega)]
            split
            · split
              · exact ih _ _ _ _ _ _ _ _ _
              · intro _; rfl
            · split
              · intro _; rfl
              · split
                · intro _; rfl
                · split
                  · intro _; rfl
                  · simp only [List.length_append]
                    split
                    · rename_i hgt
                      split
                      · rw [take_append_ge _ _ _ (by omega)]
                        intro _; rfl
                      · omega
                    · rename_i hle
                      split
                      · rw [List.take_append]
                        rw [List.take_of_length_le (by omega)]
                        exact ih _ _ _ _ _ _ _ _ _
                      · exact ih _ _ _ _ _ _ _ _ _


theorem checkTagsRaw_ext (tags : List Tag) (cs : Option Nat) (tm lf : Int) (bs ext : Bytes) :
    CTExt (checkTagsRaw tags cs tm lf bs) (checkTagsRaw tags cs tm lf (bs ++ ext)) := by
  unfold checkTagsRaw
  simp only
  split
  · have ht := (fetchTag_ext bs ext).1
    cases h : fetchTag bs with
    | fail => rw [h] at ht; simp only [Fetch.Ext] at ht; rw [ht]; intro _; rfl
    | more => intro hne; exact absurd (by simp [ctRet]) hne
    | ok tag tl =>
      rw [h] at ht; simp only [Fetch.Ext] at ht; rw [ht]
      have htl := fetchTag_le _ _ _ h
      simp only
      rw [headD_append _ _ _ (by omega), drop_append_le _ _ _ htl.2]
      have hl := (fetchLength_ext (isConstructed (bs.headD 0)) (bs.drop tl) ext).1
      cases h2 : fetchLength (isConstructed (bs.headD 0)) (bs.drop tl) with
      | fail => rw [h2] at hl; simp only [Fetch.Ext] at hl; rw [hl]; intro _; rfl
      | more => intro hne; exact absurd (by simp [ctRet]) hne
      | ok len ll =>
        rw [h2] at hl; simp only [Fetch.Ext] at hl; rw [hl]
        have hll := fetchLength_le _ _ _ _ h2
        simp only [List.length_drop] at hll
        simp only
        rw [drop_append_le _ _ _ (by omega)]
        exact ctLoop_ext _ _ _ _ _ _ _ _ _ _ _ _ _ _
  · split
    · exact ctLoop_ext _ _ _ _ _ _ _ _ _ _ _ _ _ _
    · intro _; rfl

theorem checkTags_ext (tags : List Tag) (cs : Option Nat) (tm lf : Int) (bs ext : Bytes) :
    CTExt (checkTags tags cs tm lf bs) (checkTags tags cs tm lf (bs ++ ext)) := by
  intro hne
  have hraw : (checkTagsRaw tags cs tm lf bs).rc ≠ .more := by
    intro h; apply hne; unfold checkTags; simp [h]
  have := checkTagsRaw_ext tags cs tm lf bs ext hraw
  unfold checkTags
  rw [this]

/-- RC_WMORE from `ber_check_tags` means nothing was consumed and the saved step is unchanged, whatever the length
    of the tag chain: the restart repeats the call on the same state -/
theorem checkTags_more (tags : List Tag) (cs : Option Nat) (tm lf : Int) (bs : Bytes)
    (h : (checkTags tags cs tm lf bs).rc = .more) :
    (checkTags tags cs tm lf bs).consumed = 0 ∧ (checkTags tags cs tm lf bs).step = cs.getD 0 := by
  unfold checkTags at h ⊢
  by_cases hr : (checkTagsRaw tags cs tm lf bs).rc = .more
  · simp [hr]
  · simp [hr] at h

/-! ### generic theory of `iterate`: per-iteration laws ⇒ the laws of a restartable decoder -/

/-- add `n` to the advance of an iteration outcome -/
def bump {σ : Type} (n : Nat) : Out σ → Out σ
  | .cont s k => .cont s (n + k)
  | .ret s rc k => .ret s rc (n + k)

/-- two results agree: same return code and – unless that is RC_FAIL, where the C decoders report a
    consumed count that depends on the chunking – the same state and the same consumed count -/
def ResEq {σ : Type} (a b : σ × Rc × Nat) : Prop := a.2.1 = b.2.1 ∧ (a.2.1 ≠ .fail → a = b)

theorem ResEq.refl {σ : Type} (a : σ × Rc × Nat) : ResEq a a := ⟨rfl, fun _ => rfl⟩
theorem ResEq.symm {σ : Type} {a b : σ × Rc × Nat} (h : ResEq a b) : ResEq b a :=
  ⟨h.1.symm, fun hb => (h.2 (by rw [h.1]; exact hb)).symm⟩
theorem ResEq.trans {σ : Type} {a b c : σ × Rc × Nat} (h1 : ResEq a b) (h2 : ResEq b c) : ResEq a c :=
  ⟨h1.1.trans h2.1, fun ha => (h1.2 ha).trans (h2.2 (by rw [← h1.1]; exact ha))⟩
theorem ResEq.of_fail {σ : Type} {a b : σ × Rc × Nat} (ha : a.2.1 = .fail) (hb : b.2.1 = .fail) : ResEq a b :=
  ⟨ha.trans hb.symm, fun h => absurd ha h⟩

/-- shift the consumed count of a result -/
def shiftR {σ : Type} (n : Nat) (r : σ × Rc × Nat) : σ × Rc × Nat := (r.1, r.2.1, n + r.2.2)

theorem ResEq.shift {σ : Type} {a b : σ × Rc × Nat} (n : Nat) (h : ResEq a b) : ResEq (shiftR n a) (shiftR n b) :=
  ⟨h.1, fun ha => by rw [h.2 ha]⟩

/-- iteration outcomes agree up to the state / advance of a `RETURN(RC_FAIL)` -/
def OutEq {σ : Type} (a b : Out σ) : Prop :=
  a = b ∨ ∃ s n s' n', a = .ret s .fail n ∧ b = .ret s' .fail n'

/-- the laws one iteration of a saved-context machine has to obey (`μ` = fuel measure) -/
structure ItLaws {σ : Type} (it : σ → Bytes → Out σ) (μ : σ → Bytes → Nat) : Prop where
  bound : ItBound it
  decr : ∀ s p s' n, it s p = .cont s' n → μ s' (p.drop n) < μ s p
  cont_stable : ∀ s p s' n, it s p = .cont s' n → ∀ ext, it s (p ++ ext) = .cont s' n
  ok_stable : ∀ s p s' n, it s p = .ret s' .ok n → ∀ ext, it s (p ++ ext) = .ret s' .ok n
  fail_stable : ∀ s p s' n, it s p = .ret s' .fail n → ∀ ext, ∃ s'' n', it s (p ++ ext) = .ret s'' .fail n'
  resume : ∀ s p s' n, it s p = .ret s' .more n → ∀ ext, OutEq (it s (p ++ ext)) (bump n (it s' (p.drop n ++ ext)))

theorem iterate_fuel {σ : Type} (it : σ → Bytes → Out σ) (μ : σ → Bytes → Nat)
    (hdecr : ∀ s p s' n, it s p = .cont s' n → μ s' (p.drop n) < μ s p) :
    ∀ f1 f2 s p, μ s p < f1 → μ s p < f2 → iterate it f1 s p = iterate it f2 s p := by
  intro f1
  induction f1 with
  | zero => intro f2 s p h; omega
  | succ f1 ih =>
    intro f2 s p h1 h2
    cases f2 with
    | zero => omega
    | succ f2 =>
      unfold iterate
      cases h : it s p with
      | ret s' rc n => rfl
      | cont s' n =>
        have := hdecr s p s' n h
        simp only
        rw [ih f2 s' (p.drop n) (by omega) (by omega)]

theorem iterate_main {σ : Type} (it : σ → Bytes → Out σ) (μ : σ → Bytes → Nat) (L : ItLaws it μ) :
    ∀ f s p ext, μ s p < f → μ s (p ++ ext) < f →
      ((iterate it f s p).2.1 = .ok → iterate it f s (p ++ ext) = iterate it f s p) ∧
      ((iterate it f s p).2.1 = .fail → (iterate it f s (p ++ ext)).2.1 = .fail) ∧
      ((iterate it f s p).2.1 = .more →
        ResEq (iterate it f s (p ++ ext))
          (shiftR (iterate it f s p).2.2
            (iterate it (μ (iterate it f s p).1 (p.drop (iterate it f s p).2.2 ++ ext) + 1) (iterate it f s p).1
              (p.drop (iterate it f s p).2.2 ++ ext)))) := by
  intro f
  induction f with
  | zero => intro s p ext h; omega
  | succ f ih =>
    intro s p ext h1 h2
    have hb := L.bound s p
    cases h : it s p with
    | ret s' rc n =>
      rw [h] at hb; simp only [outAdv] at hb
      have e1 : iterate it (f + 1) s p = (s', rc, n) := by rw [iterate]; simp only [h]
      rw [e1]
      refine ⟨?_, ?_, ?_⟩
      · intro hm
        simp only at hm; subst hm
        have := L.ok_stable s p s' n h ext
        rw [iterate]; simp only [this]
      · intro hm
        simp only at hm; subst hm
        obtain ⟨s'', n', this⟩ := L.fail_stable s p s' n h ext
        rw [iterate]; simp only [this]
      · intro hm
        simp only at hm
        subst hm
        have hr := L.resume s p s' n h ext
        simp only
        rcases hr with hr | ⟨a1, a2, a3, a4, hr1, hr2⟩
        · rw [iterate]
          simp only [hr]
          cases hx : it s' (p.drop n ++ ext) with
          | ret s'' rc' k =>
            simp only [bump, shiftR]
            rw [iterate]; simp only [hx]
            exact ResEq.refl _
          | cont s'' k =>
            simp only [bump, shiftR]
            rw [iterate]; simp only [hx]
            have hd1 := L.decr s (p ++ ext) s'' (n + k) (by rw [hr, hx]; rfl)
            have hd2 := L.decr s' (p.drop n ++ ext) s'' k hx
            have hbytes : (p ++ ext).drop (n + k) = (p.drop n ++ ext).drop k := by
              rw [← List.drop_drop, drop_append_le _ _ _ hb]
            rw [hbytes] at hd1 ⊢
            rw [iterate_fuel it μ L.decr f (μ s' (p.drop n ++ ext)) s'' _ (by omega) (by omega)]
            simp only [Nat.add_assoc]
            exact ResEq.refl _
        · refine ResEq.of_fail ?_ ?_
          · rw [iterate]; simp only [hr1]
          · cases hx : it s' (p.drop n ++ ext) with
            | ret s'' rc' k =>
              rw [hx] at hr2; simp only [bump] at hr2
              injection hr2 with _ hrc _
              simp only [shiftR]
              rw [iterate]; simp only [hx]; exact hrc
            | cont s'' k => rw [hx] at hr2; simp [bump] at hr2
    | cont s' n =>
      rw [h] at hb; simp only [outAdv] at hb
      have hc := L.cont_stable s p s' n h ext
      have hd1 := L.decr s p s' n h
      have hd2 := L.decr s (p ++ ext) s' n hc
      rw [drop_append_le _ _ _ hb] at hd2
      obtain ⟨ih1, ih2, ih3⟩ := ih s' (p.drop n) ext (by omega) (by omega)
      have e1 : iterate it (f + 1) s p =
          ((iterate it f s' (p.drop n)).1, (iterate it f s' (p.drop n)).2.1, n + (iterate it f s' (p.drop n)).2.2) := by
        rw [iterate]; simp only [h]
      have e2 : iterate it (f + 1) s (p ++ ext) =
          ((iterate it f s' (p.drop n ++ ext)).1, (iterate it f s' (p.drop n ++ ext)).2.1,
            n + (iterate it f s' (p.drop n ++ ext)).2.2) := by
        rw [iterate]; simp only [hc, drop_append_le _ _ _ hb]
      rw [e1, e2]
      refine ⟨?_, ?_, ?_⟩
      · intro hm
        rw [ih1 hm]
      · intro hm
        exact ih2 hm
      · intro hm
        have := ResEq.shift n (ih3 hm)
        simpa only [shiftR, List.drop_drop, Nat.add_assoc] using this

/-- the decoder obtained by running a lawful iteration with its measure as fuel -/
def itDec {σ : Type} (it : σ → Bytes → Out σ) (μ : σ → Bytes → Nat) : Dec σ where
  step s p := iterate it (μ s p + 1) s p

theorem itDec_at {σ : Type} (it : σ → Bytes → Out σ) (μ : σ → Bytes → Nat) (L : ItLaws it μ) (s : σ) (p : Bytes)
    (f : Nat) (hf : μ s p < f) : (itDec it μ).step s p = iterate it f s p :=
  iterate_fuel it μ L.decr _ _ s p (by omega) hf

/-- the laws of a restartable decoder up to the consumed count reported with RC_FAIL -/
structure LawfulRc {σ : Type} (d : Dec σ) : Prop where
  consumed_le : ∀ s p, (d.step s p).2.2 ≤ p.length
  resume : ∀ s p s1 k, d.step s p = (s1, .more, k) → ∀ ext,
      ResEq (d.step s (p ++ ext)) (shiftR k (d.step s1 (p.drop k ++ ext)))
  ok_stable : ∀ s p s1 k, d.step s p = (s1, .ok, k) → ∀ ext, d.step s (p ++ ext) = (s1, .ok, k)
  fail_stable : ∀ s p s1 k, d.step s p = (s1, .fail, k) → ∀ ext, (d.step s (p ++ ext)).2.1 = .fail

theorem lawfulRc_of_lawful {σ : Type} (d : Dec σ) (h : Lawful d) : LawfulRc d := by
  refine ⟨?_, ?_, ?_, ?_⟩
  · intro s p
    exact h.consumed_le s p _ _ _ rfl
  · intro s p s1 k hs ext
    obtain ⟨h1, h2⟩ := h.resume s p s1 k hs ext
    rw [h1]
    simp only [shiftR]
    have : k + ((d.step s (p ++ ext)).2.2 - k) = (d.step s (p ++ ext)).2.2 := by omega
    rw [this]
    exact ResEq.refl _
  · exact h.ok_stable
  · intro s p s1 k hs ext
    rw [h.fail_stable s p s1 k hs ext]

theorem lawfulRc_of_itLaws {σ : Type} (it : σ → Bytes → Out σ) (μ : σ → Bytes → Nat) (L : ItLaws it μ) :
    LawfulRc (itDec it μ) := by
  have key : ∀ s p ext,
      (((itDec it μ).step s p).2.1 = .ok → (itDec it μ).step s (p ++ ext) = (itDec it μ).step s p) ∧
      (((itDec it μ).step s p).2.1 = .fail → ((itDec it μ).step s (p ++ ext)).2.1 = .fail) ∧
      (((itDec it μ).step s p).2.1 = .more →
        ResEq ((itDec it μ).step s (p ++ ext))
          (shiftR ((itDec it μ).step s p).2.2
            ((itDec it μ).step ((itDec it μ).step s p).1 (p.drop ((itDec it μ).step s p).2.2 ++ ext)))) := by
    intro s p ext
    let f := μ s p + μ s (p ++ ext) + 1
    have h1 : μ s p < f := by omega
    have h2 : μ s (p ++ ext) < f := by omega
    rw [itDec_at it μ L s p f h1, itDec_at it μ L s (p ++ ext) f h2]
    exact iterate_main it μ L f s p ext h1 h2
  refine ⟨?_, ?_, ?_, ?_⟩
  · intro s p
    exact iterate_le it L.bound (μ s p + 1) s p
  · intro s p s1 k h ext
    have hk := (key s p ext).2.2 (by rw [h])
    rw [h] at hk
    exact hk
  · intro s p s1 k h ext
    have hk := (key s p ext).1 (by rw [h])
    rw [hk, h]
  · intro s p s1 k h ext
    exact (key s p ext).2.1 (by rw [h])

/-- transporting the laws along a state embedding (`Node` ↔ machine state) -/
theorem lawfulRc_wrap {σ τ : Type} (d : Dec σ) (hd : LawfulRc d) (frm : τ → σ) (tof : σ → τ)
    (hft : ∀ s, frm (tof s) = s) :
    LawfulRc (⟨fun n p => ((tof (d.step (frm n) p).1), (d.step (frm n) p).2)⟩ : Dec τ) := by
  refine ⟨?_, ?_, ?_, ?_⟩
  · intro n p
    exact hd.consumed_le (frm n) p
  · intro n p n1 k h ext
    simp only [Prod.mk.injEq] at h
    obtain ⟨h1, h2⟩ := h
    have hs : d.step (frm n) p = ((d.step (frm n) p).1, .more, k) := by rw [← h2]
    have := hd.resume (frm n) p _ k hs ext
    simp only
    rw [← h1, hft]
    refine ⟨this.1, fun hne => ?_⟩
    have := this.2 hne
    simp only [shiftR] at this ⊢
    rw [this]
  · intro n p n1 k h ext
    simp only [Prod.mk.injEq] at h
    obtain ⟨h1, h2⟩ := h
    have hs : d.step (frm n) p = ((d.step (frm n) p).1, .ok, k) := by rw [← h2]
    have := hd.ok_stable (frm n) p _ k hs ext
    simp only
    rw [this, ← h1]
  · intro n p n1 k h ext
    simp only [Prod.mk.injEq] at h
    obtain ⟨h1, h2⟩ := h
    have hs : d.step (frm n) p = ((d.step (frm n) p).1, .fail, k) := by rw [← h2]
    exact hd.fail_stable (frm n) p _ k hs ext

/-! ### extension stability of the windowed readers -/

theorem skip_ge : ∀ f,
    (∀ c bs u n, skipLength f c bs = .ok u n → 1 ≤ n) ∧
    (∀ ptr skip u n, skipIndef f ptr skip = .ok u n → skip ≤ n) := by
  intro f
  induction f with
  | zero => constructor <;> intros <;> simp_all [skipLength, skipIndef]
  | succ f ih =>
    obtain ⟨ih1, ih2⟩ := ih
    constructor
    · intro c bs u n h
      unfold skipLength at h
      split at h
      · cases h
      · cases h
      · rename_i vlen ll hl
        have hll := fetchLength_ge _ _ _ _ hl
        split at h
        · split at h
          · cases h
          · injection h with _ h2; omega
        · have := ih2 _ _ _ _ h; omega
    · intro ptr skip u n h
      unfold skipIndef at h
      split at h
      · cases h
      · cases h
      · split at h
        · cases h
        · cases h
        · split at h
          · injection h with _ h2; omega
          · have := ih2 _ _ _ _ h; omega

theorem skip_ext : ∀ f,
    (∀ c p q, Fetch.Ext (skipLength f c p) (skipLength f c (p ++ q))) ∧
    (∀ p q skip, Fetch.Ext (skipIndef f p skip) (skipIndef f (p ++ q) skip)) := by
  intro f
  induction f with
  | zero => constructor <;> intros <;> simp [skipLength, skipIndef, Fetch.Ext]
  | succ f ih =>
    obtain ⟨ih1, ih2⟩ := ih
    constructor
    · intro c p q
      unfold skipLength
      have hl := (fetchLength_ext c p q).1
      cases h : fetchLength c p with
      | fail => rw [h] at hl; simp only [Fetch.Ext] at hl; rw [hl]; simp [Fetch.Ext]
      | more => simp [Fetch.Ext]
      | ok vlen ll =>
        rw [h] at hl; simp only [Fetch.Ext] at hl; rw [hl]
        have hll := fetchLength_le _ _ _ _ h
        simp only
        split
        · split
          · simp [Fetch.Ext]
          · rw [if_neg (by simp only [List.length_append]; omega)]
            simp [Fetch.Ext]
        · rw [drop_append_le _ _ _ hll]
          exact ih2 _ _ _
    · intro p q skip
      unfold skipIndef
      have ht := (fetchTag_ext p q).1
      cases h : fetchTag p with
      | fail => rw [h] at ht; simp only [Fetch.Ext] at ht; rw [ht]; simp [Fetch.Ext]
      | more => simp [Fetch.Ext]
      | ok tag tl =>
        rw [h] at ht; simp only [Fetch.Ext] at ht; rw [ht]
        have htl := fetchTag_le _ _ _ h
        simp only
        rw [headD_append _ _ _ (by omega), drop_append_le _ _ _ htl.2]
        have hs := ih1 (isConstructed (p.headD 0)) (p.drop tl) q
        cases h2 : skipLength f (isConstructed (p.headD 0)) (p.drop tl) with
        | fail => rw [h2] at hs; simp only [Fetch.Ext] at hs; rw [hs]; simp [Fetch.Ext]
        | more => simp [Fetch.Ext]
        | ok u ll =>
          rw [h2] at hs; simp only [Fetch.Ext] at hs; rw [hs]
          have hll := (skip_le f).1 _ _ _ _ h2
          have hll1 := (skip_ge f).1 _ _ _ _ h2
          simp only [List.length_drop] at hll
          simp only
          rw [headD_append _ _ _ (by omega)]
          have h2nd : ((p ++ q).drop 1).headD 1 = (p.drop 1).headD 1 := by
            rw [drop_append_le _ _ _ (by omega), headD_append _ _ _ (by simp only [List.length_drop]; omega)]
          rw [h2nd]
          split
          · simp [Fetch.Ext]
          · rw [drop_append_le _ _ _ (by omega)]
            exact ih2 _ _ _

theorem skipLength_ext (f : Nat) (c : Bool) (p q : Bytes) :
    Fetch.Ext (skipLength f c p) (skipLength f c (p ++ q)) := (skip_ext f).1 c p q

/-- the `LEFT` window of the presented bytes -/
def winOf (left : Int) (bs : Bytes) : Bytes := bs.take (leftOf left bs.length)

theorem sizeViolation_mono (left : Int) (a b : Nat) (h : sizeViolation left a = true) (hab : a ≤ b) :
    sizeViolation left b = true := by
  unfold sizeViolation at *
  simp only [Bool.and_eq_true, decide_eq_true_eq] at *
  omega

/-- appending bytes extends the window, and not at all once the frame is exhausted -/
theorem win_ext (left : Int) (p ext : Bytes) :
    ∃ e, winOf left (p ++ ext) = winOf left p ++ e ∧ (sizeViolation left p.length = true → e = []) := by
  refine ⟨ext.take (leftOf left (p ++ ext).length - p.length), ?_, ?_⟩
  · unfold winOf
    rw [List.take_append]
    congr 1
    unfold leftOf
    simp only [List.length_append]
    split
    · rw [List.take_of_length_le (by omega), List.take_of_length_le (by omega)]
    · by_cases hc : left.toNat ≤ p.length
      · rw [Nat.min_eq_right (by omega), Nat.min_eq_right hc]
      · rw [List.take_of_length_le (by omega), List.take_of_length_le (by omega)]
  · intro hsv
    unfold sizeViolation at hsv
    simp only [Bool.and_eq_true, decide_eq_true_eq] at hsv
    unfold leftOf
    simp only [List.length_append]
    rw [if_neg (by omega)]
    have : min (p.length + ext.length) left.toNat - p.length = 0 := by omega
    rw [this]; rfl

theorem moreOrFail_fail (left : Int) (size : Nat) (h : moreOrFail left size = .fail) : sizeViolation left size = true := by
  unfold moreOrFail at h
  split at h
  · assumption
  · cases h

theorem winFetchTag_ext (left : Int) (p ext : Bytes) (h : winFetchTag left p ≠ .ret .more) :
    winFetchTag left (p ++ ext) = winFetchTag left p := by
  obtain ⟨e, he, hsv⟩ := win_ext left p ext
  unfold winOf at he
  unfold winFetchTag at h ⊢
  rw [he]
  have ht := (fetchTag_ext (p.take (leftOf left p.length)) e).1
  cases hf : fetchTag (p.take (leftOf left p.length)) with
  | fail => rw [hf] at ht; simp only [Fetch.Ext] at ht; rw [ht]
  | ok t n => rw [hf] at ht; simp only [Fetch.Ext] at ht; rw [ht]
  | more =>
    rw [hf] at h
    simp only at h
    have hfail : moreOrFail left p.length = .fail := by
      cases hm : moreOrFail left p.length with
      | fail => rfl
      | more => rw [hm] at h; exact absurd rfl h
      | ok => unfold moreOrFail at hm; split at hm <;> cases hm
    have hs := moreOrFail_fail _ _ hfail
    rw [hsv hs, List.append_nil, hf]
    simp only [hfail]
    have := sizeViolation_mono left p.length (p ++ ext).length hs (by simp)
    unfold moreOrFail; rw [this]; rfl

theorem eocTest_ext (left : Int) (p ext : Bytes) (h : eocTest left p ≠ .wait .more) :
    eocTest left (p ++ ext) = eocTest left p := by
  unfold eocTest at h ⊢
  by_cases hemp : p.isEmpty = true
  · simp [hemp] at h
  · have hne : 1 ≤ p.length := by
      cases p with
      | nil => simp at hemp
      | cons a t => simp
    have hemp' : (p ++ ext).isEmpty = false := by
      cases p with
      | nil => simp at hne
      | cons a t => rfl
    simp only [hemp, hemp', Bool.false_eq_true, if_false] at h ⊢
    rw [headD_append _ _ _ hne]
    by_cases hc : (decide (left < 0) && p.headD 1 == 0) = true
    · simp only [hc, if_true] at h ⊢
      have hneg : left < 0 := by simp only [Bool.and_eq_true, decide_eq_true_eq] at hc; exact hc.1
      rw [leftOf_neg _ p.length hneg] at h
      rw [leftOf_neg _ (p ++ ext).length hneg, leftOf_neg _ p.length hneg]
      by_cases h2 : p.length < 2
      · simp only [h2, if_true] at h
        exfalso; apply h
        unfold moreOrFail sizeViolation
        simp [show ¬ (left ≥ 0) by omega]
      · have h2' : ¬ (p ++ ext).length < 2 := by simp only [List.length_append]; omega
        simp only [h2, h2', if_false]
        rw [drop_append_le _ _ _ (by omega), headD_append _ _ _ (by simp only [List.length_drop]; omega)]
    · simp only [hc, if_false, Bool.false_eq_true]

theorem winSkip_ext (left : Int) (p ext : Bytes) (tl : Nat) (h : winSkip left p tl ≠ .ret .more) :
    winSkip left (p ++ ext) tl = winSkip left p tl := by
  obtain ⟨e, he, hsv⟩ := win_ext left p ext
  unfold winOf at he
  unfold winSkip at h ⊢
  by_cases hemp : p.isEmpty = true
  · simp [hemp] at h
  · have hne : 1 ≤ p.length := by
      cases p with
      | nil => simp at hemp
      | cons a t => simp
    have hemp' : (p ++ ext).isEmpty = false := by
      cases p with
      | nil => simp at hne
      | cons a t => rfl
    simp only [hemp, hemp', Bool.false_eq_true, if_false] at h ⊢
    rw [he, headD_append _ _ _ hne]
    by_cases htl : tl ≤ (p.take (leftOf left p.length)).length
    · rw [drop_append_le _ _ _ htl]
      have ht := skipLength_ext skipFuel (isConstructed (p.headD 0)) ((p.take (leftOf left p.length)).drop tl) e
      cases hf : skipLength skipFuel (isConstructed (p.headD 0)) ((p.take (leftOf left p.length)).drop tl) with
      | fail => rw [hf] at ht; simp only [Fetch.Ext] at ht; rw [ht]
      | ok t n => rw [hf] at ht; simp only [Fetch.Ext] at ht; rw [ht]
      | more =>
        rw [hf] at h
        simp only at h
        have hfail : moreOrFail left p.length = .fail := by
          cases hm : moreOrFail left p.length with
          | fail => rfl
          | more => rw [hm] at h; exact absurd rfl h
          | ok => unfold moreOrFail at hm; split at hm <;> cases hm
        have hs := moreOrFail_fail _ _ hfail
        rw [hsv hs, List.append_nil, hf]
        simp only [hfail]
        have := sizeViolation_mono left p.length (p ++ ext).length hs (by simp)
        unfold moreOrFail; rw [this]; rfl
    · -- the tag length exceeds the window: unreachable after a successful fetch; both sides skip nothing
      have hd : (p.take (leftOf left p.length)).drop tl = [] := List.drop_eq_nil_of_le (by omega)
      rw [hd] at h
      have hm : skipLength skipFuel (isConstructed (p.headD 0)) [] = .more := by
        unfold skipFuel; rw [skipLength]; simp [fetchLength]
      rw [hm] at h
      simp only at h
      have hfail : moreOrFail left p.length = .fail := by
        cases hm : moreOrFail left p.length with
        | fail => rfl
        | more => rw [hm] at h; exact absurd rfl h
        | ok => unfold moreOrFail at hm; split at hm <;> cases hm
      have hs := moreOrFail_fail _ _ hfail
      rw [hsv hs, List.append_nil, hd, hm]
      simp only [hfail]
      have := sizeViolation_mono left p.length (p ++ ext).length hs (by simp)
      unfold moreOrFail; rw [this]; rfl

/-! ### the member call of the constructed decoders -/

/-- the RC_WMORE / SIZE_VIOLATION post-processing of `callMember` -/
def postMember (left : Int) (size : Nat) (r : Node × Rc × Nat) : Node × Rc × Nat :=
  match r.2.1 with
  | .ok => r
  | .more => if !sizeViolation left size then r else (r.1, .fail, 0)
  | .fail => (r.1, .fail, 0)

theorem callMember_eq (d : Node → Bytes → Node × Rc × Nat) (left : Int) (n : Node) (bs : Bytes) :
    callMember d left n bs = postMember left bs.length (d n (winOf left bs)) := rfl

theorem postMember_rc_fail (left : Int) (size : Nat) (r : Node × Rc × Nat) (h : r.2.1 = .fail) :
    (postMember left size r).2.1 = .fail := by
  unfold postMember; rw [h]

theorem leftOf_adv (left : Int) (size k : Nat) (hk : k ≤ leftOf left size) :
    leftOf (advLeft left k) (size - k) = leftOf left size - k := by
  by_cases hneg : left < 0
  · have h1 : advLeft left k = left := by unfold advLeft; rw [if_neg (by omega)]
    rw [h1, leftOf_neg _ _ hneg, leftOf_neg _ _ hneg]
  · have hl : leftOf left size = min size left.toNat := by unfold leftOf; rw [if_neg hneg]
    rw [hl] at hk ⊢
    have h1 : advLeft left k = left - k := by unfold advLeft; rw [if_pos (by omega)]
    rw [h1]
    unfold leftOf
    rw [if_neg (by omega)]
    omega

theorem sv_adv (left : Int) (size k : Nat) (hk : k ≤ leftOf left size) :
    sizeViolation (advLeft left k) (size - k) = sizeViolation left size := by
  have hl := leftOf_le left size
  unfold leftOf at hk hl
  unfold sizeViolation advLeft
  split at hk
  · rename_i hneg
    rw [if_neg (by omega)]
    simp [show ¬ (left ≥ 0) by omega]
  · rename_i hpos
    rw [if_pos (by omega)]
    have h1 : (left - (k : Int) ≥ 0) := by omega
    have h0 : left ≥ 0 := by omega
    simp only [h1, h0, decide_true, Bool.true_and]
    congr 1
    apply propext
    constructor <;> intro h <;> omega

theorem win_drop (left : Int) (q : Bytes) (k : Nat) (hk : k ≤ leftOf left q.length) :
    winOf (advLeft left k) (q.drop k) = (winOf left q).drop k := by
  unfold winOf
  rw [List.length_drop, leftOf_adv _ _ _ hk, List.drop_take]

theorem postMember_shift (left left' : Int) (size size' k : Nat) (r' r'' : Node × Rc × Nat)
    (hsv : sizeViolation left' size' = sizeViolation left size) (h : ResEq r' (shiftR k r'')) :
    ResEq (postMember left size r') (shiftR k (postMember left' size' r'')) := by
  obtain ⟨h1, h2⟩ := h
  simp only [shiftR] at h1
  cases hrc : r''.2.1 with
  | fail =>
    rw [hrc] at h1
    exact ResEq.of_fail (postMember_rc_fail _ _ _ h1) (by simp only [shiftR]; exact postMember_rc_fail _ _ _ hrc)
  | ok =>
    rw [hrc] at h1
    have := h2 (by rw [h1]; simp)
    unfold postMember
    rw [h1, hrc]
    simp only
    rw [this]; exact ResEq.refl _
  | more =>
    rw [hrc] at h1
    have := h2 (by rw [h1]; simp)
    unfold postMember
    rw [h1, hrc]
    simp only [hsv]
    split
    · rw [this]; exact ResEq.refl _
    · exact ResEq.of_fail rfl rfl

theorem callMember_ok_ext (d : Node → Bytes → Node × Rc × Nat) (hd : LawfulRc ⟨d⟩) (left : Int) (n : Node)
    (p ext : Bytes) (n' : Node) (k : Nat) (h : callMember d left n p = (n', .ok, k)) :
    callMember d left n (p ++ ext) = (n', .ok, k) := by
  obtain ⟨e, he, _⟩ := win_ext left p ext
  rw [callMember_eq] at h ⊢
  rw [he]
  unfold postMember at h
  split at h
  · rename_i hrc
    have hst : d n (winOf left p) = (n', .ok, k) := h
    have := hd.ok_stable n (winOf left p) n' k hst e
    simp only at this
    rw [this]; rfl
  · split at h
    · rename_i hrc _; rw [h] at hrc; cases hrc
    · cases h
  · cases h

theorem callMember_fail_ext (d : Node → Bytes → Node × Rc × Nat) (hd : LawfulRc ⟨d⟩) (left : Int) (n : Node)
    (p ext : Bytes) (h : (callMember d left n p).2.1 = .fail) :
    (callMember d left n (p ++ ext)).2.1 = .fail := by
  obtain ⟨e, he, hsv⟩ := win_ext left p ext
  rw [callMember_eq] at h ⊢
  rw [he]
  cases hrc : (d n (winOf left p)).2.1 with
  | ok => unfold postMember at h; rw [hrc] at h; simp only at h; rw [hrc] at h; cases h
  | fail =>
    have := hd.fail_stable n (winOf left p) _ _ (by rw [← hrc]) e
    exact postMember_rc_fail _ _ _ this
  | more =>
    unfold postMember at h; rw [hrc] at h; simp only at h
    split at h
    · rw [hrc] at h; cases h
    · rename_i hs
      have hs' : sizeViolation left p.length = true := by simpa using hs
      rw [hsv hs', List.append_nil]
      unfold postMember; rw [hrc]; simp only
      rw [sizeViolation_mono left p.length (p ++ ext).length hs' (by simp)]
      rfl

theorem callMember_more_ext (d : Node → Bytes → Node × Rc × Nat) (hd : LawfulRc ⟨d⟩) (left : Int) (n : Node)
    (p ext : Bytes) (n1 : Node) (k : Nat) (h : callMember d left n p = (n1, .more, k)) :
    k ≤ leftOf left p.length ∧
    ResEq (callMember d left n (p ++ ext)) (shiftR k (callMember d (advLeft left k) n1 (p.drop k ++ ext))) := by
  obtain ⟨e, he, _⟩ := win_ext left p ext
  have hst : d n (winOf left p) = (n1, .more, k) := by
    rw [callMember_eq] at h
    unfold postMember at h
    split at h
    · rename_i hrc; rw [h] at hrc; cases hrc
    · split at h
      · exact h
      · cases h
    · cases h
  have hk : k ≤ leftOf left p.length := by
    have := hd.consumed_le n (winOf left p)
    simp only at this
    rw [hst] at this
    unfold winOf at this
    simp only [List.length_take] at this
    omega
  refine ⟨hk, ?_⟩
  have hl := leftOf_le left p.length
  have hkq : k ≤ leftOf left (p ++ ext).length := by
    have : leftOf left p.length ≤ leftOf left (p ++ ext).length := by
      unfold leftOf; simp only [List.length_append]; split <;> omega
    omega
  have hres := hd.resume n (winOf left p) n1 k hst e
  simp only at hres
  rw [callMember_eq, callMember_eq, he]
  have hw : winOf (advLeft left k) (p.drop k ++ ext) = (winOf left p).drop k ++ e := by
    rw [← drop_append_le p ext k (by omega), win_drop _ _ _ hkq, he, drop_append_le]
    unfold winOf; simp only [List.length_take]; omega
  rw [hw]
  refine postMember_shift _ _ _ _ _ _ _ ?_ hres
  have : (p.drop k ++ ext).length = (p ++ ext).length - k := by
    simp only [List.length_append, List.length_drop]; omega
  rw [this]
  exact sv_adv _ _ _ hkq

/-! ### the per-iteration relation from which the stability laws follow -/

/-- what one iteration on `p ++ ext` has to be, given what it is on `p` -/
def StepRel {σ : Type} (it : σ → Bytes → Out σ) (s : σ) (p ext : Bytes) : Prop :=
  match it s p with
  | .cont s' n => it s (p ++ ext) = .cont s' n
  | .ret s' .ok n => it s (p ++ ext) = .ret s' .ok n
  | .ret _ .fail _ => ∃ s'' n', it s (p ++ ext) = .ret s'' .fail n'
  | .ret s' .more n => OutEq (it s (p ++ ext)) (bump n (it s' (p.drop n ++ ext)))

theorem itLaws_mk {σ : Type} (it : σ → Bytes → Out σ) (μ : σ → Bytes → Nat) (hb : ItBound it)
    (hdecr : ∀ s p s' n, it s p = .cont s' n → μ s' (p.drop n) < μ s p)
    (hrel : ∀ s p ext, StepRel it s p ext) : ItLaws it μ := by
  refine ⟨hb, hdecr, ?_, ?_, ?_, ?_⟩
  · intro s p s' n h ext
    have := hrel s p ext; unfold StepRel at this; rw [h] at this; exact this
  · intro s p s' n h ext
    have := hrel s p ext; unfold StepRel at this; rw [h] at this; exact this
  · intro s p s' n h ext
    have := hrel s p ext; unfold StepRel at this; rw [h] at this; exact this
  · intro s p s' n h ext
    have := hrel s p ext; unfold StepRel at this; rw [h] at this; exact this

theorem bump_zero {σ : Type} (o : Out σ) : bump 0 o = o := by
  cases o <;> simp [bump]

/-- a pure wait (`RETURN(RC_WMORE)` with nothing consumed and the state untouched) is trivially resumable -/
theorem stepRel_wait {σ : Type} (it : σ → Bytes → Out σ) (s : σ) (p ext : Bytes) (h : it s p = .ret s .more 0) :
    StepRel it s p ext := by
  unfold StepRel; rw [h]
  simp only [List.drop_zero, bump_zero]
  exact Or.inl rfl

theorem stepRel_same {σ : Type} (it : σ → Bytes → Out σ) (s : σ) (p ext : Bytes)
    (hnm : ∀ s' n, it s p ≠ .ret s' .more n) (h : it s (p ++ ext) = it s p) : StepRel it s p ext := by
  unfold StepRel
  cases ho : it s p with
  | cont s' n => rw [h, ho]
  | ret s' rc n =>
    cases rc with
    | ok => simp only; rw [h, ho]
    | fail => exact ⟨s', n, by rw [h, ho]⟩
    | more => exact absurd ho (hnm s' n)

theorem stepRel_fail {σ : Type} (it : σ → Bytes → Out σ) (s : σ) (p ext : Bytes) (s1 s2 : σ) (n1 n2 : Nat)
    (h1 : it s p = .ret s1 .fail n1) (h2 : it s (p ++ ext) = .ret s2 .fail n2) : StepRel it s p ext := by
  unfold StepRel; rw [h1]; exact ⟨s2, n2, h2⟩

/-- phase 0 of the context-carrying decoders: `ber_check_tags` either waits without touching anything or gives a
    verdict that more input does not change -/
theorem checkTags_cases (tags : List Tag) (step : Nat) (tm lf : Int) (p ext : Bytes) :
    (checkTags tags (some step) tm lf p).rc = .more ∧ (checkTags tags (some step) tm lf p).consumed = 0 ∧
      (checkTags tags (some step) tm lf p).step = step ∨
    (checkTags tags (some step) tm lf p).rc ≠ .more ∧
      checkTags tags (some step) tm lf (p ++ ext) = checkTags tags (some step) tm lf p := by
  by_cases h : (checkTags tags (some step) tm lf p).rc = .more
  · left
    have := checkTags_more tags (some step) tm lf p h
    exact ⟨h, this.1, by simpa using this.2⟩
  · right
    exact ⟨h, checkTags_ext tags (some step) tm lf p ext h⟩

/-! ### the primitive decoders are lawful restartable decoders -/

def NoCtxZero (r : CT) : Prop := r.rc ≠ .ok → r.consumed = 0

theorem ctLoop_noctx (tags : List Tag) (tm lf : Int) (hc : Bool) (hhc : hc = false) (rem : Nat) (tagno : Int)
    (step : Nat) (limit : Int) (e00 : Nat) (tlvLen constr : Int) (cons : Nat) (bs : Bytes) :
    NoCtxZero (ctLoop tags tm lf hc rem tagno step limit e00 tlvLen constr cons bs) := by
  subst hhc
  fun_induction ctLoop tags tm lf false rem tagno step limit e00 tlvLen constr cons bs
  all_goals (first | assumption | simp [NoCtxZero, ctRet])

theorem checkTagsRaw_noctx (tags : List Tag) (tm lf : Int) (bs : Bytes) :
    NoCtxZero (checkTagsRaw tags none tm lf bs) := by
  unfold checkTagsRaw
  simp only
  repeat' split
  all_goals (first | exact ctLoop_noctx _ _ _ _ rfl _ _ _ _ _ _ _ _ _ | simp [NoCtxZero, ctRet])

theorem checkTags_noctx (tags : List Tag) (tm lf : Int) (bs : Bytes) :
    NoCtxZero (checkTags tags none tm lf bs) := by
  unfold checkTags
  simp only
  split
  · intro _; rfl
  · exact checkTagsRaw_noctx tags tm lf bs

theorem primTail_ext (k : PKind) (st : Option PVal) (cons : Nat) (len : Int) (rest ext : Bytes)
    (h : (primTail k st cons len rest).2.1 ≠ .more) :
    primTail k st cons len (rest ++ ext) = primTail k st cons len rest := by
  unfold primTail at h ⊢
  by_cases hk : (k == PKind.null) = true
  · simp only [hk, if_true]
  · simp only [hk, if_false, Bool.false_eq_true] at h ⊢
    by_cases hl : len > (rest.length : Int)
    · simp [hl] at h
    · have hl' : len.toNat ≤ rest.length := by omega
      rw [if_neg hl, if_neg (by simp only [List.length_append]; omega)]
      simp only [take_append_ge _ _ _ hl']

theorem primTail_more (k : PKind) (st : Option PVal) (cons : Nat) (len : Int) (rest : Bytes)
    (h : (primTail k st cons len rest).2.1 = .more) : primTail k st cons len rest = (.prim st, .more, 0) := by
  unfold primTail at h ⊢
  by_cases hk : (k == PKind.null) = true
  · simp only [hk, if_true] at h
    split at h <;> simp at h
  · simp only [hk, if_false, Bool.false_eq_true] at h ⊢
    by_cases hl : len > (rest.length : Int)
    · simp [hl]
    · rw [if_neg hl] at h
      exact absurd h (primBody_rc _ _ _ _ _)

theorem decPrim_norm (tags : List Tag) (k : PKind) (tm : Int) (node : Node) (q : Bytes) :
    decPrim tags k tm (.prim (primSt node)) q = decPrim tags k tm node q := by
  unfold decPrim; rfl

theorem decPrim_lawful (tags : List Tag) (k : PKind) (tm : Int) : Lawful (⟨decPrim tags k tm⟩ : Dec Node) := by
  have key : ∀ node p ext, (decPrim tags k tm node p).2.1 ≠ .more →
      decPrim tags k tm node (p ++ ext) = decPrim tags k tm node p := by
    intro node p ext h
    have hct := checkTags_ext tags none tm 0 p ext
    have hle := checkTags_le tags none tm 0 p
    unfold decPrim at h ⊢
    simp only at h ⊢
    by_cases hok : (checkTags tags none tm 0 p).rc = .ok
    · have := hct (by rw [hok]; simp)
      rw [this]
      simp only [hok, bne_self_eq_false, Bool.false_eq_true, if_false] at h ⊢
      rw [drop_append_le _ _ _ hle]
      exact primTail_ext _ _ _ _ _ _ h
    · have hne : ((checkTags tags none tm 0 p).rc != .ok) = true := by simpa using hok
      simp only [hne, if_true] at h ⊢
      have := hct h
      rw [this]
      simp only [hne, if_true]
  have kmore : ∀ node p, (decPrim tags k tm node p).2.1 = .more →
      decPrim tags k tm node p = (.prim (primSt node), .more, 0) := by
    intro node p h
    have hz := checkTags_noctx tags tm 0 p
    unfold decPrim at h ⊢
    simp only at h ⊢
    by_cases hok : (checkTags tags none tm 0 p).rc = .ok
    · simp only [hok, bne_self_eq_false, Bool.false_eq_true, if_false] at h ⊢
      exact primTail_more _ _ _ _ _ h
    · have hne : ((checkTags tags none tm 0 p).rc != .ok) = true := by simpa using hok
      simp only [hne, if_true] at h ⊢
      rw [hz hok, h]
  refine ⟨?_, ?_, ?_, ?_⟩
  · intro s p s' rc k' h
    have := decPrim_le tags k tm s p
    simp only at h
    rw [h] at this; exact this
  · intro s p s1 k' h ext
    simp only at h ⊢
    have hm := kmore s p (by rw [h])
    rw [h] at hm
    injection hm with h1 h2
    injection h2 with _ h3
    subst h1; subst h3
    simp only [List.drop_zero, Nat.sub_zero, Nat.zero_le, and_true]
    rw [decPrim_norm]
  · intro s p s1 k' h ext
    simp only at h ⊢
    rw [key s p ext (by rw [h]; simp), h]
  · intro s p s1 k' h ext
    simp only at h ⊢
    rw [key s p ext (by rw [h]; simp), h]

end Asn1c.Proofs.BerStream
