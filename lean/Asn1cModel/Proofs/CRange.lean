import Asn1cModel.Impl.CRange
import Mathlib.Tactic.Tauto
import Mathlib.Tactic.SplitIfs
/-
  Helper lemmas for C09: denotation of interval lists, correctness of the list algorithms of
  Impl.CRange (`splitIv`, `splitLoop`, `intersection`, `sortIvs`, `mergeLoop`, `canonicalize`)
  and uniqueness of the canonical form.
-/
namespace Asn1c.Impl.CRange

/-! ### edges as bounds -/

/-- `x` is at or above the edge used as a left bound -/
def Edge.leInt : Edge → Int → Bool
  | .min, _ => true
  | .val a, x => decide (a ≤ x)
  | .max, _ => false
/-- `x` is at or below the edge used as a right bound -/
def Edge.geInt : Edge → Int → Bool
  | .max, _ => true
  | .val a, x => decide (x ≤ a)
  | .min, _ => false

def Iv.mem (i : Iv) (x : Int) : Bool := Edge.leInt i.lo x && Edge.geInt i.hi x

/-- denotation of a list of leaf ranges -/
def den (l : List Iv) (x : Int) : Bool := l.any (Iv.mem · x)

@[simp] theorem den_nil (x : Int) : den [] x = false := rfl
@[simp] theorem den_cons (a : Iv) (l : List Iv) (x : Int) : den (a :: l) x = (Iv.mem a x || den l x) := rfl
theorem den_append (l₁ l₂ : List Iv) (x : Int) : den (l₁ ++ l₂) x = (den l₁ x || den l₂ x) := by
  simp [den]

theorem den_eq_true {l : List Iv} {x : Int} : den l x = true ↔ ∃ i ∈ l, Iv.mem i x = true := by
  simp [den]

/-- a leaf that denotes a non-empty set of integers: left edge not MAX, right edge not MIN, left ≤ right -/
def Iv.wf (i : Iv) : Prop := i.lo ≠ .max ∧ i.hi ≠ .min ∧ edgeCmp i.lo i.hi ≤ 0

instance (i : Iv) : Decidable (Iv.wf i) := by unfold Iv.wf; infer_instance

theorem Iv.wf_ordered {i : Iv} (h : i.wf) : i.ordered = true := by
  simp [Iv.ordered, h.2.2]

theorem edgeCmp_val_le {a b : Int} : edgeCmp (.val a) (.val b) ≤ 0 ↔ a ≤ b := by
  simp only [edgeCmp]; repeat' split
  all_goals omega

/-- a well-formed leaf has a member -/
theorem Iv.wf_nonempty {i : Iv} (h : i.wf) : ∃ x, i.mem x = true := by
  obtain ⟨lo, hi⟩ := i
  obtain ⟨h1, h2, h3⟩ := h
  match lo, hi, h1, h2, h3 with
  | .min, .max, _, _, _ => exact ⟨0, rfl⟩
  | .min, .val z, _, _, _ => exact ⟨z, by simp [Iv.mem, Edge.leInt, Edge.geInt]⟩
  | .val z, .max, _, _, _ => exact ⟨z, by simp [Iv.mem, Edge.leInt, Edge.geInt]⟩
  | .val a, .val b, _, _, h3 =>
    have := edgeCmp_val_le.mp h3
    exact ⟨a, by simp [Iv.mem, Edge.leInt, Edge.geInt, this]⟩
  | .max, _, h1, _, _ => exact absurd rfl h1
  | .min, .min, _, h2, _ => exact absurd rfl h2
  | .val _, .min, _, h2, _ => exact absurd rfl h2

theorem Iv.mem_wf {i : Iv} {x : Int} (h : i.mem x = true) : i.wf := by
  obtain ⟨lo, hi⟩ := i
  cases lo <;> cases hi <;> simp_all [Iv.mem, Iv.wf, Edge.leInt, Edge.geInt, edgeCmp]
  rename_i a b
  split
  · omega
  · split <;> omega

/-! ### `_edge_compare` on values -/

@[simp] theorem edgeCmp_val_lt {a b : Int} : edgeCmp (.val a) (.val b) < 0 ↔ a < b := by
  simp only [edgeCmp]; repeat' split
  all_goals omega
@[simp] theorem edgeCmp_val_gt {a b : Int} : 0 < edgeCmp (.val a) (.val b) ↔ b < a := by
  simp only [edgeCmp]; repeat' split
  all_goals omega
@[simp] theorem edgeCmp_val_le' {a b : Int} : edgeCmp (.val a) (.val b) ≤ 0 ↔ a ≤ b := edgeCmp_val_le
@[simp] theorem edgeCmp_val_ge {a b : Int} : 0 ≤ edgeCmp (.val a) (.val b) ↔ b ≤ a := by
  simp only [edgeCmp]; repeat' split
  all_goals omega
@[simp] theorem edgeCmp_val_eq {a b : Int} : edgeCmp (.val a) (.val b) = 0 ↔ a = b := by
  simp only [edgeCmp]; repeat' split
  all_goals omega
@[simp] theorem edgeCmp_min_min : edgeCmp .min .min = 0 := rfl
@[simp] theorem edgeCmp_min_max : edgeCmp .min .max = -1 := rfl
@[simp] theorem edgeCmp_min_val {a : Int} : edgeCmp .min (.val a) = -1 := rfl
@[simp] theorem edgeCmp_max_min : edgeCmp .max .min = 1 := rfl
@[simp] theorem edgeCmp_max_max : edgeCmp .max .max = 0 := rfl
@[simp] theorem edgeCmp_max_val {a : Int} : edgeCmp .max (.val a) = 1 := rfl
@[simp] theorem edgeCmp_val_min {a : Int} : edgeCmp (.val a) .min = 1 := rfl
@[simp] theorem edgeCmp_val_max {a : Int} : edgeCmp (.val a) .max = -1 := rfl

theorem edgeCmp_self (e : Edge) : edgeCmp e e = 0 := by cases e <;> simp

theorem edgeCmp_eq_zero {a b : Edge} : edgeCmp a b = 0 ↔ a = b := by
  cases a <;> cases b <;> simp

/-- the tactic used for finite case analyses over edges: after `cases` on every edge in sight
    the goal is linear integer arithmetic -/
macro "edge_simp" : tactic =>
  `(tactic| simp_all [Iv.mem, Iv.wf, Edge.leInt, Edge.geInt, overlap, adjacent, Iv.ordered])

/-! ### `_range_overlap` -/

theorem overlap_false_disjoint {a b : Iv} (h : overlap a b = false) (x : Int) :
    ¬ (a.mem x = true ∧ b.mem x = true) := by
  obtain ⟨al, ah⟩ := a; obtain ⟨bl, bh⟩ := b
  cases al <;> cases ah <;> cases bl <;> cases bh <;> edge_simp <;> omega

/-! ### `_range_split` -/


@[simp] theorem leInt_min (x : Int) : Edge.leInt .min x = true := rfl
@[simp] theorem leInt_max (x : Int) : Edge.leInt .max x = false := rfl
@[simp] theorem leInt_val (a x : Int) : Edge.leInt (.val a) x = decide (a ≤ x) := rfl
@[simp] theorem geInt_min (x : Int) : Edge.geInt .min x = false := rfl
@[simp] theorem geInt_max (x : Int) : Edge.geInt .max x = true := rfl
@[simp] theorem geInt_val (a x : Int) : Edge.geInt (.val a) x = decide (x ≤ a) := rfl

def splitPieces (ra rb : Iv) : List Iv :=
  (if edgeCmp ra.lo rb.lo < 0 then
      match rb.lo with
      | .val v => if v == ASN_INTEGER_MIN then [] else [⟨ra.lo, .val (v - 1)⟩]
      | e => [⟨ra.lo, e⟩]
    else []) ++
  (if edgeCmp ra.hi rb.hi > 0 then
      match rb.hi with
      | .val v => if v == ASN_INTEGER_MAX then [] else [⟨.val (v + 1), ra.hi⟩]
      | e => [⟨e, ra.hi⟩]
    else []) ++
  [⟨if edgeCmp ra.lo rb.lo < 0 then rb.lo else ra.lo, if edgeCmp ra.hi rb.hi > 0 then rb.hi else ra.hi⟩]

/-- edges stay strictly inside the `asn1c_integer_t` range so that the two limit tests of `_range_split` never fire -/
def Iv.bnd (i : Iv) : Prop :=
  (∀ v, i.lo = .val v → ASN_INTEGER_MIN < v ∧ v ≤ ASN_INTEGER_MAX) ∧ (∀ v, i.hi = .val v → ASN_INTEGER_MIN ≤ v ∧ v < ASN_INTEGER_MAX)

def predE : Edge → Edge | .val v => .val (v - 1) | e => e
def succE : Edge → Edge | .val v => .val (v + 1) | e => e

/-- `splitPieces` when the limit tests do not fire -/
def splitPieces' (ra rb : Iv) : List Iv :=
  (if edgeCmp ra.lo rb.lo < 0 then [⟨ra.lo, predE rb.lo⟩] else []) ++
  (if edgeCmp ra.hi rb.hi > 0 then [⟨succE rb.hi, ra.hi⟩] else []) ++
  [⟨if edgeCmp ra.lo rb.lo < 0 then rb.lo else ra.lo, if edgeCmp ra.hi rb.hi > 0 then rb.hi else ra.hi⟩]

theorem splitPieces_eq {x w : Iv} (hb : w.bnd) : splitPieces x w = splitPieces' x w := by
  obtain ⟨wl, wh⟩ := w
  obtain ⟨hb1, hb2⟩ := hb
  have e1 : ∀ v, wl = .val v → (v == ASN_INTEGER_MIN) = false := by
    intro v hv; have := hb1 v hv; simp; omega
  have e2 : ∀ v, wh = .val v → (v == ASN_INTEGER_MAX) = false := by
    intro v hv; have := hb2 v hv; simp; omega
  cases wl <;> cases wh <;> simp_all [splitPieces, splitPieces', predE, succE]

theorem splitPieces'_den {x w : Iv} (hx : x.wf) (hw : w.wf) (ho : overlap x w = true) (y : Int) :
    den (splitPieces' x w) y = x.mem y := by
  obtain ⟨xl, xh⟩ := x; obtain ⟨wl, wh⟩ := w
  cases xl <;> cases xh <;> cases wl <;> cases wh <;>
    simp_all [splitPieces', Iv.mem, Iv.wf, overlap, predE, succE] <;>
    (try split_ifs) <;> (try simp [Iv.mem]) <;> (try rw [Bool.eq_iff_iff]) <;> (try simp) <;> omega


theorem splitPieces'_wf {x w : Iv} (hx : x.wf) (hw : w.wf) (ho : overlap x w = true) :
    ∀ p ∈ splitPieces' x w, p.wf := by
  obtain ⟨xl, xh⟩ := x; obtain ⟨wl, wh⟩ := w
  intro p hp
  cases xl <;> cases xh <;> cases wl <;> cases wh <;>
    simp_all [splitPieces', Iv.wf, overlap, predE, succE] <;>
    (try split_ifs at hp) <;> (try simp_all) <;> (try (rcases hp with hp | hp | hp)) <;> (try subst hp) <;> (try simp_all) <;> (try omega)


theorem splitPieces'_bnd {x w : Iv} (hx : x.wf) (hw : w.wf) (hbx : x.bnd) (hbw : w.bnd) (ho : overlap x w = true) :
    ∀ p ∈ splitPieces' x w, p.bnd := by
  obtain ⟨xl, xh⟩ := x; obtain ⟨wl, wh⟩ := w
  intro p hp
  simp only [Iv.bnd, ASN_INTEGER_MIN, ASN_INTEGER_MAX] at hbx hbw ⊢
  cases xl <;> cases xh <;> cases wl <;> cases wh <;>
    simp_all [splitPieces', Iv.wf, overlap, predE, succE] <;>
    (try split_ifs at hp) <;> (try simp_all) <;> (try (rcases hp with hp | hp | hp)) <;> (try subst hp) <;> (try simp_all) <;> (try omega)




theorem mem_insertByLo {x p : Iv} {l : List Iv} : p ∈ insertByLo x l ↔ p = x ∨ p ∈ l := by
  induction l with
  | nil => simp [insertByLo]
  | cons y ys ih =>
    simp only [insertByLo]; split
    · simp
    · simp [ih]; tauto

theorem mem_foldl_insertByLo {p : Iv} (l acc : List Iv) :
    p ∈ l.foldl (fun acc x => insertByLo x acc) acc ↔ p ∈ acc ∨ p ∈ l := by
  induction l generalizing acc with
  | nil => simp
  | cons y ys ih => simp [ih, mem_insertByLo]; tauto

theorem mem_sortByLo {p : Iv} {l : List Iv} : p ∈ sortByLo l ↔ p ∈ l := by
  simp [sortByLo, mem_foldl_insertByLo]

theorem den_congr_mem {l₁ l₂ : List Iv} (h : ∀ p, p ∈ l₁ ↔ p ∈ l₂) (x : Int) : den l₁ x = den l₂ x := by
  rw [Bool.eq_iff_iff, den_eq_true, den_eq_true]
  constructor <;> rintro ⟨i, hi, hx⟩
  · exact ⟨i, (h i).mp hi, hx⟩
  · exact ⟨i, (h i).mpr hi, hx⟩

theorem splitIv_some {ra rb : Iv} {ps : List Iv} (h : splitIv ra rb = some ps) :
    overlap ra rb = true ∧ (edgeCmp ra.lo rb.lo < 0 ∨ 0 < edgeCmp ra.hi rb.hi) ∧ ps = sortByLo (splitPieces ra rb) := by
  unfold splitIv at h
  by_cases ho : overlap ra rb = true
  · simp only [ho, Bool.not_true, Bool.false_eq_true, if_false] at h
    by_cases hc : (decide (edgeCmp ra.lo rb.lo ≥ 0) && decide (edgeCmp ra.hi rb.hi ≤ 0)) = true
    · simp [hc] at h
    · simp only [hc] at h
      refine ⟨ho, ?_, ?_⟩
      · simp at hc; omega
      · simp only [Bool.false_eq_true, if_false, Option.some.injEq] at h
        rw [← h]; rfl
  · simp [ho] at h

theorem splitIv_none {ra rb : Iv} (h : splitIv ra rb = none) :
    overlap ra rb = false ∨ (0 ≤ edgeCmp ra.lo rb.lo ∧ edgeCmp ra.hi rb.hi ≤ 0) := by
  unfold splitIv at h
  by_cases ho : overlap ra rb = true
  · simp only [ho, Bool.not_true, Bool.false_eq_true, if_false] at h
    by_cases hc : (decide (edgeCmp ra.lo rb.lo ≥ 0) && decide (edgeCmp ra.hi rb.hi ≤ 0)) = true
    · right; simpa using hc
    · simp [hc] at h
  · left; simpa using ho


/-! ### the split loop and `_range_intersection` -/


/-- everything a leaf list must satisfy for the algorithms to be exact -/
def Good (l : List Iv) : Prop := ∀ p ∈ l, p.wf ∧ p.bnd

theorem Good.append {a b : List Iv} (ha : Good a) (hb : Good b) : Good (a ++ b) := by
  intro p hp; rcases List.mem_append.mp hp with h | h
  · exact ha p h
  · exact hb p h

theorem splitIv_some_spec {x w : Iv} {ps : List Iv} (hx : x.wf ∧ x.bnd) (hw : w.wf ∧ w.bnd)
    (h : splitIv x w = some ps) : (∀ y, den ps y = x.mem y) ∧ Good ps := by
  obtain ⟨ho, _, rfl⟩ := splitIv_some h
  rw [splitPieces_eq hw.2]
  constructor
  · intro y
    rw [den_congr_mem (fun p => mem_sortByLo) y]
    exact splitPieces'_den hx.1 hw.1 ho y
  · intro p hp
    rw [mem_sortByLo] at hp
    exact ⟨splitPieces'_wf hx.1 hw.1 ho p hp, splitPieces'_bnd hx.1 hw.1 hx.2 hw.2 ho p hp⟩

theorem splitLoop_spec {W : List Iv} (hW : Good W) :
    ∀ (fuel : Nat) (done todo out : List Iv), Good (done ++ todo) → splitLoop W fuel done todo = some out →
      (∀ y, den out y = den (done ++ todo) y) ∧ Good out ∧
      (∀ p ∈ out, p ∈ done ∨ ∀ w ∈ W, splitIv p w = none) := by
  intro fuel
  induction fuel with
  | zero =>
    intro done todo out hg h
    cases todo with
    | nil =>
      simp [splitLoop] at h; subst h
      exact ⟨fun y => by simp, by simpa using hg, fun p hp => Or.inl hp⟩
    | cons x rest => simp [splitLoop] at h
  | succ fuel ih =>
    intro done todo out hg h
    cases todo with
    | nil =>
      simp [splitLoop] at h; subst h
      exact ⟨fun y => by simp, by simpa using hg, fun p hp => Or.inl hp⟩
    | cons x rest =>
      simp only [splitLoop] at h
      have hx : x.wf ∧ x.bnd := hg x (by simp)
      cases hf : W.findSome? (splitIv x) with
      | none =>
        rw [hf] at h
        have hns : ∀ w ∈ W, splitIv x w = none := by
          intro w hw
          exact (List.findSome?_eq_none_iff.mp hf) w hw
        have hg' : Good ((done ++ [x]) ++ rest) := by simpa using hg
        obtain ⟨h1, h2, h3⟩ := ih (done ++ [x]) rest out hg' h
        refine ⟨fun y => by rw [h1 y]; simp, h2, ?_⟩
        intro p hp
        rcases h3 p hp with h | h
        · rcases List.mem_append.mp h with h | h
          · exact Or.inl h
          · simp at h; subst h; exact Or.inr hns
        · exact Or.inr h
      | some pieces =>
        rw [hf] at h
        obtain ⟨w, hw, hs⟩ := List.exists_of_findSome?_eq_some hf
        obtain ⟨hd, hgp⟩ := splitIv_some_spec hx (hW w hw) hs
        have hg' : Good (done ++ (rest ++ pieces)) := by
          intro p hp
          simp only [List.mem_append] at hp
          rcases hp with hp | hp | hp
          · exact hg p (by simp [hp])
          · exact hg p (by simp [hp])
          · exact hgp p hp
        obtain ⟨h1, h2, h3⟩ := ih done (rest ++ pieces) out hg' h
        refine ⟨fun y => ?_, h2, h3⟩
        rw [h1 y]; simp only [den_append, den_cons, hd y]
        cases den done y <;> cases den rest y <;> cases x.mem y <;> rfl




theorem contained_mem {x w : Iv} (h1 : 0 ≤ edgeCmp x.lo w.lo) (h2 : edgeCmp x.hi w.hi ≤ 0) {y : Int}
    (hy : x.mem y = true) : w.mem y = true := by
  obtain ⟨xl, xh⟩ := x; obtain ⟨wl, wh⟩ := w
  cases xl <;> cases xh <;> cases wl <;> cases wh <;> simp_all [Iv.mem] <;> omega

/-- an element no `with` leaf can split is either inside one of them or disjoint from all -/
theorem unsplit_any_true {W : List Iv} {p : Iv} (hu : ∀ w ∈ W, splitIv p w = none)
    (ha : W.any (overlap p) = true) {y : Int} (hy : p.mem y = true) : den W y = true := by
  obtain ⟨w, hw, ho⟩ := List.any_eq_true.mp ha
  rcases splitIv_none (hu w hw) with h | ⟨h1, h2⟩
  · rw [ho] at h; cases h
  · exact den_eq_true.mpr ⟨w, hw, contained_mem h1 h2 hy⟩

theorem unsplit_any_false {W : List Iv} {p : Iv} (ha : W.any (overlap p) = false) {y : Int}
    (hy : p.mem y = true) : den W y = false := by
  rw [Bool.eq_false_iff]
  intro hd
  obtain ⟨w, hw, hwy⟩ := den_eq_true.mp hd
  have : overlap p w = false := by
    have := List.any_eq_false.mp ha w hw
    simpa using this
  exact overlap_false_disjoint this y ⟨hy, hwy⟩

theorem den_filter_overlap {W out : List Iv} (hu : ∀ p ∈ out, ∀ w ∈ W, splitIv p w = none) (y : Int) :
    den (out.filter fun p => W.any (overlap p)) y = (den out y && den W y) := by
  induction out with
  | nil => simp
  | cons p ps ih =>
    have ih' := ih (fun q hq => hu q (by simp [hq]))
    have hp := hu p (by simp)
    simp only [List.filter_cons]
    cases ha : W.any (overlap p) with
    | true =>
      simp only [if_true, den_cons, ih']
      cases hy : p.mem y with
      | true => simp [unsplit_any_true hp ha hy]
      | false => simp
    | false =>
      simp only [Bool.false_eq_true, if_false, den_cons, ih']
      cases hy : p.mem y with
      | true => simp [unsplit_any_false ha hy]
      | false => simp

theorem Good.filter {l : List Iv} (h : Good l) (f : Iv → Bool) : Good (l.filter f) := by
  intro p hp; exact h p (List.mem_filter.mp hp).1

theorem interCore_spec {range wth r : Range} {strict : Bool}
    (hg : Good range.leaves) (hw : Good wth.leaves)
    (he : range.empty = false) (hwe : wth.empty = false)
    (h : interCore range wth strict = .ok r) :
    (∀ y, den r.els y = (den range.leaves y && den wth.leaves y)) ∧ Good r.els ∧
    r.empty = r.els.isEmpty ∧ r.left = range.left ∧ r.right = range.right ∧ r.incompat = range.incompat ∧
    r.ext = range.ext ∧ r.notPER = range.notPER ∧ r.notOER = range.notOER := by
  unfold interCore at h
  simp only [he, hwe, Bool.or_self, Bool.false_eq_true, if_false] at h
  have hl : ({ range with empty := false } : Range).leaves = range.leaves := rfl
  rw [hl] at h
  split_ifs at h with h3 h4
  split at h
  · cases h
  · rename_i pieces hs
    simp only [Except.ok.injEq] at h
    subst h
    obtain ⟨d1, d2, d3⟩ := splitLoop_spec hw _ [] _ _ (by simpa using hg) hs
    refine ⟨fun y => ?_, Good.filter d2 _, rfl, rfl, rfl, rfl, rfl, rfl, rfl⟩
    show den (pieces.filter fun p => wth.leaves.any (overlap p)) y = _
    rw [den_filter_overlap (fun p hp => (d3 p hp).resolve_left (by simp)) y, d1 y]; simp

theorem intersection_spec {range wth r : Range} {strict isOer : Bool}
    (hg : Good range.leaves) (hw : Good wth.leaves)
    (he : range.empty = false) (hwe : wth.empty = false)
    (h : intersection range wth strict isOer = .ok r) :
    (∀ y, den r.els y = (den range.leaves y && den wth.leaves y)) ∧ Good r.els ∧
    r.empty = r.els.isEmpty ∧ r.left = range.left ∧ r.right = range.right ∧ r.incompat = false ∧
    r.ext = (range.ext || wth.ext) ∧ r.notPER = (range.notPER || (!isOer && wth.notPER)) ∧
    r.notOER = (range.notOER || wth.ext) := by
  unfold intersection at h
  split_ifs at h with h1 h2
  have hinc : range.incompat = false := by simpa using h1
  have hl : (interFlags range wth isOer).leaves = range.leaves := by
    unfold interFlags; split <;> rfl
  have hfe : (interFlags range wth isOer).empty = false := by
    unfold interFlags; split <;> simp [he]
  obtain ⟨a1, a2, a3, a4, a5, a6, a7, a8, a9⟩ := interCore_spec (by rw [hl]; exact hg) hw hfe hwe h
  rw [hl] at a1
  refine ⟨a1, a2, a3, ?_, ?_, ?_, ?_, ?_, ?_⟩
  · rw [a4]; unfold interFlags; split <;> rfl
  · rw [a5]; unfold interFlags; split <;> rfl
  · rw [a6, ← hinc]; unfold interFlags; split <;> rfl
  · rw [a7]; unfold interFlags
    cases isOer with
    | true => simp at h2; simp [h2.1.1.1, h2.1.2]
    | false => simp
  · rw [a8]; unfold interFlags
    cases isOer <;> simp
  · rw [a9]; unfold interFlags
    cases isOer with
    | true => simp at h2; simp [h2.1.1.2, h2.1.2]
    | false => simp




/-! ### `_range_union` : sort + merge scan -/

def loLe (a b : Iv) : Prop := edgeCmp a.lo b.lo ≤ 0

theorem edgeCmp_le_trans {a b c : Edge} (h1 : edgeCmp a b ≤ 0) (h2 : edgeCmp b c ≤ 0) : edgeCmp a c ≤ 0 := by
  cases a <;> cases b <;> cases c <;> simp_all <;> omega

theorem edgeCmp_swap (a b : Edge) : edgeCmp b a = - edgeCmp a b := by
  cases a <;> cases b <;> simp [edgeCmp]
  repeat' split
  all_goals omega

theorem ivLe_loLe {x y : Iv} (h : ivLe x y = true) : loLe x y := by
  unfold loLe
  simp only [ivLe] at h
  split_ifs at h <;> omega

theorem not_ivLe_loLe {x y : Iv} (h : ivLe x y = false) : loLe y x := by
  unfold loLe
  simp only [ivLe] at h
  have := edgeCmp_swap x.lo y.lo
  split_ifs at h <;> omega

theorem mem_insertIv {x p : Iv} {l : List Iv} : p ∈ insertIv x l ↔ p = x ∨ p ∈ l := by
  induction l with
  | nil => simp [insertIv]
  | cons y ys ih =>
    simp only [insertIv]; split
    · simp
    · simp [ih]; tauto

theorem mem_sortIvs {p : Iv} {l : List Iv} : p ∈ sortIvs l ↔ p ∈ l := by
  induction l with
  | nil => simp [sortIvs]
  | cons y ys ih =>
    have : sortIvs (y :: ys) = insertIv y (sortIvs ys) := rfl
    rw [this, mem_insertIv, ih]; simp

theorem pairwise_insertIv {x : Iv} {l : List Iv} (h : l.Pairwise loLe) : (insertIv x l).Pairwise loLe := by
  induction l with
  | nil => simp [insertIv]
  | cons y ys ih =>
    rw [List.pairwise_cons] at h
    simp only [insertIv]; split
    · rename_i hle
      refine List.pairwise_cons.mpr ⟨?_, List.pairwise_cons.mpr h⟩
      intro p hp
      rcases List.mem_cons.mp hp with rfl | hp
      · exact ivLe_loLe hle
      · exact edgeCmp_le_trans (ivLe_loLe hle) (h.1 p hp)
    · rename_i hle
      refine List.pairwise_cons.mpr ⟨?_, ih h.2⟩
      intro p hp
      rcases mem_insertIv.mp hp with rfl | hp
      · exact not_ivLe_loLe (by simpa using hle)
      · exact h.1 p hp

theorem pairwise_sortIvs (l : List Iv) : (sortIvs l).Pairwise loLe := by
  induction l with
  | nil => simp [sortIvs]
  | cons y ys ih => exact pairwise_insertIv ih


/-- strictly separated, non-adjacent: `a.hi + 1 < b.lo` -/
def gapLt (a b : Iv) : Prop :=
  match a.hi, b.lo with
  | .val x, .val y => x + 1 < y
  | _, _ => False

/-- canonical form of a leaf list: sorted, pairwise disjoint and non-adjacent -/
def Canon : List Iv → Prop
  | [] => True
  | [_] => True
  | a :: b :: r => gapLt a b ∧ Canon (b :: r)

def mergeOv (a b : Iv) : Iv :=
  ⟨if edgeCmp a.lo b.lo < 0 then a.lo else b.lo, if edgeCmp a.hi b.hi > 0 then a.hi else b.hi⟩

theorem mergeOv_lo {a b : Iv} (h : loLe a b) : (mergeOv a b).lo = a.lo := by
  unfold mergeOv loLe at *
  simp only
  split_ifs with h1
  · rfl
  · exact (edgeCmp_eq_zero.mp (by omega)).symm

theorem mergeOv_spec {a b : Iv} (ha : a.wf ∧ a.bnd) (hb : b.wf ∧ b.bnd) (ho : overlap a b = true) :
    (∀ y, (mergeOv a b).mem y = (a.mem y || b.mem y)) ∧ (mergeOv a b).wf ∧ (mergeOv a b).bnd := by
  obtain ⟨al, ah⟩ := a; obtain ⟨bl, bh⟩ := b
  obtain ⟨ha1, ha2⟩ := ha; obtain ⟨hb1, hb2⟩ := hb
  simp only [Iv.bnd, ASN_INTEGER_MIN, ASN_INTEGER_MAX] at ha2 hb2 ⊢
  refine ⟨fun y => ?_, ?_, ?_⟩ <;>
  cases al <;> cases ah <;> cases bl <;> cases bh <;>
    simp_all [mergeOv, Iv.mem, Iv.wf, overlap] <;>
    (try split_ifs) <;> (try simp_all) <;> (try rw [Bool.eq_iff_iff]) <;> (try simp) <;> (try omega)

theorem mergeAdj_spec {a b : Iv} (ha : a.wf ∧ a.bnd) (hb : b.wf ∧ b.bnd) (hadj : adjacent a b = true) :
    (∀ y, (⟨a.lo, b.hi⟩ : Iv).mem y = (a.mem y || b.mem y)) ∧ (⟨a.lo, b.hi⟩ : Iv).wf ∧ (⟨a.lo, b.hi⟩ : Iv).bnd := by
  obtain ⟨al, ah⟩ := a; obtain ⟨bl, bh⟩ := b
  obtain ⟨ha1, ha2⟩ := ha; obtain ⟨hb1, hb2⟩ := hb
  simp only [Iv.bnd, ASN_INTEGER_MIN, ASN_INTEGER_MAX] at ha2 hb2 ⊢
  refine ⟨fun y => ?_, ?_, ?_⟩ <;>
  cases al <;> cases ah <;> cases bl <;> cases bh <;>
    simp_all [Iv.mem, Iv.wf, adjacent] <;>
    (try rw [Bool.eq_iff_iff]) <;> (try simp) <;> (try omega)

theorem gap_of_not {a b : Iv} (hl : loLe a b) (ha : a.wf) (hb : b.wf) (ho : overlap a b = false)
    (hadj : adjacent a b = false) : gapLt a b := by
  obtain ⟨al, ah⟩ := a; obtain ⟨bl, bh⟩ := b
  cases al <;> cases ah <;> cases bl <;> cases bh <;>
    simp_all [loLe, gapLt, Iv.wf, overlap, adjacent] <;> omega

theorem mergeAcc_cons (cur b : Iv) (rest : List Iv) :
    mergeAcc cur (b :: rest) =
      if overlap cur b then mergeAcc (mergeOv cur b) rest
      else if adjacent cur b then mergeAcc ⟨cur.lo, b.hi⟩ rest
      else cur :: mergeAcc b rest := rfl

theorem mergeAcc_spec : ∀ (l : List Iv) (cur : Iv), Good (cur :: l) → (cur :: l).Pairwise loLe →
    (∀ y, den (mergeAcc cur l) y = (cur.mem y || den l y)) ∧ Good (mergeAcc cur l) ∧
    ∃ h t, mergeAcc cur l = h :: t ∧ h.lo = cur.lo ∧ Canon (h :: t) := by
  intro l
  induction l with
  | nil =>
    intro cur hg _
    exact ⟨fun y => by simp [mergeAcc], by simpa [mergeAcc] using hg, cur, [], rfl, rfl, trivial⟩
  | cons b rest ih =>
    intro cur hg hp
    have hcur := hg cur (by simp)
    have hb := hg b (by simp)
    have hrest : Good rest := fun p hp => hg p (by simp [hp])
    rw [List.pairwise_cons] at hp
    obtain ⟨hp1, hp2⟩ := hp
    have hcb : loLe cur b := hp1 b (by simp)
    rw [mergeAcc_cons]
    by_cases ho : overlap cur b = true
    · -- overlap: merge
      rw [if_pos ho]
      obtain ⟨m1, m2, m3⟩ := mergeOv_spec hcur hb ho
      have hlo := mergeOv_lo hcb
      have hg' : Good (mergeOv cur b :: rest) := by
        intro p hp; rcases List.mem_cons.mp hp with rfl | hp
        · exact ⟨m2, m3⟩
        · exact hrest p hp
      have hp' : (mergeOv cur b :: rest).Pairwise loLe := by
        refine List.pairwise_cons.mpr ⟨?_, (List.pairwise_cons.mp hp2).2⟩
        intro p hp; unfold loLe; rw [hlo]; exact hp1 p (by simp [hp])
      obtain ⟨d1, d2, h, t, e1, e2, e3⟩ := ih (mergeOv cur b) hg' hp'
      refine ⟨fun y => ?_, d2, h, t, e1, by rw [e2, hlo], e3⟩
      show den (mergeAcc (mergeOv cur b) rest) y = _
      rw [d1 y, m1 y]; simp [Bool.or_assoc]
    by_cases hadj : adjacent cur b = true
    · -- adjacent: join
      rw [if_neg ho, if_pos hadj]
      obtain ⟨m1, m2, m3⟩ := mergeAdj_spec hcur hb hadj
      have hg' : Good (⟨cur.lo, b.hi⟩ :: rest) := by
        intro p hp; rcases List.mem_cons.mp hp with rfl | hp
        · exact ⟨m2, m3⟩
        · exact hrest p hp
      have hp' : ((⟨cur.lo, b.hi⟩ : Iv) :: rest).Pairwise loLe := by
        refine List.pairwise_cons.mpr ⟨?_, (List.pairwise_cons.mp hp2).2⟩
        intro p hp; exact hp1 p (by simp [hp])
      obtain ⟨d1, d2, h, t, e1, e2, e3⟩ := ih ⟨cur.lo, b.hi⟩ hg' hp'
      refine ⟨fun y => ?_, d2, h, t, e1, e2, e3⟩
      rw [d1 y, m1 y]; simp [Bool.or_assoc]
    · -- keep `cur`, go on with `b`
      rw [if_neg ho, if_neg hadj]
      have hg' : Good (b :: rest) := fun p hp => hg p (by simp [List.mem_cons.mp hp])
      obtain ⟨d1, d2, h, t, e1, e2, e3⟩ := ih b hg' hp2
      refine ⟨fun y => ?_, ?_, cur, h :: t, by rw [e1], rfl, ?_⟩
      · simp [d1 y]
      · intro p hp; rcases List.mem_cons.mp hp with rfl | hp
        · exact hcur
        · exact d2 p hp
      · refine ⟨?_, e3⟩
        have hgap := gap_of_not hcb hcur.1 hb.1 (by simpa using ho) (by simpa using hadj)
        unfold gapLt at hgap ⊢; rw [e2]; exact hgap


/-! ### canonical form -/


theorem unionIvs_spec {l : List Iv} (hg : Good l) (hne : l ≠ []) :
    (∀ y, den (unionIvs l) y = den l y) ∧ Good (unionIvs l) ∧ Canon (unionIvs l) ∧ unionIvs l ≠ [] := by
  unfold unionIvs
  have hs := pairwise_sortIvs l
  have hm : ∀ p, p ∈ sortIvs l ↔ p ∈ l := fun p => mem_sortIvs
  have hgs : Good (sortIvs l) := fun p hp => hg p ((hm p).mp hp)
  cases hsl : sortIvs l with
  | nil =>
    exfalso
    cases l with
    | nil => exact hne rfl
    | cons a t =>
      have : a ∈ sortIvs (a :: t) := (hm a).mpr (by simp)
      rw [hsl] at this; cases this
  | cons a t =>
    rw [hsl] at hs hgs
    obtain ⟨d1, d2, h, t', e1, _, e3⟩ := mergeAcc_spec t a hgs hs
    refine ⟨fun y => ?_, d2, ?_, ?_⟩
    · show den (mergeAcc a t) y = _
      rw [d1 y, ← den_cons, ← hsl]; exact den_congr_mem hm y
    · show Canon (mergeAcc a t); rw [e1]; exact e3
    · show mergeAcc a t ≠ []; rw [e1]; simp




theorem Canon.tail {a : Iv} {t : List Iv} (h : Canon (a :: t)) : Canon t := by
  cases t with
  | nil => trivial
  | cons b r => exact h.2

theorem Good.tail {a : Iv} {t : List Iv} (h : Good (a :: t)) : Good t := fun p hp => h p (by simp [hp])

/-- in a canonical list everything after the head lies strictly beyond `head.hi + 1` -/
theorem canon_beyond : ∀ (t : List Iv) (a : Iv), Good (a :: t) → Canon (a :: t) → ∀ y, den t y = true →
    ∃ x, a.hi = .val x ∧ x + 1 < y := by
  intro t
  induction t with
  | nil => intro a _ _ y hy; simp at hy
  | cons b r ih =>
    intro a hg hc y hy
    obtain ⟨hgap, hc'⟩ := hc
    have hb := (hg b (by simp)).1
    simp only [den_cons, Bool.or_eq_true] at hy
    obtain ⟨al, ah⟩ := a; obtain ⟨bl, bh⟩ := b
    rcases hy with hy | hy
    · cases ah <;> cases bl <;> cases bh <;> simp_all [gapLt, Iv.mem] <;> omega
    · obtain ⟨x', hx', hlt⟩ := ih ⟨bl, bh⟩ hg.tail hc' y hy
      cases ah <;> cases bl <;> cases bh <;> simp_all [gapLt, Iv.wf] <;> omega

theorem canon_lower {a : Iv} {t : List Iv} (hg : Good (a :: t)) (hc : Canon (a :: t)) {y : Int}
    (hy : den (a :: t) y = true) : Edge.leInt a.lo y = true := by
  simp only [den_cons, Bool.or_eq_true] at hy
  rcases hy with hy | hy
  · simp only [Iv.mem, Bool.and_eq_true] at hy; exact hy.1
  · obtain ⟨x, hx, hlt⟩ := canon_beyond t a hg hc y hy
    have ha := (hg a (by simp)).1
    obtain ⟨al, ah⟩ := a
    cases al <;> cases ah <;> simp_all [Iv.wf] <;> omega

theorem canon_upper : ∀ (t : List Iv) (a : Iv), Good (a :: t) → Canon (a :: t) → ∀ y, den (a :: t) y = true →
    Edge.geInt ((a :: t).getLast (by simp)).hi y = true := by
  intro t
  induction t with
  | nil =>
    intro a _ _ y hy
    simp only [den_cons, den_nil, Bool.or_false, Iv.mem, Bool.and_eq_true] at hy
    simpa using hy.2
  | cons b r ih =>
    intro a hg hc y hy
    rw [List.getLast_cons (by simp)]
    simp only [den_cons, Bool.or_eq_true] at hy
    rcases hy with hy | hy
    · -- y ∈ a: a.hi < b.lo ≤ … ≤ last.hi
      have hb := hg b (by simp)
      obtain ⟨yb, hyb⟩ := Iv.wf_nonempty hb.1
      have h1 := ih b hg.tail hc.2 yb (by simp [hyb])
      have hgap := hc.1
      generalize ((b :: r).getLast (by simp)).hi = e at h1 ⊢
      obtain ⟨al, ah⟩ := a; obtain ⟨bl, bh⟩ := b
      cases ah <;> cases bl <;> cases e <;> simp_all [gapLt, Iv.mem] <;> omega
    · exact ih b hg.tail hc.2 y (by simpa using hy)

theorem lo_le_of_members {a : Iv} (ha : a.wf) {e : Edge} (h : ∀ y, a.mem y = true → Edge.leInt e y = true) :
    edgeCmp e a.lo ≤ 0 := by
  obtain ⟨al, ah⟩ := a
  obtain ⟨h1, h2, h3⟩ := ha
  match e, al, ah, h1, h2, h3 with
  | .min, .min, _, _, _, _ => simp
  | .min, .val _, _, _, _, _ => simp
  | .max, al, ah, h1, h2, h3 =>
    obtain ⟨y, hy⟩ := Iv.wf_nonempty (i := ⟨al, ah⟩) ⟨h1, h2, h3⟩
    have := h y hy; simp at this
  | .val z, .min, .max, _, _, _ =>
    have := h (z - 1) (by simp [Iv.mem]); simp at this; omega
  | .val z, .min, .val hh, _, _, _ =>
    have := h (min hh (z - 1)) (by simp [Iv.mem]; omega); simp at this; omega
  | .val z, .val l, .max, _, _, _ =>
    have := h l (by simp [Iv.mem]); simpa using this
  | .val z, .val l, .val hh, _, _, h3 =>
    have := h l (by simp [Iv.mem]; simpa using h3); simpa using this
  | _, .max, _, h1, _, _ => exact absurd rfl h1
  | _, .min, .min, _, h2, _ => exact absurd rfl h2
  | _, .val _, .min, _, h2, _ => exact absurd rfl h2

theorem hi_le_of {a b : Iv} (hlo : a.lo = b.lo) (ha : a.wf) (hb : b.wf)
    (h : ∀ y, b.mem y = true → a.mem y = true ∨ ∃ x, a.hi = .val x ∧ x + 1 < y) : edgeCmp b.hi a.hi ≤ 0 := by
  obtain ⟨al, ah⟩ := a; obtain ⟨bl, bh⟩ := b
  simp only at hlo; subst hlo
  obtain ⟨h1, h2, h3⟩ := ha; obtain ⟨g1, g2, g3⟩ := hb
  match ah, bh, h2, g2 with
  | .max, .max, _, _ => simp
  | .max, .val _, _, _ => simp
  | .val x, .max, _, _ =>
    exfalso
    have := h (x + 1) (by cases al <;> simp_all [Iv.mem] <;> omega)
    rcases this with h' | ⟨x', hx', hlt⟩
    · cases al <;> simp_all [Iv.mem] <;> omega
    · simp at hx'; omega
  | .val x, .val k, _, _ =>
    by_cases hk : k ≤ x
    · simpa using hk
    · exfalso
      have := h (x + 1) (by cases al <;> simp_all [Iv.mem] <;> omega)
      rcases this with h' | ⟨x', hx', hlt⟩
      · cases al <;> simp_all [Iv.mem] <;> omega
      · simp at hx'; omega
  | .min, _, h2, _ => exact absurd rfl h2
  | _, .min, _, g2 => exact absurd rfl g2




theorem edgeCmp_antisymm {a b : Edge} (h1 : edgeCmp a b ≤ 0) (h2 : edgeCmp b a ≤ 0) : a = b := by
  have := edgeCmp_swap a b
  exact edgeCmp_eq_zero.mp (by omega)

/-- heads of two canonical lists with the same denotation are equal -/
theorem canon_head_eq {a b : Iv} {t₁ t₂ : List Iv} (g₁ : Good (a :: t₁)) (g₂ : Good (b :: t₂))
    (c₁ : Canon (a :: t₁)) (c₂ : Canon (b :: t₂)) (h : ∀ y, den (a :: t₁) y = den (b :: t₂) y) : a = b := by
  have ha := (g₁ a (by simp)).1
  have hb := (g₂ b (by simp)).1
  have hlo : a.lo = b.lo := by
    apply edgeCmp_antisymm
    · apply lo_le_of_members hb
      intro y hy
      exact canon_lower g₁ c₁ (by rw [h y]; simp [hy])
    · apply lo_le_of_members ha
      intro y hy
      exact canon_lower g₂ c₂ (by rw [← h y]; simp [hy])
  have hhi : a.hi = b.hi := by
    apply edgeCmp_antisymm
    · apply hi_le_of hlo.symm hb ha
      intro y hy
      have : den (b :: t₂) y = true := by rw [← h y]; simp [hy]
      simp only [den_cons, Bool.or_eq_true] at this
      rcases this with h' | h'
      · exact Or.inl h'
      · exact Or.inr (canon_beyond t₂ b g₂ c₂ y h')
    · apply hi_le_of hlo ha hb
      intro y hy
      have : den (a :: t₁) y = true := by rw [h y]; simp [hy]
      simp only [den_cons, Bool.or_eq_true] at this
      rcases this with h' | h'
      · exact Or.inl h'
      · exact Or.inr (canon_beyond t₁ a g₁ c₁ y h')
  obtain ⟨al, ah⟩ := a; obtain ⟨bl, bh⟩ := b
  simp_all

theorem canon_not_both {a : Iv} {t : List Iv} (g : Good (a :: t)) (c : Canon (a :: t)) {y : Int}
    (h1 : a.mem y = true) (h2 : den t y = true) : False := by
  obtain ⟨x, hx, hlt⟩ := canon_beyond t a g c y h2
  obtain ⟨al, ah⟩ := a
  simp only [Iv.mem, Bool.and_eq_true] at h1
  simp only at hx
  subst hx
  simp at h1
  omega

/-- **the canonical form is a normal form**: sorted, disjoint, non-adjacent lists of well-formed
    leaves with the same denotation are equal -/
theorem canon_unique : ∀ (l₁ l₂ : List Iv), Good l₁ → Good l₂ → Canon l₁ → Canon l₂ →
    (∀ y, den l₁ y = den l₂ y) → l₁ = l₂ := by
  intro l₁
  induction l₁ with
  | nil =>
    intro l₂ _ g₂ _ _ h
    cases l₂ with
    | nil => rfl
    | cons b t =>
      obtain ⟨y, hy⟩ := Iv.wf_nonempty (g₂ b (by simp)).1
      have := h y; simp [hy] at this
  | cons a t₁ ih =>
    intro l₂ g₁ g₂ c₁ c₂ h
    cases l₂ with
    | nil =>
      obtain ⟨y, hy⟩ := Iv.wf_nonempty (g₁ a (by simp)).1
      have := h y; simp [hy] at this
    | cons b t₂ =>
      have hab := canon_head_eq g₁ g₂ c₁ c₂ h
      subst hab
      congr 1
      apply ih t₂ g₁.tail g₂.tail c₁.tail c₂.tail
      intro y
      have hy := h y
      simp only [den_cons] at hy
      cases hm : a.mem y with
      | true =>
        have e1 : den t₁ y = false := by
          rw [Bool.eq_false_iff]; intro hd; exact canon_not_both g₁ c₁ hm hd
        have e2 : den t₂ y = false := by
          rw [Bool.eq_false_iff]; intro hd; exact canon_not_both g₂ c₂ hm hd
        rw [e1, e2]
      | false => simpa [hm] using hy




/-! ### `_range_canonicalize` and the representation invariant -/

theorem leaves_of_els_nil {r : Range} (h : r.els = []) : r.leaves = [⟨r.left, r.right⟩] := by
  simp [Range.leaves, h]

theorem leaves_of_els_ne {r : Range} (h : r.els ≠ []) : r.leaves = r.els := by
  unfold Range.leaves
  cases he : r.els with
  | nil => exact absurd he h
  | cons a t => simp

/-- `r` is in canonical form and denotes the non-empty set `S` -/
structure Repr (r : Range) (S : Int → Bool) : Prop where
  good : Good r.leaves
  canon : Canon r.leaves
  den : ∀ y, den r.leaves y = S y
  ends : ∃ h t, r.leaves = h :: t ∧ r.left = h.lo ∧ r.right = ((h :: t).getLast (by simp)).hi
  shape : r.els.length ≠ 1
  empty : r.empty = false
  incompat : r.incompat = false

theorem canonicalize_ne {r : Range} (hne : r.els ≠ []) (hg : Good r.els) :
    (canonicalize r).leaves = unionIvs r.els ∧ (canonicalize r).els.length ≠ 1 ∧
    (∃ h t, unionIvs r.els = h :: t ∧ (canonicalize r).left = h.lo ∧
        (canonicalize r).right = ((h :: t).getLast (by simp)).hi) ∧
    (canonicalize r).empty = r.empty ∧ (canonicalize r).ext = r.ext ∧ (canonicalize r).incompat = r.incompat ∧
    (canonicalize r).notOER = r.notOER ∧ (canonicalize r).notPER = r.notPER := by
  obtain ⟨_, _, _, hune⟩ := unionIvs_spec hg hne
  unfold canonicalize
  have : r.els.isEmpty = false := by cases h : r.els <;> simp_all
  simp only [this, Bool.false_eq_true, if_false]
  cases hu : unionIvs r.els with
  | nil => exact absurd hu hune
  | cons f t =>
    have hl : (f :: t).getLast? = some ((f :: t).getLast (by simp)) := List.getLast?_eq_some_getLast (by simp)
    simp only [hl]
    refine ⟨?_, ?_, ⟨f, t, rfl, ?_, ?_⟩, ?_⟩
    · cases t with
      | nil => simp [Range.leaves]
      | cons b t' => simp [Range.leaves]
    · cases t with
      | nil => simp
      | cons b t' => simp
    · rfl
    · rfl
    · simp

theorem repr_of_canonicalize {r : Range} {S : Int → Bool} (hne : r.els ≠ []) (hg : Good r.els)
    (hd : ∀ y, den r.els y = S y) (he : r.empty = false) (hi : r.incompat = false) :
    Repr (canonicalize r) S := by
  obtain ⟨c1, c2, ⟨h, t, c3, c4, c5⟩, c6, _, c8, _, _⟩ := canonicalize_ne hne hg
  obtain ⟨u1, u2, u3, _⟩ := unionIvs_spec hg hne
  refine ⟨by rw [c1]; exact u2, by rw [c1]; exact u3, fun y => by rw [c1, u1 y, hd y], ?_, c2, by rw [c6, he], by rw [c8, hi]⟩
  exact ⟨h, t, by rw [c1, c3], c4, c5⟩

/-- flags the PER/OER logic looks at are all clear -/
def Range.Clean (r : Range) : Prop := r.ext = false ∧ r.notOER = false ∧ r.notPER = false

/-- `_range_intersection` followed by `_range_canonicalize` on canonical operands with a common element -/
theorem inter_canon {range wth r : Range} {A B : Int → Bool} {strict isOer : Bool}
    (hA : Repr range A) (hB : Repr wth B) (hne : ∃ y, A y = true ∧ B y = true)
    (h : intersection range wth strict isOer = .ok r) :
    Repr (canonicalize r) (fun y => A y && B y) ∧
    (canonicalize r).ext = (range.ext || wth.ext) ∧
    (canonicalize r).notPER = (range.notPER || (!isOer && wth.notPER)) ∧
    (canonicalize r).notOER = (range.notOER || wth.ext) := by
  obtain ⟨i1, i2, i3, _, _, i6, i7, i8, i9⟩ := intersection_spec hA.good hB.good hA.empty hB.empty h
  have hne' : r.els ≠ [] := by
    obtain ⟨y, ha, hb⟩ := hne
    intro he
    have := i1 y
    rw [he, hA.den y, hB.den y, ha, hb] at this
    simp at this
  have hemp : r.empty = false := by rw [i3]; cases h : r.els <;> simp_all
  obtain ⟨_, _, _, _, c7, _, c9, c10⟩ := canonicalize_ne hne' i2
  refine ⟨repr_of_canonicalize hne' i2 (fun y => by rw [i1 y, hA.den y, hB.den y]) hemp i6, ?_, ?_, ?_⟩
  · rw [c7, i7]
  · rw [c10, i8]
  · rw [c9, i9]


/-- `_range_canonicalize` never touches the flags -/
theorem canonicalize_flags (r : Range) :
    (canonicalize r).empty = r.empty ∧ (canonicalize r).ext = r.ext ∧ (canonicalize r).incompat = r.incompat ∧
    (canonicalize r).notOER = r.notOER ∧ (canonicalize r).notPER = r.notPER := by
  unfold canonicalize
  split
  · split <;> simp
  · dsimp only
    split <;> simp

/-- the set is empty and the range says so (`empty_constraint`; its edges and elements mean nothing) -/
def EmptyR (r : Range) (S : Int → Bool) : Prop := (∀ y, S y = false) ∧ r.empty = true ∧ r.incompat = false

/-- `r` represents `S`: canonical form of a non-empty set, or flagged empty -/
def ReprE (r : Range) (S : Int → Bool) : Prop := Repr r S ∨ EmptyR r S

theorem ReprE.incompat {r : Range} {S : Int → Bool} (h : ReprE r S) : r.incompat = false := by
  rcases h with h | h
  · exact h.incompat
  · exact h.2.2

theorem Repr.nonempty {r : Range} {S : Int → Bool} (h : Repr r S) : ∃ y, S y = true := by
  obtain ⟨hd, t, e1, _, _⟩ := h.ends
  obtain ⟨y, hy⟩ := Iv.wf_nonempty (h.good hd (by rw [e1]; simp)).1
  exact ⟨y, by rw [← h.den y, e1]; simp [hy]⟩

theorem ReprE.repr {r : Range} {S : Int → Bool} (h : ReprE r S) (hne : ∃ y, S y = true) : Repr r S := by
  rcases h with h | h
  · exact h
  · obtain ⟨y, hy⟩ := hne; rw [h.1 y] at hy; cases hy

theorem ReprE.empty_iff {r : Range} {S : Int → Bool} (h : ReprE r S) : r.empty = true ↔ ∀ y, S y = false := by
  rcases h with h | h
  · constructor
    · intro he; rw [h.empty] at he; cases he
    · intro hs; obtain ⟨y, hy⟩ := h.nonempty; rw [hs y] at hy; cases hy
  · exact ⟨fun _ => h.1, fun _ => h.2.1⟩

/-- `_range_intersection` with an operand flagged empty: "No use in intersecting empty constraints" -/
theorem intersection_empty {range wth r : Range} {strict isOer : Bool}
    (he : range.empty = true ∨ wth.empty = true)
    (h : intersection range wth strict isOer = .ok r) :
    r.empty = true ∧ r.incompat = false ∧ r.ext = (range.ext || wth.ext) ∧
    r.notPER = (range.notPER || (!isOer && wth.notPER)) ∧ r.notOER = (range.notOER || wth.ext) := by
  unfold intersection at h
  split_ifs at h with h1 h2
  have hinc : range.incompat = false := by simpa using h1
  have hfe : ((interFlags range wth isOer).empty || wth.empty) = true := by
    have : (interFlags range wth isOer).empty = range.empty := by unfold interFlags; split <;> rfl
    rw [this]; rcases he with he | he <;> simp [he]
  unfold interCore at h
  simp only [hfe, if_true, Except.ok.injEq] at h
  subst h
  refine ⟨rfl, ?_, ?_, ?_, ?_⟩
  · show (interFlags range wth isOer).incompat = false
    rw [← hinc]; unfold interFlags; split <;> rfl
  · show (interFlags range wth isOer).ext = _
    unfold interFlags
    cases isOer with
    | true => simp at h2; simp [h2.1.1.1, h2.1.2]
    | false => simp
  · show (interFlags range wth isOer).notPER = _
    unfold interFlags
    cases isOer <;> simp
  · show (interFlags range wth isOer).notOER = _
    unfold interFlags
    cases isOer with
    | true => simp at h2; simp [h2.1.1.2, h2.1.2]
    | false => simp

/-- `_range_intersection` + `_range_canonicalize` on operands that may be (flagged) empty -/
theorem inter_E {range wth r : Range} {A B : Int → Bool} {strict isOer : Bool}
    (hA : ReprE range A) (hB : ReprE wth B)
    (h : intersection range wth strict isOer = .ok r) :
    ReprE (canonicalize r) (fun y => A y && B y) ∧
    (canonicalize r).ext = (range.ext || wth.ext) ∧
    (canonicalize r).notPER = (range.notPER || (!isOer && wth.notPER)) ∧
    (canonicalize r).notOER = (range.notOER || wth.ext) := by
  obtain ⟨f1, f2, f3, f4, f5⟩ := canonicalize_flags r
  have viaEmpty : (range.empty = true ∨ wth.empty = true) → (∀ y, (A y && B y) = false) →
      (ReprE (canonicalize r) (fun y => A y && B y) ∧
      (canonicalize r).ext = (range.ext || wth.ext) ∧
      (canonicalize r).notPER = (range.notPER || (!isOer && wth.notPER)) ∧
      (canonicalize r).notOER = (range.notOER || wth.ext)) := by
    intro he hs
    obtain ⟨e1, e2, e3, e4, e5⟩ := intersection_empty he h
    exact ⟨Or.inr ⟨hs, by rw [f1, e1], by rw [f3, e2]⟩, by rw [f2, e3], by rw [f5, e4], by rw [f4, e5]⟩
  rcases hA with hA | hA
  · rcases hB with hB | hB
    · by_cases hne : ∃ y, A y = true ∧ B y = true
      · obtain ⟨q1, q2, q3, q4⟩ := inter_canon hA hB hne h
        exact ⟨Or.inl q1, q2, q3, q4⟩
      · obtain ⟨i1, i2, i3, _, _, i6, i7, i8, i9⟩ := intersection_spec hA.good hB.good hA.empty hB.empty h
        have hs : ∀ y, (A y && B y) = false := by
          intro y
          cases ha : A y <;> cases hb : B y <;> simp
          exact hne ⟨y, ha, hb⟩
        have hnil : r.els = [] := by
          cases he : r.els with
          | nil => rfl
          | cons p t =>
            exfalso
            obtain ⟨x, hx⟩ := Iv.wf_nonempty (i2 p (by rw [he]; simp)).1
            have := i1 x
            rw [he, hA.den x, hB.den x, hs x] at this
            simp [hx] at this
        refine ⟨Or.inr ⟨hs, ?_, by rw [f3, i6]⟩, by rw [f2, i7], by rw [f5, i8], by rw [f4, i9]⟩
        rw [f1, i3, hnil]; rfl
    · exact viaEmpty (Or.inr hB.2.1) (fun y => by rw [hB.1 y]; simp)
  · exact viaEmpty (Or.inl hA.2.1) (fun y => by rw [hA.1 y]; simp)


end Asn1c.Impl.CRange
