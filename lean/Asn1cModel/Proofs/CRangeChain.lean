import Asn1cModel.Proofs.CRangeCompute
/-
  C09 helper lemmas, third part: the chain of serially applied constraints / type references
  (`expr->combined_constraints` as built by Impl.ConsParse.combined) through the top-level
  ACT_CA_SET loop of `asn1constraint_compute_constraint_range`.
-/
namespace Asn1c.Impl.CRange
open Asn1c.Spec.Constraint Asn1c.Impl.ConsParse

/-! ### the chain of serially applied constraints -/

/-- one serially applied constraint: an element tree, possibly with an extension marker and
    extension additions -/
def IsSpec : Cons → Prop
  | .ext r => IsElem r
  | .exta r a => IsElem r ∧ IsElem a
  | c => IsElem c

/-- the constraints written after one type, each possibly extensible -/
def IsLevelAny : Cons → Prop
  | .serial a b => IsLevelAny a ∧ IsSpec b
  | c => IsSpec c

/-- a chain of type references, every constraint possibly extensible -/
def IsChainAny : Cons → Prop
  | .refine a b => IsChainAny a ∧ IsLevelAny b
  | c => IsLevelAny c

/-- domain of the C09 theorems for INTEGER value constraints: serially applied constraints and type
    reference chains over element trees; extension markers, with or without additions, anywhere -/
def DomV (c : Cons) : Prop := IsChainAny c


/-- the serially applied constraints in order -/
def specs : Cons → List Cons
  | .refine a b => specs a ++ specs b
  | .serial a b => specs a ++ [b]
  | c => [c]

theorem visible_specs : ∀ (c : Cons) (P : ISet), visible P c = (specs c).foldl (fun Q s => visible Q s) P := by
  intro c
  induction c with
  | serial a b iha _ => intro P; simp [specs, visible, List.foldl_append, iha P]
  | refine a b iha ihb => intro P; simp [specs, visible, List.foldl_append, iha P, ihb]
  | single v => intro P; rfl
  | range lo hi => intro P; rfl
  | union a b _ _ => intro P; rfl
  | inter a b _ _ => intro P; rfl
  | except a b _ _ => intro P; rfl
  | paren a _ => intro P; rfl
  | size a _ => intro P; rfl
  | ext r _ => intro P; rfl
  | exta r a _ _ => intro P; rfl


/-- `ManyConstraints` appends the element of a one-element ACT_CA_SET: outer parentheses vanish -/
def spec1 : Cons → CT
  | .paren x => elemCT x
  | s => elemCT s

/-- a constraint as the parser leaves it -/
def lastCT : Cons → CT
  | .ext r => .csv [elemCT r, .ext]
  | .exta r a => .csv [elemCT r, .ext, elemCT a]
  | s => spec1 s

/-- a constraint after `_remove_extensions`: the marker is cut off, the one-element ACT_CA_CSV stays -/
def stripCT : Cons → CT
  | .ext r => .csv [elemCT r]
  | .exta r _ => .csv [elemCT r]
  | s => spec1 s


theorem specEls_elem {s : Cons} (h : IsElem s) : setEls (wrapSet (elemCT s)) = [spec1 s] := by
  cases s <;> simp_all [IsElem, elemCT, wrapSet, setEls, spec1]

theorem specEls_spec {s : Cons} (h : IsSpec s) : setEls (wrapSet (elemCT s)) = [lastCT s] := by
  cases s <;> simp_all [IsSpec, IsElem, elemCT, wrapSet, setEls, spec1, lastCT]

theorem lastCT_elem {s : Cons} (h : IsElem s) : lastCT s = spec1 s := by
  cases s <;> simp_all [IsElem, lastCT]


/-- `_remove_extensions` leaves an element tree alone -/
theorem removeExt_elemCT : ∀ (e : Cons), IsElem e → removeExt (elemCT e) = elemCT e ∧ elemCT e ≠ .ext := by
  intro e
  induction e with
  | single v => intro _; simp [elemCT, removeExt]
  | range lo hi => intro _; simp [elemCT, removeExt]
  | union a b iha ihb =>
    intro h
    obtain ⟨a1, a2⟩ := iha h.1; obtain ⟨b1, b2⟩ := ihb h.2
    refine ⟨?_, by simp [elemCT]⟩
    cases ha : elemCT a <;> cases hb : elemCT b <;> simp_all [elemCT, removeExt, removeExtList]
  | inter a b iha ihb =>
    intro h
    obtain ⟨a1, a2⟩ := iha h.1; obtain ⟨b1, b2⟩ := ihb h.2
    refine ⟨?_, by simp [elemCT]⟩
    cases ha : elemCT a <;> cases hb : elemCT b <;> simp_all [elemCT, removeExt, removeExtList]
  | except a b iha ihb =>
    intro h
    obtain ⟨a1, a2⟩ := iha h.1; obtain ⟨b1, b2⟩ := ihb h.2
    refine ⟨?_, by simp [elemCT]⟩
    cases ha : elemCT a <;> cases hb : elemCT b <;> simp_all [elemCT, removeExt, removeExtList]
  | paren a iha =>
    intro h
    obtain ⟨a1, a2⟩ := iha h
    refine ⟨?_, by simp [elemCT]⟩
    cases ha : elemCT a <;> simp_all [elemCT, removeExt, removeExtList]
  | size a _ => intro h; exact absurd h (by simp [IsElem])
  | ext r _ => intro h; exact absurd h (by simp [IsElem])
  | exta r a _ _ => intro h; exact absurd h (by simp [IsElem])
  | serial a b _ _ => intro h; exact absurd h (by simp [IsElem])
  | refine a b _ _ => intro h; exact absurd h (by simp [IsElem])



theorem removeExt_spec1 {s : Cons} (h : IsElem s) : removeExt (spec1 s) = spec1 s ∧ spec1 s ≠ .ext := by
  cases s with
  | paren x => exact removeExt_elemCT x h
  | single v => exact removeExt_elemCT _ h
  | range lo hi => exact removeExt_elemCT _ h
  | union a b => exact removeExt_elemCT _ h
  | inter a b => exact removeExt_elemCT _ h
  | except a b => exact removeExt_elemCT _ h
  | size a => exact absurd h (by simp [IsElem])
  | ext r => exact absurd h (by simp [IsElem])
  | exta r a => exact absurd h (by simp [IsElem])
  | serial a b => exact absurd h (by simp [IsElem])
  | refine a b => exact absurd h (by simp [IsElem])

theorem removeExtList_cons_ne {c : CT} (h : c ≠ .ext) (rest : List CT) :
    removeExtList (c :: rest) = removeExt c :: removeExtList rest := by
  cases c <;> simp_all [removeExtList]


/-- the three shapes of a serially applied constraint -/
theorem isSpec_cases {s : Cons} (h : IsSpec s) :
    (∃ r, s = .ext r ∧ IsElem r) ∨ (∃ r a, s = .exta r a ∧ IsElem r ∧ IsElem a) ∨ IsElem s := by
  cases s with
  | ext r => exact Or.inl ⟨r, rfl, h⟩
  | exta r a => exact Or.inr (Or.inl ⟨r, a, rfl, h.1, h.2⟩)
  | single v => exact Or.inr (Or.inr h)
  | range lo hi => exact Or.inr (Or.inr h)
  | union a b => exact Or.inr (Or.inr h)
  | inter a b => exact Or.inr (Or.inr h)
  | except a b => exact Or.inr (Or.inr h)
  | paren a => exact Or.inr (Or.inr h)
  | size a => exact absurd h (by simp [IsSpec, IsElem])
  | serial a b => exact absurd h (by simp [IsSpec, IsElem])
  | refine a b => exact absurd h (by simp [IsSpec, IsElem])

theorem lastCT_ne_ext {s : Cons} (h : IsSpec s) : lastCT s ≠ .ext := by
  rcases isSpec_cases h with ⟨r, rfl, _⟩ | ⟨r, a, rfl, _, _⟩ | he
  · simp [lastCT]
  · simp [lastCT]
  · rw [lastCT_elem he]; exact (removeExt_spec1 he).2

theorem removeExtTop_cons_cons {c d : CT} (h : c ≠ .ext) (rest : List CT) :
    removeExtTop (c :: d :: rest) = removeExt c :: removeExtTop (d :: rest) := by
  cases c <;> simp_all [removeExtTop]

theorem removeExtTop_single {c : CT} (h : c ≠ .ext) : removeExtTop [c] = [c] := by
  cases c <;> simp_all [removeExtTop]



theorem isSpec_of_elem {s : Cons} (h : IsElem s) : IsSpec s := by
  cases s <;> simp_all [IsSpec, IsElem]

theorem stripCT_elem {s : Cons} (h : IsElem s) : stripCT s = spec1 s := by
  cases s <;> simp_all [IsElem, stripCT]

/-- `_remove_extensions` on one serially applied constraint -/
theorem removeExt_lastCT {s : Cons} (h : IsSpec s) :
    removeExt (lastCT s) = stripCT s ∧ removeExt (stripCT s) = stripCT s ∧ stripCT s ≠ .ext := by
  rcases isSpec_cases h with ⟨r, rfl, hr⟩ | ⟨r, a, rfl, hr, _⟩ | hs
  · obtain ⟨e1, e2⟩ := removeExt_elemCT r hr
    refine ⟨?_, ?_, by simp [stripCT]⟩
    · show removeExt (.csv [elemCT r, .ext]) = .csv [elemCT r]
      rw [removeExt, removeExtList_cons_ne e2, e1]; rfl
    · show removeExt (.csv [elemCT r]) = .csv [elemCT r]
      rw [removeExt, removeExtList_cons_ne e2, e1]; rfl
  · obtain ⟨e1, e2⟩ := removeExt_elemCT r hr
    refine ⟨?_, ?_, by simp [stripCT]⟩
    · show removeExt (.csv [elemCT r, .ext, elemCT a]) = .csv [elemCT r]
      rw [removeExt, removeExtList_cons_ne e2, e1]; rfl
    · show removeExt (.csv [elemCT r]) = .csv [elemCT r]
      rw [removeExt, removeExtList_cons_ne e2, e1]; rfl
  · obtain ⟨e1, e2⟩ := removeExt_spec1 hs
    rw [lastCT_elem hs, stripCT_elem hs]
    exact ⟨e1, e1, e2⟩

theorem removeExtList_map_last : ∀ (l : List Cons), (∀ s ∈ l, IsSpec s) →
    removeExtList (l.map lastCT) = l.map stripCT ∧ removeExtList (l.map stripCT) = l.map stripCT := by
  intro l
  induction l with
  | nil => intro _; exact ⟨rfl, rfl⟩
  | cons s t ih =>
    intro h
    obtain ⟨e1, e2, e3⟩ := removeExt_lastCT (h s (by simp))
    obtain ⟨i1, i2⟩ := ih (fun x hx => h x (by simp [hx]))
    constructor
    · rw [List.map_cons, removeExtList_cons_ne (lastCT_ne_ext (h s (by simp))), e1, i1]; rfl
    · rw [List.map_cons, removeExtList_cons_ne e3, e2, i2]

theorem removeExtList_append_strip (l : List Cons) (m : List CT) (h : ∀ s ∈ l, IsSpec s) :
    removeExtList (l.map stripCT ++ m) = l.map stripCT ++ removeExtList m := by
  induction l with
  | nil => rfl
  | cons s t ih =>
    obtain ⟨_, e2, e3⟩ := removeExt_lastCT (h s (by simp))
    rw [List.map_cons, List.cons_append, removeExtList_cons_ne e3, e2, ih (fun x hx => h x (by simp [hx]))]; rfl

/-- `_remove_extensions(ct, 1)` on the constraints of a non-referencing type: every marker but the last goes -/
theorem removeExtTop_map_last : ∀ (l : List Cons) (b : Cons), (∀ s ∈ l, IsSpec s) → IsSpec b →
    removeExtTop ((l ++ [b]).map lastCT) = l.map stripCT ++ [lastCT b] := by
  intro l
  induction l with
  | nil => intro b _ hb; exact removeExtTop_single (lastCT_ne_ext hb)
  | cons s t ih =>
    intro b h hb
    obtain ⟨e1, _, _⟩ := removeExt_lastCT (h s (by simp))
    have := ih b (fun x hx => h x (by simp [hx])) hb
    cases ht : (t ++ [b]).map lastCT with
    | nil => simp at ht
    | cons d rest =>
      rw [List.cons_append, List.map_cons, ht, removeExtTop_cons_cons (lastCT_ne_ext (h s (by simp))), e1, ← ht, this]; rfl

theorem isSpec_specs_level : ∀ (c : Cons), IsLevelAny c → ∀ s ∈ specs c, IsSpec s := by
  intro c
  induction c with
  | serial a b iha _ =>
    intro h s hs
    simp only [specs, List.mem_append, List.mem_singleton] at hs
    rcases hs with hs | rfl
    · exact iha h.1 s hs
    · exact h.2
  | refine a b _ _ => intro h; exact absurd h (by simp [IsLevelAny, IsSpec, IsElem])
  | single v => intro h s hs; simp [specs] at hs; subst hs; exact h
  | range lo hi => intro h s hs; simp [specs] at hs; subst hs; exact h
  | union a b _ _ => intro h s hs; simp [specs] at hs; subst hs; exact h
  | inter a b _ _ => intro h s hs; simp [specs] at hs; subst hs; exact h
  | except a b _ _ => intro h s hs; simp [specs] at hs; subst hs; exact h
  | paren a _ => intro h s hs; simp [specs] at hs; subst hs; exact h
  | ext r _ => intro h s hs; simp [specs] at hs; subst hs; exact h
  | size a _ => intro h; exact absurd h (by simp [IsLevelAny, IsSpec, IsElem])
  | exta r a _ _ => intro h s hs; simp [specs] at hs; subst hs; exact h

/-- `ManyConstraints`: every constraint of a level as the parser leaves it -/
theorem levelEls_any : ∀ (c : Cons), IsLevelAny c → levelEls c = (specs c).map lastCT := by
  intro c
  induction c with
  | serial a b iha _ =>
    intro h
    simp only [levelEls, specs, List.map_append, List.map_cons, List.map_nil]
    rw [iha h.1, specEls_spec h.2]; rfl
  | refine a b _ _ => intro h; exact absurd h (by simp [IsLevelAny, IsSpec, IsElem])
  | single v => intro h; exact specEls_spec h
  | range lo hi => intro h; exact specEls_spec h
  | union a b _ _ => intro h; exact specEls_spec h
  | inter a b _ _ => intro h; exact specEls_spec h
  | except a b _ _ => intro h; exact specEls_spec h
  | paren a _ => intro h; exact specEls_spec h
  | ext r _ => intro h; exact specEls_spec h
  | size a _ => intro h; exact absurd h (by simp [IsLevelAny, IsSpec, IsElem])
  | exta r a _ _ => intro h; exact specEls_spec h

theorem specs_ne_nil : ∀ (c : Cons), specs c ≠ [] := by
  intro c
  induction c with
  | refine a b iha _ => simp [specs, iha]
  | serial a b _ _ => simp [specs]
  | single v => simp [specs]
  | range lo hi => simp [specs]
  | union a b _ _ => simp [specs]
  | inter a b _ _ => simp [specs]
  | except a b _ _ => simp [specs]
  | paren a _ => simp [specs]
  | size a _ => simp [specs]
  | ext r _ => simp [specs]
  | exta r a _ _ => simp [specs]

/-- a non-empty list ends in some element -/
theorem exists_init_last {α : Type} : ∀ (l : List α), l ≠ [] → ∃ init b, l = init ++ [b] := by
  intro l h
  exact ⟨l.dropLast, l.getLast h, (List.dropLast_concat_getLast h).symm⟩

/-- `_remove_extensions(ct, 1)` on the constraints written after one type: only the last one keeps its marker -/
theorem removeExtTop_level (c : Cons) (h : IsLevelAny c) :
    ∃ init b, specs c = init ++ [b] ∧ (∀ s ∈ init, IsSpec s) ∧ IsSpec b ∧
      removeExtTop (levelEls c) = init.map stripCT ++ [lastCT b] := by
  obtain ⟨init, b, e⟩ := exists_init_last (specs c) (specs_ne_nil c)
  have hall := isSpec_specs_level c h
  rw [e] at hall
  have hi : ∀ s ∈ init, IsSpec s := fun s hs => hall s (by simp [hs])
  have hb : IsSpec b := hall b (by simp)
  refine ⟨init, b, e, hi, hb, ?_⟩
  rw [levelEls_any c h, e, removeExtTop_map_last init b hi hb]

/-- the elements of `combined_constraints` of a level written after a built-in type -/
theorem combinedEls_level (c : Cons) (h : IsLevelAny c) (hnr : ∀ a b, c ≠ .refine a b) :
    ∃ init b, specs c = init ++ [b] ∧ (∀ s ∈ init, IsSpec s) ∧ IsSpec b ∧
      combinedEls c = init.map stripCT ++ [lastCT b] := by
  have hce : combinedEls c = removeExtTop (levelEls c) := by
    cases c <;> first | rfl | exact absurd rfl (hnr _ _)
  rw [hce]; exact removeExtTop_level c h

/-- a parent chain: after `_remove_extensions(ct_parent, 0)` no marker is left -/
theorem combinedEls_parent : ∀ (a : Cons), IsChainAny a →
    removeExtList (combinedEls a) = (specs a).map stripCT ∧ ∀ s ∈ specs a, IsSpec s := by
  intro a
  induction a with
  | refine a b iha _ =>
    intro h
    obtain ⟨e1, e2⟩ := iha h.1
    have e3 := isSpec_specs_level b h.2
    refine ⟨?_, ?_⟩
    · obtain ⟨init, l, f1, f2, f3, f4⟩ := removeExtTop_level b h.2
      simp only [combinedEls, specs, List.map_append]
      rw [e1, f4, f1, removeExtList_append_strip _ _ e2, removeExtList_append_strip _ _ f2, List.map_append]
      congr 2
      show removeExtList [lastCT l] = [stripCT l]
      rw [removeExtList_cons_ne (lastCT_ne_ext f3), (removeExt_lastCT f3).1]; rfl
    · intro s hs
      simp only [specs, List.mem_append] at hs
      rcases hs with hs | hs
      · exact e2 s hs
      · exact e3 s hs
  | serial a b _ _ =>
    intro h
    have hl : IsLevelAny (.serial a b) := h
    obtain ⟨init, l, e1, e2, e3, e4⟩ := combinedEls_level _ hl (by intro _ _ h; cases h)
    refine ⟨?_, isSpec_specs_level _ hl⟩
    rw [e4, e1, removeExtList_append_strip _ _ e2, List.map_append]
    congr 1
    show removeExtList [lastCT l] = [stripCT l]
    rw [removeExtList_cons_ne (lastCT_ne_ext e3), (removeExt_lastCT e3).1]; rfl
  | single v => exact fun h => parent_single _ h (by intro _ _ h; cases h)
  | range lo hi => exact fun h => parent_single _ h (by intro _ _ h; cases h)
  | union a b _ _ => exact fun h => parent_single _ h (by intro _ _ h; cases h)
  | inter a b _ _ => exact fun h => parent_single _ h (by intro _ _ h; cases h)
  | except a b _ _ => exact fun h => parent_single _ h (by intro _ _ h; cases h)
  | paren a _ => exact fun h => parent_single _ h (by intro _ _ h; cases h)
  | ext r _ => exact fun h => parent_single _ h (by intro _ _ h; cases h)
  | size a _ => intro h; exact absurd h (by simp [IsChainAny, IsLevelAny, IsSpec, IsElem])
  | exta r a _ _ => exact fun h => parent_single _ h (by intro _ _ h; cases h)
where
  parent_single (c : Cons) (h : IsChainAny c) (hnr : ∀ a b, c ≠ .refine a b) :
      removeExtList (combinedEls c) = (specs c).map stripCT ∧ ∀ s ∈ specs c, IsSpec s := by
    have hl : IsLevelAny c := by
      cases c <;> first | exact h | exact absurd rfl (hnr _ _)
    obtain ⟨init, l, e1, e2, e3, e4⟩ := combinedEls_level _ hl hnr
    refine ⟨?_, isSpec_specs_level _ hl⟩
    rw [e4, e1, removeExtList_append_strip _ _ e2, List.map_append]
    congr 1
    show removeExtList [lastCT l] = [stripCT l]
    rw [removeExtList_cons_ne (lastCT_ne_ext e3), (removeExt_lastCT e3).1]; rfl


theorem litsOK_specs : ∀ (c : Cons), LitsOK c → ∀ s ∈ specs c, LitsOK s := by
  intro c
  induction c with
  | serial a b iha _ =>
    intro h s hs
    simp only [specs, List.mem_append, List.mem_singleton] at hs
    rcases hs with hs | rfl
    · exact iha h.1 s hs
    · exact h.2
  | refine a b iha ihb =>
    intro h s hs
    simp only [specs, List.mem_append] at hs
    rcases hs with hs | hs
    · exact iha h.1 s hs
    · exact ihb h.2 s hs
  | single v => intro h s hs; simp [specs] at hs; subst hs; exact h
  | range lo hi => intro h s hs; simp [specs] at hs; subst hs; exact h
  | union a b _ _ => intro h s hs; simp [specs] at hs; subst hs; exact h
  | inter a b _ _ => intro h s hs; simp [specs] at hs; subst hs; exact h
  | except a b _ _ => intro h s hs; simp [specs] at hs; subst hs; exact h
  | paren a _ => intro h s hs; simp [specs] at hs; subst hs; exact h
  | size a _ => intro h s hs; simp [specs] at hs; subst hs; exact h
  | ext r _ => intro h s hs; simp [specs] at hs; subst hs; exact h
  | exta r a _ _ => intro h s hs; simp [specs] at hs; subst hs; exact h




theorem written_specs : ∀ (c : Cons), Written c → ∀ s ∈ specs c, Written s := by
  intro c
  induction c with
  | serial a b iha _ =>
    intro h s hs
    simp only [specs, List.mem_append, List.mem_singleton] at hs
    rcases hs with hs | rfl
    · exact iha h.1 s hs
    · exact h.2
  | refine a b iha ihb =>
    intro h s hs
    simp only [specs, List.mem_append] at hs
    rcases hs with hs | hs
    · exact iha h.1 s hs
    · exact ihb h.2 s hs
  | single v => intro h s hs; simp [specs] at hs; subst hs; exact h
  | range lo hi => intro h s hs; simp [specs] at hs; subst hs; exact h
  | union a b _ _ => intro h s hs; simp [specs] at hs; subst hs; exact h
  | inter a b _ _ => intro h s hs; simp [specs] at hs; subst hs; exact h
  | except a b _ _ => intro h s hs; simp [specs] at hs; subst hs; exact h
  | paren a _ => intro h s hs; simp [specs] at hs; subst hs; exact h
  | size a _ => intro h s hs; simp [specs] at hs; subst hs; exact h
  | ext r _ => intro h s hs; simp [specs] at hs; subst hs; exact h
  | exta r a _ _ => intro h s hs; simp [specs] at hs; subst hs; exact h

theorem compute_spec1 {p : Params} (hc : p.compat = true) (hn : p.nkm = false) {s : Cons} (hs : IsElem s)
    {mm0 : Option Range} {P : ISet} (hM : MM p mm0 P) (hw : Written s) (hl : LitsOK s) :
    ∃ res, compute p (spec1 s) mm0 true = (res, true) ∧
      (Hard res ∨ ∃ r, res = .ok r ∧ ReprE r (visible P s) ∧ r.Clean) := by
  cases s with
  | paren x => exact compute_elem hc hn x hs mm0 P hM hw hl
  | single v => exact compute_elem hc hn _ hs mm0 P hM hw hl
  | range lo hi => exact compute_elem hc hn _ hs mm0 P hM hw hl
  | union a b => exact compute_elem hc hn _ hs mm0 P hM hw hl
  | inter a b => exact compute_elem hc hn _ hs mm0 P hM hw hl
  | except a b => exact compute_elem hc hn _ hs mm0 P hM hw hl
  | size a => exact absurd hs (by simp [IsElem])
  | ext r => exact absurd hs (by simp [IsElem])
  | exta r a => exact absurd hs (by simp [IsElem])
  | serial a b => exact absurd hs (by simp [IsElem])
  | refine a b => exact absurd hs (by simp [IsElem])


theorem compute_ext_true {p : Params} (hc : p.compat = true) (hn : p.nkm = false) {mm0 : Option Range}
    (hcl : (rangeOf (mmEff p mm0)).Clean) : compute p .ext mm0 true = (.erange, true) := by
  rw [compute_eq_body hc hn _ _ _ hcl]; rfl

/-- the first operand of an ACT_CA_CSV computed against the parent `range`: the state of the second loop
    after it merged the operand into itself -/
theorem csv_first {p : Params} (hc : p.compat = true) (hn : p.nkm = false) {r : Cons} (hs : IsElem r)
    {range : Range} {P : ISet} (hr : Repr range P) (hcl : range.Clean) (hw : Written r) (hl : LitsOK r)
    (rest : List CT) :
    (∃ res, Hard res ∧ compute p (.csv (elemCT r :: rest)) (some range) true = (res, true)) ∨
    ∃ R, Acc R (visible P r) ∧ R.Clean ∧
      compute p (.csv (elemCT r :: rest)) (some range) true = orRest p true rest R (some range) true := by
  have hM : MM p (some range) P := MM.of_some hr hcl
  have e : mmEff p (some range) = some range := by unfold mmEff; cases p.req <;> rfl
  rw [compute_eq_body hc hn _ _ _ hM.clean]
  show (∃ res, Hard res ∧ orFirst p true (elemCT r :: rest) (rangeOf (mmEff p (some range))) (mmEff p (some range)) true = (res, true)) ∨
    ∃ R, Acc R (visible P r) ∧ R.Clean ∧
      orFirst p true (elemCT r :: rest) (rangeOf (mmEff p (some range))) (mmEff p (some range)) true =
        orRest p true rest R (some range) true
  rw [e]
  have e2 : rangeOf (some range) = range := rfl
  rw [e2]
  obtain ⟨ra, hra, ha⟩ := compute_elem hc hn r hs (some range) P hM hw hl
  rcases ha with ha | ⟨ta, rfl, hta, cta⟩
  · exact Or.inl ⟨ra, ha, orFirst_cons_hard hra ha⟩
  · rw [orFirst_cons_ok hra hra hta.incompat]
    obtain ⟨R1, s1, a1, c1⟩ := acc_start hta hr.empty true
    rw [s1]
    exact Or.inr ⟨R1, a1, c1 cta hcl, rfl⟩

/-- **`(root, ...)`** computed against the parent `range` -/
theorem compute_csv_ext {p : Params} (hc : p.compat = true) (hn : p.nkm = false) {r : Cons} (hs : IsElem r)
    {range : Range} {P : ISet} (hr : Repr range P) (hcl : range.Clean) (hw : Written r) (hl : LitsOK r) :
    ∃ res, compute p (.csv [elemCT r, .ext]) (some range) true = (res, true) ∧
      (Hard res ∨ ∃ t, res = .ok t ∧ ReprE t (visible P r) ∧ t.ext = true ∧ t.notOER = true ∧ t.notPER = false) := by
  have e : mmEff p (some range) = some range := by unfold mmEff; cases p.req <;> rfl
  rcases csv_first hc hn hs hr hcl hw hl [.ext] with ⟨res, hh, hres⟩ | ⟨R, aR, cR, hres⟩
  · exact ⟨res, hres, Or.inl hh⟩
  · rw [hres, orRest_cons_marker (compute_ext_true hc hn (by rw [e]; exact hcl))]
    have hfin : orFinish p { R with ext := true, notOER := true } (some range) true =
        (.ok (canonicalize { R with ext := true, notOER := true }), true) := orFinish_acc cR.2.2
    have hrest : orRest p true [] { R with ext := true, notOER := true } (some range) true =
        (.ok (canonicalize { R with ext := true, notOER := true }), true) := by rw [orRest_nil, hfin]
    obtain ⟨_, f2, _, f4, f5⟩ := canonicalize_flags { R with ext := true, notOER := true }
    refine ⟨.ok (canonicalize { R with ext := true, notOER := true }), by split <;> assumption, Or.inr ⟨_, rfl, ?_, ?_, ?_, ?_⟩⟩
    · exact acc_finish (Acc.flags aR _ _ _)
    · rw [f2]
    · rw [f4]
    · rw [f5]; exact cR.2.2

/-- **`(root, ..., additions)`** computed against the parent `range`: with CPR_PER_root_only (or strict
    PER visibility) the loop stops at the marker and the result is that of `(root, ...)`; otherwise the
    additions are merged in (the "practical" range of the generated validity checker) and all we need
    to know is that the result is marked extensible, hence not OER-visible. -/
theorem compute_csv_exta {p : Params} (hc : p.compat = true) (hn : p.nkm = false) {r a : Cons}
    (hs : IsElem r) (hsa : IsElem a)
    {range : Range} {P : ISet} (hr : Repr range P) (hcl : range.Clean) (hw : Written r) (hl : LitsOK r)
    (hwa : Written a) (hla : LitsOK a) :
    ∃ res, compute p (.csv [elemCT r, .ext, elemCT a]) (some range) true = (res, true) ∧
      (Hard res ∨ ∃ t, res = .ok t ∧ t.incompat = false ∧ t.ext = true ∧ t.notOER = true ∧ t.notPER = false ∧
        ((p.rootOnly = true ∨ p.strictPER = true) → ReprE t (visible P r))) := by
  have e : mmEff p (some range) = some range := by unfold mmEff; cases p.req <;> rfl
  have hM : MM p (some range) P := MM.of_some hr hcl
  rcases csv_first hc hn hs hr hcl hw hl [.ext, elemCT a] with ⟨res, hh, hres⟩ | ⟨R, aR, cR, hres⟩
  · exact ⟨res, hres, Or.inl hh⟩
  · rw [hres, orRest_cons_marker (compute_ext_true hc hn (by rw [e]; exact hcl))]
    by_cases hcut : (true && (p.rootOnly || p.strictPER)) = true
    · rw [if_pos hcut, orFinish_acc (R := { R with ext := true, notOER := true }) cR.2.2]
      obtain ⟨_, f2, _, f4, f5⟩ := canonicalize_flags { R with ext := true, notOER := true }
      have hre := acc_finish (Acc.flags aR true true R.notPER)
      exact ⟨_, rfl, Or.inr ⟨_, rfl, hre.incompat, by rw [f2], by rw [f4], by rw [f5]; exact cR.2.2, fun _ => hre⟩⟩
    · rw [if_neg hcut]
      have hnc : ¬ (p.rootOnly = true ∨ p.strictPER = true) := by
        intro h; apply hcut; rcases h with h | h <;> simp [h]
      obtain ⟨rb, hrb, hb⟩ := compute_elem hc hn a hsa (some range) P hM hwa hla
      rcases hb with hb | ⟨tb, rfl, htb, ctb⟩
      · rw [orRest_cons_hard hrb hb]; exact ⟨rb, rfl, Or.inl hb⟩
      · rw [orRest_cons_ok hrb]
        obtain ⟨R2, s2, a2, _, k2, k3⟩ := acc_step (Acc.flags aR true true R.notPER) htb true
        rw [s2]
        simp only
        obtain ⟨k21, k22⟩ := k2 rfl rfl
        have knp : R2.notPER = false := by rw [k3 ctb.2.2]; exact cR.2.2
        rw [orRest_nil, orFinish_acc knp]
        obtain ⟨_, f2, _, f4, f5⟩ := canonicalize_flags R2
        exact ⟨_, rfl, Or.inr ⟨_, rfl, (acc_finish a2).incompat, by rw [f2, k21], by rw [f4, k22], by rw [f5, knp],
          fun h => absurd h hnc⟩⟩




/-- serial application of a list of constraints to the parent set -/
def visL (P : ISet) (l : List Cons) : ISet := l.foldl (fun Q s => visible Q s) P

theorem visL_append (P : ISet) (l m : List Cons) : visL P (l ++ m) = visL (visL P l) m := by
  simp [visL, List.foldl_append]

theorem visible_eq_visL (c : Cons) (P : ISet) : visible P c = visL P (specs c) := visible_specs c P

theorem extensible_elem : ∀ (e : Cons), IsElem e → extensible e = false := by
  intro e
  induction e with
  | single v => intro _; rfl
  | range lo hi => intro _; rfl
  | union a b iha ihb => intro h; simp [extensible, iha h.1, ihb h.2]
  | inter a b iha ihb => intro h; simp [extensible, iha h.1, ihb h.2]
  | except a b iha _ => intro h; simp [extensible, iha h.1]
  | paren a iha => intro h; simp [extensible, iha h]
  | size a _ => intro h; exact absurd h (by simp [IsElem])
  | ext r _ => intro h; exact absurd h (by simp [IsElem])
  | exta r a _ _ => intro h; exact absurd h (by simp [IsElem])
  | serial a b _ _ => intro h; exact absurd h (by simp [IsElem])
  | refine a b _ _ => intro h; exact absurd h (by simp [IsElem])



/-- **the combined constraints of a type of the domain**: every serially applied constraint but the
    last one without its marker, the last one as written -/
theorem combinedEls_dom : ∀ (c : Cons), DomV c →
    ∃ init b, specs c = init ++ [b] ∧ (∀ s ∈ init, IsSpec s) ∧ IsSpec b ∧
      combinedEls c = init.map stripCT ++ [lastCT b] := by
  intro c h
  have level : ∀ c : Cons, IsLevelAny c → (∀ a b, c ≠ .refine a b) → _ := combinedEls_level
  cases c with
  | refine a b0 =>
    have h' : IsChainAny a ∧ IsLevelAny b0 := h
    obtain ⟨e1, e2⟩ := combinedEls_parent a h'.1
    obtain ⟨init, b, f1, f2, f3, f4⟩ := removeExtTop_level b0 h'.2
    refine ⟨specs a ++ init, b, by simp [specs, f1], ?_, f3, ?_⟩
    · intro s hs
      rcases List.mem_append.mp hs with hs | hs
      · exact e2 s hs
      · exact f2 s hs
    · simp only [combinedEls]
      rw [e1, f4, List.map_append]
      simp
  | serial a s => exact level _ h (by intro _ _ h; cases h)
  | single v => exact level _ h (by intro _ _ h; cases h)
  | range lo hi => exact level _ h (by intro _ _ h; cases h)
  | union a b => exact level _ h (by intro _ _ h; cases h)
  | inter a b => exact level _ h (by intro _ _ h; cases h)
  | except a b => exact level _ h (by intro _ _ h; cases h)
  | paren a => exact level _ h (by intro _ _ h; cases h)
  | ext r => exact level _ h (by intro _ _ h; cases h)
  | exta r a => exact level _ h (by intro _ _ h; cases h)
  | size a => exact absurd h (by simp [DomV, IsChainAny, IsLevelAny, IsSpec, IsElem])

/-- one serially applied constraint after the pull-up removed its marker (and its additions) -/
theorem compute_strip {p : Params} (hc : p.compat = true) (hn : p.nkm = false) {s : Cons} (hs : IsSpec s)
    {range : Range} {P : ISet} (hr : Repr range P) (hcl : range.Clean) (hw : Written s) (hl : LitsOK s) :
    ∃ res, compute p (stripCT s) (some range) true = (res, true) ∧
      (Hard res ∨ ∃ r, res = .ok r ∧ ReprE r (visible P s) ∧ r.Clean) := by
  have one : ∀ r0 : Cons, IsElem r0 → Written r0 → LitsOK r0 →
      ∃ res, compute p (.csv [elemCT r0]) (some range) true = (res, true) ∧
        (Hard res ∨ ∃ r, res = .ok r ∧ ReprE r (visible P r0) ∧ r.Clean) := by
    intro r0 he hw0 hl0
    rcases csv_first hc hn he hr hcl hw0 hl0 [] with ⟨res, hh, hres⟩ | ⟨R, aR, cR, hres⟩
    · exact ⟨res, hres, Or.inl hh⟩
    · rw [hres, orRest_nil, orFinish_acc cR.2.2]
      exact ⟨_, rfl, Or.inr ⟨_, rfl, acc_finish aR, clean_canonicalize cR⟩⟩
  rcases isSpec_cases hs with ⟨r0, rfl, he⟩ | ⟨r0, a, rfl, he, _⟩ | he
  · exact one r0 he hw hl
  · exact one r0 he hw.1 hl.1
  · rw [stripCT_elem he]
    exact compute_spec1 hc hn he (MM.of_some hr hcl) hw hl

/-- one serially applied constraint of the prefix: `(range)(s)` -/
theorem set_step {p : Params} (hc : p.compat = true) (hn : p.nkm = false) {s : Cons} (hs : IsSpec s)
    {range : Range} {P : ISet} (hr : Repr range P) (hcl : range.Clean) (hw : Written s) (hl : LitsOK s)
    (hne : ∃ y, visible P s y = true) (rest : List CT) (mm : Option Range) :
    (∃ res, Hard res ∧ andLoop p true (stripCT s :: rest) range mm true = (res, true)) ∨
    ∃ range', Repr range' (visible P s) ∧ range'.Clean ∧
      andLoop p true (stripCT s :: rest) range mm true = andLoop p true rest range' mm true := by
  obtain ⟨res, h1, h2⟩ := compute_strip hc hn hs hr hcl hw hl
  rcases h2 with h2 | ⟨ta, rfl, hta, cta⟩
  · exact Or.inl ⟨res, h2, andLoop_set_hard h1 h2⟩
  · rw [andLoop_set_ok h1 hta.incompat cta]
    cases hi1 : intersection range ta true p.strictOER with
    | error e => exact Or.inl ⟨_, hard_ofIErr e, rfl⟩
    | ok r1 =>
      obtain ⟨q1, q2, q3, q4⟩ := inter_E (Or.inl hr) hta hi1
      obtain ⟨y0, hy0⟩ := hne
      have q1' := q1.repr ⟨y0, by simp [visible_sub s P y0 hy0, hy0]⟩
      refine Or.inr ⟨canonicalize r1, q1'.congr (fun y => ?_), ⟨?_, ?_, ?_⟩, rfl⟩
      · cases h1 : visible P s y with
        | true => simp [visible_sub s P y h1]
        | false => simp
      · rw [q2, hcl.1, cta.1]; rfl
      · rw [q4, hcl.2.1, cta.1]; rfl
      · rw [q3, hcl.2.2, cta.2.2]; simp

theorem visL_cons (P : ISet) (s : Cons) (t : List Cons) : visL P (s :: t) = visL (visible P s) t := rfl

theorem visL_sub : ∀ (l : List Cons) (Q : ISet) (y : Int), visL Q l y = true → Q y = true := by
  intro l
  induction l with
  | nil => intro Q y h; exact h
  | cons s t ih => intro Q y h; rw [visL_cons] at h; exact visible_sub s Q y (ih _ y h)

/-- a prefix of constraints applied serially -/
theorem set_prefix {p : Params} (hc : p.compat = true) (hn : p.nkm = false) :
    ∀ (l : List Cons), (∀ s ∈ l, IsSpec s) → (∀ s ∈ l, Written s) → (∀ s ∈ l, LitsOK s) →
    ∀ (range : Range) (P : ISet), Repr range P → range.Clean → (∃ y, visL P l y = true) →
    ∀ (rest : List CT) (mm : Option Range),
    (∃ res, Hard res ∧ andLoop p true (l.map stripCT ++ rest) range mm true = (res, true)) ∨
    ∃ range', Repr range' (visL P l) ∧ range'.Clean ∧
      andLoop p true (l.map stripCT ++ rest) range mm true = andLoop p true rest range' mm true := by
  intro l
  induction l with
  | nil => intro _ _ _ range P hr hcl _ rest mm; exact Or.inr ⟨range, hr, hcl, rfl⟩
  | cons s t ih =>
    intro he hw hl range P hr hcl hne rest mm
    rw [List.map_cons, List.cons_append]
    obtain ⟨y0, hy0⟩ := hne
    rw [visL_cons] at hy0
    rcases set_step hc hn (he s (by simp)) hr hcl (hw s (by simp)) (hl s (by simp)) ⟨y0, visL_sub t _ y0 hy0⟩
      (t.map stripCT ++ rest) mm with h | ⟨r', h1, h2, h3⟩
    · exact Or.inl h
    · rw [h3]
      exact ih (fun x hx => he x (by simp [hx])) (fun x hx => hw x (by simp [hx])) (fun x hx => hl x (by simp [hx]))
        r' _ h1 h2 ⟨y0, hy0⟩ rest mm



theorem oerVisible_spec {a : Cons} (h : IsSpec a) (P : ISet) :
    oerVisible P a = if extensible a then P else visible P a := by
  cases a with
  | serial a b => exact absurd h (by simp [IsSpec, IsElem])
  | refine a b => exact absurd h (by simp [IsSpec, IsElem])
  | single v => rfl
  | range lo hi => rfl
  | union a b => rfl
  | inter a b => rfl
  | except a b => rfl
  | paren a => rfl
  | size a => rfl
  | ext r => rfl
  | exta r a => rfl

/-- Spec on one level: all but the last constraint are visible, the last one unless extensible -/
theorem level_split : ∀ (b0 : Cons), IsLevelAny b0 → ∀ (init : List Cons) (b : Cons), specs b0 = init ++ [b] →
    extensible b0 = extensible b ∧
      ∀ Q, oerVisible Q b0 = (if extensible b then visL Q init else visible (visL Q init) b) := by
  intro b0 h init b e
  have single : ∀ c : Cons, IsSpec c → specs c = [c] → specs c = init ++ [b] →
      extensible c = extensible b ∧
      ∀ Q, oerVisible Q c = (if extensible b then visL Q init else visible (visL Q init) b) := by
    intro c hc hs he
    rw [hs] at he
    have hi : init = [] := by
      cases init with
      | nil => rfl
      | cons x t => simp at he
    subst hi
    simp at he; subst he
    exact ⟨rfl, fun Q => by rw [oerVisible_spec hc]; rfl⟩
  cases b0 with
  | serial a s =>
    have e' : specs a ++ [s] = init ++ [b] := e
    obtain ⟨e1, e2⟩ := List.append_inj' e' rfl
    simp at e2; subst e1; subst e2
    exact ⟨rfl, fun Q => by simp only [oerVisible, visible_eq_visL a]⟩
  | refine a b => exact absurd h (by simp [IsLevelAny, IsSpec, IsElem])
  | size a => exact absurd h (by simp [IsLevelAny, IsSpec, IsElem])
  | exta r a => exact single _ h rfl e
  | single v => exact single _ h rfl e
  | range lo hi => exact single _ h rfl e
  | union a b => exact single _ h rfl e
  | inter a b => exact single _ h rfl e
  | except a b => exact single _ h rfl e
  | paren a => exact single _ h rfl e
  | ext r => exact single _ h rfl e

/-- Spec on a constraint of the domain, in terms of its serial members -/
theorem dom_split : ∀ (c : Cons), DomV c → ∀ (init : List Cons) (b : Cons), specs c = init ++ [b] →
    extensible c = extensible b ∧
      ∀ P, oerVisible P c = (if extensible b then visL P init else visible (visL P init) b) := by
  intro c h init b e
  cases c with
  | refine a b0 =>
    have h' : IsChainAny a ∧ IsLevelAny b0 := h
    obtain ⟨initb, lb, f1⟩ := exists_init_last (specs b0) (specs_ne_nil b0)
    have e' : (specs a ++ initb) ++ [lb] = init ++ [b] := by rw [← e]; simp [specs, f1]
    obtain ⟨e1, e2⟩ := List.append_inj' e' rfl
    simp at e2; subst e1; subst e2
    obtain ⟨g1, g2⟩ := level_split b0 h'.2 initb lb f1
    refine ⟨by simp [extensible, g1], fun P => ?_⟩
    simp only [oerVisible, g2, visL_append, visible_eq_visL a]
  | serial a s => exact level_split _ h init b e
  | single v => exact level_split _ h init b e
  | range lo hi => exact level_split _ h init b e
  | union x y => exact level_split _ h init b e
  | inter x y => exact level_split _ h init b e
  | except x y => exact level_split _ h init b e
  | paren a => exact level_split _ h init b e
  | ext r => exact level_split _ h init b e
  | exta r a => exact level_split _ h init b e
  | size a => exact absurd h (by simp [DomV, IsChainAny, IsLevelAny, IsSpec, IsElem])

/-- no serially applied constraint has extension additions -/
def NoAdds (c : Cons) : Prop := ∀ s ∈ specs c, ∀ r a, s ≠ .exta r a

/-- the request does not look at extension additions: CPR_PER_root_only (PER tables) or strict PER
    visibility (the printed PER-visible line) stop at the marker, strict OER visibility ignores an
    extensible constraint altogether.  (Without any of them the additions are merged in: the
    "practical" range of the generated validity checker.) -/
def AddsInvisible (p : Params) : Prop := p.strictOER = true ∨ p.rootOnly = true ∨ p.strictPER = true

/-- the last constraint of the chain carries the marker: `t` is what the function returned for it -/
theorem last_ext_step {p : Params} {ct : CT} {range' t : Range} {Q S : ISet} {mm : Option Range}
    (hrt : compute p ct (some range') true = (.ok t, true))
    (hr' : Repr range' Q) (hcl' : range'.Clean)
    (hi : t.incompat = false) (hext : t.ext = true) (hno : t.notOER = true) (hnp : t.notPER = false)
    (hS : p.strictOER = false → ReprE t S) (hsub : ∀ y, S y = true → Q y = true) (hne : ∃ y, S y = true) :
    ∃ res, andLoop p true [ct] range' mm true = (res, true) ∧
      (Hard res ∨ ∃ r, res = .ok r ∧
        (if p.strictOER = true then r = range'
         else Repr r S ∧ r.ext = true ∧ r.notPER = false)) := by
  rw [andLoop]
  have hrt' : compute p ct (if true = true then some range' else mm) true = (.ok t, true) := by
    simpa using hrt
  rw [hrt']
  simp only [hi, hno, hnp, Bool.false_eq_true, if_false, Bool.true_and, Bool.false_and]
  by_cases hso : p.strictOER = true
  · -- X.696 8.2.4: not OER-visible, skipped
    simp only [hso, if_true]
    rw [andLoop_nil]
    exact ⟨_, rfl, Or.inr ⟨_, rfl, rfl⟩⟩
  · have hso' : p.strictOER = false := by simpa using hso
    simp only [hso', Bool.false_eq_true, if_false]
    cases hi1 : intersection range' t true false with
    | error e => exact ⟨_, rfl, Or.inl (hard_ofIErr e)⟩
    | ok r1 =>
      simp only
      rw [andLoop_nil]
      obtain ⟨q1, q2, q3, _⟩ := inter_E (Or.inl hr') (hS hso') hi1
      obtain ⟨y0, hy0⟩ := hne
      have q1' := q1.repr ⟨y0, by simp [hsub y0 hy0, hy0]⟩
      refine ⟨_, rfl, Or.inr ⟨_, rfl, q1'.congr (fun y => ?_), ?_, ?_⟩⟩
      · cases h1 : S y with
        | true => simp [hsub y h1]
        | false => simp
      · rw [q2, hext]; simp
      · rw [q3, hcl'.2.2, hnp]; rfl

/-- what the top-level ACT_CA_SET loop returns on the combined constraints of a type of the
    domain, starting from the clone `range0` of the parent (`P0` = all integers, or the naturals for SIZE) -/
theorem chain_top {p : Params} (hc : p.compat = true) (hn : p.nkm = false) {c : Cons} (hd : DomV c)
    {range0 : Range} {P0 : ISet} (hr0 : Repr range0 P0) (hcl0 : range0.Clean)
    (hw : Written c) (hl : LitsOK c) (hne : ∃ y, visible P0 c y = true) (hadd : AddsInvisible p ∨ NoAdds c)
    (mm : Option Range) :
    ∃ res, andLoop p true (combinedEls c) range0 mm true = (res, true) ∧
      (Hard res ∨ ∃ r, res = .ok r ∧
        (if p.strictOER = true then Repr r (oerVisible P0 c) ∧ r.Clean
         else Repr r (visible P0 c) ∧ r.ext = extensible c ∧ r.notPER = false)) := by
  obtain ⟨init, b, e1, e2, e3, e0⟩ := combinedEls_dom c hd
  obtain ⟨e4, e5⟩ := dom_split c hd init b e1
  have hll := litsOK_specs c hl
  have hww := written_specs c hw
  rw [e1] at hll hww
  have hlb : LitsOK b := hll b (by simp)
  have hwb : Written b := hww b (by simp)
  have hvis : visible P0 c = visible (visL P0 init) b := by
    rw [visible_eq_visL c, e1, visL_append]; rfl
  obtain ⟨y0, hy0⟩ := hne
  rw [hvis] at hy0
  have hne' : ∃ y, visL P0 init y = true := ⟨y0, visible_sub b _ y0 hy0⟩
  rw [e0]
  rcases set_prefix hc hn init e2 (fun s hs => hww s (by simp [hs])) (fun s hs => hll s (by simp [hs]))
      range0 P0 hr0 hcl0 hne' [lastCT b] mm with
    ⟨res, hh, hres⟩ | ⟨range', hr', hcl', hres⟩
  · exact ⟨res, hres, Or.inl hh⟩
  · rw [hres]
    -- the common end of the two marker cases
    have marker : ∀ (ct : CT) (t : Range) (r0 : Cons), lastCT b = ct → extensible b = true →
        visible (visL P0 init) b = visible (visL P0 init) r0 →
        compute p ct (some range') true = (.ok t, true) →
        t.incompat = false → t.ext = true → t.notOER = true → t.notPER = false →
        (p.strictOER = false → ReprE t (visible (visL P0 init) r0)) →
        ∃ res, andLoop p true [lastCT b] range' mm true = (res, true) ∧
          (Hard res ∨ ∃ r, res = .ok r ∧
            (if p.strictOER = true then Repr r (oerVisible P0 c) ∧ r.Clean
             else Repr r (visible P0 c) ∧ r.ext = extensible c ∧ r.notPER = false)) := by
      intro ct t r0 hct hextb hvb hrt k1 k2 k3 k4 k5
      rw [hct]
      obtain ⟨res, h1, h2⟩ := last_ext_step (mm := mm) hrt hr' hcl' k1 k2 k3 k4 k5
        (fun y hy => visible_sub r0 _ y hy) ⟨y0, by rw [← hvb]; exact hy0⟩
      refine ⟨res, h1, ?_⟩
      rcases h2 with h2 | ⟨r, rfl, h3⟩
      · exact Or.inl h2
      · refine Or.inr ⟨r, rfl, ?_⟩
        by_cases hso : p.strictOER = true
        · simp only [hso, if_true] at h3 ⊢
          subst h3
          refine ⟨?_, hcl'⟩
          rw [e5 P0, hextb]; simpa using hr'
        · simp only [hso] at h3 ⊢
          exact ⟨by rw [hvis, hvb]; exact h3.1, by rw [e4, hextb]; exact h3.2.1, h3.2.2⟩
    rcases isSpec_cases e3 with ⟨r0, rfl, hs⟩ | ⟨r0, a, rfl, hs, hsa⟩ | hs
    · -- the last constraint is `(r0, ...)`
      obtain ⟨rt, hrt, ht⟩ := compute_csv_ext hc hn hs hr' hcl' hwb hlb
      rcases ht with ht | ⟨t, rfl, ht1, ht2, ht3, ht4⟩
      · exact ⟨rt, andLoop_set_hard hrt ht, Or.inl ht⟩
      · exact marker _ t r0 rfl rfl rfl hrt ht1.incompat ht2 ht3 ht4 (fun _ => ht1)
    · -- the last constraint is `(r0, ..., a)`
      obtain ⟨rt, hrt, ht⟩ := compute_csv_exta hc hn hs hsa hr' hcl' hwb.1 hlb.1 hwb.2 hlb.2
      rcases ht with ht | ⟨t, rfl, ht1, ht2, ht3, ht4, ht5⟩
      · exact ⟨rt, andLoop_set_hard hrt ht, Or.inl ht⟩
      · refine marker _ t r0 rfl rfl rfl hrt ht1 ht2 ht3 ht4 (fun hso => ?_)
        rcases hadd with (h | h | h) | h
        · rw [hso] at h; cases h
        · exact ht5 (Or.inl h)
        · exact ht5 (Or.inr h)
        · exact absurd rfl (h (.exta r0 a) (by rw [e1]; simp) r0 a)
    · -- the last constraint is not extensible
      have hlast : lastCT b = stripCT b := by rw [lastCT_elem hs, stripCT_elem hs]
      rw [hlast]
      have hext : extensible c = false := by rw [e4]; exact extensible_elem b hs
      rcases set_step hc hn e3 hr' hcl' hwb hlb ⟨y0, hy0⟩ [] mm with ⟨res, hh, hres2⟩ | ⟨r2, h1, h2, h3⟩
      · exact ⟨res, hres2, Or.inl hh⟩
      · rw [h3, andLoop_nil]
        refine ⟨_, rfl, Or.inr ⟨_, rfl, ?_⟩⟩
        by_cases hso : p.strictOER = true
        · simp only [hso, if_true]
          refine ⟨?_, h2⟩
          rw [e5 P0, extensible_elem b hs]; simpa using h1
        · simp only [hso]
          exact ⟨by rw [hvis]; exact h1, by rw [hext, h2.1], h2.2.2⟩


/-! ### small facts used by the property theorems -/

theorem repr_new : Repr Range.new ISet.univ ∧ Range.new.Clean := by
  refine ⟨(repr_single (r := Range.new) rfl (by decide) ?_ rfl rfl).congr (fun y => rfl), rfl, rfl, rfl⟩
  constructor <;> intro v hv <;> cases hv

theorem repr_sizeDefault : Repr sizeDefault ISet.nat ∧ sizeDefault.Clean := by
  refine ⟨(repr_single (r := sizeDefault) rfl (by decide) ?_ rfl rfl).congr (fun y => ?_), rfl, rfl, rfl⟩
  · constructor
    · intro v hv; cases hv; simp [ASN_INTEGER_MIN, ASN_INTEGER_MAX]
    · intro v hv; cases hv
  · simp [Iv.mem, sizeDefault, ISet.nat]

theorem repr_nonempty {r : Range} {S : Int → Bool} (h : Repr r S) : ∃ y, S y = true := h.nonempty

theorem domV_of_spec {a : Cons} (h : IsSpec a) : DomV a ∧ specs a = [a] := by
  cases a <;> simp_all [IsSpec, IsElem, DomV, IsChainAny, IsLevelAny, specs]

theorem combinedEls_spec {a : Cons} (h : IsSpec a) : combinedEls a = [lastCT a] := by
  obtain ⟨hd, hsp⟩ := domV_of_spec h
  obtain ⟨init, b, e1, _, _, e4⟩ := combinedEls_dom a hd
  rw [hsp] at e1
  have hi : init = [] := by
    cases init with
    | nil => rfl
    | cons x t => simp at e1
  subst hi
  simp at e1; subst e1
  simpa using e4

theorem wrapSet_spec {a : Cons} (h : IsSpec a) : wrapSet (elemCT a) = .set [lastCT a] := by
  have := specEls_spec h
  cases he : elemCT a <;> simp_all [wrapSet, setEls]

theorem oerVisible_size (a : Cons) (P : ISet) :
    oerVisible P (.size a) = if extensible a then P else visible P a := rfl

/-- the bound an edge stands for: a number, or none for MIN/MAX -/
def Edge.bound : Edge → Option Int
  | .val z => some z
  | _ => none

/-- `left` of a canonical range is the lower bound of the denoted set (X.691 10.3: "lb") -/
theorem Repr.lowerBound {r : Range} {S : Int → Bool} (h : Repr r S) : LowerBound S r.left.bound ∧ r.left ≠ .max := by
  obtain ⟨hd, t, e1, e2, _⟩ := h.ends
  have hwf := (h.good hd (by rw [e1]; simp)).1
  have hmem : ∀ y, hd.mem y = true → S y = true := fun y hy => by rw [← h.den y, e1]; simp [hy]
  rw [e2]
  obtain ⟨lo, hi⟩ := hd
  obtain ⟨w1, w2, w3⟩ := hwf
  have hlow : ∀ y, S y = true → Edge.leInt lo y = true := fun y hy => by
    have := h.lower hy; rw [e2] at this; exact this
  cases lo with
  | max => exact absurd rfl w1
  | val l =>
    refine ⟨⟨hmem l ?_, fun x hx => ?_⟩, by simp⟩
    · cases hi <;> simp_all [Iv.mem]
    · have := hlow x hx; simpa using this
  | min =>
    refine ⟨fun b => ?_, by simp⟩
    cases hi with
    | min => exact absurd rfl w2
    | max => exact ⟨b - 1, hmem _ (by simp [Iv.mem]), by omega⟩
    | val u => exact ⟨min u (b - 1), hmem _ (by simp [Iv.mem] <;> omega), by omega⟩

/-- `right` of a canonical range is the upper bound of the denoted set ("ub") -/
theorem Repr.upperBound {r : Range} {S : Int → Bool} (h : Repr r S) : UpperBound S r.right.bound ∧ r.right ≠ .min := by
  obtain ⟨hd, t, e1, _, e3⟩ := h.ends
  have hlast_mem : (hd :: t).getLast (by simp) ∈ r.leaves := by rw [e1]; exact List.getLast_mem _
  have hwf := (h.good _ hlast_mem).1
  have hmem : ∀ y, ((hd :: t).getLast (by simp)).mem y = true → S y = true := fun y hy => by
    rw [← h.den y]; exact den_eq_true.mpr ⟨_, hlast_mem, hy⟩
  rw [e3]
  generalize (hd :: t).getLast (by simp) = lst at hwf hmem e3
  obtain ⟨lo, hi⟩ := lst
  obtain ⟨w1, w2, w3⟩ := hwf
  have hup : ∀ y, S y = true → Edge.geInt hi y = true := fun y hy => by
    have := h.upper hy; rw [e3] at this; exact this
  cases hi with
  | min => exact absurd rfl w2
  | val u =>
    refine ⟨⟨hmem u ?_, fun x hx => ?_⟩, by simp⟩
    · cases lo <;> simp_all [Iv.mem]
    · have := hup x hx; simpa using this
  | max =>
    refine ⟨fun b => ?_, by simp⟩
    cases lo with
    | max => exact absurd rfl w1
    | min => exact ⟨b + 1, hmem _ (by simp [Iv.mem]), by omega⟩
    | val l => exact ⟨max l (b + 1), hmem _ (by simp [Iv.mem] <;> omega), by omega⟩

theorem lowerBound_unique {S : Int → Bool} {a b : Option Int} (ha : LowerBound S a) (hb : LowerBound S b) : a = b := by
  cases a with
  | none =>
    cases b with
    | none => rfl
    | some l => obtain ⟨x, hx, hlt⟩ := ha l; have := hb.2 x hx; omega
  | some l =>
    cases b with
    | none => obtain ⟨x, hx, hlt⟩ := hb l; have := ha.2 x hx; omega
    | some l' => have := ha.2 l' hb.1; have := hb.2 l ha.1; congr 1; omega

theorem upperBound_unique {S : Int → Bool} {a b : Option Int} (ha : UpperBound S a) (hb : UpperBound S b) : a = b := by
  cases a with
  | none =>
    cases b with
    | none => rfl
    | some l => obtain ⟨x, hx, hlt⟩ := ha l; have := hb.2 x hx; omega
  | some l =>
    cases b with
    | none => obtain ⟨x, hx, hlt⟩ := hb l; have := ha.2 x hx; omega
    | some l' => have := ha.2 l' hb.1; have := hb.2 l ha.1; congr 1; omega

/-- two canonical ranges of the same set have the same leaves, `left` and `right` -/
theorem Repr.unique {r₁ r₂ : Range} {S₁ S₂ : Int → Bool} (h₁ : Repr r₁ S₁) (h₂ : Repr r₂ S₂) (e : ∀ y, S₁ y = S₂ y) :
    r₁.leaves = r₂.leaves ∧ r₁.left = r₂.left ∧ r₁.right = r₂.right := by
  have hl : r₁.leaves = r₂.leaves :=
    canon_unique _ _ h₁.good h₂.good h₁.canon h₂.canon (fun y => by rw [h₁.den y, h₂.den y, e y])
  obtain ⟨a, t, e1, e2, e3⟩ := h₁.ends
  obtain ⟨b, u, f1, f2, f3⟩ := h₂.ends
  rw [e1, f1] at hl
  cases hl
  exact ⟨by rw [e1, f1], by rw [e2, f2], by rw [e3, f3]⟩



end Asn1c.Impl.CRange
