import Asn1cModel.Impl.BerTlv
import Asn1cModel.Spec.Ber
import Mathlib.Tactic.NormNum
import Mathlib.Tactic.Positivity
/- L1 lemmas about tags and lengths (used by C01/C02/C03/C04). -/
namespace Asn1c.Proofs.BerTlv
open Asn1c Asn1c.Impl.BerTlv

macro "ifomega" : tactic => `(tactic| repeat (first | rw [if_pos (by omega)] | rw [if_neg (by omega)]))

/-- `ber_fetch_tag` inverts `ber_tlv_tag_serialize`, whatever follows -/
theorem fetchTag_serialize (t : Tag) (rest : Bytes) (hc : t.cls < 4) (hn : t.num < 2 ^ 30) :
    fetchTag (tagSerialize t ++ rest) = .ok t (tagSerialize t).length := by
  obtain ⟨cls, num⟩ := t
  simp only at hc hn
  unfold tagSerialize
  dsimp only
  split
  · rename_i h
    simp only [List.cons_append, List.nil_append, fetchTag, List.length_cons, List.length_nil]
    have h1 : (cls * 64 + num) % 32 ≠ 31 := by omega
    rw [if_pos h1]
    have e1 : (cls * 64 + num) / 64 = cls := by omega
    have e2 : (cls * 64 + num) % 32 = num := by omega
    rw [e1, e2]
  · rename_i h
    simp only [List.cons_append, fetchTag]
    have h1 : ¬ (cls * 64 + 31) % 32 ≠ 31 := by omega
    rw [if_neg h1]
    have hcls : (cls * 64 + 31) / 64 = cls := by omega
    rw [hcls]
    unfold tagGroups
    norm_num at hn ⊢
    split
    · simp [tagGroupOctets, fetchTagLoop]; ifomega; congr 2; omega
    · split
      · simp [tagGroupOctets, fetchTagLoop]; ifomega; congr 2; omega
      · split
        · simp [tagGroupOctets, fetchTagLoop]; ifomega; congr 2; omega
        · split
          · simp [tagGroupOctets, fetchTagLoop]; ifomega; congr 2; omega
          · simp [tagGroupOctets, fetchTagLoop]; ifomega; congr 2; omega

/-- `ber_fetch_length` inverts `der_tlv_length_serialize` for every sane length -/
theorem fetchLength_serialize (n : Nat) (c : Bool) (rest : Bytes) (hn : n ≤ 2 ^ 62 - 1) :
    fetchLength c (lenSerialize n ++ rest) = .ok n (lenSerialize n).length := by
  unfold lenSerialize
  split
  · rename_i h
    simp only [List.cons_append, List.nil_append, fetchLength, List.length_cons, List.length_nil]
    rw [if_pos (by omega)]
  · rename_i h
    unfold lenOctets
    norm_num at hn ⊢
    split
    · simp [toBEn, fetchLength, fetchLenLoop]; ifomega; simp; omega
    · split
      · simp [toBEn, fetchLength, fetchLenLoop]; ifomega; simp; omega
      · split
        · simp [toBEn, fetchLength, fetchLenLoop]; ifomega; simp; omega
        · split
          · simp [toBEn, fetchLength, fetchLenLoop]; ifomega; simp; omega
          · split
            · simp [toBEn, fetchLength, fetchLenLoop]; ifomega; simp; omega
            · split
              · simp [toBEn, fetchLength, fetchLenLoop]; ifomega; simp; omega
              · split
                · simp [toBEn, fetchLength, fetchLenLoop]; ifomega; simp; omega
                · simp [toBEn, fetchLength, fetchLenLoop]; ifomega; simp; omega

open Asn1c.Spec

theorem toBEn_snoc (k n : Nat) : toBEn (k + 1) n = toBEn k (n / 256) ++ [n % 256] := by
  induction k generalizing n with
  | zero => simp [toBEn]
  | succ k ih =>
    rw [toBEn, ih n]
    conv => rhs; rw [toBEn]
    simp [Nat.div_div_eq_div_mul, Nat.pow_succ, Nat.mul_comm]

theorem toBE_eq_toBEn (k n : Nat) (hlo : 256 ^ k ≤ n) (hhi : n < 256 ^ (k + 1)) : toBE n = toBEn (k + 1) n := by
  induction k generalizing n with
  | zero =>
    rw [toBE]; simp at hlo hhi
    rw [dif_neg (by omega)]
    rw [toBE, dif_pos (by omega)]
    simp [toBEn]
  | succ k ih =>
    rw [toBE, dif_neg (by have : 0 < 256 ^ (k+1) := by positivity
                          omega)]
    rw [toBEn_snoc]
    congr 1
    apply ih
    · rw [Nat.pow_succ] at hlo; omega
    · rw [Nat.pow_succ] at hhi; omega

theorem toBEn_length (k n : Nat) : (toBEn k n).length = k := by
  induction k with
  | zero => rfl
  | succ k ih => simp [toBEn, ih]

theorem lenOctets_spec (n : Nat) (h64 : n < 2 ^ 64) (h1 : 1 ≤ n) :
    ∃ k, 256 ^ k ≤ n ∧ n < 256 ^ (k + 1) ∧ lenOctets n = k + 1 := by
  unfold lenOctets
  by_cases c1 : n < 256
  · exact ⟨0, by omega, by omega, by ifomega⟩
  by_cases c2 : n < 65536
  · exact ⟨1, by omega, by omega, by ifomega⟩
  by_cases c3 : n < 16777216
  · exact ⟨2, by omega, by omega, by ifomega⟩
  by_cases c4 : n < 4294967296
  · exact ⟨3, by omega, by omega, by ifomega⟩
  by_cases c5 : n < 1099511627776
  · exact ⟨4, by omega, by omega, by ifomega⟩
  by_cases c6 : n < 281474976710656
  · exact ⟨5, by omega, by omega, by ifomega⟩
  by_cases c7 : n < 72057594037927936
  · exact ⟨6, by omega, by omega, by ifomega⟩
  · exact ⟨7, by omega, by omega, by ifomega⟩

theorem lenSerialize_eq_derLen (n : Nat) (h : n < 2 ^ 64) : lenSerialize n = derLen n := by
  unfold lenSerialize derLen
  split
  · rfl
  · rename_i hn
    obtain ⟨k, h1, h2, h3⟩ := lenOctets_spec n h (by omega)
    rw [toBE_eq_toBEn k n h1 h2, h3, toBEn_length]

theorem b128digits_lt (n : Nat) (h : n < 128) : b128digits n = [n] := by
  rw [b128digits, dif_pos h]
theorem b128digits_ge (n : Nat) (h : ¬ n < 128) : b128digits n = b128digits (n / 128) ++ [n % 128] := by
  rw [b128digits, dif_neg h]

theorem tagGroupOctets_eq_spec (n : Nat) (h : n < 2 ^ 30) :
    tagGroupOctets (tagGroups n) n = contBits (b128digits n) := by
  unfold tagGroups
  by_cases c1 : n < 128
  · ifomega; rw [b128digits_lt _ c1]; simp [tagGroupOctets, contBits]; omega
  by_cases c2 : n < 16384
  · ifomega
    rw [b128digits_ge _ c1, b128digits_lt _ (by omega)]
    simp [tagGroupOctets, contBits]; omega
  by_cases c3 : n < 2097152
  · ifomega
    rw [b128digits_ge _ c1, b128digits_ge _ (by omega), b128digits_lt _ (by omega)]
    simp [tagGroupOctets, contBits]; omega
  by_cases c4 : n < 268435456
  · ifomega
    rw [b128digits_ge _ c1, b128digits_ge _ (by omega), b128digits_ge _ (by omega), b128digits_lt _ (by omega)]
    simp [tagGroupOctets, contBits]; omega
  · ifomega
    rw [b128digits_ge _ c1, b128digits_ge _ (by omega), b128digits_ge _ (by omega), b128digits_ge _ (by omega), b128digits_lt _ (by omega)]
    simp [tagGroupOctets, contBits]; omega

theorem tagSerialize_eq_spec (t : Tag) (h : t.num < 2 ^ 30) :
    tagSerialize t = identOctets t.cls false t.num := by
  unfold tagSerialize identOctets
  simp only [Bool.false_eq_true, if_false, Nat.add_zero]
  split
  · rfl
  · rw [tagGroupOctets_eq_spec _ h]

end Asn1c.Proofs.BerTlv
