import Asn1cModel.Impl.StackGuard
/-! Helper lemmas for Props/C15 (stack recursion, allocation ledger). -/
namespace Asn1c.Proofs.StackGuard
open Asn1c Asn1c.Impl.StackGuard

/-! ### recursion -/

theorem limitReached_iff (max used : Nat) : limitReached max used = true ↔ max ≠ 0 ∧ used > max := by
  simp [limitReached]

/-- a guarded recursion starts at most `(max - used)/δ + 1` invocations -/
theorem nestL_started_le (max phys δ : Nat) (hmax : max ≠ 0) :
    ∀ (frames : List Nat) (used : Nat), (∀ f ∈ frames, δ ≤ f) → used ≤ max →
      (nestL true max phys used frames).2 * δ ≤ max - used + δ := by
  intro frames
  induction frames with
  | nil => intro used _ _; simp [nestL]
  | cons f rest ih =>
    intro used hf hu
    have hfδ : δ ≤ f := hf f (by simp)
    unfold nestL
    by_cases h1 : used + f > phys
    · simp [h1]
    · by_cases h2 : limitReached max (used + f) = true
      · simp [h1, h2]
      · have h2' : ¬ (used + f > max) := by
          intro h; exact h2 ((limitReached_iff _ _).2 ⟨hmax, h⟩)
        have := ih (used + f) (fun g hg => hf g (by simp [hg])) (by omega)
        simp [h1, h2]
        rw [Nat.add_mul]
        omega

theorem nestL_fails (max phys δ Δ : Nat) (hmax : max ≠ 0) (hphys : max + Δ ≤ phys) :
    ∀ (frames : List Nat) (used : Nat), (∀ f ∈ frames, δ ≤ f ∧ f ≤ Δ) → used ≤ max →
      frames.length * δ + used > max → (nestL true max phys used frames).1 = .fail := by
  intro frames
  induction frames with
  | nil => intro used _ hu h; simp at h; omega
  | cons f rest ih =>
    intro used hf hu hlen
    have hfb := hf f (by simp)
    unfold nestL
    have h1 : ¬ (used + f > phys) := by omega
    by_cases h2 : limitReached max (used + f) = true
    · simp [h1, h2]
    · have h2' : ¬ (used + f > max) := by
        intro h; exact h2 ((limitReached_iff _ _).2 ⟨hmax, h⟩)
      simp [h1, h2]
      apply ih (used + f) (fun g hg => hf g (by simp [hg])) (by omega)
      simp [List.length_cons, Nat.add_mul] at hlen
      omega

theorem nestL_never_overflows (max phys Δ : Nat) (hmax : max ≠ 0) (hphys : max + Δ ≤ phys) :
    ∀ (frames : List Nat) (used : Nat), (∀ f ∈ frames, f ≤ Δ) → used ≤ max →
      (nestL true max phys used frames).1 ≠ .overflow := by
  intro frames
  induction frames with
  | nil => intro used _ _; simp [nestL]
  | cons f rest ih =>
    intro used hf hu
    have hfb := hf f (by simp)
    unfold nestL
    have h1 : ¬ (used + f > phys) := by omega
    by_cases h2 : limitReached max (used + f) = true
    · simp [h1, h2]
    · have h2' : ¬ (used + f > max) := by
        intro h; exact h2 ((limitReached_iff _ _).2 ⟨hmax, h⟩)
      simp [h1, h2]
      exact ih (used + f) (fun g hg => hf g (by simp [hg])) (by omega)

/-- without a check (or with the limit switched off) the recursion goes as deep as the input says -/
theorem nestL_unchecked_overflows (g : Bool) (max phys δ : Nat) (hg : g = false ∨ max = 0) :
    ∀ (frames : List Nat) (used : Nat), (∀ f ∈ frames, δ ≤ f) → used ≤ phys →
      frames.length * δ + used > phys → (nestL g max phys used frames).1 = .overflow := by
  intro frames
  induction frames with
  | nil => intro used _ hu h; simp at h; omega
  | cons f rest ih =>
    intro used hf hu hlen
    have hfδ : δ ≤ f := hf f (by simp)
    have hno : (g && limitReached max (used + f)) = false := by
      rcases hg with h | h
      · simp [h]
      · simp [h, limitReached]
    unfold nestL
    by_cases h1 : used + f > phys
    · simp [h1]
    · simp [h1, hno]
      apply ih (used + f) (fun g hg => hf g (by simp [hg])) (by omega)
      simp [List.length_cons, Nat.add_mul] at hlen
      omega

/-! ### allocation ledger: SET OF loops -/

/-- ledger invariant of the SET OF loops: structure + `cnt` elements + pointer array of capacity `cap` -/
structure Inv (c : SetOfCfg) (s : LoopState) : Prop where
  live : s.h.live = c.ssz + s.cnt * c.esz + 8 * s.cap
  cap : s.cap ≤ 2 * s.cnt + 4
  peak : s.h.peak ≤ c.ssz + s.cnt * c.esz + 16 * s.cnt + 32 + c.esz

theorem inv_init (c : SetOfCfg) : Inv c { h := ({} : Heap).alloc c.ssz } := by
  constructor <;> simp [Heap.alloc] <;> omega

/-- one element allocated and added to the set -/
theorem inv_add (c : SetOfCfg) (s : LoopState) (hi : Inv c s) :
    Inv c ⟨(setAdd (s.h.alloc c.esz) s.cnt s.cap).1, (setAdd (s.h.alloc c.esz) s.cnt s.cap).2.1,
           (setAdd (s.h.alloc c.esz) s.cnt s.cap).2.2⟩ ∧
    (setAdd (s.h.alloc c.esz) s.cnt s.cap).2.1 = s.cnt + 1 := by
  rcases s with ⟨⟨live, peak, allocs⟩, cnt, cap⟩
  obtain ⟨h1, h2, h3⟩ := hi
  simp only at h1 h2 h3
  unfold setAdd
  simp only [Heap.alloc, Heap.realloc]
  by_cases hc : cnt = cap
  · by_cases h0 : cap = 0
    · subst hc; subst h0
      simp only [if_true]
      refine ⟨⟨?_, ?_, ?_⟩, ?_⟩ <;> simp only [Nat.add_mul, Nat.one_mul, Nat.zero_mul] <;> omega
    · subst hc
      simp only [if_true, if_neg h0]
      refine ⟨⟨?_, ?_, ?_⟩, ?_⟩ <;> simp only [Nat.add_mul, Nat.one_mul] <;> omega
  · simp only [if_neg hc]
    refine ⟨⟨?_, ?_, ?_⟩, ?_⟩ <;> simp only [Nat.add_mul, Nat.one_mul] <;> omega

theorem inv_starved (c : SetOfCfg) (s : LoopState) (hi : Inv c s) :
    Inv c { s with h := (s.h.alloc c.esz).free c.esz } := by
  rcases s with ⟨⟨live, peak, allocs⟩, cnt, cap⟩
  obtain ⟨h1, h2, h3⟩ := hi
  simp only at h1 h2 h3
  refine ⟨?_, ?_, ?_⟩ <;> simp only [Heap.alloc, Heap.free] <;> omega

/-- the successor state of one successful element -/
def addOne (c : SetOfCfg) (s : LoopState) : LoopState :=
  ⟨(setAdd (s.h.alloc c.esz) s.cnt s.cap).1, (setAdd (s.h.alloc c.esz) s.cnt s.cap).2.1,
   (setAdd (s.h.alloc c.esz) s.cnt s.cap).2.2⟩

theorem addOne_inv (c : SetOfCfg) (s : LoopState) (hi : Inv c s) : Inv c (addOne c s) := (inv_add c s hi).1
theorem addOne_cnt (c : SetOfCfg) (s : LoopState) : (addOne c s).cnt = s.cnt + 1 := by
  simp only [addOne, setAdd]; split <;> rfl

theorem elemsUper_step (c : SetOfCfg) (n i : Nat) (bits : Bits) (s : LoopState) :
    elemsUper c n (i + 1) bits s =
      if bits.length < c.w then (.more, bits, { s with h := (s.h.alloc c.esz).free c.esz })
      else match c.limit with
        | some lim => if decide (c.w = 0) && decide (n > lim) then (.fail, bits.drop c.w, addOne c s)
                      else elemsUper c n i (bits.drop c.w) (addOne c s)
        | none => elemsUper c n i (bits.drop c.w) (addOne c s) := by
  simp only [elemsUper, addOne]
  split
  · rfl
  · rfl

theorem elemsUper_inv (c : SetOfCfg) (n : Nat) :
    ∀ (todo : Nat) (bits : Bits) (s : LoopState), Inv c s → Inv c (elemsUper c n todo bits s).2.2 := by
  intro todo
  induction todo with
  | zero => intro bits s hi; simpa [elemsUper] using hi
  | succ i ih =>
    intro bits s hi
    rw [elemsUper_step]
    split
    · exact inv_starved c s hi
    · split
      · split
        · exact addOne_inv c s hi
        · exact ih _ _ (addOne_inv c s hi)
      · exact ih _ _ (addOne_inv c s hi)

/-- elements that consume input: count × width + unread ≤ what was there -/
theorem elemsUper_cnt_wide (c : SetOfCfg) (n : Nat) :
    ∀ (todo : Nat) (bits : Bits) (s : LoopState),
      (elemsUper c n todo bits s).2.2.cnt * c.w + (elemsUper c n todo bits s).2.1.length
        ≤ s.cnt * c.w + bits.length := by
  intro todo
  induction todo with
  | zero => intro bits s; simp [elemsUper]
  | succ i ih =>
    intro bits s
    rw [elemsUper_step]
    split
    · simp
    · rename_i hw
      have hstep : (addOne c s).cnt * c.w + (bits.drop c.w).length ≤ s.cnt * c.w + bits.length := by
        rw [addOne_cnt, Nat.add_mul, Nat.one_mul, List.length_drop]; omega
      split
      · split
        · exact hstep
        · exact Nat.le_trans (ih _ _) hstep
      · exact Nat.le_trans (ih _ _) hstep

/-- zero-width elements under the guard: an announced count above the limit fails on the first element -/
theorem elemsUper_zero (c : SetOfCfg) (lim n : Nat) (hw : c.w = 0) (hl : c.limit = some lim) :
    ∀ (todo : Nat) (bits : Bits) (s : LoopState),
      (elemsUper c n todo bits s).2.2.cnt ≤ s.cnt + (if n > lim then 1 else todo) ∧
      (n > lim → todo ≥ 1 → (elemsUper c n todo bits s).1 = .fail) := by
  intro todo
  induction todo with
  | zero => intro bits s; simp [elemsUper]
  | succ i ih =>
    intro bits s
    rw [elemsUper_step]
    have hnl : ¬ (bits.length < c.w) := by omega
    have hd : decide (c.w = 0) = true := by simp [hw]
    simp only [hnl, if_false, hl, hd, Bool.true_and]
    by_cases hn : n > lim
    · simp [hn, addOne_cnt]
    · simp only [hn, decide_false, if_false]
      have := (ih (bits.drop c.w) (addOne c s)).1
      simp only [hn, if_false, addOne_cnt] at this
      constructor
      · simp only [Bool.false_eq_true, if_false]; omega
      · intro h; exact h.elim

/-- elements that take bits are never refused by the guard, whatever count was announced (finding F47
    repaired: the guard looks at the bits moved, not at what the element decoder reports) -/
theorem elemsUper_wide_ok (c : SetOfCfg) (n : Nat) (hw : 0 < c.w) :
    ∀ (todo : Nat) (bits : Bits) (s : LoopState), todo * c.w ≤ bits.length →
      (elemsUper c n todo bits s).1 = .ok ∧ (elemsUper c n todo bits s).2.2.cnt = s.cnt + todo ∧
      (elemsUper c n todo bits s).2.1 = bits.drop (todo * c.w) := by
  intro todo
  induction todo with
  | zero => intro bits s _; simp [elemsUper]
  | succ i ih =>
    intro bits s hb
    rw [elemsUper_step]
    have hmul : (i + 1) * c.w = c.w + i * c.w := by rw [Nat.add_mul, Nat.one_mul, Nat.add_comm]
    have hnl : ¬ (bits.length < c.w) := by omega
    have hwz : ¬ (c.w = 0) := by omega
    have hrest : i * c.w ≤ (bits.drop c.w).length := by rw [List.length_drop]; omega
    have := ih (bits.drop c.w) (addOne c s) hrest
    rw [addOne_cnt, List.drop_drop] at this
    simp only [hnl, if_false, hwz, decide_false, Bool.false_and, Bool.false_eq_true]
    cases c.limit with
    | none => simp only; rw [hmul]; refine ⟨this.1, ?_, this.2.2⟩; omega
    | some lim => simp only; rw [hmul]; refine ⟨this.1, ?_, this.2.2⟩; omega

/-! ### bit fetch, length determinant -/

theorem getBits_len {n : Nat} {bits : Bits} {v : Nat} {r : Bits} (h : getBits n bits = some (v, r)) :
    r.length + n = bits.length := by
  unfold getBits at h
  split at h
  · cases h
  · cases h; simp [List.length_drop]; omega

/-- `fragment_progress` at the level of the length determinant: a "repeat" length announces a multiple
    m·16K (1 ≤ m ≤ 4) of items and costs exactly one octet -/
theorem uperGetLength_repeat {lb : Nat} {bits : Bits} {n : Nat} {r : Bits}
    (h : uperGetLength none lb bits = some (n, true, r)) :
    16384 ≤ n ∧ n ≤ 65536 ∧ n % 16384 = 0 ∧ r.length + 8 = bits.length := by
  unfold uperGetLength at h
  simp only at h
  split at h
  · cases h
  · rename_i v r1 hg
    split at h
    · cases h
    · split at h
      · split at h <;> cases h
      · split at h
        · cases h
        · rename_i hm
          cases h
          have := getBits_len hg
          omega

theorem uperGetLength_len {eb : Option Nat} {lb : Nat} {bits : Bits} {n : Nat} {rep : Bool} {r : Bits}
    (h : uperGetLength eb lb bits = some (n, rep, r)) : r.length ≤ bits.length := by
  unfold uperGetLength at h
  split at h
  · split at h
    · cases h
    · rename_i hg; cases h; have := getBits_len hg; omega
  · split at h
    · cases h
    · rename_i v r1 hg
      have := getBits_len hg
      split at h
      · cases h; omega
      · split at h
        · split at h
          · cases h
          · rename_i hg2; cases h; have := getBits_len hg2; omega
        · simp only at h
          split at h
          · cases h
          · cases h; omega

/-- a constrained length never asks for a repeat -/
theorem uperGetLength_constrained_norepeat {e lb : Nat} {bits : Bits} {n : Nat} {rep : Bool} {r : Bits}
    (h : uperGetLength (some e) lb bits = some (n, rep, r)) : rep = false := by
  unfold uperGetLength at h
  simp only at h
  split at h
  · cases h
  · cases h; rfl

/-! ### the rounds of SET_OF_decode_uper -/

theorem roundsUper_step (c : SetOfCfg) (fuel : Nat) (first : Option Nat) (bits : Bits) (s : LoopState) :
    roundsUper c (fuel + 1) first bits s =
      match (match first with | some n => some (n, false, bits) | none => uperGetLength none 0 bits) with
      | none => (.more, bits, s)
      | some (n, rep, bits1) =>
        match elemsUper c n n bits1 s with
        | (.ok, bits2, s2) => if rep then roundsUper c fuel none bits2 s2 else (.ok, bits2, s2)
        | r => r := by
  rfl

theorem roundsUper_inv (c : SetOfCfg) :
    ∀ (fuel : Nat) (first : Option Nat) (bits : Bits) (s : LoopState),
      Inv c s → Inv c (roundsUper c fuel first bits s).2.2 := by
  intro fuel
  induction fuel with
  | zero => intro first bits s hi; simpa [roundsUper] using hi
  | succ k ih =>
    intro first bits s hi
    rw [roundsUper_step]
    split
    · exact hi
    · rename_i n rep bits1 _
      have he := elemsUper_inv c n n bits1 s hi
      split
      · rename_i bits2 s2 heq
        rw [heq] at he
        split
        · exact ih _ _ _ he
        · exact he
      · exact he

theorem roundsUper_cnt_wide (c : SetOfCfg) :
    ∀ (fuel : Nat) (first : Option Nat) (bits : Bits) (s : LoopState),
      (roundsUper c fuel first bits s).2.2.cnt * c.w + (roundsUper c fuel first bits s).2.1.length
        ≤ s.cnt * c.w + bits.length := by
  intro fuel
  induction fuel with
  | zero => intro first bits s; simp [roundsUper]
  | succ k ih =>
    intro first bits s
    rw [roundsUper_step]
    split
    · simp
    · rename_i n rep bits1 hlen
      have hb : bits1.length ≤ bits.length := by
        cases first with
        | some m => simp at hlen; rw [hlen.2.2]; exact Nat.le_refl _
        | none => simp only at hlen; exact uperGetLength_len hlen
      have he := elemsUper_cnt_wide c n n bits1 s
      split
      · rename_i bits2 s2 heq
        rw [heq] at he
        simp only at he
        split
        · exact Nat.le_trans (ih _ _ _) (by omega)
        · simp only; omega
      · omega

/-- zero-width elements under the guard: the whole decode keeps at most `max lim 1` elements -/
theorem roundsUper_cnt_zero (c : SetOfCfg) (lim : Nat) (hw : c.w = 0)
    (hl : c.limit = some lim) (hlim : lim < 16384) :
    ∀ (fuel : Nat) (first : Option Nat) (bits : Bits) (s : LoopState),
      (roundsUper c fuel first bits s).2.2.cnt ≤ s.cnt + max lim 1 := by
  intro fuel
  cases fuel with
  | zero => intro first bits s; simp [roundsUper]
  | succ k =>
    intro first bits s
    rw [roundsUper_step]
    split
    · simp
    · rename_i n rep bits1 hlen
      have hz := elemsUper_zero c lim n hw hl n bits1 s
      split
      · rename_i bits2 s2 heq
        rw [heq] at hz
        simp only at hz
        split
        · -- repeat requested: then n ≥ 16384 > lim, so the element loop has failed: contradiction
          rename_i hrep
          have hn : 16384 ≤ n := by
            cases first with
            | some m => simp at hlen; rw [hrep] at hlen; exact absurd hlen.2.1 (by simp)
            | none =>
              simp only at hlen
              rw [hrep] at hlen
              exact (uperGetLength_repeat hlen).1
          have := hz.2 (by omega) (by omega)
          cases this
        · simp only
          have := hz.1
          split at this <;> omega
      · have := hz.1
        split at this <;> omega

/-! ### SET_OF_decode_oer -/

theorem elemsOer_step (c : SetOfCfg) (left done : Nat) (moved : Bool) (bs : Bytes) (s : LoopState) :
    elemsOer c (left + 1) done moved bs s =
      if bs.length < c.w then (.more, bs, s)
      else match c.limit with
        | some lim =>
          if c.rep0 && !(moved || decide (c.w > 0)) && decide (done > lim) then (.fail, bs.drop c.w, addOne c s)
          else elemsOer c left (done + 1) (moved || decide (c.w > 0)) (bs.drop c.w) (addOne c s)
        | none => elemsOer c left (done + 1) (moved || decide (c.w > 0)) (bs.drop c.w) (addOne c s) := by
  simp only [elemsOer, addOne]
  split
  · rfl
  · rfl

theorem inv_peak {c : SetOfCfg} {s : LoopState} (hi : Inv c s) :
    s.h.peak ≤ c.ssz + s.cnt * c.esz + 16 * s.cnt + 32 + c.esz := hi.peak

theorem elemsOer_peak (c : SetOfCfg) :
    ∀ (left done : Nat) (moved : Bool) (bs : Bytes) (s : LoopState), Inv c s →
      (elemsOer c left done moved bs s).2.2.h.peak ≤
        c.ssz + (elemsOer c left done moved bs s).2.2.cnt * c.esz
          + 16 * (elemsOer c left done moved bs s).2.2.cnt + 32 + c.esz := by
  intro left
  induction left with
  | zero => intro done moved bs s hi; simpa [elemsOer] using hi.peak
  | succ k ih =>
    intro done moved bs s hi
    rw [elemsOer_step]
    split
    · exact hi.peak
    · split
      · split
        · exact (addOne_inv c s hi).peak
        · exact ih _ _ _ _ (addOne_inv c s hi)
      · exact ih _ _ _ _ (addOne_inv c s hi)

theorem elemsOer_cnt_wide (c : SetOfCfg) :
    ∀ (left done : Nat) (moved : Bool) (bs : Bytes) (s : LoopState),
      (elemsOer c left done moved bs s).2.2.cnt * c.w + (elemsOer c left done moved bs s).2.1.length
        ≤ s.cnt * c.w + bs.length := by
  intro left
  induction left with
  | zero => intro done moved bs s; simp [elemsOer]
  | succ k ih =>
    intro done moved bs s
    rw [elemsOer_step]
    split
    · simp
    · rename_i hw
      have hstep : (addOne c s).cnt * c.w + (bs.drop c.w).length ≤ s.cnt * c.w + bs.length := by
        rw [addOne_cnt, Nat.add_mul, Nat.one_mul, List.length_drop]; omega
      split
      · split
        · exact hstep
        · exact Nat.le_trans (ih _ _ _ _) hstep
      · exact Nat.le_trans (ih _ _ _ _) hstep

/-- zero-width elements under the OER guard: the loop is cut after element number `lim + 1` (0-based) -/
theorem elemsOer_cnt_zero (c : SetOfCfg) (lim : Nat) (hw : c.w = 0) (hr : c.rep0 = true)
    (hl : c.limit = some lim) :
    ∀ (left done : Nat) (bs : Bytes) (s : LoopState),
      (elemsOer c left done false bs s).2.2.cnt ≤ s.cnt + max 1 (lim + 2 - done) := by
  intro left
  induction left with
  | zero => intro done bs s; simp [elemsOer]
  | succ k ih =>
    intro done bs s
    rw [elemsOer_step]
    have hnl : ¬ (bs.length < c.w) := by omega
    have hwd : decide (c.w > 0) = false := by simp [hw]
    simp only [hnl, if_false, hl, hr, hwd, Bool.or_false, Bool.not_false, Bool.true_and]
    by_cases hd : done > lim
    · simp [hd, addOne_cnt]; omega
    · simp only [hd, decide_false, Bool.false_eq_true, if_false]
      have := ih (done + 1) (bs.drop c.w) (addOne c s)
      rw [addOne_cnt] at this
      omega

/-! ### values of bit fields -/

theorem bitsVal_lt : ∀ (l : Bits) (acc : Nat), bitsVal acc l < (acc + 1) * 2 ^ l.length := by
  intro l
  induction l with
  | nil => intro acc; simp [bitsVal]
  | cons b rest ih =>
    intro acc
    simp only [bitsVal, List.length_cons, Nat.pow_succ]
    have h1 := ih (acc * 2 + (if b = true then 1 else 0))
    have h2 : (acc * 2 + (if b = true then 1 else 0) + 1) ≤ (acc + 1) * 2 := by split <;> omega
    have h3 := Nat.mul_le_mul_right (2 ^ rest.length) h2
    calc bitsVal (acc * 2 + (if b = true then 1 else 0)) rest
        < (acc * 2 + (if b = true then 1 else 0) + 1) * 2 ^ rest.length := h1
      _ ≤ (acc + 1) * 2 * 2 ^ rest.length := h3
      _ = (acc + 1) * (2 ^ rest.length * 2) := by rw [Nat.mul_assoc, Nat.mul_comm 2]

theorem getBits_lt {n : Nat} {bits : Bits} {v : Nat} {r : Bits} (h : getBits n bits = some (v, r)) :
    v < 2 ^ n := by
  unfold getBits at h
  split at h
  · cases h
  · rename_i hl
    cases h
    have := bitsVal_lt (bits.take n) 0
    rw [List.length_take, Nat.min_eq_left (by omega)] at this
    simpa using this

/-- an unconstrained length determinant announces at most 64K items -/
theorem uperGetLength_le {lb : Nat} {bits : Bits} {n : Nat} {rep : Bool} {r : Bits}
    (h : uperGetLength none lb bits = some (n, rep, r)) : n ≤ 65536 := by
  unfold uperGetLength at h
  simp only at h
  split at h
  · cases h
  · rename_i v r1 hg
    split at h
    · cases h; omega
    · split at h
      · split at h
        · cases h
        · rename_i w r2 hg2
          cases h
          have := getBits_lt hg2
          omega
      · split at h
        · cases h
        · cases h; omega

/-- an unconstrained length that is not a fragment is below 16K -/
theorem uperGetLength_norepeat_lt {lb : Nat} {bits : Bits} {n : Nat} {r : Bits}
    (h : uperGetLength none lb bits = some (n, false, r)) : n < 16384 := by
  unfold uperGetLength at h
  simp only at h
  split at h
  · cases h
  · rename_i v r1 hg1
    split at h
    · cases h; omega
    · split at h
      · split at h
        · cases h
        · rename_i w r2 hg2
          cases h
          have := getBits_lt hg2
          omega
      · split at h <;> cases h

theorem uperGetLength_constrained_lt {e lb : Nat} {bits : Bits} {n : Nat} {rep : Bool} {r : Bits}
    (h : uperGetLength (some e) lb bits = some (n, rep, r)) : n < lb + 2 ^ e := by
  unfold uperGetLength at h
  simp only at h
  split at h
  · cases h
  · rename_i hg; cases h; have := getBits_lt hg; omega

/-! ### OCTET_STRING_decode_uper -/

theorem osUperLoop_step (bpc u : Nat) (eb : Option Nat) (lb fuel : Nat) (bits : Bits) (h : Heap)
    (buf : Option Nat) (size k : Nat) :
    osUperLoop bpc u eb lb (fuel + 1) bits h buf size k =
      match uperGetLength eb lb bits with
      | none => ⟨.more, bits, h, k⟩
      | some (rawLen, rep, bits1) =>
        if rawLen = 0 ∧ buf.isSome then ⟨.ok, bits1, h, k + 1⟩
        else if u = 0 ∧ rep = true then ⟨.fail, bits1, h, k + 1⟩
        else
          if bits1.length < rawLen * u then
            ⟨.more, bits1, (match buf with
              | some old => h.realloc old (size + rawLen * bpc + 1)
              | none => h.alloc (size + rawLen * bpc + 1)), k + 1⟩
          else if rep then
            osUperLoop bpc u eb lb fuel (bits1.drop (rawLen * u))
              (match buf with
                | some old => h.realloc old (size + rawLen * bpc + 1)
                | none => h.alloc (size + rawLen * bpc + 1))
              (some (size + rawLen * bpc + 1)) (size + rawLen * bpc) (k + 1)
          else ⟨.ok, bits1.drop (rawLen * u), (match buf with
              | some old => h.realloc old (size + rawLen * bpc + 1)
              | none => h.alloc (size + rawLen * bpc + 1)), k + 1⟩ := by
  rfl

/-- ledger after the (re)allocation of the string buffer -/
theorem os_realloc_live (ssz : Nat) (h : Heap) (buf : Option Nat) (req : Nat)
    (hl : h.live = ssz + buf.getD 0) :
    (match buf with | some old => h.realloc old req | none => h.alloc req).live = ssz + req ∧
    (match buf with | some old => h.realloc old req | none => h.alloc req).peak = max h.peak (ssz + req) := by
  cases buf with
  | none => simp [Heap.alloc] at *; omega
  | some old => simp [Heap.realloc] at *; omega

/-- Heap bound of the fragment loop: there is a number `S` of content octets, paid for by input actually
    present (`S·u ≤ bpc·bits consumed`), such that the peak is at most `ssz + S + L·bpc + 1`, where `L`
    bounds what one length determinant can announce. -/
theorem osUperLoop_heap (ssz bpc u : Nat) (eb : Option Nat) (lb L : Nat)
    (hL : ∀ bits n rep r, uperGetLength eb lb bits = some (n, rep, r) → n ≤ L) :
    ∀ (fuel : Nat) (bits : Bits) (h : Heap) (buf : Option Nat) (size k : Nat),
      h.live = ssz + buf.getD 0 →
      ∃ S, size ≤ S ∧
        S * u + bpc * (osUperLoop bpc u eb lb fuel bits h buf size k).rest.length ≤ size * u + bpc * bits.length ∧
        (osUperLoop bpc u eb lb fuel bits h buf size k).h.peak ≤ max h.peak (ssz + S + L * bpc + 1) := by
  intro fuel
  induction fuel with
  | zero =>
    intro bits h buf size k _
    exact ⟨size, Nat.le_refl _, by simp [osUperLoop], by simp [osUperLoop]; omega⟩
  | succ f ih =>
    intro bits h buf size k hl
    rw [osUperLoop_step]
    split
    · exact ⟨size, Nat.le_refl _, by simp, by simp; omega⟩
    · rename_i rawLen rep bits1 hg
      have hn : rawLen ≤ L := hL _ _ _ _ hg
      have hb1 : bits1.length ≤ bits.length := uperGetLength_len hg
      have hmb : bpc * bits1.length ≤ bpc * bits.length := Nat.mul_le_mul_left _ hb1
      have hreq : rawLen * bpc ≤ L * bpc := Nat.mul_le_mul_right _ hn
      have hre := os_realloc_live ssz h buf (size + rawLen * bpc + 1) hl
      split
      · exact ⟨size, Nat.le_refl _, by simp only; omega, by simp only; omega⟩
      · split
        · exact ⟨size, Nat.le_refl _, by simp only; omega, by simp only; omega⟩
        split
        · refine ⟨size, Nat.le_refl _, by simp only; omega, ?_⟩
          simp only; rw [hre.2]; omega
        · rename_i hdata
          have hdata' : rawLen * u ≤ bits1.length := by omega
          obtain ⟨d, hd⟩ := Nat.exists_eq_add_of_le hdata'
          have hdrop : (bits1.drop (rawLen * u)).length = d := by rw [List.length_drop]; omega
          have hpot : (size + rawLen * bpc) * u + bpc * d = size * u + bpc * bits1.length := by
            rw [hd, Nat.mul_add, Nat.add_mul]
            have : rawLen * bpc * u = bpc * (rawLen * u) := by
              rw [Nat.mul_comm rawLen bpc, Nat.mul_assoc]
            omega
          split
          · -- repeat: next round
            have hl2 : (match buf with
                | some old => h.realloc old (size + rawLen * bpc + 1)
                | none => h.alloc (size + rawLen * bpc + 1)).live
                  = ssz + (some (size + rawLen * bpc + 1) : Option Nat).getD 0 := by
              rw [hre.1]; rfl
            obtain ⟨S, hS1, hS2, hS3⟩ := ih (bits1.drop (rawLen * u)) _ (some (size + rawLen * bpc + 1))
              (size + rawLen * bpc) (k + 1) hl2
            refine ⟨S, by omega, ?_, ?_⟩
            · rw [hdrop] at hS2; omega
            · rw [hre.2] at hS3; omega
          · refine ⟨size, Nat.le_refl _, ?_, ?_⟩
            · simp only; rw [hdrop]
              have : size * u ≤ (size + rawLen * bpc) * u := Nat.mul_le_mul_right _ (by omega)
              omega
            · simp only; rw [hre.2]; omega

/-- every round but the last one consumes at least 16K units of `u` bits (unconstrained lengths) -/
theorem osUperLoop_rounds (bpc u lb : Nat) :
    ∀ (fuel : Nat) (bits : Bits) (h : Heap) (buf : Option Nat) (size k : Nat),
      ((osUperLoop bpc u none lb fuel bits h buf size k).rounds - (k + 1)) * (16384 * u)
        + (osUperLoop bpc u none lb fuel bits h buf size k).rest.length ≤ bits.length := by
  intro fuel
  induction fuel with
  | zero => intro bits h buf size k; simp [osUperLoop]
  | succ f ih =>
    intro bits h buf size k
    rw [osUperLoop_step]
    split
    · simp
    · rename_i rawLen rep bits1 hg
      have hb1 : bits1.length ≤ bits.length := uperGetLength_len hg
      split
      · simp; omega
      · split
        · simp; omega
        split
        · simp; omega
        · rename_i hdata
          split
          · rename_i hrep
            rw [hrep] at hg
            have h16 := (uperGetLength_repeat hg).1
            have hx : 16384 * u ≤ rawLen * u := Nat.mul_le_mul_right _ h16
            have key : ∀ (R T : Nat), (R - (k + 1 + 1)) * (16384 * u) + T ≤ bits1.length - rawLen * u →
                (R - (k + 1)) * (16384 * u) + T ≤ bits.length := by
              intro R T hRT
              have hj : (R - (k + 1)) * (16384 * u) ≤ (R - (k + 1 + 1)) * (16384 * u) + 16384 * u := by
                rw [← Nat.succ_mul]
                exact Nat.mul_le_mul_right _ (by omega)
              omega
            exact key _ _ (by rw [← List.length_drop]; exact ih _ _ _ _ _)
          · simp; omega

/-! ### without the zero-width guard -/

theorem addOne_live_ge (c : SetOfCfg) (s : LoopState) : s.h.live + c.esz ≤ (addOne c s).h.live := by
  rcases s with ⟨⟨live, peak, allocs⟩, cnt, cap⟩
  simp only [addOne, setAdd, Heap.alloc, Heap.realloc]
  split
  · split <;> simp only <;> omega
  · simp only; omega

/-- no guard, zero-width elements: the loop allocates as many elements as the length determinant says -/
theorem elemsUper_noguard (c : SetOfCfg) (n : Nat) (hw : c.w = 0) (hl : c.limit = none) :
    ∀ (todo : Nat) (bits : Bits) (s : LoopState),
      (elemsUper c n todo bits s).1 = .ok ∧ (elemsUper c n todo bits s).2.1 = bits ∧
      (elemsUper c n todo bits s).2.2.cnt = s.cnt + todo ∧
      s.h.live + todo * c.esz ≤ (elemsUper c n todo bits s).2.2.h.live := by
  intro todo
  induction todo with
  | zero => intro bits s; simp [elemsUper]
  | succ i ih =>
    intro bits s
    rw [elemsUper_step]
    simp only [hl, hw, List.drop_zero, Nat.not_lt_zero, if_false]
    obtain ⟨h1, h2, h3, h4⟩ := ih bits (addOne c s)
    refine ⟨h1, h2, ?_, ?_⟩
    · rw [h3, addOne_cnt]; omega
    · have := addOne_live_ge c s
      rw [Nat.add_mul, Nat.one_mul]; omega

/-! ### APPEND macro of OCTET_STRING.c -/

theorem appendCapLoop_le : ∀ (fuel ns es : Nat), ns ≤ es → appendCapLoop fuel ns es ≤ 2 * es + 16 := by
  intro fuel
  induction fuel with
  | zero => intro ns es h; simp [appendCapLoop]; omega
  | succ f ih =>
    intro ns es h
    simp only [appendCapLoop]
    have hb : (if ns = 0 then 16 else ns * 2) ≤ 2 * es + 16 := by split <;> omega
    generalize (if ns = 0 then 16 else ns * 2) = ns' at hb ⊢
    by_cases h2 : ns' ≤ es
    · rw [if_pos h2]; exact ih _ _ h2
    · rw [if_neg h2]; exact hb

/-- the loop reaches a capacity above the needed size (so the fuel `es + 1` is enough) -/
theorem appendCapLoop_gt : ∀ (fuel ns es : Nat), es < ns + fuel → 0 < fuel → es < appendCapLoop fuel ns es := by
  intro fuel
  induction fuel with
  | zero => intro ns es _ h0; omega
  | succ f ih =>
    intro ns es h _
    simp only [appendCapLoop]
    have hgrow : ns + 1 ≤ (if ns = 0 then 16 else ns * 2) := by split <;> omega
    generalize (if ns = 0 then 16 else ns * 2) = ns' at hgrow ⊢
    by_cases h2 : ns' ≤ es
    · rw [if_pos h2]
      exact ih _ _ (by omega) (by omega)
    · rw [if_neg h2]; omega

theorem appendCap_le (ns es : Nat) : appendCap ns es ≤ max ns (2 * es + 16) := by
  unfold appendCap
  split
  · rename_i h; have := appendCapLoop_le (es + 1) ns es h; omega
  · omega

theorem appendCap_gt (ns es : Nat) : es < appendCap ns es := by
  unfold appendCap
  split
  · exact appendCapLoop_gt (es + 1) ns es (by omega) (by omega)
  · omega

theorem bytesToBits_length (bs : Bytes) : (bytesToBits bs).length = 8 * bs.length := by
  unfold bytesToBits
  induction bs with
  | nil => rfl
  | cons b rest ih =>
    rw [List.flatMap_cons, List.length_append, ih]
    simp only [byteBits, List.length_cons, List.length_nil]
    omega

/-- no guard, zero-width elements, one fragment of `n` elements and then the end of the input -/
theorem setOfUper_noguard_fragment (ssz esz n : Nat) (bits rest : Bits)
    (hlen : uperGetLength none 0 bits = some (n, true, rest))
    (hend : uperGetLength none 0 rest = none) :
    n * esz ≤ (setOfUper ⟨ssz, esz, 0, true, none⟩ none bits).2.2.h.live ∧
    (setOfUper ⟨ssz, esz, 0, true, none⟩ none bits).2.2.cnt = n := by
  have hb : bits.length + 1 = (bits.length - 1) + 1 + 1 := by
    have := (uperGetLength_repeat hlen).2.2.2; omega
  unfold setOfUper
  simp only
  rw [hb, roundsUper_step]
  simp only [hlen]
  obtain ⟨h1, h2, h3, h4⟩ := elemsUper_noguard ⟨ssz, esz, 0, true, none⟩ n rfl rfl n rest
    { h := ({} : Heap).alloc ssz }
  generalize elemsUper ⟨ssz, esz, 0, true, none⟩ n n rest { h := ({} : Heap).alloc ssz } = res
    at h1 h2 h3 h4
  rcases res with ⟨o, b2, s2⟩
  simp only at h1 h2 h3 h4
  subst h1; subst h2
  simp only [if_true]
  rw [roundsUper_step]
  simp only [hend]
  constructor <;> omega

end Asn1c.Proofs.StackGuard
