import Asn1cModel.Impl.Naming
/-  Helper lemmas for Props/C10 (identifier generation).  Core Lean only. -/
namespace Asn1c.Proofs.Naming
open Asn1c.Impl.Naming Asn1c.Generated

theorem isAlnum_identChar {c : Char} (h : isAlnum c = true) : isIdentChar c = true := by
  simp [isIdentChar, h]

theorem escapeChars_all_ident (b : Bool) (cs : List Char) :
    (escapeChars false b cs).all isIdentChar = true := by
  induction cs generalizing b with
  | nil => simp [escapeChars]
  | cons c cs ih =>
    unfold escapeChars
    by_cases h : isAlnum c = true
    · simp [h, isAlnum_identChar h, ih]
    · cases b <;> simp [h, ih, isIdentChar]

/-- on alphanumeric characters the escaping is the identity -/
theorem escapeChars_alnum (m b : Bool) (cs : List Char) (h : ∀ c ∈ cs, isAlnum c = true) :
    escapeChars m b cs = cs := by
  induction cs generalizing b with
  | nil => simp [escapeChars]
  | cons c cs ih =>
    have hc : isAlnum c = true := h c (by simp)
    unfold escapeChars
    simp [hc]
    exact ih false (fun d hd => h d (by simp [hd]))

/-- the 26 lower-case letters, checked one by one -/
theorem toUpper_lower_table : ∀ n, n < 123 → 97 ≤ n →
    (isIdentChar (toUpper (Char.ofNat n)) && !isDigit (toUpper (Char.ofNat n))
      && ('A' ≤ toUpper (Char.ofNat n) && toUpper (Char.ofNat n) ≤ 'Z')) = true := by decide

theorem toUpper_lower (c : Char) (h1 : 'a' ≤ c) (h2 : c ≤ 'z') :
    isIdentChar (toUpper c) = true ∧ isDigit (toUpper c) = false ∧ 'A' ≤ toUpper c ∧ toUpper c ≤ 'Z' := by
  have := toUpper_lower_table c.toNat (by have : c.toNat ≤ 122 := h2; omega) h1
  rw [Char.ofNat_toNat] at this
  simpa [and_assoc] using this

/-- every entry of `res_kwd[]` starts with a lower-case letter (checked over the extracted table) -/
theorem resKwd_heads_lower :
    ∀ k ∈ resKwd, (match k.toList with | c :: _ => 'a' ≤ c && c ≤ 'z' | [] => false) = true := by
  decide

/-- every entry of `res_kwd[]` consists of identifier characters only -/
theorem resKwd_identChars : ∀ k ∈ resKwd, k.toList.all isIdentChar = true := by decide

/-- the escaping is the identity on every entry of `res_kwd[]` (identifier characters, no "__") -/
theorem resKwd_escape_id : ∀ k ∈ resKwd, escapeChars false false k.toList = k.toList := by decide

theorem reservedKeyword_iff (s : List Char) : reservedKeyword s = true ↔ ∃ k ∈ resKwd, k.toList = s := by
  simp [reservedKeyword, List.any_eq_true]

theorem reserved_head_lower {s : List Char} (h : reservedKeyword s = true) :
    ∃ c cs, s = c :: cs ∧ 'a' ≤ c ∧ c ≤ 'z' := by
  obtain ⟨k, hk, rfl⟩ := (reservedKeyword_iff s).mp h
  have := resKwd_heads_lower k hk
  cases hl : k.toList with
  | nil => simp [hl] at this
  | cons c cs => simp [hl] at this; exact ⟨c, cs, rfl, this.1, this.2⟩

theorem not_reserved_of_upper_head {c : Char} {cs : List Char} (h1 : 'A' ≤ c) (h2 : c ≤ 'Z') :
    reservedKeyword (c :: cs) = false := by
  cases h : reservedKeyword (c :: cs) with
  | false => rfl
  | true =>
    obtain ⟨d, ds, hd, ha, _⟩ := reserved_head_lower h
    have : c = d := by injection hd
    subst this
    have : (97 : Nat) ≤ c.toNat := ha
    have : c.toNat ≤ 90 := h2
    omega

/-! ### the single-part call `asn1c_make_identifier(flags, expr, 0)` -/

theorem mkId_eq (fl : Flags) (s : String) (h : s.toList ≠ [' ']) :
    mkId fl s = emitPart fl true true false s.toList := by
  unfold mkId partsLoop
  simp [h, partsLoop]

/-! ### the reserved-word step on the escaped text -/

/-- whatever the escaped text is, after the capitalisation step it is not an entry of `res_kwd[]` -/
theorem capitaliseIfReserved_not_reserved (out : List Char) :
    reservedKeyword (capitaliseIfReserved out) = false := by
  unfold capitaliseIfReserved
  by_cases hr : reservedKeyword out = true
  · obtain ⟨c, cs, rfl, ha, hz⟩ := reserved_head_lower hr
    simp only [hr, if_true]
    have hu := toUpper_lower c ha hz
    exact not_reserved_of_upper_head hu.2.2.1 hu.2.2.2
  · have hf : reservedKeyword out = false := by simpa using hr
    simp [hf]

theorem capitaliseIfReserved_all_ident (out : List Char) (h : out.all isIdentChar = true) :
    (capitaliseIfReserved out).all isIdentChar = true := by
  unfold capitaliseIfReserved
  by_cases hr : reservedKeyword out = true
  · obtain ⟨c, cs, rfl, ha, hz⟩ := reserved_head_lower hr
    simp only [hr, if_true]
    simp only [List.all_cons, Bool.and_eq_true] at h ⊢
    exact ⟨(toUpper_lower c ha hz).1, h.2⟩
  · have hf : reservedKeyword out = false := by simpa using hr
    simpa [hf] using h

/-- a text that is not reserved is left alone -/
theorem capitaliseIfReserved_of_not_reserved (out : List Char) (h : reservedKeyword out = false) :
    capitaliseIfReserved out = out := by
  simp [capitaliseIfReserved, h]

theorem emitPart_first_eq (fl : Flags) (only nd : Bool) (p : List Char) :
    emitPart fl true only nd p =
      (if fl.checkReserved && only then capitaliseIfReserved (escapeChars fl.maskOnlySpaces false p)
       else escapeChars fl.maskOnlySpaces false p) := by
  unfold emitPart
  simp

theorem emitPart_first_all_ident (fl : Flags) (hm : fl.maskOnlySpaces = false) (only nd : Bool) (p : List Char) :
    (emitPart fl true only nd p).all isIdentChar = true := by
  rw [emitPart_first_eq, hm]
  split
  · exact capitaliseIfReserved_all_ident _ (escapeChars_all_ident false p)
  · exact escapeChars_all_ident false p

def isAlpha (c : Char) : Bool := ('a' ≤ c && c ≤ 'z') || ('A' ≤ c && c ≤ 'Z')

theorem isAlpha_alnum {c : Char} (h : isAlpha c = true) : isAlnum c = true := by
  unfold isAlpha at h; unfold isAlnum
  rcases Bool.or_eq_true _ _ |>.mp h with h | h <;> simp [h]

theorem isAlpha_not_digit {c : Char} (h : isAlpha c = true) : isDigit c = false := by
  unfold isAlpha at h; unfold isDigit
  cases hd : ('0' ≤ c && c ≤ '9') with
  | false => rfl
  | true =>
    simp at hd h
    have h9 : c.toNat ≤ 57 := hd.2
    rcases h with ⟨h1, _⟩ | ⟨h1, _⟩
    · have : (97 : Nat) ≤ c.toNat := h1; omega
    · have : (65 : Nat) ≤ c.toNat := h1; omega

theorem isCIdent_of (c : Char) (cs : List Char) (h1 : isIdentChar c = true) (h2 : isDigit c = false)
    (h3 : cs.all isIdentChar = true) : isCIdent (c :: cs) = true := by
  simp [isCIdent, h1, h2, h3]

theorem capitaliseIfReserved_cident (out : List Char) (h : isCIdent out = true) :
    isCIdent (capitaliseIfReserved out) = true := by
  unfold capitaliseIfReserved
  by_cases hr : reservedKeyword out = true
  · obtain ⟨c, cs, rfl, ha, hz⟩ := reserved_head_lower hr
    simp only [hr, if_true]
    have hu := toUpper_lower c ha hz
    simp only [isCIdent, Bool.and_eq_true] at h
    exact isCIdent_of _ _ hu.1 hu.2.1 h.2
  · have hf : reservedKeyword out = false := by simpa using hr
    simpa [hf] using h

/-- a part that starts with a letter yields a C identifier (no mask-only-spaces flag) -/
theorem emitPart_first_cident (fl : Flags) (hm : fl.maskOnlySpaces = false) (only nd : Bool)
    (c : Char) (cs : List Char) (hc : isAlpha c = true) :
    isCIdent (emitPart fl true only nd (c :: cs)) = true := by
  have hesc : isCIdent (escapeChars false false (c :: cs)) = true := by
    have ha := isAlpha_alnum hc
    have hall := escapeChars_all_ident false (cs)
    unfold escapeChars
    simp only [ha, if_true]
    exact isCIdent_of _ _ (isAlnum_identChar ha) (isAlpha_not_digit hc) (escapeChars_all_ident false cs)
  rw [emitPart_first_eq, hm]
  split
  · exact capitaliseIfReserved_cident _ hesc
  · exact hesc

/-! ### injectivity on ASN.1-shaped names -/

/-- the shape of an ASN.1 identifier / type reference after its first letter (X.680 12.2, 12.3):
    letters, digits and hyphens, no two hyphens in a row (a final hyphen is not excluded here) -/
def asn1Tail : Bool → List Char → Bool
  | _, [] => true
  | afterHyphen, c :: cs =>
    if isAlnum c then asn1Tail false cs
    else if c = '-' && !afterHyphen then asn1Tail true cs
    else false

def hyphenToUnderscore (c : Char) : Char := if c = '-' then '_' else c

theorem escapeChars_asn1 (b : Bool) (cs : List Char) (h : asn1Tail b cs = true) :
    escapeChars false b cs = cs.map hyphenToUnderscore := by
  induction cs generalizing b with
  | nil => simp [escapeChars]
  | cons c cs ih =>
    unfold asn1Tail at h
    unfold escapeChars
    by_cases ha : isAlnum c = true
    · simp only [ha, if_true] at h ⊢
      have hne : c ≠ '-' := by intro hc; subst hc; simp [isAlnum] at ha
      simp [hyphenToUnderscore, hne, ih false h]
    · simp only [ha] at h ⊢
      cases b with
      | true => simp at h
      | false =>
        simp at h
        simp [hyphenToUnderscore, h.1, ih true h.2]

theorem asn1Tail_no_underscore (b : Bool) (cs : List Char) (h : asn1Tail b cs = true) : '_' ∉ cs := by
  induction cs generalizing b with
  | nil => simp
  | cons c cs ih =>
    unfold asn1Tail at h
    by_cases ha : isAlnum c = true
    · simp only [ha, if_true] at h
      have hne : c ≠ '_' := by intro hc; subst hc; simp [isAlnum] at ha
      simp [Ne.symm hne, ih false h]
    · simp only [ha] at h
      cases b with
      | true => simp at h
      | false =>
        simp at h
        have : c ≠ '_' := by rw [h.1]; decide
        simp [Ne.symm this, ih true h.2]

theorem map_hyphen_injective (a b : List Char) (ha : '_' ∉ a) (hb : '_' ∉ b)
    (h : a.map hyphenToUnderscore = b.map hyphenToUnderscore) : a = b := by
  induction a generalizing b with
  | nil => cases b with
    | nil => rfl
    | cons _ _ => simp at h
  | cons x xs ih =>
    cases b with
    | nil => simp at h
    | cons y ys =>
      simp only [List.map_cons, List.cons.injEq] at h
      simp only [List.mem_cons, not_or] at ha hb
      have hxy : x = y := by
        have := h.1
        unfold hyphenToUnderscore at this
        by_cases hx : x = '-' <;> by_cases hy : y = '-'
        · rw [hx, hy]
        · simp [hx, hy] at this; exact absurd this.symm (Ne.symm hb.1 |> fun h => by simpa using h)
        · simp [hx, hy] at this; exact absurd this (Ne.symm ha.1 |> fun h => by simpa using h)
        · simpa [hx, hy] using this
      rw [hxy, ih ys ha.2 hb.2 h.2]

end Asn1c.Proofs.Naming
