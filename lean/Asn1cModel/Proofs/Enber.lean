import Asn1cModel.Impl.Unber
import Asn1cModel.Impl.Enber
import Asn1cModel.Spec.TlvForest
import Asn1cModel.Proofs.UnberTlv
/-
  `enber` applied to the text that `unber -p` prints for a well-formed forest whose definite
  lengths are minimal gives back the encoding: character-level lemmas about `process_line`
  on the four shapes of line that `render` produces.
-/
set_option linter.unusedSimpArgs false

namespace Asn1c.Proofs.Enber
open Asn1c Asn1c.Impl.UnberTlv Asn1c.Impl.Unber Asn1c.Impl.Enber Asn1c.Spec.TlvForest Asn1c.Proofs.UnberTlv

/-! ### decimal digits -/

theorem decDigitsF_fuel : ∀ (n f g : Nat), n ≤ f → n ≤ g → decDigitsF f n = decDigitsF g n := by
  intro n
  induction n using Nat.strongRecOn with
  | _ n ih =>
    intro f g hf hg
    cases f with
    | zero =>
      have : n = 0 := by omega
      subst this
      cases g <;> simp [decDigitsF]
    | succ f =>
      cases g with
      | zero =>
        have : n = 0 := by omega
        subst this; simp [decDigitsF]
      | succ g =>
        simp only [decDigitsF]
        by_cases h : n < 10
        · rw [if_pos h, if_pos h]
        · rw [if_neg h, if_neg h, ih (n / 10) (by omega) f g (by omega) (by omega)]

theorem decDigits_lt {n : Nat} (h : n < 10) : decDigits n = [48 + n] := by
  unfold decDigits
  cases n with
  | zero => simp [decDigitsF]
  | succ n => simp [decDigitsF, h]

theorem decDigits_ge {n : Nat} (h : ¬ n < 10) : decDigits n = decDigits (n / 10) ++ [48 + n % 10] := by
  unfold decDigits
  obtain ⟨m, rfl⟩ : ∃ m, n = m + 1 := ⟨n - 1, by omega⟩
  simp only [decDigitsF]
  rw [if_neg h, decDigitsF_fuel ((m + 1) / 10) m ((m + 1) / 10) (by omega) (Nat.le_refl _)]

/-- all characters are decimal digits, and there is at least one -/
theorem decDigits_digits : ∀ (n : Nat), (∀ c ∈ decDigits n, 48 ≤ c ∧ c ≤ 57) ∧ decDigits n ≠ [] := by
  intro n
  induction n using Nat.strongRecOn with
  | _ n ih =>
    by_cases h : n < 10
    · rw [decDigits_lt h]
      refine ⟨fun c hc => ?_, by simp⟩
      simp only [List.mem_singleton] at hc; omega
    · rw [decDigits_ge h]
      refine ⟨fun c hc => ?_, by simp⟩
      simp only [List.mem_append, List.mem_singleton] at hc
      rcases hc with hc | hc
      · exact (ih (n / 10) (by omega)).1 c hc
      · omega

theorem isDigit_of_range {c : Nat} (h1 : 48 ≤ c) (h2 : c ≤ 57) : isDigit c = true := by
  simp [isDigit, h1, h2]

/-- `strtoul`'s digit loop reads back a printed number -/
theorem strtoulDigits_decDigits : ∀ (n : Nat) (rest : Bytes), n < 2 ^ 64 →
    strtoulDigits (decDigits n ++ rest) 0 false = strtoulDigits rest n false := by
  intro n
  induction n using Nat.strongRecOn with
  | _ n ih =>
    intro rest hn
    by_cases h : n < 10
    · rw [decDigits_lt h]
      simp only [List.cons_append, List.nil_append, strtoulDigits]
      rw [if_pos (isDigit_of_range (by omega) (by omega))]
      try simp only []
      rw [if_neg (by omega)]
      congr 1; omega
    · rw [decDigits_ge h, List.append_assoc, ih (n / 10) (by omega) _ (by omega)]
      simp only [List.cons_append, List.nil_append, strtoulDigits]
      rw [if_pos (isDigit_of_range (by omega) (by omega))]
      try simp only []
      rw [if_neg (by omega)]
      congr 1; omega

theorem strtoul_digit_head (d : Nat) (l : Bytes) (h1 : 48 ≤ d) (h2 : d ≤ 57) :
    strtoul (d :: l) = (if (strtoulDigits (d :: l) 0 false).2 = true then (2 ^ 64 - 1, true)
      else ((strtoulDigits (d :: l) 0 false).1, false)) := by
  unfold strtoul
  have hsp : isSpace d = false := by
    simp only [isSpace]
    have : (d == 32) = false := by simp; omega
    have : decide (d ≤ 13) = false := by simp; omega
    simp [*]
  have hs : skipSpace (d :: l) = d :: l := by
    simp only [skipSpace, hsp]; simp
  have h45 : (some d == some 45) = false := by simp; omega
  have h43 : (some d == some 43) = false := by simp; omega
  simp only [hs, List.head?_cons, h45, h43, Bool.or_self, Bool.false_eq_true, if_false]

/-- `strtoul` on a printed number followed by a non-digit -/
theorem strtoul_decDigits (n : Nat) (c : Nat) (rest : Bytes) (hn : n < 2 ^ 64) (hc : isDigit c = false) :
    strtoul (decDigits n ++ c :: rest) = (n, false) := by
  obtain ⟨hd, hne⟩ := decDigits_digits n
  have hsd := strtoulDigits_decDigits n (c :: rest) hn
  cases hdd : decDigits n with
  | nil => exact absurd hdd hne
  | cons d ds =>
    have hdr := hd d (by rw [hdd]; simp)
    rw [hdd] at hsd
    simp only [List.cons_append] at hsd ⊢
    rw [strtoul_digit_head d _ hdr.1 hdr.2, hsd]
    simp [strtoulDigits, hc]

/-! ### characters of a tag part; `scanClose` -/

/-- a character that may occur between `<` and `>`: printable ASCII, not `>` -/
def TagChar (c : Nat) : Prop := 32 ≤ c ∧ c < 128 ∧ c ≠ 62

instance (c : Nat) : Decidable (TagChar c) := by unfold TagChar; infer_instance

def TagChars (l : Bytes) : Prop := ∀ c ∈ l, TagChar c

theorem TagChars.append {a b : Bytes} (ha : TagChars a) (hb : TagChars b) : TagChars (a ++ b) := by
  intro c hc
  rcases List.mem_append.mp hc with h | h
  · exact ha c h
  · exact hb c h

theorem tagChars_decDigits (n : Nat) : TagChars (decDigits n) := by
  intro c hc
  have := (decDigits_digits n).1 c hc
  unfold TagChar; omega

theorem tagChars_of_decide {l : Bytes} (h : (l.all fun c => decide (TagChar c)) = true) : TagChars l := by
  intro c hc
  have := List.all_eq_true.mp h c hc
  exact of_decide_eq_true this

theorem tagChars_tagString (tag : Nat) : TagChars (tagString tag) := by
  unfold tagString
  have hd := tagChars_decDigits (tag / 4)
  have h93 : TagChars [93] := tagChars_of_decide (by decide)
  split
  · exact ((tagChars_of_decide (by decide)).append hd).append h93
  · exact ((tagChars_of_decide (by decide)).append hd).append h93
  · exact ((tagChars_of_decide (by decide)).append hd).append h93
  · exact ((tagChars_of_decide (by decide)).append hd).append h93

theorem tagChars_universalName : ∀ (n : Nat) (s : Bytes), universalName n = some s → TagChars s := by
  intro n s h
  unfold universalName at h
  split at h <;> first
    | (simp only [Option.some.injEq] at h; subst h; exact tagChars_of_decide (by decide))
    | (exact absurd h (by simp))

theorem tagChars_attrA (tag : Nat) : TagChars (attrA tag) := by
  unfold attrA
  split
  · split
    · rename_i s hs
      exact ((tagChars_of_decide (l := [32, 65, 61, 34]) (by decide)).append
        (tagChars_universalName _ s hs)).append (tagChars_of_decide (by decide))
    · intro c hc; simp at hc
  · intro c hc; simp at hc

theorem scanClose_tagChars : ∀ (a acc after : Bytes), TagChars a →
    scanClose (a ++ 62 :: after) acc = .ok (acc.reverse ++ a, after) := by
  intro a
  induction a with
  | nil => intro acc after _; simp [scanClose]
  | cons c a ih =>
    intro acc after h
    have hc := h c (by simp)
    unfold TagChar at hc
    simp only [List.cons_append, scanClose]
    rw [if_neg (by omega), if_neg (by omega), ih (c :: acc) after (fun x hx => h x (List.mem_cons_of_mem _ hx))]
    simp

/-! ### `strstr` -/

theorem findSub_miss (pat : Bytes) (c : Nat) (s : Bytes) (h : isPrefix pat (c :: s) = false) :
    findSub pat (c :: s) = findSub pat s := by
  simp [findSub, h]

theorem findSub_hit (pat : Bytes) (c : Nat) (s : Bytes) (h : isPrefix pat (c :: s) = true) :
    findSub pat (c :: s) = some (c :: s) := by
  simp [findSub, h]

/-- skipping characters that differ from the first character of the pattern -/
theorem findSub_skip (p0 : Nat) (pat : Bytes) : ∀ (l s : Bytes), (∀ c ∈ l, c ≠ p0) →
    findSub (p0 :: pat) (l ++ s) = findSub (p0 :: pat) s := by
  intro l
  induction l with
  | nil => intro s _; rfl
  | cons c l ih =>
    intro s h
    have hc := h c (by simp)
    rw [List.cons_append, findSub_miss _ _ _ (by
      simp only [isPrefix]
      have : (p0 == c) = false := by simp; omega
      rw [this]; rfl)]
    exact ih s (fun x hx => h x (List.mem_cons_of_mem _ hx))

theorem findSub_skip_digits (p0 : Nat) (pat : Bytes) (n : Nat) (s : Bytes) (hp : p0 < 48 ∨ 57 < p0) :
    findSub (p0 :: pat) (decDigits n ++ s) = findSub (p0 :: pat) s :=
  findSub_skip p0 pat _ s (fun c hc => by have := (decDigits_digits n).1 c hc; omega)

/-- `TL="` does not occur inside a printed tag -/
theorem findSub_TL_tagString (tag : Nat) (s : Bytes) :
    findSub [84, 76, 61, 34] (tagString tag ++ s) = findSub [84, 76, 61, 34] s := by
  unfold tagString
  split <;>
  · simp only [List.append_assoc, List.cons_append, List.nil_append]
    simp only [findSub, isPrefix, Nat.reduceBEq, Bool.false_and, Bool.true_and, Bool.false_eq_true, if_false]
    rw [findSub_skip_digits _ _ _ _ (by omega)]
    simp [findSub, isPrefix]

/-- `V="` does not occur inside a printed tag -/
theorem findSub_V_tagString (tag : Nat) (s : Bytes) :
    findSub [86, 61, 34] (tagString tag ++ s) = findSub [86, 61, 34] s := by
  unfold tagString
  split <;>
  · simp only [List.append_assoc, List.cons_append, List.nil_append]
    simp only [findSub, isPrefix, Nat.reduceBEq, Bool.false_and, Bool.true_and, Bool.false_eq_true, if_false]
    rw [findSub_skip_digits _ _ _ _ (by omega)]
    simp [findSub, isPrefix]

/-! ### the tag attribute -/

theorem decDigits_cons (n : Nat) : ∃ d ds, decDigits n = d :: ds ∧ 48 ≤ d ∧ d ≤ 57 := by
  obtain ⟨hd, hne⟩ := decDigits_digits n
  cases h : decDigits n with
  | nil => exact absurd h hne
  | cons d ds => exact ⟨d, ds, rfl, hd d (by rw [h]; simp)⟩

theorem seekDigits_digits (n : Nat) (rest : Bytes) :
    seekDigits (decDigits n ++ rest) = some (decDigits n ++ rest) := by
  obtain ⟨d, ds, h, h1, h2⟩ := decDigits_cons n
  rw [h]
  simp only [List.cons_append, seekDigits]
  rw [if_neg (by omega), if_pos (isDigit_of_range h1 h2)]

theorem tagClassOf_digits (n : Nat) (rest : Bytes) : tagClassOf (decDigits n ++ rest) = some 2 := by
  obtain ⟨d, ds, h, h1, h2⟩ := decDigits_cons n
  rw [h]
  simp only [List.cons_append, tagClassOf]
  rw [if_neg (by omega), if_neg (by omega), if_neg (by omega), if_pos (isDigit_of_range h1 h2)]

/-- what `process_line` reads from `T="[…]"`: the class and the position of the number -/
theorem tag_parse (tag : Nat) (rest : Bytes) :
    tagClassOf (List.drop 4 (84 :: 61 :: 34 :: (tagString tag ++ rest))) = some (tag % 4) ∧
    seekDigits (List.drop 4 (84 :: 61 :: 34 :: (tagString tag ++ rest)))
      = some (decDigits (tag / 4) ++ 93 :: rest) := by
  unfold tagString
  split
  · rename_i h
    simp only [List.append_assoc, List.cons_append, List.nil_append, List.drop_succ_cons, List.drop_zero]
    refine ⟨by simp [tagClassOf, h], ?_⟩
    simp only [seekDigits, isDigit, Nat.reduceLeDiff, decide_false, decide_true, Bool.false_and, Bool.and_false,
      Bool.false_eq_true, if_false, Nat.reduceEqDiff]
    exact seekDigits_digits _ _
  · rename_i h
    simp only [List.append_assoc, List.cons_append, List.nil_append, List.drop_succ_cons, List.drop_zero]
    refine ⟨by simp [tagClassOf, h], ?_⟩
    simp only [seekDigits, isDigit, Nat.reduceLeDiff, decide_false, decide_true, Bool.false_and, Bool.and_false,
      Bool.false_eq_true, if_false, Nat.reduceEqDiff]
    exact seekDigits_digits _ _
  · rename_i h
    simp only [List.append_assoc, List.cons_append, List.nil_append, List.drop_succ_cons, List.drop_zero]
    refine ⟨by rw [tagClassOf_digits, h], ?_⟩
    exact seekDigits_digits _ _
  · rename_i h0 h1 h2
    have h3 : tag % 4 = 3 := by
      have := Nat.mod_lt tag (show 0 < 4 by omega)
      by_cases a0 : tag % 4 = 0
      · exact (h0 a0).elim
      by_cases a1 : tag % 4 = 1
      · exact (h1 a1).elim
      by_cases a2 : tag % 4 = 2
      · exact (h2 a2).elim
      omega
    simp only [List.append_assoc, List.cons_append, List.nil_append, List.drop_succ_cons, List.drop_zero]
    refine ⟨by simp [tagClassOf, h3], ?_⟩
    simp only [seekDigits, isDigit, Nat.reduceLeDiff, decide_false, decide_true, Bool.false_and, Bool.and_false,
      Bool.false_eq_true, if_false, Nat.reduceEqDiff]
    exact seekDigits_digits _ _

/-! ### the value of a primitive TLV -/

theorem hexVal_hexLower (x : Nat) (h : x < 16) : Impl.Enber.hexVal (hexLower x) = some x := by
  unfold hexLower Impl.Enber.hexVal
  by_cases h10 : x < 10
  · rw [if_pos h10, if_pos (by omega)]; congr 1; omega
  · rw [if_neg h10, if_neg (by omega), if_neg (by omega), if_pos (by omega)]; congr 1; omega

theorem valueLoop_entities : ∀ (content : Bytes) (fuel : Nat) (acc : Bytes) (len : Nat) (rest : Bytes),
    (∀ b ∈ content, b < 256) → content.length + 1 ≤ fuel →
    valueLoop fuel (content.flatMap hexEntity ++ 60 :: rest) acc len
      = (content.reverse ++ acc, len + content.length, none) := by
  intro content
  induction content with
  | nil =>
    intro fuel acc len rest _ hf
    obtain ⟨f, rfl⟩ : ∃ f, fuel = f + 1 := ⟨fuel - 1, by simp at hf; omega⟩
    simp [valueLoop]
  | cons b content ih =>
    intro fuel acc len rest hb hf
    obtain ⟨f, rfl⟩ : ∃ f, fuel = f + 1 := ⟨fuel - 1, by simp at hf; omega⟩
    have hb256 := hb b (by simp)
    simp only [List.flatMap_cons, hexEntity, List.cons_append, List.nil_append, valueLoop]
    rw [if_neg (by omega), if_neg (by omega)]
    try simp only []
    rw [if_neg (by omega)]
    simp only [hexVal_hexLower _ (Nat.mod_lt _ (by omega : 0 < 16))]
    rw [ih f _ _ rest (fun x hx => hb x (List.mem_cons_of_mem _ hx)) (by simp at hf; omega)]
    simp only [List.reverse_cons, List.append_assoc, List.cons_append, List.nil_append, List.length_cons]
    congr 2
    · congr 1; omega
    · omega

theorem setConstructed_ident (c n : Nat) (x : Bytes) :
    setConstructed (identOctets c false n ++ x) = identOctets c true n ++ x := by
  by_cases h : n ≤ 30
  · rw [identOctets_short h, identOctets_short h]
    simp only [Bool.false_eq_true, if_false, if_true, List.cons_append, List.nil_append, setConstructed]
    rw [if_neg (by omega)]; congr 1; omega
  · rw [identOctets_long h, identOctets_long h]
    simp only [Bool.false_eq_true, if_false, if_true, List.cons_append, setConstructed]
    rw [if_neg (by omega)]

/-! ### the opening tag of a line -/

/-- ` V="…"` -/
def vText (len : Int) : Bytes :=
  if len = -1 then [32, 86, 61, 34, 73, 110, 100, 101, 102, 105, 110, 105, 116, 101, 34]
  else [32, 86, 61, 34] ++ decInt len ++ [34]

/-- the characters from `<` up to (excluding) `>` of an opening tag printed by `print_TL` -/
def openTagPart (form off tl tag : Nat) (len : Int) : Bytes :=
  [60, form, 32, 79, 61, 34] ++ (decDigits off ++ ([34, 32] ++ ([84, 61, 34] ++ (tagString tag ++ ([34, 32]
    ++ ([84, 76, 61, 34] ++ (decDigits tl ++ ([34] ++ (vText len ++ attrA tag)))))))))

theorem render_opn (level : Nat) (constr : Bool) (off tl tag : Nat) (len : Int) :
    render (.opn level constr off tl tag len)
      = indent level ++ openTagPart (formLetter constr len) off tl tag len := by
  simp [render, openTagPart, vText, List.append_assoc]

theorem tagChars_vText (v : Nat) : TagChars (vText (v : Int)) := by
  unfold vText
  rw [if_neg (by omega)]
  have : decInt (v : Int) = decDigits v := by
    unfold decInt; rw [if_neg (by omega)]; simp
  rw [this]
  exact ((tagChars_of_decide (l := [32, 86, 61, 34]) (by decide)).append (tagChars_decDigits v)).append
    (tagChars_of_decide (by decide))

theorem tagChars_vText_indef : TagChars (vText (-1)) := by
  unfold vText; rw [if_pos rfl]; exact tagChars_of_decide (by decide)

theorem tagChars_openTagPart (form off tl tag : Nat) (len : Int) (hform : form = 80 ∨ form = 67 ∨ form = 73)
    (hv : TagChars (vText len)) : TagChars (openTagPart form off tl tag len) := by
  unfold openTagPart
  have hf : TagChars [60, form, 32, 79, 61, 34] := by
    rcases hform with h | h | h <;> subst h <;> exact tagChars_of_decide (by decide)
  exact hf.append ((tagChars_decDigits off).append ((tagChars_of_decide (by decide)).append
    ((tagChars_of_decide (by decide)).append ((tagChars_tagString tag).append ((tagChars_of_decide (by decide)).append
    ((tagChars_of_decide (by decide)).append ((tagChars_decDigits tl).append ((tagChars_of_decide (by decide)).append
    (hv.append (tagChars_attrA tag))))))))))

theorem tagString_head (tag : Nat) : ∃ w, tagString tag = 91 :: w := by
  unfold tagString; split <;> exact ⟨_, rfl⟩

theorem vText_last (len : Int) : ∃ pre, vText len = pre ++ [34] := by
  unfold vText; split
  · exact ⟨[32, 86, 61, 34, 73, 110, 100, 101, 102, 105, 110, 105, 116, 101], rfl⟩
  · exact ⟨[32, 86, 61, 34] ++ decInt len, by simp⟩

theorem attrA_last (tag : Nat) : attrA tag = [] ∨ ∃ pre, attrA tag = pre ++ [34] := by
  unfold attrA; split
  · split
    · right; exact ⟨_, rfl⟩
    · left; rfl
  · left; rfl

theorem openTagPart_last (form off tl tag : Nat) (len : Int) :
    (openTagPart form off tl tag len).getLast? = some 34 := by
  obtain ⟨pv, hpv⟩ := vText_last len
  have h : ∃ P, openTagPart form off tl tag len = P ++ [34] := by
    unfold openTagPart
    rcases attrA_last tag with ha | ⟨pa, ha⟩
    · rw [ha, hpv]
      exact ⟨[60, form, 32, 79, 61, 34] ++ (decDigits off ++ ([34, 32] ++ ([84, 61, 34] ++ (tagString tag ++ ([34, 32]
        ++ ([84, 76, 61, 34] ++ (decDigits tl ++ ([34] ++ pv)))))))), by simp [List.append_assoc]⟩
    · rw [ha]
      exact ⟨[60, form, 32, 79, 61, 34] ++ (decDigits off ++ ([34, 32] ++ ([84, 61, 34] ++ (tagString tag ++ ([34, 32]
        ++ ([84, 76, 61, 34] ++ (decDigits tl ++ ([34] ++ (vText len ++ pa))))))))), by simp [List.append_assoc]⟩
  obtain ⟨P, hP⟩ := h
  rw [hP]
  simp

/-- the three `strstr` calls of `process_line` on an opening tag printed by unber -/
theorem findSub_T_open (form off tl tag : Nat) (len : Int) (hform : form = 80 ∨ form = 67 ∨ form = 73) :
    findSub [84, 61, 34, 91] (openTagPart form off tl tag len)
      = some (84 :: 61 :: 34 :: (tagString tag ++ ([34, 32] ++ ([84, 76, 61, 34] ++ (decDigits tl ++ ([34]
          ++ (vText len ++ attrA tag))))))) := by
  unfold openTagPart
  rw [findSub_skip 84 _ [60, form, 32, 79, 61, 34] _ (by intro c hc; simp at hc; omega),
    findSub_skip_digits _ _ _ _ (by omega),
    findSub_skip 84 _ [34, 32] _ (by intro c hc; simp at hc; omega)]
  obtain ⟨w, hw⟩ := tagString_head tag
  simp only [List.cons_append, List.nil_append]
  rw [hw]
  exact findSub_hit _ _ _ (by simp [isPrefix])

theorem findSub_TL_open (form off tl tag : Nat) (len : Int) (hform : form = 80 ∨ form = 67 ∨ form = 73) :
    findSub [84, 76, 61, 34] (openTagPart form off tl tag len)
      = some (84 :: 76 :: 61 :: 34 :: (decDigits tl ++ ([34] ++ (vText len ++ attrA tag)))) := by
  unfold openTagPart
  rw [findSub_skip 84 _ [60, form, 32, 79, 61, 34] _ (by intro c hc; simp at hc; omega),
    findSub_skip_digits _ _ _ _ (by omega),
    findSub_skip 84 _ [34, 32] _ (by intro c hc; simp at hc; omega)]
  simp only [List.cons_append, List.nil_append]
  rw [findSub_miss _ _ _ (by simp [isPrefix]), findSub_miss _ _ _ (by simp [isPrefix]),
    findSub_miss _ _ _ (by simp [isPrefix]), findSub_TL_tagString,
    findSub_miss _ _ _ (by simp [isPrefix]), findSub_miss _ _ _ (by simp [isPrefix])]
  exact findSub_hit _ _ _ (by simp [isPrefix])

theorem findSub_V_open (form off tl tag v : Nat) (hform : form = 80 ∨ form = 67 ∨ form = 73) :
    findSub [86, 61, 34] (openTagPart form off tl tag (Int.ofNat v))
      = some (86 :: 61 :: 34 :: (decDigits v ++ ([34] ++ attrA tag))) := by
  unfold openTagPart
  rw [findSub_skip 86 _ [60, form, 32, 79, 61, 34] _ (by intro c hc; simp at hc; omega),
    findSub_skip_digits _ _ _ _ (by omega),
    findSub_skip 86 _ [34, 32] _ (by intro c hc; simp at hc; omega),
    findSub_skip 86 _ [84, 61, 34] _ (by intro c hc; simp at hc; omega),
    findSub_V_tagString,
    findSub_skip 86 _ [34, 32] _ (by intro c hc; simp at hc; omega),
    findSub_skip 86 _ [84, 76, 61, 34] _ (by intro c hc; simp at hc; omega),
    findSub_skip_digits _ _ _ _ (by omega),
    findSub_skip 86 _ [34] _ (by intro c hc; simp at hc; omega)]
  unfold vText
  rw [if_neg (by simp)]
  have : decInt (Int.ofNat v) = decDigits v := by
    unfold decInt; rw [if_neg (by simp)]; simp
  rw [this]
  simp only [List.cons_append, List.nil_append, List.append_assoc]
  rw [findSub_miss _ _ _ (by simp [isPrefix])]
  exact findSub_hit _ _ _ (by simp [isPrefix])

theorem isDigit_34 : isDigit 34 = false := by decide
theorem isDigit_93 : isDigit 93 = false := by decide

/-- `process_line` reads back TL, V and the tag from an opening tag with a definite length -/
theorem parseAttrs_open_def (cc form off tl tag v : Nat) (hcc : cc ≠ 2)
    (hform : form = 80 ∨ form = 67 ∨ form = 73) (htl : 2 ≤ tl ∧ tl < 2 ^ 63) (hv : v < 2 ^ 63)
    (htag : tag / 4 < 2 ^ 30) :
    parseAttrs cc (openTagPart form off tl tag (Int.ofNat v)) = .ok (tl, v, tag) := by
  unfold parseAttrs
  rw [openTagPart_last, if_neg (by simp), findSub_T_open _ _ _ _ _ hform, findSub_TL_open _ _ _ _ _ hform,
    findSub_V_open _ _ _ _ _ hform]
  simp only [Option.isNone_some, Bool.false_eq_true, false_and, if_false, if_neg hcc]
  have e1 : List.drop 4 (84 :: 76 :: 61 :: 34 :: (decDigits tl ++ ([34] ++ (vText (Int.ofNat v) ++ attrA tag))))
      = decDigits tl ++ 34 :: (vText (Int.ofNat v) ++ attrA tag) := by simp
  have e2 : List.drop 3 (86 :: 61 :: 34 :: (decDigits v ++ ([34] ++ attrA tag)))
      = decDigits v ++ 34 :: attrA tag := by simp
  rw [e1, e2, strtoul_decDigits tl 34 _ (by omega) isDigit_34, strtoul_decDigits v 34 _ (by omega) isDigit_34]
  simp only []
  rw [if_neg (by simp only [Bool.false_eq_true, false_or]; omega)]
  obtain ⟨hcls, hseek⟩ := tag_parse tag ([34, 32] ++ ([84, 76, 61, 34] ++ (decDigits tl ++ ([34]
          ++ (vText (Int.ofNat v) ++ attrA tag)))))
  rw [hcls, hseek]
  simp only []
  rw [strtoul_decDigits (tag / 4) 93 _ (by omega) isDigit_93]
  simp only []
  rw [if_neg (by simp only [Bool.false_eq_true, or_false]; omega)]
  congr 3
  omega

/-- … and from the opening tag of an indefinite-length TLV (`V="Indefinite"` is not parsed) -/
theorem parseAttrs_open_indef (off tl tag : Nat) (htl : 2 ≤ tl ∧ tl < 2 ^ 63) (htag : tag / 4 < 2 ^ 30) :
    parseAttrs 2 (openTagPart 73 off tl tag (-1)) = .ok (tl, 0, tag) := by
  unfold parseAttrs
  rw [openTagPart_last, if_neg (by simp), findSub_T_open _ _ _ _ _ (by omega), findSub_TL_open _ _ _ _ _ (by omega)]
  simp only [ne_eq, not_true_eq_false, and_false, if_false, if_true]
  have e1 : List.drop 4 (84 :: 76 :: 61 :: 34 :: (decDigits tl ++ ([34] ++ (vText (-1) ++ attrA tag))))
      = decDigits tl ++ 34 :: (vText (-1) ++ attrA tag) := by simp
  rw [e1, strtoul_decDigits tl 34 _ (by omega) isDigit_34]
  simp only []
  rw [if_neg (by simp only [Bool.false_eq_true, false_or]; omega)]
  obtain ⟨hcls, hseek⟩ := tag_parse tag ([34, 32] ++ ([84, 76, 61, 34] ++ (decDigits tl ++ ([34]
          ++ (vText (-1) ++ attrA tag)))))
  rw [hcls, hseek]
  simp only []
  rw [strtoul_decDigits (tag / 4) 93 _ (by omega) isDigit_93]
  simp only []
  rw [if_neg (by simp only [Bool.false_eq_true, or_false]; omega)]
  congr 3
  omega

/-! ### encoding the TL (and V) of a line -/

theorem identOctets_length_le (c : Nat) (k : Bool) (n : Nat) (hn : n < 2 ^ 30) : (identOctets c k n).length ≤ 6 := by
  by_cases h : n ≤ 30
  · rw [identOctets_short h]; simp
  · rw [identOctets_long h]
    simp only [List.length_cons, List.length_append, List.length_nil]
    have h1 : n / 128 < 2 ^ 23 := by omega
    generalize n / 128 = m at h1
    by_cases m0 : m = 0
    · subst m0; simp [contOctets_zero]
    rw [contOctets_pos m0]
    by_cases m1 : m / 128 = 0
    · rw [m1]; simp [contOctets_zero]
    rw [contOctets_pos m1]
    by_cases m2 : m / 128 / 128 = 0
    · rw [m2]; simp [contOctets_zero]
    rw [contOctets_pos m2]
    by_cases m3 : m / 128 / 128 / 128 = 0
    · rw [m3]; simp [contOctets_zero]
    rw [contOctets_pos m3]
    have m4 : m / 128 / 128 / 128 / 128 = 0 := by omega
    rw [m4]; simp [contOctets_zero]

theorem flatMap_hexEntity_length (content : Bytes) : (content.flatMap hexEntity).length = 6 * content.length := by
  induction content with
  | nil => simp
  | cons b content ih => simp only [List.flatMap_cons, List.length_append, ih, hexEntity, List.length_cons, List.length_nil]; omega

theorem emitTLV_prim (c n : Nat) (lf : LenForm) (content rest : Bytes) (hc : c < 4) (hn : n < 2 ^ 30)
    (hmin : lf.minimal content.length = true) (hv : content.length < 2 ^ 62)
    (hb : ∀ b ∈ content, b < 256) :
    emitTLV 0 ((identOctets c false n).length + (lenOctets lf content.length).length) content.length
        (tagOf c n) (content.flatMap hexEntity ++ 60 :: rest)
      = ⟨identOctets c false n ++ lenOctets lf content.length ++ content, none⟩ := by
  unfold emitTLV tagOf
  have hid6 := identOctets_length_le c false n hn
  rw [tagSerialize_ident c n hc hn]
  simp only [Nat.zero_ne_one, OfNat.zero_ne_ofNat, if_false]
  rw [lenSerialize_minimal lf content.length _ hmin hv (by omega)]
  simp only [ne_eq, not_true_eq_false, and_false, if_false, not_false_eq_true]
  rw [valueLoop_entities content _ [] 0 rest hb (by
    simp only [List.length_append, flatMap_hexEntity_length, List.length_cons]; omega)]
  simp

theorem emitTLV_cons (c n : Nat) (lf : LenForm) (v : Nat) (after : Bytes) (hc : c < 4) (hn : n < 2 ^ 30)
    (hmin : lf.minimal v = true) (hv : v < 2 ^ 62) :
    emitTLV 1 ((identOctets c true n).length + (lenOctets lf v).length) v (tagOf c n) after
      = ⟨identOctets c true n ++ lenOctets lf v, none⟩ := by
  unfold emitTLV tagOf
  have hid6 := identOctets_length_le c false n hn
  have hlen : (identOctets c true n).length = (identOctets c false n).length := by
    by_cases h : n ≤ 30
    · rw [identOctets_short h, identOctets_short h]; simp
    · rw [identOctets_long h, identOctets_long h]; simp
  rw [tagSerialize_ident c n hc hn]
  simp only [OfNat.one_ne_ofNat, if_false]
  rw [lenSerialize_minimal lf v _ hmin hv (by omega), hlen]
  simp only [ne_eq, not_true_eq_false, and_false, if_false, not_false_eq_true, Nat.one_ne_zero, if_true]
  rw [setConstructed_ident]

theorem emitTLV_indef (c n : Nat) (after : Bytes) (hc : c < 4) (hn : n < 2 ^ 30) :
    emitTLV 2 ((identOctets c true n).length + 1) 0 (tagOf c n) after
      = ⟨identOctets c true n ++ [128], none⟩ := by
  unfold emitTLV tagOf
  have hlen : (identOctets c true n).length = (identOctets c false n).length := by
    by_cases h : n ≤ 30
    · rw [identOctets_short h, identOctets_short h]; simp
    · rw [identOctets_long h, identOctets_long h]; simp
  rw [tagSerialize_ident c n hc hn]
  simp only [if_true, hlen]
  simp only [ne_eq, not_true_eq_false, and_false, if_false, not_false_eq_true, OfNat.ofNat_ne_zero, if_true]
  rw [setConstructed_ident]

/-! ### whole lines -/

theorem skipWs_indent (level : Nat) (l : Bytes) : skipWs (indent level ++ l) = skipWs l := by
  induction level with
  | zero => simp [indent]
  | succ k ih => simp [indent, skipWs, ih]

theorem openTagPart_cons (form off tl tag : Nat) (len : Int) :
    ∃ x, openTagPart form off tl tag len = 60 :: form :: x := ⟨_, rfl⟩

/-- a line `<P O=… T=… TL=… V=…>&#x…;…</P>` -/
theorem processLine_prim (level off : Nat) (c n : Nat) (lf : LenForm) (content : Bytes)
    (hc : c < 4) (hn : n < 2 ^ 30) (hmin : lf.minimal content.length = true) (hv : content.length < 2 ^ 62)
    (hb : ∀ b ∈ content, b < 256) :
    processLine (indent level ++ openTagPart 80 off
        ((identOctets c false n).length + (lenOctets lf content.length).length) (tagOf c n) (Int.ofNat content.length)
        ++ 62 :: (content.flatMap hexEntity ++ [60, 47, 80, 62, 10]))
      = ⟨identOctets c false n ++ lenOctets lf content.length ++ content, none⟩ := by
  have hid := identOctets_length_pos c false n
  have hid6 := identOctets_length_le c false n hn
  have hll : 1 ≤ (lenOctets lf content.length).length ∧ (lenOctets lf content.length).length ≤ 9 := by
    rw [lenOctets_length]
    cases lf with
    | short => simp
    | long k =>
      simp only [LenForm.minimal, Bool.and_eq_true, decide_eq_true_eq] at hmin
      have : k ≤ 8 := by
        by_cases h : k ≤ 8
        · exact h
        · exfalso
          have : 256 ^ 8 ≤ 256 ^ (k - 1) := Nat.pow_le_pow_right (by norm_num) (by omega)
          norm_num at this hv; omega
      simp only; omega
  unfold processLine
  rw [List.append_assoc, skipWs_indent]
  obtain ⟨x, hx⟩ := openTagPart_cons 80 off ((identOctets c false n).length + (lenOctets lf content.length).length)
    (tagOf c n) (Int.ofNat content.length)
  have hsw : ∀ l, skipWs (60 :: l) = 60 :: l := fun l => by simp [skipWs]
  have hscan := scanClose_tagChars _ [] (content.flatMap hexEntity ++ [60, 47, 80, 62, 10])
    (tagChars_openTagPart 80 off ((identOctets c false n).length + (lenOctets lf content.length).length)
      (tagOf c n) (Int.ofNat content.length) (by omega) (tagChars_vText _))
  rw [hx] at hscan ⊢
  simp only [List.cons_append] at hscan ⊢
  rw [hsw]
  simp only []
  rw [hscan]
  simp only [List.reverse_nil, List.nil_append, List.getElem?_cons_succ, List.getElem?_cons_zero]
  unfold encodeTag
  rw [← hx, parseAttrs_open_def 0 80 off _ (tagOf c n) content.length (by omega) (by omega) (by omega) (by omega)
    (by unfold tagOf; omega)]
  simp only []
  exact emitTLV_prim c n lf content [47, 80, 62, 10] hc hn hmin hv hb

theorem lenOctets_minimal_le (lf : LenForm) (v : Nat) (hmin : lf.minimal v = true) (hv : v < 2 ^ 62) :
    1 ≤ (lenOctets lf v).length ∧ (lenOctets lf v).length ≤ 9 := by
  rw [lenOctets_length]
  cases lf with
  | short => simp
  | long k =>
    simp only [LenForm.minimal, Bool.and_eq_true, decide_eq_true_eq] at hmin
    have : k ≤ 8 := by
      by_cases h : k ≤ 8
      · exact h
      · exfalso
        have : 256 ^ 8 ≤ 256 ^ (k - 1) := Nat.pow_le_pow_right (by norm_num) (by omega)
        norm_num at this hv; omega
    simp only; omega

/-- a line `<C O=… T=… TL=… V=…>` -/
theorem processLine_consOpen (level off : Nat) (c n : Nat) (lf : LenForm) (v : Nat)
    (hc : c < 4) (hn : n < 2 ^ 30) (hmin : lf.minimal v = true) (hv : v < 2 ^ 62) :
    processLine (indent level ++ openTagPart 67 off
        ((identOctets c true n).length + (lenOctets lf v).length) (tagOf c n) (Int.ofNat v) ++ [62, 10])
      = ⟨identOctets c true n ++ lenOctets lf v, none⟩ := by
  have hid := identOctets_length_pos c true n
  have hid6 := identOctets_length_le c true n hn
  have hll := lenOctets_minimal_le lf v hmin hv
  unfold processLine
  rw [List.append_assoc, skipWs_indent]
  obtain ⟨x, hx⟩ := openTagPart_cons 67 off ((identOctets c true n).length + (lenOctets lf v).length)
    (tagOf c n) (Int.ofNat v)
  have hsw : ∀ l, skipWs (60 :: l) = 60 :: l := fun l => by simp [skipWs]
  have hscan := scanClose_tagChars _ [] [10]
    (tagChars_openTagPart 67 off ((identOctets c true n).length + (lenOctets lf v).length)
      (tagOf c n) (Int.ofNat v) (by omega) (tagChars_vText _))
  rw [hx] at hscan ⊢
  simp only [List.cons_append] at hscan ⊢
  rw [hsw]
  simp only []
  rw [hscan]
  simp only [List.reverse_nil, List.nil_append, List.getElem?_cons_succ, List.getElem?_cons_zero]
  unfold encodeTag
  rw [← hx, parseAttrs_open_def 1 67 off _ (tagOf c n) v (by omega) (by omega) (by omega) (by omega)
    (by unfold tagOf; omega)]
  simp only []
  exact emitTLV_cons c n lf v [10] hc hn hmin hv

/-- a line `<I O=… T=… TL=… V="Indefinite">` -/
theorem processLine_indefOpen (level off : Nat) (c n : Nat) (hc : c < 4) (hn : n < 2 ^ 30) :
    processLine (indent level ++ openTagPart 73 off ((identOctets c true n).length + 1) (tagOf c n) (-1) ++ [62, 10])
      = ⟨identOctets c true n ++ [128], none⟩ := by
  have hid := identOctets_length_pos c true n
  have hid6 := identOctets_length_le c true n hn
  unfold processLine
  rw [List.append_assoc, skipWs_indent]
  obtain ⟨x, hx⟩ := openTagPart_cons 73 off ((identOctets c true n).length + 1) (tagOf c n) (-1)
  have hsw : ∀ l, skipWs (60 :: l) = 60 :: l := fun l => by simp [skipWs]
  have hscan := scanClose_tagChars _ [] [10]
    (tagChars_openTagPart 73 off ((identOctets c true n).length + 1) (tagOf c n) (-1) (by omega) tagChars_vText_indef)
  rw [hx] at hscan ⊢
  simp only [List.cons_append] at hscan ⊢
  rw [hsw]
  simp only []
  rw [hscan]
  simp only [List.reverse_nil, List.nil_append, List.getElem?_cons_succ, List.getElem?_cons_zero]
  unfold encodeTag
  rw [← hx, parseAttrs_open_indef off _ (tagOf c n) (by omega) (by unfold tagOf; omega)]
  simp only []
  exact emitTLV_indef c n [10] hc hn

/-- the characters from `<` up to (excluding) `>` of a closing tag printed by `print_TL` -/
def closeTagPart (form off tlen tag : Nat) (len : Int) (esize : Nat) : Bytes :=
  [60, 47, form] ++ ([32, 79, 61, 34] ++ (decDigits off ++ ([34] ++ ([32, 84, 61, 34] ++ (tagString tag ++ ([34]
    ++ ((if len = -1 then [32, 84, 76, 61, 34] ++ decDigits tlen ++ [34] else [])
    ++ (attrA tag ++ ([32, 76, 61, 34] ++ (decDigits esize ++ [34]))))))))))

theorem render_cls (level : Nat) (off tlen tag : Nat) (len : Int) (esize : Nat) :
    render (.cls level true off tlen tag len esize)
      = indent level ++ closeTagPart (formLetter true len) off tlen tag len esize ++ [62, 10] := by
  simp [render, closeTagPart, List.append_assoc]

theorem tagChars_closeTagPart (form off tlen tag : Nat) (len : Int) (esize : Nat)
    (hform : form = 67 ∨ form = 73) : TagChars (closeTagPart form off tlen tag len esize) := by
  unfold closeTagPart
  have hf : TagChars [60, 47, form] := by
    rcases hform with h | h <;> subst h <;> exact tagChars_of_decide (by decide)
  have hopt : TagChars (if len = -1 then [32, 84, 76, 61, 34] ++ decDigits tlen ++ [34] else []) := by
    split
    · exact ((tagChars_of_decide (by decide)).append (tagChars_decDigits tlen)).append (tagChars_of_decide (by decide))
    · intro c hc; simp at hc
  exact hf.append ((tagChars_of_decide (by decide)).append ((tagChars_decDigits off).append
    ((tagChars_of_decide (by decide)).append ((tagChars_of_decide (by decide)).append ((tagChars_tagString tag).append
    ((tagChars_of_decide (by decide)).append (hopt.append ((tagChars_attrA tag).append
    ((tagChars_of_decide (by decide)).append ((tagChars_decDigits esize).append (tagChars_of_decide (by decide))))))))))))

/-- a closing line `</C …>` writes nothing, `</I …>` writes the end-of-contents octets -/
theorem processLine_close (level form off tlen tag : Nat) (len : Int) (esize : Nat) (hform : form = 67 ∨ form = 73) :
    processLine (indent level ++ closeTagPart form off tlen tag len esize ++ [62, 10])
      = ⟨if form = 73 then [0, 0] else [], none⟩ := by
  unfold processLine
  rw [List.append_assoc, skipWs_indent]
  have hsw : ∀ l, skipWs (60 :: l) = 60 :: l := fun l => by simp [skipWs]
  have hscan := scanClose_tagChars _ [] [10] (tagChars_closeTagPart form off tlen tag len esize hform)
  have hx : ∃ x, closeTagPart form off tlen tag len esize = 60 :: 47 :: form :: x := ⟨_, rfl⟩
  obtain ⟨x, hx⟩ := hx
  rw [hx] at hscan ⊢
  simp only [List.cons_append] at hscan ⊢
  rw [hsw]
  simp only []
  rw [hscan]
  simp only [List.reverse_nil, List.nil_append, List.getElem?_cons_succ, List.getElem?_cons_zero]
  rcases hform with h | h <;> subst h <;> simp

/-! ### lines of a text -/

def NoNl (l : Bytes) : Prop := ∀ c ∈ l, c ≠ 10

theorem NoNl.append {a b : Bytes} (ha : NoNl a) (hb : NoNl b) : NoNl (a ++ b) := by
  intro c hc
  rcases List.mem_append.mp hc with h | h
  · exact ha c h
  · exact hb c h

theorem TagChars.noNl {l : Bytes} (h : TagChars l) : NoNl l := by
  intro c hc; have := h c hc; unfold TagChar at this; omega

theorem noNl_indent (level : Nat) : NoNl (indent level) := by
  induction level with
  | zero => intro c hc; simp [indent] at hc
  | succ k ih =>
    intro c hc
    simp only [indent, List.mem_append] at hc
    rcases hc with h | h
    · simp at h; omega
    · exact ih c h

theorem noNl_entities (content : Bytes) (hb : ∀ b ∈ content, b < 256) : NoNl (content.flatMap hexEntity) := by
  intro c hc
  simp only [List.mem_flatMap] at hc
  obtain ⟨b, hbm, hcb⟩ := hc
  have := hb b hbm
  simp only [hexEntity, hexLower, List.mem_cons, List.mem_nil_iff, or_false] at hcb
  rcases hcb with h | h | h | h | h | h
  · omega
  · omega
  · omega
  · subst h; split <;> omega
  · subst h; split <;> omega
  · omega

theorem splitLines_line : ∀ (l rest cur : Bytes), NoNl l →
    splitLines (l ++ 10 :: rest) cur = (cur.reverse ++ l ++ [10]) :: splitLines rest [] := by
  intro l
  induction l with
  | nil => intro rest cur _; simp [splitLines]
  | cons c l ih =>
    intro rest cur h
    have hc := h c (by simp)
    simp only [List.cons_append, splitLines]
    rw [if_neg hc, ih rest (c :: cur) (fun x hx => h x (List.mem_cons_of_mem _ hx))]
    simp

/-- one complete line that `process_line` accepts, followed by more text -/
theorem enber_line (l rest o : Bytes) (h : NoNl l) (hp : processLine (l ++ [10]) = ⟨o, none⟩) :
    enber (l ++ 10 :: rest) = ⟨o ++ (enber rest).out, (enber rest).err⟩ := by
  unfold enber
  rw [splitLines_line l rest [] h]
  simp only [List.reverse_nil, List.nil_append, runLines, hp]

theorem enber_nil : enber [] = ⟨[], none⟩ := by
  simp [enber, splitLines, runLines]

/-! ### the forest -/

/-- enber on the text printed for `t`, followed by any further text -/
def EnbG (t : Tlv) : Prop :=
  t.wf = true → t.inDomain = true → t.minimalLengths = true →
  ∀ (level off : Nat) (rest : Bytes),
    enber (renderAll (t.expected level off) ++ rest) = ⟨t.encode ++ (enber rest).out, (enber rest).err⟩

theorem tagOk_lt (c n : Nat) (h : tagOk c n = true) : c < 4 := by
  simp [tagOk] at h; exact h.1

theorem enb_prim (c n : Nat) (lf : LenForm) (content : Bytes) : EnbG (.prim c n lf content) := by
  intro hwf hdom hmin level off rest
  simp only [Tlv.wf, Bool.and_eq_true, List.all_eq_true, decide_eq_true_eq] at hwf
  obtain ⟨⟨htag, _⟩, hb⟩ := hwf
  simp only [Tlv.inDomain, Bool.and_eq_true, decide_eq_true_eq] at hdom
  obtain ⟨⟨hn, _⟩, hv⟩ := hdom
  simp only [Tlv.minimalLengths] at hmin
  have hc := tagOk_lt c n htag
  simp only [Tlv.expected, Tlv.headerLen, Tlv.encode, renderAll, List.flatMap_cons, List.flatMap_nil,
    List.append_nil, render_opn]
  have hf : formLetter false (content.length : Int) = 80 := by simp [formLetter]
  rw [hf]
  have hrv : render (.val content) = 62 :: content.flatMap hexEntity := rfl
  have hrc : ∀ a b d e f g, render (.cls a false b d e f g) = [60, 47, 80, 62, 10] := fun _ _ _ _ _ _ => by
    simp [render]
  rw [hrv, hrc]
  have hre : (indent level ++ openTagPart 80 off ((identOctets c false n).length + (lenOctets lf content.length).length)
        (tagOf c n) (content.length : Int) ++ (62 :: content.flatMap hexEntity ++ [60, 47, 80, 62, 10])) ++ rest
      = (indent level ++ openTagPart 80 off ((identOctets c false n).length + (lenOctets lf content.length).length)
        (tagOf c n) (content.length : Int) ++ 62 :: (content.flatMap hexEntity ++ [60, 47, 80, 62])) ++ 10 :: rest := by
    simp [List.append_assoc]
  rw [hre]
  have hnl : NoNl (indent level ++ openTagPart 80 off ((identOctets c false n).length + (lenOctets lf content.length).length)
        (tagOf c n) (content.length : Int) ++ 62 :: (content.flatMap hexEntity ++ [60, 47, 80, 62])) := by
    refine ((noNl_indent level).append (TagChars.noNl (tagChars_openTagPart _ _ _ _ _ (by omega) (tagChars_vText _)))).append ?_
    intro x hx
    simp only [List.mem_cons, List.mem_append, List.mem_nil_iff, or_false] at hx
    rcases hx with h | h | h
    · omega
    · exact noNl_entities content hb x h
    · omega
  rw [enber_line _ rest _ hnl (by
    have := processLine_prim level off c n lf content hc hn hmin hv hb
    rw [← this]; congr 1; simp [List.append_assoc])]

theorem minimalList_cons (t : Tlv) (ts : List Tlv) :
    minimalList (t :: ts) = true ↔ t.minimalLengths = true ∧ minimalList ts = true := by
  simp [minimalList]

theorem renderAll_append (a b : List Out) : renderAll (a ++ b) = renderAll a ++ renderAll b := by
  simp [renderAll]

theorem renderAll_cons (o : Out) (os : List Out) : renderAll (o :: os) = render o ++ renderAll os := by
  simp [renderAll]

theorem renderAll_nil : renderAll [] = [] := rfl

theorem enb_list : ∀ (ts : List Tlv), (∀ t ∈ ts, EnbG t) →
    wfList ts = true → inDomainList ts = true → minimalList ts = true →
    ∀ (level off : Nat) (rest : Bytes),
      enber (renderAll (expectedList level off ts) ++ rest) = ⟨encodeList ts ++ (enber rest).out, (enber rest).err⟩ := by
  intro ts
  induction ts with
  | nil => intro _ _ _ _ level off rest; simp [expectedList, encodeList, renderAll]
  | cons t ts ih =>
    intro hE hwf hdom hmin level off rest
    simp only [wfList, Bool.and_eq_true] at hwf
    simp only [inDomainList, Bool.and_eq_true] at hdom
    rw [minimalList_cons] at hmin
    simp only [expectedList, encodeList, renderAll_append, List.append_assoc]
    rw [hE t (List.mem_cons_self ..) hwf.1 hdom.1 hmin.1 level off,
      ih (fun t' h => hE t' (List.mem_cons_of_mem _ h)) hwf.2 hdom.2 hmin.2]

theorem line_reassoc (A B X : Bytes) : A ++ (B ++ ([62, 10] ++ X)) = (A ++ B ++ [62]) ++ 10 :: X := by simp

theorem noNl_openLine (level form off tl tag : Nat) (len : Int) (hform : form = 80 ∨ form = 67 ∨ form = 73)
    (hv : TagChars (vText len)) : NoNl (indent level ++ openTagPart form off tl tag len ++ [62]) :=
  ((noNl_indent level).append (TagChars.noNl (tagChars_openTagPart _ _ _ _ _ hform hv))).append
    (by intro x hx; simp at hx; omega)

theorem noNl_closeLine (level form off tlen tag : Nat) (len : Int) (esize : Nat) (hform : form = 67 ∨ form = 73) :
    NoNl (indent level ++ closeTagPart form off tlen tag len esize ++ [62]) :=
  ((noNl_indent level).append (TagChars.noNl (tagChars_closeTagPart _ _ _ _ _ _ hform))).append
    (by intro x hx; simp at hx; omega)

theorem enb_cons (c n : Nat) (lf : LenForm) (ch : List Tlv) (hch : ∀ t ∈ ch, EnbG t) :
    EnbG (.cons c n lf ch) := by
  intro hwf hdom hmin level off rest
  simp only [Tlv.wf, Bool.and_eq_true] at hwf
  obtain ⟨⟨htag, _⟩, hwfc⟩ := hwf
  simp only [Tlv.inDomain, Bool.and_eq_true, decide_eq_true_eq] at hdom
  obtain ⟨⟨⟨hn, _⟩, hv⟩, hdomc⟩ := hdom
  simp only [Tlv.minimalLengths, Bool.and_eq_true] at hmin
  obtain ⟨hminl, hminc⟩ := hmin
  have hc := tagOk_lt c n htag
  simp only [Tlv.expected, Tlv.headerLen, Tlv.encode, renderAll_append, List.append_assoc]
  simp only [renderAll_cons, renderAll_nil, List.append_nil, render_opn, render_cls, List.append_assoc]
  have hf : formLetter true ((encodeList ch).length : Int) = 67 := by simp [formLetter]
  rw [hf]
  have hgt : render Out.gt = [62, 10] := rfl
  rw [hgt]
  -- first line
  rw [line_reassoc, enber_line _ _ _ (noNl_openLine _ _ _ _ _ _ (by omega) (tagChars_vText _)) (by
    have := processLine_consOpen level off c n lf (encodeList ch).length hc hn hminl hv
    rw [← this]; congr 1; simp [List.append_assoc])]
  -- children
  rw [enb_list ch hch hwfc hdomc hminc]
  -- closing line
  rw [line_reassoc, enber_line _ _ [] (noNl_closeLine _ _ _ _ _ _ _ (by omega)) (by
    have := processLine_close level 67 (off + ((identOctets c true n).length + (lenOctets lf (encodeList ch).length).length)
        + (encodeList ch).length) ((identOctets c true n).length + (lenOctets lf (encodeList ch).length).length) (tagOf c n)
        ((encodeList ch).length : Int) ((identOctets c true n).length + (lenOctets lf (encodeList ch).length).length
        + (encodeList ch).length) (by omega)
    simp only [Nat.reduceEqDiff, if_false] at this
    rw [← this]; congr 1; simp [List.append_assoc])]
  simp [List.append_assoc]

theorem enb_indef (c n : Nat) (ch : List Tlv) (hch : ∀ t ∈ ch, EnbG t) :
    EnbG (.indef c n ch) := by
  intro hwf hdom hmin level off rest
  simp only [Tlv.wf, Bool.and_eq_true] at hwf
  obtain ⟨htag, hwfc⟩ := hwf
  simp only [Tlv.inDomain, Bool.and_eq_true, decide_eq_true_eq] at hdom
  obtain ⟨hn, hdomc⟩ := hdom
  simp only [Tlv.minimalLengths] at hmin
  have hc := tagOk_lt c n htag
  simp only [Tlv.expected, Tlv.headerLen, Tlv.encode, renderAll_append, List.append_assoc]
  simp only [renderAll_cons, renderAll_nil, List.append_nil, render_opn, render_cls, List.append_assoc]
  have hf : formLetter true (-1) = 73 := by simp [formLetter]
  rw [hf]
  have hgt : render Out.gt = [62, 10] := rfl
  rw [hgt]
  rw [line_reassoc, enber_line _ _ _ (noNl_openLine _ _ _ _ _ _ (by omega) tagChars_vText_indef) (by
    have := processLine_indefOpen level off c n hc hn
    rw [← this]; congr 1; simp [List.append_assoc])]
  rw [enb_list ch hch hwfc hdomc hmin]
  rw [line_reassoc, enber_line _ _ [0, 0] (noNl_closeLine _ _ _ _ _ _ _ (by omega)) (by
    have := processLine_close level 73 (off + ((identOctets c true n).length + 1) + (encodeList ch).length) 2 0 (-1)
        ((identOctets c true n).length + 1 + (encodeList ch).length + 2) (by omega)
    simp only [if_true] at this
    rw [← this]; congr 1; simp [List.append_assoc])]
  simp [List.append_assoc]

/-- every TLV satisfies `EnbG` -/
theorem enbG_all : ∀ (t : Tlv), EnbG t := by
  intro t
  generalize hs : sizeOf t = s
  induction s using Nat.strongRecOn generalizing t with
  | _ s ih =>
    cases t with
    | prim c n lf content => exact enb_prim c n lf content
    | cons c n lf ch =>
      apply enb_cons
      intro t' ht'
      have := List.sizeOf_lt_of_mem ht'
      exact ih (sizeOf t') (by rw [← hs]; simp; omega) t' rfl
    | indef c n ch =>
      apply enb_indef
      intro t' ht'
      have := List.sizeOf_lt_of_mem ht'
      exact ih (sizeOf t') (by rw [← hs]; simp; omega) t' rfl

/-- enber applied to the text unber prints for a forest gives back the encoding -/
theorem enber_forest (ts : List Tlv) (hwf : wfList ts = true) (hdom : inDomainList ts = true)
    (hmin : minimalList ts = true) :
    enber (renderAll (expectedList 0 0 ts)) = ⟨encodeList ts, none⟩ := by
  have := enb_list ts (fun t _ => enbG_all t) hwf hdom hmin 0 0 []
  simpa [enber_nil] using this

/-! ### minimal lengths keep the TL within `tagbuf[32]` -/

theorem inDomainList_of (ts : List Tlv) (h : ∀ t ∈ ts, t.inDomain = true) : inDomainList ts = true := by
  induction ts with
  | nil => rfl
  | cons t ts ih =>
    simp only [inDomainList, Bool.and_eq_true]
    exact ⟨h t (List.mem_cons_self ..), ih (fun t' h' => h t' (List.mem_cons_of_mem _ h'))⟩

theorem inRangeList_mem {ts : List Tlv} (h : inRangeList ts = true) : ∀ t ∈ ts, t.inRange = true := by
  induction ts with
  | nil => intro t ht; simp at ht
  | cons t ts ih =>
    simp only [inRangeList, Bool.and_eq_true] at h
    intro t' ht'
    rcases List.mem_cons.mp ht' with e | e
    · rw [e]; exact h.1
    · exact ih h.2 t' e

theorem minimalList_mem {ts : List Tlv} (h : minimalList ts = true) : ∀ t ∈ ts, t.minimalLengths = true := by
  induction ts with
  | nil => intro t ht; simp at ht
  | cons t ts ih =>
    rw [minimalList_cons] at h
    intro t' ht'
    rcases List.mem_cons.mp ht' with e | e
    · rw [e]; exact h.1
    · exact ih h.2 t' e

theorem inDomain_of_minimal : ∀ (t : Tlv), t.inRange = true → t.minimalLengths = true → t.inDomain = true := by
  intro t
  generalize hs : sizeOf t = s
  induction s using Nat.strongRecOn generalizing t with
  | _ s ih =>
    intro hr hm
    cases t with
    | prim c n lf content =>
      simp only [Tlv.inRange, Bool.and_eq_true, decide_eq_true_eq] at hr
      simp only [Tlv.minimalLengths] at hm
      have h1 := identOctets_length_le c false n hr.1
      have h2 := lenOctets_minimal_le lf content.length hm hr.2
      simp only [Tlv.inDomain, Tlv.headerLen, Bool.and_eq_true, decide_eq_true_eq]
      exact ⟨⟨hr.1, by first | omega | exact decide_eq_true (by omega)⟩, hr.2⟩
    | cons c n lf ch =>
      simp only [Tlv.inRange, Bool.and_eq_true, decide_eq_true_eq] at hr
      simp only [Tlv.minimalLengths, Bool.and_eq_true] at hm
      have h1 := identOctets_length_le c true n hr.1.1
      have h2 := lenOctets_minimal_le lf (encodeList ch).length hm.1 hr.1.2
      simp only [Tlv.inDomain, Tlv.headerLen, Bool.and_eq_true, decide_eq_true_eq]
      refine ⟨⟨⟨hr.1.1, by first | omega | exact decide_eq_true (by omega)⟩, hr.1.2⟩, inDomainList_of ch (fun t' ht' => ?_)⟩
      have := List.sizeOf_lt_of_mem ht'
      exact ih (sizeOf t') (by rw [← hs]; simp; omega) t' rfl (inRangeList_mem hr.2 t' ht') (minimalList_mem hm.2 t' ht')
    | indef c n ch =>
      simp only [Tlv.inRange, Bool.and_eq_true, decide_eq_true_eq] at hr
      simp only [Tlv.minimalLengths] at hm
      simp only [Tlv.inDomain, Bool.and_eq_true, decide_eq_true_eq]
      refine ⟨hr.1, inDomainList_of ch (fun t' ht' => ?_)⟩
      have := List.sizeOf_lt_of_mem ht'
      exact ih (sizeOf t') (by rw [← hs]; simp; omega) t' rfl (inRangeList_mem hr.2 t' ht') (minimalList_mem hm t' ht')

theorem inDomainList_of_minimal (ts : List Tlv) (hr : inRangeList ts = true) (hm : minimalList ts = true) :
    inDomainList ts = true :=
  inDomainList_of ts (fun t ht => inDomain_of_minimal t (inRangeList_mem hr t ht) (minimalList_mem hm t ht))

end Asn1c.Proofs.Enber
