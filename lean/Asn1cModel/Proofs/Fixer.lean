import Asn1cModel.Impl.Fixer
import Asn1cModel.Spec.TagRules
/- Helper lemmas for C11 (tags part).  Property theorems live in Props/C11.lean. -/
namespace Asn1c.Proofs.Fixer
open Asn1c.Fix Asn1c.Impl.Fixer Asn1c.Spec.Fix

/-! ### universal tags: the C table is X.680 Table 1 -/

theorem univTag_uclass (t : Ty) (n : Nat) : univTag t = some n ↔ (uclass t = n ∧ n ≠ 0) := by
  cases t with
  | prim g p => cases p <;> simp [univTag, uclass] <;> omega
  | enum g r h a => simp [univTag, uclass]; omega
  | constr g k r h a => cases k <;> simp [univTag, uclass] <;> omega
  | seqOf g e => simp [univTag, uclass]; omega
  | ref g n' => simp [univTag, uclass]; omega

theorem uclass_zero (t : Ty) (h : uclass t = 0) :
    (∃ g n, t = .ref g n) ∨ (∃ g r hx a, t = .constr g .choice r hx a) := by
  cases t with
  | prim g p => cases p <;> simp [uclass] at h
  | enum g r hx a => simp [uclass] at h
  | constr g k r hx a => cases k <;> simp [uclass] at h; exact Or.inr ⟨g, r, hx, a, rfl⟩
  | seqOf g e => simp [uclass] at h
  | ref g n' => exact Or.inl ⟨g, n', rfl⟩

/-! ### inversion of `HasOuter` -/

theorem hasOuter_ext {M : Module} {g : OTag} : HasOuter M .ext g ↔ g = .extp := by
  constructor
  · intro h; cases h; rfl
  · intro h; subst h; exact .ext

theorem hasOuter_tagged {M : Module} {t : Ty} {tg : Tag} (ht : t.tag = some tg) {g : OTag} :
    HasOuter M (.ty t) g ↔ g = .key tg.cls tg.num := by
  constructor
  · intro h
    cases h with
    | tagged h' => rw [ht] at h'; cases h'; rfl
    | univ h' _ => rw [ht] at h'; cases h'
    | ref _ _ => simp [Ty.tag] at ht
    | choice _ _ => simp [Ty.tag] at ht
  · intro h; subst h; exact .tagged ht

theorem hasOuter_univ {M : Module} {t : Ty} (ht : t.tag = none) (hu : uclass t ≠ 0) {g : OTag} :
    HasOuter M (.ty t) g ↔ g = .key .universal (uclass t) := by
  constructor
  · intro h
    cases h with
    | tagged h' => rw [ht] at h'; cases h'
    | univ _ h' => rw [univTag_uclass] at h'; rw [h'.1]
    | ref _ _ => simp [uclass] at hu
    | choice _ _ => simp [uclass] at hu
  · intro h; subst h
    exact .univ ht ((univTag_uclass _ _).2 ⟨rfl, hu⟩)

theorem hasOuter_ref {M : Module} {n : String} {g : OTag} :
    HasOuter M (.ty (.ref none n)) g ↔ ∃ t', M.lookup n = some t' ∧ HasOuter M (.ty t') g := by
  constructor
  · intro h
    cases h with
    | tagged h' => simp [Ty.tag] at h'
    | univ _ h' => simp [univTag] at h'
    | ref h1 h2 => exact ⟨_, h1, h2⟩
  · rintro ⟨t', h1, h2⟩; exact .ref h1 h2

theorem hasOuter_choice {M : Module} {r : List Comp} {hx : Bool} {a : List Comp} {g : OTag} :
    HasOuter M (.ty (.constr none .choice r hx a)) g ↔
      ∃ s, s ∈ Asn1c.Spec.Fix.comps M r hx a ∧ HasOuter M s.ex g := by
  constructor
  · intro h
    cases h with
    | tagged h' => simp [Ty.tag] at h'
    | univ _ h' => simp [univTag] at h'
    | choice h1 h2 => exact ⟨_, h1, h2⟩
  · rintro ⟨s, h1, h2⟩; exact .choice h1 h2

/-! ### `asn1f_fetch_outmost_tag` -/

theorem directTag_some {M : Module} {t : Ty} {g : OTag} (h : directTag t = some g) (g' : OTag) :
    HasOuter M (.ty t) g' ↔ g' = g := by
  unfold directTag at h
  cases ht : t.tag with
  | some tg =>
    rw [ht] at h; simp at h; subst h
    exact hasOuter_tagged ht
  | none =>
    rw [ht] at h; simp at h
    obtain ⟨hu, rfl⟩ := h
    exact hasOuter_univ ht hu

theorem directTag_none {t : Ty} (h : directTag t = none) :
    (∃ n, t = .ref none n) ∨ (∃ r hx a, t = .constr none .choice r hx a) := by
  unfold directTag at h
  cases ht : t.tag with
  | some tg => rw [ht] at h; simp at h
  | none =>
    rw [ht] at h; simp at h
    rcases uclass_zero t h with ⟨g, n, rfl⟩ | ⟨g, r, hx, a, rfl⟩
    · simp [Ty.tag] at ht; subst ht; exact Or.inl ⟨n, rfl⟩
    · simp [Ty.tag] at ht; subst ht; exact Or.inr ⟨r, hx, a, rfl⟩

/-- a fetched tag is *the* outermost tag: the set of possible outermost tags is that singleton -/
theorem fetchOutmost_tag (M : Module) : ∀ (f : Nat) (x : Ex) (g : OTag),
    fetchOutmost M f x = .tag g → ∀ g', HasOuter M x g' ↔ g' = g := by
  intro f
  induction f with
  | zero =>
    intro x g h g'
    cases x with
    | ext => simp [fetchOutmost] at h; subst h; exact hasOuter_ext
    | ty t =>
      unfold fetchOutmost at h
      cases hd : directTag t with
      | some d => rw [hd] at h; simp at h; subst h; exact directTag_some hd g'
      | none =>
        rw [hd] at h
        rcases directTag_none hd with ⟨n, rfl⟩ | ⟨r, hx, a, rfl⟩ <;> simp at h
  | succ f ih =>
    intro x g h g'
    cases x with
    | ext => simp [fetchOutmost] at h; subst h; exact hasOuter_ext
    | ty t =>
      unfold fetchOutmost at h
      cases hd : directTag t with
      | some d => rw [hd] at h; simp at h; subst h; exact directTag_some hd g'
      | none =>
        rw [hd] at h
        rcases directTag_none hd with ⟨n, rfl⟩ | ⟨r, hx, a, rfl⟩
        · simp at h
          cases hl : M.lookup n with
          | none => rw [hl] at h; simp at h
          | some t' =>
            rw [hl] at h; simp at h
            rw [hasOuter_ref]
            constructor
            · rintro ⟨t'', h1, h2⟩
              rw [hl] at h1; cases h1
              exact (ih _ _ h g').1 h2
            · intro e; exact ⟨t', hl, (ih _ _ h g').2 e⟩
        · simp at h

/-- an expression without fetchable tag is an untagged reference or an untagged CHOICE -/
theorem fetchOutmost_fail_shape (M : Module) (f : Nat) (x : Ex) (h : fetchOutmost M f x = .fail) :
    (∃ n, x = .ty (.ref none n)) ∨ (∃ r hx a, x = .ty (.constr none .choice r hx a)) := by
  cases x with
  | ext => cases f <;> simp [fetchOutmost] at h
  | ty t =>
    have hd : directTag t = none := by
      cases hd : directTag t with
      | none => rfl
      | some d => cases f <;> (unfold fetchOutmost at h; rw [hd] at h; simp at h)
    rcases directTag_none hd with ⟨n, rfl⟩ | ⟨r, hx, a, rfl⟩
    · exact Or.inl ⟨n, rfl⟩
    · exact Or.inr ⟨r, hx, a, rfl⟩

/-! ### `classify` -/

theorem classify_fail_a {M : Module} {a b : Ex}
    (hf : fetchOutmost M (fuel M) a = .fail) (hb : fetchOutmost M (fuel M) b ≠ .loop) :
    classify M a b = classifyA a (fetchOutmost M (fuel M) b) b := by
  unfold classify
  rw [hf]
  cases hb' : fetchOutmost M (fuel M) b with
  | loop => exact absurd hb' hb
  | tag y => rfl
  | fail => rfl

theorem classify_tag_a {M : Module} {a b : Ex} {x : OTag}
    (hf : fetchOutmost M (fuel M) a = .tag x) :
    classify M a b =
      match fetchOutmost M (fuel M) b with
      | .loop => .loop
      | .tag y => .both x y
      | .fail => classifyB .fail b := by
  unfold classify
  rw [hf]
  cases fetchOutmost M (fuel M) b <;> rfl

theorem classifyB_ne {rb : Fetch} {b : Ex} :
    (∀ n, classifyB rb b ≠ .followA n) ∧ (∀ r h ad, classifyB rb b ≠ .choiceA r h ad) ∧
    (∀ x y, classifyB rb b ≠ .both x y) ∧ classifyB rb b ≠ .loop := by
  unfold classifyB
  refine ⟨?_, ?_, ?_, ?_⟩ <;> intros <;> split <;> simp

theorem classify_followA {M : Module} {a b : Ex} {n : String}
    (h : classify M a b = .followA n) : a = .ty (.ref none n) := by
  cases hfa : fetchOutmost M (fuel M) a with
  | loop => unfold classify at h; rw [hfa] at h; simp at h
  | tag x =>
    rw [classify_tag_a hfa] at h
    cases hb : fetchOutmost M (fuel M) b <;> rw [hb] at h <;> simp at h
    exact absurd h (classifyB_ne.1 n)
  | fail =>
    by_cases hb : fetchOutmost M (fuel M) b = .loop
    · unfold classify at h; rw [hfa, hb] at h; simp at h
    · rw [classify_fail_a hfa hb] at h
      rcases fetchOutmost_fail_shape M _ _ hfa with ⟨n', e⟩ | ⟨r, hx, ad, e⟩
      · subst e; simp [classifyA] at h; subst h; rfl
      · subst e; simp [classifyA] at h

theorem classify_choiceA {M : Module} {a b : Ex} {r : List Comp} {hx : Bool}
    {ad : List Comp} (h : classify M a b = .choiceA r hx ad) :
    a = .ty (.constr none .choice r hx ad) := by
  cases hfa : fetchOutmost M (fuel M) a with
  | loop => unfold classify at h; rw [hfa] at h; simp at h
  | tag x =>
    rw [classify_tag_a hfa] at h
    cases hb : fetchOutmost M (fuel M) b <;> rw [hb] at h <;> simp at h
    exact absurd h (classifyB_ne.2.1 r hx ad)
  | fail =>
    by_cases hb : fetchOutmost M (fuel M) b = .loop
    · unfold classify at h; rw [hfa, hb] at h; simp at h
    · rw [classify_fail_a hfa hb] at h
      rcases fetchOutmost_fail_shape M _ _ hfa with ⟨n', e⟩ | ⟨r', hx', ad', e⟩
      · subst e; simp [classifyA] at h
      · subst e; simp [classifyA] at h; obtain ⟨rfl, rfl, rfl⟩ := h; rfl

theorem classify_both {M : Module} {a b : Ex} {x y : OTag}
    (h : classify M a b = .both x y) :
    fetchOutmost M (fuel M) a = .tag x ∧ fetchOutmost M (fuel M) b = .tag y := by
  cases hfa : fetchOutmost M (fuel M) a with
  | loop => unfold classify at h; rw [hfa] at h; simp at h
  | tag x' =>
    rw [classify_tag_a hfa] at h
    cases hb : fetchOutmost M (fuel M) b <;> rw [hb] at h <;> simp at h
    · exact ⟨by rw [h.1], by rw [h.2]⟩
    · exact absurd h (classifyB_ne.2.2.1 x y)
  | fail =>
    by_cases hb : fetchOutmost M (fuel M) b = .loop
    · unfold classify at h; rw [hfa, hb] at h; simp at h
    · rw [classify_fail_a hfa hb] at h
      rcases fetchOutmost_fail_shape M _ _ hfa with ⟨n', e⟩ | ⟨r', hx', ad', e⟩
      · subst e; simp [classifyA] at h
      · subst e; simp [classifyA] at h

/-- the final `return 0` is taken only when neither side has any outermost tag to offer: in this
    algebra a failed fetch means "untagged reference or untagged CHOICE", and both are looked into -/
theorem classify_done {M : Module} {a b : Ex} (h : classify M a b = .done) : False := by
  cases hfa : fetchOutmost M (fuel M) a with
  | loop => unfold classify at h; rw [hfa] at h; simp at h
  | tag x =>
    rw [classify_tag_a hfa] at h
    cases hb : fetchOutmost M (fuel M) b with
    | loop => rw [hb] at h; simp at h
    | tag y => rw [hb] at h; simp at h
    | fail =>
      rw [hb] at h; simp only at h
      rcases fetchOutmost_fail_shape M _ _ hb with ⟨n', e⟩ | ⟨r', hx', ad', e⟩
      · subst e; simp [classifyB] at h
      · subst e; simp [classifyB] at h
  | fail =>
    by_cases hb : fetchOutmost M (fuel M) b = .loop
    · unfold classify at h; rw [hfa, hb] at h; simp at h
    · rw [classify_fail_a hfa hb] at h
      rcases fetchOutmost_fail_shape M _ _ hfa with ⟨n', e⟩ | ⟨r', hx', ad', e⟩
      · subst e; simp [classifyA] at h
      · subst e; simp [classifyA] at h

/-! ### pointwise relation of two lists -/

inductive AllRel {α β : Type} (R : α → β → Prop) : List α → List β → Prop
  | nil : AllRel R [] []
  | cons {a b l l'} : R a b → AllRel R l l' → AllRel R (a :: l) (b :: l')

theorem AllRel.append {α β : Type} {R : α → β → Prop} {l1 l2 : List α} {m1 m2 : List β}
    (h1 : AllRel R l1 m1) (h2 : AllRel R l2 m2) : AllRel R (l1 ++ l2) (m1 ++ m2) := by
  induction h1 with
  | nil => exact h2
  | cons hr _ ih => exact .cons hr ih

theorem AllRel.map {α β γ δ : Type} {R : α → β → Prop} {S : γ → δ → Prop} {f : α → γ} {g : β → δ}
    (hfg : ∀ a b, R a b → S (f a) (g b)) {l : List α} {m : List β} (h : AllRel R l m) :
    AllRel S (l.map f) (m.map g) := by
  induction h with
  | nil => exact .nil
  | cons hr _ ih => exact .cons (hfg _ _ hr) ih

theorem AllRel.length {α β : Type} {R : α → β → Prop} {l : List α} {m : List β}
    (h : AllRel R l m) : l.length = m.length := by
  induction h with
  | nil => rfl
  | cons _ _ ih => simp [ih]

theorem AllRel.mem_left {α β : Type} {R : α → β → Prop} {l : List α} {m : List β}
    (h : AllRel R l m) {a : α} (ha : a ∈ l) : ∃ b, b ∈ m ∧ R a b := by
  induction h with
  | nil => cases ha
  | cons hr _ ih =>
    rcases List.mem_cons.1 ha with rfl | ha'
    · exact ⟨_, List.mem_cons_self, hr⟩
    · obtain ⟨b, hb, hr'⟩ := ih ha'; exact ⟨b, List.mem_cons_of_mem _ hb, hr'⟩

theorem AllRel.mem_right {α β : Type} {R : α → β → Prop} {l : List α} {m : List β}
    (h : AllRel R l m) {b : β} (hb : b ∈ m) : ∃ a, a ∈ l ∧ R a b := by
  induction h with
  | nil => cases hb
  | cons hr _ ih =>
    rcases List.mem_cons.1 hb with rfl | hb'
    · exact ⟨_, List.mem_cons_self, hr⟩
    · obtain ⟨a, ha, hr'⟩ := ih hb'; exact ⟨a, List.mem_cons_of_mem _ ha, hr'⟩

/-! ### the members after the tag fix (Impl) and after the tagging environment (Spec) carry
    the same (class, number) and the same untagged type -/

def keyOf (t : Ty) : Option (TagClass × Nat) := t.tag.map (fun g => (g.cls, g.num))

def TyRel (t t' : Ty) : Prop := keyOf t = keyOf t' ∧ t.withTag none = t'.withTag none

def ExRel : Ex → Ex → Prop
  | .ext, .ext => True
  | .ty t, .ty t' => TyRel t t'
  | _, _ => False

def SlotRel (s s' : Slot) : Prop := s.opt = s'.opt ∧ ExRel s.ex s'.ex

def CompRel (c c' : Comp) : Prop := c.name = c'.name ∧ c.opt = c'.opt ∧ TyRel c.ty c'.ty

theorem withTag_tag (t : Ty) (g : Option Tag) : (t.withTag g).tag = g := by
  cases t <;> rfl

theorem withTag_withTag (t : Ty) (g g' : Option Tag) : (t.withTag g).withTag g' = t.withTag g' := by
  cases t <;> rfl

theorem withTag_self (t : Ty) : t.withTag t.tag = t := by
  cases t <;> rfl

theorem TyRel.refl (t : Ty) : TyRel t t := ⟨rfl, rfl⟩

theorem TyRel.hasOuter {M : Module} {t t' : Ty} (h : TyRel t t') (g : OTag) :
    HasOuter M (.ty t) g ↔ HasOuter M (.ty t') g := by
  obtain ⟨hk, hb⟩ := h
  cases ht : t.tag with
  | some tg =>
    cases ht' : t'.tag with
    | none => simp [keyOf, ht, ht'] at hk
    | some tg' =>
      simp [keyOf, ht, ht'] at hk
      rw [hasOuter_tagged ht, hasOuter_tagged ht', hk.1, hk.2]
  | none =>
    cases ht' : t'.tag with
    | some tg' => simp [keyOf, ht, ht'] at hk
    | none =>
      have e1 := withTag_self t
      have e2 := withTag_self t'
      rw [ht] at e1; rw [ht'] at e2
      rw [← e1, ← e2, hb]

theorem ExRel.hasOuter {M : Module} {x x' : Ex} (h : ExRel x x') (g : OTag) :
    HasOuter M x g ↔ HasOuter M x' g := by
  cases x <;> cases x' <;> simp [ExRel] at h
  · exact TyRel.hasOuter h g
  · exact Iff.rfl

theorem ExRel.clash {M : Module} {a a' b b' : Ex} (ha : ExRel a a') (hb : ExRel b b') :
    Clash M a b ↔ Clash M a' b' := by
  unfold Clash outerTags
  constructor
  · rintro ⟨g, h1, h2⟩; exact ⟨g, (ha.hasOuter g).1 h1, (hb.hasOuter g).1 h2⟩
  · rintro ⟨g, h1, h2⟩; exact ⟨g, (ha.hasOuter g).2 h1, (hb.hasOuter g).2 h2⟩

theorem fixTypeTag_rel {M : Module} {t t' : Ty} {f : Bool} (h : fixTypeTag M t = some (t', f)) :
    TyRel t' t := by
  unfold fixTypeTag at h
  cases ht : t.tag with
  | none => rw [ht] at h; simp at h; rw [← h.1]; exact TyRel.refl _
  | some g =>
    rw [ht] at h; simp only at h
    cases hm : mustExplicit M t with
    | none => rw [hm] at h; simp at h
    | some me =>
      rw [hm] at h; simp only at h
      have key : ∀ m : TagMode, TyRel (t.withTag (some { g with mode := m })) t := by
        intro m
        refine ⟨?_, ?_⟩
        · simp [keyOf, withTag_tag, ht]
        · rw [withTag_withTag]
      repeat' split at h
      all_goals (simp only [Option.some.injEq, Prod.mk.injEq] at h; rw [← h.1]; exact key _)

theorem fixComps_rel {M : Module} : ∀ {cs cs' : List Comp} {f : Bool},
    fixComps M cs = some (cs', f) → AllRel CompRel cs' cs := by
  intro cs
  induction cs with
  | nil => intro cs' f h; simp [fixComps] at h; obtain ⟨h1, _⟩ := h; subst h1; exact .nil
  | cons c rest ih =>
    intro cs' f h
    unfold fixComps at h
    cases hr : fixComps M rest with
    | none => rw [hr] at h; split at h <;> simp_all
    | some pr =>
      obtain ⟨rest', fr⟩ := pr
      rw [hr] at h
      cases hc : (if c.ty.tag.isSome then fixTypeTag M c.ty else some (c.ty, false)) with
      | none => rw [hc] at h; simp at h
      | some pc =>
        obtain ⟨t', f1⟩ := pc
        rw [hc] at h; simp at h
        rw [← h.1]
        refine .cons ⟨rfl, rfl, ?_⟩ (ih hr)
        split at hc
        · exact fixTypeTag_rel hc
        · simp at hc; rw [← hc.1]; exact TyRel.refl _

theorem comp_withTag_ty (c : Comp) (g : Option Tag) : (c.withTag g).ty = c.ty.withTag g := by
  cases c; rfl
theorem comp_withTag_name (c : Comp) (g : Option Tag) : (c.withTag g).name = c.name := by
  cases c; rfl
theorem comp_withTag_opt (c : Comp) (g : Option Tag) : (c.withTag g).opt = c.opt := by
  cases c; rfl

theorem autoNumber_rel {M : Module} : ∀ {cs1 cs0 cs2 : List Comp} {i : Nat},
    AllRel CompRel cs1 cs0 → autoNumber M i cs1 = some cs2 →
    AllRel CompRel cs2 (Asn1c.Spec.Fix.number i cs0) := by
  intro cs1 cs0 cs2 i hrel
  induction hrel generalizing cs2 i with
  | nil => intro h; simp [autoNumber] at h; subst h; exact .nil
  | cons hr _ ih =>
    rename_i c1 c0 l1 l0 _
    intro h
    unfold autoNumber at h
    cases hm : mustExplicit M c1.ty with
    | none => rw [hm] at h; simp at h
    | some me =>
      cases hn : autoNumber M (i + 1) l1 with
      | none => rw [hm, hn] at h; simp at h
      | some rest' =>
        rw [hm, hn] at h; simp at h
        subst h
        unfold Asn1c.Spec.Fix.number
        refine .cons ⟨?_, ?_, ?_, ?_⟩ (ih hn)
        · rw [comp_withTag_name, comp_withTag_name]; exact hr.1
        · rw [comp_withTag_opt, comp_withTag_opt]; exact hr.2.1
        · rw [comp_withTag_ty, comp_withTag_ty]; simp [keyOf, withTag_tag]
        · rw [comp_withTag_ty, comp_withTag_ty, withTag_withTag, withTag_withTag]; exact hr.2.2.2

theorem anyTagged_rel {cs cs' : List Comp} (h : AllRel CompRel cs' cs) :
    anyTagged cs' = anyTagged cs := by
  induction h with
  | nil => rfl
  | cons hr _ ih =>
    rename_i c' c _ _ _
    unfold anyTagged at *
    simp only [List.any_cons]
    rw [ih]
    congr 1
    have hk := hr.2.2.1
    unfold keyOf at hk
    cases h1 : c'.ty.tag <;> cases h2 : c.ty.tag <;> simp [h1, h2] at hk ⊢

theorem anyTagged_false_iff (cs : List Comp) :
    anyTagged cs = false ↔ cs.all (fun c => c.ty.tag.isNone) = true := by
  induction cs with
  | nil => simp [anyTagged]
  | cons c rest ih =>
    unfold anyTagged at *
    simp only [List.any_cons, List.all_cons, Bool.or_eq_false_iff, Bool.and_eq_true]
    rw [ih]
    cases c.ty.tag <;> simp

theorem slotsOf_rel {r r' a a' : List Comp} (h : Bool) (hr : AllRel CompRel r r')
    (ha : AllRel CompRel a a') : AllRel SlotRel (slotsOf r h a) (slotsOf r' h a') := by
  have cs : ∀ c c', CompRel c c' → SlotRel c.slot c'.slot := by
    intro c c' hc
    refine ⟨?_, ?_⟩
    · simp [Comp.slot, hc.2.1]
    · simp [Comp.slot, ExRel]; exact hc.2.2
  unfold slotsOf
  apply AllRel.append (AllRel.map cs hr)
  cases h
  · exact AllRel.map cs ha
  · exact .cons ⟨rfl, by simp [Slot.marker, ExRel]⟩ (AllRel.map cs ha)

/-- `asn1f_fix_constr_tag` + `asn1f_fix_constr_autotag` realise the X.680 tagging environment
    as far as outermost tags are concerned -/
theorem comps_rel {M : Module} {r a : List Comp} {h : Bool} {ss : List Slot}
    (hc : Asn1c.Impl.Fixer.comps M r h a = some ss) :
    AllRel SlotRel ss (Asn1c.Spec.Fix.comps M r h a) := by
  unfold Asn1c.Impl.Fixer.comps at hc
  cases hf : fixConstr M r a with
  | none => rw [hf] at hc; simp at hc
  | some fc =>
    rw [hf] at hc; simp at hc; subst hc
    unfold fixConstr at hf
    cases h1 : fixComps M r with
    | none => rw [h1] at hf; simp at hf
    | some p1 =>
      obtain ⟨r1, f1⟩ := p1
      cases h2 : fixComps M a with
      | none => rw [h1, h2] at hf; simp at hf
      | some p2 =>
        obtain ⟨a1, f2⟩ := p2
        rw [h1, h2] at hf; simp only at hf
        have hr1 := fixComps_rel h1
        have ha1 := fixComps_rel h2
        unfold Asn1c.Spec.Fix.comps autoSelected
        by_cases hauto : (M.dflt == .automatic && !anyTagged r) = true
        · rw [if_pos hauto] at hf
          simp only [Bool.and_eq_true, Bool.not_eq_true'] at hauto
          by_cases hext : anyTagged a = true
          · rw [if_pos hext] at hf; simp at hf; subst hf
            have : (a.all fun c => c.ty.tag.isNone) = false := by
              cases hx : (a.all fun c => c.ty.tag.isNone) with
              | false => rfl
              | true => rw [← anyTagged_false_iff] at hx; rw [hx] at hext; cases hext
            simp only [this, Bool.and_false]
            exact slotsOf_rel h hr1 ha1
          · rw [if_neg hext] at hf
            cases h3 : autoNumber M 0 r1 with
            | none => rw [h3] at hf; simp at hf
            | some r2 =>
              cases h4 : autoNumber M r1.length a1 with
              | none => rw [h3, h4] at hf; simp at hf
              | some a2 =>
                rw [h3, h4] at hf; simp at hf; subst hf
                have e1 : (r.all fun c => c.ty.tag.isNone) = true := (anyTagged_false_iff r).1 hauto.2
                have e2 : (a.all fun c => c.ty.tag.isNone) = true :=
                  (anyTagged_false_iff a).1 (by simpa using hext)
                simp only [hauto.1, e1, e2, Bool.and_self, if_true]
                have hl : r1.length = r.length := hr1.length
                rw [hl] at h4
                exact slotsOf_rel h (autoNumber_rel hr1 h3) (autoNumber_rel ha1 h4)
        · rw [if_neg hauto] at hf; simp at hf; subst hf
          have : (M.dflt == .automatic && (r.all fun c => c.ty.tag.isNone)) = false := by
            cases hx : (r.all fun c => c.ty.tag.isNone) with
            | false => simp
            | true =>
              rw [← anyTagged_false_iff] at hx
              simp [hx] at hauto
              simp [hauto]
          simp only [this, Bool.false_and]
          exact slotsOf_rel h hr1 ha1

/-! ### `_asn1f_compare_tags` -/

theorem anyClash_spec : ∀ (l : List (Option Bool)) (r : Bool), anyClash l = some r →
    (r = true → some true ∈ l) ∧ (r = false → ∀ x ∈ l, x = some false) := by
  intro l
  induction l with
  | nil =>
    intro r h
    simp [anyClash] at h; subst h
    simp
  | cons x rest ih =>
    intro r h
    cases x with
    | none => simp [anyClash] at h
    | some r0 =>
      unfold anyClash at h
      cases r0 with
      | true =>
        simp at h; subst h
        exact ⟨fun _ => List.mem_cons_self, fun hf => by cases hf⟩
      | false =>
        simp at h
        obtain ⟨ih1, ih2⟩ := ih r h
        constructor
        · intro hcl; exact List.mem_cons_of_mem _ (ih1 hcl)
        · intro hcl x hx
          rcases List.mem_cons.1 hx with rfl | hx'
          · rfl
          · exact ih2 hcl x hx'

theorem Clash.symm {M : Module} {a b : Ex} : Clash M a b ↔ Clash M b a := by
  unfold Clash
  constructor <;> (rintro ⟨g, h1, h2⟩; exact ⟨g, h2, h1⟩)

/-- **`_asn1f_compare_tags` is exact** whenever it did not run out of fuel: it reports a clash
    iff the two outer-tag sets intersect. -/
theorem compareTags_sound (M : Module) : ∀ (f : Nat) (a b : Ex) (r : Bool),
    compareTags M f a b = some r → (r = true ↔ Clash M a b) := by
  intro f
  induction f with
  | zero => intro a b r h; simp [compareTags] at h
  | succ f ih =>
    intro a b r h
    unfold compareTags at h
    cases hs : classify M a b with
    | loop => rw [hs] at h; simp at h
    | both x y =>
      rw [hs] at h; simp at h; subst h
      obtain ⟨h1, h2⟩ := classify_both hs
      have ha := fetchOutmost_tag M _ _ _ h1
      have hb := fetchOutmost_tag M _ _ _ h2
      simp only [beq_iff_eq]
      unfold Clash outerTags
      constructor
      · intro e; subst e; exact ⟨x, (ha x).2 rfl, (hb x).2 rfl⟩
      · rintro ⟨g, g1, g2⟩; rw [← (ha g).1 g1, ← (hb g).1 g2]
    | followA n =>
      rw [hs] at h; simp only at h
      have ea := classify_followA hs
      subst ea
      cases hl : M.lookup n with
      | none =>
        rw [hl] at h; simp at h; subst h
        simp only [Bool.false_eq_true, false_iff]
        rintro ⟨g, g1, _⟩
        obtain ⟨t', e, _⟩ := hasOuter_ref.1 g1
        rw [hl] at e; cases e
      | some t' =>
        rw [hl] at h; simp only at h
        rw [ih _ _ r h]
        unfold Clash outerTags
        constructor
        · rintro ⟨g, g1, g2⟩; exact ⟨g, hasOuter_ref.2 ⟨t', hl, g1⟩, g2⟩
        · rintro ⟨g, g1, g2⟩
          obtain ⟨t'', e, g1'⟩ := hasOuter_ref.1 g1
          rw [hl] at e; cases e
          exact ⟨g, g1', g2⟩
    | choiceA rr hx ad =>
      rw [hs] at h; simp only at h
      have ea := classify_choiceA hs
      subst ea
      cases hcomps : Asn1c.Impl.Fixer.comps M rr hx ad with
      | none => rw [hcomps] at h; simp at h
      | some ss =>
        rw [hcomps] at h; simp only at h
        have hrel := comps_rel hcomps
        obtain ⟨s1, s2⟩ := anyClash_spec _ r h
        constructor
        · intro hcl
          obtain ⟨s, hs', e⟩ := List.mem_map.1 (s1 hcl)
          have hcl' := (ih _ _ true e).1 rfl
          obtain ⟨s', hs'', hr⟩ := hrel.mem_left hs'
          obtain ⟨g, g1, g2⟩ := hcl'
          exact ⟨g, hasOuter_choice.2 ⟨s', hs'', (hr.2.hasOuter g).1 g1⟩, g2⟩
        · rintro ⟨g, g1, g2⟩
          obtain ⟨s', hs', g1'⟩ := hasOuter_choice.1 g1
          obtain ⟨s, hs'', hr⟩ := hrel.mem_right hs'
          cases hcl : r with
          | true => rfl
          | false =>
            have e := s2 hcl _ (List.mem_map.2 ⟨s, hs'', rfl⟩)
            have := (ih _ _ false e).2 ⟨g, (hr.2.hasOuter g).2 g1', g2⟩
            cases this
    | swap =>
      rw [hs] at h; simp only at h
      rw [ih _ _ r h]; exact Clash.symm
    | done => exact (classify_done hs).elim

/-! ### `asn1f_check_constr_tags_distinct` -/

/-- recursive form of the distinctness rules: `a` against the following members -/
def runOk (M : Module) (isSeq : Bool) (a : Slot) : List Slot → Prop
  | [] => True
  | b :: rest => ¬ Clash M a.ex b.ex ∧ ((isSeq && !b.opt) = false → runOk M isSeq a rest)

def allOk (M : Module) (isSeq : Bool) : List Slot → Prop
  | [] => True
  | a :: rest => ((!isSeq || a.opt) = true → runOk M isSeq a rest) ∧ allOk M isSeq rest

theorem checkRun_spec (M : Module) (isSeq : Bool) (v : Slot) : ∀ (rest : List Slot) (r : Bool),
    checkRun M isSeq v rest = some r → (r = false ↔ runOk M isSeq v rest) := by
  intro rest
  induction rest with
  | nil => intro r h; simp [checkRun] at h; subst h; simp [runOk]
  | cons nv rest ih =>
    intro r h
    unfold checkRun at h
    cases hcmp : compareTags M (fuel M) v.ex nv.ex with
    | none => rw [hcmp] at h; simp at h
    | some c =>
      rw [hcmp] at h; simp only at h
      unfold runOk
      have h1 := compareTags_sound M _ _ _ _ hcmp
      by_cases hstop : (isSeq && !nv.opt) = true
      · rw [if_pos hstop] at h; simp at h; subst h
        rw [← h1]; simp [hstop]
      · rw [if_neg hstop] at h
        cases hr : checkRun M isSeq v rest with
        | none => rw [hr] at h; simp at h
        | some r' =>
          rw [hr] at h; simp at h; subst h
          have h2 := ih r' hr
          have hstop' : (isSeq && !nv.opt) = false := by simpa using hstop
          rw [← h1, ← h2]
          simp only [Bool.or_eq_false_iff, hstop', forall_const]
          constructor
          · rintro ⟨a, b⟩; exact ⟨by simp [a], b⟩
          · rintro ⟨a, b⟩; exact ⟨by simpa using a, b⟩

theorem checkDistinct_spec (M : Module) (isSeq : Bool) : ∀ (ss : List Slot) (r : Bool),
    checkDistinct M isSeq ss = some r → (r = false ↔ allOk M isSeq ss) := by
  intro ss
  induction ss with
  | nil => intro r h; simp [checkDistinct] at h; subst h; simp [allOk]
  | cons v rest ih =>
    intro r h
    unfold checkDistinct at h
    cases hr : checkDistinct M isSeq rest with
    | none => rw [hr] at h; split at h <;> simp_all
    | some r' =>
      rw [hr] at h
      cases hv : (if (!isSeq || v.opt) = true then checkRun M isSeq v rest else some false) with
      | none => rw [hv] at h; simp at h
      | some c =>
        rw [hv] at h; simp at h; subst h
        have h2 := ih r' hr
        unfold allOk
        rw [← h2]
        simp only [Bool.or_eq_false_iff]
        by_cases hcond : (!isSeq || v.opt) = true
        · rw [if_pos hcond] at hv
          have h1 := checkRun_spec M isSeq v rest c hv
          rw [← h1]; simp [hcond]
        · rw [if_neg hcond] at hv; simp at hv; subst hv
          simp [hcond]

theorem runOk_rel {M : Module} {isSeq : Bool} {a a' : Slot} (ha : SlotRel a a') :
    ∀ {l l' : List Slot}, AllRel SlotRel l l' → (runOk M isSeq a l ↔ runOk M isSeq a' l') := by
  intro l l' h
  induction h with
  | nil => simp [runOk]
  | cons hr _ ih =>
    unfold runOk
    rw [ExRel.clash ha.2 hr.2, hr.1, ih]

theorem allOk_rel {M : Module} {isSeq : Bool} :
    ∀ {l l' : List Slot}, AllRel SlotRel l l' → (allOk M isSeq l ↔ allOk M isSeq l') := by
  intro l l' h
  induction h with
  | nil => simp [allOk]
  | cons hr hrest ih =>
    unfold allOk
    rw [runOk_rel hr hrest, hr.1, ih]

/-- SET / CHOICE: the recursive form is "all pairs" -/
theorem runOk_false_iff (M : Module) (a : Slot) (l : List Slot) :
    runOk M false a l ↔ ∀ b ∈ l, ¬ Clash M a.ex b.ex := by
  induction l with
  | nil => simp [runOk]
  | cons b rest ih => simp [runOk, ih]

theorem allOk_false_iff (M : Module) (ss : List Slot) : allOk M false ss ↔ allDistinct M ss := by
  unfold allDistinct
  induction ss with
  | nil => simp [allOk]
  | cons a rest ih =>
    simp only [allOk, List.pairwise_cons, Bool.not_false, Bool.true_or, forall_const]
    rw [ih, runOk_false_iff]

/-- SEQUENCE: the recursive form is the run rule -/
theorem runOk_true_iff (M : Module) (a : Slot) (l : List Slot) :
    runOk M true a l ↔
      ∀ mid b post, l = mid ++ b :: post → (∀ m ∈ mid, m.opt = true) → ¬ Clash M a.ex b.ex := by
  induction l with
  | nil =>
    simp only [runOk, true_iff]
    intro mid b post h; cases mid <;> simp at h
  | cons c rest ih =>
    unfold runOk
    rw [ih]
    constructor
    · rintro ⟨h1, h2⟩ mid b post e hm
      cases mid with
      | nil => simp at e; rw [← e.1]; exact h1
      | cons m mid' =>
        simp at e
        obtain ⟨rfl, e2⟩ := e
        have hc : c.opt = true := hm c List.mem_cons_self
        exact h2 (by simp [hc]) mid' b post e2 (fun m hm' => hm m (List.mem_cons_of_mem _ hm'))
    · intro h
      refine ⟨h [] c rest rfl (by simp), ?_⟩
      intro hc mid b post e hm
      have hc' : c.opt = true := by simpa using hc
      apply h (c :: mid) b post (by simp [e])
      intro m hm'
      rcases List.mem_cons.1 hm' with rfl | hm''
      · exact hc'
      · exact hm m hm''

theorem allOk_true_iff (M : Module) (ss : List Slot) : allOk M true ss ↔ runsDistinct M ss := by
  unfold runsDistinct
  induction ss with
  | nil =>
    simp only [allOk, true_iff]
    intro pre a mid b post h; cases pre <;> simp at h
  | cons x rest ih =>
    unfold allOk
    rw [ih, runOk_true_iff]
    constructor
    · rintro ⟨h1, h2⟩ pre a mid b post e ha hm
      cases pre with
      | nil =>
        simp at e
        obtain ⟨rfl, e2⟩ := e
        exact h1 (by simp [ha]) mid b post e2 hm
      | cons p pre' =>
        simp at e
        exact h2 pre' a mid b post e.2 ha hm
    · intro h
      constructor
      · intro hx mid b post e hm
        have hx' : x.opt = true := by simpa using hx
        exact h [] x mid b post (by simp [e]) hx' hm
      · intro pre a mid b post e ha hm
        exact h (x :: pre) a mid b post (by simp [e]) ha hm

theorem allOk_iff_tagsDistinct (M : Module) (k : CKind) (ss : List Slot) :
    allOk M (k == .sequence) ss ↔ tagsDistinct M k ss := by
  cases k
  · exact allOk_true_iff M ss
  · exact allOk_false_iff M ss
  · exact allOk_false_iff M ss

end Asn1c.Proofs.Fixer
